"""Parser for the construction macros of scad_tree/src/scad.rs (shared by gen_macros.py and the
harness generator). Handles exactly the syntactic subset the macros use and fails loudly otherwise."""
import re, os

CONSTRUCTION = ['union', 'difference', 'intersection', 'circle', 'square', 'polygon', 'text', 'import', 'projection',
                'sphere', 'cube', 'cylinder', 'polyhedron', 'linear_extrude', 'rotate_extrude', 'surface', 'translate',
                'rotate', 'scale', 'resize', 'mirror', 'color', 'offset', 'hull', 'minkowski']

class ParseError(Exception): pass

def read_src(repo):
    return open(os.path.join(repo, 'scad_tree/src/scad.rs'), newline='').read().replace('\r\n', '\n')

def parse_scadop_decl(src):
    m = re.search(r'pub enum ScadOp \{(.*?)\n\}\n', src, re.S)
    if not m: raise ParseError('enum ScadOp not found')
    body = re.sub(r'//[^\n]*', '', m.group(1))
    decl = {}
    pos = 0
    for vm in re.finditer(r'(\w+)\s*(\{([^}]*)\})?\s*,', body):
        name = vm.group(1); fields = []
        if vm.group(3):
            for f in split_top(vm.group(3)):
                f = f.strip()
                if not f: continue
                fm = re.fullmatch(r'(\w+)\s*:\s*(.+)', f, re.S)
                if not fm: raise ParseError('bad field in ScadOp::%s: %r' % (name, f))
                fields.append((fm.group(1), ' '.join(fm.group(2).split())))
        decl[name] = fields
    return decl

def split_top(s, sep=','):
    out = []; depth = 0; cur = ''
    instr = False
    for ch in s:
        if ch == '"': instr = not instr
        if not instr:
            if ch in '([{<': depth += 1
            if ch in ')]}>': depth -= 1
        if ch == sep and depth == 0 and not instr:
            out.append(cur); cur = ''
        else: cur += ch
    if cur.strip(): out.append(cur)
    return out

# ---- patterns
def parse_pattern(pat):
    """-> list of items: ('kw', kw, var) ('pos', var) ('kwvec', kw, [vars]) ('vec', [vars]) ('children',)"""
    items = []
    for part in split_top(pat):
        p = part.strip()
        if not p: continue
        if re.fullmatch(r'\$\(\$child:expr\);\+;', p): items.append(('children',)); continue
        m = re.fullmatch(r'(\w+)=\$(\w+):expr', p)
        if m: items.append(('kw', m.group(1), m.group(2))); continue
        m = re.fullmatch(r'\$(\w+):expr', p)
        if m: items.append(('pos', m.group(1))); continue
        m = re.fullmatch(r'(\w+)=\[(.*)\]', p)
        if m:
            vs = [re.fullmatch(r'\$(\w+):expr', x.strip()) for x in split_top(m.group(2))]
            if not all(vs): raise ParseError('bad vector pattern ' + p)
            items.append(('kwvec', m.group(1), [v.group(1) for v in vs])); continue
        m = re.fullmatch(r'\[(.*)\]', p)
        if m:
            vs = [re.fullmatch(r'\$(\w+):expr', x.strip()) for x in split_top(m.group(1))]
            if not all(vs): raise ParseError('bad vector pattern ' + p)
            items.append(('vec', [v.group(1) for v in vs])); continue
        raise ParseError('unsupported pattern item: %r' % p)
    return items

def pattern_vars(items):
    vs = []
    for it in items:
        if it[0] == 'kw': vs.append(it[2])
        elif it[0] == 'pos': vs.append(it[1])
        elif it[0] == 'kwvec': vs += it[2]
        elif it[0] == 'vec': vs += it[1]
    return vs

# ---- template expressions
def parse_texpr(e):
    e = e.strip()
    m = re.fullmatch(r'\$(\w+)', e)
    if m: return ('var', m.group(1))
    m = re.fullmatch(r'\$(\w+) / 2\.0', e)
    if m: return ('half', ('var', m.group(1)))
    m = re.fullmatch(r'\$(\w+)\.to_string\(\)', e)
    if m: return ('tostring', ('var', m.group(1)))
    m = re.fullmatch(r'\$(\w+)\.(\w+)', e)
    if m: return ('field', m.group(1), m.group(2))
    m = re.fullmatch(r'"([^"\\]*)"\.to_string\(\)', e)
    if m: return ('strlit', m.group(1))
    if e == 'None': return ('none',)
    if e in ('true', 'false'): return ('bool', e == 'true')
    m = re.fullmatch(r'Some\((.*)\)', e, re.S)
    if m: return ('some', parse_texpr(m.group(1)))
    m = re.fullmatch(r'(-?\d+\.\d+)', e)
    if m: return ('flit', m.group(1))
    m = re.fullmatch(r'(\d+)', e)
    if m: return ('nlit', m.group(1))
    m = re.fullmatch(r'(Text\w+)::(\w+)', e)
    if m: return ('enum', m.group(1), m.group(2))
    m = re.fullmatch(r'Pt([234])::new\((.*)\)', e, re.S)
    if m:
        args = [parse_texpr(x) for x in split_top(m.group(2))]
        if len(args) != int(m.group(1)): raise ParseError('Pt arity: ' + e)
        return ('pt', args)
    m = re.fullmatch(r'\((.*)\)', e, re.S)
    if m:
        args = [parse_texpr(x) for x in split_top(m.group(1))]
        return ('tup', args)
    # let-bound local (introduced by the evaluate-once repair): a bare identifier
    m = re.fullmatch(r'([a-z_][a-z0-9_]*)', e)
    if m: return ('local', m.group(1))
    m = re.fullmatch(r'([a-z_][a-z0-9_]*) / 2\.0', e)
    if m: return ('half', ('local', m.group(1)))
    m = re.fullmatch(r'([a-z_][a-z0-9_]*)\.(\w+)', e)
    if m: return ('lfield', m.group(1), m.group(2))
    raise ParseError('unsupported template expression: %r' % e)

def parse_arm(name, pat, code):
    items = parse_pattern(pat)
    # layout-independent form: white space collapsed, no trailing comma before a closing bracket (the repetition `$($child,)+`
    # keeps its comma), no space before a method call
    norm = ' '.join(code.split()).replace('$($child,)+', '$($child@)+')
    norm = re.sub(r',\s*([}\])])', r' \1', norm).replace('$($child@)+', '$($child,)+')
    norm = re.sub(r'\s+\.', '.', norm)
    norm = re.sub(r'\(\s+', '(', norm); norm = re.sub(r'\s+\)', ')', norm); norm = re.sub(r'\[\s+', '[', norm); norm = re.sub(r'\s+\]', ']', norm)
    lets = []
    # optional block form: { let a = $a; ... Scad { ... } }
    bm = re.fullmatch(r'\{ ((?:let \w+ = \$\w+; )+)(Scad \{.*\}) \}', norm)
    if bm:
        for lm in re.finditer(r'let (\w+) = \$(\w+); ', bm.group(1)): lets.append((lm.group(1), lm.group(2)))
        norm = bm.group(2)
    m = re.fullmatch(r'Scad \{ op: ScadOp::(\w+)( \{(.*)\})?, children: (vec!\[\$\(\$child,\)\+\]|Vec::new\(\)) \}', norm)
    if not m: raise ParseError('%s: arm body is not a Scad struct literal: %s' % (name, norm[:200]))
    variant = m.group(1)
    fields = []
    if m.group(3):
        for f in split_top(m.group(3)):
            f = f.strip()
            if not f: continue
            fm = re.fullmatch(r'(\w+):\s*(.*)', f, re.S)
            if not fm: raise ParseError('%s: bad field %r' % (name, f))
            fields.append((fm.group(1), parse_texpr(fm.group(2))))
    has_children = m.group(4).startswith('vec!')
    if has_children != (('children',) in items):
        raise ParseError('%s: children in pattern and template disagree' % name)
    return {'macro': name, 'pattern': items, 'pattern_text': pat, 'variant': variant, 'fields': fields,
            'children': has_children, 'lets': lets}

def skip_ws(s, i):
    """index of the next character that is neither white space nor part of a // comment"""
    while i < len(s):
        if s[i].isspace(): i += 1
        elif s.startswith('//', i):
            j = s.find('\n', i); i = len(s) if j < 0 else j + 1
        else: break
    return i

def match_close(s, i):
    """index of the bracket closing the one at s[i]; string literals and // comments are skipped"""
    pairs = {'(': ')', '[': ']', '{': '}'}
    stack = []
    k = i
    while k < len(s):
        c = s[k]
        if c == '"':
            k += 1
            while k < len(s) and s[k] != '"':
                k += 2 if s[k] == '\\' else 1
        elif s.startswith('//', k):
            j = s.find('\n', k); k = len(s) if j < 0 else j
        elif c in pairs: stack.append(pairs[c])
        elif c in ')]}':
            if not stack or stack.pop() != c: raise ParseError('unbalanced brackets near %r' % s[max(0, k - 30):k + 10])
            if not stack: return k
        k += 1
    raise ParseError('unclosed bracket at %r' % s[i:i + 40])

def parse_all(repo):
    src = read_src(repo)
    end = src.index('#[cfg(test)]') if '#[cfg(test)]' in src else len(src)
    src0 = src[:end]
    arms = []
    found = set()
    # layout-independent: macro bodies and arms are delimited by matching brackets, not by line structure
    for m in re.finditer(r'macro_rules!\s*(\w+)\s*\{', src0):
        name = m.group(1)
        if name not in CONSTRUCTION: continue
        found.add(name)
        bend = match_close(src0, m.end() - 1)
        body = src0[m.end():bend]
        i = 0
        while True:
            i = skip_ws(body, i)
            if i >= len(body): break
            if body[i] != '(': raise ParseError('%s: arm does not start with a pattern: %r' % (name, body[i:i + 40]))
            pe = match_close(body, i)
            pat = ' '.join(body[i + 1:pe].split())
            i = skip_ws(body, pe + 1)
            if body[i:i + 2] != '=>': raise ParseError('%s: no => after pattern' % name)
            i = skip_ws(body, i + 2)
            if body[i] != '{': raise ParseError('%s: arm body is not braced' % name)
            ce = match_close(body, i)
            arms.append(parse_arm(name, pat, body[i + 1:ce]))
            i = skip_ws(body, ce + 1)
            if i < len(body) and body[i] == ';': i += 1
    missing = [n for n in CONSTRUCTION if n not in found]
    if missing: raise ParseError('macros not found: ' + ', '.join(missing))
    docs = {}
    for m in re.finditer(r'((?:///[^\n]*\n)+)#\[macro_export\]\nmacro_rules! (\w+)', src0):
        lines = [l[3:].strip() for l in m.group(1).split('\n') if l.startswith('///')]
        docs[m.group(2)] = [l for l in lines if re.match(r'%s!\(' % m.group(2), l)]
    return arms, parse_scadop_decl(src), docs

def uses(e, v):
    k = e[0]
    if k == 'var': return 1 if e[1] == v else 0
    if k in ('half', 'tostring', 'some'): return uses(e[1], v)
    if k == 'field': return 1 if e[1] == v else 0
    if k in ('pt', 'tup'): return sum(uses(x, v) for x in e[1])
    return 0


# ---- documented invocation forms -> shape signatures (to be matched against arm patterns)
def arm_signature(items):
    out = []
    for it in items:
        if it[0] == 'kw': out.append(it[1] + '=')
        elif it[0] == 'pos': out.append('_')
        elif it[0] == 'kwvec': out.append('%s=[%d]' % (it[1], len(it[2])))
        elif it[0] == 'vec': out.append('[%d]' % len(it[1]))
        elif it[0] == 'children': out.append('children')
    return out

def doc_signature(line):
    """the shape of a documented form: positional / keyword= / [k] vectors / children, in written order; None if unreadable"""
    m = re.match(r"\s*(\w+)!\((.*)\)\s*;?\s*$", line)
    if not m: return None
    name, body = m.group(1), m.group(2).replace('\\[', '[').replace('\\]', ']')
    out = []
    for p in split_top(body.replace(';', ',')):
        p = p.strip()
        if not p or p == '...': continue
        if re.search(r"child(ren)?: Scad", p): out.append('children'); continue
        m2 = re.match(r"(\w+)=\[(.*)\]$", p)
        if m2: out.append('%s=[%d]' % (m2.group(1), len(split_top(m2.group(2))))); continue
        m2 = re.match(r"\[(.*)\]$", p)
        if m2: out.append('[%d]' % len(split_top(m2.group(1)))); continue
        m2 = re.match(r"(\w+)=", p)
        if m2: out.append(m2.group(1) + '='); continue
        out.append('_')
    return name, out
