#!/usr/bin/env python3
"""Writes MANIFEST.json from the table below (kept in one place so it stays valid)."""
import json
CLAIMED = {
 'C11': dict(technique='Coq proof over R of the vector identities + bit-exact differential run of the Coq float model against every Pt2/Pt3/Pt4 impl',
             text='Theorems in coq/Props/C11.v (component-wise operators incl. w, operator agreement, index read/write incl. the panic range, dot/cross/Lagrange/len identities, normalized length 1 and direction, lerp end points, list wrappers for every length, conversions) are proved for all real inputs on a hand-written model; the model is tied to the Rust by evaluating its binary64 reading inside Coq on the same inputs as the implementation (expected and observed: bit-exact).',
             note='Trusted: Coq kernel + vm_compute + primitive floats; stdlib real axioms; the hand model Base/Vec.v and its differential tie (harness/src/mathops.rs, props/mathprop.py); rounding error between R and binary64 is not proved, only measured.',
             ref='DESIGN.md section 7 C11'),
}
NOT_YET = {}
def main():
    props = [json.loads(l)['id'] for l in open('properties.jsonl')]
    checks = []
    for p in props:
        if p in CLAIMED:
            c = CLAIMED[p]
            checks.append({'property_id': p, 'quick_cmd': 'bin/check %s --tier quick' % p,
                           'thorough_cmd': 'bin/check %s --tier thorough' % p,
                           'evidence_file': 'evidence/%s.json' % p,
                           'replay_cmd_template': 'bin/check %s --replay {path}' % p,
                           'engine': 'coq-model', 'technique': c['technique'],
                           'level_claimed': {'category': 'proof', 'text': c['text'], 'design_ref': c['ref']},
                           'level_note': c['note']})
    na = [{'property_id': p, 'reason': NOT_YET.get(p, 'check not built yet in this round (planned in DESIGN.md section 7); no claim is made')} for p in props if p not in CLAIMED]
    m = {'version': 1, 'setup_cmd': 'bin/check --setup',
         'hooks': {'guard': 'scad_tree_verif', 'enable': 'RUSTFLAGS="--cfg scad_tree_verif" (set by harness/.cargo/config.toml and lib/vlib.py)',
                   'baseline_off_cmd': 'cd /repo && cargo test --workspace --no-fail-fast --offline',
                   'source_commits': ['ab5b33d'], 'add_only': True},
         'engines': [{'name': 'coq-model', 'path': 'coq/', 'serves_properties': sorted(CLAIMED),
                      'kind_free_text': 'Coq 8.16 development: hand-written Gallina mirror of the Rust (read at R for theorems, at primitive binary64 for the differential run), regenerated fragments under coq/Gen, property theorems in coq/Props; driver bin/check, Rust harness harness/'}],
         'checks': checks, 'not_applicable': na,
         'notes': 'See DESIGN.md. known_findings.jsonl lists fixed/known defects.'}
    json.dump(m, open('MANIFEST.json', 'w'), indent=1)
main()
