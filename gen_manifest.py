#!/usr/bin/env python3
"""Writes MANIFEST.json from the table below (kept in one place so it stays valid)."""
import json
CLAIMED = {
 'C11': dict(technique='Coq proof over R of the vector identities + bit-exact differential run of the Coq float model against every Pt2/Pt3/Pt4 impl',
             text='Theorems in coq/Props/C11.v (component-wise operators incl. w, operator agreement, index read/write incl. the panic range, dot/cross/Lagrange/len identities, normalized length 1 and direction, lerp end points, list wrappers for every length, conversions) are proved for all real inputs on a hand-written model; the model is tied to the Rust by evaluating its binary64 reading inside Coq on the same inputs as the implementation (expected and observed: bit-exact).',
             note='Trusted: Coq kernel + vm_compute + primitive floats; stdlib real axioms; the hand model Base/Vec.v and its differential tie (harness/src/mathops.rs, props/mathprop.py); rounding error between R and binary64 is not proved, only measured.',
             ref='DESIGN.md section 7 C11'),
}
CLAIMED.update({
 'C09': dict(technique='Coq proof over R of 4x4 matrix algebra on the Mt4 model (cofactors regenerated from mt4.rs) + bit-exact differential run',
             text='coq/Props/C09.v proves, for all real matrices and points: identity neutral, associativity of products and of action on homogeneous points, transpose laws, the row-by-column action over all four components, translate/scale behaviour for w=1 and w=0, apply_matrix as the full affine map, column-major indexing incl. the panic range, and inverse = None iff det = 0 else a two-sided inverse (by field). The 16 cofactor expressions are regenerated from the Rust on every run; everything else is a hand model tied by evaluating its binary64 reading in Coq against the implementation.',
             note='Trusted: Coq kernel/vm_compute/primitive floats; stdlib real axioms; translator gen/gen_mt4.py; hand model Base/Mat.v + differential tie; "to rounding" for inverse is measured (bit-exact agreement of model and code), not proved.',
             ref='DESIGN.md section 7 C09'),
 'C10': dict(technique='Coq proof over R that every rotation route equals the textbook right-hand rotation (Rodrigues), isometry by nsatz, look_at frame lemma + bit-exact differential run',
             text='coq/Props/C10.v proves for all points, angles and unit axes: Pt2/Pt3 rotated_* are the right-hand rotations (= Rodrigues about the axis), rot_*_matrix on points (w=1), directions (w=0) and through Mul<Pt3>, rot_vec on coordinate axes and in general, in-place forms; dot products preserved; composition a then b = a+b, -a undoes a; look_at_matrix_lh is a proper rotation taking +Z to the unit direction and +X perpendicular to up, incl. up=+Z with vertical directions. Tie: differential run of the float reading (sin/cos values from the trig-log hook, their arguments checked).',
             note='Trusted: Coq kernel; stdlib real axioms; hand models Base/Vec.v, Base/Mat.v + differential tie; libm sin/cos not modelled (values taken from the implementation); rounding not proved.',
             ref='DESIGN.md section 7 C10'),
 'C12': dict(technique='Coq proof over R of the degree helpers and their inverse laws (asin_sin, acos_cos, atan_tan) + differential run checking the argument passed to libm and the result scaling',
             text='coq/Props/C12.v proves dsin/dcos/dtan a = sin/cos/tan(a*PI/180), dasin/dacos/datan x = asin/acos/atan(x)*180/PI, the three round-trip laws on their stated ranges (and the converse on ratios), and approx_eq <-> |a-b| < eps. Tie: the model in its binary64 reading reproduces bit-exactly the argument handed to libm and the scaling of the result.',
             note='Trusted: Coq kernel; stdlib real axioms; hand model Base/Num.v + differential tie; libm itself is not modelled.',
             ref='DESIGN.md section 7 C12'),
})
CLAIMED.update({
 'C19': dict(technique='Coq proof (axiom-free, induction over regenerations) that the modelled next()/with_seed stream equals the MT19937 reference sequence for every seed and position; arithmetic proof of f32_0_1 < 1 for all 2^32 raw values; constants and loop shapes regenerated from rng.rs; differential run on streams and raw values',
             text='coq/Props/C19.v: the reference sequence satisfies the textbook recurrence (own literal constants); one regeneration of the three in-place loops maps block g to block g+624 (loop invariant: entries below k new, the rest old); C19_stream_is_reference: forall seed i, nth_output seed i = ref_output seed i; f32_0_1 numerator < 2^32 for every u < 2^32 (case analysis on the binade of u as f32 with ties-to-even), plus the witness that without the 128-value guard the top values give exactly 1.0. Tie: constants/shifts/loop bounds regenerated (gen/gen_rng.py), model streams compared word for word with the implementation for several seeds across >= 2 regenerations, f32_0_1 and i32_minmax compared exactly on raw values fed through the verif_from_state hook. i32_minmax/f32_minmax/f64_minmax ranges are checked by a bounds oracle on the implementation (exploration, not yet a theorem).',
             note='Trusted: Coq kernel + vm_compute; translator gen_rng.py; the MT19937 reference as written in Rng/MTSpec.v; rustc u32->f32 conversion and f32 multiply being IEEE round-to-nearest-even (validated on boundary samples). The three min/max mappings are exploration-level.',
             ref='DESIGN.md section 7 C19'),
})
CLAIMED.update({
 'C01': dict(technique='Coq model of the emitter + executable OpenSCAD lexer/parser in Coq run as oracle on the implementation text; exact text equality model vs implementation; lexer lemmas proved (full parse-of-emit theorem in progress)',
             text='The emitter is mirrored line by line in coq/Text/Emit.v and compared character for character with the implementation on enumerated and random trees (every variant, option combination, empty lists, zero children, sequences). A fold-based lexer and a recursive-descent parser for the module-instantiation grammar, written in Coq, are evaluated on the implementation text and must return exactly the statements of the tree (same operation at every node, same children in order, balanced braces, no panic). Proved so far: lexing composes over concatenation and string literals read back (C02). The for-all-trees theorem parse(emit t) = stmt_of t is not yet machine-checked; until it is, the for-all claim rests on the sampled oracle.',
             note='Trusted: OpenSCAD grammar/lexer as written in Text/Lex.v, Text/Parse.v; hand model Emit.v + exact differential tie; Rust number formatting checked per sample.',
             ref='DESIGN.md section 7 C01'),
 'C02': dict(technique='Coq binder (OpenSCAD positional/named binding, built-in signatures, colour table) and exact decimal->binary64 reader evaluated on the implementation text; theorem: every string reads back under the emitted escaping',
             text='For every sampled tree Coq lexes and parses the implementation text, binds the arguments of every statement by OpenSCAD rules (coq/Text/Bind.v) and compares with the parameters the node stands for (values bit-identical after exact decimal->binary64 conversion in Z arithmetic, booleans, keywords, colour names in the CSS table, vectors, optional settings present iff set, scalar/vector forms). C02_string_readback is proved for all strings: the escaped literal lexes back to the same code points. Every ScadColor variant is enumerated each run. Known finding: ScadColor::Browns.',
             note='Trusted: OpenSCAD binding rules, signatures and colour list in Text/Bind.v (cannot be validated offline); Dec64.v as the model of strtod; hand emitter model + exact differential tie. u64 values above 2^53 are compared after rounding to binary64.',
             ref='DESIGN.md section 7 C02'),
 'C13': dict(technique='scad_file! arms and Scad::save regenerated from source into Coq (translator insists on the create/headers/loop/flush/join shape); reflection theorem over the arm list; real-file differential run with pre-existing content',
             text='coq/Props/C13.v (axiom-free): every regenerated arm writes exactly one `$k=value;` line per setting of its pattern in pattern order and nothing else; the arms are exactly the five documented forms; closed form of the content for each form, for all values and bodies. Tie: the harness runs save and all five forms on real files (pre-existing content none/empty/shorter/longer, several stack sizes, deep chains), reads the bytes back after the call returns and Coq compares them with the model and with format!() output, and parses the file as assignments followed by the children.',
             note='Trusted: translator gen_scadfile.py; std::fs/std::thread/stack size exercised not modelled; emission model from C01.',
             ref='DESIGN.md section 7 C13'),
})
CLAIMED.update({
 'C06': dict(technique='macro arms regenerated from scad.rs into Coq data; verified checker (linearity + template = denotation of the pattern) run by vm_compute over all 136 arms (reflection); translator validated by rustc-expansion correspondence on ticking arguments',
             text='coq/Props/C06.v (axiom-free): forallb arm_ok macro_arms = true over the regenerated list of all 136 construction arms of this tree; hence for every arm every argument expression is evaluated exactly once (let bindings + direct uses = 1) and the node built has the variant and every field the documented form denotes (spec Macro/Denote.v: keyword -> parameter, metavariable name -> parameter, d -> r/2, single size -> every axis, OpenSCAD defaults incl. convexity 1), with fields in declaration order of the regenerated ScadOp decl. The checker rejects exactly the 12 arms that were non-linear before the fix. Tie: translator rerun every check; every arm is expanded by rustc on ticking arguments with fresh values and 1..4 children, and node, children order and evaluation counts must equal the regenerated template evaluated in Coq; a+b, a-b and into_scad compared with the expected nodes.',
             note='Trusted: gen/macro_parse.py + gen_macros.py (validated by the rustc correspondence each run); the denotation table Macro/Denote.v is a hand-written spec; rustc macro expansion/type checking exercised not modelled.',
             ref='DESIGN.md section 7 C06'),
})
CLAIMED.update({
 'C07': dict(technique='Coq proofs over R of the arc law, counts, radius laws and the chamfer outline on a hand model of dim2.rs; bit-exact differential run; property oracles (winding, tangency, box, simplicity) on implementation output',
             text='coq/Props/C07.v: arc is defined iff degrees <= 360, has segments(+1) points, every point keeps the start radius (rotation preserves length) and is the start turned clockwise by i*degrees/segments; circle/inscribed corners lie on the radius; circumscribed_polygon is the inscribed one of radius r/cos(180/n); chamfer gives the seven documented points with area2 = -(s^2+2so+3o^2) < 0; star has 2n points; and the REFUTATION chamfer crosses itself when oversize > size (known finding). Tie: model evaluated in Coq floats against every generator (trig from the hook). Winding of the trig outlines, tangency, rounded-rect box/touch/arcs and simplicity are decided by exact-formula oracles on sampled outputs (exploration).',
             note='Trusted: hand model Geom/Dim2.v + differential tie; stdlib real axioms; oracles in props/geomoracles.py are exploration-level. Known finding: chamfer with oversize >= size.',
             ref='DESIGN.md section 7 C07'),
 'C08': dict(technique='Coq proofs over R: Bernstein = de Casteljau = code, sampled points, hull weights, 2D/3D agreement; chain invariant proved by induction over every history new -> add* -> [close]; differential run on histories',
             text='coq/Props/C08.v: cubic/quadratic point functions equal the Bernstein form and the de Casteljau construction; gen_points has segments+1 points at t = i/segments, first = start, last = end (segments >= 1), weights non-negative summing to 1; 2D and 3D agree on planar input; C08_chain_history: for every operation list, consecutive curves share their end point exactly and the next control1 lies on the previous end tangent (G1, positive multiple for positive handle length); close adds one curve ending exactly at the first start and re-aims the first handle; point count = sum of segments (+1 when open). Tie: chain histories of 0..6 adds with optional close, struct and free-function forms, both star paths, compared in Coq floats; oracles re-check joints, tangents, knots, counts on implementation output.',
             note='Trusted: hand model Geom/Dim2.v + differential tie; stdlib real axioms; the end point is reached up to rounding of segments*(1/segments) (measured).',
             ref='DESIGN.md section 7 C08'),
})
CLAIMED.update({
 'C03': dict(technique='Coq model of the ear-clipping loop compared index-for-index with the implementation (bit-exact float reading); exact rational tiling oracle on implementation output over generated simple polygons; structural theorems in progress',
             text='The clipping loop, the ear test, the left-most scan and the four entry points (with their six projection cases) are mirrored in coq/Geom/Tri.v over the Num class; evaluated on binary64 inside Coq they must return exactly the implementation index list (only + - * / and comparisons are involved, so the float reading is exact). An exact (rational) oracle decides on the implementation output: n-2 triangles, indices in range, windings as required, every polygon edge used once and never reversed, every diagonal shared by two triangles, area sum = polygon area (degenerate slivers tolerated at 1e-9 of the area). Proved so far: rejection of inputs with fewer than 4 vertices. The complete => valid theorems (antisymmetrised boundary identity, shoelace telescoping) are designed (DESIGN.md) but not yet machine-checked; completion of the ear search is exploration by nature. Known finding: near-collinear vertex configurations.',
             note='Trusted: hand model Geom/Tri.v + exact differential tie; oracle props/trioracle.py (exact Fractions) is exploration-level.',
             ref='DESIGN.md section 7 C03'),
})
CLAIMED.update({
 'C04': dict(technique='Coq model of the mesh builders compared with the implementation (faces identical, points within 1e-9); closed/oriented/outward oracle on every built mesh incl. threads and viewer edges; index lemma for side quads proved; for-all closure theorem in progress',
             text='linear_extrude, cylinder, loft, rotate_extrude and sweep are mirrored in coq/Geom/Dim3.v (on top of the triangulation and look_at models) and must reproduce the implementation mesh for every generated profile/path/angle; the thread mesh generator is mirrored in coq/Parts/Thread.v and compared through C14/C16. Every built mesh (also thread meshes via the hook and viewer edge cylinders) is checked on the implementation output: indices in range, >= 3 distinct vertices per face, every directed edge in exactly one face and its reverse in exactly one other, positive volume under the clockwise-outward convention. Proved so far: side quads have four distinct in-range vertices. The edge-count closure theorem for all n/segments/steps (DESIGN.md 6.1) is not yet machine-checked, so the for-all claim currently rests on the model tie plus the oracle.',
             note='Trusted: hand model Geom/Dim3.v + differential tie; oracle props/meshoracle.py (exploration). Sweeps may self-intersect: volume sign judged for the other builders only.',
             ref='DESIGN.md section 7 C04'),
 'C05': dict(technique='Coq theorems for ring placement of linear_extrude/loft and face-preservation of the transform methods on the Dim3 model; differential run; ring/cap oracles with exact rational cap validation',
             text='coq/Props/C05.v: linear_extrude and loft place the given profiles unchanged at z = 0 and z = height (all profiles the triangulator accepts); Polyhedron translate/rotate/apply_matrix keep faces and point count (point maps are C09/C10/C11). Tie: Dim3 model (rotate_extrude rings, sweep frames through look_at_matrix_lh, twists) reproduces the implementation points within 1e-9 and faces exactly. Oracles on implementation output: revolve copy k at k*degrees/segments with radius and height kept; sweep ring k a rigid copy in the plane perpendicular to the local chord; volume of a linear extrusion = area x height; every end cap an exact valid triangulation of the profile it closes, for paths starting along +-X, +-Y, +-Z and oblique and for all revolve angles.',
             note='Trusted: hand model + differential tie; oracles are exploration-level; the inherited C03 near-collinear finding applies to caps.',
             ref='DESIGN.md section 7 C05'),
 'C14': dict(technique='Coq theorems on the part models: centred tree = translate([0,0,-H/2]) of the un-centred tree for all five builders and all arguments; semantic lemma (flatten) by nested induction; models tied by tree comparison in Coq incl. thread meshes',
             text='coq/Props/C14.v: for threaded_rod, tap, hex_bolt, hex_nut and external_cylinder_chamfer and all other arguments, f(..., true) = option_map (translate [0,0,-H/2]) (f(..., false)) with H the total height; C14_translate_moves_every_subpart: under the placement semantics (Parts/Sem.v) a translate on top moves every placed leaf by exactly that translation and changes neither leaves nor nesting (induction over trees, matrix associativity). Tie: the models (incl. the thread mesh generator, rod, hex head, chamfer cutters; thread table regenerated) are compared as whole trees with the implementation in Coq, each case with both centre settings; an independent numerical flattening oracle compares centred and un-centred implementation trees leaf by leaf.',
             note='Trusted: hand models Parts/Thread.v + tree tie; placement semantics Parts/Sem.v (OpenSCAD transform conventions); stdlib real axioms.',
             ref='DESIGN.md section 7 C14'),
 'C15': dict(technique='Coq theorems over R on the pipe models (shape, through-hole inequalities, hollow = solid + bore, curved wrapper cancels); models tied by tree comparison; structural oracles',
             text='coq/Props/C15.v: Pipe::straight/tapered are Difference[solid variant; translate(dz)[bore cylinder of diameter od-2*wall]] for all od > 2*wall; the bore z-extent strictly contains the body for either centre setting (dz = 0 centred, -1 / -0.001 otherwise); curved and curved_solid share one wrapper whose two translations cancel, so the cross-section starts centred on the origin. Tie: tree comparison model vs implementation in Coq on grids of od/wall/length/degrees/radius/$fn/centre incl. radius 0 and 0.005; oracles re-derive the same facts from the implementation trees and compare every hollow pipe with its *_solid twin.',
             note='Trusted: hand model + tree tie; stdlib real axioms.',
             ref='DESIGN.md section 7 C15'),
 'C17': dict(technique='Coq theorem: polar_array unrolls to the seed plus one unmodified copy per k under rotate([0,0,k*(-degrees)/steps]) (induction over the count); chamfer cutter structure and the flip = mirror-about-mid-height lemma; tree tie; flattening oracle',
             text='coq/Props/C17.v: for every subtree s that is not itself a two-child union, every count and degrees <= 360, polar_array returns a left-deep union that unrolls to s followed by rot_copy s (k*(-degrees)/steps), k = 0..count-1, steps = count (full circle) or count-1; the step algebra; external_cylinder_chamfer = union of the bottom cutter and the same cutter under translate(0,0,h).rotate([180,0,0]); that flip maps (x,y,z) to (x,-y,h-z), i.e. the mirror image about mid-height up to y -> -y, which a full revolution about Z does not see. Tie: tree comparison in Coq; oracle: placements of the flattened implementation union are exactly Rz(-k*step) of unmodified copies.',
             note='Trusted: hand model + tree tie; the invisibility of y -> -y for a full solid of revolution is stated, not formalised as a point-set theorem.',
             ref='DESIGN.md section 7 C17'),
})
NOT_YET = {}
def main():
    props = [json.loads(l)['id'] for l in open('properties.jsonl')]
    checks = []
    for p in props:
        if p in CLAIMED:
            c = CLAIMED[p]
            checks.append({'property_id': p, 'quick_cmd': 'bin/check %s --tier quick' % p,
                           'thorough_cmd': 'bin/check %s --tier thorough' % p,
                           'evidence_file': 'evidence/%s.json' % p,
                           'replay_cmd_template': 'bin/check %s --replay {path}' % p,
                           'engine': 'coq-model', 'technique': c['technique'],
                           'level_claimed': {'category': 'proof', 'text': c['text'], 'design_ref': c['ref']},
                           'level_note': c['note']})
    na = [{'property_id': p, 'reason': NOT_YET.get(p, 'check not built yet in this round (planned in DESIGN.md section 7); no claim is made')} for p in props if p not in CLAIMED]
    m = {'version': 1, 'setup_cmd': 'bin/check --setup',
         'hooks': {'guard': 'scad_tree_verif', 'enable': 'RUSTFLAGS="--cfg scad_tree_verif" (set by harness/.cargo/config.toml and lib/vlib.py)',
                   'baseline_off_cmd': 'cd /repo && cargo test --workspace --no-fail-fast --offline',
                   'source_commits': ['ab5b33d', '036cb82'], 'add_only': True},
         'engines': [{'name': 'coq-model', 'path': 'coq/', 'serves_properties': sorted(CLAIMED),
                      'kind_free_text': 'Coq 8.16 development: hand-written Gallina mirror of the Rust (read at R for theorems, at primitive binary64 for the differential run), regenerated fragments under coq/Gen, property theorems in coq/Props; driver bin/check, Rust harness harness/'}],
         'checks': checks, 'not_applicable': na,
         'notes': 'See DESIGN.md. known_findings.jsonl lists fixed/known defects.'}
    json.dump(m, open('MANIFEST.json', 'w'), indent=1)
main()
