use scad_tree::prelude::*;
use scad_tree::{Mt4, dasin, dacos, datan, dsin, MersenneTwister, Pt4s, triangulate2d};
fn main() {
    // C09
    let t = Mt4::translate_matrix(1.0, 2.0, 3.0) * Pt4::new(0.0, 0.0, 0.0, 1.0);
    println!("C09 translate_matrix(1,2,3)*(0,0,0,1) = {}", t);
    // C10
    let p = Pt3::new(1.0, 0.0, 0.0);
    println!("C10 rotated_y(90) of +X = {}  ; rot_y_matrix(90)*+X = {}", p.rotated_y(90.0), Mt4::rot_y_matrix(90.0) * p);
    println!("C10 rot_vec(0,0,1,90)*(1,0,0) = {} ; rot_vec(0,1,0,90)*(1,0,0) = {}", Mt4::rot_vec(0.0,0.0,1.0,90.0)*p, Mt4::rot_vec(0.0,1.0,0.0,90.0)*p);
    // C12
    println!("C12 dasin(1.0)={} dacos(0.0)={} datan(1.0)={} dasin(dsin(30))={}", dasin(1.0), dacos(0.0), datan(1.0), dasin(dsin(30.0)));
    // C19
    let mut r = MersenneTwister::with_seed(3);
    let mut last = 0.0f32;
    for _ in 0..1740522 { last = r.f32_0_1(); }
    println!("C19 with_seed(3) draw 1740522 f32_0_1 = {}", last);
    // C01
    println!("C01 union0: {:?}", format!("{}", Scad{op: ScadOp::Union, children: vec![]}));
    println!("C01 polygon paths: {:?}", format!("{}", polygon!(Pt2s::from_pt2s(vec![Pt2::new(0.0,0.0),Pt2::new(1.0,0.0),Pt2::new(0.0,1.0)]), Paths::from_paths(vec![Indices::from_indices(vec![0,1,2])]))));
    let r = std::panic::catch_unwind(|| format!("{}", polygon!(Pt2s::new())));
    println!("C01 empty Pt2s: panicked={}", r.is_err());
    let r = std::panic::catch_unwind(|| format!("{}", Pt4s::new()));
    println!("C01 empty Pt4s: panicked={}", r.is_err());
    let r = std::panic::catch_unwind(|| format!("{}", Indices::new()));
    println!("C01 empty Indices: panicked={}", r.is_err());
    let r = std::panic::catch_unwind(|| format!("{}", Paths::new()));
    println!("C01 empty Paths: panicked={}", r.is_err());
    // C02
    println!("C02 resize auto=true: {:?}", format!("{}", resize!([1.0,2.0,3.0], true, square!(1.0);)));
    println!("C02 resize autovec: {:?}", format!("{}", resize!([1.0,2.0,3.0], [true,false,true], square!(1.0);)));
    println!("C02 import: {:?}", format!("{}", import!("f.stl", 4)));
    println!("C02 text: {:?}", format!("{}", text!("a\u{94d}\u{301}\u{1}\u{7f}\u{200b}b")));
    println!("C02 color Browns: {:?}", format!("{}", color!(c=ScadColor::Browns, square!(1.0);)));
    // C03
    let l: Vec<Pt2> = [(0.0,0.0),(2.0,0.0),(2.0,1.0),(1.0,1.0),(1.0,2.0),(0.0,2.0)].iter().map(|&(x,y)| Pt2::new(x*1e-3,y*1e-3)).collect();
    let tri = triangulate2d(&Pt2s::from_pt2s(l));
    println!("C03 ccw L scaled 1e-3: {} indices {:?}", tri.len(), &tri[..]);
    // C04
    let prof = Pt2s::from_pt2s(vec![Pt2::new(1.0,0.0),Pt2::new(1.0,1.0),Pt2::new(2.0,1.0),Pt2::new(2.0,0.0)]);
    let ph = Polyhedron::rotate_extrude(&prof, 90.0, 4);
    println!("C04 rotate_extrude 90/4: {} pts {} faces first faces {} {} last {}", ph.points.len(), ph.faces.len(), ph.faces[0], ph.faces[2], ph.faces[ph.faces.len()-1]);
    let r = std::panic::catch_unwind(|| Polyhedron::rotate_extrude(&Pt2s::from_pt2s(vec![Pt2::new(1.0,0.0),Pt2::new(1.0,1.0),Pt2::new(2.0,1.0),Pt2::new(2.0,0.0)]), 360.0, 4));
    println!("C04 rotate_extrude 360: panicked={}", r.is_err());
    // C15
    println!("C15 straight centered: {}", Pipe::straight(10.0, 1.0, 20.0, true, 16));
    println!("C15 curved_solid: {}", Pipe::curved_solid(10.0, 90.0, 30.0, 16));
}
