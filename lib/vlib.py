"""Shared machinery for /verif/bin/check: regen, Coq build, harness build/run,
shard evaluation inside Coq, hygiene checks, known findings, evidence."""
import os, sys, re, json, subprocess, time, fcntl, hashlib, shutil, glob
from concurrent.futures import ThreadPoolExecutor

VERIF = os.path.dirname(os.path.dirname(os.path.abspath(__file__)))
REPO = os.environ.get('VERIF_REPO', '/repo')
COQ = os.path.join(VERIF, 'coq')
HARNESS = os.path.join(VERIF, 'harness')
WORK = os.path.join(VERIF, 'work')
NPROC = 16

ENV = dict(os.environ)
ENV.update({'CARGO_NET_OFFLINE': 'true', 'RUST_BACKTRACE': '0',
            'RUSTFLAGS': '--cfg scad_tree_verif'})


def sh(cmd, cwd=None, timeout=1800, env=None, inp=None):
    """run, return (rc, stdout+stderr) with the conda noise line stripped"""
    try:
        p = subprocess.run(cmd, cwd=cwd, shell=isinstance(cmd, str), env=env or ENV, input=inp,
                           stdout=subprocess.PIPE, stderr=subprocess.STDOUT, timeout=timeout, text=True)
        out = '\n'.join(l for l in p.stdout.split('\n') if 'auto_activate' not in l)
        return p.returncode, out
    except subprocess.TimeoutExpired as e:
        return 124, 'TIMEOUT after %ss: %s' % (timeout, cmd)


class Lock:
    def __init__(self, name):
        os.makedirs(WORK, exist_ok=True)
        self.path = os.path.join(WORK, name + '.lock')
    def __enter__(self):
        self.f = open(self.path, 'w'); fcntl.flock(self.f, fcntl.LOCK_EX); return self
    def __exit__(self, *a):
        fcntl.flock(self.f, fcntl.LOCK_UN); self.f.close()


# ---------------------------------------------------------------- regen / build
def regen():
    """run every translator; returns list of (name, error) for translators that failed"""
    errs = []
    gens = sorted(glob.glob(os.path.join(VERIF, 'gen', 'gen_*.py')))
    for g in gens:
        name = os.path.basename(g)[4:-3]
        outs = GEN_OUT.get(name)
        if outs is None:
            continue
        rc, out = sh([sys.executable, g, REPO, os.path.join(COQ, outs)], timeout=120)
        if rc != 0:
            errs.append((name, out.strip().split('\n')[-1]))
    return errs

GEN_OUT = {'mt4': 'Gen/Mt4Cof.v', 'macros': 'Gen/MacroArms.v', 'enums': 'Gen/Enums.v',
           'threads': 'Gen/ThreadTable.v', 'rng': 'Gen/RngConsts.v'}


def coq_makefile():
    with Lock('coq'):
        mk = os.path.join(COQ, 'Makefile')
        cp = os.path.join(COQ, '_CoqProject')
        if not os.path.exists(mk) or os.path.getmtime(mk) < os.path.getmtime(cp):
            rc, out = sh('coq_makefile -f _CoqProject -o Makefile', cwd=COQ)
            if rc != 0:
                raise SystemExit('coq_makefile failed: ' + out)


def coq_make(targets, timeout=1500):
    """full .vo build of the given targets (list of paths relative to coq/). returns (ok, log)"""
    coq_makefile()
    with Lock('coq'):
        rc, out = sh(['make', '-j%d' % NPROC] + list(targets), cwd=COQ, timeout=timeout)
    return rc == 0, out


def harness_build(release=False):
    with Lock('cargo'):
        lock = os.path.join(HARNESS, 'Cargo.lock')
        if not os.path.exists(lock):
            shutil.copy(os.path.join(REPO, 'Cargo.lock'), lock)
        cmd = ['cargo', 'build', '--offline', '-q'] + (['--release'] if release else [])
        rc, out = sh(cmd, cwd=HARNESS, timeout=1200)
    errs = '\n'.join(l for l in out.split('\n') if l.startswith('error') or l.startswith('  -->') or l.startswith('   |'))
    return rc == 0, (out if rc != 0 else '')


def harness_run(args, release=False, timeout=600, inp=None):
    exe = os.path.join(HARNESS, 'target', 'release' if release else 'debug', 'vh')
    rc, out = sh([exe] + [str(a) for a in args], timeout=timeout, inp=inp)
    return rc, out


# ---------------------------------------------------------------- shards inside Coq
def run_shards(prop, imports, case_type, verdict, case_lines, per_shard=250, timeout=900, extra_defs=''):
    """case_lines: Coq terms of type case_type. Evaluates `map verdict cases` in Coq on shards in
    parallel. Returns list of verdict tuples (list of ints per case) in order, or raises RuntimeError."""
    wd = os.path.join(WORK, prop)
    os.makedirs(wd, exist_ok=True)
    for f in glob.glob(os.path.join(wd, 'shard_*')):
        os.remove(f)
    shards = [case_lines[i:i + per_shard] for i in range(0, len(case_lines), per_shard)]
    files = []
    for k, sh_cases in enumerate(shards):
        fn = os.path.join(wd, 'shard_%d.v' % k)
        with open(fn, 'w') as f:
            f.write(imports + '\n')
            if 'Floats' in imports: f.write('Open Scope float_scope.\n')
            f.write(extra_defs + '\n')
            # chunk to keep list literals small
            chunks = [sh_cases[i:i + 50] for i in range(0, len(sh_cases), 50)]
            for ci, ch in enumerate(chunks):
                f.write('Definition cs_%d : list (%s) := [\n%s\n].\n' % (ci, case_type, ';\n'.join(ch)))
            f.write('Definition cases := %s.\n' % ' ++ '.join('cs_%d' % ci for ci in range(len(chunks))) if chunks else 'Definition cases : list (%s) := [].\n' % case_type)
            f.write('Open Scope Z_scope.\nEval vm_compute in (map (%s) cases).\n' % verdict)
        files.append(fn)

    def one(fn):
        rc, out = sh(['coqc', '-noglob', '-w', '-inexact-float,-notation-overridden,-deprecated-hint-without-locality,-ambiguous-paths,-abstract-large-number', '-Q', COQ, 'SCAD', fn], cwd=wd, timeout=timeout)
        return rc, out
    with ThreadPoolExecutor(max_workers=NPROC) as ex:
        results = list(ex.map(one, files))
    verdicts = []
    for (rc, out), fn, sh_cases in zip(results, files, shards):
        if rc != 0:
            raise RuntimeError('coqc failed on %s:\n%s' % (fn, out[-3000:]))
        v = parse_verdicts(out)
        if len(v) != len(sh_cases):
            raise RuntimeError('verdict count mismatch in %s: %d vs %d\n%s' % (fn, len(v), len(sh_cases), out[-2000:]))
        verdicts.extend(v)
    return verdicts


def parse_verdicts(out):
    """parse `= [a; b; ...] : list Z` or list of tuples `(a, b, c)` into list of int-lists"""
    m = re.search(r'=\s*(\[.*\])\s*:\s*list', out, re.S)
    if not m:
        return []
    body = ' '.join(m.group(1).split())
    body = body[1:-1].strip()
    if not body:
        return []
    items = []
    depth = 0; cur = ''
    for ch in body:
        if ch in '([':
            depth += 1
        if ch in ')]':
            depth -= 1
        if ch == ';' and depth == 0:
            items.append(cur); cur = ''
        else:
            cur += ch
    items.append(cur)
    res = []
    for it in items:
        res.append([int(x) for x in re.findall(r'-?\d+', it)])
    return res


def coq_eval(prop, imports, expr, timeout=300):
    """evaluate a single expression in Coq, return raw output (for replays)"""
    wd = os.path.join(WORK, prop)
    os.makedirs(wd, exist_ok=True)
    fn = os.path.join(wd, 'eval_%d.v' % os.getpid())
    with open(fn, 'w') as f:
        f.write(imports + '\nOpen Scope float_scope.\nEval vm_compute in (%s).\n' % expr)
    rc, out = sh(['coqc', '-noglob', '-w', '-inexact-float,-notation-overridden,-deprecated-hint-without-locality,-ambiguous-paths', '-Q', COQ, 'SCAD', fn], cwd=wd, timeout=timeout)
    for ext in ('.v', '.vo', '.vok', '.vos', '.glob'):
        try: os.remove(fn[:-2] + ext)
        except OSError: pass
    return rc, out


# ---------------------------------------------------------------- hygiene
FORBIDDEN = re.compile(r'\b(Admitted|admit|Axiom|Axioms|Parameter|Parameters|Conjecture|Hypothesis|Variable)\b|Unset\s+Guard|bypass_check|Admit\s+Obligations|type-in-type|impredicative-set|Unset\s+Positivity|Unset\s+Universe')

def strip_comments(s):
    out = []; depth = 0; i = 0
    while i < len(s):
        if s.startswith('(*', i): depth += 1; i += 2; continue
        if s.startswith('*)', i) and depth > 0: depth -= 1; i += 2; continue
        if depth == 0: out.append(s[i])
        i += 1
    return ''.join(out)

def hygiene():
    """scan every .v of the development (outside comments); Variable/Hypothesis allowed only inside Sections"""
    bad = []
    for fn in sorted(glob.glob(os.path.join(COQ, '**', '*.v'), recursive=True)):
        src = strip_comments(open(fn).read())
        depth = 0
        for ln, line in enumerate(src.split('\n'), 1):
            if re.match(r'\s*Section\b', line): depth += 1
            if re.match(r'\s*End\b', line) and depth > 0: depth -= 1
            for m in FORBIDDEN.finditer(line):
                w = m.group(0)
                if w in ('Variable', 'Hypothesis') and depth > 0:
                    continue
                bad.append('%s:%d: %s' % (os.path.relpath(fn, VERIF), ln, w))
    cp = open(os.path.join(COQ, '_CoqProject')).read()
    if 'type-in-type' in cp or 'impredicative' in cp:
        bad.append('_CoqProject: forbidden flag')
    return bad


ALLOWED_AXIOMS = {
    'ClassicalDedekindReals.sig_forall_dec', 'ClassicalDedekindReals.sig_not_dec',
    'FunctionalExtensionality.functional_extensionality_dep', 'Classical_Prop.classic',
}
PRIMITIVE_OK = re.compile(r'^(PrimFloat|PrimInt63|Uint63|FloatOps|FloatAxioms|Sint63|SpecFloat|PArray)\.|^(float|int)\b')

def theorem_names(prop):
    fn = os.path.join(COQ, 'Props', prop + '.v')
    src = strip_comments(open(fn).read())
    return re.findall(r'^\s*(?:Theorem|Lemma|Corollary)\s+([A-Za-z0-9_\']+)', src, re.M)

def print_assumptions(prop, names):
    """returns (ok, {name: [axioms]}, log)"""
    wd = os.path.join(WORK, prop); os.makedirs(wd, exist_ok=True)
    fn = os.path.join(wd, 'assume.v')
    with open(fn, 'w') as f:
        f.write('From SCAD Require Import Props.%s.\n' % prop)
        for n in names:
            f.write('Print Assumptions %s.\n' % n)
    rc, out = sh(['coqc', '-noglob', '-Q', COQ, 'SCAD', fn], cwd=wd, timeout=600)
    if rc != 0:
        return False, {}, out
    blocks = re.split(r'(?=Closed under the global context|Axioms:)', out)
    res = {}; k = 0
    for b in blocks:
        b = b.strip()
        if not b: continue
        if k >= len(names): break
        if b.startswith('Closed under'):
            res[names[k]] = []; k += 1
        elif b.startswith('Axioms:'):
            ax = re.findall(r'^([A-Za-z_][A-Za-z0-9_\.\']*)\s*(?::|$)', b[len('Axioms:'):], re.M)
            res[names[k]] = ax; k += 1
    ok = (k == len(names))
    return ok, res, out

def axioms_ok(axmap):
    bad = []
    for n, axs in axmap.items():
        for a in axs:
            if a in ALLOWED_AXIOMS or PRIMITIVE_OK.search(a):
                continue
            bad.append('%s depends on %s' % (n, a))
    return bad


# ---------------------------------------------------------------- known findings
def known_findings(prop):
    """known_findings.txt lines:
         fixed: property=<id> <commit> <what failed>          (informational, suppresses nothing)
         known: property=<id> {"id":..., "clause":..., "match":{...}, "what":...}
    """
    fn = os.path.join(VERIF, 'known_findings.txt')
    res = []
    if os.path.exists(fn):
        for line in open(fn):
            line = line.strip()
            m = re.match(r'known:\s+property=(\S+)\s+(\{.*\})$', line)
            if m and m.group(1) == prop:
                e = json.loads(m.group(2)); e['property'] = prop; e['kind'] = 'known'
                res.append(e)
    return res


def match_known_default(f, known):
    """a failure matches a known entry when the clause is the same and every key of entry.match equals the failure's"""
    for k in known:
        if k.get('clause') != f.get('clause'):
            continue
        if all(f.get(a) == b for a, b in k.get('match', {}).items()):
            return k
    return None


# ---------------------------------------------------------------- evidence / replay
def write_replay(prop, payload):
    d = os.path.join(VERIF, 'replays'); os.makedirs(d, exist_ok=True)
    h = hashlib.sha1(json.dumps(payload, sort_keys=True, default=str).encode()).hexdigest()[:10]
    fn = os.path.join(d, '%s-%s.json' % (prop, h))
    with open(fn, 'w') as f:
        json.dump(payload, f, indent=1, default=str)
    return fn

def write_evidence(prop, tier, seed, coverage, assumptions, wall, violations, level='proof'):
    d = os.path.join(VERIF, 'evidence'); os.makedirs(d, exist_ok=True)
    ev = {'property_id': prop, 'tier': tier, 'seed': seed, 'level': level, 'coverage': coverage,
          'assumptions': assumptions, 'wall_s': round(wall, 2), 'violations': violations}
    with open(os.path.join(d, prop + '.json'), 'w') as f:
        json.dump(ev, f, indent=1, default=str)
