"""C12 -- degree-based trig helpers are the trig functions in degrees."""
import mathprop
RUN_TARGETS = ['Run/MathOps.vo']
TRUSTED = ['hand model coq/Base/Num.v (dsin .. approx_eq) tied by the differential run: the argument handed to libm and the scaling of the result are checked bit-exactly',
           'theorems over R']
ASSUMPTIONS = ['stdlib real-number axioms', 'libm sin/cos/tan/asin/acos/atan are not modelled']
def run(ctx):
    n = 1400 if ctx['tier'] == 'quick' else 30000
    return mathprop.run_ranges('C12', [(140, 146)], n, ctx['seed'])
def match_known(f, known): return None
def replay(path): return mathprop.replay('C12', path)
