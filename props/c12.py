"""C12 -- degree-based trig helpers are the trig functions in degrees."""
import mathprop
RUN_TARGETS = ['Run/MathOps.vo']
TRUSTED = ['hand model coq/Base/Num.v (dsin .. approx_eq) tied by the differential run: the argument handed to libm and the scaling of the result are checked bit-exactly',
           'theorems over R']
ASSUMPTIONS = ['stdlib real-number axioms', 'libm sin/cos/tan/asin/acos/atan are not modelled']
import math
def _close(a, b):
    if a != a or b != b: return (a != a) == (b != b)
    if math.isinf(a) or math.isinf(b): return a == b
    return abs(a - b) <= 1e-12 * max(1.0, abs(a), abs(b))
def oracle(case):
    """independent of the trig log: the value returned is the trig function of the angle in degrees per Python's libm"""
    op, args, res = case
    if res is None or not args: return None
    x = args[0]
    try:
        if op == 140: want = math.sin(math.radians(x))
        elif op == 141: want = math.cos(math.radians(x))
        elif op == 142:
            want = math.tan(math.radians(x))
            if abs(want) > 1e6: return None        # near the poles one ulp of the argument dominates
        elif op == 143: want = math.degrees(math.asin(x)) if -1 <= x <= 1 else float('nan')
        elif op == 144: want = math.degrees(math.acos(x)) if -1 <= x <= 1 else float('nan')
        elif op == 145: want = math.degrees(math.atan(x))
        elif op == 146: want = 1.0 if abs(args[0] - args[1]) < args[2] else 0.0
        else: return None
    except (ValueError, OverflowError):
        return None
    if isinstance(x, float) and (math.isinf(x) or x != x) and op != 146: return None
    if abs(x) > 1e15 and op in (140, 141, 142): return None   # argument reduction of huge angles differs by the rounding of to_radians
    if not _close(res[0], want):
        return {'clause': 'value_is_trig_in_degrees', 'key': 'libm%d' % op, 'op': op, 'args': args, 'implementation': res, 'expected': want,
                'what': 'the helper does not return the trig function of the angle in degrees (independent evaluation with Python math)'}
    return None
def run(ctx):
    n = 1400 if ctx['tier'] == 'quick' else 30000
    return mathprop.run_ranges('C12', [(140, 146)], n, ctx['seed'], oracle=oracle)
def match_known(f, known): return None
def replay(path): return mathprop.replay('C12', path)
