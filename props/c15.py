"""C15 -- pipes have the stated bore, a through hole, and matching solid variants."""
import json
import vlib, partprop, partoracles
RUN_TARGETS = ['Run/PartsRun.vo']
TRUSTED = ['hand model coq/Parts/Thread.v (pipe_* functions) tied by tree comparison in Coq', 'oracle props/partoracles.py on implementation trees']
ASSUMPTIONS = ['stdlib real-number axioms']
def run(ctx):
    n = 240 if ctx['tier'] == 'quick' else 6000
    rc, out = vlib.harness_run(['part', ctx['seed'], n, 507, 512], timeout=600)
    terms = []; cases = []
    for chunk in out.split('@@CASE@@ P\n')[1:]:
        term, js = chunk.split('\n@@JSON@@ ', 1); terms.append(term.strip()); cases.append(json.loads(js.strip()))
    # solid twins on the same arguments, through the one-shot entry point
    extra_terms = []
    twins = []
    for c in cases:
        a = c['args']
        if c['op'] == 507: twins.append((508, [a[0], a[2], a[3], a[4]]))
        if c['op'] == 509: twins.append((510, [a[0], a[1], a[3], a[4], a[5]]))
        if c['op'] == 511: twins.append((512, [a[0], a[2], a[3], a[4]]))
    for op, a in twins:
        rc2, o2 = vlib.harness_run(['partone', op] + [repr(x) for x in a])
        for chunk in o2.split('@@CASE@@ P\n')[1:]:
            term, js = chunk.split('\n@@JSON@@ ', 1); terms.append(term.strip()); cases.append(json.loads(js.strip()))
    verd = vlib.run_shards('C15', partprop.PART_IMPORTS, 'pcase', 'part_verdict', terms, per_shard=max(8, len(terms) // 16 + 1))
    failures = []
    for t, c, v in zip(terms, cases, verd):
        if v[0] != 0:
            failures.append({'clause': 'model_vs_impl_tree', 'key': 'partmodel%d' % c['op'], 'builder': partprop.NAMES.get(c['op']), 'args': c['args'], 'verdict': v[0], 'case_term': t[:2000]})
        f = partoracles.c15_oracle(c)
        if f: f['builder'] = partprop.NAMES.get(c['op']); failures.append(f)
    failures += partoracles.c15_pairs(cases)
    return {'evaluations': len(cases), 'distinct_nontrivial': len(set(terms)), 'failures': failures,
            'samples': [{'builder': partprop.NAMES[c['op']], 'args': c['args']} for c in cases[:4]],
            'rule': 'harness `vh part`: Pipe::straight/tapered (both centre settings), curved (degrees 1..360, radius 0/0.005/1/30/250), and the *_solid twin of every hollow case on the same arguments. '
                    'Oracle: body cylinder with the given diameters/length, bore coaxial with diameter od-2*wall in the subtracted position and z-extent strictly containing the body, '
                    'hollow minus bore structurally equal to the solid twin, curved sections start centred on the origin',
            'extra': {}}
def match_known(f, known): return vlib.match_known_default(f, known)
def replay(path): print(json.dumps(json.load(open(path)), indent=1)[:4000]); return 0
