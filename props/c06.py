"""C06 -- every macro form builds the node its OpenSCAD spelling denotes, once."""
import json, re
import vlib, textprop
RUN_TARGETS = ['Run/MacroRun.vo']
TRUSTED = ['translator gen/gen_macros.py + gen/macro_parse.py (validated on every run: rustc expands every arm on ticking arguments and the node and the evaluation counts must equal what the regenerated template says)',
           'spec coq/Macro/Denote.v: what each documented form denotes (keyword -> parameter, metavariable name -> parameter, d -> r/2, single size -> every axis, OpenSCAD defaults)',
           "rustc's macro_rules! expansion, type checking and borrow checking are exercised, not modelled"]
ASSUMPTIONS = ['argument expressions are by-value $x:expr metavariables: evaluation counting covers literals, arithmetic, calls and moved values alike']
IMPORTS = textprop.IMPORTS + '\nFrom SCAD Require Import Macro.Syntax Gen.MacroArms Run.MacroRun.'
BITS = {1: 'the macro call panicked', 2: 'variant or a field value differs from the regenerated template', 4: 'children differ (count, order or content)',
        8: 'evaluation counts differ from what the template says (translator and rustc disagree)', 16: 'an argument or child expression was not evaluated exactly once'}
def run(ctx):
    rounds = (3 if ctx['tier'] == 'quick' else 40) * ctx.get('boost', 1)
    rc, out = vlib.harness_run(['macros', ctx['seed'], rounds], timeout=900)
    if rc != 0: raise RuntimeError('harness macros failed: ' + out[-2000:])
    chunks = out.split('@@CASE@@ ')[1:]
    M = [c[2:].rstrip('\n') for c in chunks if c[0] == 'M']
    O = [c[2:].rstrip('\n') for c in chunks if c[0] == 'O']
    mv = vlib.run_shards('C06', IMPORTS, 'mcase', 'macro_verdict', M, per_shard=max(8, len(M) // 16 + 1))
    ov = vlib.run_shards('C06o', IMPORTS, 'tree * tree', 'op_verdict', O, per_shard=max(4, len(O) // 8 + 1))
    failures = []
    arms = set()
    # the verified checker arm_ok, evaluated arm by arm: an arm it rejects is a concrete failing configuration of the property
    try:
        rc2, ev = vlib.coq_eval('C06', 'From Coq Require Import List NArith ZArith Floats.\nImport ListNotations.\nFrom SCAD Require Import Macro.Syntax Macro.Check Gen.MacroArms.',
                                'map (fun p => Z.of_nat (fst p)) (filter (fun p => negb (arm_ok scadop_decl (snd p))) (combine (seq 0 (length macro_arms)) macro_arms))')
        bad = [int(x) for x in re.findall(r'(-?\d+)%Z', ev)] if rc2 == 0 else []
    except Exception:
        bad = []
    # documented forms without an arm of the same shape
    try:
        rc3, ev3 = vlib.coq_eval('C06', 'From Coq Require Import List NArith ZArith Floats String.\nImport ListNotations.\nFrom SCAD Require Import Macro.Syntax Macro.Check Gen.MacroArms.',
                                 'map (fun d => snd (fst d)) (filter (fun d => negb (doc_has_arm macro_arms d)) macro_doc_forms)')
        orphan = re.findall(r'"((?:[^"]|"")*)"%string|"((?:[^"]|"")*)"', ev3) if rc3 == 0 else []
        orphan = [a or b for a, b in orphan]
    except Exception:
        orphan = []
    for dtxt in orphan:
        failures.append({'clause': 'documented_form_has_an_arm', 'key': 'doc:' + dtxt[:60], 'documented_form': dtxt,
                         'what': 'no macro arm of that macro accepts this documented form (same positional arguments, keywords, vectors and children): writing it as documented does not compile or builds something else'})
    for k in bad:
        case = next((c for c in M if re.match(r'\((\d+)%nat', c) and int(re.match(r'\((\d+)%nat', c).group(1)) == k), '')
        failures.append({'clause': 'arm_denotes_its_documented_form_once', 'key': 'badarm%d' % k, 'arm_index': k, 'arm': arm_text(k),
                         'what': 'the verified checker arm_ok rejects this arm: either an argument expression is not used exactly once, or the node built is not the variant/fields the form denotes (Macro/Denote.v)',
                         'example_call_through_rustc': case[:900]})
    for case, v in zip(M, mv):
        k = int(re.match(r'\((\d+)%nat', case).group(1)); arms.add(k)
        if v[0] != 0:
            failures.append({'clause': 'macro_arm', 'key': 'arm%d' % k, 'arm_index': k, 'what': [t for b, t in BITS.items() if v[0] & b], 'case': case[:900],
                             'arm': arm_text(k)})
    for case, v in zip(O, ov):
        if v[0] != 0:
            failures.append({'clause': 'add_sub_into_scad', 'key': 'ops', 'what': 'a + b / a - b / Polyhedron::into_scad did not build the expected node', 'case': case[:900]})
    return {'evaluations': len(M) + len(O), 'distinct_nontrivial': len(set(M)) + len(set(O)), 'samples': [{'case': c[:300]} for c in M[3:6]] + [{'case': O[0][:300]}],
            'failures': failures,
            'rule': 'every one of the %d regenerated arms is invoked through rustc %d times with ticking argument expressions (fresh random values, child lists of length 1..4); '
                    'Coq evaluates the regenerated template on the same values and compares node, children and evaluation counts; plus a+b, a-b, into_scad' % (len(arms), rounds),
            'extra': {'arms_exercised': len(arms), 'exhaustive_over_arms': True}}
def arm_text(k):
    src = open(vlib.COQ + '/Gen/MacroArms.v').read()
    m = re.search(r'Definition arm_%d : marm := (.*)\.\n' % k, src)
    return m.group(1)[:600] if m else ''
def match_known(f, known): return vlib.match_known_default(f, known)
def replay(path): print(json.dumps(json.load(open(path)), indent=1)); return 0
