"""C03 -- triangulation tiles every simple polygon exactly."""
import re
import mathprop, trioracle, vlib
RUN_TARGETS = ['Run/GeomOps.vo']
WITNESS = ['Props/Witness.vo']     # non-vacuity examples for the conditional theorems (built with the property)
TRUSTED = ['hand model coq/Geom/Tri.v tied to triangulate.rs by exact equality of the index lists (only + - * / and comparisons: the float reading is bit-exact)',
           'exact rational oracle props/trioracle.py on implementation output (exploration: completion of the ear search is explored, not proved)']
ASSUMPTIONS = ['stdlib real-number axioms', 'polygons have fewer than 2^15 vertices (i16/u16 casts in the Rust)']
def _oracle_line(l):
    return trioracle.c03_oracle(mathprop.parse_case(l))
def run(ctx):
    quick = ctx['tier'] == 'quick'
    n, max_n = (1200, 40) if quick else (30000, 160)
    rc, out = vlib.harness_run(['tri', ctx['seed'], n, max_n], timeout=1800)
    if rc != 0: raise RuntimeError('harness tri failed: ' + out[-2000:])
    lines = [l for l in out.split('\n') if l.startswith('(')]
    classes = {}
    for l in out.split('\n'):
        if l.startswith('# '): k = l.split()[1]; classes[k] = classes.get(k, 0) + 1
    verd = vlib.run_shards('C03', mathprop.GEOM_IMPORTS, 'mcase', 'gverdict', lines, per_shard=max(20, len(lines) // 16 + 1), timeout=1700)
    failures = []
    judged = 0
    orc = vlib.pmap(_oracle_line, lines)
    for l, v, f in zip(lines, verd, orc):
        case = mathprop.parse_case(l)
        if f is not None: failures.append(f)
        judged += 1
        if v[0] >= 1:
            failures.append({'clause': 'model_vs_impl_indices', 'key': 'trimodel%d' % case[0], 'op': case[0], 'args': case[1], 'implementation': case[2],
                             'what': 'the index list differs from the Coq model of the ear clipping', 'case_term': l[:3000]})
    return {'evaluations': len(lines), 'distinct_nontrivial': len(set(lines)), 'samples': [{'op': mathprop.parse_case(l)[0], 'points': mathprop.parse_case(l)[1][:12], 'indices': mathprop.parse_case(l)[2]} for l in lines[:3]],
            'failures': failures,
            'rule': 'harness `vh tri`: simple polygons (convex, star-shaped, random simple by 2-opt untangling, spirals, combs, straight-angle vertices, L, library profiles), n = 4..%d, '
                    'both windings, every cyclic start, rotations, translations, scales 1e-6..1e6; triangulate2d/_rev and triangulate3d/_rev in random planes with either normal sign. '
                    'Model index lists must be identical; exact rational oracle: n-2 triangles, indices in range, all strictly wound as required, every polygon edge once and never reversed, '
                    'every diagonal shared by two, areas sum to the polygon area' % max_n,
            'extra': {'polygon_classes': classes}}
def match_known(f, known): return vlib.match_known_default(f, known)
def replay(path): return mathprop.replay('C03', path)
