"""C17 -- polar_array and cylinder chamfers place unchanged copies symmetrically."""
import json
import vlib, partprop, partoracles
RUN_TARGETS = ['Run/PartsRun.vo']
TRUSTED = ['hand model coq/Parts/Thread.v (polar_array, external_circle_chamfer, external_cylinder_chamfer) tied by tree comparison in Coq', 'oracle props/partoracles.py']
ASSUMPTIONS = ['stdlib real-number axioms']
def run(ctx):
    n = 300 if ctx['tier'] == 'quick' else 6000
    terms, cases, failures = partprop.run_parts('C17', n, ctx['seed'], 504, 506)
    for c in cases:
        for o in (partoracles.c17_oracle, partoracles.chamfer_oracle):
            f = o(c)
            if f: f['builder'] = partprop.NAMES.get(c['op']); failures.append(f)
    return {'evaluations': len(cases), 'distinct_nontrivial': len(set(terms)), 'failures': failures,
            'samples': [{'builder': partprop.NAMES[c['op']], 'args': c['args']} for c in cases[:4]],
            'rule': 'harness `vh part`: polar_array on three seed subtrees (leaf, transformed leaf, union), counts 1..13, degrees 1/45/90/180/359/360 and 361 (assert path); '
                    'external_circle_chamfer / external_cylinder_chamfer on size/oversize/radius/height/segment grids. Coq: model tree = implementation tree. Oracle: the flattened union '
                    'consists of unmodified copies of the seed whose placements are exactly Rz(-k*step), k = 0..count-1; the chamfer is the bottom cutter plus the same cutter under '
                    'translate(0,0,h).rotate([180,0,0]), both the chamfer outline revolved by 360 with the requested segment count', 'extra': {}}
def match_known(f, known): return vlib.match_known_default(f, known)
def replay(path): print(json.dumps(json.load(open(path)), indent=1)[:4000]); return 0
