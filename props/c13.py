"""C13 -- a saved file is exactly the global settings plus the emitted trees."""
import json, os, shutil
import vlib, textprop
RUN_TARGETS = ['Run/TextRun.vo']
TRUSTED = ['translator gen/gen_scadfile.py (arms of scad_file!, body of Scad::save and fat_thread! must have the fixed create/headers/loop/flush/join shape)',
           'std::fs, std::thread and the stack size are exercised on real files (pre-existing content: none, empty, shorter, much longer), not modelled',
           'emission model coq/Text/Emit.v (see C01)']
ASSUMPTIONS = ['a failed File::create or a stack too small for the tree depth abort the call; both are outside "after ... returns"']
IMPORTS = textprop.IMPORTS
def run(ctx):
    quick = ctx['tier'] == 'quick'
    n, deep = (120 * ctx.get('boost', 1), 300) if quick else (600, 1200)
    d = os.path.join(vlib.WORK, 'c13files_%d' % os.getpid())
    rc, out = vlib.harness_run(['file', ctx['seed'], n, d, deep], timeout=900)
    shutil.rmtree(d, ignore_errors=True)
    crashed = None
    if rc != 0:
        begins = [l for l in out.split('\n') if l.startswith('@@BEGIN@@ ')]
        if not begins: raise RuntimeError('harness file failed: ' + out[-2000:])
        crashed = begins[-1][len('@@BEGIN@@ '):]
    out = '\n'.join(l for l in out.split('\n') if not l.startswith('@@BEGIN@@ ') and not (crashed and (l.startswith("thread '") or l.startswith('fatal runtime error') or 'overflowed its stack' in l)))
    F = [c[2:].rstrip('\n') for c in out.split('@@CASE@@ ')[1:] if c[0] == 'F']
    fv = vlib.run_shards('C13', IMPORTS, 'fcase', 'file_verdict', F, per_shard=max(4, len(F) // 16 + 1)) if F else []
    failures = []
    if crashed:
        failures.append({'clause': 'call_returns', 'key': 'crash', 'what': 'the process died inside the call (exit status %s): %s' % (rc, crashed),
                         'how': 'a one-child chain of that depth saved through that form on a thread with that stack size; Scad::save runs on the calling thread'})
    for case, v in zip(F, fv):
        diff, oracle, diff_fmt = v
        # codes 20..22 (argument binding, parameter values, colour names) are C02's subject, not C13's: a file holding
        # color("Browns") is exactly settings plus children and parses (ScadColor::Browns is the known finding of C02)
        if oracle in (20, 21, 22): oracle = 0
        if oracle != 0:
            what = {2: 'the call panicked or the file is missing', 11: 'file does not parse as an OpenSCAD program', 30: 'the assignments at the top are not exactly the settings given',
                    31: 'no macro arm for this combination of settings'}.get(oracle, textprop.ORACLE_TEXT.get(oracle, str(oracle)))
            failures.append({'clause': 'file_parses_as_settings_plus_children', 'key': 'file%d' % oracle, 'what': what, 'case': case[:700]})
        elif diff_fmt != -1:
            failures.append({'clause': 'file_is_settings_plus_format_output', 'key': 'filefmt', 'first_difference_at_char': diff_fmt, 'case': case[:700],
                             'what': 'file content differs from the settings lines followed by what format!() produces on the calling thread (stale or missing bytes)'})
        elif diff != -1:
            failures.append({'clause': 'model_vs_file', 'key': 'filemodel', 'first_difference_at_char': diff, 'case': case[:700]})
    return {'evaluations': len(F), 'distinct_nontrivial': len(set(F)), 'samples': [{'case': c[:400]} for c in F[1:4]], 'failures': failures,
            'rule': 'harness `vh file`: Scad::save and the five scad_file! forms on real files in a scratch directory under /verif/work, 1..4 random children '
                    '(every 17th a chain of depth %d with a 256 MB stack), stack sizes 1/2/8 MB, pre-existing file content none/empty/1 byte/9 kB; the bytes are read back '
                    'after the call returns and compared in Coq with the model (regenerated arms + emission model) and with format!() output of the calling thread' % deep,
            'extra': {'file_cases': len(F)}}
def match_known(f, known): return vlib.match_known_default(f, known)
def replay(path): print(json.dumps(json.load(open(path)), indent=1)); return 0
