"""C09 -- Mt4 obeys 4x4 matrix algebra."""
import mathprop
RUN_TARGETS = ['Run/MathOps.vo']
TRUSTED = ['hand model coq/Base/Mat.v (cofactors regenerated from mt4.rs by gen/gen_mt4.py into coq/Gen/Mt4Cof.v) tied by the differential run',
           'theorems over R; inverse "to rounding" is the R/binary64 gap, measured not proved']
ASSUMPTIONS = ['stdlib real-number axioms', 'float reading: Coq primitive binary64 = Rust f64 for + - * / sqrt and comparisons']
def run(ctx):
    n = 1500 if ctx['tier'] == 'quick' else 30000
    return mathprop.run_ranges('C09', [(100, 103), (108, 108), (110, 115)], n, ctx['seed'])
def match_known(f, known): return None
def replay(path): return mathprop.replay('C09', path)
