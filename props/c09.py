"""C09 -- Mt4 obeys 4x4 matrix algebra."""
import mathprop
RUN_TARGETS = ['Run/MathOps.vo']
TRUSTED = ['hand model coq/Base/Mat.v (cofactors regenerated from mt4.rs by gen/gen_mt4.py into coq/Gen/Mt4Cof.v) tied by the differential run',
           'theorems over R; inverse "to rounding" is the R/binary64 gap, measured not proved']
ASSUMPTIONS = ['stdlib real-number axioms', 'float reading: Coq primitive binary64 = Rust f64 for + - * / sqrt and comparisons']
def mat(a):  # column-major flat -> rows
    return [[a[c * 4 + r] for c in range(4)] for r in range(4)]
def mmul(A, B):
    return [[sum(A[i][k] * B[k][j] for k in range(4)) for j in range(4)] for i in range(4)]
def inverse_oracle(case):
    """property-level oracle on the implementation's own output: A * inverse(A) = inverse(A) * A = I to rounding,
    and None only for singular input (exact rational determinant)"""
    from fractions import Fraction
    op, args, res = case
    if op != 108 or res is None: return None
    import math
    if any(math.isinf(x) or math.isnan(x) for x in args): return None
    A = mat(args)
    FA = [[Fraction(x) for x in row] for row in A]
    def det(M):
        n = len(M)
        if n == 1: return M[0][0]
        return sum((-1) ** j * M[0][j] * det([r[:j] + r[j + 1:] for r in M[1:]]) for j in range(n))
    d = det(FA)
    if res[0] == 0.0:
        if d != 0 and abs(float(d)) > 1e-6 * max(1.0, max(abs(x) for x in args)) ** 4:
            return {'clause': 'inverse_none_iff_singular', 'key': 'inv_none', 'matrix_column_major': args, 'exact_determinant': float(d), 'implementation': 'None'}
        return None
    inv = mat(res[1:])
    if any(math.isinf(x) or math.isnan(x) for x in res): return None
    na = max(abs(x) for x in args); ni = max(abs(x) for x in res[1:])
    tol = 1e-7 * (1 + 16 * na * ni)
    for name, P in (('A*inv', mmul(A, inv)), ('inv*A', mmul(inv, A))):
        for i in range(4):
            for j in range(4):
                if abs(P[i][j] - (1.0 if i == j else 0.0)) > tol:
                    return {'clause': 'inverse_is_two_sided', 'key': 'inv', 'matrix_column_major': args, 'implementation_inverse': res[1:],
                            'product': name, 'entry': [i, j], 'value': P[i][j], 'tolerance': tol}
    return None

def run(ctx):
    n = (1500 if ctx['tier'] == 'quick' else 30000) * ctx.get('boost', 1)
    return mathprop.run_ranges('C09', [(100, 103), (108, 108), (110, 115)], n, ctx['seed'], oracle=inverse_oracle)
def match_known(f, known): return None
def replay(path): return mathprop.replay('C09', path)
