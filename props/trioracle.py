"""Exact (rational) oracle for triangulations: count, range, boundary, orientation, area, on simple inputs."""
from fractions import Fraction as Fr

def orient(a, b, c): return (b[0] - a[0]) * (c[1] - a[1]) - (c[0] - a[0]) * (b[1] - a[1])
def on_seg(a, b, p):
    return orient(a, b, p) == 0 and min(a[0], b[0]) <= p[0] <= max(a[0], b[0]) and min(a[1], b[1]) <= p[1] <= max(a[1], b[1])
def seg_intersect(a, b, c, d):
    o1, o2, o3, o4 = orient(a, b, c), orient(a, b, d), orient(c, d, a), orient(c, d, b)
    if ((o1 > 0 and o2 < 0) or (o1 < 0 and o2 > 0)) and ((o3 > 0 and o4 < 0) or (o3 < 0 and o4 > 0)): return True
    return on_seg(a, b, c) or on_seg(a, b, d) or on_seg(c, d, a) or on_seg(c, d, b)
def is_simple(p):
    n = len(p)
    if len(set(p)) != n: return False
    for i in range(n):
        for j in range(i + 1, n):
            if j == i + 1 or (i == 0 and j == n - 1):
                # adjacent edges share exactly one end point; they must not overlap
                a, b, c = p[i], p[(i + 1) % n], p[(j + 1) % n] if j == i + 1 else p[j]
                if j == i + 1 and orient(a, b, c) == 0 and (c[0] - b[0]) * (a[0] - b[0]) + (c[1] - b[1]) * (a[1] - b[1]) > 0: return False
                if i == 0 and j == n - 1:
                    a, b, c = p[j], p[0], p[1]
                    if orient(a, b, c) == 0 and (c[0] - b[0]) * (a[0] - b[0]) + (c[1] - b[1]) * (a[1] - b[1]) > 0: return False
                continue
            if seg_intersect(p[i], p[(i + 1) % n], p[j], p[(j + 1) % n]): return False
    return True
def area2(p): return sum(p[i][0] * p[(i + 1) % len(p)][1] - p[(i + 1) % len(p)][0] * p[i][1] for i in range(len(p)))

def project(normal, pts3):
    ax, ay, az = abs(normal[0]), abs(normal[1]), abs(normal[2])
    if ax >= ay and ax >= az: return [((q[1], q[2]) if normal[0] >= 0 else (-q[1], q[2])) for q in pts3]
    if ay >= ax and ay >= az: return [((-q[0], q[2]) if normal[1] >= 0 else (q[0], q[2])) for q in pts3]
    return [((q[0], q[1]) if normal[2] >= 0 else (-q[0], q[1])) for q in pts3]

def check(poly, idx, want_same_winding):
    """poly: exact 2D points; idx: triangle indices; want_same_winding: True = like the input, False = the other way,
    None = either but consistent. Returns None or (clause, detail)"""
    n = len(poly)
    if not is_simple(poly): return 'skip'
    A = area2(poly)
    if A == 0: return 'skip'
    if len(idx) != 3 * (n - 2): return ('triangle_count', {'got': len(idx) // 3, 'want': n - 2})
    if any(not (0 <= i < n) for i in idx): return ('index_range', {})
    tris = [idx[i:i + 3] for i in range(0, len(idx), 3)]
    sgn_poly = 1 if A > 0 else -1
    sgns = set()
    asum = 0
    tol = abs(A) / 10 ** 9        # a triangle this thin counts as degenerate (three collinear input vertices up to rounding)
    for t in tris:
        o = orient(poly[t[0]], poly[t[1]], poly[t[2]])
        asum += o
        if abs(o) <= tol: continue
        sgns.add(1 if o > 0 else -1)
    if len(sgns) != 1: return ('mixed_winding', {})
    s = sgns.pop()
    if want_same_winding is True and s != sgn_poly: return ('winding_like_input', {})
    if want_same_winding is False and s != -sgn_poly: return ('winding_reversed', {})
    if abs(abs(asum) - abs(A)) > 4 * tol: return ('area_sum', {'sum': float(asum), 'polygon': float(A)})
    edges = {}
    for t in tris:
        for k in range(3):
            e = (t[k], t[(k + 1) % 3]); edges[e] = edges.get(e, 0) + 1
    if any(c != 1 for c in edges.values()): return ('edge_used_twice', {})
    fwd = s == sgn_poly
    for i in range(n):
        e = (i, (i + 1) % n) if fwd else ((i + 1) % n, i)
        if edges.get(e, 0) != 1: return ('polygon_edge_used_once', {'edge': e})
        if (e[1], e[0]) in edges: return ('polygon_edge_reverse_absent', {'edge': e})
    for (u, v) in edges:
        if (v, u) not in edges:
            is_boundary = ((u + 1) % n == v) or ((v + 1) % n == u)
            if not is_boundary: return ('diagonal_shared_by_two', {'edge': (u, v)})
    return None

def near_collinear(poly):
    """some vertex lies within rounding distance of the line through two other vertices (not its two neighbours):
    the configuration in which an exact ear test and a floating-point one can disagree"""
    n = len(poly); A = abs(area2(poly)); tol = A / 10 ** 9
    for i in range(n):
        for j in range(i + 1, n):
            for k in range(j + 1, n):
                cons = sum(1 for (a, b) in ((i, j), (j, k), (i, k)) if (b - a) % n in (1, n - 1))
                if cons >= 2: continue
                if abs(orient(poly[i], poly[j], poly[k])) <= tol: return True
    return False

def c03_oracle(case):
    op, a, res = case
    if res is None or op not in (300, 301, 302, 303): return None
    try:
        if op in (300, 301):
            poly = [(Fr(a[i]), Fr(a[i + 1])) for i in range(0, len(a), 2)]
            r = check(poly, [int(x) for x in res], op == 300)
            poly2 = poly
        else:
            normal = a[0:3]
            pts3 = [(Fr(a[i]), Fr(a[i + 1]), Fr(a[i + 2])) for i in range(3, len(a), 3)]
            poly2 = project(normal, pts3)
            r = check(poly2, [int(x) for x in res], None)
    except (ValueError, OverflowError):
        return None
    if r is None or r == 'skip': return None
    cls = 'near_collinear_vertices' if (len(poly2) <= 60 and near_collinear(poly2)) else 'general_position'
    return {'class': cls, 'clause': r[0], 'key': 'tri_%s_%d' % (r[0], op), 'detail': r[1], 'args': a, 'indices': [int(x) for x in res], 'n': len(a) // 2 if op < 302 else (len(a) - 3) // 3}
