"""C08 -- Bezier curves and chains are the exact curves, joined smoothly."""
import mathprop, geomoracles
RUN_TARGETS = ['Run/GeomOps.vo']
WITNESS = ['Props/Witness_chains.vo']     # non-vacuity examples for the conditional theorems (built with the property)
TRUSTED = ['hand model coq/Geom/Dim2.v (curves, chain builders as a state machine, both star construction paths) tied by the differential run',
           'theorems over R']
ASSUMPTIONS = ['stdlib real-number axioms', 'the end point is reached up to the rounding of segments*(1/segments)']
def run(ctx):
    n = 1400 if ctx['tier'] == 'quick' else 20000
    res = mathprop.run_ranges('C08', [(206, 207), (209, 219)], n, ctx['seed'], oracle=geomoracles.c08_oracle, suite='geom', verdict='gverdict',
                              model_out='gmodel_out', imports=mathprop.GEOM_IMPORTS,
                              rule='harness `vh geom`: quadratic/cubic curves 2D/3D (free functions and structs), chain histories new -> add^k -> [close] with k = 0..6, '
                                   'random handle lengths, segment counts 1..40 incl. 3, 7, 49, 93; bezier_star and BezierStar::new; model compared in Coq, oracles: Bernstein points, '
                                   'end points, joints shared exactly, tangent continuity (cosine), counts, knots, closed chain does not repeat its first point')
    return res
def match_known(f, known): return None
def replay(path): return mathprop.replay('C08', path)
