"""Shared runner for C01 / C02 (tree emission)."""
import re, json
import vlib

IMPORTS = ('From Coq Require Import NArith ZArith List String Floats.\nImport ListNotations.\n'
           'From SCAD Require Import Text.Chars Text.Tree Text.Bind Run.TextRun.\nOpen Scope string_scope.')
ORACLE_TEXT = {2: 'emission panicked', 10: 'emitted text does not lex as OpenSCAD', 11: 'emitted text does not parse as exactly the expected statements',
               12: 'parsed statement has a different operation or different children', 13: 'braces are not balanced',
               20: 'an emitted argument binds to no parameter of the built-in', 21: 'bound parameters differ from the node (value, name, presence or scalar/vector form)',
               22: 'colour name is not one OpenSCAD knows'}
CLAUSE = {2: 'emit_total', 10: 'lex', 11: 'parse', 12: 'shape', 13: 'balanced', 20: 'param_binding', 21: 'param_values', 22: 'colour_known'}

CLASSES = {}
def split_cases(out):
    T, N = [], []
    for chunk in out.split('@@CASE@@ ')[1:]:
        kind, body = chunk[0], chunk[2:].rstrip('\n')
        if '\n@@CLS@@ ' in body:
            body, cls = body.rsplit('\n@@CLS@@ ', 1); CLASSES[body] = cls.strip()
        (T if kind == 'T' else N).append(body)
    return T, N

def run_text(prop, n, seed, c01=True, c02=True):
    rc, out = vlib.harness_run(['text', seed, n], timeout=900)
    if rc != 0: raise RuntimeError('harness text failed: ' + out[-2000:])
    T, N = split_cases(out)
    tv = vlib.run_shards(prop, IMPORTS, 'tcase', 'text_verdict', T, per_shard=max(8, len(T) // 16 + 1))
    failures = []
    n_model_diff = 0
    for case, v in zip(T, tv):
        diff, oracle_impl, oracle_model = v
        head = case[:600]
        colour = None
        m = re.search(r'\(Color None \(Some (\d+)%N\)', case)
        if oracle_impl != 0:
            applicable = (oracle_impl in (2, 10, 11, 12, 13)) or (oracle_impl in (20, 21, 22) and c02)
            if applicable:
                f = {'clause': CLAUSE.get(oracle_impl, str(oracle_impl)), 'key': CLAUSE.get(oracle_impl, ''), 'what': ORACLE_TEXT.get(oracle_impl), 'case': head, 'tree_class': CLASSES.get(case, 'ordinary'),
                     'implementation_text': extract_text(case)[:800]}
                if oracle_impl == 22 and m:
                    f['color'] = colour_name(int(m.group(1))); f['key'] = 'colour:' + f['color']
                failures.append(f)
        if diff != -1 and oracle_impl == 0:
            n_model_diff += 1
            failures.append({'clause': 'model_vs_impl_text', 'key': 'textdiff', 'first_difference_at_char': diff, 'case': head,
                             'implementation_text': extract_text(case)[:800], 'oracle_on_implementation_text': 'passes',
                             'note': 'the implementation no longer emits the text of the proven model; the oracles found nothing wrong with this text'})
        if oracle_model != 0 and oracle_impl == 0 and diff == -1:
            pass
    nv = vlib.run_shards(prop + 'n', IMPORTS, 'float * text', 'num_verdict', N, per_shard=max(50, len(N) // 16 + 1)) if (c02 and N) else []
    for case, v in zip(N, nv):
        if v[0] != 0:
            failures.append({'clause': 'number_readback', 'key': 'num', 'case': case, 'what': 'literal malformed' if v[0] == 1 else 'literal reads back to a different f64'})
    samples = [{'trees': t[:300]} for t in T[30:33]] + [{'number': x} for x in N[:2]]
    return {'evaluations': len(T) + len(N), 'distinct_nontrivial': len(set(T)) + len(set(N)), 'samples': samples, 'failures': failures,
            'rule': 'harness `vh text`: every ScadOp variant x random Option/bool combinations with 0 and 1 children (systematic pass), every ScadColor once, then random trees '
                    '(depth <= 3, fan-out 0..4) in sequences of 1..3; numbers from boundary classes (+-0, subnormals, MAX, 1e21, 0.1+0.2, 2^53+1, random bit patterns, CAD decimals); '
                    'strings incl. quotes, backslashes, control characters, combining marks, non-BMP. For every case Coq computes the model text and runs lexer/parser/binder '
                    'on the implementation text; every number literal is read back exactly (decimal -> binary64 in Z arithmetic).',
            'extra': {'tree_cases': len(T), 'number_literals': len(N), 'model_text_equal': len(T) - n_model_diff}}

def extract_text(case):
    m = re.search(r'\(Some \(u8 "(.*)"\)\)\)$', case, re.S)
    if m: return m.group(1).replace('""', '"')
    m = re.search(r'\(Some \(u8b \[(.*)\]\)\)\)$', case, re.S)
    if m: return bytes(int(x) for x in re.findall(r'(\d+)%N', m.group(1))).decode('utf-8', 'replace')
    return ''

_colours = None
def colour_name(i):
    global _colours
    if _colours is None:
        src = open(vlib.COQ + '/Gen/Enums.v').read()
        m = re.search(r'color_names : list string := \[(.*?)\]\.', src, re.S)
        _colours = re.findall(r'"([A-Za-z]+)"', m.group(1))
    return _colours[i] if i < len(_colours) else '?'
