"""C16 -- metric threads have ISO proportions, the table pitch and the asked hand."""
import json, re
import vlib, partprop, partoracles, mathprop
RUN_TARGETS = ['Run/PartsRun.vo']
TRUSTED = ['translator gen/gen_threads.py (56 table rows as exact decimals, shape of m_table_lookup, thread_height/d_min formulas)',
           'hand model coq/Parts/Thread.v (thread mesh generator with lead-in/out counters) tied by tree comparison in Coq; hooks verif_m_table_lookup / verif_threaded_cylinder',
           'vertex-bound oracle props/partoracles.py on implementation meshes (exploration)']
ASSUMPTIONS = ['stdlib real-number axioms for the minor-diameter formula', 'sizes near i32::MAX are covered by the theorem only (the Rust loop would decrement ~2^31 times)']
def run(ctx):
    n = (90 * ctx.get('boost', 1)) if ctx['tier'] == 'quick' else 500
    lines, rows = partprop.lookup_rows()
    lv = vlib.run_shards('C16l', partprop.PART_IMPORTS, 'Z * list float', 'lookup_verdict', lines, per_shard=max(10, len(lines) // 8 + 1))
    failures = []
    for l, v in zip(lines, lv):
        if v[0] != 0:
            m = int(re.match(r'\(\(?(-?\d+)', l).group(1))
            failures.append({'clause': 'table_lookup', 'key': 'lookup', 'm': m, 'implementation_row': rows.get(m),
                             'what': {5: 'model loop and specification (largest listed size <= max(m,2)) pick different rows', 6: 'lookup failed'}.get(v[0], 'implementation returns another row than the one the specification selects')})
    terms, cases, pf = partprop.run_parts('C16', n, ctx['seed'], 500, 503)
    t2, c2, pf2 = partprop.run_parts('C16b', n, ctx['seed'] + 7, 513, 513)
    failures += pf + pf2
    for c in cases + c2:
        if c['op'] in (500, 501, 502, 503):
            m = int(c['args'][0]); key = max(k for k in rows if k <= max(m, 2) and k in rows) if m in rows or True else None
            c['row'] = rows.get(m) if m in rows else None
        f = partoracles.c16_oracle(c)
        if f: f['builder'] = partprop.NAMES.get(c['op']); failures.append(f)
    return {'evaluations': len(lines) + len(cases) + len(c2), 'distinct_nontrivial': len(set(lines)) + len(set(terms)) + len(set(t2)), 'failures': failures,
            'samples': [{'m': -5, 'row': rows.get(-5)}, {'builder': 'threaded_rod', 'args': cases[0]['args']}],
            'rule': 'table lookup through the hook for every m in [-5, 130] plus i32::MIN, -10^6, 1000, 65536, 10^6 (row values compared with the regenerated table and with the '
                    'specification "largest listed size <= max(m,2)"); threaded_rod / tap / hex_bolt / hex_nut for listed, unlisted, < 2 and > 100 sizes and threaded_cylinder for arbitrary dimensions via the hook '
                    '(segments 4/5/8/16/33, lead-in/out 0/1/45/90/360, both hands): whole tree incl. the thread mesh compared with the Coq model; oracle on the mesh: min z = 0, every vertex '
                    'radius within [minor, major], ring k at +-k*360/segments, one pitch per revolution within the step rounding', 'extra': {'lookup_cases': len(lines)}}
def match_known(f, known): return vlib.match_known_default(f, known)
def replay(path): print(json.dumps(json.load(open(path)), indent=1)[:4000]); return 0
