"""Property-level oracles for C07 / C08, run on the implementation's own output."""
import math

def pts2(v): return [(v[i], v[i + 1]) for i in range(0, len(v) - 1, 2)]
def pts3(v): return [(v[i], v[i + 1], v[i + 2]) for i in range(0, len(v) - 2, 3)]
def area2(p): return sum(p[i][0] * p[(i + 1) % len(p)][1] - p[(i + 1) % len(p)][0] * p[i][1] for i in range(len(p)))
def close(a, b, tol): return abs(a - b) <= tol
def orient(a, b, c): return (b[0] - a[0]) * (c[1] - a[1]) - (c[0] - a[0]) * (b[1] - a[1])
def seg_cross(a, b, c, d, eps):
    o1, o2, o3, o4 = orient(a, b, c), orient(a, b, d), orient(c, d, a), orient(c, d, b)
    return (o1 > eps and o2 < -eps or o1 < -eps and o2 > eps) and (o3 > eps and o4 < -eps or o3 < -eps and o4 > eps)
def simple(p, scale):
    n = len(p); eps = 1e-12 * scale * scale
    for i in range(n):
        for j in range(i + 2, n):
            if i == 0 and j == n - 1: continue
            if seg_cross(p[i], p[(i + 1) % n], p[j], p[(j + 1) % n], eps): return False
    return True
def fail(clause, **kw): d = {'clause': clause, 'key': clause}; d.update(kw); return d

def c07_oracle(case):
    op, a, res = case
    if res is None: return None
    if op not in (200, 201, 202, 203, 204, 205, 208): return None
    p = pts2(res)
    if op == 200:
        deg, seg = a[2], int(a[3])
        want = seg if deg == 360.0 else seg + 1
        if len(p) != want: return fail('point_count', args=a, got=len(p), want=want)
        r0 = math.hypot(a[0], a[1]); tol = 1e-9 * (1 + r0)
        for i, q in enumerate(p):
            if not close(math.hypot(*q), r0, tol): return fail('arc_keeps_radius', args=a, index=i, point=q, radius=r0)
            ang = math.radians(-i * deg / seg)
            ex = (a[0] * math.cos(ang) - a[1] * math.sin(ang), a[0] * math.sin(ang) + a[1] * math.cos(ang))
            if not (close(q[0], ex[0], tol) and close(q[1], ex[1], tol)): return fail('arc_advances_clockwise_by_degrees_over_segments', args=a, index=i, point=q, expected=ex)
        return None
    if op in (201, 202, 203):
        n = int(a[1]) if op == 201 else int(a[0]); r = a[0] if op == 201 else a[1]
        if len(p) != n: return fail('point_count', args=a, got=len(p), want=n)
        tol = 1e-9 * (1 + r)
        if n >= 3 and not area2(p) < 0: return fail('clockwise', args=a, area2=area2(p))
        if op in (201, 202):
            for i, q in enumerate(p):
                if not close(math.hypot(*q), r, tol): return fail('inscribed_corners_on_radius', args=a, index=i, point=q)
        else:
            for i in range(n):
                q, s = p[i], p[(i + 1) % n]
                d = abs(orient(q, s, (0.0, 0.0))) / math.hypot(s[0] - q[0], s[1] - q[1])
                if not close(d, r, 1e-9 * (1 + r)): return fail('circumscribed_edges_tangent_to_radius', args=a, edge=i, distance=d, radius=r)
        if n >= 3 and not simple(p, r): return fail('simple', args=a)
        return None
    if op == 204:
        w, h, r, seg, cen = a[0], a[1], a[2], int(a[3]), a[4] != 0.0
        if len(p) != 4 * (seg + 1): return fail('point_count', args=a, got=len(p), want=4 * (seg + 1))
        x0, y0 = (-w / 2, -h / 2) if cen else (0.0, 0.0)
        tol = 1e-9 * (1 + w + h)
        xs = [q[0] for q in p]; ys = [q[1] for q in p]
        if min(xs) < x0 - tol or max(xs) > x0 + w + tol or min(ys) < y0 - tol or max(ys) > y0 + h + tol: return fail('rounded_rect_inside_box', args=a)
        if not (close(min(xs), x0, tol) and close(max(xs), x0 + w, tol) and close(min(ys), y0, tol) and close(max(ys), y0 + h, tol)): return fail('rounded_rect_touches_all_sides', args=a, bbox=[min(xs), max(xs), min(ys), max(ys)])
        centres = [(x0 + w - r, y0 + h - r), (x0 + w - r, y0 + r), (x0 + r, y0 + r), (x0 + r, y0 + h - r)]
        for k in range(4):
            for q in p[k * (seg + 1):(k + 1) * (seg + 1)]:
                if not close(math.hypot(q[0] - centres[k][0], q[1] - centres[k][1]), r, tol): return fail('rounded_rect_corner_arcs', args=a, corner=k, point=q)
        if not area2(p) < 0: return fail('clockwise', args=a, area2=area2(p))
        if not simple(p, w + h): return fail('simple', args=a)
        return None
    if op == 205:
        s, o = a[0], a[1]
        want = [(0.0, s + o), (o, s + o), (o, s), (s, o), (s + o, o), (o + s, 0.0), (0.0, 0.0)]
        if p != want: return fail('chamfer_points', args=a, got=p, want=want)
        if not area2(p) < 0: return fail('clockwise', args=a, area2=area2(p))
        if o > 0 and not simple(p, s + o): return fail('simple', args=a, **({'class': 'chamfer_oversize_ge_size'} if o >= s else {}))
        if o > 0 and o == s: return fail('simple', args=a, **{'class': 'chamfer_oversize_ge_size'})
        return None
    if op == 208:
        n, ri, ro = int(a[0]), a[1], a[2]
        if len(p) != 2 * n: return fail('point_count', args=a, got=len(p), want=2 * n)
        tol = 1e-9 * (1 + ri + ro)
        for j, q in enumerate(p):
            rad = ri if j % 2 == 0 else ro
            ang = math.radians(-180.0 * j / n)
            ex = (rad * math.cos(ang), rad * math.sin(ang))
            if not (close(q[0], ex[0], tol) and close(q[1], ex[1], tol)): return fail('star_points', args=a, index=j, point=q, expected=ex)
        if not area2(p) < 0: return fail('clockwise', args=a, area2=area2(p))
        return None
    return None

def bern(ctrl, t):
    n = len(ctrl) - 1
    out = [0.0] * len(ctrl[0])
    for k, c in enumerate(ctrl):
        w = math.comb(n, k) * (t ** k) * ((1 - t) ** (n - k))
        for d in range(len(out)): out[d] += w * c[d]
    return out

def check_curve(ctrl, seg, pts, a, what):
    if len(pts) != seg + 1: return fail('bezier_point_count', args=a, which=what, got=len(pts), want=seg + 1)
    scale = 1 + max(abs(x) for c in ctrl for x in c); tol = 1e-9 * scale
    for i, q in enumerate(pts):
        ex = bern(ctrl, i / seg)
        if any(not close(q[d], ex[d], tol) for d in range(len(ex))): return fail('bezier_is_bernstein_at_i_over_segments', args=a, which=what, index=i, point=q, expected=ex)
    if any(not close(pts[0][d], ctrl[0][d], tol) for d in range(len(ctrl[0]))): return fail('bezier_starts_at_start', args=a, which=what)
    if any(not close(pts[-1][d], ctrl[-1][d], tol) for d in range(len(ctrl[0]))): return fail('bezier_ends_at_end', args=a, which=what)
    return None

def c08_oracle(case):
    op, a, res = case
    if res is None: return None
    if op in (206, 215): return check_curve([tuple(a[0:2]), tuple(a[2:4]), tuple(a[4:6])], int(a[6]), pts2(res), a, 'quadratic 2D')
    if op in (207, 216): return check_curve([tuple(a[0:2]), tuple(a[2:4]), tuple(a[4:6]), tuple(a[6:8])], int(a[8]), pts2(res), a, 'cubic 2D')
    if op in (212, 217): return check_curve([tuple(a[0:3]), tuple(a[3:6]), tuple(a[6:9])], int(a[9]), pts3(res), a, 'quadratic 3D')
    if op in (213, 218): return check_curve([tuple(a[0:3]), tuple(a[3:6]), tuple(a[6:9]), tuple(a[9:12])], int(a[12]), pts3(res), a, 'cubic 3D')
    if op in (211, 214, 219):
        dim = 3 if op == 214 else 2
        w = 4 * dim + 1
        nc = int(res[0]); curves = []
        for k in range(nc):
            c = res[1 + k * w: 1 + (k + 1) * w]
            curves.append(([tuple(c[i * dim:(i + 1) * dim]) for i in range(4)], int(c[4 * dim])))
        flat = res[1 + nc * w:]
        pts = pts3(flat) if dim == 3 else pts2(flat)
        closed = (a[1] != 0.0) if op != 219 else True
        if op != 219:
            nadds = int(a[0])
            if nc != 1 + nadds + (1 if closed else 0): return fail('chain_curve_count', args=a, got=nc)
        scale = 1 + max(abs(x) for c, _ in curves for p in c for x in p)
        for k in range(nc):
            nxt = (k + 1) % nc
            if nxt == 0 and not closed: continue
            (ck, _), (cn, _) = curves[k], curves[nxt]
            if ck[3] != cn[0]: return fail('chain_consecutive_curves_share_end_point', args=a, joint=k, end=ck[3], next_start=cn[0])
            u = [ck[3][d] - ck[2][d] for d in range(dim)]; v = [cn[1][d] - cn[0][d] for d in range(dim)]
            lu = math.sqrt(sum(x * x for x in u)); lv = math.sqrt(sum(x * x for x in v))
            if lu > 0 and lv > 0:
                dot = sum(u[d] * v[d] for d in range(dim)) / (lu * lv)
                if dot < 1 - 1e-9: return fail('chain_tangent_continuous_at_joint', args=a, joint=k, cosine=dot)
        if op == 219: return None
        want = sum(s for _, s in curves) + (0 if closed else 1)
        if len(pts) != want: return fail('chain_point_count', args=a, got=len(pts), want=want)
        off = 0; tol = 1e-9 * scale
        for k, (c, s) in enumerate(curves):
            if any(not close(pts[off][d], c[0][d], tol) for d in range(dim)): return fail('chain_passes_through_knots', args=a, knot=k, point=pts[off], expected=c[0])
            off += s
        if closed and len(pts) > 1 and pts[-1] == pts[0]: return fail('closed_chain_repeats_first_point', args=a)
        return None
    return None

def star_pair_oracle(cases):
    """bezier_star(..) == BezierStar::new(..).gen_points() on the same arguments (ops 209 / 210)"""
    by = {}
    fails = []
    for op, a, res in cases:
        if op in (209, 210): by.setdefault(tuple(a), {})[op] = res
    for a, d in by.items():
        if 209 in d and 210 in d and d[209] != d[210]:
            fails.append(fail('bezier_star_equals_BezierStar_new_gen_points', args=list(a)))
    return fails
