"""C18 -- a Viewer scene contains everything added, where it was added."""
import json, math
import vlib, partprop, partoracles, meshoracle
RUN_TARGETS = ['Run/PartsRun.vo']
TRUSTED = ['hand model coq/Parts/Viewer.v (13 add_* operations as a state machine, edge cylinders through the look_at / cylinder / apply_matrix models) tied by tree comparison in Coq on random histories',
           'edge-geometry oracle on implementation trees (exploration)']
ASSUMPTIONS = ['into_scad on the empty history panics (unwrap on None): "after any sequence of add calls" is read as non-empty; both model and implementation panic there']
IMPORTS = partprop.PART_IMPORTS + '\nFrom SCAD Require Import Base.Vec Geom.Dim2 Parts.Viewer.'
def edge_oracle(tree, history_terms):
    """every polyhedron in the scene is a closed outward cylinder"""
    fails = []
    def walk(n):
        if n['op'] == 'polyhedron':
            pts = [tuple(p) for p in n['points']]; faces = n['faces']
            r = meshoracle.closed_oriented(len(pts), faces)
            if r: fails.append({'clause': 'edge_cylinder_closed', 'key': 'edgeclosed', 'detail': r[1]})
        for c in n['children']: walk(c)
    if tree: walk(tree)
    return fails
def run(ctx):
    quick = ctx['tier'] == 'quick'
    n, max_ops = (60 * ctx.get('boost', 1), 5) if quick else (240, 10)
    rc, out = vlib.harness_run(['viewer', ctx['seed'], n, max_ops], timeout=900)
    if rc != 0: raise RuntimeError('harness viewer failed: ' + out[-2000:])
    terms = []; trees = []; oracle_lines = []; pending = []
    lines_out = out.split('\n'); i = 0
    while i < len(lines_out):
        l = lines_out[i]
        if l.startswith('@@ORACLE@@ '): pending.append(l[len('@@ORACLE@@ '):])
        elif l == '@@CASE@@ V':
            terms.append(lines_out[i + 1].strip()); i += 1; oracle_lines.append(pending); pending = []
        elif l.startswith('@@JSON@@ '): trees.append(json.loads(l[len('@@JSON@@ '):].strip()))
        i += 1
    verd = vlib.run_shards('C18', IMPORTS, 'vcase', 'viewer_verdict', terms, per_shard=max(2, len(terms) // 16 + 1), timeout=1700)
    failures = []
    for t, tr, v in zip(terms, trees, verd):
        if v[0] != 0:
            failures.append({'clause': 'scene_vs_model', 'key': 'viewermodel', 'verdict': {2: 'scene tree differs from the model of the history', 3: 'model panics, implementation returns', 4: 'implementation panics, model returns'}.get(v[0]),
                             'history': t[:2500]})
        failures += edge_oracle(tr, t)
    for t, ol in zip(terms, oracle_lines):
        for o in ol:
            clause = o.split(' ', 1)[0]
            failures.append({'clause': clause, 'key': clause, 'what': o, 'history': t[:2500],
                             'how': 'replay the listed Viewer calls in order on Viewer::new(point radius, edge radius, segments) and inspect into_scad() after the named call'})
    return {'evaluations': len(terms), 'distinct_nontrivial': len(set(terms)), 'failures': failures, 'samples': [{'history': t[:400]} for t in terms[1:3]],
            'rule': 'harness `vh viewer`: random histories of 0..%d calls over all 13 add_* operations (points, point lists incl. empty, 2D/3D edge lists incl. empty, vertical up/down, horizontal, '
                    'tiny and oblique edges, quadratic/cubic curves, chains with optional close, bezier star), viewer segments 4..12, random colours; the final scene tree (incl. every edge cylinder mesh) '
                    'must equal the Coq model run on the same history; every edge polyhedron is checked closed and consistently oriented; on the implementation alone: after every call the scene is a tree whose items are the items of the scene before the call, in order, plus new ones, and the item added by an edge call is one colour group with one cylinder per edge whose axis runs from the start to the end of the edge at the edge radius' % max_ops, 'extra': {}}
def match_known(f, known): return vlib.match_known_default(f, known)
def replay(path): print(json.dumps(json.load(open(path)), indent=1)[:4000]); return 0
