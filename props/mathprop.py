"""Shared runner for the properties decided on the flat math ops (C09-C12)."""
import re, json
import vlib

IMPORTS = 'From Coq Require Import ZArith List Floats.\nImport ListNotations.\nFrom SCAD Require Import Base.NumF Run.MathOps.'
VERDICT_TEXT = {1: 'within tolerance but not bit-exact', 2: 'outside tolerance / different shape',
                3: 'model panics, implementation returns', 4: 'implementation panics, model returns'}

def opnames():
    rc, out = vlib.harness_run(['ops'])
    d = {}
    for l in out.strip().split('\n'):
        p = l.split()
        if len(p) >= 2: d[int(p[0])] = (p[1], p[2] if len(p) > 2 else '')
    return d

def geom_opnames():
    rc, out = vlib.harness_run(['geomops'])
    d = {}
    for l in out.strip().split('\n'):
        p = l.split(' ', 1)
        if len(p) == 2: d[int(p[0])] = (p[1], '')
    return d

GEOM_IMPORTS = 'From Coq Require Import ZArith List Floats.\nImport ListNotations.\nFrom SCAD Require Import Base.NumF Run.MathOps Run.GeomOps.'

def hexf(tok):
    tok = tok.strip().strip('()')
    try:
        if tok in ('nan', 'infinity', 'neg_infinity'):
            return {'nan': float('nan'), 'infinity': float('inf'), 'neg_infinity': float('-inf')}[tok]
        return float.fromhex(tok)
    except ValueError:
        return tok

def parse_case(line):
    m = re.match(r'\((\d+)%Z, \[(.*?)\], (None|Some \[(.*?)\]), \[(.*)\]\)$', line)
    op = int(m.group(1))
    args = [hexf(t) for t in m.group(2).split(';')] if m.group(2).strip() else []
    res = None if m.group(3) == 'None' else ([hexf(t) for t in m.group(4).split(';')] if m.group(4).strip() else [])
    return op, args, res

def run_ranges(prop, ranges, n, seed, per_shard=300, oracle=None, suite='math', verdict='verdict', model_out='model_out', imports=None, rule=None):
    """ranges: list of (lo, hi). returns dict for bin/check"""
    names = opnames() if suite == 'math' else geom_opnames()
    imports = imports or IMPORTS
    lines = []
    for k, (lo, hi) in enumerate(ranges):
        rc, out = vlib.harness_run([suite, seed * 1000 + k, n // len(ranges), lo, hi])
        if rc != 0:
            raise RuntimeError('harness failed: ' + out[-2000:])
        lines += [l for l in out.split('\n') if l.startswith('(')]
    verd = vlib.run_shards(prop, imports, 'mcase', verdict, lines, per_shard=per_shard)
    failures = []
    inexact = 0
    ops_seen = {}
    for l, v in zip(lines, verd):
        code = v[0]
        op, args, res = parse_case(l)
        ops_seen[op] = ops_seen.get(op, 0) + 1
        if code == 1:
            inexact += 1
        if code >= 2:
            rc, mo = vlib.coq_eval(prop, imports, '%s %s' % (model_out, l)) if len(failures) < 4 else (0, '(not evaluated)')
            failures.append({'clause': 'model_vs_impl', 'key': names.get(op, ('?',))[0], 'op': op,
                             'function': names.get(op, ('?',))[0], 'args': args, 'implementation': res,
                             'model': ' '.join(mo.split())[:1500], 'verdict': VERDICT_TEXT.get(code, code),
                             'case_term': l})
    oracle_checked = 0
    if oracle:
        for l in lines:
            c = parse_case(l)
            f = oracle(c)
            oracle_checked += 1
            if f:
                f['function'] = names.get(c[0], ('?',))[0]
                failures.append(f)
    distinct = len(set(lines))
    samples = []
    for l in lines[:3] + lines[len(lines) // 2: len(lines) // 2 + 2]:
        op, args, res = parse_case(l)
        samples.append({'function': names.get(op, ('?',))[0], 'args': args, 'implementation': res})
    return {'evaluations': len(lines), 'distinct_nontrivial': distinct, 'samples': samples, 'failures': failures,
            'rule': rule or 'harness `vh math`: every listed impl called on structured inputs (pairwise distinct magnitudes, '
                    'every 5th round special values: +-0, subnormal, 1e300, 1e21; indices in and out of range; lists of length 0..9); '
                    'model evaluated on the float reading inside Coq (vm_compute); verdict 0 = bit-exact, 1 = within 1e-9 relative, >=2 = failure. '
                    'distinct = distinct (function, arguments) pairs',
            'extra': {'oracle_checked': oracle_checked, 'bit_exact': len(lines) - inexact - len(failures), 'within_tolerance_only': inexact,
                      'functions_covered': len(ops_seen), 'cases_per_function_min': min(ops_seen.values()) if ops_seen else 0}}

def replay(prop, path):
    d = json.load(open(path))
    if 'case_term' not in d:
        print(json.dumps(d, indent=1)); return 0
    rc, out = vlib.coq_eval(prop, IMPORTS, '(verdict %s, model_out %s)' % (d['case_term'], d['case_term']))
    print('function:', d.get('function')); print('args:', d.get('args'))
    print('implementation (recorded):', d.get('implementation'))
    print('model (now):', ' '.join(out.split()))
    # re-run the implementation on the recorded args
    import subprocess
    rc, out = vlib.harness_run(['mathone', d['op']] + [repr(float(a)) for a in d['args']])
    print('implementation (now):', out.strip())
    return 0
