"""C19 -- the random generator is the reference MT19937 stream in documented ranges."""
import re, json
import vlib
RUN_TARGETS = ['Run/RngRun.vo']
COQCHK = True
TRUSTED = ['translator gen/gen_rng.py (constants, tempering shifts, loop shapes of rng.rs -> coq/Gen/RngConsts.v)',
           'hand model coq/Rng/MT.v tied by the differential run on whole streams and on raw values fed through the scad_tree_verif hook',
           'reference spec coq/Rng/MTSpec.v (MT19937 recurrence with the 6069 seeding) is read, not derived']
ASSUMPTIONS = ['f32/f64 arithmetic of rustc follows IEEE-754 round-to-nearest-even (u as f32, f32/f64 add, sub, mul); the range theorems for f32_minmax/f64_minmax are stated on that semantics (Flocq FLT format, no overflow)',
               'f32_minmax is tied by a bounds oracle only (Coq has no primitive binary32); f64_minmax is compared bit for bit with the binary64 model']
IMPORTS = 'From Coq Require Import NArith ZArith List.\nImport ListNotations.\nFrom SCAD Require Import Rng.MT Run.RngRun.'
IMPORTS_F = 'From Coq Require Import NArith ZArith List Floats.\nImport ListNotations.\nFrom SCAD Require Import Rng.MT Run.RngRun.'

def ref_stream(seed, n):
    """independent reference MT19937 (6069 seeding), used only to search for a failing input"""
    mt = [seed & 0xffffffff]
    for i in range(1, 624): mt.append((6069 * mt[i - 1]) & 0xffffffff)
    out = []; idx = 624
    for _ in range(n):
        if idx >= 624:
            for k in range(624):
                y = (mt[k] & 0x80000000) | (mt[(k + 1) % 624] & 0x7fffffff)
                mt[k] = mt[(k + 397) % 624] ^ (y >> 1) ^ (0x9908b0df if y & 1 else 0)
            idx = 0
        y = mt[idx]; idx += 1
        y ^= y >> 11; y ^= (y << 7) & 0x9d2c5680; y ^= (y << 15) & 0xefc60000; y ^= y >> 18
        out.append(y & 0xffffffff)
    return out

def run(ctx):
    quick = ctx['tier'] == 'quick'
    nstreams, slen, nraw = (6 * ctx.get('boost', 1), 1300, 1500 * ctx.get('boost', 1)) if quick else (60, 4000, 40000)
    rc, out = vlib.harness_run(['rng', ctx['seed'], nstreams, slen, nraw], timeout=1200)
    if rc != 0: raise RuntimeError('harness rng failed: ' + out[-2000:])
    S = [l[2:] for l in out.split('\n') if l.startswith('S ')]
    R = [l[2:] for l in out.split('\n') if l.startswith('R ')]
    B = [l[2:].split() for l in out.split('\n') if l.startswith('B ')]
    D = [l[2:] for l in out.split('\n') if l.startswith('D ')]
    failures = []
    for l in out.split('\n'):
        if l.startswith('P '):
            failures.append({'clause': 'generator_is_total', 'key': 'panic:' + l.split()[1], 'what': l[2:],
                             'how': 'MersenneTwister::with_seed(seed) and u32() repeatedly, or a raw value fed through MersenneTwister::verif_from_state'})
    for l in S:
        nums = [int(x) for x in re.findall(r'(\d+)%N', l)]
        seed, outs = nums[0], nums[1:]
        ref = ref_stream(seed, len(outs))
        if ref != outs:
            k = next(i for i in range(len(outs)) if ref[i] != outs[i])
            failures.append({'clause': 'stream_vs_reference', 'key': 'refstream', 'seed_value': seed, 'position': k,
                             'implementation': outs[k], 'reference_mt19937': ref[k],
                             'how': 'MersenneTwister::with_seed(%d); u32() number %d' % (seed, k)})
    try:
        sv = vlib.run_shards('C19', IMPORTS, 'N * list N', 'stream_verdict', S, per_shard=max(1, len(S) // 16 + 1))
        rv = vlib.run_shards('C19r', IMPORTS, 'N * N * Z * Z * Z', 'range_verdict', R, per_shard=max(1, len(R) // 16 + 1))
        dv = vlib.run_shards('C19d', IMPORTS_F, 'N * float * float * float', 'f64_verdict', D, per_shard=max(1, len(D) // 16 + 1))
    except RuntimeError as e:
        ctx['broken'].append(('correspondence-run', str(e)[-2000:])); sv = [[0]] * len(S); rv = [[0]] * len(R); dv = [[0]] * len(D)
    for l, v in zip(D, dv):
        if v[0] != 0:
            failures.append({'clause': 'f64_minmax_vs_model' if v[0] & 1 else 'f64_minmax_in_[min,max]', 'key': 'f64model%d' % v[0], 'case': l,
                             'what': 'f64_minmax differs from min + (max - min) * (f32_0_1 as f64) evaluated in binary64 inside Coq' if v[0] & 1 else 'f64_minmax leaves [min, max]'})
    for l, v in zip(S, sv):
        if v[0] != 0:
            seed = int(re.match(r'\((\d+)%N', l).group(1))
            failures.append({'clause': 'stream_vs_model', 'key': 'stream', 'seed_value': seed, 'first_difference_at_output': v[0] - 1,
                             'expected': 'outputs (with_seed seed) n of coq/Rng/MT.v, proved equal to the MT19937 reference',
                             'how': 'MersenneTwister::with_seed(%d), compare u32() number %d' % (seed, v[0] - 1)})
    for l, v in zip(R, rv):
        if v[0] != 0:
            m = re.match(r'\((\d+)%N, (\d+)%N, \(?(-?\d+)\)?%Z, \(?(-?\d+)\)?%Z, \(?(-?\d+)\)?%Z\)', l)
            u, num, mn, mx, iv = [int(x) for x in m.groups()]
            failures.append({'clause': 'range_map_vs_model', 'key': 'f01' if v[0] & 1 else 'i32', 'raw': u, 'f32_0_1_times_2^32': num,
                             'i32_minmax': {'min': mn, 'max': mx, 'result': iv}, 'mismatch_bits': v[0]})
    # range oracles on the implementation's own outputs
    for l in R:
        m = re.match(r'\((\d+)%N, (\d+)%N, \(?(-?\d+)\)?%Z, \(?(-?\d+)\)?%Z, \(?(-?\d+)\)?%Z\)', l)
        u, num, mn, mx, iv = [int(x) for x in m.groups()]
        if not (0 <= num < 2 ** 32):
            failures.append({'clause': 'f32_0_1_in_[0,1)', 'key': 'f01range', 'raw': u, 'f32_0_1': num / 2.0 ** 32})
        if not (mn <= iv < mx):
            failures.append({'clause': 'i32_minmax_in_[min,max)', 'key': 'i32range', 'raw': u, 'min': mn, 'max': mx, 'result': iv})
    for b in B:
        u = int(b[0]); f, fmin, fmax, fv, dmin, dmax, dv = [float(x) for x in b[1:]]
        if not (fmin <= fv <= fmax):
            failures.append({'clause': 'f32_minmax_in_[min,max]', 'key': 'f32range', 'raw': u, 'min': fmin, 'max': fmax, 'result': fv})
        if not (dmin <= dv <= dmax):
            failures.append({'clause': 'f64_minmax_in_[min,max]', 'key': 'f64range', 'raw': u, 'min': dmin, 'max': dmax, 'result': dv})
    samples = [{'stream_seed': int(re.match(r'\((\d+)%N', l).group(1)), 'first_outputs': [int(x) for x in re.findall(r'(\d+)%N', l)[1:5]]} for l in S[:3]]
    samples += [{'raw_case': l} for l in R[5:8]]
    return {'evaluations': len(S) * slen + len(R) * 4 + len(D), 'distinct_nontrivial': len(set(S)) + len(set(R)), 'samples': samples, 'failures': failures,
            'rule': 'streams: %d seeds (0, 1, 2^31, 2^32-1, 4357, 5489, random) x %d outputs (>= 2 regenerations) compared word for word with the Coq model; '
                    'raw values (powers of two +-2, top/bottom 300, f32 rounding boundaries of every binade, random) fed through verif_from_state into f32_0_1 / i32_minmax (exact comparison with the model) '
                    'f64_minmax (bit-exact comparison with the binary64 model) and f32_minmax (bounds oracle). distinct = distinct streams + distinct raw cases' % (len(S), slen),
            'extra': {'streams': len(S), 'stream_length': slen, 'raw_values': len(R)}}

def match_known(f, known): return vlib.match_known_default(f, known)
def replay(path):
    d = json.load(open(path)); print(json.dumps(d, indent=1)); return 0
