"""Property oracles for the part builders (C14-C17), on the implementation's own trees (JSON from the harness)."""
import math

def I4(): return [[1.0 if i == j else 0.0 for j in range(4)] for i in range(4)]
def mm(A, B): return [[sum(A[i][k] * B[k][j] for k in range(4)) for j in range(4)] for i in range(4)]
def T(v): M = I4(); M[0][3], M[1][3], M[2][3] = v; return M
def S(v): M = I4(); M[0][0], M[1][1], M[2][2] = v; return M
def Rx(a): c, s = math.cos(math.radians(a)), math.sin(math.radians(a)); M = I4(); M[1][1], M[1][2], M[2][1], M[2][2] = c, -s, s, c; return M
def Ry(a): c, s = math.cos(math.radians(a)), math.sin(math.radians(a)); M = I4(); M[0][0], M[0][2], M[2][0], M[2][2] = c, s, -s, c; return M
def Rz(a): c, s = math.cos(math.radians(a)), math.sin(math.radians(a)); M = I4(); M[0][0], M[0][1], M[1][0], M[1][1] = c, -s, s, c; return M
def Raxis(a, v):
    L = math.sqrt(sum(x * x for x in v)) or 1.0; x, y, z = [c / L for c in v]; c, s = math.cos(math.radians(a)), math.sin(math.radians(a)); t = 1 - c
    M = I4(); M[0][:3] = [c + x * x * t, x * y * t - z * s, x * z * t + y * s]; M[1][:3] = [y * x * t + z * s, c + y * y * t, y * z * t - x * s]; M[2][:3] = [z * x * t - y * s, z * y * t + x * s, c + z * z * t]; return M
def mat_of(node):
    op = node['op']
    if op == 'translate': return T(node['v'])
    if op == 'scale': return S(node['v'])
    if op == 'rotate':
        if node['a'] is None: v = node['v']; return mm(Rz(v[2]), mm(Ry(v[1]), Rx(v[0])))
        if node['scalar']: return Rz(node['a'])
        return Raxis(node['a'], node['v'])
    return None
def flatten(node, M=None, ctx=()):
    M = M or I4()
    m = mat_of(node)
    if m is not None:
        out = []
        for c in node['children']: out += flatten(c, mm(M, m), ctx)
        return out
    if not node['children'] and node['op'] not in ('union', 'difference', 'intersection', 'hull', 'color', 'rotate_extrude', 'other'):
        return [(ctx, M, {k: v for k, v in node.items() if k != 'children'})]
    out = []
    if not node['children']: return [(ctx + ((node['op'], -1),), M, {'op': 'empty-' + node['op']})]
    for i, c in enumerate(node['children']):
        tag = {k: v for k, v in node.items() if k not in ('children',)}
        out += flatten(c, M, ctx + ((str(sorted(tag.items())), i),))
    return out
def mclose(A, B, tol): return all(abs(A[i][j] - B[i][j]) <= tol * (1 + abs(A[i][j]) + abs(B[i][j])) for i in range(4) for j in range(4))
def fail(clause, **kw): d = {'clause': clause, 'key': clause}; d.update(kw); return d

CENTRE_SLOT = {500: 6, 501: 4, 502: 7, 503: 5, 504: 5, 513: 8}
def total_height(op, a):
    return {500: lambda: a[1], 501: lambda: a[1], 502: lambda: a[2] + a[1], 503: lambda: a[1], 504: lambda: a[3], 513: lambda: a[3]}[op]()

def c14_pairs(cases):
    """cases: list of dict(op, args, tree). For every builder with a centre flag the centred result must be the
    un-centred one under translate(0, 0, -H/2) and nothing else"""
    fails = []; by = {}
    for c in cases:
        op = c['op']
        if op not in CENTRE_SLOT or c['tree'] is None: continue
        k = CENTRE_SLOT[op]; key = (op, tuple(c['args'][:k] + c['args'][k + 1:]))
        by.setdefault(key, {})[c['args'][k]] = c
    n = 0
    for key, d in by.items():
        if 0.0 not in d or 1.0 not in d: continue
        n += 1
        a = d[0.0]['args']; H = total_height(key[0], a)
        f0 = flatten(d[0.0]['tree']); f1 = flatten(d[1.0]['tree'])
        if len(f0) != len(f1): fails.append(fail('center_only_translates', op=key[0], args=a, what='different number of sub-parts', uncentred=len(f0), centred=len(f1))); continue
        shift = T([0.0, 0.0, -H / 2.0])
        for (c0, M0, l0), (c1, M1, l1) in zip(f0, f1):
            if c0 != c1 or l0 != l1: fails.append(fail('center_only_translates', op=key[0], args=a, what='a sub-part or its nesting differs between centred and un-centred')); break
            if not mclose(mm(shift, M0), M1, 1e-9):
                fails.append(fail('center_only_translates', op=key[0], args=a, what='a sub-part is not moved by exactly (0, 0, -H/2)', H=H,
                                  leaf=l0.get('op'), uncentred_translation=[M0[i][3] for i in range(3)], centred_translation=[M1[i][3] for i in range(3)])); break
    return fails, n

def zrange(M, leaf):
    h = leaf['h']; z0 = -h / 2 if leaf['center'] else 0.0
    return (M[2][3] + z0, M[2][3] + z0 + h)

def c15_oracle(c):
    op, a, t = c['op'], c['args'], c['tree']
    if t is None or op not in (507, 508, 509, 510, 511, 512): return None
    fl = flatten(t)
    if op in (507, 509):
        od1, od2, wall, length = (a[0], a[0], a[1], a[2]) if op == 507 else (a[0], a[1], a[2], a[3])
        if len(fl) != 2 or t['op'] != 'difference': return fail('pipe_is_body_minus_bore', args=a, op=op)
        (cb, Mb, body), (cc, Mc, bore) = fl
        if body['op'] != 'cylinder' or bore['op'] != 'cylinder': return fail('pipe_is_body_minus_bore', args=a, op=op)
        if cb[-1][1] != 0 or cc[-1][1] != 1: return fail('bore_is_subtracted_from_body', args=a, op=op)
        tol = 1e-9 * (1 + od1 + od2)
        if abs(body['r1'] - od1 / 2) > tol or abs(body['r2'] - od2 / 2) > tol or abs(body['h'] - length) > 1e-9 * (1 + length): return fail('body_has_given_outside_diameter_and_length', args=a, op=op, body=body)
        if abs(bore['r1'] - (od1 - 2 * wall) / 2) > tol or abs(bore['r2'] - (od2 - 2 * wall) / 2) > tol: return fail('bore_diameter_is_od_minus_two_walls', args=a, op=op, bore=bore)
        if not mclose(Mb, I4(), 1e-12): return fail('body_placement', args=a, op=op)
        if any(abs(Mc[i][j] - (1.0 if i == j else 0.0)) > 1e-12 for i in range(3) for j in range(3)) or abs(Mc[0][3]) > 1e-12 or abs(Mc[1][3]) > 1e-12: return fail('bore_coaxial', args=a, op=op)
        (b0, b1), (h0, h1) = zrange(Mb, body), zrange(Mc, bore)
        if not (h0 < b0 and h1 > b1): return fail('bore_extends_beyond_both_ends', args=a, op=op, body_z=[b0, b1], bore_z=[h0, h1])
        return None
    return None

def c15_pairs(cases):
    """hollow minus bore == solid (same body, same placement); curved pipes start centred on the origin"""
    fails = []
    idx = {(c['op'], tuple(c['args'])): c for c in cases if c['tree'] is not None}
    import json
    for (op, a), c in idx.items():
        t = c['tree']
        if op == 507:
            s = idx.get((508, (a[0], a[2], a[3], a[4])))
        elif op == 509:
            s = idx.get((510, (a[0], a[1], a[3], a[4], a[5])))
        elif op == 511:
            s = idx.get((512, (a[0], a[2], a[3], a[4])))
        else: s = None
        if op in (507, 509) and s is not None:
            if t['children'][0] != s['tree']: fails.append(fail('hollow_minus_bore_is_solid', op=op, args=list(a)))
        if op in (511, 512):
            od, radius = a[0], (a[3] if op == 511 else a[2])
            try:
                outer = t; rot = t['children'][0]; rev = rot['children'][0]; inner = rev['children'][0]
                ok = (outer['op'] == 'translate' and rot['op'] == 'rotate' and rot['a'] is None and rot['v'] == [90.0, 0.0, 0.0] and rev['op'] == 'rotate_extrude' and inner['op'] == 'translate'
                      and outer['v'][1] == 0 and outer['v'][2] == 0 and inner['v'][1] == 0 and inner['v'][2] == 0 and abs(outer['v'][0] + inner['v'][0]) <= 1e-9 * (1 + od + radius)
                      and abs(inner['v'][0] - (od / 2 + radius)) <= 1e-9 * (1 + od + radius))
            except (KeyError, IndexError): ok = False
            try:
                degrees = a[2] if op == 511 else a[1]
                ang = t['children'][0]['children'][0].get('angle')
                if ang is None or abs(ang - degrees) > 1e-12 * (1 + abs(degrees)):
                    fails.append(fail('curved_body_has_given_bend_angle', op=op, args=list(a), emitted_angle=ang, degrees=degrees))
            except (KeyError, IndexError): pass
            if not ok: fails.append(fail('curved_pipe_starts_centred_on_origin', op=op, args=list(a), outer=t.get('v'), inner=(t['children'][0]['children'][0]['children'][0].get('v') if ok is False and t.get('children') else None)))
            if op == 511 and s is not None:
                sec = t['children'][0]['children'][0]['children'][0]['children'][0]
                ssec = s['tree']['children'][0]['children'][0]['children'][0]['children'][0]
                if sec['op'] != 'difference' or sec['children'][0] != ssec: fails.append(fail('hollow_minus_bore_is_solid', op=op, args=list(a)))
                strip = json.loads(json.dumps(t)); strip['children'][0]['children'][0]['children'][0]['children'][0] = ssec
                if strip != s['tree']: fails.append(fail('hollow_minus_bore_is_solid', op=op, args=list(a), what='placement differs'))
                bore = sec['children'][1] if len(sec['children']) > 1 else None
                if not bore or bore['op'] != 'circle' or abs(bore['r'] - (od - 2 * a[1]) / 2) > 1e-9 * (1 + od): fails.append(fail('bore_diameter_is_od_minus_two_walls', op=op, args=list(a)))
    return fails

def c17_oracle(c):
    op, a, t = c['op'], c['args'], c['tree']
    if t is None: return None
    if op == 506:
        kind, count, deg = int(a[0]), int(a[1]), a[2]
        fl = flatten(t)
        seedfl = flatten(SAMPLE[kind])
        k = len(seedfl)
        if len(fl) != k * (count + 1): return fail('polar_array_copies', args=a, leaves=len(fl), want=k * (count + 1))
        step = 360.0 / count if deg == 360.0 else deg / (count - 1)
        placements = []
        for i in range(0, len(fl), k):
            grp = fl[i:i + k]
            # the placement of this copy: matrix R with grp = R . seed
            M = grp[0][1]; M0 = seedfl[0][1]
            for (cx, Mi, li), (c0, Mo, lo) in zip(grp, seedfl):
                if li != lo: return fail('polar_array_copy_unmodified', args=a, copy=i // k)
            placements.append(grp)
        want = [Rz(-j * step) for j in range(count)]
        got = []
        for grp in placements:
            # recover R from first leaf: R = Mi * inv(Mo) (Mo rigid/affine with no shear here): use translation-free check on all leaves
            # several k may fit within the tolerance when the step is tiny (degrees next to 0): take the first one not used yet
            fits = [j for j, R in enumerate(want) if all(mclose(mm(R, Mo), Mi, 1e-9) for (cx, Mi, li), (c0, Mo, lo) in zip(grp, seedfl))]
            found = next((j for j in fits if j not in got), fits[0] if fits else None)
            if found is None: return fail('polar_array_placement_is_rotation_by_minus_k_step', args=a, step=step)
            got.append(found)
        if set(got) != set(range(count)): return fail('polar_array_placements_are_exactly_k_steps', args=a, got=sorted(set(got)), want=list(range(count)))
        return None
    if op in (504, 505):
        return None
    return None

SAMPLE = {0: {'op': 'cube', 'size': [1.0, 2.0, 3.0], 'center': False, 'children': []},
          1: {'op': 'translate', 'v': [5.0, 0.0, 1.0], 'children': [{'op': 'sphere', 'r': 2.0, 'fn': 12, 'children': []}]},
          2: {'op': 'union', 'children': [{'op': 'cube', 'size': [1.0, 1.0, 1.0], 'center': True, 'children': []},
                                          {'op': 'rotate', 'a': None, 'scalar': False, 'v': [0.0, 0.0, 45.0], 'children': [{'op': 'square', 'size': [2.0, 3.0], 'center': False, 'children': []}]}]}}

def chamfer_oracle(c):
    """external_cylinder_chamfer: bottom cutter and its mirror image about mid-height, same outline, angle, segments"""
    op, a, t = c['op'], c['args'], c['tree']
    if t is None or op != 504: return None
    size, oversize, radius, height, seg = a[0], a[1], a[2], a[3], int(a[4])
    if a[5] != 0.0:
        # centred: the same pair of cutters moved down by half the height, so the mirror plane is z = 0
        if t['op'] != 'translate' or t['v'] != [0.0, 0.0, -height / 2.0] or len(t['children']) != 1:
            return fail('centred_chamfer_is_the_uncentred_pair_moved_down_by_half_the_height', args=a)
        t = t['children'][0]
    if t['op'] != 'union' or len(t['children']) != 2: return fail('chamfer_is_union_of_two_cutters', args=a)
    bot, topw = t['children']
    try:
        top = topw['children'][0]['children'][0]
        if topw['op'] != 'translate' or topw['v'] != [0.0, 0.0, height] or topw['children'][0]['op'] != 'rotate' or topw['children'][0]['v'] != [180.0, 0.0, 0.0] or topw['children'][0]['a'] is not None:
            return fail('top_cutter_is_mirror_of_bottom_about_mid_height', args=a)
    except (KeyError, IndexError): return fail('top_cutter_is_mirror_of_bottom_about_mid_height', args=a)
    if top != bot: return fail('both_cutters_from_same_outline_angle_segments', args=a)
    if bot['op'] != 'rotate_extrude' or bot['angle'] != 360.0 or bot['fn'] != seg: return fail('cutter_revolved_with_requested_angle_and_segments', args=a, cutter=bot.get('angle'))
    poly = bot['children'][0]['children'][0]['children'][0]
    want = [[0.0, size + oversize], [oversize, size + oversize], [oversize, size], [size, oversize], [size + oversize, oversize], [oversize + size, 0.0], [0.0, 0.0]]
    if poly['op'] != 'polygon' or poly['points'] != want: return fail('cutter_uses_chamfer_outline', args=a)
    return None

def c16_oracle(c):
    """thread mesh: starts at z = 0, radii within [d_min/2, d_maj/2], ring k at angle +-k*360/segments, one pitch per revolution"""
    op, a, t = c['op'], c['args'], c['tree']
    if t is None or op not in (500, 501, 502, 503, 513) : return None
    if (op == 500 and a[6] != 0.0) or (op == 501 and a[4] != 0.0) or (op == 513 and a[8] != 0.0): return None
    if op == 513: d_min, d_maj, pitch, length, seg, left = a[0], a[1], a[2], a[3], int(a[4]), a[7] != 0.0
    else:
        row = c.get('row')
        if row is None: return None
        pitch = row[0]; d_maj = row[1] if op in (500, 502) else row[2]; d_min = d_maj - 2 * 5 / 8 * (math.sqrt(3) / 2 * pitch)
        if op == 500: length, seg, left = a[1], int(a[2]), a[5] != 0.0
        elif op == 501: length, seg, left = a[1], int(a[2]), a[3] != 0.0
        elif op == 502: length, seg, left = a[1], int(a[3]), a[6] != 0.0
        else: length, seg, left = a[1] + 20.0, int(a[2]), a[4] != 0.0
    def find_thread(n):
        if n['op'] == 'union' and len(n['children']) == 2 and n['children'][0]['op'] == 'polyhedron' and n['children'][1]['op'] == 'polyhedron': return n
        for ch in n['children']:
            r = find_thread(ch)
            if r: return r
        return None
    t = find_thread(t)
    if t is None: return fail('thread_tree_shape', args=a)
    pts = t['children'][0]['points']
    zmin = min(p[2] for p in pts)
    if any(not math.isfinite(x) for p in pts for x in p): return fail('thread_vertices_are_finite', args=a)
    if not (abs(zmin) <= 1e-12): return fail('thread_starts_at_z0', args=a, zmin=zmin)
    tol = 1e-9 * (1 + d_maj)
    for i, p in enumerate(pts):
        r = math.hypot(p[0], p[1])
        if not (d_min / 2 - tol <= r <= d_maj / 2 + tol): return fail('thread_vertices_between_minor_and_major_radius', args=a, vertex=i, radius=r, minor=d_min / 2, major=d_maj / 2)
    # the root of the thread lies on the minor radius (major - 2*(5/8)*(sqrt(3)/2)*pitch) everywhere, and without tapers the crest on the major radius
    rs = [math.hypot(p[0], p[1]) for p in pts]
    if not (abs(min(rs) - d_min / 2) <= tol): return fail('thread_root_on_minor_radius', args=a, smallest_radius=min(rs), minor=d_min / 2)
    leads = {500: (a[3], a[4]) if op == 500 else None, 513: (a[5], a[6]) if op == 513 else None, 501: (0.0, 0.0), 503: (0.0, 0.0)}.get(op)
    if leads == (0.0, 0.0) and not (abs(max(rs) - d_maj / 2) <= tol): return fail('thread_crest_on_major_radius', args=a, largest_radius=max(rs), major=d_maj / 2)
    nrings = len(pts) // 4
    step = 360.0 / seg
    for k in range(nrings):
        ang = math.degrees(math.atan2(pts[4 * k][1], pts[4 * k][0]))
        want = (k * step) * (-1 if left else 1)
        dlt = (ang - want + 180) % 360 - 180
        if not (abs(dlt) <= 1e-6): return fail('thread_turns_with_requested_hand', args=a, ring=k, angle=ang, expected=want % 360)
    if nrings > seg + 1:
        dz = pts[4 * (seg + 1) + 2][2] - pts[4 * 1 + 2][2]      # root vertex one revolution apart (rings 1 and seg+1)
        n_steps = int(((length - 0.7 * pitch) / pitch) * seg)
        if not (pitch - 1e-9 <= dz <= pitch * (1 + 1.0 / n_steps) + 1e-9): return fail('one_pitch_per_revolution', args=a, dz=dz, pitch=pitch)
    return None
