"""C05 -- mesh builders put every ring where documented."""
import meshprop, meshoracle, mathprop, vlib
RUN_TARGETS = ['Run/MeshOps.vo']
WITNESS = ['Props/Witness.vo']     # non-vacuity examples for the conditional theorems (built with the property)
TRUSTED = ['hand model coq/Geom/Dim3.v tied by the differential run (faces identical, points within 1e-9; trig from the hook)',
           'ring/cap oracles props/meshoracle.py on implementation output (exploration)']
ASSUMPTIONS = ['profiles simple and clockwise', 'known finding C03 (near-collinear vertex configurations) is inherited by end caps']
def run(ctx):
    quick = ctx['tier'] == 'quick'
    n, max_n = (480, 14) if quick else (8000, 40)
    res = meshprop.run_mesh('C05', n, ctx['seed'], 400, 409, max_n, [meshoracle.c05_oracle, meshoracle.transforms_oracle])
    res['rule'] = ('harness `vh mesh` (same generators as C04) plus Polyhedron::translate/rotate_x/y/z/apply_matrix on extrusions. Oracle: profiles unchanged at z=0 and z=height, volume = area x height, '
                   'revolve copy k at angle k*degrees/segments with radius and height kept, sweep ring k a rigid copy of the profile in the plane perpendicular to the chord through path point k, '
                   'transform methods move every point and keep faces, every end cap an exact valid triangulation of the profile it closes (rational arithmetic)')
    return res
def match_known(f, known): return vlib.match_known_default(f, known)
def replay(path): return mathprop.replay('C05', path)
