"""Shared runner for the part builders (C14-C17)."""
import json, re
import vlib, mathprop
PART_IMPORTS = ('From Coq Require Import NArith ZArith List String Floats.\nImport ListNotations.\n'
                'From SCAD Require Import Text.Chars Text.Tree Text.Bind Base.NumF Run.PartsRun.\nOpen Scope string_scope.')
NAMES = {500: 'threaded_rod', 501: 'tap', 502: 'hex_bolt', 503: 'hex_nut', 504: 'external_cylinder_chamfer', 505: 'external_circle_chamfer', 506: 'polar_array',
         507: 'Pipe::straight', 508: 'Pipe::straight_solid', 509: 'Pipe::tapered', 510: 'Pipe::tapered_solid', 511: 'Pipe::curved', 512: 'Pipe::curved_solid', 513: 'threaded_cylinder (hook)'}

def run_parts(prop, n, seed, lo, hi, timeout=1700):
    rc, out = vlib.harness_run(['part', seed, n, lo, hi], timeout=900)
    if rc != 0: raise RuntimeError('harness part failed: ' + out[-2000:])
    terms = []; cases = []
    for chunk in out.split('@@CASE@@ P\n')[1:]:
        term, js = chunk.split('\n@@JSON@@ ', 1)
        terms.append(term.strip()); cases.append(json.loads(js.strip()))
    verd = vlib.run_shards(prop, PART_IMPORTS, 'pcase', 'part_verdict', terms, per_shard=max(4, len(terms) // 16 + 1), timeout=timeout)
    failures = []
    for t, c, v in zip(terms, cases, verd):
        if v[0] != 0:
            failures.append({'clause': 'model_vs_impl_tree', 'key': 'partmodel%d' % c['op'], 'builder': NAMES.get(c['op']), 'args': c['args'],
                             'verdict': {2: 'trees differ (structure, a number beyond 1e-9, or a mesh)', 3: 'model panics, implementation returns', 4: 'implementation panics, model returns'}.get(v[0], v[0]),
                             'case_term': t[:3000]})
    return terms, cases, failures

def lookup_rows():
    rc, out = vlib.harness_run(['lookup'])
    lines = [l for l in out.split('\n') if l.startswith('(')]
    rows = {}
    for l in lines:
        m = re.match(r'\(\(?(-?\d+)\)?%Z, \[(.*)\]\)', l)
        rows[int(m.group(1))] = [mathprop.hexf(x) for x in m.group(2).split(';')]
    return lines, rows
