"""C04 -- built polyhedra are closed, consistently oriented, outward per OpenSCAD."""
import meshprop, meshoracle, mathprop, vlib
RUN_TARGETS = ['Run/MeshOps.vo']
WITNESS = ['Props/Witness.vo']     # non-vacuity examples for the conditional theorems (built with the property)
TRUSTED = ['hand model coq/Geom/Dim3.v (linear_extrude, cylinder, loft, rotate_extrude, sweep) tied by the differential run: faces identical, points within 1e-9',
           'closedness/orientation oracle props/meshoracle.py on implementation output for every builder incl. thread meshes and viewer edges (exploration)']
ASSUMPTIONS = ['profiles are simple and clockwise (generated so)', 'positive volume is only judged for results that cannot self-intersect (all but sweep) and that are not needle-thin']
def run(ctx):
    quick = ctx['tier'] == 'quick'
    n, max_n = (420, 14) if quick else (8000, 40)
    res = meshprop.run_mesh('C04', n, ctx['seed'], 400, 406, max_n, [meshoracle.c04_oracle])
    res['rule'] = ('harness `vh mesh`: linear_extrude, cylinder, loft, rotate_extrude (angles 1..360 incl. 89/90/91/180/270/359/360), sweep (open/closed; paths along +-X,+-Y,+-Z, diagonal, helix, '
                   'arc through vertical, random; twists 0/37/360/-720), thread meshes via the hook (pitches, lead-in/out 0/1/45/90/360, both hands, 4/5/8/16/33 segments), viewer edges in every direction; '
                   'profiles: convex, star-shaped, random simple, spiral, comb, straight-angle, L, library. Oracle: indices in range, >= 3 distinct vertices per face, every directed edge in exactly one '
                   'face and its reverse in exactly one other, volume > 0 under the clockwise-outward convention')
    return res
def match_known(f, known): return vlib.match_known_default(f, known)
def replay(path): return mathprop.replay('C04', path)
