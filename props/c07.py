"""C07 -- 2D profile generators give simple clockwise outlines of the stated size."""
import mathprop, geomoracles
RUN_TARGETS = ['Run/GeomOps.vo']
WITNESS = ['Props/Witness.vo']     # non-vacuity examples for the conditional theorems (built with the property)
TRUSTED = ['hand model coq/Geom/Dim2.v tied to dim2.rs by the differential run (trig values from the implementation, arguments checked)',
           'theorems over R; simplicity and the oracles on sampled outputs are exploration']
ASSUMPTIONS = ['stdlib real-number axioms']
def run(ctx):
    n = 1400 if ctx['tier'] == 'quick' else 20000
    return mathprop.run_ranges('C07', [(200, 205), (208, 208)], n, ctx['seed'], oracle=geomoracles.c07_oracle, suite='geom', verdict='gverdict',
                               model_out='gmodel_out', imports=mathprop.GEOM_IMPORTS,
                               rule='harness `vh geom`: arc/circle/inscribed/circumscribed/rounded_rect/chamfer/star on radii 1e-3..1e4, segment counts 1..40 (3,4,5,6,7,49,93 systematic), '
                                    'arc angles incl. +-360, +-1e-9, 359.999 and 361 (panic path), corner radii near 0 and near min(w,h)/2, oversize 0; model compared in Coq (float reading), '
                                    'oracles: counts, radius kept, clockwise advance, area2<0, tangency, box touch, corner arcs, simplicity')
import vlib
def match_known(f, known): return vlib.match_known_default(f, known)
def replay(path): return mathprop.replay('C07', path)
