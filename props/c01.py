"""C01 -- emitted text is well-formed OpenSCAD with the same shape as the tree."""
import json
import textprop, vlib
RUN_TARGETS = ['Run/TextRun.vo']
TRUSTED = ['hand model coq/Text/Emit.v tied to impl Display for Scad by exact text equality on every sampled tree',
           'OpenSCAD lexer/grammar as written in coq/Text/Lex.v, coq/Text/Parse.v (trusted spec, OpenSCAD not installed)',
           "Rust's Display for f64/u64 prints plain decimal literals (checked on every sampled number)"]
ASSUMPTIONS = ['numbers finite, strings without NUL (the property\'s own guard)']
def run(ctx):
    n = (500 if ctx['tier'] == 'quick' else 8000) * ctx.get('boost', 1)
    return textprop.run_text('C01', n, ctx['seed'], c01=True, c02=False)
def match_known(f, known): return vlib.match_known_default(f, known)
def replay(path): print(json.dumps(json.load(open(path)), indent=1)); return 0
