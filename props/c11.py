"""C11 -- Pt2/Pt3/Pt4 arithmetic is component-wise vector arithmetic."""
import mathprop
RUN_TARGETS = ['Run/MathOps.vo']
TRUSTED = ['hand-written model coq/Base/Vec.v tied to scad_tree_math/src/pt{2,3,4}.rs by the differential run (harness/src/mathops.rs)',
           'theorems are over R: binary64 rounding is not covered by them (measured by the run instead)']
ASSUMPTIONS = ['stdlib real-number axioms (ClassicalDedekindReals.sig_forall_dec, sig_not_dec, functional_extensionality_dep)',
               'libm is not modelled: sin/cos values come from the implementation via the scad_tree_verif trig log']
def run(ctx):
    n = 1200 if ctx['tier'] == 'quick' else 30000
    return mathprop.run_ranges('C11', [(0, 99)], n, ctx['seed'])
def match_known(f, known): return None
def replay(path): return mathprop.replay('C11', path)
