"""C14 -- a `center` flag only translates the part."""
import json
import vlib, partprop, partoracles
RUN_TARGETS = ['Run/PartsRun.vo']
TRUSTED = ['hand models coq/Parts/Thread.v (threaded_cylinder, threaded_rod, tap, hex_bolt, hex_nut, external_cylinder_chamfer; thread table regenerated) tied by tree comparison in Coq',
           'oracle props/partoracles.py: numerical flattening of the implementation trees (OpenSCAD transform semantics as written there)']
ASSUMPTIONS = ['stdlib real-number axioms for the semantic lemma']
def run(ctx):
    n = (130 * ctx.get('boost', 1)) if ctx['tier'] == 'quick' else 1000
    terms, cases, failures = partprop.run_parts('C14', n, ctx['seed'], 500, 504)
    pf, npairs = partoracles.c14_pairs(cases)
    failures += pf
    return {'evaluations': len(cases), 'distinct_nontrivial': len(set(terms)), 'failures': failures,
            'samples': [{'builder': partprop.NAMES[c['op']], 'args': c['args']} for c in cases[:4]],
            'rule': 'harness `vh part`: threaded_rod, tap, hex_bolt, hex_nut, external_cylinder_chamfer, every case run with center=false and center=true on otherwise identical arguments '
                    '(sizes listed/unlisted/<2/>100, chamfered on/off, both hands, lead angles 0/1/45/90/360, segments 4..33). Coq: model tree = implementation tree. Oracle: flattening '
                    '(leaf, nesting, accumulated matrix) of the centred tree equals translate(0,0,-H/2) applied to the un-centred one, leaf by leaf',
            'extra': {'centre_pairs_checked': npairs}}
def match_known(f, known): return vlib.match_known_default(f, known)
def replay(path): print(json.dumps(json.load(open(path)), indent=1)[:4000]); return 0
