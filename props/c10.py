"""C10 -- all rotation routes agree and follow the right-hand rule."""
import mathprop
RUN_TARGETS = ['Run/MathOps.vo']
TRUSTED = ['hand models coq/Base/Vec.v, coq/Base/Mat.v tied by the differential run; sin/cos values taken from the implementation (trig log hook), their arguments are checked',
           'theorems over R']
ASSUMPTIONS = ['stdlib real-number axioms', 'libm sin/cos are the real sine/cosine to rounding (certified per sample in C12)']
def run(ctx):
    n = 1500 if ctx['tier'] == 'quick' else 30000
    return mathprop.run_ranges('C10', [(16, 17), (47, 52), (57, 59), (104, 107), (109, 112)], n, ctx['seed'])
def match_known(f, known): return None
def replay(path): return mathprop.replay('C10', path)
