"""C02 -- emitted arguments denote the node's parameters exactly."""
import json
import textprop, vlib
RUN_TARGETS = ['Run/TextRun.vo']
TRUSTED = ['hand model coq/Text/Emit.v (exact text equality with the implementation on every sampled tree)',
           'OpenSCAD binding rules, built-in signatures and colour table as written in coq/Text/Bind.v (trusted spec)',
           'coq/Text/Dec64.v: decimal literal -> nearest binary64 in exact Z arithmetic (what OpenSCAD\'s strtod does)']
ASSUMPTIONS = ['u64 parameters above 2^53 cannot be represented by OpenSCAD numbers at all; they are compared after rounding to binary64']
def run(ctx):
    n = (500 if ctx['tier'] == 'quick' else 8000) * ctx.get('boost', 1)
    return textprop.run_text('C02', n, ctx['seed'], c01=False, c02=True)
def match_known(f, known): return vlib.match_known_default(f, known)
def replay(path): print(json.dumps(json.load(open(path)), indent=1)); return 0
