"""Oracles for built polyhedra (C04, C05): closed, consistently oriented, outward (clockwise from outside),
ring placement, cap validity. Run on the implementation's own output."""
import math
from fractions import Fraction as Fr
import trioracle

def decode(v):
    n = int(v[0]); pts = [tuple(v[1 + 3 * i: 4 + 3 * i]) for i in range(n)]
    k = 1 + 3 * n; nf = int(v[k]); k += 1; faces = []
    for _ in range(nf):
        l = int(v[k]); faces.append([int(x) for x in v[k + 1: k + 1 + l]]); k += 1 + l
    return pts, faces

def closed_oriented(npts, faces):
    """None if every index is in range, every face has >= 3 distinct vertices, each directed edge occurs in exactly one face
    and its reverse in exactly one other face; else (clause, detail)"""
    edges = {}
    for fi, f in enumerate(faces):
        if any(not (0 <= i < npts) for i in f): return ('face_index_in_range', {'face': fi, 'indices': f})
        if len(set(f)) < 3 or len(set(f)) != len(f): return ('face_has_three_distinct_vertices', {'face': fi, 'indices': f})
        for k in range(len(f)):
            e = (f[k], f[(k + 1) % len(f)])
            if e in edges: return ('directed_edge_in_one_face', {'edge': e, 'faces': [edges[e], fi]})
            edges[e] = fi
    for (u, v), fi in edges.items():
        if (v, u) not in edges: return ('reverse_edge_in_another_face', {'edge': (u, v), 'face': fi})
    return None

def volume_cw(pts, faces):
    """signed volume with faces clockwise seen from outside counted positive"""
    vol = 0.0
    for f in faces:
        a = pts[f[0]]
        for k in range(1, len(f) - 1):
            b, c = pts[f[k]], pts[f[k + 1]]
            vol += (a[0] * (b[1] * c[2] - b[2] * c[1]) - a[1] * (b[0] * c[2] - b[2] * c[0]) + a[2] * (b[0] * c[1] - b[1] * c[0]))
    return -vol / 6.0

def fail(clause, **kw): d = {'clause': clause, 'key': clause}; d.update(kw); return d
def close(a, b, tol): return abs(a - b) <= tol

def profile_of(a, k, n): return [(a[k + 2 * i], a[k + 2 * i + 1]) for i in range(n)]
def area2(p): return sum(p[i][0] * p[(i + 1) % len(p)][1] - p[(i + 1) % len(p)][0] * p[i][1] for i in range(len(p)))

def cap_check(profile, faces, offset, n, expect_same_winding, what, args):
    """the triangles among `faces` that lie entirely in the ring [offset, offset+n) must triangulate the profile"""
    tris = [f for f in faces if len(f) == 3 and all(offset <= i < offset + n for i in f)]
    idx = [i - offset for t in tris for i in t]
    exact = [(Fr(x), Fr(y)) for x, y in profile]
    r = trioracle.check(exact, idx, expect_same_winding)
    if r is None or r == 'skip': return None
    cls = 'near_collinear_vertices' if (len(exact) <= 60 and trioracle.near_collinear(exact)) else 'general_position'
    return fail('end_cap_is_valid_triangulation_of_its_ring', cap=what, reason=r[0], detail=r[1], args=args, **{'class': cls})

def c04_oracle(case):
    op, a, res = case
    if res is None or not (400 <= op <= 406): return None
    pts, faces = decode(res)
    if any(math.isnan(c) or math.isinf(c) for p in pts for c in p): return fail('finite_points', args=a, op=op)
    r = closed_oriented(len(pts), faces)
    if r:
        # an open surface whose cap profile has a vertex within rounding distance of the line through two others is the
        # near-collinear finding of C03 showing through the cap (same exact test on the input profile as in C03)
        cls = {'class': 'thread'} if op == 405 else {}
        try:
            profs = []
            if op == 400: n = int(a[1]); profs = [profile_of(a, 2, n)]
            elif op == 402: n = int(a[1]); profs = [profile_of(a, 2, n), profile_of(a, 2 + 2 * n, n)]
            elif op == 403: n = int(a[2]); profs = [profile_of(a, 3, n)]
            elif op == 404: n = int(a[2]); profs = [profile_of(a, 4, n)]
            for pr in profs:
                ex = [(Fr(x), Fr(y)) for x, y in pr]
                if len(ex) <= 60 and trioracle.near_collinear(ex): cls = {'class': 'near_collinear_vertices'}
        except Exception:
            pass
        return fail(r[0], detail=r[1], args=a, op=op, builder=op, **cls)
    # translation-invariant: measure about the centroid, compare with the bounding box
    c0 = [sum(p[d] for p in pts) / len(pts) for d in range(3)]
    pts = [(p[0] - c0[0], p[1] - c0[1], p[2] - c0[2]) for p in pts]
    v = volume_cw(pts, faces)
    scale = max(1e-300, max(abs(c) for p in pts for c in p)) ** 3
    if abs(v) <= 1e-9 * scale: return None       # needle-like: the sign of the volume is below rounding noise, inconclusive
    self_intersecting = (op == 404)     # sweeps along tight paths may self-intersect: sign only for the others
    if not self_intersecting and not v > 1e-12 * scale: return fail('outward_clockwise_positive_volume', volume=v, args=a, op=op)
    return None

def c05_oracle(case):
    op, a, res = case
    if res is None: return None
    pts, faces = decode(res)
    if op in (400, 401, 402):
        if op == 401: return None
        h = a[0]; n = int(a[1]); lower = profile_of(a, 2, n); upper = profile_of(a, 2 + 2 * n, n) if op == 402 else lower
        want = [(x, y, 0.0) for x, y in lower] + [(x, y, h) for x, y in upper]
        if pts != want: return fail('profiles_unchanged_at_z0_and_height', args=a, op=op)
        f = cap_check(lower, faces, 0, n, False, 'bottom', a) or cap_check(upper, faces, n, n, True, 'top', a)
        if f: return f
        if op == 400:
            vol = volume_cw(pts, faces); ex = -area2(lower) / 2.0 * h
            if not close(vol, ex, 1e-9 * (abs(ex) + 1e-300)): return fail('volume_is_area_times_height', volume=vol, expected=ex, args=a)
        return None
    if op == 403:
        deg, seg, n = a[0], int(a[1]), int(a[2]); prof = profile_of(a, 3, n)
        rings = seg + 1 if deg != 360.0 else seg
        if len(pts) != rings * n: return fail('ring_count', got=len(pts), want=rings * n, args=a)
        tol = 1e-9 * (1 + max(abs(c) for p in prof for c in p))
        for k in range(rings):
            th = math.radians(k * deg / seg)
            for j in range(n):
                x, y = prof[j]; q = pts[k * n + j]
                ex = (x * math.cos(th), x * math.sin(th), y)
                if any(not close(q[d], ex[d], tol) for d in range(3)): return fail('copy_k_in_half_plane_at_k_degrees_over_segments', ring=k, point=j, got=q, expected=ex, args=a)
        if deg != 360.0:
            return cap_check(prof, faces, 0, n, None, 'start', a) or cap_check(prof, faces, seg * n, n, None, 'end', a)
        return None
    if op == 404:
        twist, closed, n, m = a[0], a[1] != 0.0, int(a[2]), int(a[3]); prof = profile_of(a, 4, n)
        path = [tuple(a[4 + 2 * n + 3 * i: 7 + 2 * n + 3 * i]) for i in range(m)]
        if len(pts) != m * n: return fail('ring_count', got=len(pts), want=m * n, args=a)
        scale = 1 + max(abs(c) for p in prof for c in p); tol = 1e-7 * scale
        for k in range(m):
            if closed: prv, nxt = path[(k - 1) % m], path[(k + 1) % m]
            else: prv, nxt = path[max(k - 1, 0)], path[min(k + 1, m - 1)]
            ch = [nxt[d] - prv[d] for d in range(3)]; L = math.sqrt(sum(c * c for c in ch)); ch = [c / L for c in ch]
            ring = pts[k * n:(k + 1) * n]
            for j in range(n):
                rel = [ring[j][d] - path[k][d] for d in range(3)]
                if abs(sum(rel[d] * ch[d] for d in range(3))) > tol: return fail('ring_in_plane_perpendicular_to_chord', ring=k, point=j, args=a)
                if not close(math.sqrt(sum(c * c for c in rel)), math.hypot(*prof[j]), tol): return fail('ring_is_rigid_copy_of_profile', ring=k, point=j, args=a)
            for j in range(n):
                j2 = (j + 1) % n
                d1 = math.dist(ring[j], ring[j2]); d0 = math.dist(prof[j], prof[j2])
                if not close(d1, d0, tol): return fail('ring_is_rigid_copy_of_profile', ring=k, edge=j, args=a)
        if not closed:
            return cap_check(prof, faces, 0, n, None, 'start', a) or cap_check(prof, faces, (m - 1) * n, n, None, 'end', a)
        return None
    if op in (407, 408, 409):
        return None
    return None

def transforms_oracle(case):
    """Polyhedron::translate / rotate_* / apply_matrix move every point and leave faces untouched"""
    op, a, res = case
    if res is None or op not in (407, 408, 409): return None
    pts, faces = decode(res)
    if op == 407: t = a[0:3]; h = a[3]; n = int(a[4]); prof = profile_of(a, 5, n)
    elif op == 408: h = a[2]; n = int(a[3]); prof = profile_of(a, 4, n)
    else: h = a[16]; n = int(a[17]); prof = profile_of(a, 18, n)
    base = [(x, y, 0.0) for x, y in prof] + [(x, y, h) for x, y in prof]
    if len(pts) != len(base): return fail('transform_keeps_point_count', args=a, op=op)
    tol = 1e-9 * (1 + max(abs(c) for p in base for c in p) + max(abs(x) for x in a[:16] if op == 409) if op == 409 else 1e-9 * (1 + max(abs(c) for p in base for c in p) + max(abs(x) for x in a[:3])))
    for p, q in zip(base, pts):
        if op == 407: ex = (p[0] + t[0], p[1] + t[1], p[2] + t[2])
        elif op == 408:
            c, s = math.cos(math.radians(a[1])), math.sin(math.radians(a[1])); k = int(a[0])
            ex = (p[0], p[1] * c - p[2] * s, p[1] * s + p[2] * c) if k == 0 else ((p[0] * c + p[2] * s, p[1], p[2] * c - p[0] * s) if k == 1 else (p[0] * c - p[1] * s, p[0] * s + p[1] * c, p[2]))
        else:
            m = a[:16]; ex = tuple(m[r] * p[0] + m[4 + r] * p[1] + m[8 + r] * p[2] + m[12 + r] for r in range(3))
        if any(not close(q[d], ex[d], tol * (1 + abs(ex[d]))) for d in range(3)): return fail('transform_moves_every_point', op=op, point=p, got=q, expected=ex, args=a)
    return None
