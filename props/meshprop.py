"""Shared runner for the mesh properties C04 / C05 (and mesh parts of C16 / C18)."""
import vlib, mathprop, meshoracle
MESH_IMPORTS = 'From Coq Require Import ZArith List Floats.\nImport ListNotations.\nFrom SCAD Require Import Base.NumF Run.MathOps Run.GeomOps Run.MeshOps.'
MODELLED = {400, 401, 402, 403, 404, 407, 408, 409}
NAMES = {400: 'Polyhedron::linear_extrude', 401: 'Polyhedron::cylinder', 402: 'Polyhedron::loft', 403: 'Polyhedron::rotate_extrude', 404: 'Polyhedron::sweep',
         405: 'threaded_cylinder meshes', 406: 'Viewer edge cylinder', 407: 'Polyhedron::translate', 408: 'Polyhedron::rotate_x/y/z', 409: 'Polyhedron::apply_matrix'}

def run_mesh(prop, n, seed, lo, hi, max_n, oracles, timeout=1700):
    rc, out = vlib.harness_run(['mesh', seed, n, lo, hi, max_n], timeout=900)
    if rc != 0: raise RuntimeError('harness mesh failed: ' + out[-2000:])
    lines = []; classes = {}
    for l in out.split('\n'):
        if l.startswith('# '): classes[l[2:]] = classes.get(l[2:], 0) + 1
        elif l.startswith('('): lines.append(l)
    cases = [mathprop.parse_case(l) for l in lines]
    modelled = [(l, c) for l, c in zip(lines, cases) if c[0] in MODELLED]
    verd = vlib.run_shards(prop, MESH_IMPORTS, 'mcase', 'mverdict2', [l for l, _ in modelled], per_shard=max(10, len(modelled) // 16 + 1), timeout=timeout)
    failures = []; inexact = 0
    for (l, c), v in zip(modelled, verd):
        if v[0] == 1: inexact += 1
        if v[0] >= 2 and len(v) > 1 and v[1] >= 2 and prop == 'C05':
            # C05 is about where the points are: the Coq model is proved to put every ring at its documented place, so points that differ from it are misplaced
            failures.append({'clause': 'ring_points_where_documented', 'key': 'ringpts%d' % c[0], 'builder': NAMES.get(c[0]), 'args': c[1][:60],
                             'what': 'the points differ (beyond 1e-9) from the model whose ring placement is proved (C05 theorems)', 'case_term': l[:4000]})
        elif v[0] >= 2:
            failures.append({'clause': 'model_vs_impl_mesh', 'key': 'meshmodel%d' % c[0], 'builder': NAMES.get(c[0]), 'args': c[1][:60],
                             'verdict': mathprop.VERDICT_TEXT.get(v[0], v[0]), 'case_term': l[:4000]})
    by_op = {}
    for c in cases:
        by_op[c[0]] = by_op.get(c[0], 0) + 1
        for o in oracles:
            f = o(c)
            if f:
                f['builder'] = NAMES.get(c[0]); f['key'] = '%s_%d' % (f['clause'], c[0])
                if 'args' in f: f['args'] = f['args'][:80]
                failures.append(f)
    return {'evaluations': len(lines), 'distinct_nontrivial': len(set(lines)), 'failures': failures,
            'samples': [{'builder': NAMES.get(c[0]), 'args': c[1][:16], 'points': int(c[2][0]) if c[2] else None} for c in cases[:4]],
            'extra': {'per_builder': {NAMES.get(k, k): v for k, v in by_op.items()}, 'profile_classes': classes, 'model_bit_exact': len(modelled) - inexact - sum(1 for f in failures if f['clause'] == 'model_vs_impl_mesh'),
                      'model_within_tolerance_only': inexact}}
