(* Rng/F32_proofs.v -- the range of f32_0_1 on all 2^32 raw outputs. Axiom-free. *)
From Coq Require Import NArith Lia ZArith ZifyN ZifyBool.
From SCAD Require Import Gen.RngConsts Rng.MT.
Local Open Scope N_scope.
Ltac Zify.zify_post_hook ::= Z.div_mod_to_equations.

Lemma f01_den_val : f01_den = 4294967296.
Proof. vm_compute. reflexivity. Qed.

Lemma log2_range u : 16777216 <= u -> u < 4294967296 -> 24 <= N.log2 u <= 31.
Proof.
  intros Hlo Hhi. split.
  - change 24 with (N.log2 16777216). apply N.log2_le_mono. assumption.
  - assert (N.log2 u < 32); [|lia]. apply N.log2_lt_pow2; [lia|]. exact Hhi.
Qed.

Lemma r32_case u L : N.log2 u = L -> 16777216 <= u ->
  r32 u = let k := L - 23 in let q := u / 2 ^ k in let r := u mod 2 ^ k in let half := 2 ^ (k - 1) in
          if r <? half then q * 2 ^ k else if half <? r then (q + 1) * 2 ^ k
          else (if N.even q then q else q + 1) * 2 ^ k.
Proof. intros HL Hu. unfold r32. destruct (N.ltb_spec u 16777216); [lia|]. rewrite HL. reflexivity. Qed.

(* every raw value that survives the guard maps strictly below 2^32 *)
Lemma r32_below (u : N) : u <= 4294967167 -> r32 u < 4294967296.
Proof.
  intros Hu. destruct (N.ltb_spec u 16777216) as [Hs | Hb].
  - unfold r32. destruct (N.ltb_spec u 16777216); lia.
  - pose proof (log2_range u Hb ltac:(lia)) as HL.
    pose proof (N.log2_spec u ltac:(lia)) as [Hlo Hhi].
    assert (N.log2 u = 24 \/ N.log2 u = 25 \/ N.log2 u = 26 \/ N.log2 u = 27 \/ N.log2 u = 28 \/
            N.log2 u = 29 \/ N.log2 u = 30 \/ N.log2 u = 31) as Hc by lia.
    destruct Hc as [E|[E|[E|[E|[E|[E|[E|E]]]]]]]; rewrite (r32_case u _ E Hb); rewrite E in Hlo, Hhi;
      cbv zeta;
      [ change (2 ^ (24 - 23)) with 2; change (2 ^ (24 - 23 - 1)) with 1; change (2 ^ 24) with 16777216 in *; change (2 ^ N.succ 24) with 33554432 in *
      | change (2 ^ (25 - 23)) with 4; change (2 ^ (25 - 23 - 1)) with 2; change (2 ^ 25) with 33554432 in *; change (2 ^ N.succ 25) with 67108864 in *
      | change (2 ^ (26 - 23)) with 8; change (2 ^ (26 - 23 - 1)) with 4; change (2 ^ 26) with 67108864 in *; change (2 ^ N.succ 26) with 134217728 in *
      | change (2 ^ (27 - 23)) with 16; change (2 ^ (27 - 23 - 1)) with 8; change (2 ^ 27) with 134217728 in *; change (2 ^ N.succ 27) with 268435456 in *
      | change (2 ^ (28 - 23)) with 32; change (2 ^ (28 - 23 - 1)) with 16; change (2 ^ 28) with 268435456 in *; change (2 ^ N.succ 28) with 536870912 in *
      | change (2 ^ (29 - 23)) with 64; change (2 ^ (29 - 23 - 1)) with 32; change (2 ^ 29) with 536870912 in *; change (2 ^ N.succ 29) with 1073741824 in *
      | change (2 ^ (30 - 23)) with 128; change (2 ^ (30 - 23 - 1)) with 64; change (2 ^ 30) with 1073741824 in *; change (2 ^ N.succ 30) with 2147483648 in *
      | change (2 ^ (31 - 23)) with 256; change (2 ^ (31 - 23 - 1)) with 128; change (2 ^ 31) with 2147483648 in *; change (2 ^ N.succ 31) with 4294967296 in * ];
      match goal with |- context [?a <? ?b] => destruct (N.ltb_spec a b) end;
      try (match goal with |- context [?a <? ?b] => destruct (N.ltb_spec a b) end);
      try (match goal with |- context [N.even ?q] => destruct (N.even q) end); lia.
Qed.

Theorem f01_lt_1 (u : N) : u < 4294967296 -> f01_num u < f01_den.
Proof.
  intros Hu. rewrite f01_den_val. unfold f01_num.
  change F01_GUARD_ABOVE with 4294967167. change F01_GUARD_VALUE with 4294967167.
  destruct (N.ltb_spec 4294967167 u); apply r32_below; lia.
Qed.

(* without the guard the top 128 raw values reach 2^32, i.e. exactly 1.0: why the guard is needed *)
Lemma r32_top_reaches_one : r32 4294967168 = 4294967296 /\ r32 4294967295 = 4294967296 /\ r32 4294967167 = 4294967040.
Proof. repeat split; vm_compute; reflexivity. Qed.

(* ---- i32_minmax(min, max) in [min, max) for all min < max with max - min <= 2^24 and all raw outputs ---- *)
Lemma r32_small u : u <= 16777216 -> r32 u = u.
Proof.
  intros Hu. unfold r32. destruct (N.ltb_spec u 16777216); [reflexivity|].
  assert (u = 16777216) as -> by lia. vm_compute. reflexivity.
Qed.

(* rounding to 24 significant bits moves a value by at most half a unit in the last place *)
Lemma r32_upper P : 16777216 <= P -> r32 P <= P + 2 ^ (N.log2 P - 24).
Proof.
  intros HP. unfold r32. destruct (N.ltb_spec P 16777216); [lia|].
  assert (HL : 24 <= N.log2 P) by (change 24 with (N.log2 16777216); apply N.log2_le_mono; assumption).
  set (k := N.log2 P - 23). set (h := 2 ^ (N.log2 P - 24)).
  assert (Hk : 2 ^ k = 2 * h).
  { unfold k, h. replace (N.log2 P - 23) with (N.succ (N.log2 P - 24)) by lia. rewrite N.pow_succ_r'. reflexivity. }
  replace (k - 1) with (N.log2 P - 24) by (unfold k; lia). fold h.
  assert (Hh : 0 < h) by (unfold h; apply N.neq_0_lt_0; apply N.pow_nonzero; lia).
  pose proof (N.div_mod P (2 ^ k) ltac:(rewrite Hk; lia)) as Hdm.
  pose proof (N.mod_upper_bound P (2 ^ k) ltac:(rewrite Hk; lia)) as Hr.
  remember (P / 2 ^ k) as q eqn:Eq_. remember (P mod 2 ^ k) as r eqn:Er_. clear Eq_ Er_.
  rewrite Hk in *. remember (2 * h * q) as qe eqn:Eqe.
  assert (Hq1 : q * (2 * h) = qe) by (subst qe; ring).
  assert (Hq2 : (q + 1) * (2 * h) = qe + 2 * h) by (subst qe; ring).
  rewrite Hq1, Hq2.
  destruct (N.ltb_spec r h); [lia|]. destruct (N.ltb_spec h r); [lia|].
  destruct (N.even q); [rewrite Hq1|rewrite Hq2]; lia.
Qed.

Lemma f01_num_le u : u < 4294967296 -> f01_num u <= 4294967040.
Proof.
  intros Hu. unfold f01_num. change F01_GUARD_ABOVE with 4294967167. change F01_GUARD_VALUE with 4294967167.
  assert (G : forall v, v <= 4294967167 -> r32 v <= 4294967040).
  { intros v Hv. destruct (N.ltb_spec v 16777216) as [Hs|Hb]; [rewrite r32_small by lia; lia|].
    (* the result is a multiple of 2^(log2 v - 23) strictly below 2^32, hence at most 2^32 - 256 when log2 v = 31; smaller otherwise *)
    pose proof (r32_below v Hv) as Hlt. pose proof (r32_upper v Hb) as Hup.
    pose proof (log2_range v Hb ltac:(lia)) as HL.
    destruct (N.eq_dec (N.log2 v) 31) as [E|E].
    - rewrite (r32_case v 31 E Hb) in *. cbv zeta in *. change (2 ^ (31 - 23)) with 256 in *. change (2 ^ (31 - 23 - 1)) with 128 in *.
      revert Hlt. destruct (N.ltb_spec (v mod 256) 128); [|destruct (N.ltb_spec 128 (v mod 256)); [|destruct (N.even (v / 256))]]; intros Hlt; lia.
    - assert (N.log2 v <= 30) by lia.
      assert (2 ^ (N.log2 v - 24) <= 64) by (change 64 with (2 ^ 6); apply N.pow_le_mono_r; lia).
      pose proof (N.log2_spec v ltac:(lia)) as [_ Hhi].
      assert (2 ^ N.succ (N.log2 v) <= 2 ^ 31) by (apply N.pow_le_mono_r; lia). change (2 ^ 31) with 2147483648 in *. lia. }
  destruct (N.ltb_spec 4294967167 u); apply G; lia.
Qed.

Theorem i32_minmax_range (mn mx : Z) (u : N) : (mn < mx)%Z -> (mx - mn <= 16777216)%Z -> u < 4294967296 ->
  (mn <= i32_minmax mn mx u < mx)%Z.
Proof.
  intros Hlt Hd Hu. unfold i32_minmax. rewrite f01_den_val.
  set (d := Z.to_N (mx - mn)). assert (Hd0 : 0 < d <= 16777216) by (unfold d; lia).
  rewrite (r32_small d) by lia. set (m := f01_num u). pose proof (f01_num_le u Hu) as Hm. fold m in Hm.
  assert (Hq : r32 (d * m) / 4294967296 < d).
  { apply N.div_lt_upper_bound; [lia|]. destruct (N.ltb_spec (d * m) 16777216) as [Hs|Hb].
    - rewrite r32_small by lia. nia.
    - pose proof (r32_upper (d * m) Hb) as Hup.
      pose proof (N.log2_spec (d * m) ltac:(lia)) as [Hlo _].
      assert (HL : 24 <= N.log2 (d * m)) by (change 24 with (N.log2 16777216); apply N.log2_le_mono; assumption).
      assert (Hpow : 2 ^ N.log2 (d * m) = 16777216 * 2 ^ (N.log2 (d * m) - 24)).
      { change 16777216 with (2 ^ 24). rewrite <- N.pow_add_r. f_equal. lia. }
      nia. }
  remember (r32 (d * m) / 4294967296) as t eqn:Et. clear Et. unfold d in Hq. lia.
Qed.
