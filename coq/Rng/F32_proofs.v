(* Rng/F32_proofs.v -- the range of f32_0_1 on all 2^32 raw outputs. Axiom-free. *)
From Coq Require Import NArith Lia ZArith ZifyN ZifyBool.
From SCAD Require Import Gen.RngConsts Rng.MT.
Local Open Scope N_scope.
Ltac Zify.zify_post_hook ::= Z.div_mod_to_equations.

Lemma f01_den_val : f01_den = 4294967296.
Proof. vm_compute. reflexivity. Qed.

Lemma log2_range u : 16777216 <= u -> u < 4294967296 -> 24 <= N.log2 u <= 31.
Proof.
  intros Hlo Hhi. split.
  - change 24 with (N.log2 16777216). apply N.log2_le_mono. assumption.
  - assert (N.log2 u < 32); [|lia]. apply N.log2_lt_pow2; [lia|]. exact Hhi.
Qed.

Lemma r32_case u L : N.log2 u = L -> 16777216 <= u ->
  r32 u = let k := L - 23 in let q := u / 2 ^ k in let r := u mod 2 ^ k in let half := 2 ^ (k - 1) in
          if r <? half then q * 2 ^ k else if half <? r then (q + 1) * 2 ^ k
          else (if N.even q then q else q + 1) * 2 ^ k.
Proof. intros HL Hu. unfold r32. destruct (N.ltb_spec u 16777216); [lia|]. rewrite HL. reflexivity. Qed.

(* every raw value that survives the guard maps strictly below 2^32 *)
Lemma r32_below (u : N) : u <= 4294967167 -> r32 u < 4294967296.
Proof.
  intros Hu. destruct (N.ltb_spec u 16777216) as [Hs | Hb].
  - unfold r32. destruct (N.ltb_spec u 16777216); lia.
  - pose proof (log2_range u Hb ltac:(lia)) as HL.
    pose proof (N.log2_spec u ltac:(lia)) as [Hlo Hhi].
    assert (N.log2 u = 24 \/ N.log2 u = 25 \/ N.log2 u = 26 \/ N.log2 u = 27 \/ N.log2 u = 28 \/
            N.log2 u = 29 \/ N.log2 u = 30 \/ N.log2 u = 31) as Hc by lia.
    destruct Hc as [E|[E|[E|[E|[E|[E|[E|E]]]]]]]; rewrite (r32_case u _ E Hb); rewrite E in Hlo, Hhi;
      cbv zeta;
      [ change (2 ^ (24 - 23)) with 2; change (2 ^ (24 - 23 - 1)) with 1; change (2 ^ 24) with 16777216 in *; change (2 ^ N.succ 24) with 33554432 in *
      | change (2 ^ (25 - 23)) with 4; change (2 ^ (25 - 23 - 1)) with 2; change (2 ^ 25) with 33554432 in *; change (2 ^ N.succ 25) with 67108864 in *
      | change (2 ^ (26 - 23)) with 8; change (2 ^ (26 - 23 - 1)) with 4; change (2 ^ 26) with 67108864 in *; change (2 ^ N.succ 26) with 134217728 in *
      | change (2 ^ (27 - 23)) with 16; change (2 ^ (27 - 23 - 1)) with 8; change (2 ^ 27) with 134217728 in *; change (2 ^ N.succ 27) with 268435456 in *
      | change (2 ^ (28 - 23)) with 32; change (2 ^ (28 - 23 - 1)) with 16; change (2 ^ 28) with 268435456 in *; change (2 ^ N.succ 28) with 536870912 in *
      | change (2 ^ (29 - 23)) with 64; change (2 ^ (29 - 23 - 1)) with 32; change (2 ^ 29) with 536870912 in *; change (2 ^ N.succ 29) with 1073741824 in *
      | change (2 ^ (30 - 23)) with 128; change (2 ^ (30 - 23 - 1)) with 64; change (2 ^ 30) with 1073741824 in *; change (2 ^ N.succ 30) with 2147483648 in *
      | change (2 ^ (31 - 23)) with 256; change (2 ^ (31 - 23 - 1)) with 128; change (2 ^ 31) with 2147483648 in *; change (2 ^ N.succ 31) with 4294967296 in * ];
      match goal with |- context [?a <? ?b] => destruct (N.ltb_spec a b) end;
      try (match goal with |- context [?a <? ?b] => destruct (N.ltb_spec a b) end);
      try (match goal with |- context [N.even ?q] => destruct (N.even q) end); lia.
Qed.

Theorem f01_lt_1 (u : N) : u < 4294967296 -> f01_num u < f01_den.
Proof.
  intros Hu. rewrite f01_den_val. unfold f01_num.
  change F01_GUARD_ABOVE with 4294967167. change F01_GUARD_VALUE with 4294967167.
  destruct (N.ltb_spec 4294967167 u); apply r32_below; lia.
Qed.

(* without the guard the top 128 raw values reach 2^32, i.e. exactly 1.0: why the guard is needed *)
Lemma r32_top_reaches_one : r32 4294967168 = 4294967296 /\ r32 4294967295 = 4294967296 /\ r32 4294967167 = 4294967040.
Proof. repeat split; vm_compute; reflexivity. Qed.
