(* Rng/MTSpec.v -- the reference: MT19937 as a word sequence, with its own literal constants
   (Matsumoto & Nishimura 1998: w=32, n=624, m=397, r=31, a=0x9908B0DF, u=11, s=7,
   b=0x9D2C5680, t=15, c=0xEFC60000, l=18), seeded by x_i = 6069 * x_(i-1) mod 2^32.
     x_i = x_(i-227) xor A(upper(x_(i-624)) | lower(x_(i-623)))      (i >= 624)
     output_i = temper(x_(i+624))
   Nothing here depends on the code or on generated files. *)
From Coq Require Import NArith List Arith.
Import ListNotations.
Local Open Scope N_scope.

Definition ref_twist (a b : N) : N :=
  let y := N.lor (N.land a 2147483648) (N.land b 2147483647) in
  N.lxor (N.shiftr y 1) (if N.testbit y 0 then 2567483615 else 0).

Definition ref_temper (y : N) : N :=
  let y := N.lxor y (N.shiftr y 11) in
  let y := N.lxor y (N.land (N.shiftl y 7) 2636928640) in
  let y := N.lxor y (N.land (N.shiftl y 15) 4022730752) in
  N.lxor y (N.shiftr y 18).

Definition xnext (seed : N) (i : nat) (l : list N) : N :=
  if Nat.ltb i 624 then
    (if Nat.eqb i 0 then N.land seed 4294967295 else N.land (6069 * nth (i - 1) l 0) 4294967295)
  else N.lxor (nth (i - 227) l 0) (ref_twist (nth (i - 624) l 0) (nth (i - 623) l 0)).

Fixpoint xs (seed : N) (n : nat) : list N :=
  match n with O => [] | S n' => let l := xs seed n' in l ++ [xnext seed n' l] end.

Definition x (seed : N) (i : nat) : N := nth i (xs seed (S i)) 0.
Definition ref_output (seed : N) (i : nat) : N := ref_temper (x seed (i + 624)).
