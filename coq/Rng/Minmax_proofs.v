(* Rng/Minmax_proofs.v -- f32_minmax / f64_minmax never leave [min, max].
   The Rust computes  min + (max - min) * f  with every operation rounded to nearest-even in binary32 resp. binary64
   (f = f32_0_1(), at most 1 - 2^-24). Stated on Flocq's FLT format (gradual underflow, unbounded exponent: overflow is
   excluded by the property's bound on max - min) for any precision >= 24, then instantiated.
   Axioms: the stdlib real numbers and Classical_Prop.classic (through Flocq). *)
From Coq Require Import Reals ZArith NArith Lra Lia.
From Flocq Require Import Core Plus_error.
From SCAD Require Import Gen.RngConsts Rng.MT Rng.F32_proofs.
Local Open Scope R_scope.

Section MM.
  Variables (emin prec : Z).
  Context {prec_gt_0_ : Prec_gt_0 prec}.
  Hypothesis Hprec : (24 <= prec)%Z.
  Notation fexp := (FLT_exp emin prec).
  Notation format := (generic_format radix2 fexp).
  Notation RN := (round radix2 fexp ZnearestE).
  Notation DN := (round radix2 fexp Zfloor).
  Notation bp := (bpow radix2).

  Definition minmax (x y f : R) : R := RN (x + RN (RN (y - x) * f)).

  Theorem minmax_in_range (x y f : R) : format x -> format y -> x <= y -> 0 <= f <= 1 - bp (-24) ->
    x <= minmax x y f <= y.
  Proof.
    intros Fx Fy Hxy [Hf0 Hf1]. unfold minmax.
    assert (Hb24 : 0 < bp (-24)) by apply bpow_gt_0.
    set (d := RN (y - x)).
    assert (Hd0 : 0 <= d) by (apply round_ge_generic; auto with typeclass_instances; [apply generic_format_0|lra]).
    assert (Fd : format d) by (apply generic_format_round; auto with typeclass_instances).
    set (z := RN (d * f)).
    assert (Hz0 : 0 <= z) by (apply round_ge_generic; auto with typeclass_instances; [apply generic_format_0|apply Rmult_le_pos; assumption]).
    assert (Hz : z <= y - x).
    { destruct (Rle_or_lt d (y - x)) as [Hle|Hlt].
      - apply Rle_trans with d; [|exact Hle]. apply round_le_generic; auto with typeclass_instances. nra.
      - (* the difference was rounded up: then it is beyond the subnormal range, its predecessor p is a normal number whose
           gap to d is at most p * 2^-23, and d * f stays strictly below the midpoint of p and d *)
        assert (NF : ~ format (y - x)).
        { intros F. unfold d in Hlt. rewrite round_generic in Hlt; auto with typeclass_instances. lra. }
        set (p := DN (y - x)).
        assert (Fp : format p) by (apply generic_format_round; auto with typeclass_instances).
        assert (Hp : p <= y - x) by (apply round_DN_pt; auto with typeclass_instances).
        assert (Hsucc : succ radix2 fexp p = d).
        { unfold p. rewrite succ_DN_eq_UP; auto with typeclass_instances.
          destruct (round_DN_or_UP radix2 fexp ZnearestE (y - x)) as [E|E]; [|symmetry; exact E].
          exfalso. fold d in E. fold p in E. lra. }
        assert (Hbig : bp (prec + emin) < y - x).
        { apply Rnot_le_lt. intros Hsmall. apply NF. replace (y - x) with (y + - x) by ring.
          apply FLT_format_plus_small; auto with typeclass_instances; [apply generic_format_opp; exact Fx|].
          replace (y + - x) with (y - x) by ring. rewrite Rabs_pos_eq by lra. exact Hsmall. }
        assert (Hpbig : bp (prec + emin) <= p).
        { apply round_ge_generic; auto with typeclass_instances; [|lra]. apply generic_format_bpow. unfold FLT_exp. pose proof prec_gt_0_. unfold Prec_gt_0 in *. lia. }
        assert (Hp0 : 0 < p) by (pose proof (bpow_gt_0 radix2 (prec + emin)); lra).
        assert (Hulp : ulp radix2 fexp p <= p * bp (-23)).
        { apply Rle_trans with (Rabs p * bp (1 - prec)).
          - apply ulp_FLT_le. rewrite Rabs_pos_eq by lra. apply Rle_trans with (bp (prec + emin)); [apply bpow_le; lia|exact Hpbig].
          - rewrite Rabs_pos_eq by lra. apply Rmult_le_compat_l; [lra|]. apply bpow_le. lia. }
        assert (Hsp : succ radix2 fexp p = p + ulp radix2 fexp p) by (apply succ_eq_pos; lra).
        assert (Hb : bp (-23) = 2 * bp (-24)) by (change (-23)%Z with (1 + -24)%Z; rewrite bpow_plus; reflexivity).
        apply Rle_trans with p; [|exact Hp]. apply round_N_le_midp; auto with typeclass_instances.
        rewrite Hsucc. rewrite Hsp in Hsucc.
        assert (d * f <= d * (1 - bp (-24))) by (apply Rmult_le_compat_l; lra).
        assert (p < d) by lra. nra. }
    split.
    - apply round_ge_generic; auto with typeclass_instances. lra.
    - apply round_le_generic; auto with typeclass_instances. lra.
  Qed.
End MM.

(* the factor: f32_0_1() as a real number is f01_num u / 2^32, between 0 and 1 - 2^-24 for every raw output *)
Definition f01_real (u : N) : R := IZR (Z.of_N (f01_num u)) / 4294967296.
Lemma f01_real_range (u : N) : (u < 4294967296)%N -> 0 <= f01_real u <= 1 - bpow radix2 (-24).
Proof.
  intros Hu. pose proof (f01_num_le u Hu) as Hle. unfold f01_real.
  assert (H0 : 0 <= IZR (Z.of_N (f01_num u))) by (apply IZR_le; lia).
  assert (H1 : IZR (Z.of_N (f01_num u)) <= 4294967040) by (apply IZR_le; lia).
  assert (Hb : bpow radix2 (-24) = / 16777216).
  { change (bpow radix2 (-24)) with (/ IZR (Z.pow_pos 2 24)). replace (Z.pow_pos 2 24) with 16777216%Z by reflexivity. reflexivity. }
  rewrite Hb. assert (Hi : 0 < / 4294967296) by (apply Rinv_0_lt_compat; lra). unfold Rdiv. split; [apply Rmult_le_pos; lra|].
  apply Rle_trans with (4294967040 * / 4294967296); [apply Rmult_le_compat_r; lra|]. right. field.
Qed.

#[global] Instance prec24 : Prec_gt_0 24. Proof. unfold Prec_gt_0. lia. Qed.
#[global] Instance prec53 : Prec_gt_0 53. Proof. unfold Prec_gt_0. lia. Qed.
(* binary32: emin = -149, 24 bits; binary64: emin = -1074, 53 bits *)
Definition f32_minmax_R (mn mx : R) (u : N) : R := minmax (-149) 24 mn mx (f01_real u).
Definition f64_minmax_R (mn mx : R) (u : N) : R := minmax (-1074) 53 mn mx (f01_real u).
Theorem f32_minmax_range (mn mx : R) (u : N) : generic_format radix2 (FLT_exp (-149) 24) mn -> generic_format radix2 (FLT_exp (-149) 24) mx ->
  mn <= mx -> (u < 4294967296)%N -> mn <= f32_minmax_R mn mx u <= mx.
Proof. intros F1 F2 Hle Hu. unfold f32_minmax_R. apply minmax_in_range; [exact prec24|easy|exact F1|exact F2|exact Hle|apply f01_real_range; exact Hu]. Qed.
Theorem f64_minmax_range (mn mx : R) (u : N) : generic_format radix2 (FLT_exp (-1074) 53) mn -> generic_format radix2 (FLT_exp (-1074) 53) mx ->
  mn <= mx -> (u < 4294967296)%N -> mn <= f64_minmax_R mn mx u <= mx.
Proof. intros F1 F2 Hle Hu. unfold f64_minmax_R. apply minmax_in_range; [exact prec53|easy|exact F1|exact F2|exact Hle|apply f01_real_range; exact Hu]. Qed.
