(* Rng/MT_proofs.v -- the implementation's stream is the reference stream, for every seed
   and every position (across all regenerations). Axiom-free. *)
From Coq Require Import NArith List Arith Lia.
From SCAD Require Import Gen.RngConsts Rng.MT Rng.MTSpec.
Import ListNotations.

(* ---- get / upd ---- *)
Lemma upd_length b i v : (i < length b)%nat -> length (upd b i v) = length b.
Proof.
  intros Hi. unfold upd. rewrite app_length, firstn_length. cbn [length]. rewrite skipn_length. lia.
Qed.
Lemma get_upd_eq b i v : (i < length b)%nat -> get (upd b i v) i = v.
Proof.
  intros Hi. unfold get, upd. rewrite app_nth2; rewrite firstn_length, Nat.min_l by lia; [|lia].
  rewrite Nat.sub_diag. reflexivity.
Qed.
Lemma get_upd_neq b i j v : (i < length b)%nat -> i <> j -> get (upd b i v) j = get b j.
Proof.
  intros Hi Hne. unfold get, upd.
  destruct (Nat.lt_ge_cases j i) as [Hlt | Hge].
  - rewrite app_nth1 by (rewrite firstn_length; lia).
    rewrite <- (firstn_skipn i b) at 2. rewrite app_nth1 by (rewrite firstn_length; lia). reflexivity.
  - rewrite app_nth2 by (rewrite firstn_length; lia). rewrite firstn_length, Nat.min_l by lia.
    destruct (j - i)%nat as [|d] eqn:Hd; [lia|]. cbn [nth].
    rewrite <- (firstn_skipn (S i) b) at 2.
    rewrite app_nth2 by (rewrite firstn_length; lia). rewrite firstn_length, Nat.min_l by lia.
    f_equal. lia.
Qed.

Lemma fold_left_ext_in {A B} (f g : A -> B -> A) l a :
  (forall a b, In b l -> f a b = g a b) -> fold_left f l a = fold_left g l a.
Proof.
  revert a. induction l as [|b l IH]; intros a H; [reflexivity|]. cbn [fold_left].
  rewrite H by (left; reflexivity). apply IH. intros a' b' Hin. apply H. right. assumption.
Qed.

(* ---- the code's constants are the reference constants ---- *)
Lemma twist_is_ref a b : twist a b = ref_twist a b. Proof. reflexivity. Qed.
Lemma temper_is_ref y : temper y = ref_temper y. Proof. reflexivity. Qed.

(* ---- the reference sequence ---- *)
Lemma xs_length seed n : length (xs seed n) = n.
Proof. induction n as [|n IH]; [reflexivity|]. cbn [xs]. rewrite app_length, IH. cbn. lia. Qed.
Lemma xs_prefix seed n i : (i < n)%nat -> nth i (xs seed n) 0%N = x seed i.
Proof.
  induction n as [|n IH]; intros Hi; [lia|].
  destruct (Nat.eq_dec i n) as [-> | Hne]; [reflexivity|].
  cbn [xs]. rewrite app_nth1 by (rewrite xs_length; lia). apply IH. lia.
Qed.
Lemma x_unfold seed i : x seed i = xnext seed i (xs seed i).
Proof. unfold x. cbn [xs]. rewrite app_nth2; rewrite xs_length; [|lia]. rewrite Nat.sub_diag. reflexivity. Qed.
Lemma x_0 seed : x seed 0 = N.land seed 4294967295.
Proof. reflexivity. Qed.
Lemma x_seed_step seed i : (0 < i < 624)%nat -> x seed i = N.land (6069 * x seed (i - 1)) 4294967295.
Proof.
  intros Hi. rewrite x_unfold. unfold xnext.
  destruct (Nat.ltb_spec i 624); [|lia]. destruct (Nat.eqb_spec i 0); [lia|].
  rewrite xs_prefix by lia. reflexivity.
Qed.
Lemma x_rec seed k :
  x seed (k + 624) = N.lxor (x seed (k + 397)) (ref_twist (x seed k) (x seed (k + 1))).
Proof.
  rewrite x_unfold. unfold xnext. destruct (Nat.ltb_spec (k + 624) 624); [lia|].
  rewrite !xs_prefix by lia.
  replace (k + 624 - 227)%nat with (k + 397)%nat by lia.
  replace (k + 624 - 624)%nat with k by lia.
  replace (k + 624 - 623)%nat with (k + 1)%nat by lia. reflexivity.
Qed.

(* ---- one uniform step, and the three Rust loops as instances of it ---- *)
Definition ustep (b : list N) (k : nat) : list N :=
  upd b k (N.lxor (get b ((k + 397) mod 624)) (twist (get b k) (get b ((k + 1) mod 624)))).

Lemma consts : RNG_N = 624%nat /\ RNG_M = 397%nat. Proof. split; reflexivity. Qed.

Lemma regen_uniform b : regen b = fold_left ustep (seq 0 624) b.
Proof.
  unfold regen. destruct consts as [HN HM]. rewrite HN, HM.
  change (seq 0 624) with (seq 0 227 ++ seq 227 396 ++ [623%nat]).
  rewrite !fold_left_app. cbn [fold_left].
  replace (624 - 397)%nat with 227%nat by reflexivity.
  replace (624 - 1 - 227)%nat with 396%nat by reflexivity.
  rewrite (fold_left_ext_in loop1_step ustep).
  2:{ intros a k Hin. apply in_seq in Hin. unfold loop1_step, ustep. rewrite HM.
      rewrite (Nat.mod_small (k + 397)) by lia. rewrite (Nat.mod_small (k + 1)) by lia. reflexivity. }
  rewrite (fold_left_ext_in loop2_step ustep).
  2:{ intros a k Hin. apply in_seq in Hin. unfold loop2_step, ustep. rewrite HN, HM.
      replace ((k + 397) mod 624)%nat with (k - (624 - 397))%nat.
      2:{ replace (k + 397)%nat with ((k - 227) + 1 * 624)%nat by lia.
          rewrite Nat.mod_add by lia. rewrite Nat.mod_small by lia. lia. }
      rewrite (Nat.mod_small (k + 1)) by lia. reflexivity. }
  unfold last_step, ustep. rewrite HN, HM.
  replace (624 - 1)%nat with 623%nat by reflexivity. replace (397 - 1)%nat with 396%nat by reflexivity.
  replace ((623 + 397) mod 624)%nat with 396%nat by reflexivity.
  replace ((623 + 1) mod 624)%nat with 0%nat by reflexivity. reflexivity.
Qed.

(* ---- the regeneration invariant: entries below k are the next block, the rest the current one ---- *)
Definition Inv (seed : N) (g k : nat) (b : list N) : Prop :=
  length b = 624%nat /\
  forall j, (j < 624)%nat -> get b j = if Nat.ltb j k then x seed (g + 624 + j) else x seed (g + j).

Lemma ustep_inv seed g k b : (k < 624)%nat -> Inv seed g k b -> Inv seed g (S k) (ustep b k).
Proof.
  intros Hk [Hlen Hget]. split.
  - unfold ustep. rewrite upd_length; lia.
  - intros j Hj. unfold ustep. destruct (Nat.eq_dec k j) as [<- | Hne].
    + rewrite get_upd_eq by lia. destruct (Nat.ltb_spec k (S k)); [|lia].
      rewrite (Hget k) by lia. destruct (Nat.ltb_spec k k); [lia|].
      assert (Hm1 : get b ((k + 1) mod 624) = x seed (g + k + 1)).
      { destruct (Nat.eq_dec k 623) as [-> | Hk'].
        - replace ((623 + 1) mod 624)%nat with 0%nat by reflexivity. rewrite Hget by lia.
          destruct (Nat.ltb_spec 0 623); [|lia]. f_equal; lia.
        - rewrite Nat.mod_small by lia. rewrite Hget by lia.
          destruct (Nat.ltb_spec (k + 1) k); [lia|]. f_equal; lia. }
      assert (Hm2 : get b ((k + 397) mod 624) = x seed (g + k + 397)).
      { destruct (Nat.lt_ge_cases k 227) as [Hlo | Hhi].
        - rewrite Nat.mod_small by lia. rewrite Hget by lia.
          destruct (Nat.ltb_spec (k + 397) k); [lia|]. f_equal; lia.
        - replace ((k + 397) mod 624)%nat with (k - 227)%nat.
          2:{ replace (k + 397)%nat with ((k - 227) + 1 * 624)%nat by lia.
              rewrite Nat.mod_add by lia. rewrite Nat.mod_small by lia. reflexivity. }
          rewrite Hget by lia. destruct (Nat.ltb_spec (k - 227) k); [|lia]. f_equal; lia. }
      rewrite Hm1, Hm2. replace (g + 624 + k)%nat with ((g + k) + 624)%nat by lia.
      rewrite x_rec, twist_is_ref. replace (g + k + 397)%nat with (g + k + 397)%nat by lia.
      replace (g + k + 1)%nat with (g + k + 1)%nat by lia. reflexivity.
    + rewrite get_upd_neq by lia. rewrite Hget by lia.
      destruct (Nat.ltb_spec j k), (Nat.ltb_spec j (S k)); try lia; reflexivity.
Qed.

Lemma fold_ustep_inv seed g n b : (n <= 624)%nat -> Inv seed g 0 b -> Inv seed g n (fold_left ustep (seq 0 n) b).
Proof.
  induction n as [|n IH]; intros Hn H0; [exact H0|].
  rewrite seq_S, fold_left_app. cbn [fold_left]. apply ustep_inv; [lia|]. apply IH; [lia|assumption].
Qed.

Definition Block (seed : N) (g : nat) (b : list N) : Prop :=
  length b = 624%nat /\ forall j, (j < 624)%nat -> get b j = x seed (g + j).

Lemma regen_is_recurrence seed g b : Block seed g b -> Block seed (g + 624) (regen b).
Proof.
  intros [Hlen Hget]. rewrite regen_uniform.
  assert (H0 : Inv seed g 0 b).
  { split; [assumption|]. intros j Hj. destruct (Nat.ltb_spec j 0); [lia|]. apply Hget; assumption. }
  destruct (fold_ustep_inv seed g 624 b (le_n _) H0) as [Hl Hg]. split; [assumption|].
  intros j Hj. rewrite Hg by assumption. destruct (Nat.ltb_spec j 624); [reflexivity|lia].
Qed.

(* ---- seeding ---- *)
Lemma seed_fold seed n : (n < 624)%nat ->
  let b := fold_left (fun b i => b ++ [N.land (SEED_MULT * get b (i - 1)) SEED_MASK]) (seq 1 n) [N.land seed SEED_MASK] in
  length b = S n /\ forall j, (j <= n)%nat -> get b j = x seed j.
Proof.
  induction n as [|n IH]; intros Hn.
  - cbn. split; [reflexivity|]. intros j Hj. assert (j = 0)%nat as -> by lia. reflexivity.
  - cbv zeta. rewrite seq_S, fold_left_app. cbn [fold_left].
    destruct (IH ltac:(lia)) as [Hl Hg]. cbv zeta in Hl, Hg.
    set (b := fold_left _ (seq 1 n) _) in *. split.
    + rewrite app_length, Hl. cbn. lia.
    + intros j Hj. unfold get. destruct (Nat.eq_dec j (S n)) as [-> | Hne].
      * rewrite app_nth2 by lia. rewrite Hl, Nat.sub_diag. cbn [nth].
        replace (1 + n - 1)%nat with n by lia. fold (get b n). rewrite Hg by lia.
        rewrite (x_seed_step seed (S n)) by lia. replace (S n - 1)%nat with n by lia. reflexivity.
      * rewrite app_nth1 by lia. apply Hg. lia.
Qed.
Lemma with_seed_block seed : Block seed 0 (buf (with_seed seed)) /\ idx (with_seed seed) = 624%nat.
Proof.
  unfold with_seed. cbn [buf idx]. destruct consts as [HN HM]. rewrite HN.
  destruct (seed_fold seed 623 ltac:(lia)) as [Hl Hg]. cbv zeta in Hl, Hg.
  replace (624 - 1)%nat with 623%nat by reflexivity.
  split; [split; [exact Hl|]|reflexivity]. intros j Hj. apply Hg. lia.
Qed.

(* ---- the stream ---- *)
Definition StateInv (seed : N) (t : nat) (s : mt) : Prop :=
  exists q r, (t + 624 = 624 * q + r)%nat /\ (1 <= r <= 624)%nat /\ idx s = r /\ Block seed (624 * q) (buf s).

Lemma next_spec seed t s : StateInv seed t s ->
  fst (next s) = ref_output seed t /\ StateInv seed (S t) (snd (next s)).
Proof.
  intros (q & r & Ht & Hr & Hidx & Hb). unfold next. destruct consts as [HN HM]. rewrite HN, Hidx.
  destruct (Nat.leb_spec 624 r) as [Hge | Hlt]; cbn [fst snd].
  - assert (r = 624)%nat as -> by lia.
    pose proof (regen_is_recurrence seed _ _ Hb) as Hb'. destruct Hb' as [Hl' Hg'].
    split.
    + unfold ref_output. rewrite temper_is_ref. rewrite Hg' by lia. replace (624 * q + 624 + 0)%nat with (t + 624)%nat by lia. reflexivity.
    + exists (S q), 1%nat. split; [lia|]. split; [lia|]. split; [reflexivity|]. cbn [buf snd].
      split; [exact Hl'|]. intros j Hj. rewrite Hg' by lia.
      replace (624 * q + 624 + j)%nat with (624 * S q + j)%nat by lia. reflexivity.
  - destruct Hb as [Hl Hg]. split.
    + unfold ref_output. rewrite temper_is_ref. rewrite Hg by lia. replace (624 * q + r)%nat with (t + 624)%nat by lia. reflexivity.
    + exists q, (S r). split; [lia|]. split; [lia|]. split; [reflexivity|]. cbn [buf snd].
      split; assumption.
Qed.

Lemma after_inv seed t : StateInv seed t (after (with_seed seed) t).
Proof.
  assert (H : forall n s t0, StateInv seed t0 s -> StateInv seed (t0 + n) (after s n)).
  { induction n as [|n IH]; intros s t0 Hs; cbn [after].
    - rewrite Nat.add_0_r. assumption.
    - replace (t0 + S n)%nat with (S t0 + n)%nat by lia. apply IH. apply next_spec. assumption. }
  apply (H t (with_seed seed) 0%nat).
  destruct (with_seed_block seed) as [Hb Hi]. exists 0%nat, 624%nat.
  split; [lia|]. split; [lia|]. split; [assumption|]. exact Hb.
Qed.

Theorem stream_is_reference seed i : nth_output seed i = ref_output seed i.
Proof. unfold nth_output. apply next_spec. apply after_inv. Qed.

(* `outputs` (the list form used by the correspondence run) is the same stream *)
Lemma outputs_nth s n i : (i < n)%nat -> nth i (outputs s n) 0%N = fst (next (after s i)).
Proof.
  revert s i. induction n as [|n IH]; intros s i Hi; [lia|].
  cbn [outputs]. destruct (next s) as [y s'] eqn:E. destruct i as [|i]; cbn [nth after].
  - rewrite E. reflexivity.
  - rewrite IH by lia. rewrite E. reflexivity.
Qed.
Theorem outputs_are_reference seed n i : (i < n)%nat ->
  nth i (outputs (with_seed seed) n) 0%N = ref_output seed i.
Proof. intros Hi. rewrite outputs_nth by assumption. apply stream_is_reference. Qed.

(* words stay 32-bit *)
