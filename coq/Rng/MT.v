(* Rng/MT.v -- mirror of scad_tree_math/src/rng.rs: state, next() with its three in-place
   regeneration loops, with_seed, and the range mappings. 32-bit words are N below 2^32;
   every mask the Rust applies is applied here. No proofs in this file. *)
From Coq Require Import NArith ZArith List Arith.
From SCAD Require Import Gen.RngConsts.
Import ListNotations.
Local Open Scope N_scope.

Definition get (b : list N) (i : nat) : N := nth i b 0.
Definition upd (b : list N) (i : nat) (v : N) : list N := firstn i b ++ v :: skipn (S i) b.

(* y = (b[k] & UPPER_MASK) | (b[k+1] & LOWER_MASK);  (y >> 1) ^ mag[y & 1] *)
Definition twist (a b : N) : N :=
  let y := N.lor (N.land a UPPER_MASK) (N.land b LOWER_MASK) in
  N.lxor (N.shiftr y 1) (if N.testbit y 0 then MAG1 else 0).

Definition loop1_step (b : list N) (kk : nat) : list N :=
  upd b kk (N.lxor (get b (kk + RNG_M)) (twist (get b kk) (get b (kk + 1)))).
Definition loop2_step (b : list N) (kk : nat) : list N :=
  upd b kk (N.lxor (get b (kk - (RNG_N - RNG_M))) (twist (get b kk) (get b (kk + 1)))).
Definition last_step (b : list N) : list N :=
  upd b (RNG_N - 1) (N.lxor (get b (RNG_M - 1)) (twist (get b (RNG_N - 1)) (get b 0))).

Definition regen (b : list N) : list N :=
  let b1 := fold_left loop1_step (seq 0 (RNG_N - RNG_M)) b in
  let b2 := fold_left loop2_step (seq (RNG_N - RNG_M) (RNG_N - 1 - (RNG_N - RNG_M))) b1 in
  last_step b2.

Definition temper (y : N) : N :=
  let y := N.lxor y (N.shiftr y TEMPER_S1) in
  let y := N.lxor y (N.land (N.shiftl y TEMPER_S2) TEMPERING_MASK_B) in
  let y := N.lxor y (N.land (N.shiftl y TEMPER_S3) TEMPERING_MASK_C) in
  N.lxor y (N.shiftr y TEMPER_S4).

Record mt := MT { buf : list N; idx : nat }.

Definition next (s : mt) : N * mt :=
  let regenerate := Nat.leb RNG_N (idx s) in
  let b := if regenerate then regen (buf s) else buf s in
  let i := if regenerate then 0%nat else idx s in
  (temper (get b i), MT b (S i)).

Definition with_seed (seed : N) : mt :=
  MT (fold_left (fun b i => b ++ [N.land (SEED_MULT * get b (i - 1)) SEED_MASK])
                (seq 1 (RNG_N - 1)) [N.land seed SEED_MASK])
     RNG_N.

Fixpoint outputs (s : mt) (n : nat) : list N :=
  match n with O => [] | S n' => let (y, s') := next s in y :: outputs s' n' end.

(* state after n draws, and the n-th (0-based) output *)
Fixpoint after (s : mt) (n : nat) : mt :=
  match n with O => s | S n' => after (snd (next s)) n' end.
Definition nth_output (seed : N) (i : nat) : N := fst (next (after (with_seed seed) i)).

(* ---- range mappings ---- *)
(* `u as f32`: round to nearest, ties to even, 24 significant bits; the value is an integer *)
Definition r32 (u : N) : N :=
  if u <? 16777216 then u else
  let k := N.log2 u - 23 in
  let q := u / 2 ^ k in
  let r := u mod 2 ^ k in
  let half := 2 ^ (k - 1) in
  if r <? half then q * 2 ^ k
  else if half <? r then (q + 1) * 2 ^ k
  else (if N.even q then q else q + 1) * 2 ^ k.

(* f32_0_1 as the exact rational (numerator, denominator 2^32): the guard, u as f32, / (0xffffffff as f32) *)
Definition f01_num (u : N) : N := r32 (if F01_GUARD_ABOVE <? u then F01_GUARD_VALUE else u).
Definition f01_den : N := r32 F01_DENOM.

(* i32_minmax: min + ((max - min) as f32 * f01) as i32. The two factors are f32 values with
   integer numerators over 1 and 2^32; their exact product is rounded once (r32 is scale-free
   away from the subnormal range, which d * m / 2^32 never reaches), then truncated. *)
Definition i32_minmax (min max : Z) (u : N) : Z :=
  (min + Z.of_N (r32 (r32 (Z.to_N (max - min)) * f01_num u) / f01_den))%Z.
