(* Run/MathOps.v -- flat-signature dispatcher over the math model, same numbering as
   harness/src/mathops.rs, and the correspondence verdict. *)
From Coq Require Import ZArith List Floats Bool.
From SCAD Require Import Base.Num Base.NumF Base.Vec Base.Mat.
Import ListNotations.

Section Ops.
  Context {T : Type} `{Num T}.
  Notation pt2 := (pt2 T). Notation pt3 := (pt3 T). Notation pt4 := (pt4 T). Notation mt4 := (mt4 T).

  Definition a0 (a : list T) (i : nat) : T := nth i a nzero.
  Definition g2 (a : list T) (i : nat) : pt2 := Pt2 (a0 a i) (a0 a (i+1)).
  Definition g3 (a : list T) (i : nat) : pt3 := Pt3 (a0 a i) (a0 a (i+1)) (a0 a (i+2)).
  Definition g4 (a : list T) (i : nat) : pt4 := Pt4 (a0 a i) (a0 a (i+1)) (a0 a (i+2)) (a0 a (i+3)).
  Definition gm (a : list T) (i : nat) : mt4 := Mt4 (g4 a i) (g4 a (i+4)) (g4 a (i+8)) (g4 a (i+12)).
  Definition o2 (p : pt2) : list T := [x2 p; y2 p].
  Definition o3 (p : pt3) : list T := [x3 p; y3 p; z3 p].
  Definition o4 (p : pt4) : list T := [x4 p; y4 p; z4 p; w4 p].
  Definition om (m : mt4) : list T := o4 (mx m) ++ o4 (my m) ++ o4 (mz m) ++ o4 (mw m).
  Fixpoint gl2 (a : list T) : list pt2 :=
    match a with x :: y :: tl => Pt2 x y :: gl2 tl | _ => [] end.
  Fixpoint gl3 (a : list T) : list pt3 :=
    match a with x :: y :: z :: tl => Pt3 x y z :: gl3 tl | _ => [] end.
  Definition ol2 (l : list pt2) : list T := flat_map o2 l.
  Definition ol3 (l : list pt3) : list T := flat_map o3 l.
  Definition idx (a : list T) (i : nat) : Z := ntrunc (a0 a i).
  Definition ob (b : bool) : list T := [if b then none_ else nzero].

  Definition run_op (op : Z) (a : list T) : option (list T) :=
    let S x := Some x in
    match op with
    | 0 => option_map (fun v => [v]) (pt2_index (g2 a 0) (idx a 2))
    | 1 => option_map o2 (pt2_index_set (g2 a 0) (idx a 2) (a0 a 3))
    | 2 => S (o2 (pt2_add (g2 a 0) (g2 a 2)))
    | 3 => S (o2 (pt2_sub (g2 a 0) (g2 a 2)))
    | 4 => S (o2 (pt2_mul (g2 a 0) (a0 a 2)))
    | 5 => S (o2 (pt2_div (g2 a 0) (a0 a 2)))
    | 6 => S (o2 (pt2_neg (g2 a 0)))
    | 7 => S (o2 (pt2_add_assign (g2 a 0) (g2 a 2)))
    | 8 => S (o2 (pt2_sub_assign (g2 a 0) (g2 a 2)))
    | 9 => S (o2 (pt2_mul_assign (g2 a 0) (a0 a 2)))
    | 10 => S (o2 (pt2_div_assign (g2 a 0) (a0 a 2)))
    | 11 => S [pt2_dot (g2 a 0) (g2 a 2)]
    | 12 => S [pt2_len2 (g2 a 0)]
    | 13 => S [pt2_len (g2 a 0)]
    | 14 => S (o2 (pt2_normalize (g2 a 0)))
    | 15 => S (o2 (pt2_normalized (g2 a 0)))
    | 16 => S (o2 (pt2_rotate (g2 a 0) (a0 a 2)))
    | 17 => S (o2 (pt2_rotated (g2 a 0) (a0 a 2)))
    | 18 => S (o2 (pt2_lerp (g2 a 0) (g2 a 2) (a0 a 4)))
    | 19 => S (o3 (pt2_to_xz (g2 a 0)))
    | 20 => S (o3 (pt2_as_pt3 (g2 a 0) (a0 a 2)))
    | 21 => S (ol2 (pt2s_translate (gl2 (skipn 2 a)) (g2 a 0)))
    | 22 => S (ol2 (pt2s_rotate (gl2 (skipn 1 a)) (a0 a 0)))
    | 30 => option_map (fun v => [v]) (pt3_index (g3 a 0) (idx a 3))
    | 31 => option_map o3 (pt3_index_set (g3 a 0) (idx a 3) (a0 a 4))
    | 32 => S (o3 (pt3_add (g3 a 0) (g3 a 3)))
    | 33 => S (o3 (pt3_sub (g3 a 0) (g3 a 3)))
    | 34 => S (o3 (pt3_mul (g3 a 0) (a0 a 3)))
    | 35 => S (o3 (pt3_div (g3 a 0) (a0 a 3)))
    | 36 => S (o3 (pt3_neg (g3 a 0)))
    | 37 => S (o3 (pt3_add_assign (g3 a 0) (g3 a 3)))
    | 38 => S (o3 (pt3_sub_assign (g3 a 0) (g3 a 3)))
    | 39 => S (o3 (pt3_mul_assign (g3 a 0) (a0 a 3)))
    | 40 => S (o3 (pt3_div_assign (g3 a 0) (a0 a 3)))
    | 41 => S [pt3_dot (g3 a 0) (g3 a 3)]
    | 42 => S (o3 (pt3_cross (g3 a 0) (g3 a 3)))
    | 43 => S [pt3_len2 (g3 a 0)]
    | 44 => S [pt3_len (g3 a 0)]
    | 45 => S (o3 (pt3_normalize (g3 a 0)))
    | 46 => S (o3 (pt3_normalized (g3 a 0)))
    | 47 => S (o3 (pt3_rotated_x (g3 a 0) (a0 a 3)))
    | 48 => S (o3 (pt3_rotated_y (g3 a 0) (a0 a 3)))
    | 49 => S (o3 (pt3_rotated_z (g3 a 0) (a0 a 3)))
    | 50 => S (o3 (pt3_rotate_x (g3 a 0) (a0 a 3)))
    | 51 => S (o3 (pt3_rotate_y (g3 a 0) (a0 a 3)))
    | 52 => S (o3 (pt3_rotate_z (g3 a 0) (a0 a 3)))
    | 53 => S (o3 (pt3_lerp (g3 a 0) (g3 a 3) (a0 a 6)))
    | 54 => S (o4 (pt3_as_pt4 (g3 a 0) (a0 a 3)))
    | 55 => S (ol3 (pt3s_from_pt2s (gl2 (skipn 1 a)) (a0 a 0)))
    | 56 => S (ol3 (pt3s_translate (gl3 (skipn 3 a)) (g3 a 0)))
    | 57 => S (ol3 (pt3s_rotate_x (gl3 (skipn 1 a)) (a0 a 0)))
    | 58 => S (ol3 (pt3s_rotate_y (gl3 (skipn 1 a)) (a0 a 0)))
    | 59 => S (ol3 (pt3s_rotate_z (gl3 (skipn 1 a)) (a0 a 0)))
    | 60 => option_map (fun v => [v]) (pt4_index (g4 a 0) (idx a 4))
    | 61 => option_map o4 (pt4_index_set (g4 a 0) (idx a 4) (a0 a 5))
    | 62 => S (o4 (pt4_add (g4 a 0) (g4 a 4)))
    | 63 => S (o4 (pt4_sub (g4 a 0) (g4 a 4)))
    | 64 => S (o4 (pt4_mul (g4 a 0) (a0 a 4)))
    | 65 => S (o4 (pt4_div (g4 a 0) (a0 a 4)))
    | 66 => S (o4 (pt4_neg (g4 a 0)))
    | 67 => S (o4 (pt4_add_assign (g4 a 0) (g4 a 4)))
    | 68 => S (o4 (pt4_sub_assign (g4 a 0) (g4 a 4)))
    | 69 => S (o4 (pt4_mul_assign (g4 a 0) (a0 a 4)))
    | 70 => S (o4 (pt4_div_assign (g4 a 0) (a0 a 4)))
    | 71 => S [pt4_dot (g4 a 0) (g4 a 4)]
    | 72 => S (o4 (pt4_cross (g4 a 0) (g4 a 4)))
    | 73 => S [pt4_len2 (g4 a 0)]
    | 74 => S [pt4_len (g4 a 0)]
    | 75 => S (o4 (pt4_normalize (g4 a 0)))
    | 76 => S (o4 (pt4_normalized (g4 a 0)))
    | 77 => S (o4 (pt4_lerp (g4 a 0) (g4 a 4) (a0 a 8)))
    | 78 => S (o3 (pt4_as_pt3 (g4 a 0)))
    | 100 => S (om (mt4_transposed (gm a 0)))
    | 101 => S (om mt4_identity)
    | 102 => S (om (mt4_scale_matrix (a0 a 0) (a0 a 1) (a0 a 2)))
    | 103 => S (om (mt4_translate_matrix (a0 a 0) (a0 a 1) (a0 a 2)))
    | 104 => S (om (mt4_rot_x_matrix (a0 a 0)))
    | 105 => S (om (mt4_rot_y_matrix (a0 a 0)))
    | 106 => S (om (mt4_rot_z_matrix (a0 a 0)))
    | 107 => S (om (mt4_rot_vec (a0 a 0) (a0 a 1) (a0 a 2) (a0 a 3)))
    | 108 => S (match mt4_inverse (gm a 0) with Some m => none_ :: om m | None => [nzero] end)
    | 109 => S (om (mt4_look_at_lh (g3 a 0) (g3 a 3) (g3 a 6)))
    | 110 => S (o4 (mt4_mul_pt4 (gm a 0) (g4 a 16)))
    | 111 => S (o3 (mt4_mul_pt3 (gm a 0) (g3 a 16)))
    | 112 => S (om (mt4_mul (gm a 0) (gm a 16)))
    | 113 => option_map (fun v => [v]) (mt4_index (gm a 0) (idx a 16))
    | 114 => option_map om (mt4_index_set (gm a 0) (idx a 16) (a0 a 17))
    | 115 => S (ol3 (pt3s_apply_matrix (gl3 (skipn 16 a)) (gm a 0)))
    | 116 => S (om (mt4_look_at_rh (g3 a 0) (g3 a 3) (g3 a 6)))
    | 117 => S (om (mt4_perspective_matrix (a0 a 0) (a0 a 1) (a0 a 2) (a0 a 3)))
    | 118 => S (om (mt4_rotation_from_direction (g3 a 0) (g3 a 3)))
    | 140 => S [dsin (a0 a 0)]
    | 141 => S [dcos (a0 a 0)]
    | 142 => S [dtan (a0 a 0)]
    | 143 => S [dasin (a0 a 0)]
    | 144 => S [dacos (a0 a 0)]
    | 145 => S [datan (a0 a 0)]
    | 146 => S (ob (approx_eq (a0 a 0) (a0 a 1) (a0 a 2)))
    | _ => None
    end%Z.
End Ops.

(* ---- correspondence verdict on the float reading ---- *)
Definition mcase := (Z * list float * option (list float) * trig_table)%type.

Fixpoint cmp_lists (tol : float) (a b : list float) : Z :=   (* 0 exact, 1 close, 2 differs *)
  match a, b with
  | [], [] => 0
  | x :: a', y :: b' =>
      let r := cmp_lists tol a' b' in
      if F_bits_eq x y then r
      else if F_close tol x y then Z.max 1 r else 2
  | _, _ => 2
  end%Z.

Definition tol_default : float := 0x1.12e0be826d695p-30%float.  (* 1e-9 *)

(* 0 = bit-exact, 1 = within tolerance, 2 = outside tolerance / shape differs,
   3 = model panics but implementation returns, 4 = implementation panics but model returns *)
Definition verdict (c : mcase) : Z :=
  let '(op, args, res, tbl) := c in
  match @run_op float (NumF tbl) op args, res with
  | Some m, Some i => cmp_lists tol_default m i
  | None, None => 0
  | None, Some _ => 3
  | Some _, None => 4
  end%Z.

Definition model_out (c : mcase) : option (list float) :=
  let '(op, args, _, tbl) := c in @run_op float (NumF tbl) op args.
