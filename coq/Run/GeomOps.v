(* Run/GeomOps.v -- flat dispatcher over Geom/Dim2.v (numbering of harness/src/geomops.rs). *)
From Coq Require Import ZArith List Floats Bool.
From SCAD Require Import Base.Num Base.NumF Base.Vec Geom.Dim2 Geom.Tri Run.MathOps.
Import ListNotations.

Section GOps.
  Context {T : Type} `{Num T}.
  Definition zi (a : list T) (i : nat) : Z := ntrunc (a0 a i).
  Definition bz (a : list T) (i : nat) : bool := negb (neqb (a0 a i) nzero).
  Definition ocurve2 (c : curve2) : list T :=
    o2 (c_start c) ++ o2 (c_control1 c) ++ o2 (c_control2 c) ++ o2 (c_end c) ++ [nofZ (c_segments c)].
  Definition ocurve3 (c : curve3) : list T :=
    o3 (d_start c) ++ o3 (d_control1 c) ++ o3 (d_control2 c) ++ o3 (d_end c) ++ [nofZ (d_segments c)].

  Fixpoint chain2_adds (n : nat) (a : list T) (k : nat) (ch : chain2) : chain2 * nat :=
    match n with
    | O => (ch, k)
    | S n' => chain2_adds n' a (k + 6) (chain2_add ch (a0 a k) (g2 a (k + 1)) (g2 a (k + 3)) (zi a (k + 5)))
    end.
  Fixpoint chain3_adds (n : nat) (a : list T) (k : nat) (ch : chain3) : chain3 * nat :=
    match n with
    | O => (ch, k)
    | S n' => chain3_adds n' a (k + 8) (chain3_add ch (a0 a k) (g3 a (k + 1)) (g3 a (k + 4)) (zi a (k + 7)))
    end.

  Definition run_gop (op : Z) (a : list T) : option (list T) :=
    let S x := Some x in
    match op with
    | 200 => option_map ol2 (arc (g2 a 0) (a0 a 2) (zi a 3))
    | 201 => option_map ol2 (circle (a0 a 0) (zi a 1))
    | 202 => option_map ol2 (inscribed_polygon (zi a 0) (a0 a 1))
    | 203 => option_map ol2 (circumscribed_polygon (zi a 0) (a0 a 1))
    | 204 => option_map ol2 (rounded_rect (a0 a 0) (a0 a 1) (a0 a 2) (zi a 3) (bz a 4))
    | 205 => S (ol2 (chamfer (a0 a 0) (a0 a 1)))
    | 206 | 215 => S (ol2 (quadratic_bezier (g2 a 0) (g2 a 2) (g2 a 4) (zi a 6)))
    | 207 | 216 => S (ol2 (cubic_bezier (g2 a 0) (g2 a 2) (g2 a 4) (g2 a 6) (zi a 8)))
    | 208 => S (ol2 (star (zi a 0) (a0 a 1) (a0 a 2)))
    | 209 => S (ol2 (bezier_star (zi a 0) (a0 a 1) (a0 a 2) (a0 a 3) (a0 a 4) (zi a 5)))
    | 210 => S (ol2 (chain2_points (bezier_star_struct (zi a 0) (a0 a 1) (a0 a 2) (a0 a 3) (a0 a 4) (zi a 5))))
    | 219 => let ch := bezier_star_struct (zi a 0) (a0 a 1) (a0 a 2) (a0 a 3) (a0 a 4) (zi a 5) in
             S (nofZ (Z.of_nat (length (ch_curves ch))) :: flat_map ocurve2 (ch_curves ch))
    | 211 =>
        let nadds := Z.to_nat (zi a 0) in
        let ch0 := chain2_new (g2 a 2) (g2 a 4) (g2 a 6) (g2 a 8) (zi a 10) in
        let '(ch1, k) := chain2_adds nadds a 11 ch0 in
        let ch2 := if bz a 1 then chain2_close ch1 (a0 a k) (g2 a (k + 1)) (a0 a (k + 3)) (zi a (k + 4)) else ch1 in
        S (nofZ (Z.of_nat (length (ch_curves ch2))) :: flat_map ocurve2 (ch_curves ch2) ++ ol2 (chain2_points ch2))
    | 212 | 217 => S (ol3 (quadratic_bezier3 (g3 a 0) (g3 a 3) (g3 a 6) (zi a 9)))
    | 213 | 218 => S (ol3 (cubic_bezier3 (g3 a 0) (g3 a 3) (g3 a 6) (g3 a 9) (zi a 12)))
    | 214 =>
        let nadds := Z.to_nat (zi a 0) in
        let ch0 := chain3_new (g3 a 2) (g3 a 5) (g3 a 8) (g3 a 11) (zi a 14) in
        let '(ch1, k) := chain3_adds nadds a 15 ch0 in
        let ch2 := if bz a 1 then chain3_close ch1 (a0 a k) (g3 a (k + 1)) (a0 a (k + 4)) (zi a (k + 5)) else ch1 in
        S (nofZ (Z.of_nat (length (dh_curves ch2))) :: flat_map ocurve3 (dh_curves ch2) ++ ol3 (chain3_points ch2))
    | 300 => option_map (map nofZ) (triangulate2d (gl2 a))
    | 301 => option_map (map nofZ) (triangulate2d_rev (gl2 a))
    | 302 => option_map (map nofZ) (triangulate3d (gl3 (skipn 3 a)) (g3 a 0))
    | 303 => option_map (map nofZ) (triangulate3d_rev (gl3 (skipn 3 a)) (g3 a 0))
    | _ => None
    end%Z.
End GOps.

Definition gverdict (c : mcase) : Z :=
  let '(op, args, res, tbl) := c in
  match @run_gop float (NumF tbl) op args, res with
  | Some m, Some i => cmp_lists tol_default m i
  | None, None => 0
  | None, Some _ => 3
  | Some _, None => 4
  end%Z.
Definition gmodel_out (c : mcase) : option (list float) :=
  let '(op, args, _, tbl) := c in @run_gop float (NumF tbl) op args.
