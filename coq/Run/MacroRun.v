(* Run/MacroRun.v -- C06 correspondence: rustc's expansion of every arm vs the regenerated template. *)
From Coq Require Import NArith ZArith List String Floats Bool.
From SCAD Require Import Text.Chars Text.Tree Text.Bind Text.Dec64 Base.NumF Gen.Enums Macro.Syntax Gen.MacroArms Run.TextRun.
Import ListNotations.
Local Open Scope string_scope. Local Open Scope list_scope.

Inductive mval :=
| MF (f : float) | MN (n : N) | MB (b : bool) | MS (s : text) | MNone | MSome (v : mval)
| MVec (l : list mval) | ME (name : string) | MRec (fs : list (string * mval)) | MTree (t : tree) | MBad.

Fixpoint mval_eqb (a b : mval) : bool :=
  match a, b with
  | MF x, MF y => F_bits_eq x y
  | MN x, MN y => N.eqb x y
  | MB x, MB y => Bool.eqb x y
  | MS x, MS y => text_eqb x y
  | MNone, MNone => true
  | MSome x, MSome y => mval_eqb x y
  | MVec x, MVec y =>
      (fix go (x y : list mval) : bool :=
         match x, y with [], [] => true | a :: x', b :: y' => mval_eqb a b && go x' y' | _, _ => false end) x y
  | ME x, ME y => String.eqb x y
  | _, _ => false
  end.

(* the argument values, in pattern order; children follow *)
Fixpoint env_lookup (v : string) (vars : list string) (vals : list mval) : mval :=
  match vars, vals with
  | x :: vars', y :: vals' => if String.eqb x v then y else env_lookup v vars' vals'
  | _, _ => MBad
  end.

Section Eval.
  Variable vars : list string.
  Variable vals : list mval.
  Variable lets : list (string * string).
  Fixpoint eval (e : texpr) : mval :=
    match e with
    | TVar v => env_lookup v vars vals
    | TLocal l => match lookup_let l lets with Some v => env_lookup v vars vals | None => MBad end
    | THalf x => match eval x with MF f => MF (f / 2)%float | _ => MBad end
    | TField v f => match env_lookup v vars vals with MRec fs => env_lookup f (map fst fs) (map snd fs) | _ => MBad end
    | TLField l f => match lookup_let l lets with
                     | Some v => match env_lookup v vars vals with MRec fs => env_lookup f (map fst fs) (map snd fs) | _ => MBad end
                     | None => MBad end
    | TToString x => eval x
    | TSome x => MSome (eval x)
    | TNone => MNone
    | TBool b => MB b
    | TFLit s => match dec_to_f64 (s2t s) with Some f => MF f | None => MBad end
    | TNLit n => MN n
    | TStrLit s => MS (s2t s)
    | TEnum _ v => ME v
    | TPt l => MVec (map eval l)
    | TTup l => MVec (map eval l)
    | TReq => MBad
    end.
End Eval.

(* the implementation's node in the same generic form; field names are those of the ScadOp declaration *)
Definition gf (x : fnum) := MF (nval x).
Definition go {A} (f : A -> mval) (o : option A) := match o with Some x => MSome (f x) | None => MNone end.
Definition g2 (p : p2 fnum) := MVec [gf (p2x p); gf (p2y p)].
Definition g3 (p : p3 fnum) := MVec [gf (p3x p); gf (p3y p); gf (p3z p)].
Definition g4 (p : p4 fnum) := MVec [gf (p4x p); gf (p4y p); gf (p4z p); gf (p4w p)].
Definition gpaths (l : list (list N)) := MVec (map (fun i => MVec (map MN i)) l).
Definition gen_ (names : list string) (i : N) := ME (nth (N.to_nat i) names "?").

Definition to_generic (o : scadop fnum text) : string * list (string * mval) :=
  match o with
  | Union => ("Union", []) | Difference => ("Difference", []) | Intersection => ("Intersection", []) | Hull => ("Hull", [])
  | Circle r fa fs fn_ => ("Circle", [("radius", gf r); ("fa", go gf fa); ("fs", go gf fs); ("fn_", go MN fn_)])
  | Square sz c => ("Square", [("size", g2 sz); ("center", MB c)])
  | Polygon pts paths cv => ("Polygon", [("points", MVec (map g2 pts)); ("paths", go gpaths paths); ("convexity", MN cv)])
  | Text t size font ha va sp dir lang script fn_ =>
      ("Text", [("text", MS t); ("size", gf size); ("font", MS font); ("halign", gen_ halign_names ha); ("valign", gen_ valign_names va);
                ("spacing", gf sp); ("direction", gen_ direction_names dir); ("language", MS lang); ("script", MS script); ("fn_", go MN fn_)])
  | Import file cv => ("Import", [("file", MS file); ("convexity", MN cv)])
  | Projection cut => ("Projection", [("cut", MB cut)])
  | Sphere r fa fs fn_ => ("Sphere", [("radius", gf r); ("fa", go gf fa); ("fs", go gf fs); ("fn_", go MN fn_)])
  | Cube sz c => ("Cube", [("size", g3 sz); ("center", MB c)])
  | Cylinder h r1 r2 c fa fs fn_ =>
      ("Cylinder", [("height", gf h); ("radius1", gf r1); ("radius2", gf r2); ("center", MB c); ("fa", go gf fa); ("fs", go gf fs); ("fn_", go MN fn_)])
  | Polyhedron pts faces cv => ("Polyhedron", [("points", MVec (map g3 pts)); ("faces", gpaths faces); ("convexity", MN cv)])
  | LinearExtrude h c cv tw sc slices fn_ =>
      ("LinearExtrude", [("height", gf h); ("center", MB c); ("convexity", MN cv); ("twist", gf tw); ("scale", g2 sc);
                         ("slices", go MN slices); ("fn_", go MN fn_)])
  | RotateExtrude a cv fa fs fn_ => ("RotateExtrude", [("angle", gf a); ("convexity", MN cv); ("fa", go gf fa); ("fs", go gf fs); ("fn_", go MN fn_)])
  | Surface file c inv cv => ("Surface", [("file", MS file); ("center", MB c); ("invert", MB inv); ("convexity", MN cv)])
  | Translate v => ("Translate", [("v", g3 v)])
  | Rotate a sc v => ("Rotate", [("a", go gf a); ("a_is_scalar", MB sc); ("v", g3 v)])
  | Scale v => ("Scale", [("v", g3 v)])
  | Resize ns au isv (a1, a2, a3) cv =>
      ("Resize", [("newsize", g3 ns); ("auto", MB au); ("auto_is_vec", MB isv); ("autovec", MVec [MB a1; MB a2; MB a3]); ("convexity", MN cv)])
  | Mirror v => ("Mirror", [("v", g3 v)])
  | Color rgba c hex alpha => ("Color", [("rgba", go g4 rgba); ("color", go (gen_ color_names) c); ("hex", go MS hex); ("alpha", go gf alpha)])
  | Offset r d ch => ("Offset", [("r", go gf r); ("delta", go gf d); ("chamfer", MB ch)])
  | Minkowski cv => ("Minkowski", [("convexity", MN cv)])
  end.

Fixpoint gfields_eqb (a b : list (string * mval)) : bool :=
  match a, b with
  | [], [] => true
  | (k, v) :: a', (k', v') :: b' => String.eqb k k' && mval_eqb v v' && gfields_eqb a' b'
  | _, _ => false
  end.

Definition mcase := (nat * list mval * option tree * list nat)%type.

(* bit 0: panicked / no node; bit 1: variant or a field differs from the template's value;
   bit 2: children differ (count, order, content); bit 3: evaluation counts differ from the template's;
   bit 4: some argument (or child) not evaluated exactly once *)
Definition macro_verdict (c : mcase) : Z :=
  let '(k, vals, res, counts) := c in
  let a := nth k macro_arms (MArm "" [] [] "" [] false) in
  let vars := pattern_vars (m_pattern a) in
  let nargs := List.length vars in
  match res with
  | None => 1%Z
  | Some (Node op cs) =>
      let '(variant, gfs) := to_generic op in
      let want := map (fun fe => (fst fe, eval vars vals (m_lets a) (snd fe))) (m_fields a) in
      let child_vals := skipn nargs vals in
      let want_children := flat_map (fun v => match v with MTree t => [t] | _ => [] end) child_vals in
      let b1 := negb (String.eqb variant (m_variant a) && gfields_eqb gfs want) in
      let b2 := negb (text_eqb (model_text cs) (model_text want_children) && Nat.eqb (List.length cs) (List.length child_vals)
                      && Bool.eqb (m_children a) (negb (Nat.eqb (List.length child_vals) 0))) in
      let b3 := negb (forallb (fun vc => Nat.eqb (evaluations a (fst vc)) (snd vc)) (combine vars (firstn nargs counts))) in
      let b4 := negb (forallb (fun n => Nat.eqb n 1) counts) in
      ((if b1 then 2 else 0) + (if b2 then 4 else 0) + (if b3 then 8 else 0) + (if b4 then 16 else 0))%Z
  end.

(* a + b, a - b, Polyhedron::into_scad: (expected node, node built) -> 0 iff they emit identically *)
Definition op_verdict (c : tree * tree) : Z :=
  if text_eqb (model_text [fst c]) (model_text [snd c]) then 0%Z else 1%Z.
