(* Run/TextRun.v -- verdicts for C01 / C02 / C13: the model's text vs the implementation's, and the
   oracles (lex, parse, shape, binding) run on the implementation's text. *)
From Coq Require Import NArith ZArith List String Floats Bool.
From SCAD Require Import Text.Chars Text.Tree Text.Emit Text.Lex Text.Parse Text.Dec64 Text.Bind Gen.Enums Text.FileModel.
Import ListNotations.
Local Open Scope Z_scope.

Definition tree := scad fnum text.
Definition model_text (ts : list tree) : text := emit_seq fnum text nlit (fun s => s) ts.

Definition colour_ok (o : scadop fnum text) : bool :=
  match o with
  | Color None (Some c) _ _ => colour_known (nth (N.to_nat c) color_names "?"%string)
  | _ => true
  end.

(* 0 ok | 12 name/shape | 20 an argument binds to no parameter | 21 parameters differ | 22 unknown colour *)
Fixpoint check_stmt (t : tree) (s : stmt) : Z :=
  match t, s with
  | Node o cs, Inst name args ss =>
      if negb (text_eqb name (s2t (op_name o))) then 12 else
      match bind name args with
      | None => 20
      | Some got =>
          if negb (same_params got (params_of o)) then 21
          else if negb (colour_ok o) then 22
          else (fix go (cs : list tree) (ss : list stmt) : Z :=
                  match cs, ss with
                  | [], [] => 0
                  | c :: cs', s' :: ss' => let r := check_stmt c s' in if r =? 0 then go cs' ss' else r
                  | _, _ => 12
                  end) cs ss
      end
  end.

Fixpoint check_tops (ts : list tree) (tops : list top) : Z :=
  match ts, tops with
  | [], [] => 0
  | t :: ts', TInst s :: tops' => let r := check_stmt t s in if r =? 0 then check_tops ts' tops' else r
  | _, _ => 11
  end.

(* oracle on a text: 0 ok | 10 does not lex | 13 braces unbalanced | 11 does not parse / wrong statement count | >= 12 see above *)
Definition oracle (ts : list tree) (txt : text) : Z :=
  match lex txt with
  | None => 10
  | Some toks =>
      if negb (balanced toks 0%N) then 13 else
      match parse_tokens toks with
      | None => 11
      | Some tops => check_tops ts tops
      end
  end.

Fixpoint first_text_diff (a b : text) (i : Z) : Z :=
  match a, b with
  | [], [] => -1
  | x :: a', y :: b' => if N.eqb x y then first_text_diff a' b' (i + 1) else i
  | _, _ => i
  end.

(* a case: the trees, and the implementation's emission of their sequence (None = it panicked).
   verdict = (first index where model and implementation text differ or -1,
              oracle code on the implementation's text (2 = panicked), oracle code on the model's text) *)
Definition tcase := (list tree * option text)%type.
Definition text_verdict (c : tcase) : Z * Z * Z :=
  let '(ts, impl) := c in
  let m := model_text ts in
  match impl with
  | None => (0, 2, oracle ts m)
  | Some it => (first_text_diff m it 0, oracle ts it, oracle ts m)
  end.

(* the two hypotheses the theorems make about Rust's Display for f64, checked on a sampled number:
   (bits as float, literal as printed by Rust): 0 ok, 1 not a plain decimal literal, 2 reads back differently *)
Definition wf_num_b (w : text) : bool :=
  match w with c :: w' => (is_digit c || N.eqb c 45 || N.eqb c 46) && forallb is_num_char w' | [] => false end.
Definition num_verdict (c : float * text) : Z :=
  if negb (wf_num_b (snd c)) then 1 else
  match dec_to_f64 (snd c) with
  | None => 1
  | Some f => if Base.NumF.F_bits_eq f (fst c) then 0 else 2
  end.

(* C13: a saved file = assignments for the settings, then the trees *)
Fixpoint check_file_tops (settings : list (string * fnum)) (ts : list tree) (tops : list top) : Z :=
  match settings, tops with
  | (k, v) :: settings', TAssign n e :: tops' =>
      if text_eqb n (s2t ("$" ++ k)%string) && value_eqb (value_of e) (VNum (nval v)) then check_file_tops settings' ts tops' else 30
  | [], _ => check_tops ts tops
  | _, _ => 30
  end.
(* settings as (keyword, value); content = bytes read back from the file; fmt = what format!() gave on the calling thread *)
Definition fcase := (list (string * fnum) * list tree * option text * text)%type.
(* (first difference between model and file or -1, oracle code on the file, first difference between file and format!() text or -1) *)
Definition file_verdict (c : fcase) : Z * Z * Z :=
  let '(settings, ts, content, fmt) := c in
  match file_content (map (fun kv => (fst kv, nlit (snd kv))) settings) (model_text ts), content with
  | Some m, Some it =>
      (first_text_diff m it 0,
       match parse_text it with None => 11 | Some tops => check_file_tops settings ts tops end,
       match file_content (map (fun kv => (fst kv, nlit (snd kv))) settings) fmt with
       | Some m2 => first_text_diff m2 it 0 | None => 0 end)
  | None, _ => (0, 31, 0)
  | _, None => (0, 2, 0)
  end.
