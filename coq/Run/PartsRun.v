(* Run/PartsRun.v -- correspondence for the part builders (C14-C18): the model's tree vs the implementation's. *)
From Coq Require Import ZArith NArith List Floats Bool String.
From SCAD Require Import Base.Num Base.NumF Base.Vec Base.Mat Geom.Dim2 Geom.Dim3 Text.Chars Text.Tree Text.Bind
     Parts.Thread Parts.Viewer Run.MathOps Run.GeomOps.
Import ListNotations.

Definition ftree := scad float text.
Definition itree := scad fnum text.
Definition tolp : float := 0x1.12e0be826d695p-30%float.

Definition fc (a : float) (b : fnum) : bool := F_close tolp a (nval b).
Definition oeq {A B} (f : A -> B -> bool) (a : option A) (b : option B) : bool :=
  match a, b with Some x, Some y => f x y | None, None => true | _, _ => false end.
Definition c2 (a : p2 float) (b : p2 fnum) := fc (p2x a) (p2x b) && fc (p2y a) (p2y b).
Definition c3 (a : p3 float) (b : p3 fnum) := fc (p3x a) (p3x b) && fc (p3y a) (p3y b) && fc (p3z a) (p3z b).
Definition c4 (a : p4 float) (b : p4 fnum) := fc (p4x a) (p4x b) && fc (p4y a) (p4y b) && fc (p4z a) (p4z b) && fc (p4w a) (p4w b).
Fixpoint leq {A B} (f : A -> B -> bool) (a : list A) (b : list B) : bool :=
  match a, b with [] , [] => true | x :: a', y :: b' => f x y && leq f a' b' | _, _ => false end.
Definition neq (a b : N) := N.eqb a b.
Definition beq := Bool.eqb.
Definition seq_ (a b : text) := text_eqb a b.

Definition op_close (a : scadop float text) (b : scadop fnum text) : bool :=
  match a, b with
  | Union, Union | Difference, Difference | Intersection, Intersection | Hull, Hull => true
  | Circle r fa fs fn_, Circle r' fa' fs' fn_' => fc r r' && oeq fc fa fa' && oeq fc fs fs' && oeq neq fn_ fn_'
  | Square s c, Square s' c' => c2 s s' && beq c c'
  | Polygon p pa cv, Polygon p' pa' cv' => leq c2 p p' && oeq (leq (leq neq)) pa pa' && neq cv cv'
  | Text t s f ha va sp d l sc fn_, Text t' s' f' ha' va' sp' d' l' sc' fn_' =>
      seq_ t t' && fc s s' && seq_ f f' && neq ha ha' && neq va va' && fc sp sp' && neq d d' && seq_ l l' && seq_ sc sc' && oeq neq fn_ fn_'
  | Import f cv, Import f' cv' => seq_ f f' && neq cv cv'
  | Projection c, Projection c' => beq c c'
  | Sphere r fa fs fn_, Sphere r' fa' fs' fn_' => fc r r' && oeq fc fa fa' && oeq fc fs fs' && oeq neq fn_ fn_'
  | Cube s c, Cube s' c' => c3 s s' && beq c c'
  | Cylinder h r1 r2 c fa fs fn_, Cylinder h' r1' r2' c' fa' fs' fn_' =>
      fc h h' && fc r1 r1' && fc r2 r2' && beq c c' && oeq fc fa fa' && oeq fc fs fs' && oeq neq fn_ fn_'
  | Polyhedron p f cv, Polyhedron p' f' cv' => leq c3 p p' && leq (leq neq) f f' && neq cv cv'
  | LinearExtrude h c cv tw sc sl fn_, LinearExtrude h' c' cv' tw' sc' sl' fn_' =>
      fc h h' && beq c c' && neq cv cv' && fc tw tw' && c2 sc sc' && oeq neq sl sl' && oeq neq fn_ fn_'
  | RotateExtrude a cv fa fs fn_, RotateExtrude a' cv' fa' fs' fn_' => fc a a' && neq cv cv' && oeq fc fa fa' && oeq fc fs fs' && oeq neq fn_ fn_'
  | Surface f c i cv, Surface f' c' i' cv' => seq_ f f' && beq c c' && beq i i' && neq cv cv'
  | Translate v, Translate v' | Scale v, Scale v' | Mirror v, Mirror v' => c3 v v'
  | Rotate a s v, Rotate a' s' v' => oeq fc a a' && beq s s' && c3 v v'
  | Resize n au iv (x, y, z) cv, Resize n' au' iv' (x', y', z') cv' => c3 n n' && beq au au' && beq iv iv' && beq x x' && beq y y' && beq z z' && neq cv cv'
  | Color r c h a, Color r' c' h' a' => oeq c4 r r' && oeq neq c c' && oeq seq_ h h' && oeq fc a a'
  | Offset r d c, Offset r' d' c' => oeq fc r r' && oeq fc d d' && beq c c'
  | Minkowski cv, Minkowski cv' => neq cv cv'
  | _, _ => false
  end.

Fixpoint tree_close (a : ftree) (b : itree) : bool :=
  match a, b with
  | Node oa ca, Node ob cb =>
      op_close oa ob &&
      (fix go (x : list ftree) (y : list itree) : bool :=
         match x, y with [], [] => true | p :: x', q :: y' => tree_close p q && go x' y' | _, _ => false end) ca cb
  end.

Section POps.
  Context {T : Type} `{Num T}.
  Definition sample_tree (k : Z) : scad T text :=
    match k with
    | 0%Z => Node (Cube (P3 none_ ntwo nthree) false) []
    | 1%Z => Node (Translate (P3 (nofZ 5) nzero none_)) [Node (Sphere ntwo None None (Some 12%N)) []]
    | _ => Node Union [Node (Cube (P3 none_ none_ none_) true) []; Node (Rotate None false (P3 nzero nzero (nofZ 45))) [Node (Square (P2 ntwo nthree) false) []]]
    end.

  Definition run_part (op : Z) (a : list T) : option (scad T text) :=
    match op with
    | 500 => threaded_rod (zi a 0) (a0 a 1) (zi a 2) (a0 a 3) (a0 a 4) (bz a 5) (bz a 6)
    | 501 => tap (zi a 0) (a0 a 1) (zi a 2) (bz a 3) (bz a 4)
    | 502 => hex_bolt (zi a 0) (a0 a 1) (a0 a 2) (zi a 3) (a0 a 4) (bz a 5) (bz a 6) (bz a 7)
    | 503 => hex_nut (zi a 0) (a0 a 1) (zi a 2) (bz a 3) (bz a 4) (bz a 5)
    | 504 => Some (external_cylinder_chamfer (a0 a 0) (a0 a 1) (a0 a 2) (a0 a 3) (zi a 4) (bz a 5))
    | 505 => Some (external_circle_chamfer (a0 a 0) (a0 a 1) (a0 a 2) (a0 a 3) (zi a 4))
    | 506 => polar_array (sample_tree (zi a 0)) (zi a 1) (a0 a 2)
    | 507 => pipe_straight (a0 a 0) (a0 a 1) (a0 a 2) (bz a 3) (zi a 4)
    | 508 => Some (pipe_straight_solid (a0 a 0) (a0 a 1) (bz a 2) (zi a 3))
    | 509 => pipe_tapered (a0 a 0) (a0 a 1) (a0 a 2) (a0 a 3) (bz a 4) (zi a 5)
    | 510 => Some (pipe_tapered_solid (a0 a 0) (a0 a 1) (a0 a 2) (bz a 3) (zi a 4))
    | 511 => pipe_curved (a0 a 0) (a0 a 1) (a0 a 2) (a0 a 3) (zi a 4)
    | 512 => pipe_curved_solid (a0 a 0) (a0 a 1) (a0 a 2) (zi a 3)
    | 513 => threaded_cylinder (a0 a 0) (a0 a 1) (a0 a 2) (a0 a 3) (zi a 4) (a0 a 5) (a0 a 6) (bz a 7) (bz a 8)
    | _ => None
    end%Z.
End POps.

Definition pcase := (Z * list float * option itree * trig_table)%type.
(* 0 = model tree and implementation tree agree (structure exact, numbers within 1e-9); 2 = they differ;
   3 = model panics, implementation returns; 4 = implementation panics, model returns *)
Definition part_verdict (c : pcase) : Z :=
  let '(op, args, res, tbl) := c in
  match @run_part float (NumF tbl) op args, res with
  | Some m, Some i => if tree_close m i then 0%Z else 2%Z
  | None, None => 0%Z
  | None, Some _ => 3%Z
  | Some _, None => 4%Z
  end.

(* table lookup through the hook: (m, [pitch; external; internal; nut width; chamfer]) *)
Definition lookup_verdict (c : Z * list float) : Z :=
  let '(m, vals) := c in
  match m_table_lookup m, lookup_spec m with
  | Some r, Some r' =>
      let N0 := NumF [] in
      let mine := [@r_pitch float N0 r; @r_ext float N0 r; @r_int float N0 r; @r_nut float N0 r; @r_chamfer float N0 r] in
      if negb (Z.eqb (row_key r) (row_key r')) then 5%Z
      else cmp_lists tolp mine vals
  | _, _ => 6%Z
  end.

(* viewer histories *)
Definition vcase := (float * float * Z * list (@vop float) * option itree * trig_table)%type.
Definition viewer_verdict (c : vcase) : Z :=
  let '(pr, er, seg, ops, res, tbl) := c in
  match @viewer_into_scad float (NumF tbl) (VCfg pr er seg) ops, res with
  | Some m, Some i => if tree_close m i then 0%Z else 2%Z
  | None, None => 0%Z
  | None, Some _ => 3%Z
  | Some _, None => 4%Z
  end.
