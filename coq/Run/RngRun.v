(* Run/RngRun.v -- correspondence verdicts for C19. *)
From Coq Require Import NArith ZArith List Bool Floats Uint63.
From SCAD Require Import Gen.RngConsts Rng.MT.
Import ListNotations.

Fixpoint first_diff (a b : list N) (i : Z) : Z :=
  match a, b with
  | [], [] => 0%Z
  | x :: a', y :: b' => if N.eqb x y then first_diff a' b' (i + 1)%Z else (i + 1)%Z
  | _, _ => (i + 1)%Z
  end.

(* 0 = the model's stream equals the implementation's; k > 0 = first difference at position k-1 *)
Definition stream_verdict (c : N * list N) : Z :=
  let '(seed, outs) := c in first_diff (outputs (with_seed seed) (length outs)) outs 0%Z.

(* bit 0: f32_0_1 numerator differs; bit 1: i32_minmax differs *)
Definition range_verdict (c : N * N * Z * Z * Z) : Z :=
  let '(u, num, mn, mx, iv) := c in
  ((if N.eqb (f01_num u) num then 0 else 1) + (if Z.eqb (i32_minmax mn mx u) iv then 0 else 2))%Z.

(* f64_minmax in binary64: min + (max - min) * (f32_0_1() as f64); the factor is f01_num u / 2^32 exactly *)
Definition f01_float (u : N) : float := PrimFloat.div (PrimFloat.of_uint63 (Uint63.of_Z (Z.of_N (f01_num u)))) 4294967296%float.
Definition f64_minmax_F (mn mx : float) (u : N) : float := PrimFloat.add mn (PrimFloat.mul (PrimFloat.sub mx mn) (f01_float u)).
(* 0 = bit-identical (as numbers), 1 = differs; 2 = leaves [min, max] *)
Definition f64_verdict (c : N * float * float * float) : Z :=
  let '(u, mn, mx, dv) := c in
  let m := f64_minmax_F mn mx u in
  ((if PrimFloat.eqb m dv then 0 else 1) + (if PrimFloat.leb mn dv && PrimFloat.leb dv mx then 0 else 2))%Z.
