(* Run/RngRun.v -- correspondence verdicts for C19. *)
From Coq Require Import NArith ZArith List Bool.
From SCAD Require Import Gen.RngConsts Rng.MT.
Import ListNotations.

Fixpoint first_diff (a b : list N) (i : Z) : Z :=
  match a, b with
  | [], [] => 0%Z
  | x :: a', y :: b' => if N.eqb x y then first_diff a' b' (i + 1)%Z else (i + 1)%Z
  | _, _ => (i + 1)%Z
  end.

(* 0 = the model's stream equals the implementation's; k > 0 = first difference at position k-1 *)
Definition stream_verdict (c : N * list N) : Z :=
  let '(seed, outs) := c in first_diff (outputs (with_seed seed) (length outs)) outs 0%Z.

(* bit 0: f32_0_1 numerator differs; bit 1: i32_minmax differs *)
Definition range_verdict (c : N * N * Z * Z * Z) : Z :=
  let '(u, num, mn, mx, iv) := c in
  ((if N.eqb (f01_num u) num then 0 else 1) + (if Z.eqb (i32_minmax mn mx u) iv then 0 else 2))%Z.
