(* Run/MeshOps.v -- dispatcher for the mesh builders (numbering of harness/src/meshgen.rs). *)
From Coq Require Import ZArith List Floats Bool.
From SCAD Require Import Base.Num Base.NumF Base.Vec Base.Mat Geom.Dim2 Geom.Tri Geom.Dim3 Run.MathOps Run.GeomOps.
Import ListNotations.

Section MOps.
  Context {T : Type} `{Num T}.
  Definition enc (ph : @polyhedron T) : list T :=
    nofZ (Z.of_nat (length (fst ph))) :: ol3 (fst ph) ++
    nofZ (Z.of_nat (length (snd ph))) :: flat_map (fun f => nofZ (Z.of_nat (length f)) :: map nofZ f) (snd ph).
  Definition prof (a : list T) (k n : nat) : list (pt2 T) := gl2 (firstn (2 * n) (skipn k a)).
  Definition path3 (a : list T) (k m : nat) : list (pt3 T) := gl3 (firstn (3 * m) (skipn k a)).

  Definition run_mop (op : Z) (a : list T) : option (list T) :=
    match op with
    | 400 => option_map enc (linear_extrude (prof a 2 (Z.to_nat (zi a 1))) (a0 a 0))
    | 401 => option_map enc (cylinder (a0 a 0) (a0 a 1) (zi a 2))
    | 402 => let n := Z.to_nat (zi a 1) in option_map enc (loft (prof a 2 n) (prof a (2 + 2 * n) n) (a0 a 0))
    | 403 => option_map enc (rotate_extrude (prof a 3 (Z.to_nat (zi a 2))) (a0 a 0) (zi a 1))
    | 404 => let n := Z.to_nat (zi a 2) in let m := Z.to_nat (zi a 3) in
             option_map enc (sweep (prof a 4 n) (path3 a (4 + 2 * n) m) (a0 a 0) (bz a 1))
    | 407 => option_map (fun ph => enc (poly_translate ph (g3 a 0))) (linear_extrude (prof a 5 (Z.to_nat (zi a 4))) (a0 a 3))
    | 408 => option_map (fun ph => enc (match zi a 0 with 0 => poly_rotate_x ph (a0 a 1) | 1 => poly_rotate_y ph (a0 a 1) | _ => poly_rotate_z ph (a0 a 1) end))
                        (linear_extrude (prof a 4 (Z.to_nat (zi a 3))) (a0 a 2))
    | 409 => option_map (fun ph => enc (poly_apply_matrix ph (gm a 0))) (linear_extrude (prof a 18 (Z.to_nat (zi a 17))) (a0 a 16))
    | _ => None
    end%Z.
End MOps.

Definition mverdict (c : mcase) : Z :=
  let '(op, args, res, tbl) := c in
  match @run_mop float (NumF tbl) op args, res with
  | Some m, Some i => cmp_lists tol_default m i
  | None, None => 0
  | None, Some _ => 3
  | Some _, None => 4
  end%Z.
Definition mmodel_out (c : mcase) : option (list float) :=
  let '(op, args, _, tbl) := c in @run_mop float (NumF tbl) op args.

(* the point section of an encoded mesh: [number of points; 3 coordinates per point] *)
Definition pts_prefix (tbl : list (Z * float * float)) (l : list float) : list float :=
  match l with
  | p :: _ => firstn (S (3 * Z.to_nat (@ntrunc float (NumF tbl) p))) l
  | [] => []
  end.
(* (whole mesh, points only): 0 bit-exact, 1 within tolerance, 2 differs, 3/4 panic mismatch *)
Definition mverdict2 (c : mcase) : Z * Z :=
  let '(op, args, res, tbl) := c in
  match @run_mop float (NumF tbl) op args, res with
  | Some m, Some i => (cmp_lists tol_default m i, cmp_lists tol_default (pts_prefix tbl m) (pts_prefix tbl i))
  | None, None => (0, 0)
  | None, Some _ => (3, 3)
  | Some _, None => (4, 4)
  end%Z.
