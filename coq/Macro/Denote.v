(* Macro/Denote.v -- SPEC: what each documented invocation form denotes.
   Read from the pattern alone: a keyword item names its OpenSCAD parameter, a positional item takes
   the parameter its metavariable is named after, a diameter is stored as half its value, a single
   size applies to every axis, omitted parameters take OpenSCAD's defaults (convexity 1). *)
From Coq Require Import NArith List String Bool.
From SCAD Require Import Macro.Syntax.
Import ListNotations.
Local Open Scope string_scope. Local Open Scope list_scope.

Definition fields := list (string * texpr).
Definition set (k : string) (e : texpr) (fs : fields) : fields :=
  map (fun kv => if String.eqb (fst kv) k then (k, e) else kv) fs.
Definition sets (l : fields) (fs : fields) : fields := fold_left (fun acc kv => set (fst kv) (snd kv) acc) l fs.
Definition V := TVar.
Definition one := TNLit 1.
Definition f0 := TFLit "0.0". Definition f1 := TFLit "1.0".

(* variant and OpenSCAD defaults; TReq = the form has to supply it *)
Definition defaults (macro : string) : option (string * fields) :=
  let fafsfn := [("fa", TNone); ("fs", TNone); ("fn_", TNone)] in
  if macro =? "union" then Some ("Union", []) else
  if macro =? "difference" then Some ("Difference", []) else
  if macro =? "intersection" then Some ("Intersection", []) else
  if macro =? "hull" then Some ("Hull", []) else
  if macro =? "circle" then Some ("Circle", ("radius", TReq) :: fafsfn) else
  if macro =? "sphere" then Some ("Sphere", ("radius", TReq) :: fafsfn) else
  if macro =? "square" then Some ("Square", [("size", TReq); ("center", TBool false)]) else
  if macro =? "cube" then Some ("Cube", [("size", TReq); ("center", TBool false)]) else
  if macro =? "polygon" then Some ("Polygon", [("points", TReq); ("paths", TNone); ("convexity", one)]) else
  if macro =? "text" then Some ("Text", [("text", TReq); ("size", TFLit "10.0"); ("font", TStrLit "Liberation Sans");
      ("halign", TEnum "TextHalign" "left"); ("valign", TEnum "TextValign" "baseline"); ("spacing", f1);
      ("direction", TEnum "TextDirection" "ltr"); ("language", TStrLit "en"); ("script", TStrLit "latin"); ("fn_", TNone)]) else
  if macro =? "import" then Some ("Import", [("file", TReq); ("convexity", one)]) else
  if macro =? "projection" then Some ("Projection", [("cut", TBool false)]) else
  if macro =? "cylinder" then Some ("Cylinder", [("height", TReq); ("radius1", TReq); ("radius2", TReq); ("center", TBool false)] ++ fafsfn) else
  if macro =? "polyhedron" then Some ("Polyhedron", [("points", TReq); ("faces", TReq); ("convexity", one)]) else
  if macro =? "linear_extrude" then Some ("LinearExtrude", [("height", TReq); ("center", TBool false); ("convexity", one);
      ("twist", f0); ("scale", TPt [f1; f1]); ("slices", TNone); ("fn_", TNone)]) else
  if macro =? "rotate_extrude" then Some ("RotateExtrude", [("angle", TFLit "360.0"); ("convexity", one)] ++ fafsfn) else
  if macro =? "surface" then Some ("Surface", [("file", TReq); ("center", TBool false); ("invert", TBool false); ("convexity", one)]) else
  if macro =? "translate" then Some ("Translate", [("v", TReq)]) else
  if macro =? "scale" then Some ("Scale", [("v", TReq)]) else
  if macro =? "mirror" then Some ("Mirror", [("v", TReq)]) else
  if macro =? "rotate" then Some ("Rotate", [("a", TReq); ("a_is_scalar", TReq); ("v", TReq)]) else
  if macro =? "resize" then Some ("Resize", [("newsize", TReq); ("auto", TBool false); ("auto_is_vec", TBool false);
      ("autovec", TTup [TBool false; TBool false; TBool false]); ("convexity", one)]) else
  if macro =? "color" then Some ("Color", [("rgba", TNone); ("color", TNone); ("hex", TNone); ("alpha", TNone)]) else
  if macro =? "offset" then Some ("Offset", [("r", TNone); ("delta", TNone); ("chamfer", TBool false)]) else
  if macro =? "minkowski" then Some ("Minkowski", [("convexity", one)]) else None.

Definition mem (s : string) (l : list string) : bool := existsb (String.eqb s) l.

(* a scalar item: key = its keyword, or (positional) the name of its metavariable *)
Definition scalar_role (macro key v : string) : option fields :=
  let x := V v in
  if mem key ["fa"; "fs"] then Some [(key, TSome x)] else
  if key =? "fn" then
    (* text!(.., 'fn: u64') as the tenth positional is also Some *)
    Some [("fn_", TSome x)] else
  if mem macro ["circle"; "sphere"] then
    (if mem key ["d"; "dia"] then Some [("radius", THalf x)] else if mem key ["r"] then Some [("radius", x)] else None) else
  if macro =? "square" then (if key =? "size" then Some [("size", TPt [x; x])] else if key =? "center" then Some [("center", x)] else None) else
  if macro =? "cube" then (if key =? "size" then Some [("size", TPt [x; x; x])] else if key =? "center" then Some [("center", x)] else None) else
  if macro =? "polygon" then (if key =? "points" then Some [("points", x)] else if key =? "paths" then Some [("paths", TSome x)]
                             else if key =? "convexity" then Some [("convexity", x)] else None) else
  if macro =? "text" then
    (if mem key ["text"; "font"; "language"; "script"] then Some [(key, TToString x)]
     else if mem key ["size"; "halign"; "valign"; "spacing"; "direction"] then Some [(key, x)]
     else if key =? "text_params" then
       Some [("text", TField v "text"); ("size", TField v "size"); ("font", TField v "font"); ("halign", TField v "halign");
             ("valign", TField v "valign"); ("spacing", TField v "spacing"); ("direction", TField v "direction");
             ("language", TField v "language"); ("script", TField v "script"); ("fn_", TField v "fn_")]
     else None) else
  if macro =? "import" then (if key =? "file" then Some [("file", TToString x)] else if key =? "convexity" then Some [("convexity", x)] else None) else
  if macro =? "projection" then (if key =? "cut" then Some [("cut", x)] else None) else
  if macro =? "cylinder" then
    (if mem key ["h"; "height"] then Some [("height", x)]
     else if mem key ["d1"; "diameter1"] then Some [("radius1", THalf x)] else if mem key ["d2"; "diameter2"] then Some [("radius2", THalf x)]
     else if mem key ["d"; "diameter"] then Some [("radius1", THalf x); ("radius2", THalf x)]
     else if mem key ["r1"; "radius1"] then Some [("radius1", x)] else if mem key ["r2"; "radius2"] then Some [("radius2", x)]
     else if mem key ["r"; "radius"] then Some [("radius1", x); ("radius2", x)]
     else if key =? "center" then Some [("center", x)] else None) else
  if macro =? "polyhedron" then (if mem key ["points"; "faces"; "convexity"] then Some [(key, x)] else None) else
  if macro =? "linear_extrude" then
    (if mem key ["height"; "center"; "convexity"; "twist"] then Some [(key, x)]
     else if key =? "scale" then Some [("scale", TPt [x; x])] else if key =? "slices" then Some [("slices", TSome x)] else None) else
  if macro =? "rotate_extrude" then (if mem key ["angle"; "convexity"] then Some [(key, x)] else None) else
  if macro =? "surface" then (if key =? "file" then Some [("file", TToString x)] else if mem key ["center"; "invert"; "convexity"] then Some [(key, x)] else None) else
  if macro =? "rotate" then (if key =? "a" then Some [("a", TSome x)] else None) else
  if macro =? "resize" then (if key =? "auto" then Some [("auto", x)] else if key =? "convexity" then Some [("convexity", x)] else None) else
  if macro =? "color" then (if mem key ["c"; "color"] then Some [("color", TSome x)] else if key =? "alpha" then Some [("alpha", TSome x)]
                           else if key =? "hex" then Some [("hex", TSome (TToString x))] else None) else
  if macro =? "offset" then (if key =? "delta" then Some [("delta", TSome x)] else if key =? "chamfer" then Some [("chamfer", x)]
                            else if key =? "r" then Some [("r", TSome x)] else None) else
  if macro =? "minkowski" then (if key =? "convexity" then Some [("convexity", x)] else None) else None.

(* a vector item; nth = how many vector items came before it in the pattern *)
Definition vector_role (macro key : string) (vs : list string) (nth : nat) : option fields :=
  let xs := map V vs in
  let n := List.length vs in
  if macro =? "square" then (if Nat.eqb n 2 && Nat.eqb nth 0 then Some [("size", TPt xs)] else None) else
  if macro =? "cube" then (if Nat.eqb n 3 && Nat.eqb nth 0 then Some [("size", TPt xs)] else None) else
  if mem macro ["translate"; "scale"; "mirror"] then (if Nat.eqb n 3 && Nat.eqb nth 0 && mem key [""; "v"] then Some [("v", TPt xs)] else None) else
  if macro =? "rotate" then
    (if Nat.eqb n 3 && Nat.eqb nth 0 && mem key [""; "v"; "a"] then Some [("v", TPt xs)] else None) else
  if macro =? "linear_extrude" then (if Nat.eqb n 2 && (key =? "scale") then Some [("scale", TPt xs)] else None) else
  if macro =? "resize" then
    (if Nat.eqb n 3 && Nat.eqb nth 0 && mem key [""; "newsize"] then Some [("newsize", TPt xs)]
     else if Nat.eqb n 3 && Nat.eqb nth 1 && mem key [""; "auto"] then Some [("auto_is_vec", TBool true); ("autovec", TTup xs)] else None) else
  if macro =? "color" then (if Nat.eqb n 4 && Nat.eqb nth 0 && (key =? "") then Some [("rgba", TSome (TPt xs))] else None) else None.

Fixpoint apply_items (macro : string) (items : list pitem) (nvec : nat) (fs : fields) : option fields :=
  match items with
  | [] => Some fs
  | PChildren :: tl => apply_items macro tl nvec fs
  | PKw kw v :: tl => match scalar_role macro kw v with Some l => apply_items macro tl nvec (sets l fs) | None => None end
  | PPos v :: tl => match scalar_role macro v v with Some l => apply_items macro tl nvec (sets l fs) | None => None end
  | PKwVec kw vs :: tl => match vector_role macro kw vs nvec with Some l => apply_items macro tl (S nvec) (sets l fs) | None => None end
  | PVec vs :: tl => match vector_role macro "" vs nvec with Some l => apply_items macro tl (S nvec) (sets l fs) | None => None end
  end.

(* rotate!: the axis-angle / Euler / scalar forms are told apart by which items are present *)
Definition finish (macro : string) (items : list pitem) (fs : fields) : fields :=
  if macro =? "rotate" then
    let has_a := existsb (fun it => match it with PKw "a" _ | PPos "a" => true | _ => false end) items in
    let has_v := existsb (fun it => match it with PKwVec _ _ | PVec _ => true | _ => false end) items in
    if has_a && has_v then set "a_is_scalar" (TBool false) fs
    else if has_a then set "a_is_scalar" (TBool true) (set "v" (TPt [f0; f0; f0]) fs)
    else set "a" TNone (set "a_is_scalar" (TBool false) fs)
  else fs.

Definition denote (macro : string) (items : list pitem) : option (string * fields) :=
  match defaults macro with
  | None => None
  | Some (variant, fs0) =>
      match apply_items macro items 0 fs0 with
      | None => None
      | Some fs => Some (variant, finish macro items fs)
      end
  end.
