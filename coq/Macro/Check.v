(* Macro/Check.v -- the checker run over the regenerated arm list, and what a passing arm means. *)
From Coq Require Import NArith List String Bool Arith.
From SCAD Require Import Macro.Syntax Macro.Denote.
Import ListNotations.
Local Open Scope string_scope. Local Open Scope list_scope.

Fixpoint fields_eqb (a b : fields) : bool :=
  match a, b with
  | [], [] => true
  | (k, e) :: a', (k', e') :: b' => String.eqb k k' && texpr_eqb e e' && fields_eqb a' b'
  | _, _ => false
  end.
Fixpoint has_req (e : texpr) : bool :=
  match e with
  | TReq => true
  | THalf x | TToString x | TSome x => has_req x
  | TPt l | TTup l => existsb has_req l
  | _ => false
  end.
Fixpoint nodup_str (l : list string) : bool :=
  match l with [] => true | x :: tl => negb (existsb (String.eqb x) tl) && nodup_str tl end.

Definition linear (a : marm) : bool :=
  forallb (fun v => Nat.eqb (evaluations a v) 1) (pattern_vars (m_pattern a)) && nodup_str (pattern_vars (m_pattern a)).

Definition children_ok (a : marm) : bool :=
  Bool.eqb (m_children a) (existsb (fun it => match it with PChildren => true | _ => false end) (m_pattern a)).

Definition template_ok (a : marm) : bool :=
  match denote (m_macro a) (m_pattern a) with
  | None => false
  | Some (variant, fs) =>
      String.eqb variant (m_variant a) && negb (existsb (fun kv => has_req (snd kv)) fs) &&
      fields_eqb (map (fun kv => (fst kv, norm (m_lets a) (snd kv))) (m_fields a)) fs
  end.

(* the template mentions each declared field of its variant exactly once, in declaration order *)
Definition decl_ok (decl : list (string * list (string * string))) (a : marm) : bool :=
  match find (fun d => String.eqb (fst d) (m_variant a)) decl with
  | None => false
  | Some (_, fs) =>
      (fix go (x : list (string * string)) (y : fields) : bool :=
         match x, y with [], [] => true | (f, _) :: x', (g, _) :: y' => String.eqb f g && go x' y' | _, _ => false end) fs (m_fields a)
  end.

Definition arm_ok (decl : list (string * list (string * string))) (a : marm) : bool :=
  linear a && children_ok a && template_ok a && decl_ok decl a.

(* ---- meaning ---- *)
Lemma arm_ok_linear decl a : arm_ok decl a = true ->
  forall v, In v (pattern_vars (m_pattern a)) -> evaluations a v = 1.
Proof.
  unfold arm_ok, linear. intros H v Hin.
  repeat (apply andb_prop in H; destruct H as [H ?]).
  rewrite forallb_forall in H. apply Nat.eqb_eq. apply H. assumption.
Qed.

Lemma fields_eqb_eq a b : fields_eqb a b = true -> map fst a = map fst b /\ List.length a = List.length b.
Proof.
  revert b. induction a as [|[k e] a IH]; intros [|[k' e'] b] H; try discriminate; [split; reflexivity|].
  cbn in H. apply andb_prop in H as [H Hr]. apply andb_prop in H as [Hk He].
  apply String.eqb_eq in Hk. subst. destruct (IH b Hr) as [H1 H2]. cbn. split; congruence.
Qed.

Lemma arm_ok_denotes decl a : arm_ok decl a = true ->
  exists fs, denote (m_macro a) (m_pattern a) = Some (m_variant a, fs) /\
             fields_eqb (map (fun kv => (fst kv, norm (m_lets a) (snd kv))) (m_fields a)) fs = true /\
             existsb (fun kv => has_req (snd kv)) fs = false.
Proof.
  unfold arm_ok, template_ok. intros H.
  repeat (apply andb_prop in H; destruct H as [H ?]).
  destruct (denote (m_macro a) (m_pattern a)) as [[variant fs]|]; [|discriminate].
  match goal with Ht : (_ && _ && _)%bool = true |- _ => apply andb_prop in Ht as [Ht Hf]; apply andb_prop in Ht as [Hv Hr] end.
  apply String.eqb_eq in Hv. subst. exists fs. repeat split; try assumption.
  apply negb_true_iff in Hr. exact Hr.
Qed.
