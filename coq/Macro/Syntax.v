(* Macro/Syntax.v -- the data the macro translator (gen/gen_macros.py) produces. *)
From Coq Require Import NArith List String Bool.
Import ListNotations.

Inductive texpr :=
| TVar (v : string)                 (* $v *)
| TLocal (l : string)               (* a local bound by `let l = $v;` in front of the struct literal *)
| THalf (e : texpr)                 (* e / 2.0 *)
| TField (v f : string)             (* $v.f *)
| TLField (l f : string)            (* l.f for a let-bound local *)
| TToString (e : texpr)             (* e.to_string() *)
| TSome (e : texpr) | TNone
| TBool (b : bool)
| TFLit (s : string)                (* float literal as written *)
| TNLit (n : N)
| TStrLit (s : string)              (* "s".to_string() *)
| TEnum (ty variant : string)
| TPt (l : list texpr)              (* Pt2/Pt3/Pt4::new *)
| TTup (l : list texpr)
| TReq.                             (* spec only: a parameter the form must supply *)

Inductive pitem :=
| PKw (kw v : string) | PPos (v : string) | PKwVec (kw : string) (vs : list string) | PVec (vs : list string) | PChildren.

Record marm := MArm {
  m_macro : string; m_pattern : list pitem; m_lets : list (string * string);
  m_variant : string; m_fields : list (string * texpr); m_children : bool }.

Fixpoint texpr_eqb (a b : texpr) : bool :=
  match a, b with
  | TVar x, TVar y | TLocal x, TLocal y | TFLit x, TFLit y | TStrLit x, TStrLit y => String.eqb x y
  | THalf x, THalf y | TToString x, TToString y | TSome x, TSome y => texpr_eqb x y
  | TField v f, TField v' f' | TLField v f, TLField v' f' | TEnum v f, TEnum v' f' => String.eqb v v' && String.eqb f f'
  | TNone, TNone | TReq, TReq => true
  | TBool x, TBool y => Bool.eqb x y
  | TNLit x, TNLit y => N.eqb x y
  | TPt x, TPt y | TTup x, TTup y =>
      (fix go (x y : list texpr) : bool :=
         match x, y with [], [] => true | a :: x', b :: y' => texpr_eqb a b && go x' y' | _, _ => false end) x y
  | _, _ => false
  end.

(* how often evaluating the expression evaluates the argument expression bound to $v *)
Fixpoint uses (v : string) (e : texpr) : nat :=
  match e with
  | TVar x => if String.eqb x v then 1 else 0
  | TField x _ => if String.eqb x v then 1 else 0
  | THalf x | TToString x | TSome x => uses v x
  | TPt l | TTup l => (fix go (l : list texpr) : nat := match l with [] => 0 | a :: l' => uses v a + go l' end) l
  | _ => 0
  end.

Definition pattern_vars (p : list pitem) : list string :=
  flat_map (fun it => match it with PKw _ v | PPos v => [v] | PKwVec _ vs | PVec vs => vs | PChildren => [] end) p.

(* evaluations of the argument bound to $v by a whole expansion: its let bindings plus direct uses *)
Definition evaluations (a : marm) (v : string) : nat :=
  List.length (filter (fun lv => String.eqb (snd lv) v) (m_lets a)) +
  fold_right (fun fe acc => uses v (snd fe) + acc) 0 (m_fields a).

(* replace let-bound locals by the metavariable they hold *)
Fixpoint lookup_let (l : string) (lets : list (string * string)) : option string :=
  match lets with [] => None | (k, v) :: tl => if String.eqb k l then Some v else lookup_let l tl end.
Fixpoint norm (lets : list (string * string)) (e : texpr) : texpr :=
  match e with
  | TLocal l => match lookup_let l lets with Some v => TVar v | None => TLocal l end
  | TLField l f => match lookup_let l lets with Some v => TField v f | None => TLField l f end
  | THalf x => THalf (norm lets x) | TToString x => TToString (norm lets x) | TSome x => TSome (norm lets x)
  | TPt l => TPt (map (norm lets) l) | TTup l => TTup (map (norm lets) l)
  | _ => e
  end.

(* the shape of an invocation form: what is positional, what is a keyword, what is a bracketed vector, where the children go *)
Inductive dshape := DKw (kw : string) | DPos | DKwVec (kw : string) (n : nat) | DVec (n : nat) | DChildren.
Definition shape_of (it : pitem) : dshape :=
  match it with
  | PKw kw _ => DKw kw | PPos _ => DPos | PKwVec kw vs => DKwVec kw (List.length vs) | PVec vs => DVec (List.length vs) | PChildren => DChildren
  end.
Definition dshape_eqb (a b : dshape) : bool :=
  match a, b with
  | DKw x, DKw y => String.eqb x y
  | DPos, DPos | DChildren, DChildren => true
  | DKwVec x n, DKwVec y m => String.eqb x y && Nat.eqb n m
  | DVec n, DVec m => Nat.eqb n m
  | _, _ => false
  end.
Fixpoint dshapes_eqb (a b : list dshape) : bool :=
  match a, b with
  | [], [] => true
  | x :: a', y :: b' => dshape_eqb x y && dshapes_eqb a' b'
  | _, _ => false
  end.
(* a documented form is matched by an arm of the same macro with the same shape *)
Definition doc_has_arm (arms : list marm) (d : string * string * list dshape) : bool :=
  let '(m, _, sh) := d in existsb (fun a => String.eqb (m_macro a) m && dshapes_eqb (map shape_of (m_pattern a)) sh) arms.
