(* Geom/Dim3.v -- mirror of the mesh builders of scad_tree/src/dim3.rs (Polyhedron). No proofs here.
   A polyhedron is (points, faces); None = the Rust panics (assert / index out of range). *)
From Coq Require Import ZArith List Bool Arith.
From SCAD Require Import Base.Num Base.Vec Base.Mat Geom.Dim2 Geom.Tri.
Import ListNotations.
Local Open Scope num_scope.

Section Dim3.
  Context {T : Type} `{Num T}.
  Notation pt2 := (pt2 T). Notation pt3 := (pt3 T).
  Definition face := list Z.
  Definition polyhedron := (list pt3 * list face)%type.

  Fixpoint triples (l : list Z) (off : Z) : list face :=
    match l with
    | a :: b :: c :: tl => [(a + off)%Z; (b + off)%Z; (c + off)%Z] :: triples tl off
    | _ => []
    end.

  Definition nseq (n : nat) : list Z := map Z.of_nat (seq 0 n).
  (* side quads between ring a (first index ra) and ring b (first index rb), both of size n *)
  Definition quad (n ra rb p : Z) : face :=
    [(ra + p)%Z; (ra + (p + 1) mod n)%Z; (rb + (p + 1) mod n)%Z; (rb + p)%Z].
  Definition quad_rev (n ra rb p : Z) : face :=
    [(ra + (p + 1) mod n)%Z; (ra + p)%Z; (rb + p)%Z; (rb + (p + 1) mod n)%Z].

  Definition linear_extrude (points : list pt2) (height : T) : option polyhedron :=
    match triangulate2d_rev points, triangulate2d points with
    | Some bot, Some top =>
        let n := Z.of_nat (length points) in
        let vertices := map (fun p => pt2_as_pt3 p nzero) points ++ map (fun p => pt2_as_pt3 p height) points in
        Some (vertices, triples bot 0 ++ triples top n ++ map (quad n 0 n) (nseq (length points)))
    | _, _ => None
    end.

  Definition loft (lower upper : list pt2) (height : T) : option polyhedron :=
    if negb (Nat.eqb (length lower) (length upper)) then None else
    match triangulate2d_rev lower, triangulate2d upper with
    | Some bot, Some top =>
        let n := Z.of_nat (length lower) in
        Some (map (fun p => pt2_as_pt3 p nzero) lower ++ map (fun p => pt2_as_pt3 p height) upper,
              triples bot 0 ++ triples top n ++ map (quad n 0 n) (nseq (length lower)))
    | _, _ => None
    end.

  Definition cylinder (radius height : T) (segments : Z) : option polyhedron :=
    match circle radius segments with Some c => linear_extrude c height | None => None end.

  Definition rotate_extrude (profile : list pt2) (degrees : T) (segments : Z) : option polyhedron :=
    if negb ((nzero <=? degrees) && (degrees <=? nofZ 360)) then None else
    if (segments <? 3)%Z then None else
    match triangulate2d profile, triangulate2d_rev profile with
    | Some start_cap, Some end_cap =>
        let not_closed := negb (degrees =? nofZ 360) in
        let n := Z.of_nat (length profile) in
        let a := degrees / nofZ segments in
        let ring (k : Z) : list pt3 :=
          let s := dsin (a * nofZ k) in let c := dcos (a * nofZ k) in
          map (fun p => Pt3 (x2 p * c) (x2 p * s) (y2 p)) profile in
        let ring0 := map (fun p => Pt3 (x2 p) nzero (y2 p)) profile in
        let mid := map (fun k => (k + 1)%Z) (nseq (Z.to_nat (segments - 1))) in          (* 1 .. segments-1 *)
        let pts := ring0 ++ flat_map ring mid ++ (if not_closed then ring segments else []) in
        let quads_mid := flat_map (fun k => map (quad_rev n ((k - 1) * n) (k * n)) (nseq (length profile))) mid in
        let faces :=
          (if not_closed then triples start_cap 0 else []) ++ quads_mid ++
          (if not_closed
           then map (quad_rev n ((segments - 1) * n) (segments * n)) (nseq (length profile)) ++ triples end_cap (segments * n)
           else map (quad_rev n ((segments - 1) * n) 0) (nseq (length profile))) in
        Some (pts, faces)
    | _, _ => None
    end.

  Definition nthp3 (l : list pt3) (i : Z) : pt3 := nth (Z.to_nat i) l (Pt3 nzero nzero nzero).
  Definition up_z : pt3 := Pt3 nzero nzero none_.

  (* the last ring of a sweep and the direction its cap is triangulated along (named so that theorems can refer to them) *)
  Definition sweep_twist_angle (path : list pt3) (twist_degrees : T) (closed : bool) : T :=
    let len := Z.of_nat (length path) in
    if closed then twist_degrees / nofZ len else twist_degrees / nofZ (len - 1).
  Definition sweep_last_points (profile : list pt2) (path : list pt3) (twist_degrees : T) (closed : bool) : list pt3 :=
    let len := Z.of_nat (length path) in
    let profile3 := map (fun p => pt2_as_pt3 p nzero) profile in
    let twist_angle := sweep_twist_angle path twist_degrees closed in
    let m_last := if closed then mt4_look_at_lh (nthp3 path (len - 2)) (nthp3 path 0) up_z
                  else mt4_look_at_lh (nthp3 path (len - 2)) (nthp3 path (len - 1)) up_z in
    map (fun p => pt3_add (pt4_as_pt3 (mt4_mul_pt4 m_last (pt3_as_pt4 (pt3_rotated_z p (twist_angle * nofZ (len - 1))) nzero)))
                          (nthp3 path (len - 1))) profile3.
  Definition sweep_end_normal (path : list pt3) : pt3 :=
    let len := Z.of_nat (length path) in pt3_sub (nthp3 path (len - 1)) (nthp3 path (len - 2)).

  Definition sweep (profile : list pt2) (path : list pt3) (twist_degrees : T) (closed : bool) : option polyhedron :=
    let n := Z.of_nat (length profile) in
    let len := Z.of_nat (length path) in
    if (len <? 2)%Z then None else
    let profile3 := map (fun p => pt2_as_pt3 p nzero) profile in
    let twist_angle := sweep_twist_angle path twist_degrees closed in
    let m0 := if closed then mt4_look_at_lh (nthp3 path (len - 1)) (nthp3 path 1) up_z
              else mt4_look_at_lh (nthp3 path 0) (nthp3 path 1) up_z in
    let ring0 := map (fun p => pt3_add (pt4_as_pt3 (mt4_mul_pt4 m0 (pt3_as_pt4 p none_))) (nthp3 path 0)) profile3 in
    let start_cap := if closed then Some [] else triangulate2d_rev profile in
    let mid := map (fun k => (k + 1)%Z) (nseq (Z.to_nat (len - 2))) in                     (* 1 .. len-2 *)
    let ring_mid (i : Z) : list pt3 :=
      let m := mt4_look_at_lh (nthp3 path (i - 1)) (nthp3 path (i + 1)) up_z in
      map (fun p => pt3_add (pt4_as_pt3 (mt4_mul_pt4 m (pt3_as_pt4 (pt3_rotated_z p (twist_angle * nofZ i)) nzero))) (nthp3 path i)) profile3 in
    let last_points := sweep_last_points profile path twist_degrees closed in
    let pts := ring0 ++ flat_map ring_mid mid ++ last_points in
    let quads (k : Z) := map (quad n ((k - 1) * n)%Z (k * n)%Z) (nseq (length profile)) in
    let end_faces :=
      if closed then Some (map (quad n ((len - 1) * n) 0) (nseq (length profile)))
      else match triangulate3d last_points (sweep_end_normal path) with
           | Some idx => Some (triples idx (Z.of_nat (length pts) - n))
           | None => None
           end in
    match start_cap, end_faces with
    | Some sc, Some ef => Some (pts, triples sc 0 ++ flat_map quads mid ++ quads (len - 1)%Z ++ ef)
    | _, _ => None
    end.

  (* Polyhedron transform methods: every point, faces untouched *)
  Definition poly_translate (ph : polyhedron) (v : pt3) : polyhedron := (pt3s_translate (fst ph) v, snd ph).
  Definition poly_rotate_x (ph : polyhedron) (deg : T) : polyhedron := (pt3s_rotate_x (fst ph) deg, snd ph).
  Definition poly_rotate_y (ph : polyhedron) (deg : T) : polyhedron := (pt3s_rotate_y (fst ph) deg, snd ph).
  Definition poly_rotate_z (ph : polyhedron) (deg : T) : polyhedron := (pt3s_rotate_z (fst ph) deg, snd ph).
  Definition poly_apply_matrix (ph : polyhedron) (m : mt4 T) : polyhedron := (pt3s_apply_matrix (fst ph) m, snd ph).
End Dim3.
