(* Geom/Rigid_volume.v -- moving a closed mesh rigidly changes neither its closedness (the faces are untouched) nor the
   signed volume its faces enclose: translation (for every mesh whose directed edges come in opposite pairs, i.e. every
   closed mesh), proper rotations (every mesh), rotations about the coordinate axes (every mesh). Hence a built
   polyhedron that is closed and outward stays so under Polyhedron::translate / rotate_x/y/z / apply_matrix with a
   proper rotation -- in particular every edge cylinder of the Viewer. Over R. (C04, C05, C18) *)
From Coq Require Import Reals ZArith List Bool Arith Lra Lia Nsatz.
From SCAD Require Import Base.Num Base.NumR Base.Trig_proofs Base.Vec Base.Mat Base.Vec_proofs Base.Rot_proofs Geom.Tri Geom.Tri_exact Geom.Dim3
  Geom.Mesh_proofs Geom.Mesh_exact Geom.Volume_proofs.
From SCAD Require Geom.Cyc.
Import ListNotations.
Local Open Scope R_scope.

(* ---- the directed edges of a face, as a list ---- *)
Fixpoint oedges (l : list Z) : list (Z * Z) := match l with a :: ((b :: _) as tl) => (a, b) :: oedges tl | _ => [] end.
Definition cedges (l : list Z) : list (Z * Z) := match l with [] => [] | a :: _ => oedges l ++ [(last l a, a)] end.
Definition aedges (F : list (list Z)) : list (Z * Z) := flat_map cedges F.

Lemma osum_edges_R (g : Z -> Z -> R) l : Cyc.osum Z R 0 Rplus g l = rsum (map (fun e => g (fst e) (snd e)) (oedges l)).
Proof.
  induction l as [|a l IH]; [reflexivity|]. destruct l as [|b l]; [reflexivity|].
  change (Cyc.osum Z R 0 Rplus g (a :: b :: l)) with (g a b + Cyc.osum Z R 0 Rplus g (b :: l)).
  change (oedges (a :: b :: l)) with ((a, b) :: oedges (b :: l)). cbn [map rsum fold_right fst snd]. rewrite IH. reflexivity.
Qed.
Lemma csum_edges_R (g : Z -> Z -> R) f : Cyc.csum Z R 0 Rplus g f = rsum (map (fun e => g (fst e) (snd e)) (cedges f)).
Proof.
  destruct f as [|a l]; [reflexivity|]. unfold Cyc.csum, cedges. rewrite osum_edges_R, map_app, rsum_app.
  cbn [map rsum fold_right fst snd]. ring.
Qed.
Lemma nsum_app a b : nsum (a ++ b) = (nsum a + nsum b)%nat.
Proof. induction a as [|x a IH]; [reflexivity|]. cbn [app nsum fold_right]. fold (nsum (a ++ b)) (nsum a). rewrite IH. lia. Qed.
Lemma osum_edges_N u v l : Cyc.osum Z nat 0%nat Nat.add (fun a b => ind a b u v) l = nsum (map (fun e => ind (fst e) (snd e) u v) (oedges l)).
Proof.
  induction l as [|a l IH]; [reflexivity|]. destruct l as [|b l]; [reflexivity|].
  change (Cyc.osum Z nat 0%nat Nat.add (fun a b => ind a b u v) (a :: b :: l)) with (ind a b u v + Cyc.osum Z nat 0%nat Nat.add (fun a b => ind a b u v) (b :: l))%nat.
  change (oedges (a :: b :: l)) with ((a, b) :: oedges (b :: l)). cbn [map nsum fold_right fst snd]. rewrite IH. reflexivity.
Qed.
Definition ecnt (u v : Z) (E : list (Z * Z)) : nat := nsum (map (fun e => ind (fst e) (snd e) u v) E).
Lemma fcnt_edges u v f : fcnt u v f = ecnt u v (cedges f).
Proof.
  destruct f as [|a l]; [reflexivity|]. unfold fcnt, Cyc.csum, cedges, ecnt. rewrite osum_edges_N, map_app, nsum_app.
  cbn [map nsum fold_right fst snd]. lia.
Qed.
Lemma mcnt_edges u v F : mcnt u v F = ecnt u v (aedges F).
Proof.
  induction F as [|f F IH]; [reflexivity|]. cbn [mcnt fold_right aedges flat_map]. fold (mcnt u v F) (aedges F).
  unfold ecnt in *. rewrite map_app, nsum_app, IH, fcnt_edges. reflexivity.
Qed.
Lemma wsum_edges (g : Z -> Z -> R) F :
  rsum (map (fun f => Cyc.csum Z R 0 Rplus g f) F) = rsum (map (fun e => g (fst e) (snd e)) (aedges F)).
Proof.
  induction F as [|f F IH]; [reflexivity|]. cbn [map rsum fold_right aedges flat_map]. fold (aedges F).
  rewrite map_app, rsum_app, <- IH, csum_edges_R. reflexivity.
Qed.
Lemma oedges_in l e : In e (oedges l) -> In (fst e) l /\ In (snd e) l.
Proof.
  induction l as [|a l IH]; [contradiction|]. destruct l as [|b l]; [contradiction|].
  change (oedges (a :: b :: l)) with ((a, b) :: oedges (b :: l)). intros [<-|H].
  - cbn. tauto.
  - destruct (IH H) as [H1 H2]. split; right; assumption.
Qed.
Lemma last_in {A} (l : list A) a : In (last (a :: l) a) (a :: l).
Proof. revert a. induction l as [|b l IH]; intros a; [left; reflexivity|]. right. change (last (a :: b :: l) a) with (last (b :: l) a). rewrite (Cyc.last_indep _ l b a b). apply IH. Qed.
Lemma cedges_in f e : In e (cedges f) -> In (fst e) f /\ In (snd e) f.
Proof.
  destruct f as [|a l]; [contradiction|]. unfold cedges. intros H. apply in_app_or in H as [H|[<-|[]]].
  - apply oedges_in, H.
  - cbn [fst snd]. split; [apply last_in|left; reflexivity].
Qed.

(* ---- sums over pairs of indices ---- *)
Definition pairsum (U : list Z) (h : Z -> Z -> R) : R := rsum (map (fun u => rsum (map (h u) U)) U).
Lemma rsum_map_add {A} (f g : A -> R) l : rsum (map (fun x => f x + g x) l) = rsum (map f l) + rsum (map g l).
Proof. induction l as [|x l IH]; [cbn; ring|]. cbn [map rsum fold_right]. fold (rsum (map (fun x => f x + g x) l)) (rsum (map f l)) (rsum (map g l)). rewrite IH. ring. Qed.
Lemma rsum_swap {A B} (h : A -> B -> R) (l1 : list A) (l2 : list B) :
  rsum (map (fun u => rsum (map (h u) l2)) l1) = rsum (map (fun v => rsum (map (fun u => h u v) l1)) l2).
Proof.
  induction l1 as [|a l1 IH].
  - cbn [map rsum fold_right]. symmetry. apply rsum_map_zero. reflexivity.
  - cbn [map rsum fold_right]. fold (rsum (map (fun u => rsum (map (h u) l2)) l1)). rewrite IH.
    rewrite <- rsum_map_add. reflexivity.
Qed.
Lemma pairsum_swap U h : pairsum U (fun u v => h v u) = pairsum U h.
Proof. unfold pairsum. rewrite rsum_swap. reflexivity. Qed.
Lemma pairsum_add U h k : pairsum U (fun u v => h u v + k u v) = pairsum U h + pairsum U k.
Proof.
  unfold pairsum. rewrite <- rsum_map_add. apply rsum_map_ext_in. intros u _. apply rsum_map_add.
Qed.
Lemma pairsum_ext U h k : (forall u v, In u U -> In v U -> h u v = k u v) -> pairsum U h = pairsum U k.
Proof. intros H. unfold pairsum. apply rsum_map_ext_in. intros u Hu. apply rsum_map_ext_in. intros v Hv. apply H; assumption. Qed.
Lemma pairsum_zero U h : (forall u v, In u U -> In v U -> h u v = 0) -> pairsum U h = 0.
Proof. intros H. unfold pairsum. apply rsum_map_zero. intros u Hu. apply rsum_map_zero. intros v Hv. apply H; assumption. Qed.

(* a sum that is hit at exactly one index *)
Lemma rsum_pick_none (U : list Z) b (g : Z -> R) : ~ In b U -> rsum (map (fun v => if Z.eqb v b then g v else 0) U) = 0.
Proof. intros H. apply rsum_map_zero. intros v Hv. destruct (Z.eqb_spec v b) as [->|]; [contradiction|reflexivity]. Qed.
Lemma rsum_pick (U : list Z) b (g : Z -> R) : NoDup U -> In b U -> rsum (map (fun v => if Z.eqb v b then g v else 0) U) = g b.
Proof.
  induction U as [|a U IH]; intros Hnd Hin; [contradiction|]. inversion Hnd as [|? ? Hn Hnd']; subst.
  cbn [map rsum fold_right]. fold (rsum (map (fun v => if Z.eqb v b then g v else 0) U)).
  destruct (Z.eqb_spec a b) as [->|Hne].
  - rewrite rsum_pick_none by assumption. ring.
  - destruct Hin as [E|Hin]; [contradiction|]. rewrite IH by assumption. ring.
Qed.
Lemma ind_pick U (w : Z -> Z -> R) a b : NoDup U -> In a U -> In b U ->
  pairsum U (fun u v => INR (ind a b u v) * w u v) = w a b.
Proof.
  intros Hnd Ha Hb.
  rewrite (pairsum_ext U _ (fun u v => if Z.eqb u a then (if Z.eqb v b then w u v else 0) else 0)).
  2:{ intros u v _ _. unfold ind. rewrite (Z.eqb_sym a u), (Z.eqb_sym b v).
      destruct (Z.eqb u a), (Z.eqb v b); cbn [andb INR]; ring. }
  unfold pairsum.
  rewrite (rsum_map_ext_in _ (fun u => if Z.eqb u a then w u b else 0)).
  - apply (rsum_pick U a (fun u => w u b) Hnd Ha).
  - intros u Hu. destruct (Z.eqb u a).
    + apply (rsum_pick U b (w u) Hnd Hb).
    + apply rsum_map_zero. reflexivity.
Qed.

(* a sum over a list of directed edges, regrouped by pair of end points *)
Lemma edges_pairsum U (w : Z -> Z -> R) E : NoDup U -> (forall e, In e E -> In (fst e) U /\ In (snd e) U) ->
  rsum (map (fun e => w (fst e) (snd e)) E) = pairsum U (fun u v => INR (ecnt u v E) * w u v).
Proof.
  intros Hnd. induction E as [|e E IH]; intros HE.
  - cbn [map rsum fold_right]. symmetry. apply pairsum_zero. intros u v _ _. unfold ecnt. cbn. ring.
  - cbn [map rsum fold_right]. fold (rsum (map (fun e => w (fst e) (snd e)) E)).
    rewrite IH by (intros e' He'; apply HE; right; exact He').
    destruct (HE e (or_introl eq_refl)) as [H1 H2].
    rewrite <- (ind_pick U w (fst e) (snd e) Hnd H1 H2), <- pairsum_add. apply pairsum_ext. intros u v _ _.
    unfold ecnt. cbn [map nsum fold_right]. fold (nsum (map (fun e0 => ind (fst e0) (snd e0) u v) E)). rewrite plus_INR. ring.
Qed.
Lemma sym_antisym_zero U (c w : Z -> Z -> R) : (forall u v, c u v = c v u) -> (forall u v, w u v = - w v u) ->
  pairsum U (fun u v => c u v * w u v) = 0.
Proof.
  intros Hc Hw. set (h := fun u v => c u v * w u v).
  assert (H2 : pairsum U h + pairsum U (fun u v => h v u) = 0).
  { rewrite <- pairsum_add. apply pairsum_zero. intros u v _ _. unfold h. rewrite (Hc v u), (Hw v u). ring. }
  rewrite (pairsum_swap U h) in H2. lra.
Qed.

Definition zrange (n : nat) : list Z := map Z.of_nat (seq 0 n).
Lemma zrange_nodup n : NoDup (zrange n).
Proof. unfold zrange. apply FinFun.Injective_map_NoDup; [intros a b H; lia|apply seq_NoDup]. Qed.
Lemma zrange_in n i : (0 <= i < Z.of_nat n)%Z -> In i (zrange n).
Proof. intros H. unfold zrange. apply in_map_iff. exists (Z.to_nat i). split; [lia|]. apply in_seq. lia. Qed.

(* in a mesh whose directed edges come in opposite pairs, every antisymmetric edge weight sums to zero *)
Theorem paired_edges_cancel (F : list (list Z)) (n : nat) (w : Z -> Z -> R) :
  Forall (Forall (fun i => (0 <= i < Z.of_nat n)%Z)) F -> (forall u v, mcnt u v F = mcnt v u F) -> (forall u v, w u v = - w v u) ->
  rsum (map (fun f => Cyc.csum Z R 0 Rplus w f) F) = 0.
Proof.
  intros Hr Hm Hw. rewrite wsum_edges.
  rewrite (edges_pairsum (zrange n) w (aedges F) (zrange_nodup n)).
  - apply sym_antisym_zero; [|exact Hw]. intros u v. rewrite <- !mcnt_edges, Hm. reflexivity.
  - intros e He. unfold aedges in He. apply in_flat_map in He as [f [Hf He]]. destruct (cedges_in f e He) as [H1 H2].
    rewrite Forall_forall in Hr. specialize (Hr f Hf). rewrite Forall_forall in Hr. split; apply zrange_in, Hr; assumption.
Qed.

(* ---- translation ---- *)
Lemma det3_translate (t a b c : V3) :
  det3 (pt3_add a t) (pt3_add b t) (pt3_add c t) = det3 a b c + (det3 t a b + det3 t b c + det3 t c a).
Proof. destruct t as [tx ty tz], a as [ax ay az], b as [bx by_ bz], c as [cx cy cz]. unfold det3, pt3_add. cbn [x3 y3 z3 nadd NumR]. ring. Qed.
Lemma det3_t_antisym (t a b : V3) : det3 t a b = - det3 t b a.
Proof. destruct t as [tx ty tz], a as [ax ay az], b as [bx by_ bz]. unfold det3. cbn [x3 y3 z3]. ring. Qed.

Section Translate.
  Variables (vs vs' : list V3) (t : V3).
  Let Dz (u v : Z) : R := det3 t (ptz vs u) (ptz vs v).
  Lemma fan_translate a b tl : (forall i, In i (a :: b :: tl) -> ptz vs' i = pt3_add (ptz vs i) t) ->
    fan vs' a (b :: tl) = fan vs a (b :: tl) + Cyc.osum Z R 0 Rplus Dz (b :: tl) + Dz a b - Dz a (last (b :: tl) b).
  Proof.
    revert b. induction tl as [|c tl IH]; intros b Hin.
    - cbn [fan Cyc.osum last]. ring.
    - change (fan vs' a (b :: c :: tl)) with (det3 (ptz vs' a) (ptz vs' b) (ptz vs' c) + fan vs' a (c :: tl)).
      change (fan vs a (b :: c :: tl)) with (det3 (ptz vs a) (ptz vs b) (ptz vs c) + fan vs a (c :: tl)).
      change (Cyc.osum Z R 0 Rplus Dz (b :: c :: tl)) with (Dz b c + Cyc.osum Z R 0 Rplus Dz (c :: tl)).
      change (last (b :: c :: tl) b) with (last (c :: tl) b). rewrite (Cyc.last_indep _ tl c b c).
      rewrite (IH c) by (intros i [Hi|Hi]; apply Hin; [left; exact Hi|right; right; exact Hi]).
      rewrite (Hin a), (Hin b), (Hin c) by (cbn; tauto). rewrite det3_translate.
      unfold Dz. rewrite (det3_t_antisym t (ptz vs c) (ptz vs a)). ring.
  Qed.
  Lemma face_translate f : (forall i, In i f -> ptz vs' i = pt3_add (ptz vs i) t) ->
    face_vol6 vs' f = face_vol6 vs f + Cyc.csum Z R 0 Rplus Dz f.
  Proof.
    destruct f as [|a rest]; intros Hin; [cbn; ring|]. destruct rest as [|b tl].
    - cbn [face_vol6 fan Cyc.csum Cyc.osum last]. unfold Dz. destruct t as [tx ty tz], (ptz vs a) as [ax ay az]. unfold det3. cbn [x3 y3 z3]. ring.
    - unfold face_vol6. rewrite (fan_translate a b tl Hin). unfold Cyc.csum.
      change (Cyc.osum Z R 0 Rplus Dz (a :: b :: tl)) with (Dz a b + Cyc.osum Z R 0 Rplus Dz (b :: tl)).
      change (last (a :: b :: tl) a) with (last (b :: tl) a). rewrite (Cyc.last_indep _ tl b a b).
      unfold Dz. rewrite (det3_t_antisym t (ptz vs (last (b :: tl) b)) (ptz vs a)). ring.
  Qed.
End Translate.

Theorem vol6_translate (vs : list V3) (t : V3) (F : list (list Z)) :
  Forall (Forall (fun i => (0 <= i < Z.of_nat (length vs))%Z)) F -> (forall u v, mcnt u v F = mcnt v u F) ->
  vol6 (pt3s_translate vs t) F = vol6 vs F.
Proof.
  intros Hr Hm.
  assert (Hpt : forall i, (0 <= i < Z.of_nat (length vs))%Z -> ptz (pt3s_translate vs t) i = pt3_add (ptz vs i) t).
  { intros i Hi. unfold ptz, pt3s_translate. rewrite (nth_indep _ _ (pt3_add (Pt3 0 0 0) t)) by (rewrite map_length; lia).
    apply (map_nth (fun q => pt3_add q t)). }
  assert (G : vol6 (pt3s_translate vs t) F = vol6 vs F + rsum (map (fun f => Cyc.csum Z R 0 Rplus (fun u v => det3 t (ptz vs u) (ptz vs v)) f) F)).
  { clear Hm. induction F as [|f F IH]; [cbn; ring|]. inversion Hr as [|? ? Hf HF]; subst.
    cbn [vol6 fold_right map rsum]. fold (vol6 (pt3s_translate vs t) F) (vol6 vs F).
    fold (rsum (map (fun f => Cyc.csum Z R 0 Rplus (fun u v => det3 t (ptz vs u) (ptz vs v)) f) F)).
    rewrite (IH HF). rewrite (face_translate vs (pt3s_translate vs t) t f).
    - ring.
    - intros i Hi. apply Hpt. rewrite Forall_forall in Hf. apply Hf, Hi. }
  rewrite G. rewrite (paired_edges_cancel F (length vs)); [ring|exact Hr|exact Hm|]. intros u v. apply det3_t_antisym.
Qed.

(* ---- maps that scale every determinant by the same factor ---- *)
Theorem vol6_linear (L : V3 -> V3) (k : R) (vs : list V3) (F : list (list Z)) : L (Pt3 0 0 0) = Pt3 0 0 0 ->
  (forall a b c, det3 (L a) (L b) (L c) = k * det3 a b c) -> vol6 (map L vs) F = k * vol6 vs F.
Proof.
  intros L0 Hd.
  assert (Hpt : forall i, ptz (map L vs) i = L (ptz vs i)) by (intros i; unfold ptz; rewrite <- L0 at 1; apply map_nth).
  assert (Hfan : forall a l, fan (map L vs) a l = k * fan vs a l).
  { intros a l. induction l as [|b l IH]; [cbn; ring|]. destruct l as [|c l]; [cbn; ring|].
    change (fan (map L vs) a (b :: c :: l)) with (det3 (ptz (map L vs) a) (ptz (map L vs) b) (ptz (map L vs) c) + fan (map L vs) a (c :: l)).
    change (fan vs a (b :: c :: l)) with (det3 (ptz vs a) (ptz vs b) (ptz vs c) + fan vs a (c :: l)).
    rewrite IH, !Hpt, Hd. ring. }
  induction F as [|f F IH]; [cbn; ring|]. cbn [vol6 fold_right]. fold (vol6 (map L vs) F) (vol6 vs F). rewrite IH.
  destruct f as [|a rest]; [cbn; ring|]. unfold face_vol6. rewrite Hfan. ring.
Qed.

Lemma acts_zero (m : mt4 R) : acts m (Pt3 0 0 0) = Pt3 0 0 0.
Proof. destruct m as [[a1 a2 a3 a4] [b1 b2 b3 b4] [c1 c2 c3 c4] [d1 d2 d3 d4]]. unfold acts. rred. f_equal; ring. Qed.
Lemma det3_proper (m : mt4 R) a b c : proper_rotation m -> det3 (acts m a) (acts m b) (acts m c) = det3 a b c.
Proof.
  intros [_ Hdet]. destruct m as [[a1 a2 a3 a4] [b1 b2 b3 b4] [c1 c2 c3 c4] [d1 d2 d3 d4]], a as [ax ay az], b as [bx by_ bz], c as [cx cy cz].
  revert Hdet. unfold acts, det3. rred. cbn [x3 y3 z3]. intros Hdet.
  match type of Hdet with ?p = 1 => transitivity (p * (ax * (by_ * cz - bz * cy) - ay * (bx * cz - bz * cx) + az * (bx * cy - by_ * cx))); [ring|rewrite Hdet; ring] end.
Qed.
Theorem vol6_proper_rotation (m : mt4 R) (vs : list V3) F : proper_rotation m -> vol6 (map (acts m) vs) F = vol6 vs F.
Proof. intros Hp. rewrite (vol6_linear (acts m) 1); [ring|apply acts_zero|]. intros a b c. rewrite (det3_proper m a b c Hp). ring. Qed.

Lemma det3_rotated_x a b c ang : det3 (pt3_rotated_x a ang) (pt3_rotated_x b ang) (pt3_rotated_x c ang) = det3 a b c.
Proof.
  pose proof (dsin2_dcos2 ang) as H. destruct a as [ax ay az], b as [bx by_ bz], c as [cx cy cz]. unfold det3, pt3_rotated_x. cbn [x3 y3 z3 nmul nsub nadd NumR].
  revert H. generalize (dsin ang) (dcos ang). intros s c H. nsatz.
Qed.
Lemma det3_rotated_y a b c ang : det3 (pt3_rotated_y a ang) (pt3_rotated_y b ang) (pt3_rotated_y c ang) = det3 a b c.
Proof.
  pose proof (dsin2_dcos2 ang) as H. destruct a as [ax ay az], b as [bx by_ bz], c as [cx cy cz]. unfold det3, pt3_rotated_y. cbn [x3 y3 z3 nmul nsub nadd NumR].
  revert H. generalize (dsin ang) (dcos ang). intros s c H. nsatz.
Qed.
Lemma det3_rotated_z a b c ang : det3 (pt3_rotated_z a ang) (pt3_rotated_z b ang) (pt3_rotated_z c ang) = det3 a b c.
Proof.
  pose proof (dsin2_dcos2 ang) as H. destruct a as [ax ay az], b as [bx by_ bz], c as [cx cy cz]. unfold det3, pt3_rotated_z. cbn [x3 y3 z3 nmul nsub nadd NumR].
  revert H. generalize (dsin ang) (dcos ang). intros s c H. nsatz.
Qed.
Lemma rotated_zero ang : pt3_rotated_x (Pt3 0 0 0 : V3) ang = Pt3 0 0 0 /\ pt3_rotated_y (Pt3 0 0 0 : V3) ang = Pt3 0 0 0 /\ pt3_rotated_z (Pt3 0 0 0 : V3) ang = Pt3 0 0 0.
Proof. unfold pt3_rotated_x, pt3_rotated_y, pt3_rotated_z. cbn [x3 y3 z3 nmul nsub nadd NumR]. repeat split; f_equal; ring. Qed.

(* ---- the Polyhedron transform methods ---- *)
Definition paired (F : list (list Z)) : Prop := forall u v, mcnt u v F = mcnt v u F.
Definition in_range (ph : @polyhedron R) : Prop := Forall (Forall (fun i => (0 <= i < Z.of_nat (length (fst ph)))%Z)) (snd ph).

Theorem transforms_keep_volume (ph : @polyhedron R) :
  (forall v, in_range ph -> paired (snd ph) -> vol6 (fst (poly_translate ph v)) (snd (poly_translate ph v)) = vol6 (fst ph) (snd ph)) /\
  (forall a, vol6 (fst (poly_rotate_x ph a)) (snd (poly_rotate_x ph a)) = vol6 (fst ph) (snd ph)) /\
  (forall a, vol6 (fst (poly_rotate_y ph a)) (snd (poly_rotate_y ph a)) = vol6 (fst ph) (snd ph)) /\
  (forall a, vol6 (fst (poly_rotate_z ph a)) (snd (poly_rotate_z ph a)) = vol6 (fst ph) (snd ph)).
Proof.
  destruct ph as [vs F]. cbn [fst snd poly_translate poly_rotate_x poly_rotate_y poly_rotate_z]. split; [|split; [|split]].
  - intros v Hr Hp. apply vol6_translate; assumption.
  - intros a. unfold pt3s_rotate_x, pt3_rotate_x. rewrite (vol6_linear (fun q => pt3_rotated_x q a) 1); [ring|apply rotated_zero|].
    intros p q r. rewrite det3_rotated_x. ring.
  - intros a. unfold pt3s_rotate_y, pt3_rotate_y. rewrite (vol6_linear (fun q => pt3_rotated_y q a) 1); [ring|apply rotated_zero|].
    intros p q r. rewrite det3_rotated_y. ring.
  - intros a. unfold pt3s_rotate_z, pt3_rotate_z. rewrite (vol6_linear (fun q => pt3_rotated_z q a) 1); [ring|apply rotated_zero|].
    intros p q r. rewrite det3_rotated_z. ring.
Qed.
