(* Geom/Dim2.v -- mirror of scad_tree/src/dim2.rs (profiles, Bezier curves and chains) and of the
   3D Bezier functions of dim3.rs. No proofs here. *)
From Coq Require Import ZArith List.
From SCAD Require Import Base.Num Base.Vec.
Import ListNotations.
Local Open Scope num_scope.

Section Dim2.
  Context {T : Type} `{Num T}.
  Notation pt2 := (pt2 T). Notation pt3 := (pt3 T).

  Definition zseq (n : Z) : list Z := map Z.of_nat (seq 0 (Z.to_nat n)).   (* 0 .. n-1 *)

  (* pub fn arc(start, degrees, segments); None = the assert!(degrees <= 360.0) fails *)
  Definition arc (start : pt2) (degrees : T) (segments : Z) : option (list pt2) :=
    if degrees <=? nofZ 360 then
      let n_pts := if degrees =? nofZ 360 then segments else (segments + 1)%Z in
      Some (map (fun i => pt2_rotated start ((nofZ i * (- degrees)) / nofZ segments)) (zseq n_pts))
    else None.
  Definition circle (radius : T) (segments : Z) := arc (Pt2 radius nzero) (nofZ 360) segments.
  Definition inscribed_polygon (n_sides : Z) (radius : T) := circle radius n_sides.
  Definition circumscribed_polygon (n_sides : Z) (radius : T) :=
    inscribed_polygon n_sides (radius / dcos (nofZ 180 / nofZ n_sides)).

  Definition rounded_rect (width height radius : T) (segments : Z) (center : bool) : option (list pt2) :=
    match arc (Pt2 nzero radius) (nofZ 90) segments, arc (Pt2 radius nzero) (nofZ 90) segments,
          arc (Pt2 (- nzero) (- radius)) (nofZ 90) segments, arc (Pt2 (- radius) nzero) (nofZ 90) segments with
    | Some tr, Some br, Some bl, Some tl =>
        let tr := pt2s_translate tr (Pt2 (width - radius) (height - radius)) in
        let br := pt2s_translate br (Pt2 (width - radius) radius) in
        let bl := pt2s_translate bl (Pt2 radius radius) in
        let tl := pt2s_translate tl (Pt2 radius (height - radius)) in
        let all := tr ++ br ++ bl ++ tl in
        Some (if center then pt2s_translate all (Pt2 ((- width) / ntwo) ((- height) / ntwo)) else all)
    | _, _, _, _ => None
    end.

  Definition chamfer (size oversize : T) : list pt2 :=
    [ Pt2 nzero (size + oversize); Pt2 oversize (size + oversize); Pt2 oversize size; Pt2 size oversize;
      Pt2 (size + oversize) oversize; Pt2 (oversize + size) nzero; Pt2 nzero nzero ].

  Definition bez_ts (segments : Z) : list T :=
    let delta := none_ / nofZ segments in map (fun i => nofZ i * delta) (zseq (segments + 1)).

  Definition quadratic_point (s c e : pt2) (t : T) : pt2 :=
    pt2_add (pt2_add (pt2_mul (pt2_mul s (none_ - t)) (none_ - t)) (pt2_mul (pt2_mul (pt2_mul c t) (none_ - t)) ntwo))
            (pt2_mul (pt2_mul e t) t).
  Definition quadratic_bezier (s c e : pt2) (segments : Z) : list pt2 := map (quadratic_point s c e) (bez_ts segments).

  Definition cubic_point (s c1 c2 e : pt2) (t : T) : pt2 :=
    pt2_add (pt2_add (pt2_add
      (pt2_mul (pt2_mul (pt2_mul s (none_ - t)) (none_ - t)) (none_ - t))
      (pt2_mul (pt2_mul (pt2_mul (pt2_mul c1 t) (none_ - t)) (none_ - t)) nthree))
      (pt2_mul (pt2_mul (pt2_mul (pt2_mul c2 t) t) (none_ - t)) nthree))
      (pt2_mul (pt2_mul (pt2_mul e t) t) t).
  Definition cubic_bezier (s c1 c2 e : pt2) (segments : Z) : list pt2 := map (cubic_point s c1 c2 e) (bez_ts segments).

  (* 3D versions (dim3.rs) *)
  Definition quadratic_point3 (s c e : pt3) (t : T) : pt3 :=
    pt3_add (pt3_add (pt3_mul (pt3_mul s (none_ - t)) (none_ - t)) (pt3_mul (pt3_mul (pt3_mul c t) (none_ - t)) ntwo))
            (pt3_mul (pt3_mul e t) t).
  Definition quadratic_bezier3 (s c e : pt3) (segments : Z) : list pt3 := map (quadratic_point3 s c e) (bez_ts segments).
  Definition cubic_point3 (s c1 c2 e : pt3) (t : T) : pt3 :=
    pt3_add (pt3_add (pt3_add
      (pt3_mul (pt3_mul (pt3_mul s (none_ - t)) (none_ - t)) (none_ - t))
      (pt3_mul (pt3_mul (pt3_mul (pt3_mul c1 t) (none_ - t)) (none_ - t)) nthree))
      (pt3_mul (pt3_mul (pt3_mul (pt3_mul c2 t) t) (none_ - t)) nthree))
      (pt3_mul (pt3_mul (pt3_mul e t) t) t).
  Definition cubic_bezier3 (s c1 c2 e : pt3) (segments : Z) : list pt3 := map (cubic_point3 s c1 c2 e) (bez_ts segments).

  Definition star (n_points : Z) (inner outer : T) : list pt2 :=
    let angle := (- nofZ 360) / nofZ n_points in
    flat_map (fun i =>
      [ Pt2 (dcos (angle * nofZ i) * inner) (dsin (angle * nofZ i) * inner);
        Pt2 (dcos (angle * (nofZ i + nlit 1 2)) * outer) (dsin (angle * (nofZ i + nlit 1 2)) * outer) ]) (zseq n_points).

  (* ---- CubicBezierChain2D ---- *)
  Record curve2 := Curve2 { c_start : pt2; c_control1 : pt2; c_control2 : pt2; c_end : pt2; c_segments : Z }.
  Record chain2 := Chain2 { ch_curves : list curve2; ch_closed : bool }.
  Definition dummy_curve2 : curve2 := Curve2 (Pt2 nzero nzero) (Pt2 nzero nzero) (Pt2 nzero nzero) (Pt2 nzero nzero) 0.

  Definition chain2_new (s c1 c2 e : pt2) (segments : Z) : chain2 := Chain2 [Curve2 s c1 c2 e segments] false.
  Definition handle (e c2 : pt2) (len : T) : pt2 := pt2_add e (pt2_mul (pt2_normalized (pt2_sub e c2)) len).
  Definition chain2_add (ch : chain2) (control1_length : T) (control2 e : pt2) (segments : Z) : chain2 :=
    let last_c := last (ch_curves ch) dummy_curve2 in
    Chain2 (ch_curves ch ++ [Curve2 (c_end last_c) (handle (c_end last_c) (c_control2 last_c) control1_length) control2 e segments])
           (ch_closed ch).
  Definition chain2_close (ch : chain2) (control1_length : T) (control2 : pt2) (start_control1_len : T) (segments : Z) : chain2 :=
    let first_c := hd dummy_curve2 (ch_curves ch) in
    let ch1 := chain2_add (Chain2 (ch_curves ch) true) control1_length control2 (c_start first_c) segments in
    let last_c := last (ch_curves ch1) dummy_curve2 in
    match ch_curves ch1 with
    | f :: rest => Chain2 (Curve2 (c_start f) (handle (c_end last_c) (c_control2 last_c) start_control1_len)
                                  (c_control2 f) (c_end f) (c_segments f) :: rest) true
    | [] => ch1
    end.
  (* gen_points: pop, append each curve; pop once more when closed *)
  Definition chain2_points (ch : chain2) : list pt2 :=
    let pts := fold_left (fun acc c => removelast acc ++ cubic_bezier (c_start c) (c_control1 c) (c_control2 c) (c_end c) (c_segments c))
                         (ch_curves ch) [Pt2 nzero nzero] in
    if ch_closed ch then removelast pts else pts.

  (* bezier_star / BezierStar::new: the two construction paths, mirrored separately *)
  Definition star_knots (n_points : Z) (inner outer : T) : list pt2 :=
    let angle := (- nofZ 360) / nofZ n_points in
    flat_map (fun i =>
      [ Pt2 (dcos (angle * nofZ i) * outer) (dsin (angle * nofZ i) * outer);
        Pt2 (dcos (angle * (nofZ i + nlit 1 2)) * inner) (dsin (angle * (nofZ i + nlit 1 2)) * inner) ]) (zseq n_points).
  Definition nthp (l : list pt2) (i : Z) : pt2 := nth (Z.to_nat i) l (Pt2 nzero nzero).
  Definition star_controls (knots : list pt2) (ihl ohl : T) : list pt2 :=
    let n := Z.of_nat (length knots) in
    map (fun i => pt2_sub (nthp knots ((i + 1) mod n))
                    (pt2_mul (pt2_normalized (pt2_sub (nthp knots ((i + 2) mod n)) (nthp knots i)))
                             (if Z.even i then ihl else ohl))) (zseq n).
  Definition star_chain (first_handle_for_even : bool) (n_points : Z) (inner ihl outer ohl : T) (segments : Z) : chain2 :=
    let knots := star_knots n_points inner outer in
    let controls := star_controls knots ihl ohl in
    let n := Z.of_nat (length knots) in
    let ch0 := chain2_new (nthp knots 0) (nthp controls 0) (nthp controls 0) (nthp knots 1) segments in
    let ch1 := fold_left (fun ch i => chain2_add ch (if Z.even i then ohl else ihl) (nthp controls i) (nthp knots (i + 1)) segments)
                         (map (fun k => (k + 1)%Z) (zseq (n - 2))) ch0 in
    chain2_close ch1 ihl (nthp controls (n - 1)) ohl segments.
  Definition bezier_star (n_points : Z) (inner ihl outer ohl : T) (segments : Z) : list pt2 :=
    chain2_points (star_chain true n_points inner ihl outer ohl segments).
  Definition bezier_star_struct (n_points : Z) (inner ihl outer ohl : T) (segments : Z) : chain2 :=
    star_chain true n_points inner ihl outer ohl segments.

  (* ---- CubicBezierChain3D ---- *)
  Record curve3 := Curve3 { d_start : pt3; d_control1 : pt3; d_control2 : pt3; d_end : pt3; d_segments : Z }.
  Record chain3 := Chain3 { dh_curves : list curve3; dh_closed : bool }.
  Definition z3p : pt3 := Pt3 nzero nzero nzero.
  Definition dummy_curve3 : curve3 := Curve3 z3p z3p z3p z3p 0.
  Definition chain3_new (s c1 c2 e : pt3) (segments : Z) : chain3 := Chain3 [Curve3 s c1 c2 e segments] false.
  Definition handle3 (e c2 : pt3) (len : T) : pt3 := pt3_add e (pt3_mul (pt3_normalized (pt3_sub e c2)) len).
  Definition chain3_add (ch : chain3) (control1_length : T) (control2 e : pt3) (segments : Z) : chain3 :=
    let last_c := last (dh_curves ch) dummy_curve3 in
    Chain3 (dh_curves ch ++ [Curve3 (d_end last_c) (handle3 (d_end last_c) (d_control2 last_c) control1_length) control2 e segments])
           (dh_closed ch).
  Definition chain3_close (ch : chain3) (control1_length : T) (control2 : pt3) (start_control1_len : T) (segments : Z) : chain3 :=
    let first_c := hd dummy_curve3 (dh_curves ch) in
    let ch1 := chain3_add (Chain3 (dh_curves ch) true) control1_length control2 (d_start first_c) segments in
    let last_c := last (dh_curves ch1) dummy_curve3 in
    match dh_curves ch1 with
    | f :: rest => Chain3 (Curve3 (d_start f) (handle3 (d_end last_c) (d_control2 last_c) start_control1_len)
                                  (d_control2 f) (d_end f) (d_segments f) :: rest) true
    | [] => ch1
    end.
  Definition chain3_points (ch : chain3) : list pt3 :=
    let pts := fold_left (fun acc c => removelast acc ++ cubic_bezier3 (d_start c) (d_control1 c) (d_control2 c) (d_end c) (d_segments c))
                         (dh_curves ch) [z3p] in
    if dh_closed ch then removelast pts else pts.
End Dim2.
