(* Geom/Mesh_exact.v -- the exact form of closedness for linear_extrude / loft / cylinder: every directed edge is used by
   at most one face, and by exactly as many faces as its reverse. Axiom-free, generic in the number type. *)
From Coq Require Import ZArith List Bool Arith Lia FinFun.
From SCAD Require Import Base.Num Base.Vec Geom.Tri Geom.Tri_proofs Geom.Tri_exact Geom.Dim3 Geom.Mesh_proofs Geom.Tri_tiling.
From SCAD Require Geom.Cyc.
Import ListNotations.
Local Open Scope Z_scope.

(* ---- counting directed edge uses of faces (in nat) ---- *)
Definition fcnt (u v : Z) (f : list Z) : nat := Cyc.csum Z nat 0%nat Nat.add (fun a b => ind a b u v) f.
Definition mcnt (u v : Z) (F : list (list Z)) : nat := fold_right (fun f s => (fcnt u v f + s)%nat) 0%nat F.
Lemma mcnt_app u v F G : mcnt u v (F ++ G) = (mcnt u v F + mcnt u v G)%nat.
Proof. induction F as [|f F IH]; [reflexivity|]. cbn [app mcnt fold_right]. fold (mcnt u v (F ++ G)) (mcnt u v F). rewrite IH. lia. Qed.
Lemma ind_dirz a b u v : dirz u v a b = Z.of_nat (ind a b u v) - Z.of_nat (ind a b v u).
Proof. unfold dirz, ind. destruct (Z.eqb a u && Z.eqb b v), (Z.eqb a v && Z.eqb b u); reflexivity. Qed.
Lemma osum_cnt u v (l : list Z) :
  Cyc.osum Z Z 0 Z.add (dirz u v) l =
  Z.of_nat (Cyc.osum Z nat 0%nat Nat.add (fun a b => ind a b u v) l) - Z.of_nat (Cyc.osum Z nat 0%nat Nat.add (fun a b => ind a b v u) l).
Proof.
  induction l as [|a l IH]; [reflexivity|]. destruct l as [|b l]; [reflexivity|].
  change (Cyc.osum Z Z 0 Z.add (dirz u v) (a :: b :: l)) with (dirz u v a b + Cyc.osum Z Z 0 Z.add (dirz u v) (b :: l)).
  change (Cyc.osum Z nat 0%nat Nat.add (fun a b => ind a b u v) (a :: b :: l)) with (ind a b u v + Cyc.osum Z nat 0%nat Nat.add (fun a b => ind a b u v) (b :: l))%nat.
  change (Cyc.osum Z nat 0%nat Nat.add (fun a b => ind a b v u) (a :: b :: l)) with (ind a b v u + Cyc.osum Z nat 0%nat Nat.add (fun a b => ind a b v u) (b :: l))%nat.
  rewrite IH, ind_dirz. lia.
Qed.
Lemma fnet_cnt u v f : fnet u v f = Z.of_nat (fcnt u v f) - Z.of_nat (fcnt v u f).
Proof. destruct f as [|a l]; [reflexivity|]. unfold fnet, fcnt, Cyc.csum. rewrite osum_cnt, ind_dirz. lia. Qed.
Lemma mnet_cnt u v F : mnet u v F = Z.of_nat (mcnt u v F) - Z.of_nat (mcnt v u F).
Proof.
  unfold mnet. induction F as [|f F IH]; [reflexivity|]. cbn [map zsum fold_right mcnt]. fold (zsum (map (fnet u v) F)) (mcnt u v F) (mcnt v u F).
  rewrite IH, fnet_cnt. lia.
Qed.

Lemma ind_shift a b u v off : ind (a + off) (b + off) u v = ind a b (u - off) (v - off).
Proof.
  unfold ind.
  replace (Z.eqb (a + off) u) with (Z.eqb a (u - off)) by (destruct (Z.eqb_spec a (u - off)), (Z.eqb_spec (a + off) u); lia).
  replace (Z.eqb (b + off) v) with (Z.eqb b (v - off)) by (destruct (Z.eqb_spec b (v - off)), (Z.eqb_spec (b + off) v); lia).
  reflexivity.
Qed.

(* ---- sums of indicators over an index list ---- *)
Definition nsum (l : list nat) : nat := fold_right Nat.add 0%nat l.
Lemma nsum_map_add {A} (f g : A -> nat) l : nsum (map (fun x => (f x + g x)%nat) l) = (nsum (map f l) + nsum (map g l))%nat.
Proof. induction l as [|x l IH]; [reflexivity|]. cbn [map nsum fold_right]. fold (nsum (map (fun x => (f x + g x)%nat) l)) (nsum (map f l)) (nsum (map g l)). rewrite IH. lia. Qed.
Lemma nsum_ind_zero (f g : Z -> Z) (l : list Z) u v : (forall p, In p l -> f p <> u) -> nsum (map (fun p => ind (f p) (g p) u v) l) = 0%nat.
Proof.
  induction l as [|a l IH]; intros Hne; [reflexivity|]. cbn [map nsum fold_right]. fold (nsum (map (fun p => ind (f p) (g p) u v) l)).
  rewrite (ind_0 (f a) (g a) u v) by (left; apply Hne; left; reflexivity). rewrite IH; [reflexivity|]. intros p Hp. apply Hne. right. exact Hp.
Qed.
(* a family of pairs whose first components are pairwise distinct hits a given pair at most once *)
Lemma nsum_ind_le1 (f g : Z -> Z) (l : list Z) u v : NoDup l -> (forall p q, In p l -> In q l -> f p = f q -> p = q) ->
  (nsum (map (fun p => ind (f p) (g p) u v) l) <= 1)%nat.
Proof.
  induction l as [|a l IH]; intros Hnd Hinj; [cbn; lia|]. cbn [map nsum fold_right]. fold (nsum (map (fun p => ind (f p) (g p) u v) l)).
  inversion Hnd as [|? ? Hnotin Hnd']; subst.
  assert (IH' := IH Hnd' (fun p q Hp Hq => Hinj p q (or_intror Hp) (or_intror Hq))).
  destruct (ind (f a) (g a) u v) eqn:E; [lia|].
  assert (Hfa : f a = u) by (unfold ind in E; destruct (Z.eqb_spec (f a) u); [assumption|discriminate]).
  assert (Hz : nsum (map (fun p => ind (f p) (g p) u v) l) = 0%nat).
  { apply nsum_ind_zero. intros p Hp Efp. apply Hnotin. replace a with p; [exact Hp|]. apply Hinj; [right; exact Hp|left; reflexivity|congruence]. }
  pose proof (ind_le (f a) (g a) u v). lia.
Qed.
Lemma nsum_pos_exists {A} (h : A -> nat) l : (1 <= nsum (map h l))%nat -> exists p, In p l /\ (1 <= h p)%nat.
Proof.
  induction l as [|a l IH]; [cbn; lia|]. cbn [map nsum fold_right]. fold (nsum (map h l)). intros Hs.
  destruct (h a) eqn:E; [destruct (IH ltac:(lia)) as [p [Hp Hh]]; exists p; split; [right; exact Hp|exact Hh]|].
  exists a. split; [left; reflexivity|lia].
Qed.

Lemma mcnt_map {A} u v (F : A -> list Z) (l : list A) : mcnt u v (map F l) = nsum (map (fun p => fcnt u v (F p)) l).
Proof. induction l as [|a l IH]; [reflexivity|]. cbn [map mcnt fold_right nsum]. fold (mcnt u v (map F l)) (nsum (map (fun p => fcnt u v (F p)) l)). rewrite IH. reflexivity. Qed.
Lemma fcnt_quad u v n ra rb p :
  fcnt u v (quad n ra rb p) =
  (ind (ra + p) (ra + (p + 1) mod n) u v + ind (ra + (p + 1) mod n) (rb + (p + 1) mod n) u v
   + ind (rb + (p + 1) mod n) (rb + p) u v + ind (rb + p) (ra + p) u v)%nat.
Proof. unfold fcnt, quad, Cyc.csum. cbn [Cyc.osum last]. lia. Qed.

Lemma nseq_nodup k : NoDup (nseq k).
Proof. unfold nseq. apply Injective_map_NoDup; [intros a b; apply Nat2Z.inj|apply seq_NoDup]. Qed.
Lemma in_nseq k p : In p (nseq k) <-> 0 <= p < Z.of_nat k.
Proof.
  unfold nseq. rewrite in_map_iff. split.
  - intros [j [<- Hj]]. apply in_seq in Hj. lia.
  - intros Hp. exists (Z.to_nat p). split; [lia|]. apply in_seq. lia.
Qed.
Lemma succ_mod_inj n p q : 0 <= p < n -> 0 <= q < n -> (p + 1) mod n = (q + 1) mod n -> p = q.
Proof.
  intros Hp Hq E.
  destruct (Z.eq_dec (p + 1) n) as [Ep|Ep]; destruct (Z.eq_dec (q + 1) n) as [Eq|Eq].
  - lia.
  - rewrite Ep, Z.mod_same in E by lia. rewrite Z.mod_small in E by lia. lia.
  - rewrite Eq, Z.mod_same in E by lia. rewrite Z.mod_small in E by lia. lia.
  - rewrite !Z.mod_small in E by lia. lia.
Qed.

(* the strip of quads between two disjoint rings: every directed edge at most once, and only the four families *)
Theorem strip_cnt u v (k : nat) ra rb : (1 <= k)%nat -> ra + Z.of_nat k <= rb ->
  let n := Z.of_nat k in
  let c := mcnt u v (map (quad n ra rb) (nseq k)) in
  (c <= 1)%nat /\
  ((1 <= c)%nat ->
     (ra <= u < ra + n /\ v = ra + (u - ra + 1) mod n) \/ (ra <= u < ra + n /\ v = rb + (u - ra)) \/
     (rb <= v < rb + n /\ u = rb + (v - rb + 1) mod n) \/ (rb <= u < rb + n /\ v = ra + (u - rb))).
Proof.
  intros Hk Hdis n c. unfold c. rewrite mcnt_map.
  rewrite (map_ext _ _ (fun p => fcnt_quad u v n ra rb p)).
  rewrite (nsum_map_add (fun p => (ind (ra + p) (ra + (p + 1) mod n) u v + ind (ra + (p + 1) mod n) (rb + (p + 1) mod n) u v + ind (rb + (p + 1) mod n) (rb + p) u v)%nat)).
  rewrite (nsum_map_add (fun p => (ind (ra + p) (ra + (p + 1) mod n) u v + ind (ra + (p + 1) mod n) (rb + (p + 1) mod n) u v)%nat)).
  rewrite (nsum_map_add (fun p => ind (ra + p) (ra + (p + 1) mod n) u v)).
  set (A := nsum (map (fun p => ind (ra + p) (ra + (p + 1) mod n) u v) (nseq k))).
  set (B := nsum (map (fun p => ind (ra + (p + 1) mod n) (rb + (p + 1) mod n) u v) (nseq k))).
  set (C := nsum (map (fun p => ind (rb + (p + 1) mod n) (rb + p) u v) (nseq k))).
  set (D := nsum (map (fun p => ind (rb + p) (ra + p) u v) (nseq k))).
  assert (Hmod : forall p, 0 <= p < n -> 0 <= (p + 1) mod n < n) by (intros; apply Z.mod_pos_bound; lia).
  assert (HA : (A <= 1)%nat) by (apply (nsum_ind_le1 (fun p => ra + p) (fun p => ra + (p + 1) mod n)); [apply nseq_nodup|intros p q _ _ E; lia]).
  assert (HB : (B <= 1)%nat).
  { apply (nsum_ind_le1 (fun p => ra + (p + 1) mod n) (fun p => rb + (p + 1) mod n)); [apply nseq_nodup|].
    intros p q Hp Hq E. apply in_nseq in Hp. apply in_nseq in Hq. apply (succ_mod_inj n); [exact Hp|exact Hq|lia]. }
  assert (HC : (C <= 1)%nat).
  { apply (nsum_ind_le1 (fun p => rb + (p + 1) mod n) (fun p => rb + p)); [apply nseq_nodup|].
    intros p q Hp Hq E. apply in_nseq in Hp. apply in_nseq in Hq. apply (succ_mod_inj n); [exact Hp|exact Hq|lia]. }
  assert (HD : (D <= 1)%nat) by (apply (nsum_ind_le1 (fun p => rb + p) (fun p => ra + p)); [apply nseq_nodup|intros p q _ _ E; lia]).
  assert (SA : (1 <= A)%nat -> ra <= u < ra + n /\ v = ra + (u - ra + 1) mod n).
  { intros H1. apply nsum_pos_exists in H1. destruct H1 as [p [Hp Hi]]. apply in_nseq in Hp. pose proof (ind_le (ra + p) (ra + (p + 1) mod n) u v).
    assert (E : ind (ra + p) (ra + (p + 1) mod n) u v = 1%nat) by lia. apply ind_1 in E. destruct E as [<- <-]. split; [lia|]. replace (ra + p - ra) with p by lia. reflexivity. }
  assert (SB : (1 <= B)%nat -> ra <= u < ra + n /\ v = rb + (u - ra)).
  { intros H1. apply nsum_pos_exists in H1. destruct H1 as [p [Hp Hi]]. apply in_nseq in Hp. pose proof (ind_le (ra + (p + 1) mod n) (rb + (p + 1) mod n) u v). pose proof (Hmod p Hp).
    assert (E : ind (ra + (p + 1) mod n) (rb + (p + 1) mod n) u v = 1%nat) by lia. apply ind_1 in E. destruct E as [<- <-]. split; lia. }
  assert (SC : (1 <= C)%nat -> rb <= v < rb + n /\ u = rb + (v - rb + 1) mod n).
  { intros H1. apply nsum_pos_exists in H1. destruct H1 as [p [Hp Hi]]. apply in_nseq in Hp. pose proof (ind_le (rb + (p + 1) mod n) (rb + p) u v).
    assert (E : ind (rb + (p + 1) mod n) (rb + p) u v = 1%nat) by lia. apply ind_1 in E. destruct E as [<- <-]. split; [lia|]. replace (rb + p - rb) with p by lia. reflexivity. }
  assert (SD : (1 <= D)%nat -> rb <= u < rb + n /\ v = ra + (u - rb)).
  { intros H1. apply nsum_pos_exists in H1. destruct H1 as [p [Hp Hi]]. apply in_nseq in Hp. pose proof (ind_le (rb + p) (ra + p) u v).
    assert (E : ind (rb + p) (ra + p) u v = 1%nat) by lia. apply ind_1 in E. destruct E as [<- <-]. split; lia. }
  assert (Hmv : 0 <= (u - ra + 1) mod n < n) by (apply Z.mod_pos_bound; lia).
  assert (Hmv' : 0 <= (v - rb + 1) mod n < n) by (apply Z.mod_pos_bound; lia).
  split.
  - destruct A as [|[|A']]; destruct B as [|[|B']]; destruct C as [|[|C']]; destruct D as [|[|D']]; try lia;
      try (specialize (SA ltac:(lia))); try (specialize (SB ltac:(lia))); try (specialize (SC ltac:(lia))); try (specialize (SD ltac:(lia))); lia.
  - intros Hc. destruct (Nat.eq_dec A 0); [destruct (Nat.eq_dec B 0); [destruct (Nat.eq_dec C 0)|]|].
    + right. right. right. apply SD. lia.
    + right. right. left. apply SC. lia.
    + right. left. apply SB. lia.
    + left. apply SA. lia.
Qed.

(* ---- caps ---- *)
Section CapsExact.
  Context {T : Type} `{Num T}.
  Lemma mcnt_triples u v (tris : list (@tri3 T)) off : mcnt u v (triples (flat_map idx3 tris) off) = cntT (u - off) (v - off) tris.
  Proof.
    rewrite triples_idx3. induction tris as [|[[a b] c] tl IH]; [reflexivity|].
    cbn [map mcnt fold_right cntT]. fold (mcnt u v (map (fun t : @tri3 T => let '(a, b, c) := t in [fst a + off; fst b + off; fst c + off]) tl)). fold (cntT (u - off) (v - off) tl).
    rewrite IH. f_equal. unfold fcnt, Cyc.csum. cbn [Cyc.osum last cnt3]. rewrite !ind_shift. lia.
  Qed.
  Lemma cap_mcnt u v (poly : list (@vtx T)) off : mcnt u v (triples (triangulate poly) off) = cntT (u - off) (v - off) (fst (run poly)).
  Proof. rewrite triangulate_run. apply mcnt_triples. Qed.
  (* only pairs of vertices of the polygon are used *)
  Lemma cntT_support (poly : list (@vtx T)) a b : (1 <= cntT a b (fst (run poly)))%nat -> In a (ids poly) /\ In b (ids poly).
  Proof.
    destruct (clipv_vertices (ref_ccw poly) (length poly) poly) as [HF _]. fold (run poly) in HF. revert HF. generalize (fst (run poly)). intros tris HF.
    induction tris as [|[[x y] z] tl IH]; intros Hc; [cbn in Hc; lia|].
    inversion HF as [|? ? Ht HF']; subst. cbn [cntT fold_right] in Hc. fold (cntT a b tl) in Hc.
    destruct (cntT a b tl) eqn:E; [|apply IH; [exact HF'|lia]].
    destruct Ht as (Hx & Hy & Hz). unfold cnt3 in Hc.
    pose proof (ind_le (fst x) (fst y) a b). pose proof (ind_le (fst y) (fst z) a b). pose proof (ind_le (fst z) (fst x) a b).
    destruct (ind (fst x) (fst y) a b) eqn:E1; [destruct (ind (fst y) (fst z) a b) eqn:E2; [destruct (ind (fst z) (fst x) a b) eqn:E3; [lia|]|]|].
    - assert (E' : ind (fst z) (fst x) a b = 1%nat) by lia. apply ind_1 in E'. destruct E' as [<- <-]. split; apply in_map; assumption.
    - assert (E' : ind (fst y) (fst z) a b = 1%nat) by lia. apply ind_1 in E'. destruct E' as [<- <-]. split; apply in_map; assumption.
    - assert (E' : ind (fst x) (fst y) a b = 1%nat) by lia. apply ind_1 in E'. destruct E' as [<- <-]. split; apply in_map; assumption.
  Qed.

  (* polygon edges of a reversed list are the reversed polygon edges *)
  Lemma pedge_rev (l : list Z) u v : pedge Z 0 (rev l) u v -> pedge Z 0 l v u.
  Proof.
    intros (j & Hj & Hu & Hv). rewrite rev_length in Hj, Hv.
    assert (Hn : (next_i (length l) j < length l)%nat) by (apply next_lt'; exact Hj).
    rewrite rev_nth in Hu by exact Hj. rewrite rev_nth in Hv by exact Hn.
    exists (length l - S (next_i (length l) j))%nat. split; [lia|]. split; [exact Hv|].
    rewrite <- Hu. f_equal. pose proof (next_i_cases (length l) j). pose proof (next_i_cases (length l) (length l - S (next_i (length l) j))). lia.
  Qed.

  Definition closed_exact (faces : list (list Z)) : Prop := forall u v, (mcnt u v faces <= 1)%nat /\ mcnt u v faces = mcnt v u faces.

  Lemma two_caps_and_strip_exact (lower upper : list (pt2 T)) : length lower = length upper -> (3 <= length lower)%nat ->
    complete (rev (enumerate lower)) -> complete (enumerate upper) ->
    closed_exact (triples (triangulate (rev (enumerate lower))) 0 ++ triples (triangulate (enumerate upper)) (Z.of_nat (length lower)) ++
                  map (quad (Z.of_nat (length lower)) 0 (Z.of_nat (length lower))) (nseq (length lower))).
  Proof.
    intros Hl Hn Hc1 Hc2.
    set (k := length lower). set (n := Z.of_nat k). set (F := _ ++ _ ++ _).
    assert (Hnet : closed_net F) by (apply two_caps_and_strip; assumption).
    assert (Hle : forall u v, (mcnt u v F <= 1)%nat).
    { intros u v. unfold F. rewrite !mcnt_app, !cap_mcnt. rewrite Z.sub_0_r. rewrite !Z.sub_0_r.
      set (cb := cntT u v (fst (run (rev (enumerate lower))))). set (ct := cntT (u - n) (v - n) (fst (run (enumerate upper)))).
      destruct (strip_cnt u v k 0 n ltac:(unfold k; lia) ltac:(unfold n; lia)) as [Hq Hs]. cbv zeta in Hq, Hs. fold n in Hq, Hs.
      set (cq := mcnt u v (map (quad n 0 n) (nseq k))) in *.
      (* the caps *)
      assert (Hndb : NoDup (ids (rev (enumerate lower)))) by (unfold ids; rewrite map_rev; apply NoDup_rev; apply enumerate_nodup).
      assert (Hndt : NoDup (ids (enumerate upper))) by apply enumerate_nodup.
      assert (Hlb : (3 <= length (rev (enumerate lower)))%nat) by (rewrite rev_length, enumerate_length; exact Hn).
      assert (Hlt : (3 <= length (enumerate upper))%nat) by (rewrite enumerate_length, <- Hl; exact Hn).
      destruct (complete_tiling _ Hndb Hlb Hc1) as (Bb1 & Bb2 & _). destruct (complete_tiling _ Hndt Hlt Hc2) as (Bt1 & Bt2 & _).
      assert (Hcb : (cb <= 1)%nat) by apply Bb1. assert (Hct : (ct <= 1)%nat) by apply Bt1.
      assert (Sb : (1 <= cb)%nat -> 0 <= u < n /\ 0 <= v < n).
      { intros H1. apply cntT_support in H1. destruct H1 as [Hu Hv]. unfold ids in Hu, Hv. rewrite map_rev in Hu, Hv. apply in_rev in Hu. apply in_rev in Hv.
        apply enumerate_range in Hu. apply enumerate_range in Hv. fold k n in Hu, Hv. lia. }
      assert (St : (1 <= ct)%nat -> n <= u < 2 * n /\ n <= v < 2 * n).
      { intros H1. apply cntT_support in H1. destruct H1 as [Hu Hv]. apply enumerate_range in Hu. apply enumerate_range in Hv. rewrite <- Hl in Hu, Hv. fold k n in Hu, Hv. lia. }
      destruct cq as [|[|cq']]; [| |lia].
      - (* no quad uses the pair *)
        destruct cb as [|[|cb']]; destruct ct as [|[|ct']]; lia.
      - specialize (Hs ltac:(lia)). destruct Hs as [[Hu Hv]|[[Hu Hv]|[[Hv Hu]|[Hu Hv]]]].
        + (* ring 0 forward: the bottom cap (reversed polygon) never uses it in this direction *)
          assert (Hm : 0 <= (u - 0 + 1) mod n < n) by (apply Z.mod_pos_bound; lia).
          assert (Ect : ct = 0%nat) by (destruct ct; [reflexivity|specialize (St ltac:(lia)); lia]).
          assert (Ecb : cb = 0%nat).
          { assert (Hpe : pe (rev (enumerate lower)) v u).
            { unfold pe, ids. rewrite map_rev. apply pedge_rev. rewrite rev_involutive.
              apply (proj2 (pe_enumerate lower u v ltac:(lia))). fold k n. split; [lia|]. rewrite Hv. rewrite Z.add_0_l, Z.sub_0_r. reflexivity. }
            destruct (Bb2 v u Hpe) as [_ E0]. exact E0. }
          lia.
        + assert (Ect : ct = 0%nat) by (destruct ct; [reflexivity|specialize (St ltac:(lia)); lia]).
          assert (Ecb : cb = 0%nat) by (destruct cb; [reflexivity|specialize (Sb ltac:(lia)); lia]). lia.
        + (* ring 1 backward: the top cap (forward polygon) never uses it in this direction *)
          assert (Hm : 0 <= (v - n + 1) mod n < n) by (apply Z.mod_pos_bound; lia).
          assert (Ecb : cb = 0%nat) by (destruct cb; [reflexivity|specialize (Sb ltac:(lia)); lia]).
          assert (Ect : ct = 0%nat).
          { assert (Hpe : pe (enumerate upper) (v - n) (u - n)).
            { apply (proj2 (pe_enumerate upper (v - n) (u - n) ltac:(lia))). rewrite <- Hl. fold k n. split; [lia|]. rewrite Hu. lia. }
            destruct (Bt2 (v - n) (u - n) Hpe) as [_ E0]. exact E0. }
          lia.
        + assert (Ect : ct = 0%nat) by (destruct ct; [reflexivity|specialize (St ltac:(lia)); lia]).
          assert (Ecb : cb = 0%nat) by (destruct cb; [reflexivity|specialize (Sb ltac:(lia)); lia]). lia. }
    intros u v. split; [apply Hle|]. specialize (Hnet u v). rewrite mnet_cnt in Hnet. lia.
  Qed.

  (* linear_extrude, loft, cylinder: every directed edge in at most one face and in exactly as many faces as its reverse *)
  Theorem linear_extrude_closed_exact (pts : list (pt2 T)) (h : T) ph : linear_extrude pts h = Some ph ->
    complete (rev (enumerate pts)) -> complete (enumerate pts) -> closed_exact (snd ph).
  Proof.
    unfold linear_extrude, triangulate2d, triangulate2d_rev. destruct (Nat.ltb_spec 3 (length pts)) as [Hn|]; [|discriminate].
    intros E Hc1 Hc2. injection E as <-. cbn [snd]. apply two_caps_and_strip_exact; try assumption; [reflexivity|lia].
  Qed.
  Theorem loft_closed_exact (lower upper : list (pt2 T)) (h : T) ph : loft lower upper h = Some ph ->
    complete (rev (enumerate lower)) -> complete (enumerate upper) -> closed_exact (snd ph).
  Proof.
    unfold loft, triangulate2d, triangulate2d_rev. destruct (Nat.eqb_spec (length lower) (length upper)) as [Hl|]; [|discriminate]. cbn [negb].
    destruct (Nat.ltb_spec 3 (length lower)) as [Hn|]; [|discriminate]. destruct (Nat.ltb_spec 3 (length upper)); [|lia].
    intros E Hc1 Hc2. injection E as <-. cbn [snd]. apply two_caps_and_strip_exact; try assumption. lia.
  Qed.
  Theorem cylinder_closed_exact (r h : T) (segments : Z) ph c : cylinder r h segments = Some ph -> Dim2.circle r segments = Some c ->
    complete (rev (enumerate c)) -> complete (enumerate c) -> closed_exact (snd ph).
  Proof. unfold cylinder. intros E Ec. rewrite Ec in E. apply (linear_extrude_closed_exact c h ph E). Qed.
End CapsExact.
