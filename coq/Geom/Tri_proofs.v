(* Geom/Tri_proofs.v -- what every run of the ear-clipping loop guarantees, whichever ears the numeric tests pick.
   Generic in the number type (so it holds of the float reading too) except the area corollaries, which are over R. *)
From Coq Require Import ZArith List Bool Arith Lia Reals Lra.
From SCAD Require Import Base.Num Base.NumR Base.Vec Geom.Tri.
From SCAD Require Geom.Cyc.
From AAC_tactics Require Import AAC.
Import ListNotations.

Section TP.
  Context {T : Type} `{Num T}.
  Notation vtx := (@vtx T).
  Definition tri3 : Type := (vtx * vtx * vtx)%type.
  Definition idx3 (t : tri3) : list Z := let '(a, b, c) := t in [fst a; fst b; fst c].
  Definition ear_at (poly : list vtx) (i : nat) : tri3 :=
    let n := length poly in (nthv poly (prev_i n i), nthv poly i, nthv poly (next_i n i)).

  (* the loop of `clip`, keeping whole vertices and the polygon that is left over *)
  Fixpoint clipv (fuel : nat) (ccw : bool) (poly : list vtx) (acc : list tri3) : list tri3 * list vtx :=
    match fuel with
    | O => (acc, poly)
    | S f =>
        if Nat.ltb (length poly) 3 then (acc, poly) else
        match find_ear ccw poly with
        | None => (acc, poly)
        | Some i => clipv f ccw (remove_nth i poly) (acc ++ [ear_at poly i])
        end
    end.

  Lemma clip_clipv fuel ccw : forall poly acc,
    clip fuel ccw poly (flat_map idx3 acc) = flat_map idx3 (fst (clipv fuel ccw poly acc)).
  Proof.
    induction fuel as [|f IH]; intros poly acc; cbn [clip clipv]; [reflexivity|].
    destruct (Nat.ltb (length poly) 3); [reflexivity|]. destruct (find_ear ccw poly) as [i|]; [|reflexivity].
    rewrite <- IH. rewrite flat_map_app. cbn [flat_map idx3 ear_at app]. reflexivity.
  Qed.

  Lemma find_ear_some ccw poly i : find_ear ccw poly = Some i -> i < length poly /\ is_ear ccw poly i = true.
  Proof.
    unfold find_ear. intros Hf. apply find_some in Hf. destruct Hf as [Hin He]. apply in_seq in Hin. split; [lia|exact He].
  Qed.

  Lemma remove_nth_length {A} i (l : list A) : i < length l -> length (remove_nth i l) = length l - 1.
  Proof. intros Hi. unfold remove_nth. rewrite app_length, firstn_length, skipn_length. lia. Qed.
  Lemma remove_nth_incl {A} i (l : list A) : incl (remove_nth i l) l.
  Proof.
    unfold remove_nth. intros x Hx. apply in_app_or in Hx. destruct Hx as [Hx|Hx].
    - rewrite <- (firstn_skipn i l). apply in_or_app. left. exact Hx.
    - rewrite <- (firstn_skipn (S i) l). apply in_or_app. right. exact Hx.
  Qed.
  Lemma nthv_in (l : list vtx) i : i < length l -> In (nthv l i) l.
  Proof. intros. unfold nthv. apply nth_In. assumption. Qed.
  Lemma prev_lt n i : i < n -> prev_i n i < n.
  Proof. unfold prev_i. destruct (Nat.eqb_spec i 0); lia. Qed.
  Lemma next_lt n i : i < n -> next_i n i < n.
  Proof. unfold next_i. destruct (Nat.eqb_spec i (n - 1)); lia. Qed.

  (* any property of (triangles so far, polygon left) kept by one clipping step holds when the loop stops *)
  Lemma clipv_invariant (ccw : bool) (P : list tri3 -> list vtx -> Prop) :
    (forall acc poly i, 3 <= length poly -> find_ear ccw poly = Some i -> P acc poly ->
                        P (acc ++ [ear_at poly i]) (remove_nth i poly)) ->
    forall fuel poly acc, P acc poly -> P (fst (clipv fuel ccw poly acc)) (snd (clipv fuel ccw poly acc)).
  Proof.
    intros Hstep. induction fuel as [|f IH]; intros poly acc HP; cbn [clipv]; [exact HP|].
    destruct (Nat.ltb_spec (length poly) 3); [exact HP|]. destruct (find_ear ccw poly) as [i|] eqn:E; [|exact HP].
    apply IH. apply Hstep; assumption.
  Qed.

  (* one triangle per removed vertex *)
  Lemma clipv_count ccw fuel poly acc :
    length (fst (clipv fuel ccw poly acc)) + length (snd (clipv fuel ccw poly acc)) = length acc + length poly.
  Proof.
    apply (clipv_invariant ccw (fun a p => length a + length p = length acc + length poly)); [|reflexivity].
    intros a p i Hlen Hf HP. apply find_ear_some in Hf. destruct Hf as [Hi _].
    rewrite app_length, remove_nth_length by assumption. cbn [length]. lia.
  Qed.

  (* with the fuel `triangulate` gives it (the vertex count) the loop never runs out: it stops because fewer
     than three vertices are left or because no ear was found *)
  Lemma clipv_stops ccw : forall fuel poly acc, length poly <= fuel + 2 ->
    let rest := snd (clipv fuel ccw poly acc) in length rest < 3 \/ find_ear ccw rest = None.
  Proof.
    induction fuel as [|f IH]; intros poly acc Hf; cbn [clipv].
    - left. cbn [snd]. lia.
    - destruct (Nat.ltb_spec (length poly) 3); [left; exact H0|].
      destruct (find_ear ccw poly) as [i|] eqn:E; [|right; exact E].
      apply IH. apply find_ear_some in E. destruct E as [Hi _]. rewrite remove_nth_length by assumption. lia.
  Qed.

  (* only vertices of the input, and the polygon left over is a sub-polygon of the input *)
  Lemma clipv_vertices ccw fuel poly :
    let r := clipv fuel ccw poly [] in
    Forall (fun t => let '(a, b, c) := t in In a poly /\ In b poly /\ In c poly) (fst r) /\ incl (snd r) poly.
  Proof.
    apply (clipv_invariant ccw (fun acc p => Forall (fun t : tri3 => let '(a, b, c) := t in In a poly /\ In b poly /\ In c poly) acc /\ incl p poly));
      [|split; [constructor|apply incl_refl]].
    intros acc p i Hlen Hf [HF Hincl]. apply find_ear_some in Hf. destruct Hf as [Hi _]. split.
    - apply Forall_app. split; [exact HF|]. constructor; [|constructor]. unfold ear_at.
      repeat split; apply Hincl; apply nthv_in; [apply prev_lt|idtac|apply next_lt]; assumption.
    - intros x Hx. apply Hincl. eapply remove_nth_incl. exact Hx.
  Qed.

  (* every triangle is wound like the reference corner, and was an ear by the implementation's own test *)
  Definition wound (ccw : bool) (t : tri3) : Prop := let '(a, b, c) := t in is_ccw (snd a) (snd b) (snd c) = ccw.
  Lemma clipv_winding ccw fuel poly : Forall (wound ccw) (fst (clipv fuel ccw poly [])).
  Proof.
    apply (clipv_invariant ccw (fun acc _ => Forall (wound ccw) acc)); [|constructor].
    intros acc p i Hlen Hf HF. apply find_ear_some in Hf. destruct Hf as [_ He]. apply Forall_app. split; [exact HF|].
    constructor; [|constructor]. unfold wound, ear_at. unfold is_ear in He.
    destruct (Bool.eqb _ ccw) eqn:E; [|discriminate]. apply eqb_prop in E. exact E.
  Qed.

  (* with distinct indices in the input, every triangle has three distinct indices *)
  Lemma remove_nth_split {A} i (l : list A) d : i < length l -> l = firstn i l ++ nth i l d :: skipn (S i) l.
  Proof.
    revert i. induction l as [|a l IH]; intros i Hi; [cbn in Hi; lia|]. destruct i as [|i]; [reflexivity|].
    cbn [firstn nth skipn app]. f_equal. apply IH. cbn in Hi. lia.
  Qed.
  Lemma remove_nth_map {A B} (f : A -> B) i (l : list A) : map f (remove_nth i l) = remove_nth i (map f l).
  Proof. unfold remove_nth. rewrite map_app, firstn_map, skipn_map. reflexivity. Qed.
  Lemma remove_nth_nodup {A} i (l : list A) : NoDup l -> NoDup (remove_nth i l).
  Proof.
    intros Hl. destruct (Nat.lt_ge_cases i (length l)) as [Hi|Hi].
    - destruct l as [|d l']; [cbn in Hi; lia|]. rewrite (remove_nth_split i (d :: l') d Hi) in Hl. apply NoDup_remove_1 in Hl. exact Hl.
    - unfold remove_nth. rewrite firstn_all2 by lia. rewrite skipn_all2 by lia. rewrite app_nil_r. exact Hl.
  Qed.
  Definition distinct3 (t : tri3) : Prop := let '(a, b, c) := t in fst a <> fst b /\ fst b <> fst c /\ fst c <> fst a.
  Lemma nthv_fst (l : list vtx) i : fst (nthv l i) = nth i (map fst l) 0%Z.
  Proof. unfold nthv. change 0%Z with (fst (@dv T _)). apply eq_sym, map_nth. Qed.
  Lemma clipv_distinct ccw fuel poly : NoDup (map fst poly) -> Forall distinct3 (fst (clipv fuel ccw poly [])).
  Proof.
    intros Hnd.
    apply (clipv_invariant ccw (fun acc p => Forall distinct3 acc /\ NoDup (map fst p)) ) with (fuel := fuel) (poly := poly) (acc := []); [|split; [constructor|exact Hnd]].
    intros acc p i Hlen Hf [HF Hp]. apply find_ear_some in Hf. destruct Hf as [Hi _]. split.
    - apply Forall_app. split; [exact HF|]. constructor; [|constructor]. unfold distinct3, ear_at. rewrite !nthv_fst.
      assert (Hl : length (map fst p) = length p) by apply map_length.
      pose proof (prev_lt (length p) i Hi) as Hpl. pose proof (next_lt (length p) i Hi) as Hnl.
      assert (Hpi : prev_i (length p) i <> i) by (unfold prev_i; destruct (Nat.eqb_spec i 0); lia).
      assert (Hin : i <> next_i (length p) i) by (unfold next_i; destruct (Nat.eqb_spec i (length p - 1)); lia).
      assert (Hnp : next_i (length p) i <> prev_i (length p) i) by (unfold next_i, prev_i; destruct (Nat.eqb_spec i (length p - 1)), (Nat.eqb_spec i 0); lia).
      rewrite (NoDup_nth (map fst p) 0%Z) in Hp.
      repeat split; intros E; apply Hp in E; rewrite ?Hl; lia.
    - rewrite remove_nth_map. apply remove_nth_nodup. exact Hp.
  Qed.

  (* cyclic sums: for any commutative monoid M and edge weight g,
       csum g poly + sum over triangles of g(p, n)  =  csum g rest + sum over triangles of (g(p, x) + g(x, n)) *)
  Section Sums.
    Variables (M : Type) (mzero : M) (madd : M -> M -> M).
    Hypothesis madd_comm : forall a b, madd a b = madd b a.
    Hypothesis madd_assoc : forall a b c, madd a (madd b c) = madd (madd a b) c.
    Hypothesis madd_0_l : forall a, madd mzero a = a.
    Variable g : vtx -> vtx -> M.
    Instance madd_A : Associative eq madd. Proof. intros a b c. apply madd_assoc. Qed.
    Instance madd_C : Commutative eq madd. Proof. intros a b. apply madd_comm. Qed.
    Notation csum := (Cyc.csum vtx M mzero madd g).
    Fixpoint sum_chord (l : list tri3) : M := match l with [] => mzero | (p, _, n) :: tl => madd (g p n) (sum_chord tl) end.
    Fixpoint sum_ear (l : list tri3) : M := match l with [] => mzero | (p, x, n) :: tl => madd (madd (g p x) (g x n)) (sum_ear tl) end.
    Lemma sum_chord_app l t : sum_chord (l ++ [t]) = madd (sum_chord l) (let '(p, _, n) := t in g p n).
    Proof.
      induction l as [|[[p x] n] l IH]; cbn [app sum_chord].
      - destruct t as [[p x] n]. rewrite madd_0_l, madd_comm, madd_0_l. reflexivity.
      - rewrite IH. apply madd_assoc.
    Qed.
    Lemma sum_ear_app l t : sum_ear (l ++ [t]) = madd (sum_ear l) (let '(p, x, n) := t in madd (g p x) (g x n)).
    Proof.
      induction l as [|[[p x] n] l IH]; cbn [app sum_ear].
      - destruct t as [[p x] n]. rewrite madd_0_l, madd_comm, madd_0_l. reflexivity.
      - rewrite IH. apply madd_assoc.
    Qed.
    Lemma clipv_sums ccw fuel poly :
      let r := clipv fuel ccw poly [] in
      madd (csum poly) (sum_chord (fst r)) = madd (csum (snd r)) (sum_ear (fst r)).
    Proof.
      apply (clipv_invariant ccw (fun acc p => madd (csum poly) (sum_chord acc) = madd (csum p) (sum_ear acc))); [|reflexivity].
      intros acc p i Hlen Hf HP. apply find_ear_some in Hf. destruct Hf as [Hi _].
      rewrite sum_chord_app, sum_ear_app. unfold ear_at.
      pose proof (Cyc.csum_remove vtx M mzero madd madd_comm madd_assoc madd_0_l g p i dv Hlen Hi) as Hc. cbv zeta in Hc.
      change (Cyc.remove_nth vtx i p) with (remove_nth i p) in Hc.
      change (Cyc.prev_i (length p) i) with (prev_i (length p) i) in Hc. change (Cyc.next_i (length p) i) with (next_i (length p) i) in Hc.
      fold (nthv p (prev_i (length p) i)) (nthv p i) (nthv p (next_i (length p) i)) in Hc.
      set (a := nthv p (prev_i (length p) i)) in *. set (b := nthv p i) in *. set (c := nthv p (next_i (length p) i)) in *.
      set (SC := sum_chord acc) in *. set (SE := sum_ear acc) in *. set (cr := csum (remove_nth i p)) in *.
      set (cp := csum p) in *. set (c0 := csum poly) in *.
      transitivity (madd (madd c0 SC) (g a c)); [aac_reflexivity|]. rewrite HP.
      transitivity (madd (madd cp (g a c)) SE); [aac_reflexivity|]. rewrite <- Hc. aac_reflexivity.
    Qed.
  End Sums.

  (* with an antisymmetric weight in an abelian group: csum poly = csum rest + sum over triangles of their own cyclic sums *)
  Section Group.
    Variables (M : Type) (mzero : M) (madd : M -> M -> M) (mneg : M -> M).
    Hypothesis madd_comm : forall a b, madd a b = madd b a.
    Hypothesis madd_assoc : forall a b c, madd a (madd b c) = madd (madd a b) c.
    Hypothesis madd_0_l : forall a, madd mzero a = a.
    Hypothesis madd_neg : forall a, madd a (mneg a) = mzero.
    Variable g : vtx -> vtx -> M.
    Hypothesis g_anti : forall a b, g b a = mneg (g a b).
    Instance gadd_A : Associative eq madd. Proof. intros a b c. apply madd_assoc. Qed.
    Instance gadd_C : Commutative eq madd. Proof. intros a b. apply madd_comm. Qed.
    Notation csum := (Cyc.csum vtx M mzero madd g).
    Fixpoint sum_tri (l : list tri3) : M :=
      match l with [] => mzero | (a, b, c) :: tl => madd (madd (madd (g a b) (g b c)) (g c a)) (sum_tri tl) end.
    Lemma ear_is_tri_plus_chord l : sum_ear M mzero madd g l = madd (sum_tri l) (sum_chord M mzero madd g l).
    Proof.
      induction l as [|[[a b] c] l IH]; cbn [sum_ear sum_tri sum_chord]; [rewrite madd_0_l; reflexivity|].
      rewrite IH. set (st := sum_tri l). set (sc := sum_chord M mzero madd g l).
      transitivity (madd (madd (madd (madd (g a b) (g b c)) st) sc) mzero); [rewrite (madd_comm _ mzero), madd_0_l; aac_reflexivity|].
      rewrite <- (madd_neg (g a c)). rewrite (g_anti a c). aac_reflexivity.
    Qed.
    Lemma madd_cancel_r a b c : madd a c = madd b c -> a = b.
    Proof.
      intros E. transitivity (madd (madd a c) (mneg c)); [rewrite <- madd_assoc, madd_neg, madd_comm, madd_0_l; reflexivity|].
      rewrite E. rewrite <- madd_assoc, madd_neg, madd_comm, madd_0_l. reflexivity.
    Qed.
    Lemma clipv_group ccw fuel poly :
      let r := clipv fuel ccw poly [] in csum poly = madd (csum (snd r)) (sum_tri (fst r)).
    Proof.
      cbv zeta. pose proof (clipv_sums M mzero madd madd_comm madd_assoc madd_0_l g ccw fuel poly) as Hs. cbv zeta in Hs.
      rewrite ear_is_tri_plus_chord in Hs. rewrite madd_assoc in Hs. apply madd_cancel_r in Hs. exact Hs.
    Qed.
    Lemma neg_zero : mneg mzero = mzero.
    Proof. rewrite <- (madd_0_l (mneg mzero)). apply madd_neg. Qed.
    Lemma g_diag a : madd (g a a) (g a a) = mzero.
    Proof. rewrite (g_anti a a) at 2. apply madd_neg. Qed.
    (* a polygon of two vertices has no net boundary *)
    Lemma csum_two a b : csum [a; b] = mzero.
    Proof. unfold Cyc.csum. cbn [Cyc.osum last]. rewrite (g_anti a b). rewrite (madd_comm _ mzero), madd_0_l. apply madd_neg. Qed.
  End Group.
End TP.

(* ------------------------------------------------------------------------------------------------------- *)
(* the whole function: what `triangulate` returns, in terms of the run of the loop *)
Section Whole.
  Context {T : Type} `{Num T}.
  Definition ref_ccw (poly : list (@vtx T)) : bool :=
    let n := length poly in let idx := leftmost poly in
    is_ccw (snd (nthv poly (prev_i n idx))) (snd (nthv poly idx)) (snd (nthv poly (next_i n idx))).
  Definition run (poly : list (@vtx T)) : list tri3 * list (@vtx T) := clipv (length poly) (ref_ccw poly) poly [].

  Lemma triangulate_run poly : triangulate poly = flat_map idx3 (fst (run poly)).
  Proof. unfold triangulate, run, ref_ccw. apply (clip_clipv (length poly) _ poly []). Qed.
  Lemma flat_idx3_length (l : list (@tri3 T)) : length (flat_map idx3 l) = 3 * length l.
  Proof. induction l as [|[[a b] c] l IH]; [reflexivity|]. cbn [flat_map idx3 app length]. rewrite IH. lia. Qed.

  (* the output is a whole number of triangles, at most n - 2 of them, one per clipped vertex; it has n - 2 exactly
     when two vertices are left over, and otherwise the loop stopped because its ear test accepted no vertex *)
  Theorem triangulate_count poly : 3 <= length poly ->
    let out := triangulate poly in let rest := snd (run poly) in
    length out = 3 * (length poly - length rest) /\ 2 <= length rest /\
    (length rest = 2 \/ (3 <= length rest /\ find_ear (ref_ccw poly) rest = None)).
  Proof.
    intros Hn. cbv zeta. rewrite triangulate_run, flat_idx3_length.
    pose proof (clipv_count (ref_ccw poly) (length poly) poly []) as Hc. fold (run poly) in Hc. cbn [length] in Hc.
    assert (H2 : 2 <= length (snd (run poly))).
    { unfold run. apply (clipv_invariant (ref_ccw poly) (fun _ p => 2 <= length p)); [|lia].
      intros acc p i Hlen Hf _. apply find_ear_some in Hf. destruct Hf as [Hi _]. rewrite remove_nth_length by assumption. lia. }
    split; [lia|]. split; [exact H2|].
    destruct (clipv_stops (ref_ccw poly) (length poly) poly [] ltac:(lia)) as [Hs|Hs]; fold (run poly) in Hs; [left; lia|].
    destruct (Nat.eq_dec (length (snd (run poly))) 2); [left; assumption|right; split; [lia|exact Hs]].
  Qed.
End Whole.

(* ------------------------------------------------------------------------------------------------------- *)
(* real reading: signed areas *)
Section AreaR.
  Local Open Scope R_scope.
  Notation vtxR := (@vtx R).
  Definition cross (u v : vtxR) : R := x2 (snd u) * y2 (snd v) - x2 (snd v) * y2 (snd u).
  Definition area2 (poly : list vtxR) : R := Cyc.csum vtxR R 0 Rplus cross poly.     (* twice the signed area (shoelace) *)
  Definition tri_area2 (t : @tri3 R) : R := let '(a, b, c) := t in cross a b + cross b c + cross c a.
  Definition sum_area2 (l : list (@tri3 R)) : R := fold_right (fun t s => tri_area2 t + s) 0 l.
  Definition sum_abs_area2 (l : list (@tri3 R)) : R := fold_right (fun t s => Rabs (tri_area2 t) + s) 0 l.

  Lemma cross_anti a b : cross b a = - cross a b.
  Proof. unfold cross. ring. Qed.
  Lemma is_ccw_area a b c : is_ccw (snd a) (snd b) (snd c) = true <-> 0 < tri_area2 (a, b, c).
  Proof.
    unfold is_ccw, tri_area2, cross. cbn [nltb nzero nsub nmul NumR]. rewrite Rltb_true.
    destruct a as [ia [ax ay]], b as [ib [bx by_]], c as [ic [cx cy]]. cbn [snd x2 y2]. split; intros Hh; lra.
  Qed.
  Lemma sum_tri_is_sum_area2 l : sum_tri R 0 Rplus cross l = sum_area2 l.
  Proof. induction l as [|[[a b] c] l IH]; [reflexivity|]. cbn [sum_tri sum_area2 fold_right tri_area2]. fold (sum_area2 l). rewrite IH. reflexivity. Qed.

  (* shoelace telescoping: the polygon's signed area is that of what is left plus the triangles', whatever was clipped *)
  Theorem area_split (poly : list vtxR) :
    area2 poly = area2 (snd (run poly)) + sum_area2 (fst (run poly)).
  Proof.
    unfold area2, run. rewrite <- sum_tri_is_sum_area2.
    apply (clipv_group R 0 Rplus Ropp Rplus_comm (fun a b c => eq_sym (Rplus_assoc a b c)) Rplus_0_l Rplus_opp_r cross cross_anti).
  Qed.

  (* a complete run: n - 2 triangles; then the signed areas add up to the polygon's, every triangle has the sign of
     the reference corner, so the absolute areas add up to the polygon's absolute area and the reference winding is
     the polygon's own winding *)
  Theorem complete_area (poly : list vtxR) : (3 <= length poly)%nat -> length (triangulate poly) = (3 * (length poly - 2))%nat ->
    sum_area2 (fst (run poly)) = area2 poly /\
    sum_abs_area2 (fst (run poly)) = Rabs (area2 poly) /\
    (ref_ccw poly = true -> 0 < area2 poly) /\ (ref_ccw poly = false -> area2 poly <= 0).
  Proof.
    intros Hn Hc. destruct (triangulate_count poly Hn) as (Hlen & H2 & _). cbv zeta in Hlen.
    assert (Hrest : length (snd (run poly)) = 2%nat) by lia.
    pose proof (area_split poly) as Hs.
    assert (Hz : area2 (snd (run poly)) = 0).
    { destruct (snd (run poly)) as [|a [|b [|c r]]]; try discriminate.
      apply (csum_two R 0 Rplus Ropp Rplus_comm Rplus_0_l Rplus_opp_r cross cross_anti). }
    rewrite Hz, Rplus_0_l in Hs. split; [symmetry; exact Hs|].
    pose proof (clipv_winding (ref_ccw poly) (length poly) poly) as Hw. fold (run poly) in Hw.
    assert (Hnz : fst (run poly) <> []).
    { intros E. rewrite triangulate_run, E in Hc. cbn in Hc. lia. }
    rewrite Hs. clear Hs Hz Hc Hlen.
    destruct (ref_ccw poly) eqn:Er.
    - assert (Hpos : Forall (fun t => 0 < tri_area2 t) (fst (run poly))).
      { eapply Forall_impl; [|exact Hw]. intros [[a b] c] Ht. apply is_ccw_area. exact Ht. }
      assert (Habs : sum_abs_area2 (fst (run poly)) = sum_area2 (fst (run poly)) /\ (fst (run poly) <> [] -> 0 < sum_area2 (fst (run poly)))).
      { clear -Hpos. induction Hpos as [|t l Ht _ [IH1 IH2]]; [split; [reflexivity|intros E; contradiction]|].
        cbn [sum_abs_area2 sum_area2 fold_right]. fold (sum_abs_area2 l) (sum_area2 l). rewrite IH1, (Rabs_pos_eq _ (Rlt_le _ _ Ht)).
        split; [reflexivity|]. intros _. destruct l; [cbn; lra|]. assert (0 < sum_area2 (t0 :: l)) by (apply IH2; discriminate). lra. }
      destruct Habs as [Ha Hp]. specialize (Hp Hnz). rewrite Ha, (Rabs_pos_eq _ (Rlt_le _ _ Hp)).
      split; [reflexivity|]. split; [intros _; exact Hp|discriminate].
    - assert (Hneg : Forall (fun t => tri_area2 t <= 0) (fst (run poly))).
      { eapply Forall_impl; [|exact Hw]. intros [[a b] c] Ht. unfold wound in Ht.
        destruct (Rle_dec (tri_area2 (a, b, c)) 0) as [Hle|Hgt]; [exact Hle|].
        exfalso. assert (Hp : 0 < tri_area2 (a, b, c)) by lra. apply is_ccw_area in Hp. rewrite Hp in Ht. discriminate. }
      assert (Habs : sum_abs_area2 (fst (run poly)) = - sum_area2 (fst (run poly)) /\ sum_area2 (fst (run poly)) <= 0).
      { clear -Hneg. induction Hneg as [|t l Ht _ [IH1 IH2]]; [split; cbn; lra|].
        cbn [sum_abs_area2 sum_area2 fold_right]. fold (sum_abs_area2 l) (sum_area2 l). rewrite IH1, (Rabs_left1 _ Ht). split; lra. }
      destruct Habs as [Ha Hp]. rewrite Ha, (Rabs_left1 _ Hp). split; [reflexivity|]. split; [discriminate|intros _; exact Hp].
  Qed.
End AreaR.

(* ------------------------------------------------------------------------------------------------------- *)
(* directed edges: for every ordered pair (u, v) of indices, (uses of u->v) - (uses of v->u), summed over the
   triangles, equals the same quantity for the polygon. So every polygon edge is used once more in its own
   direction than against it, and every other pair (the diagonals) is used equally often in both directions. *)
Section NetZ.
  Context {T : Type} `{Num T}.
  Local Open Scope Z_scope.
  Definition dir (u v : Z) (a b : @vtx T) : Z :=
    (if Z.eqb (fst a) u && Z.eqb (fst b) v then 1 else 0) - (if Z.eqb (fst a) v && Z.eqb (fst b) u then 1 else 0).
  Definition net (u v : Z) (l : list (@vtx T)) : Z := Cyc.csum (@vtx T) Z 0 Z.add (dir u v) l.
  Definition net_tris (u v : Z) (l : list (@tri3 T)) : Z := fold_right (fun t s => (let '(a, b, c) := t in net u v [a; b; c]) + s) 0 l.
  Lemma dir_anti u v a b : dir u v b a = - dir u v a b.
  Proof. unfold dir. rewrite (andb_comm (Z.eqb (fst b) u)), (andb_comm (Z.eqb (fst b) v)). lia. Qed.
  Lemma sum_tri_is_net u v l : sum_tri Z 0 Z.add (dir u v) l = net_tris u v l.
  Proof.
    induction l as [|[[a b] c] l IH]; [reflexivity|]. cbn [sum_tri net_tris fold_right]. fold (net_tris u v l). rewrite IH.
    unfold net, Cyc.csum. cbn [Cyc.osum last]. lia.
  Qed.
  Theorem net_split (poly : list (@vtx T)) u v :
    net u v poly = net u v (snd (run poly)) + net_tris u v (fst (run poly)).
  Proof.
    unfold net, run. rewrite <- sum_tri_is_net.
    apply (clipv_group Z 0 Z.add Z.opp Z.add_comm Z.add_assoc Z.add_0_l Z.add_opp_diag_r (dir u v) (dir_anti u v)).
  Qed.
  Theorem complete_boundary (poly : list (@vtx T)) : (3 <= length poly)%nat -> length (triangulate poly) = (3 * (length poly - 2))%nat ->
    forall u v, net_tris u v (fst (run poly)) = net u v poly.
  Proof.
    intros Hn Hc u v. destruct (triangulate_count poly Hn) as (Hlen & H2 & _). cbv zeta in Hlen.
    assert (Hrest : length (snd (run poly)) = 2%nat) by lia.
    rewrite (net_split poly u v).
    destruct (snd (run poly)) as [|a [|b [|c r]]]; try discriminate.
    unfold net at 1. rewrite (csum_two Z 0 Z.add Z.opp Z.add_comm Z.add_0_l Z.add_opp_diag_r (dir u v) (dir_anti u v)). lia.
  Qed.
End NetZ.

(* ------------------------------------------------------------------------------------------------------- *)
(* the entry points: indices, and the _rev variants *)
Section Entry.
  Context {T : Type} `{Num T}.
  Lemma enumerate_fst (v : list (pt2 T)) : map fst (enumerate v) = map Z.of_nat (seq 0 (length v)).
  Proof.
    unfold enumerate. set (l := map Z.of_nat (seq 0 (length v))).
    assert (Hl : length l = length v) by (unfold l; rewrite map_length, seq_length; reflexivity).
    clearbody l. revert l Hl. induction v as [|p v IH]; intros [|z l] Hl; try discriminate; [reflexivity|].
    cbn [combine map fst]. f_equal. apply IH. cbn [length] in Hl. lia.
  Qed.
  Lemma enumerate_length (v : list (pt2 T)) : length (enumerate v) = length v.
  Proof. transitivity (length (map fst (enumerate v))); [symmetry; apply map_length|]. rewrite enumerate_fst, map_length, seq_length. reflexivity. Qed.

  Lemma triangulate_indices (poly : list (@vtx T)) i : In i (triangulate poly) -> In i (map fst poly).
  Proof.
    rewrite triangulate_run. intros Hin. apply in_flat_map in Hin. destruct Hin as [[[a b] c] [Ht Hi]].
    destruct (clipv_vertices (ref_ccw poly) (length poly) poly) as [HF _]. fold (run poly) in HF.
    rewrite Forall_forall in HF. specialize (HF _ Ht). cbn beta iota in HF. destruct HF as (Ha & Hb & Hc).
    cbn [idx3 In] in Hi. destruct Hi as [<-|[<-|[<-|[]]]]; apply in_map; assumption.
  Qed.

  (* both 2D entry points answer for more than three vertices, with indices into the input *)
  Theorem triangulate2d_indices (v : list (pt2 T)) : 3 < length v ->
    exists out, triangulate2d v = Some out /\ (forall i, In i out -> (0 <= i < Z.of_nat (length v))%Z) /\
    exists out', triangulate2d_rev v = Some out' /\ (forall i, In i out' -> (0 <= i < Z.of_nat (length v))%Z).
  Proof.
    intros Hn. unfold triangulate2d, triangulate2d_rev. destruct (Nat.ltb_spec 3 (length v)); [|lia].
    assert (Hr : forall i, In i (map Z.of_nat (seq 0 (length v))) -> (0 <= i < Z.of_nat (length v))%Z).
    { intros i Hi. apply in_map_iff in Hi. destruct Hi as [k [<- Hk]]. apply in_seq in Hk. lia. }
    eexists. split; [reflexivity|]. split.
    - intros i Hi. apply triangulate_indices in Hi. rewrite enumerate_fst in Hi. apply Hr. exact Hi.
    - eexists. split; [reflexivity|]. intros i Hi. apply triangulate_indices in Hi. rewrite map_rev, enumerate_fst in Hi.
      apply in_rev in Hi. apply Hr. exact Hi.
  Qed.
End Entry.

Section RevR.
  Local Open Scope R_scope.
  Lemma osum_opp (g : @vtx R -> @vtx R -> R) l :
    Cyc.osum _ R 0 Rplus (fun a b => - g a b) l = - Cyc.osum _ R 0 Rplus g l.
  Proof.
    induction l as [|a l IH]; [cbn; ring|]. destruct l as [|b l]; [cbn; ring|].
    change (Cyc.osum _ R 0 Rplus (fun a b => - g a b) (a :: b :: l)) with (- g a b + Cyc.osum _ R 0 Rplus (fun a b => - g a b) (b :: l)).
    change (Cyc.osum _ R 0 Rplus g (a :: b :: l)) with (g a b + Cyc.osum _ R 0 Rplus g (b :: l)). rewrite IH. ring.
  Qed.
  (* reversing the vertex order negates the signed area *)
  Theorem area2_rev (poly : list (@vtx R)) : area2 (rev poly) = - area2 poly.
  Proof.
    unfold area2. rewrite (Cyc.csum_rev _ R 0 Rplus Rplus_comm (fun a b c => eq_sym (Rplus_assoc a b c)) Rplus_0_l).
    destruct poly as [|a l]; [cbn; ring|]. unfold Cyc.csum.
    assert (E : forall l', Cyc.osum _ R 0 Rplus (Cyc.flip_g _ R cross) l' = Cyc.osum _ R 0 Rplus (fun a b => - cross a b) l').
    { intros l'. induction l' as [|x l' IH]; [reflexivity|]. destruct l' as [|y l']; [reflexivity|].
      change (Cyc.osum _ R 0 Rplus (Cyc.flip_g _ R cross) (x :: y :: l')) with (Cyc.flip_g _ R cross x y + Cyc.osum _ R 0 Rplus (Cyc.flip_g _ R cross) (y :: l')).
      rewrite IH. unfold Cyc.flip_g. rewrite cross_anti. reflexivity. }
    rewrite E, osum_opp. unfold Cyc.flip_g. rewrite cross_anti. ring.
  Qed.

  (* when the run on the polygon and the run on its reversal are both complete and the polygon has area, the two
     reference windings -- hence the windings of all triangles of the two results -- are opposite *)
  Theorem rev_opposite (poly : list (@vtx R)) : (3 <= length poly)%nat ->
    length (triangulate poly) = (3 * (length poly - 2))%nat ->
    length (triangulate (rev poly)) = (3 * (length poly - 2))%nat ->
    area2 poly <> 0 -> ref_ccw (rev poly) = negb (ref_ccw poly).
  Proof.
    intros Hn Hc Hcr Ha.
    destruct (complete_area poly Hn Hc) as (_ & _ & Hp & Hq).
    assert (Hnr : (3 <= length (rev poly))%nat) by (rewrite rev_length; exact Hn).
    rewrite <- (rev_length poly) in Hcr.
    destruct (complete_area (rev poly) Hnr Hcr) as (_ & _ & Hpr & Hqr). rewrite area2_rev in Hpr, Hqr.
    destruct (ref_ccw poly) eqn:E1; destruct (ref_ccw (rev poly)) eqn:E2; cbn [negb]; try reflexivity; exfalso.
    - specialize (Hp eq_refl). specialize (Hpr eq_refl). lra.
    - specialize (Hq eq_refl). specialize (Hqr eq_refl). lra.
  Qed.
End RevR.
