(* Geom/Revolve_volume.v -- the volume enclosed by rotate_extrude (C04 outward, C05). Over R.
   Six times the signed volume (Volume_proofs.vol6) of rotate_extrude(profile, degrees, segments) is
       segments * sin(degrees/segments) * moment(profile),
   where moment(profile) = sum over the profile's edges a -> b of (xa + xb)(xa yb - xb ya) is six times the first
   moment of the profile about the axis (area times distance of the centroid from the axis; positive for a
   counter-clockwise outline in x > 0). This is Pappus' theorem with 2 pi replaced by segments * sin(360/segments).
   Both caps of a partial revolve lie in planes through the axis and contribute nothing. A clockwise profile right of the
   axis has moment < 0, hence vol6 < 0, which in the convention of Volume_proofs means faces clockwise seen from outside. *)
From Coq Require Import Reals ZArith List Bool Arith Lra Lia.
From SCAD Require Import Base.Num Base.NumR Base.Trig_proofs Base.Vec Geom.Poly Geom.Tri Geom.Tri_proofs Geom.Dim3 Geom.Mesh_proofs Geom.Dim3_proofs Geom.Volume_proofs Geom.Revolve_algebra.
Import ListNotations.
Local Open Scope R_scope.

From SCAD Require Geom.Cyc.
Definition moment (l : list V2) : R := Cyc.csum V2 R 0 Rplus mterm l.

(* a cyclic sum over R read by index *)
Lemma osum_indexed_R (g : V2 -> V2 -> R) (f : nat -> V2) : forall k s,
  Cyc.osum V2 R 0 Rplus g (map f (seq s (S k))) = rsum (map (fun i => g (f i) (f (S i))) (seq s k)).
Proof.
  induction k as [|k IH]; intros s; [reflexivity|]. cbn [seq map]. cbn [seq map] in IH. specialize (IH (S s)).
  change (Cyc.osum V2 R 0 Rplus g (f s :: f (S s) :: map f (seq (S (S s)) k))) with (g (f s) (f (S s)) + Cyc.osum V2 R 0 Rplus g (f (S s) :: map f (seq (S (S s)) k))).
  rewrite IH. reflexivity.
Qed.
Lemma csum_indexed_R (g : V2 -> V2 -> R) (l : list V2) (d : V2) : (1 <= length l)%nat ->
  Cyc.csum V2 R 0 Rplus g l = rsum (map (fun p => g (nth p l d) (nth (next_i (length l) p) l d)) (seq 0 (length l))).
Proof.
  intros Hl. set (k := length l). set (f := fun i => nth i l d).
  assert (El : l = map f (seq 0 k)).
  { apply (nth_ext _ _ d (f 0%nat)); [rewrite map_length, seq_length; reflexivity|]. intros i Hi. rewrite (map_nth f), seq_nth by exact Hi. reflexivity. }
  destruct k as [|k'] eqn:Ek; [unfold k in Ek; lia|].
  rewrite El at 1. change (map f (seq 0 (S k'))) with (f 0%nat :: map f (seq 1 k')). cbv beta iota delta [Cyc.csum].
  change (f 0%nat :: map f (seq 1 k')) with (map f (seq 0 (S k'))). rewrite osum_indexed_R.
  assert (Hlast : last (map f (seq 0 (S k'))) (f 0%nat) = f k').
  { rewrite seq_S, map_app. cbn [map Nat.add]. apply Cyc.last_app_cons. }
  rewrite Hlast. rewrite (seq_S k' 0), map_app, rsum_app. cbn [map rsum fold_right Nat.add].
  unfold next_i. replace (Nat.eqb k' (S k' - 1)) with true by (symmetry; apply Nat.eqb_eq; lia).
  fold f. rewrite Rplus_0_r. f_equal.
  f_equal. apply map_ext_in. intros i Hi. apply in_seq in Hi. replace (Nat.eqb i (S k' - 1)) with false by (symmetry; apply Nat.eqb_neq; lia).
  replace (i + 1)%nat with (S i) by lia. reflexivity.
Qed.
Lemma moment_indexed (l : list V2) : (1 <= length l)%nat ->
  moment l = rsum (map (fun p => mterm (nth p l (Pt2 0 0)) (nth (next_i (length l) p) l (Pt2 0 0))) (seq 0 (length l))).
Proof. apply csum_indexed_R. Qed.

Lemma vol6_flat_map {A} vs (F : A -> list (list Z)) l : vol6 vs (flat_map F l) = rsum (map (fun k => vol6 vs (F k)) l).
Proof. induction l as [|a l IH]; [reflexivity|]. cbn [flat_map map rsum fold_right]. rewrite vol6_app, IH. reflexivity. Qed.

(* one strip of side quads between the ring at angle al (first index ra) and the ring at angle be (first index rb) *)
Lemma strip_vol6 vs (profile : list V2) (ra rb : Z) al be :
  (forall j, (j < length profile)%nat -> ptz vs (ra + Z.of_nat j) = revolve_pt (nth j profile (Pt2 0 0)) al) ->
  (forall j, (j < length profile)%nat -> ptz vs (rb + Z.of_nat j) = revolve_pt (nth j profile (Pt2 0 0)) be) ->
  vol6 vs (map (quad_rev (Z.of_nat (length profile)) ra rb) (nseq (length profile))) = dsin (be - al) * moment profile.
Proof.
  intros Ha Hb. destruct (Nat.eq_dec (length profile) 0) as [E0|Hne].
  { rewrite E0. destruct profile; [|discriminate]. cbn. unfold moment. cbn. ring. }
  rewrite moment_indexed by lia. set (k := length profile) in *. set (n := Z.of_nat k). unfold vol6, nseq. rewrite map_map.
  assert (G : forall l : list nat, (forall j, In j l -> (j < k)%nat) ->
            fold_right (fun f s => face_vol6 vs f + s) 0 (map (fun x => quad_rev n ra rb (Z.of_nat x)) l) =
            dsin (be - al) * rsum (map (fun p => mterm (nth p profile (Pt2 0 0)) (nth (next_i k p) profile (Pt2 0 0))) l)).
  { induction l as [|j l IH]; intros Hall; [cbn; ring|]. cbn [map fold_right rsum]. fold (rsum (map (fun p => mterm (nth p profile (Pt2 0 0)) (nth (next_i k p) profile (Pt2 0 0))) l)).
    rewrite IH by (intros j' Hj'; apply Hall; right; exact Hj'). assert (Hj : (j < k)%nat) by (apply Hall; left; reflexivity).
    unfold quad_rev, face_vol6. cbn [fan].
    assert (Hm : (0 <= (Z.of_nat j + 1) mod n < n)%Z) by (apply Z.mod_pos_bound; unfold n; lia).
    assert (Hnx : ((Z.of_nat j + 1) mod n = Z.of_nat (next_i k j))%Z).
    { rewrite <- (next_modZ k j Hj). fold n. rewrite Z2Nat.id by apply Hm. reflexivity. }
    rewrite Hnx. assert (Hlt : (next_i k j < k)%nat) by (unfold next_i; destruct (Nat.eqb_spec j (k - 1)); lia).
    rewrite (Ha j Hj), (Ha _ Hlt), (Hb j Hj), (Hb _ Hlt). rewrite Rmult_plus_distr_l, <- quad_rev_det. ring. }
  apply G. intros j Hj. apply in_seq in Hj. lia.
Qed.

(* a cap all of whose vertices stand in one half-plane through the axis encloses no volume with the origin *)
Lemma cap_vol6_zero vs (profile : list V2) (poly : list (Z * V2)) off ang :
  (forall a, In a poly -> In a (enumerate profile)) ->
  (forall j, (j < length profile)%nat -> ptz vs (off + Z.of_nat j) = revolve_pt (nth j profile (Pt2 0 0)) ang) ->
  vol6 vs (triples (triangulate poly) off) = 0.
Proof.
  intros Hsub Hpt. rewrite triangulate_run, vol6_triples.
  destruct (clipv_vertices (ref_ccw poly) (length poly) poly) as [HF _]. fold (run poly) in HF. rewrite Forall_forall in HF.
  apply rsum_map_zero. intros [[a b] c] Ht. destruct (HF _ Ht) as (Ia & Ib & Ic). unfold tri_det.
  assert (Q : forall v, In v poly -> ptz vs (fst v + off) = revolve_pt (nth (Z.to_nat (fst v)) profile (Pt2 0 0)) ang).
  { intros v Hv. destruct (enumerate_in profile v (Pt2 0 0) (Hsub v Hv)) as [Rv _].
    replace (fst v + off)%Z with (off + Z.of_nat (Z.to_nat (fst v)))%Z by lia. apply Hpt. lia. }
  rewrite (Q a Ia), (Q b Ib), (Q c Ic). apply det3_same_angle.
Qed.

Theorem rotate_extrude_volume (profile : list V2) (degrees : R) (segments : Z) ph :
  rotate_extrude profile degrees segments = Some ph ->
  vol6 (fst ph) (snd ph) = IZR segments * dsin (degrees / IZR segments) * moment profile.
Proof.
  intros E. pose proof (rotate_extrude_rings profile degrees segments ph (Pt2 0 0) (Pt3 0 0 0) E) as Hr. cbv zeta in Hr. destruct Hr as [_ Hr].
  revert E. unfold rotate_extrude, triangulate2d, triangulate2d_rev.
  destruct (negb (_ && _)); [discriminate|]. destruct (Z.ltb_spec segments 3) as [|Hs]; [discriminate|].
  destruct (Nat.ltb 3 (length profile)); [|discriminate].
  intros E. apply some_inj in E. rewrite <- E in Hr |- *. clear E ph. cbv beta iota zeta delta [fst snd] in Hr |- *.
  change (Reqb degrees 360) with (neqb degrees (nofZ 360%Z)) in Hr.
  set (k := length profile) in *. set (n := Z.of_nat k). set (a := degrees / IZR segments) in *.
  change (degrees / nofZ segments)%num with a in Hr |- *.
  set (m := Z.to_nat (segments - 1)). set (mid := map (fun k : Z => (k + 1)%Z) (nseq m)).
  match goal with |- vol6 ?V _ = _ => set (vs := V) in * end.
  assert (Hsegs : Z.to_nat segments = S m) by (unfold m; lia).
  assert (HsegR : IZR segments = INR m + 1).
  { rewrite <- (Z2Nat.id segments) at 1 by lia. rewrite Hsegs, <- INR_IZR_INZ, S_INR. reflexivity. }
  (* ring lookup by Z index *)
  assert (Hpt : forall kk j, (kk <= (if neqb degrees (nofZ 360%Z) then (Z.to_nat segments - 1)%nat else Z.to_nat segments))%nat -> (j < k)%nat ->
            ptz vs (Z.of_nat kk * n + Z.of_nat j) = revolve_pt (nth j profile (Pt2 0 0)) (a * IZR (Z.of_nat kk))).
  { intros kk j Hk Hj. unfold ptz. replace (Z.to_nat (Z.of_nat kk * n + Z.of_nat j)) with (kk * k + j)%nat by (unfold n; nia). apply Hr; assumption. }
  (* the strips between consecutive rings 1 .. segments-1 *)
  assert (Hmid : vol6 vs (flat_map (fun kz : Z => map (quad_rev n ((kz - 1) * n) (kz * n)) (nseq k)) mid) = INR m * (dsin a * moment profile)).
  { rewrite vol6_flat_map. unfold mid, nseq. rewrite !map_map.
    assert (G : forall l : list nat, (forall i, In i l -> (i < m)%nat) ->
              rsum (map (fun x : nat => vol6 vs (map (quad_rev n ((Z.of_nat x + 1 - 1) * n) ((Z.of_nat x + 1) * n)) (map Z.of_nat (seq 0 k)))) l) = INR (length l) * (dsin a * moment profile)).
    { induction l as [|i l IH]; intros Hall; [cbn; ring|]. cbn [map rsum fold_right length]. fold (rsum (map (fun x : nat => vol6 vs (map (quad_rev n ((Z.of_nat x + 1 - 1) * n) ((Z.of_nat x + 1) * n)) (map Z.of_nat (seq 0 k)))) l)).
      rewrite IH by (intros i' Hi'; apply Hall; right; exact Hi'). assert (Hi : (i < m)%nat) by (apply Hall; left; reflexivity).
      change (map Z.of_nat (seq 0 k)) with (nseq k). unfold n, k.
      rewrite (strip_vol6 vs profile _ _ (a * IZR (Z.of_nat i)) (a * IZR (Z.of_nat (S i)))).
      - replace (a * IZR (Z.of_nat (S i)) - a * IZR (Z.of_nat i)) with a by (rewrite Nat2Z.inj_succ, succ_IZR; ring).
        rewrite S_INR. ring.
      - intros j Hj. replace (Z.of_nat i + 1 - 1)%Z with (Z.of_nat i) by lia. apply Hpt; [|exact Hj]. destruct (neqb degrees (nofZ 360%Z)); lia.
      - intros j Hj. replace (Z.of_nat i + 1)%Z with (Z.of_nat (S i)) by lia. apply Hpt; [|exact Hj]. destruct (neqb degrees (nofZ 360%Z)); lia. }
    rewrite G; [rewrite seq_length; reflexivity|]. intros i Hi. apply in_seq in Hi. lia. }
  destruct (neqb degrees (nofZ 360%Z)) eqn:E360; cbv beta iota delta [negb].
  - (* full turn: the last strip joins ring segments-1 to ring 0 *)
    cbn [app]. rewrite vol6_app, Hmid.
    assert (Hdeg : degrees = 360) by (apply Reqb_true; exact E360).
    replace ((segments - 1) * n)%Z with (Z.of_nat m * n)%Z by (unfold m; lia).
    unfold n, k. rewrite (strip_vol6 vs profile _ _ (a * IZR (Z.of_nat m)) (a * IZR (Z.of_nat 0))).
    + replace (a * IZR (Z.of_nat 0) - a * IZR (Z.of_nat m)) with (- (360 - a)).
      * rewrite dsin_neg, dsin_360_minus', HsegR. ring.
      * cbn [Z.of_nat]. rewrite <- INR_IZR_INZ. unfold a. rewrite Hdeg, HsegR. field. pose proof (pos_INR m). lra.
    + intros j Hj. apply Hpt; [lia|exact Hj].
    + intros j Hj. replace (0 + Z.of_nat j)%Z with (Z.of_nat 0 * Z.of_nat (length profile) + Z.of_nat j)%Z by lia. apply Hpt; [lia|exact Hj].
  - (* partial turn: start cap, strips, last strip, end cap *)
    rewrite !vol6_app, Hmid.
    rewrite (cap_vol6_zero vs profile (enumerate profile) 0 (a * IZR (Z.of_nat 0))).
    2:{ intros v Hv; exact Hv. }
    2:{ intros j Hj. replace (0 + Z.of_nat j)%Z with (Z.of_nat 0 * n + Z.of_nat j)%Z by lia. apply Hpt; [lia|exact Hj]. }
    rewrite (cap_vol6_zero vs profile (rev (enumerate profile)) (segments * n) (a * IZR (Z.of_nat (S m)))).
    2:{ intros v Hv. apply in_rev. exact Hv. }
    2:{ intros j Hj. replace (segments * n)%Z with (Z.of_nat (S m) * n)%Z by lia. apply Hpt; [lia|exact Hj]. }
    replace ((segments - 1) * n)%Z with (Z.of_nat m * n)%Z by (unfold m; lia).
    replace (segments * n)%Z with (Z.of_nat (S m) * n)%Z by lia.
    unfold n, k. rewrite (strip_vol6 vs profile _ _ (a * IZR (Z.of_nat m)) (a * IZR (Z.of_nat (S m)))).
    + replace (a * IZR (Z.of_nat (S m)) - a * IZR (Z.of_nat m)) with a by (rewrite Nat2Z.inj_succ, succ_IZR; ring).
      rewrite HsegR. ring.
    + intros j Hj. apply Hpt; [lia|exact Hj].
    + intros j Hj. apply Hpt; [lia|exact Hj].
Qed.

(* ---------------- the sign of the moment: a clockwise profile right of the axis ---------------- *)
Notation vtxR := (@vtx R).
Definition mcross (u v : vtxR) : R := mterm (snd u) (snd v).
Lemma mcross_anti a b : mcross b a = - mcross a b.
Proof. unfold mcross, mterm. ring. Qed.
Definition tri_moment (t : @tri3 R) : R := let '(a, b, c) := t in mcross a b + mcross b c + mcross c a.
Lemma tri_moment_area t : tri_moment t = (let '(a, b, c) := t in x2 (snd a) + x2 (snd b) + x2 (snd c)) * Tri_proofs.tri_area2 t.
Proof. destruct t as [[a b] c]. unfold tri_moment, mcross, mterm, Tri_proofs.tri_area2, Tri_proofs.cross. ring. Qed.
Lemma sum_tri_is_rsum_moment l : sum_tri R 0 Rplus mcross l = rsum (map tri_moment l).
Proof. induction l as [|[[a b] c] l IH]; [reflexivity|]. cbn [sum_tri map rsum fold_right tri_moment]. fold (rsum (map tri_moment l)). rewrite IH. reflexivity. Qed.
Lemma osum_map_snd_g (g : V2 -> V2 -> R) (l : list vtxR) :
  Cyc.osum vtxR R 0 Rplus (fun a b => g (snd a) (snd b)) l = Cyc.osum V2 R 0 Rplus g (map snd l).
Proof.
  induction l as [|a l IH]; [reflexivity|]. destruct l as [|b l]; [reflexivity|]. cbn [map] in *.
  change (Cyc.osum vtxR R 0 Rplus (fun a b => g (snd a) (snd b)) (a :: b :: l)) with (g (snd a) (snd b) + Cyc.osum vtxR R 0 Rplus (fun a b => g (snd a) (snd b)) (b :: l)).
  change (Cyc.osum V2 R 0 Rplus g (snd a :: snd b :: map snd l)) with (g (snd a) (snd b) + Cyc.osum V2 R 0 Rplus g (snd b :: map snd l)).
  rewrite IH. reflexivity.
Qed.
Lemma moment_vtx (l : list vtxR) : Cyc.csum vtxR R 0 Rplus mcross l = moment (map snd l).
Proof.
  destruct l as [|a l]; [reflexivity|]. unfold moment, Cyc.csum. cbn [map]. f_equal; [apply (osum_map_snd_g mterm (a :: l))|].
  change (snd a :: map snd l) with (map snd (a :: l)). rewrite (Mesh_proofs.last_map snd (a :: l) a). reflexivity.
Qed.

(* with a complete triangulation the moment is the sum over the triangles of (xa + xb + xc) times their signed area *)
Theorem moment_by_triangles (profile : list V2) : (3 <= length profile)%nat -> complete (enumerate profile) ->
  moment profile = rsum (map tri_moment (fst (run (enumerate profile)))).
Proof.
  intros Hn Hc. set (poly := enumerate profile). assert (Hl : (3 <= length poly)%nat) by (unfold poly; rewrite enumerate_length; lia).
  destruct (triangulate_count poly Hl) as (Hlen & _). cbv zeta in Hlen. unfold complete in Hc. fold poly in Hc.
  assert (Hrest : length (snd (run poly)) = 2%nat) by lia.
  pose proof (clipv_group R 0 Rplus Ropp Rplus_comm (fun a b c => eq_sym (Rplus_assoc a b c)) Rplus_0_l Rplus_opp_r mcross mcross_anti (ref_ccw poly) (length poly) poly) as Hs.
  cbv zeta in Hs. fold (run poly) in Hs.
  assert (Hz : Cyc.csum vtxR R 0 Rplus mcross (snd (run poly)) = 0).
  { destruct (snd (run poly)) as [|a [|b [|c r]]]; try discriminate.
    apply (csum_two R 0 Rplus Ropp Rplus_comm Rplus_0_l Rplus_opp_r mcross mcross_anti). }
  rewrite Hz, Rplus_0_l, sum_tri_is_rsum_moment, moment_vtx in Hs. unfold poly in Hs at 1. rewrite enumerate_snd in Hs. exact Hs.
Qed.

Theorem moment_bound (profile : list V2) (xmin : R) : (3 <= length profile)%nat -> complete (enumerate profile) ->
  Forall (fun p => xmin <= x2 p) profile -> 0 <= xmin -> Poly.area2 profile <= 0 ->
  moment profile <= 3 * xmin * Poly.area2 profile.
Proof.
  intros Hn Hc Hx Hx0 Ha. rewrite (moment_by_triangles profile Hn Hc).
  set (poly := enumerate profile) in *. assert (Hl : (3 <= length poly)%nat) by (unfold poly; rewrite enumerate_length; lia).
  destruct (complete_area poly Hl Hc) as (Hsum & _ & Hccw & _).
  assert (Harea : Tri_proofs.area2 poly = Poly.area2 profile) by (unfold poly; rewrite vtx_area2_is_poly_area2, enumerate_snd; reflexivity).
  assert (Hr : ref_ccw poly = false).
  { destruct (ref_ccw poly) eqn:Er; [|reflexivity]. specialize (Hccw eq_refl). rewrite Harea in Hccw. lra. }
  pose proof (clipv_winding (ref_ccw poly) (length poly) poly) as Hw. fold (run poly) in Hw. rewrite Hr in Hw.
  destruct (clipv_vertices (ref_ccw poly) (length poly) poly) as [HF _]. fold (run poly) in HF.
  rewrite <- Harea, <- Hsum, sum_area2_rsum. rewrite <- rsum_map_scal.
  clear Hsum Hccw Harea Ha Hc.
  induction (fst (run poly)) as [|t l IH]; [cbn; lra|].
  inversion Hw as [|t' l' Ht Hw']; subst. inversion HF as [|t' l' Hv HF']; subst.
  cbn [map rsum fold_right]. fold (rsum (map tri_moment l)) (rsum (map (fun t => 3 * xmin * Tri_proofs.tri_area2 t) l)).
  specialize (IH Hw' HF'). rewrite tri_moment_area. destruct t as [[a b] c]. destruct Hv as (Ia & Ib & Ic).
  assert (Q : forall v, In v poly -> xmin <= x2 (snd v)).
  { intros v Hv. destruct (enumerate_in profile v (Pt2 0 0) Hv) as [Rv Ev]. rewrite Ev. rewrite Forall_forall in Hx. apply Hx. apply nth_In. lia. }
  pose proof (Q a Ia). pose proof (Q b Ib). pose proof (Q c Ic).
  assert (Hneg : Tri_proofs.tri_area2 (a, b, c) <= 0).
  { unfold wound in Ht. destruct (Rle_dec (Tri_proofs.tri_area2 (a, b, c)) 0) as [Hle|Hgt]; [exact Hle|].
    exfalso. assert (Hp : 0 < Tri_proofs.tri_area2 (a, b, c)) by lra. apply is_ccw_area in Hp. rewrite Hp in Ht. discriminate. }
  nra.
Qed.

(* OUTWARD: a clockwise profile strictly right of the axis, completely triangulated, revolved by any angle in (0, 360]:
   vol6 < 0, i.e. (Volume_proofs convention) the faces wind clockwise seen from outside and enclose positive volume *)
Theorem rotate_extrude_outward (profile : list V2) (degrees : R) (segments : Z) ph (xmin : R) :
  rotate_extrude profile degrees segments = Some ph -> 0 < degrees ->
  complete (enumerate profile) -> Forall (fun p => xmin <= x2 p) profile -> 0 < xmin -> Poly.area2 profile < 0 ->
  vol6 (fst ph) (snd ph) < 0.
Proof.
  intros E Hd Hc Hx Hx0 Ha. rewrite (rotate_extrude_volume profile degrees segments ph E).
  revert E. unfold rotate_extrude, triangulate2d. destruct (negb (_ && _)) eqn:Erange; [discriminate|]. destruct (Z.ltb_spec segments 3) as [|Hs]; [discriminate|].
  destruct (Nat.ltb_spec 3 (length profile)) as [Hn|]; [|discriminate]. intros _.
  apply negb_false_iff, andb_true_iff in Erange. destruct Erange as [_ H360]. change (Rleb degrees 360 = true) in H360. apply Rleb_true in H360.
  assert (Hseg : 3 <= IZR segments) by (apply IZR_le; exact Hs).
  assert (Hang : 0 < degrees / IZR segments < 180).
  { split; [apply Rdiv_lt_0_compat; lra|]. apply (Rmult_lt_reg_r (IZR segments)); [lra|]. unfold Rdiv. rewrite Rmult_assoc, Rinv_l by lra. nra. }
  assert (Hsin : 0 < dsin (degrees / IZR segments)).
  { rewrite dsin_def. pose proof PI_RGT_0. apply sin_gt_0; [|apply (Rmult_lt_reg_r (180 / PI)); [apply Rdiv_lt_0_compat; lra|]; field_simplify; lra]. 
    apply Rdiv_lt_0_compat; [|lra]. apply Rmult_lt_0_compat; lra. }
  pose proof (moment_bound profile xmin ltac:(lia) Hc Hx ltac:(lra) ltac:(lra)) as Hm.
  assert (moment profile < 0) by nra.
  assert (0 < IZR segments * dsin (degrees / IZR segments)) by (apply Rmult_lt_0_compat; lra).
  nra.
Qed.

(* sanity: the washer profile [1,2] x [0,1] wound clockwise has moment -3 (2^2 - 1^2) 1 = -9, so the revolve encloses
   segments * sin(360/segments) * 9 / 6, which tends to pi (2^2 - 1^2) 1 = 3 pi *)
Example washer_moment : moment [Pt2 1 0; Pt2 1 1; Pt2 2 1; Pt2 2 0] = -9.
Proof. unfold moment, Cyc.csum, mterm. cbn [Cyc.osum last x2 y2]. ring. Qed.
