(* Geom/Sweep_caps.v -- C05/C04: the end cap of an open sweep is completely triangulated for every fan-convex profile
   (every strictly convex one, every rounded rectangle), whatever direction the path ends in. Over R.
   The last ring is the profile turned in its plane, placed by a proper rotation and moved to the last path point; the
   triangulator projects it along the dominant axis of the end normal. The composite is an affine map of the plane whose
   determinant is, up to sign, the component of the unit end direction along that axis -- not zero, because a dominant
   component of a non-zero vector is not zero. Orientations of all triples are multiplied by that determinant, so
   fan-convexity carries over (with the winding flipped when it is negative), and the ear clipper completes. *)
From Coq Require Import Reals ZArith List Bool Arith Lra Lia Psatz.
From SCAD Require Import Base.Num Base.NumR Base.Trig_proofs Base.Vec Base.Vec_proofs Base.Mat Base.Mat_proofs Base.Rot_proofs
  Geom.Poly Geom.Tri Geom.Tri_proofs Geom.Dim2 Geom.Dim3 Geom.Dim3_proofs Geom.Mesh_proofs Geom.Tri_convex Geom.Fan_convex.
Import ListNotations.
Local Open Scope R_scope.
Notation V3 := (pt3 R).

(* ---- a proper rotation maps the frame to a right-handed one ---- *)
Lemma cross_of_proper (m : M4) : proper_rotation m -> pt3_cross (acts m (Pt3 1 0 0)) (acts m (Pt3 0 1 0)) = acts m (Pt3 0 0 1).
Proof.
  intros [Hiso Hdet].
  pose proof (Hiso (Pt3 1 0 0) (Pt3 1 0 0)) as Hxx. pose proof (Hiso (Pt3 0 1 0) (Pt3 0 1 0)) as Hyy. pose proof (Hiso (Pt3 0 0 1) (Pt3 0 0 1)) as Hzz.
  pose proof (Hiso (Pt3 1 0 0) (Pt3 0 1 0)) as Hxy.
  revert Hdet Hxx Hyy Hzz Hxy. generalize (acts m (Pt3 1 0 0)) (acts m (Pt3 0 1 0)) (acts m (Pt3 0 0 1)). intros [ax ay az] [bx by_ bz] [cx cy cz].
  unfold pt3_dot, pt3_cross. cbn [x3 y3 z3 nadd nmul nsub NumR]. intros Hdet Hxx Hyy Hzz Hxy.
  (* |a x b|^2 = |a|^2 |b|^2 - (a.b)^2 = 1, |c| = 1, (a x b).c = 1: |a x b - c|^2 = 0 *)
  set (ux := ay * bz - az * by_) in *. set (uy := az * bx - ax * bz) in *. set (uz := ax * by_ - ay * bx) in *.
  assert (Hu : ux * ux + uy * uy + uz * uz = 1).
  { assert (L : ux * ux + uy * uy + uz * uz = (ax * ax + ay * ay + az * az) * (bx * bx + by_ * by_ + bz * bz) - (ax * bx + ay * by_ + az * bz) * (ax * bx + ay * by_ + az * bz)) by (unfold ux, uy, uz; ring).
    rewrite L, Hxx, Hyy, Hxy. ring. }
  assert (Hz : (ux - cx) * (ux - cx) + (uy - cy) * (uy - cy) + (uz - cz) * (uz - cz) = 0) by nra.
  pose proof (Rle_0_sqr (ux - cx)) as S1. pose proof (Rle_0_sqr (uy - cy)) as S2. pose proof (Rle_0_sqr (uz - cz)) as S3. unfold Rsqr in S1, S2, S3.
  assert (Q1 : (ux - cx) * (ux - cx) = 0) by lra. assert (Q2 : (uy - cy) * (uy - cy) = 0) by lra. assert (Q3 : (uz - cz) * (uz - cz) = 0) by lra.
  apply Rmult_integral in Q1. apply Rmult_integral in Q2. apply Rmult_integral in Q3. f_equal; [destruct Q1|destruct Q2|destruct Q3]; lra.
Qed.

(* every frame of the library (up = +Z) is a proper rotation whose third axis is the unit direction it looks along *)
Lemma look_at_upz (s e : V3) : s <> e -> proper_rotation (mt4_look_at_lh s e up_z) /\ acts (mt4_look_at_lh s e up_z) (Pt3 0 0 1) = direction s e.
Proof.
  intros Hne. change up_z with (Pt3 0 0 1 : V3).
  destruct (pt3_is_zero (pt3_cross (Pt3 0 0 1) (direction s e))) eqn:Ez.
  - apply pt3_is_zero_true in Ez.
    assert (Hf : pt3_dot (direction s e) (direction s e) = 1) by (apply pt3_normalized_dot1, pt3_sub_nonzero; exact Hne).
    assert (Hv : direction s e = Pt3 0 0 1 \/ direction s e = Pt3 0 0 (-1)).
    { destruct (direction s e) as [fx fy fz]. revert Ez Hf. rred. intros Ez Hf. injection Ez as E1 E2 _.
      assert (fy = 0) by lra. assert (fx = 0) by lra. subst fx fy.
      assert (Hz : fz * fz = 1) by lra. assert (Hz' : (fz - 1) * (fz + 1) = 0) by lra.
      apply Rmult_integral in Hz'. destruct Hz' as [Hz'|Hz']; [left|right]; f_equal; lra. }
    destruct (look_at_vertical s e Hne Hv) as (Hp & Hz & _). split; assumption.
  - assert (Hnz : pt3_cross (Pt3 0 0 1) (direction s e) <> Pt3 0 0 0).
    { intros E. rewrite E in Ez. unfold pt3_is_zero in Ez. cbn [x3 y3 z3 neqb nzero NumR] in Ez.
      assert (Reqb 0 0 = true) as E0 by (apply Reqb_true; reflexivity). rewrite E0 in Ez. discriminate. }
    destruct (look_at_rotation s e (Pt3 0 0 1) Hne Hnz) as (Hp & Hz & _). split; assumption.
Qed.

(* ---- fan-convexity under a map of the plane that multiplies all orientations by D <> 0 ---- *)
Lemma fanconv_scaled sigma (p p' : list vtxR) (G : V2 -> V2) (D : R) : D <> 0 -> length p' = length p ->
  (forall a b c, orientR (G a) (G b) (G c) = D * orientR a b c) ->
  (forall i, (i < length p)%nat -> pt_at p' i = G (pt_at p i)) -> fanconv sigma p -> fanconv (if Rltb 0 D then sigma else negb sigma) p'.
Proof.
  intros HD Hlen HG Hpt [Hf Hl].
  assert (S : forall x, osign sigma x -> osign (if Rltb 0 D then sigma else negb sigma) (D * x)).
  { intros x Hx. destruct (Rltb 0 D) eqn:E; [apply Rltb_true in E|apply Rltb_false in E; assert (D < 0) by (destruct (Rtotal_order D 0) as [Q|[Q|Q]]; [exact Q|contradiction|lra])];
      unfold osign in *; destruct sigma; cbn [negb]; nra. }
  split.
  - intros i j Hij Hj. rewrite Hlen in Hj |- *. rewrite !Hpt by lia. rewrite HG. apply S. apply Hf; assumption.
  - intros i Hi. rewrite Hlen in Hi |- *.
    assert (Hp : (prev_i (length p) i < length p)%nat) by (unfold prev_i; destruct (Nat.eqb_spec i 0); lia).
    assert (Hx : (next_i (length p) i < length p)%nat) by (unfold next_i; destruct (Nat.eqb_spec i (length p - 1)); lia).
    rewrite !Hpt by assumption. rewrite HG. apply S. apply Hl. exact Hi.
Qed.

(* ---- the projection of a placed profile point ---- *)
Lemma acts_plane (m : M4) (a b : R) : acts m (Pt3 a b 0) = pt3_add (pt3_mul (acts m (Pt3 1 0 0)) a) (pt3_mul (acts m (Pt3 0 1 0)) b).
Proof. destruct m as [[a1 a2 a3 a4] [b1 b2 b3 b4] [c1 c2 c3 c4] [d1 d2 d3 d4]]. unfold acts. rred. f_equal; ring. Qed.

Lemma abs_le0 a : Rabs a <= 0 -> a = 0.
Proof. intros Ha. destruct (Req_dec a 0) as [E|N]; [exact E|]. pose proof (Rabs_pos_lt a N). lra. Qed.
Lemma dominant_nonzero (n : V3) : n <> Pt3 0 0 0 ->
  (Rabs (y3 n) <= Rabs (x3 n) -> Rabs (z3 n) <= Rabs (x3 n) -> x3 n <> 0) /\
  (Rabs (x3 n) <= Rabs (y3 n) -> Rabs (z3 n) <= Rabs (y3 n) -> y3 n <> 0) /\
  (Rabs (x3 n) <= Rabs (z3 n) -> Rabs (y3 n) <= Rabs (z3 n) -> z3 n <> 0).
Proof.
  destruct n as [nx ny nz]. cbn [x3 y3 z3]. intros Hn.
  split; [|split]; intros H1 H2 E; apply Hn; rewrite E, Rabs_R0 in H1, H2; apply abs_le0 in H1; apply abs_le0 in H2; subst; reflexivity.
Qed.

(* ---- the projected last ring is the profile under a map that multiplies orientations by a non-zero number ---- *)
Lemma projected_ring_scales (P Q c : V3) (theta : R) : P <> Q ->
  let n := pt3_sub Q P in let M := mt4_look_at_lh P Q up_z in
  let G := fun p : V2 => project n (placed M theta c p) in
  exists D, D <> 0 /\ forall p1 p2 p3, orientR (G p1) (G p2) (G p3) = D * orientR p1 p2 p3.
Proof.
  intros Hne n M G. destruct (look_at_upz P Q Hne) as [Hprop Hfwd]. fold M in Hprop, Hfwd.
  pose proof (cross_of_proper M Hprop) as Hcross. rewrite Hfwd in Hcross.
  assert (Hnz : pt3_nonzero n) by (apply pt3_sub_nonzero; exact Hne).
  assert (Hn0 : n <> Pt3 0 0 0) by (intros E; unfold pt3_nonzero in Hnz; rewrite E in Hnz; cbn [x3 y3 z3] in Hnz; tauto).
  destruct (pt3_normalized_dir n Hnz) as [Hdir0 Hk]. set (k := / pt3_len n) in *.
  assert (Hdir : direction P Q = pt3_mul n k) by (unfold direction; exact Hdir0). clear Hdir0. clearbody k. clearbody n.
  destruct (dominant_nonzero n Hn0) as (DX & DY & DZ).
  assert (HG : forall p, G p = project n (pt3_add (pt3_add (pt3_mul (acts M (Pt3 1 0 0)) (x2 p * dcos theta - y2 p * dsin theta))
                                                      (pt3_mul (acts M (Pt3 0 1 0)) (x2 p * dsin theta + y2 p * dcos theta))) c)).
  { intros p. unfold G, placed. f_equal. f_equal. unfold pt3_rotated_z. cbn [x3 y3 z3 nmul nsub nadd NumR]. apply acts_plane. }
  pose proof (dsin2_dcos2 theta) as Hsc. revert HG Hcross. generalize (acts M (Pt3 1 0 0)) (acts M (Pt3 0 1 0)). intros [ax ay az] [bx by_ bz] HG Hcross.
  rewrite Hdir in Hcross. unfold pt3_cross, pt3_mul in Hcross. cbn [x3 y3 z3 nmul nsub NumR] in Hcross. injection Hcross as Cx Cy Cz.
  destruct n as [nx ny nz]. cbn [x3 y3 z3] in *. destruct c as [c1 c2 c3].
  unfold project in HG. cbn [nabs nleb nzero nneg x3 y3 z3 NumR] in HG.
  destruct (Rleb (Rabs ny) (Rabs nx)) eqn:E1; destruct (Rleb (Rabs nz) (Rabs nx)) eqn:E2; cbn [andb] in HG.
  1:{ (* x dominant *)
      apply Rleb_true in E1. apply Rleb_true in E2. specialize (DX E1 E2).
      destruct (Rleb 0 nx) eqn:Es.
      - exists (nx * k). split; [apply Rmult_integral_contrapositive_currified; lra|]. intros [x1 y1] [x2' y2'] [x3' y3'].
        rewrite !HG. unfold orientR, pt3_add, pt3_mul. cbn [x2 y2 x3 y3 z3 nadd nmul NumR]. rewrite <- Cx.
        transitivity ((ay * bz - az * by_) * (dsin theta * dsin theta + dcos theta * dcos theta) * ((x2' - x1) * (y3' - y1) - (x3' - x1) * (y2' - y1))); [ring|rewrite Hsc; ring].
      - exists (- (nx * k)). split; [apply Ropp_neq_0_compat, Rmult_integral_contrapositive_currified; lra|]. intros [x1 y1] [x2' y2'] [x3' y3'].
        rewrite !HG. unfold orientR, pt3_add, pt3_mul. cbn [x2 y2 x3 y3 z3 nadd nmul NumR]. rewrite <- Cx.
        transitivity (- ((ay * bz - az * by_) * (dsin theta * dsin theta + dcos theta * dcos theta) * ((x2' - x1) * (y3' - y1) - (x3' - x1) * (y2' - y1)))); [ring|rewrite Hsc; ring]. }
  all: destruct (Rleb (Rabs nx) (Rabs ny)) eqn:E3; destruct (Rleb (Rabs nz) (Rabs ny)) eqn:E4; cbn [andb] in HG.
  all: try (apply Rleb_true in E3; apply Rleb_true in E4; specialize (DY E3 E4);
            destruct (Rleb 0 ny) eqn:Es;
            [ exists (ny * k); split; [apply Rmult_integral_contrapositive_currified; lra|]; intros [x1 y1] [x2' y2'] [x3' y3'];
              rewrite !HG; unfold orientR, pt3_add, pt3_mul; cbn [x2 y2 x3 y3 z3 nadd nmul nneg NumR]; rewrite <- Cy;
              transitivity ((az * bx - ax * bz) * (dsin theta * dsin theta + dcos theta * dcos theta) * ((x2' - x1) * (y3' - y1) - (x3' - x1) * (y2' - y1))); [ring|rewrite Hsc; ring]
            | exists (- (ny * k)); split; [apply Ropp_neq_0_compat, Rmult_integral_contrapositive_currified; lra|]; intros [x1 y1] [x2' y2'] [x3' y3'];
              rewrite !HG; unfold orientR, pt3_add, pt3_mul; cbn [x2 y2 x3 y3 z3 nadd nmul nneg NumR]; rewrite <- Cy;
              transitivity (- ((az * bx - ax * bz) * (dsin theta * dsin theta + dcos theta * dcos theta) * ((x2' - x1) * (y3' - y1) - (x3' - x1) * (y2' - y1)))); [ring|rewrite Hsc; ring] ]; fail).
  all: destruct (Rleb (Rabs nx) (Rabs nz)) eqn:E5; destruct (Rleb (Rabs ny) (Rabs nz)) eqn:E6; cbn [andb] in HG.
  all: try (apply Rleb_true in E5; apply Rleb_true in E6; specialize (DZ E5 E6);
            destruct (Rleb 0 nz) eqn:Es;
            [ exists (nz * k); split; [apply Rmult_integral_contrapositive_currified; lra|]; intros [x1 y1] [x2' y2'] [x3' y3'];
              rewrite !HG; unfold orientR, pt3_add, pt3_mul; cbn [x2 y2 x3 y3 z3 nadd nmul nneg NumR]; rewrite <- Cz;
              transitivity ((ax * by_ - ay * bx) * (dsin theta * dsin theta + dcos theta * dcos theta) * ((x2' - x1) * (y3' - y1) - (x3' - x1) * (y2' - y1))); [ring|rewrite Hsc; ring]
            | exists (- (nz * k)); split; [apply Ropp_neq_0_compat, Rmult_integral_contrapositive_currified; lra|]; intros [x1 y1] [x2' y2'] [x3' y3'];
              rewrite !HG; unfold orientR, pt3_add, pt3_mul; cbn [x2 y2 x3 y3 z3 nadd nmul nneg NumR]; rewrite <- Cz;
              transitivity (- ((ax * by_ - ay * bx) * (dsin theta * dsin theta + dcos theta * dcos theta) * ((x2' - x1) * (y3' - y1) - (x3' - x1) * (y2' - y1)))); [ring|rewrite Hsc; ring] ]; fail).
  (* no axis dominant: impossible for real numbers *)
  all: exfalso; repeat match goal with H : Rleb _ _ = false |- _ => apply Rleb_false in H | H : Rleb _ _ = true |- _ => apply Rleb_true in H end; lra.
Qed.

(* ---- the last ring of an open sweep as the placed profile ---- *)
Lemma last_points_placed (profile : list V2) (path : list V3) (twist : R) :
  let len := Z.of_nat (length path) in
  sweep_last_points profile path twist false =
  map (placed (mt4_look_at_lh (nthp3 path (len - 2)) (nthp3 path (len - 1)) up_z) (sweep_twist_angle path twist false * IZR (len - 1)) (nthp3 path (len - 1))) profile.
Proof.
  cbv zeta. unfold sweep_last_points. rewrite map_map. apply map_ext. intros p. unfold placed.
  rewrite look_at_no_translation. reflexivity.
Qed.

Theorem sweep_end_cap_complete (profile : list V2) (path : list V3) (twist : R) :
  let len := Z.of_nat (length path) in
  (3 <= length profile)%nat -> fanconv false (enumerate profile) -> nthp3 path (len - 2) <> nthp3 path (len - 1) ->
  complete (enumerate (map (project (sweep_end_normal path)) (sweep_last_points profile path twist false))).
Proof.
  intros len Hk Hfc Hne. rewrite last_points_placed. fold len. rewrite map_map.
  set (P := nthp3 path (len - 2)) in *. set (Q := nthp3 path (len - 1)) in *.
  change (sweep_end_normal path) with (pt3_sub Q P).
  destruct (projected_ring_scales P Q Q (sweep_twist_angle path twist false * IZR (len - 1)) Hne) as (D & HD & HG). cbv zeta in HG.
  set (G := fun p : V2 => project (pt3_sub Q P) (placed (mt4_look_at_lh P Q up_z) (sweep_twist_angle path twist false * IZR (len - 1)) Q p)) in *.
  assert (Hlen : length (enumerate (map G profile)) = length (enumerate profile)) by (rewrite !enumerate_length, map_length; reflexivity).
  apply (fanconv_complete (if Rltb 0 D then false else negb false)); [|rewrite Hlen, enumerate_length; exact Hk].
  apply (fanconv_scaled false (enumerate profile) (enumerate (map G profile)) G D HD Hlen HG); [|exact Hfc].
  intros i Hi. rewrite enumerate_length in Hi. unfold pt_at.
  rewrite (enumerate_nthv (map G profile) i (G (Pt2 0 0))) by (rewrite map_length; exact Hi).
  rewrite (enumerate_nthv profile i (Pt2 0 0)) by exact Hi. apply (map_nth G).
Qed.

(* OPEN SWEEPS OF FAN-CONVEX PROFILES: closed in the exact form with no hypothesis on the caps -- every strictly convex
   profile (circle, inscribed / circumscribed polygons) and every rounded rectangle, along every path whose last two
   points differ *)
From SCAD Require Import Geom.Mesh_exact Geom.Mesh_exact2.
Theorem sweep_fanconvex_closed (profile : list V2) (path : list V3) (twist : R) ph :
  sweep profile path twist false = Some ph -> (3 <= length profile)%nat ->
  fanconv false (enumerate profile) -> fanconv true (rev (enumerate profile)) ->
  nthp3 path (Z.of_nat (length path) - 2) <> nthp3 path (Z.of_nat (length path) - 1) ->
  closed_exact (snd ph).
Proof.
  intros E Hk F1 F2 Hne. apply (sweep_closed_exact profile path twist false ph E Hk); [discriminate|].
  intros _. split.
  - apply (fanconv_complete true); [exact F2|rewrite rev_length, enumerate_length; exact Hk].
  - apply sweep_end_cap_complete; assumption.
Qed.
