(* Geom/Chamfer_complete.v -- C03: the chamfer outline (two reflex corners) is completely triangulated for 0 < oversize <
   size: it is star-shaped from its last vertex (0, 0) with its vertices in angular order, and the reference winding test
   (at that same vertex, the lowest of the two left-most ones) says clockwise. Over R. *)
From Coq Require Import Reals ZArith List Bool Arith Lra Lia Psatz.
From SCAD Require Import Base.Num Base.NumR Base.Vec Geom.Poly Geom.Tri Geom.Tri_proofs Geom.Dim2 Geom.Dim3 Geom.Mesh_proofs Geom.Tri_convex Geom.Fan_convex.
Import ListNotations.
Local Open Scope R_scope.

Section Chamfer.
  Variables size oversize : R.
  Hypothesis Ho : 0 < oversize.
  Hypothesis Hs : oversize < size.
  Let p := enumerate (chamfer size oversize).

  Lemma chamfer_fan : fan false p.
  Proof.
    intros i j Hij Hj. unfold p in *. cbn [length enumerate chamfer combine map seq] in Hj.
    unfold osign, pt_at, nthv, enumerate, chamfer. cbn [length combine map seq Nat.sub].
    destruct i as [|[|[|[|[|[|i]]]]]]; destruct j as [|[|[|[|[|[|j]]]]]]; try lia;
      cbn [nth snd]; unfold orientR; cbn [x2 y2 nzero nadd NumR]; nra.
  Qed.

  Lemma chamfer_ref : ref_ccw p = false.
  Proof.
    assert (F1 : Rltb 0 0 = false) by (apply Rltb_false; lra). assert (F2 : Reqb 0 0 = true) by (apply Reqb_true; reflexivity).
    assert (F3 : Rltb (size + oversize) (size + oversize) = false) by (apply Rltb_false; lra).
    assert (F4 : Rltb oversize 0 = false) by (apply Rltb_false; lra). assert (F5 : Reqb oversize 0 = false) by (apply Reqb_false; lra).
    assert (F6 : Rltb size 0 = false) by (apply Rltb_false; lra). assert (F7 : Reqb size 0 = false) by (apply Reqb_false; lra).
    assert (F8 : Rltb (size + oversize) 0 = false) by (apply Rltb_false; lra). assert (F9 : Reqb (size + oversize) 0 = false) by (apply Reqb_false; lra).
    assert (F10 : Rltb 0 (size + oversize) = true) by (apply Rltb_true; lra).
    assert (F11 : Rltb (oversize + size) 0 = false) by (apply Rltb_false; lra). assert (F12 : Reqb (oversize + size) 0 = false) by (apply Reqb_false; lra).
    assert (L : leftmost p = 6%nat).
    { unfold leftmost, p, enumerate, chamfer. cbn [length combine map seq fold_left nthv nth snd fst x2 y2 nzero nadd nltb neqb NumR].
      repeat (rewrite ?F1, ?F2, ?F3, ?F4, ?F5, ?F6, ?F7, ?F8, ?F9, ?F10, ?F11, ?F12; cbn [orb andb x2 y2 fst snd]). reflexivity. }
    unfold ref_ccw. rewrite L. unfold p, enumerate, chamfer. cbn [length combine map seq prev_i next_i Nat.eqb Nat.sub Nat.add nthv nth snd].
    unfold is_ccw. cbn [x2 y2 nzero nadd nsub nmul nltb NumR]. apply Rltb_false. nra.
  Qed.

  Theorem chamfer_cap_complete : complete p.
  Proof. apply (fan_complete false); [exact chamfer_fan|exact chamfer_ref|unfold p; cbn; lia]. Qed.
End Chamfer.
