(* Geom/Bezier_chains.v -- what gen_points of a Bezier chain returns, point by point (2D and 3D), the quadratic sample
   theorem, and the 3D twins of the chain invariants (C08). Over R. *)
From Coq Require Import Reals ZArith Lra Lia List.
From SCAD Require Import Base.Num Base.NumR Base.Vec Base.Vec_proofs Geom.Poly Geom.Dim2 Geom.Dim2_proofs.
Import ListNotations.
Local Open Scope R_scope.

(* ---- a fold that drops the shared joint and appends the next block ---- *)
Section Blocks.
  Context {A B : Type} (f : B -> list A) (d : B).
  Definition bstep (acc : list A) (c : B) : list A := removelast acc ++ f c.
  Definition blk (c : B) : list A := removelast (f c).

  Lemma fold_blocks l acc : l <> [] -> (forall c, In c l -> f c <> []) ->
    fold_left bstep l acc = removelast acc ++ flat_map blk (removelast l) ++ f (last l d).
  Proof.
    revert acc. induction l as [|c l IH]; intros acc Hne Hf; [contradiction|].
    destruct l as [|c' l'].
    - reflexivity.
    - change (fold_left bstep (c :: c' :: l') acc) with (fold_left bstep (c' :: l') (bstep acc c)). rewrite IH; [|discriminate|intros x Hx; apply Hf; right; exact Hx].
      unfold bstep at 1. rewrite removelast_app by (apply Hf; left; reflexivity).
      change (removelast (c :: c' :: l')) with (c :: removelast (c' :: l')).
      change (last (c :: c' :: l') d) with (last (c' :: l') d).
      cbn [flat_map]. unfold blk at 2. rewrite <- !app_assoc. reflexivity.
  Qed.

  Lemma flat_map_snoc (g : B -> list A) l c : flat_map g (l ++ [c]) = flat_map g l ++ g c.
  Proof. rewrite flat_map_app. cbn. rewrite app_nil_r. reflexivity. Qed.

  Lemma blocks_open l a0 da : l <> [] -> (forall c, In c l -> f c <> []) ->
    fold_left bstep l [a0] = flat_map blk l ++ [last (f (last l d)) da].
  Proof.
    intros Hne Hf. rewrite (fold_blocks l [a0] Hne Hf). cbn [removelast app].
    destruct (exists_last Hne) as [l0 [c Hc]]. subst l. rewrite removelast_last, last_last, flat_map_snoc, <- app_assoc.
    f_equal. unfold blk. apply app_removelast_last. apply Hf. apply in_or_app. right. left. reflexivity.
  Qed.
  Lemma blocks_closed l a0 : l <> [] -> (forall c, In c l -> f c <> []) ->
    removelast (fold_left bstep l [a0]) = flat_map blk l.
  Proof. intros Hne Hf. rewrite (blocks_open l a0 a0 Hne Hf). apply removelast_last. Qed.

  (* the i-th element of the k-th block sits at offset |blocks before k| + i *)
  Lemma nth_block (g : B -> list A) l t k i da : (k < length l)%nat -> (i < length (g (nth k l d)))%nat ->
    nth (length (flat_map g (firstn k l)) + i) (flat_map g l ++ t) da = nth i (g (nth k l d)) da.
  Proof.
    revert k. induction l as [|c l IH]; intros k Hk Hi; [cbn in Hk; lia|].
    destruct k as [|k].
    - cbn [firstn flat_map length Nat.add nth] in *. rewrite <- app_assoc. rewrite app_nth1 by assumption. reflexivity.
    - cbn [firstn flat_map nth] in *. rewrite app_length, <- app_assoc.
      rewrite app_nth2 by lia. replace (length (g c) + length (flat_map g (firstn k l)) + i - length (g c))%nat
        with (length (flat_map g (firstn k l)) + i)%nat by lia.
      apply IH; [cbn in Hk; lia|assumption].
  Qed.
  Lemma length_flat_map (g : B -> list A) l : length (flat_map g l) = fold_right (fun c a => (length (g c) + a)%nat) 0%nat l.
  Proof. induction l as [|c l IH]; [reflexivity|]. cbn. rewrite app_length, IH. reflexivity. Qed.
End Blocks.

Lemma removelast_nth {A} (l : list A) i d : (i < length l - 1)%nat -> nth i (removelast l) d = nth i l d.
Proof.
  revert i. induction l as [|a l IH]; intros i Hi; [cbn in Hi; lia|].
  destruct l as [|b l]; [cbn in Hi; lia|]. destruct i as [|i]; [reflexivity|].
  change (removelast (a :: b :: l)) with (a :: removelast (b :: l)). cbn [nth]. apply IH. cbn [length] in *. lia.
Qed.
Lemma last_nth {A} (l : list A) d : last l d = nth (length l - 1) l d.
Proof.
  induction l as [|a l IH]; [reflexivity|]. destruct l as [|b l]; [reflexivity|].
  change (last (a :: b :: l) d) with (last (b :: l) d). rewrite IH. cbn [length].
  replace (S (S (length l)) - 1)%nat with (S (length l)) by lia. replace (S (length l) - 1)%nat with (length l) by lia. reflexivity.
Qed.

(* ---- quadratic curves: the sample theorem ---- *)
Lemma quadratic_bezier_points (s c e : P2) segments : (1 <= segments)%Z ->
  length (quadratic_bezier s c e segments) = Z.to_nat (segments + 1) /\
  (forall i, (i < Z.to_nat (segments + 1))%nat ->
     nth i (quadratic_bezier s c e segments) s = bern2 s c e (IZR (Z.of_nat i) / IZR segments)) /\
  nth 0 (quadratic_bezier s c e segments) s = s /\
  nth (Z.to_nat segments) (quadratic_bezier s c e segments) s = e.
Proof.
  intros Hs. destruct (bez_ts_spec segments ltac:(lia)) as [Hl Hn]. unfold quadratic_bezier. rewrite map_length.
  assert (Hnth : forall i, (i < Z.to_nat (segments + 1))%nat ->
            nth i (map (quadratic_point s c e) (bez_ts segments)) s = quadratic_point s c e (IZR (Z.of_nat i) * (1 / IZR segments))).
  { intros i Hi. rewrite (nth_map' _ _ _ _ 0) by lia. rewrite Hn by assumption. reflexivity. }
  split; [exact Hl|]. split; [|split].
  - intros i Hi. rewrite Hnth by assumption. rewrite quadratic_is_bernstein. f_equal. unfold Rdiv. ring.
  - rewrite Hnth by lia. replace (IZR (Z.of_nat 0) * (1 / IZR segments)) with 0 by (cbn; lra). apply quadratic_at_0.
  - rewrite Hnth by lia. rewrite Z2Nat.id by lia.
    replace (IZR segments * (1 / IZR segments)) with 1. apply quadratic_at_1.
    field. apply not_0_IZR. lia.
Qed.
Lemma bernstein2_weights t : 0 <= t <= 1 ->
  0 <= (1 - t) ^ 2 /\ 0 <= 2 * t * (1 - t) /\ 0 <= t ^ 2 /\ (1 - t) ^ 2 + 2 * t * (1 - t) + t ^ 2 = 1.
Proof.
  intros [H0 H1]. assert (0 <= 1 - t) by lra.
  repeat split; try ring; simpl; repeat apply Rmult_le_pos; lra.
Qed.

(* ---- 3D curves ---- *)
Definition bern3_3 (s c1 c2 e : P3) (t : R) : P3 :=
  Pt3 ((1 - t) ^ 3 * x3 s + 3 * t * (1 - t) ^ 2 * x3 c1 + 3 * t ^ 2 * (1 - t) * x3 c2 + t ^ 3 * x3 e)
      ((1 - t) ^ 3 * y3 s + 3 * t * (1 - t) ^ 2 * y3 c1 + 3 * t ^ 2 * (1 - t) * y3 c2 + t ^ 3 * y3 e)
      ((1 - t) ^ 3 * z3 s + 3 * t * (1 - t) ^ 2 * z3 c1 + 3 * t ^ 2 * (1 - t) * z3 c2 + t ^ 3 * z3 e).
Definition bern2_3 (s c e : P3) (t : R) : P3 :=
  Pt3 ((1 - t) ^ 2 * x3 s + 2 * t * (1 - t) * x3 c + t ^ 2 * x3 e)
      ((1 - t) ^ 2 * y3 s + 2 * t * (1 - t) * y3 c + t ^ 2 * y3 e)
      ((1 - t) ^ 2 * z3 s + 2 * t * (1 - t) * z3 c + t ^ 2 * z3 e).
Lemma cubic3_is_bernstein s c1 c2 e t : cubic_point3 s c1 c2 e t = bern3_3 s c1 c2 e t.
Proof. destruct s, c1, c2, e. unfold bern3_3. dred. f_equal; ring. Qed.
Lemma quadratic3_is_bernstein s c e t : quadratic_point3 s c e t = bern2_3 s c e t.
Proof. destruct s, c, e. unfold bern2_3. dred. f_equal; ring. Qed.
Lemma cubic3_at_0 (s c1 c2 e : P3) : cubic_point3 s c1 c2 e 0 = s.
Proof. destruct s, c1, c2, e. dred. f_equal; ring. Qed.
Lemma cubic3_at_1 (s c1 c2 e : P3) : cubic_point3 s c1 c2 e 1 = e.
Proof. destruct s, c1, c2, e. dred. f_equal; ring. Qed.
Lemma quadratic3_at_0 (s c e : P3) : quadratic_point3 s c e 0 = s.
Proof. destruct s, c, e. dred. f_equal; ring. Qed.
Lemma quadratic3_at_1 (s c e : P3) : quadratic_point3 s c e 1 = e.
Proof. destruct s, c, e. dred. f_equal; ring. Qed.

Lemma cubic_bezier3_points (s c1 c2 e : P3) segments : (1 <= segments)%Z ->
  length (cubic_bezier3 s c1 c2 e segments) = Z.to_nat (segments + 1) /\
  (forall i, (i < Z.to_nat (segments + 1))%nat ->
     nth i (cubic_bezier3 s c1 c2 e segments) s = bern3_3 s c1 c2 e (IZR (Z.of_nat i) / IZR segments)) /\
  nth 0 (cubic_bezier3 s c1 c2 e segments) s = s /\
  nth (Z.to_nat segments) (cubic_bezier3 s c1 c2 e segments) s = e.
Proof.
  intros Hs. destruct (bez_ts_spec segments ltac:(lia)) as [Hl Hn]. unfold cubic_bezier3. rewrite map_length.
  assert (Hnth : forall i, (i < Z.to_nat (segments + 1))%nat ->
            nth i (map (cubic_point3 s c1 c2 e) (bez_ts segments)) s = cubic_point3 s c1 c2 e (IZR (Z.of_nat i) * (1 / IZR segments))).
  { intros i Hi. rewrite (nth_map' _ _ _ _ 0) by lia. rewrite Hn by assumption. reflexivity. }
  split; [exact Hl|]. split; [|split].
  - intros i Hi. rewrite Hnth by assumption. rewrite cubic3_is_bernstein. f_equal. unfold Rdiv. ring.
  - rewrite Hnth by lia. replace (IZR (Z.of_nat 0) * (1 / IZR segments)) with 0 by (cbn; lra). apply cubic3_at_0.
  - rewrite Hnth by lia. rewrite Z2Nat.id by lia.
    replace (IZR segments * (1 / IZR segments)) with 1. apply cubic3_at_1.
    field. apply not_0_IZR. lia.
Qed.
Lemma quadratic_bezier3_points (s c e : P3) segments : (1 <= segments)%Z ->
  length (quadratic_bezier3 s c e segments) = Z.to_nat (segments + 1) /\
  (forall i, (i < Z.to_nat (segments + 1))%nat ->
     nth i (quadratic_bezier3 s c e segments) s = bern2_3 s c e (IZR (Z.of_nat i) / IZR segments)) /\
  nth 0 (quadratic_bezier3 s c e segments) s = s /\
  nth (Z.to_nat segments) (quadratic_bezier3 s c e segments) s = e.
Proof.
  intros Hs. destruct (bez_ts_spec segments ltac:(lia)) as [Hl Hn]. unfold quadratic_bezier3. rewrite map_length.
  assert (Hnth : forall i, (i < Z.to_nat (segments + 1))%nat ->
            nth i (map (quadratic_point3 s c e) (bez_ts segments)) s = quadratic_point3 s c e (IZR (Z.of_nat i) * (1 / IZR segments))).
  { intros i Hi. rewrite (nth_map' _ _ _ _ 0) by lia. rewrite Hn by assumption. reflexivity. }
  split; [exact Hl|]. split; [|split].
  - intros i Hi. rewrite Hnth by assumption. rewrite quadratic3_is_bernstein. f_equal. unfold Rdiv. ring.
  - rewrite Hnth by lia. replace (IZR (Z.of_nat 0) * (1 / IZR segments)) with 0 by (cbn; lra). apply quadratic3_at_0.
  - rewrite Hnth by lia. rewrite Z2Nat.id by lia.
    replace (IZR segments * (1 / IZR segments)) with 1. apply quadratic3_at_1.
    field. apply not_0_IZR. lia.
Qed.

(* ---- gen_points of a 2D chain, point by point ---- *)
Definition samples2 (c : @curve2 R) : list P2 := cubic_bezier (c_start c) (c_control1 c) (c_control2 c) (c_end c) (c_segments c).
Definition block2 (c : @curve2 R) : list P2 := removelast (samples2 c).
Definition offset2 (l : list (@curve2 R)) (k : nat) : nat := fold_right (fun c a => (Z.to_nat (c_segments c) + a)%nat) 0%nat (firstn k l).

Lemma samples2_spec c : (1 <= c_segments c)%Z ->
  samples2 c <> [] /\ length (samples2 c) = S (Z.to_nat (c_segments c)) /\ last (samples2 c) (c_start c) = c_end c.
Proof.
  intros Hs. destruct (cubic_bezier_points (c_start c) (c_control1 c) (c_control2 c) (c_end c) (c_segments c) Hs) as (Hl & _ & _ & He).
  fold (samples2 c) in *. assert (Hl' : length (samples2 c) = S (Z.to_nat (c_segments c))) by (rewrite Hl; lia).
  split; [intro E; rewrite E in Hl'; discriminate|]. split; [exact Hl'|].
  rewrite last_nth, Hl'. replace (S (Z.to_nat (c_segments c)) - 1)%nat with (Z.to_nat (c_segments c)) by lia. exact He.
Qed.
Lemma block2_spec c : (1 <= c_segments c)%Z ->
  length (block2 c) = Z.to_nat (c_segments c) /\
  (forall i, (i < Z.to_nat (c_segments c))%nat ->
     nth i (block2 c) (c_start c) = bern3 (c_start c) (c_control1 c) (c_control2 c) (c_end c) (IZR (Z.of_nat i) / IZR (c_segments c))) /\
  nth 0 (block2 c) (c_start c) = c_start c.
Proof.
  intros Hs. destruct (samples2_spec c Hs) as (Hne & Hl & _).
  destruct (cubic_bezier_points (c_start c) (c_control1 c) (c_control2 c) (c_end c) (c_segments c) Hs) as (_ & Hn & H0 & _).
  fold (samples2 c) in *. unfold block2. split; [rewrite removelast_length by assumption; lia|]. split.
  - intros i Hi. rewrite removelast_nth by lia. apply Hn. lia.
  - rewrite removelast_nth by lia. exact H0.
Qed.

Theorem chain2_points_blocks (ch : @chain2 R) : ch_curves ch <> [] -> (forall c, In c (ch_curves ch) -> (1 <= c_segments c)%Z) ->
  chain2_points ch = flat_map block2 (ch_curves ch) ++ (if ch_closed ch then [] else [c_end (last (ch_curves ch) dummy_curve2)]).
Proof.
  intros Hne Hs. unfold chain2_points.
  assert (Hf : forall c, In c (ch_curves ch) -> samples2 c <> []) by (intros c Hc; apply samples2_spec, Hs, Hc).
  change (fold_left _ (ch_curves ch) [Pt2 nzero nzero]) with (fold_left (bstep samples2) (ch_curves ch) [Pt2 nzero nzero]).
  destruct (ch_closed ch).
  - rewrite (blocks_closed samples2 dummy_curve2 _ _ Hne Hf), app_nil_r. reflexivity.
  - rewrite (blocks_open samples2 dummy_curve2 _ _ (c_start (last (ch_curves ch) dummy_curve2)) Hne Hf).
    f_equal. f_equal. apply samples2_spec, Hs.
    destruct (exists_last Hne) as [l0 [c Hc]]. rewrite Hc, last_last. apply in_or_app. right. left. reflexivity.
Qed.

Lemma in_firstn {A} (l : list A) k x : In x (firstn k l) -> In x l.
Proof. revert k; induction l as [|a l IH]; intros [|k] H; cbn in *; try contradiction. destruct H as [H|H]; [left; exact H|right; eapply IH; exact H]. Qed.

Lemma offset2_is_length l k : (forall c, In c l -> (1 <= c_segments c)%Z) -> offset2 l k = length (flat_map block2 (firstn k l)).
Proof.
  intros Hs. unfold offset2. rewrite length_flat_map.
  assert (G : forall l', (forall c, In c l' -> (1 <= c_segments c)%Z) ->
     fold_right (fun c a => (Z.to_nat (c_segments c) + a)%nat) 0%nat l' = fold_right (fun c a => (length (block2 c) + a)%nat) 0%nat l').
  { induction l' as [|c l' IH]; intros H'; [reflexivity|]. cbn [fold_right]. rewrite IH by (intros x Hx; apply H'; right; exact Hx).
    destruct (block2_spec c (H' c (or_introl eq_refl))) as [Hl _]. rewrite Hl. reflexivity. }
  apply G. intros c Hc. apply Hs. eapply in_firstn; exact Hc.
Qed.

(* point i of curve k sits at offset (sum of the earlier segment counts) + i, and is the Bernstein point at i/segments *)
Theorem chain2_point_at (ch : @chain2 R) k i : (forall c, In c (ch_curves ch) -> (1 <= c_segments c)%Z) ->
  (k < length (ch_curves ch))%nat -> (i < Z.to_nat (c_segments (nth k (ch_curves ch) dummy_curve2)))%nat ->
  let c := nth k (ch_curves ch) dummy_curve2 in
  nth (offset2 (ch_curves ch) k + i) (chain2_points ch) (c_start c) =
  bern3 (c_start c) (c_control1 c) (c_control2 c) (c_end c) (IZR (Z.of_nat i) / IZR (c_segments c)).
Proof.
  intros Hs Hk Hi c. assert (Hne : ch_curves ch <> []) by (intro E; rewrite E in Hk; cbn in Hk; lia).
  assert (Hc : (1 <= c_segments c)%Z) by (apply Hs, nth_In, Hk).
  destruct (block2_spec c Hc) as (Hl & Hn & _).
  rewrite chain2_points_blocks by assumption. rewrite offset2_is_length by assumption.
  rewrite (nth_block dummy_curve2 block2); [fold c; apply Hn; exact Hi|exact Hk|fold c; rewrite Hl; exact Hi].
Qed.
(* in particular the chain passes through every knot, in order *)
Theorem chain2_knot (ch : @chain2 R) k : (forall c, In c (ch_curves ch) -> (1 <= c_segments c)%Z) ->
  (k < length (ch_curves ch))%nat ->
  nth (offset2 (ch_curves ch) k) (chain2_points ch) (c_start (nth k (ch_curves ch) dummy_curve2)) = c_start (nth k (ch_curves ch) dummy_curve2).
Proof.
  intros Hs Hk. set (c := nth k (ch_curves ch) dummy_curve2).
  assert (Hc : (1 <= c_segments c)%Z) by (apply Hs, nth_In, Hk).
  pose proof (chain2_point_at ch k 0 Hs Hk ltac:(fold c; lia)) as H. cbv zeta in H. fold c in H.
  rewrite Nat.add_0_r in H. rewrite H. change (IZR (Z.of_nat 0)) with 0. unfold Rdiv. rewrite Rmult_0_l.
  rewrite <- cubic_is_bernstein. apply cubic_at_0.
Qed.
(* an open chain ends on the end point of its last curve; a closed chain does not repeat its first point *)
Theorem chain2_last_point (ch : @chain2 R) d : ch_curves ch <> [] -> (forall c, In c (ch_curves ch) -> (1 <= c_segments c)%Z) ->
  ch_closed ch = false -> last (chain2_points ch) d = c_end (last (ch_curves ch) dummy_curve2).
Proof. intros Hne Hs Hcl. rewrite chain2_points_blocks by assumption. rewrite Hcl. apply last_last. Qed.
Theorem chain2_closed_length (ch : @chain2 R) : ch_curves ch <> [] -> (forall c, In c (ch_curves ch) -> (1 <= c_segments c)%Z) ->
  ch_closed ch = true -> length (chain2_points ch) = offset2 (ch_curves ch) (length (ch_curves ch)).
Proof.
  intros Hne Hs Hcl. rewrite chain2_points_blocks by assumption. rewrite Hcl, app_nil_r.
  rewrite offset2_is_length by assumption. rewrite firstn_all. reflexivity.
Qed.

(* ================= the 3D twins (CubicBezierChain3D) ================= *)
(* ---- chains: an invariant over every history new -> add* -> [close] ---- *)
Definition joined3 (a b : @curve3 R) : Prop :=
  d_start b = d_end a /\ exists len, d_control1 b = handle3 (d_end a) (d_control2 a) len.
Fixpoint chained3 (l : list (@curve3 R)) : Prop :=
  match l with
  | a :: ((b :: _) as tl) => joined3 a b /\ chained3 tl
  | _ => True
  end.
Lemma chained3_app_one l a b : chained3 (l ++ [a]) -> joined3 a b -> chained3 (l ++ [a; b]).
Proof.
  induction l as [|x l IH]; intros Hc Hj; [cbn; tauto|].
  destruct l as [|y l]; cbn in *; [tauto|]. destruct Hc as [Hxy Hc]. split; [assumption|]. apply IH; assumption.
Qed.

Inductive chain_op3 := OpAdd3 (len : R) (c2 e : P3) (seg : Z).
Definition apply_op3 (ch : @chain3 R) (o : chain_op3) : @chain3 R :=
  match o with OpAdd3 len c2 e seg => chain3_add ch len c2 e seg end.

Lemma add_chained3 ch len c2 e seg : dh_curves ch <> [] -> chained3 (dh_curves ch) ->
  chained3 (dh_curves (chain3_add ch len c2 e seg)) /\ dh_curves (chain3_add ch len c2 e seg) <> [] /\
  d_end (last (dh_curves (chain3_add ch len c2 e seg)) dummy_curve3) = e /\
  hd dummy_curve3 (dh_curves (chain3_add ch len c2 e seg)) = hd dummy_curve3 (dh_curves ch).
Proof.
  intros Hne Hc. unfold chain3_add. cbn [dh_curves].
  destruct (exists_last Hne) as [l [a Hl]]. rewrite Hl in *. rewrite last_app_one.
  rewrite <- app_assoc. cbn [app]. split; [|split; [|split]].
  - apply chained3_app_one; [assumption|]. split; [reflexivity|]. exists len. reflexivity.
  - destruct l; discriminate.
  - replace (l ++ [a; _]) with ((l ++ [a]) ++ [Curve3 (d_end a) (handle3 (d_end a) (d_control2 a) len) c2 e seg])
      by (rewrite <- app_assoc; reflexivity). rewrite last_app_one. reflexivity.
  - destruct l; reflexivity.
Qed.

(* every reachable open chain is C0 and G1 at every joint *)
Theorem chain3_history_inv s c1 c2 e seg (ops : list chain_op3) :
  let ch := fold_left apply_op3 ops (chain3_new s c1 c2 e seg) in
  chained3 (dh_curves ch) /\ dh_curves ch <> [] /\ dh_closed ch = false /\ d_start (hd dummy_curve3 (dh_curves ch)) = s.
Proof.
  cbv zeta.
  assert (H0 : chained3 (dh_curves (chain3_new s c1 c2 e seg)) /\ dh_curves (chain3_new s c1 c2 e seg) <> [] /\
               dh_closed (chain3_new s c1 c2 e seg) = false /\ d_start (hd dummy_curve3 (dh_curves (chain3_new s c1 c2 e seg))) = s)
    by (cbn; repeat split; discriminate).
  revert H0. generalize (chain3_new s c1 c2 e seg). induction ops as [|o ops IH]; intros ch H0; [exact H0|].
  cbn [fold_left]. apply IH. destruct H0 as (Hc & Hne & Hcl & Hs). destruct o as [len k2 k seg'].
  destruct (add_chained3 ch len k2 k seg' Hne Hc) as (H1 & H2 & H3 & H4). cbn [apply_op3].
  repeat split; try assumption. rewrite H4. assumption.
Qed.

(* closing: the last curve ends exactly at the first start, and the first curve's handle3 is re-aimed along the last tangent *)
Theorem chain3_close_inv (ch : @chain3 R) len c2 slen seg : dh_curves ch <> [] -> chained3 (dh_curves ch) ->
  let ch' := chain3_close ch len c2 slen seg in
  dh_closed ch' = true /\
  d_end (last (dh_curves ch') dummy_curve3) = d_start (hd dummy_curve3 (dh_curves ch')) /\
  joined3 (last (dh_curves ch') dummy_curve3) (hd dummy_curve3 (dh_curves ch')) /\
  length (dh_curves ch') = S (length (dh_curves ch)).
Proof.
  intros Hne Hc. cbv zeta. unfold chain3_close.
  set (ch0 := {| dh_curves := dh_curves ch; dh_closed := true |}).
  destruct (add_chained3 ch0 len c2 (d_start (hd dummy_curve3 (dh_curves ch))) seg Hne Hc) as (H1 & H2 & H3 & H4).
  set (ch1 := chain3_add ch0 len c2 (d_start (hd dummy_curve3 (dh_curves ch))) seg) in *.
  assert (Hlen : length (dh_curves ch1) = S (length (dh_curves ch))).
  { unfold ch1, chain3_add. cbn [dh_curves ch0]. rewrite app_length. cbn. lia. }
  destruct (dh_curves ch1) as [|f rest] eqn:E; [contradiction|]. cbn [dh_curves dh_closed hd].
  assert (Hf : d_start f = d_start (hd dummy_curve3 (dh_curves ch))) by (cbn [hd] in H4; rewrite H4; reflexivity).
  assert (Hlast : forall f', d_end (last (f' :: rest) dummy_curve3) = d_end (last (f :: rest) dummy_curve3) \/ rest = []).
  { intros f'. destruct rest; [right; reflexivity|left; reflexivity]. }
  assert (Hrest : rest <> []).
  { intro Hr. subst rest. cbn in Hlen. destruct (dh_curves ch); [contradiction|discriminate]. }
  split; [reflexivity|]. split; [|split].
  - destruct (Hlast (Curve3 (d_start f) (handle3 (d_end (last (f :: rest) dummy_curve3)) (d_control2 (last (f :: rest) dummy_curve3)) slen)
                            (d_control2 f) (d_end f) (d_segments f))) as [Hl | Hl]; [|contradiction].
    rewrite Hl, H3. cbn [d_start]. symmetry. exact Hf.
  - assert (Hsame : last (Curve3 (d_start f) (handle3 (d_end (last (f :: rest) dummy_curve3)) (d_control2 (last (f :: rest) dummy_curve3)) slen)
                                 (d_control2 f) (d_end f) (d_segments f) :: rest) dummy_curve3 = last (f :: rest) dummy_curve3).
    { destruct rest; [contradiction|reflexivity]. }
    rewrite Hsame. split.
    + cbn [d_start]. rewrite H3. exact Hf.
    + exists slen. reflexivity.
  - cbn [length] in *. lia.
Qed.

(* the tangent is continuous: the new handle3 points along the old end tangent (for a positive length) *)
Lemma handle3_direction (e c2 : P3) len : pt3_nonzero (pt3_sub e c2) -> 0 < len ->
  exists k, 0 < k /\ pt3_sub (handle3 e c2 len) e = pt3_mul (pt3_sub e c2) k.
Proof.
  intros Hn Hl. destruct (pt3_normalized_dir _ Hn) as [Hd Hp].
  exists (/ pt3_len (pt3_sub e c2) * len). split; [apply Rmult_lt_0_compat; assumption|].
  unfold handle3. rewrite Hd. destruct e, c2. dred. f_equal; ring.
Qed.

Lemma chain3_points_length (ch : @chain3 R) :
  (forall c, In c (dh_curves ch) -> (1 <= d_segments c)%Z) ->
  length (chain3_points ch) =
  (fold_right (fun c acc => Z.to_nat (d_segments c) + acc) 0 (dh_curves ch) + (if dh_closed ch then 0 else 1))%nat.
Proof.
  intros Hseg. unfold chain3_points.
  assert (G : forall l acc, acc <> [] -> (forall c, In c l -> (1 <= d_segments c)%Z) ->
     let pts := fold_left (fun acc c => removelast acc ++ cubic_bezier3 (d_start c) (d_control1 c) (d_control2 c) (d_end c) (d_segments c)) l acc in
     pts <> [] /\ length pts = (length acc + fold_right (fun c a => Z.to_nat (d_segments c) + a) 0 l)%nat).
  { induction l as [|c l IH]; intros acc Hne Hs; cbv zeta; cbn [fold_left fold_right]; [split; [assumption|lia]|].
    assert (Hc : (1 <= d_segments c)%Z) by (apply Hs; left; reflexivity).
    destruct (cubic_bezier3_points (d_start c) (d_control1 c) (d_control2 c) (d_end c) (d_segments c) Hc) as [Hl _].
    set (acc' := removelast acc ++ cubic_bezier3 (d_start c) (d_control1 c) (d_control2 c) (d_end c) (d_segments c)).
    assert (Hne' : acc' <> []).
    { unfold acc'. intro E. apply app_eq_nil in E as [_ E]. rewrite E in Hl. cbn in Hl. lia. }
    destruct (IH acc' Hne' (fun c' H' => Hs c' (or_intror H'))) as [H1 H2]. cbv zeta in H1, H2. split; [assumption|].
    rewrite H2. unfold acc'. rewrite app_length, removelast_length by assumption. rewrite Hl.
    destruct acc; [contradiction|]. cbn [length]. lia. }
  destruct (G (dh_curves ch) [z3p] ltac:(discriminate) Hseg) as [Hne Hlen]. cbv zeta in Hne, Hlen.
  destruct (dh_closed ch).
  - rewrite removelast_length by assumption. rewrite Hlen. cbn [length]. lia.
  - rewrite Hlen. cbn [length]. lia.
Qed.


(* ---- gen_points of a 3D chain, point by point ---- *)
Definition samples3 (c : @curve3 R) : list P3 := cubic_bezier3 (d_start c) (d_control1 c) (d_control2 c) (d_end c) (d_segments c).
Definition block3 (c : @curve3 R) : list P3 := removelast (samples3 c).
Definition offset3 (l : list (@curve3 R)) (k : nat) : nat := fold_right (fun c a => (Z.to_nat (d_segments c) + a)%nat) 0%nat (firstn k l).

Lemma samples3_spec c : (1 <= d_segments c)%Z ->
  samples3 c <> [] /\ length (samples3 c) = S (Z.to_nat (d_segments c)) /\ last (samples3 c) (d_start c) = d_end c.
Proof.
  intros Hs. destruct (cubic_bezier3_points (d_start c) (d_control1 c) (d_control2 c) (d_end c) (d_segments c) Hs) as (Hl & _ & _ & He).
  fold (samples3 c) in *. assert (Hl' : length (samples3 c) = S (Z.to_nat (d_segments c))) by (rewrite Hl; lia).
  split; [intro E; rewrite E in Hl'; discriminate|]. split; [exact Hl'|].
  rewrite last_nth, Hl'. replace (S (Z.to_nat (d_segments c)) - 1)%nat with (Z.to_nat (d_segments c)) by lia. exact He.
Qed.
Lemma block3_spec c : (1 <= d_segments c)%Z ->
  length (block3 c) = Z.to_nat (d_segments c) /\
  (forall i, (i < Z.to_nat (d_segments c))%nat ->
     nth i (block3 c) (d_start c) = bern3_3 (d_start c) (d_control1 c) (d_control2 c) (d_end c) (IZR (Z.of_nat i) / IZR (d_segments c))) /\
  nth 0 (block3 c) (d_start c) = d_start c.
Proof.
  intros Hs. destruct (samples3_spec c Hs) as (Hne & Hl & _).
  destruct (cubic_bezier3_points (d_start c) (d_control1 c) (d_control2 c) (d_end c) (d_segments c) Hs) as (_ & Hn & H0 & _).
  fold (samples3 c) in *. unfold block3. split; [rewrite removelast_length by assumption; lia|]. split.
  - intros i Hi. rewrite removelast_nth by lia. apply Hn. lia.
  - rewrite removelast_nth by lia. exact H0.
Qed.

Theorem chain3_points_blocks (ch : @chain3 R) : dh_curves ch <> [] -> (forall c, In c (dh_curves ch) -> (1 <= d_segments c)%Z) ->
  chain3_points ch = flat_map block3 (dh_curves ch) ++ (if dh_closed ch then [] else [d_end (last (dh_curves ch) dummy_curve3)]).
Proof.
  intros Hne Hs. unfold chain3_points.
  assert (Hf : forall c, In c (dh_curves ch) -> samples3 c <> []) by (intros c Hc; apply samples3_spec, Hs, Hc).
  change (fold_left _ (dh_curves ch) [z3p]) with (fold_left (bstep samples3) (dh_curves ch) [z3p]).
  destruct (dh_closed ch).
  - rewrite (blocks_closed samples3 dummy_curve3 _ _ Hne Hf), app_nil_r. reflexivity.
  - rewrite (blocks_open samples3 dummy_curve3 _ _ (d_start (last (dh_curves ch) dummy_curve3)) Hne Hf).
    f_equal. f_equal. apply samples3_spec, Hs.
    destruct (exists_last Hne) as [l0 [c Hc]]. rewrite Hc, last_last. apply in_or_app. right. left. reflexivity.
Qed.

Lemma offset3_is_length l k : (forall c, In c l -> (1 <= d_segments c)%Z) -> offset3 l k = length (flat_map block3 (firstn k l)).
Proof.
  intros Hs. unfold offset3. rewrite length_flat_map.
  assert (G : forall l', (forall c, In c l' -> (1 <= d_segments c)%Z) ->
     fold_right (fun c a => (Z.to_nat (d_segments c) + a)%nat) 0%nat l' = fold_right (fun c a => (length (block3 c) + a)%nat) 0%nat l').
  { induction l' as [|c l' IH]; intros H'; [reflexivity|]. cbn [fold_right]. rewrite IH by (intros x Hx; apply H'; right; exact Hx).
    destruct (block3_spec c (H' c (or_introl eq_refl))) as [Hl _]. rewrite Hl. reflexivity. }
  apply G. intros c Hc. apply Hs. eapply in_firstn; exact Hc.
Qed.

(* point i of curve k sits at offset (sum of the earlier segment counts) + i, and is the Bernstein point at i/segments *)
Theorem chain3_point_at (ch : @chain3 R) k i : (forall c, In c (dh_curves ch) -> (1 <= d_segments c)%Z) ->
  (k < length (dh_curves ch))%nat -> (i < Z.to_nat (d_segments (nth k (dh_curves ch) dummy_curve3)))%nat ->
  let c := nth k (dh_curves ch) dummy_curve3 in
  nth (offset3 (dh_curves ch) k + i) (chain3_points ch) (d_start c) =
  bern3_3 (d_start c) (d_control1 c) (d_control2 c) (d_end c) (IZR (Z.of_nat i) / IZR (d_segments c)).
Proof.
  intros Hs Hk Hi c. assert (Hne : dh_curves ch <> []) by (intro E; rewrite E in Hk; cbn in Hk; lia).
  assert (Hc : (1 <= d_segments c)%Z) by (apply Hs, nth_In, Hk).
  destruct (block3_spec c Hc) as (Hl & Hn & _).
  rewrite chain3_points_blocks by assumption. rewrite offset3_is_length by assumption.
  rewrite (nth_block dummy_curve3 block3); [fold c; apply Hn; exact Hi|exact Hk|fold c; rewrite Hl; exact Hi].
Qed.
(* in particular the chain passes through every knot, in order *)
Theorem chain3_knot (ch : @chain3 R) k : (forall c, In c (dh_curves ch) -> (1 <= d_segments c)%Z) ->
  (k < length (dh_curves ch))%nat ->
  nth (offset3 (dh_curves ch) k) (chain3_points ch) (d_start (nth k (dh_curves ch) dummy_curve3)) = d_start (nth k (dh_curves ch) dummy_curve3).
Proof.
  intros Hs Hk. set (c := nth k (dh_curves ch) dummy_curve3).
  assert (Hc : (1 <= d_segments c)%Z) by (apply Hs, nth_In, Hk).
  pose proof (chain3_point_at ch k 0 Hs Hk ltac:(fold c; lia)) as H. cbv zeta in H. fold c in H.
  rewrite Nat.add_0_r in H. rewrite H. change (IZR (Z.of_nat 0)) with 0. unfold Rdiv. rewrite Rmult_0_l.
  rewrite <- cubic3_is_bernstein. apply cubic3_at_0.
Qed.
(* an open chain ends on the end point of its last curve; a closed chain does not repeat its first point *)
Theorem chain3_last_point (ch : @chain3 R) d : dh_curves ch <> [] -> (forall c, In c (dh_curves ch) -> (1 <= d_segments c)%Z) ->
  dh_closed ch = false -> last (chain3_points ch) d = d_end (last (dh_curves ch) dummy_curve3).
Proof. intros Hne Hs Hcl. rewrite chain3_points_blocks by assumption. rewrite Hcl. apply last_last. Qed.
Theorem chain3_closed_length (ch : @chain3 R) : dh_curves ch <> [] -> (forall c, In c (dh_curves ch) -> (1 <= d_segments c)%Z) ->
  dh_closed ch = true -> length (chain3_points ch) = offset3 (dh_curves ch) (length (dh_curves ch)).
Proof.
  intros Hne Hs Hcl. rewrite chain3_points_blocks by assumption. rewrite Hcl, app_nil_r.
  rewrite offset3_is_length by assumption. rewrite firstn_all. reflexivity.
Qed.
