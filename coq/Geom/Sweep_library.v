(* Geom/Sweep_library.v -- open sweeps of the library's convex outlines are closed surfaces in the exact form, with no
   hypothesis on their caps and whatever direction the path starts and ends in: circle, inscribed and circumscribed
   polygons, rounded rectangles. Over R. *)
From Coq Require Import Reals ZArith List Bool Arith Lra Lia.
From SCAD Require Import Base.Num Base.NumR Base.Vec Geom.Poly Geom.Tri Geom.Tri_proofs Geom.Dim2 Geom.Dim2_proofs Geom.Dim3 Geom.Mesh_proofs
  Geom.Mesh_exact Geom.Tri_convex Geom.Fan_convex Geom.RR_convex Geom.Sweep_caps.
Import ListNotations.
Local Open Scope R_scope.

Theorem sweep_circle_closed (radius : R) (segments : Z) (c : list V2) (path : list V3) (twist : R) ph :
  (3 <= segments)%Z -> radius <> 0 -> circle radius segments = Some c ->
  sweep c path twist false = Some ph ->
  nthp3 path (Z.of_nat (length path) - 2) <> nthp3 path (Z.of_nat (length path) - 1) ->
  closed_exact (snd ph).
Proof.
  intros Hs Hr Hc E Hne. pose proof (circle_convex radius segments c Hs Hr Hc) as Hcv.
  assert (Hlen : (3 <= length c)%nat).
  { unfold circle, arc in Hc. cbn [nleb neqb nofZ nzero NumR] in Hc.
    destruct (Rleb 360 360) eqn:E1; [|apply Rleb_false in E1; lra]. destruct (Reqb 360 360) eqn:E2; [|apply Reqb_false in E2; lra].
    inversion Hc. rewrite map_length, zseq_length by lia. lia. }
  apply (sweep_fanconvex_closed c path twist ph E Hlen); [| |exact Hne].
  - apply conv_fanconv; [exact Hcv|rewrite enumerate_length; exact Hlen].
  - apply conv_fanconv; [apply (conv_rev false); exact Hcv|rewrite rev_length, enumerate_length; exact Hlen].
Qed.

Theorem sweep_rounded_rect_closed (w h r : R) (segments : Z) (center : bool) pts (path : list V3) (twist : R) ph :
  0 < r -> 2 * r < w -> 2 * r < h -> (1 <= segments)%Z -> rounded_rect w h r segments center = Some pts ->
  sweep pts path twist false = Some ph ->
  nthp3 path (Z.of_nat (length path) - 2) <> nthp3 path (Z.of_nat (length path) - 1) ->
  closed_exact (snd ph).
Proof.
  intros Hr Hw Hh Hs Hp E Hne. destruct (rounded_rect_fanconv w h r segments center pts Hr Hw Hh Hs Hp) as (Hl & F1 & F2).
  apply (sweep_fanconvex_closed pts path twist ph E Hl F1 F2 Hne).
Qed.

(* ---- revolves ---- *)
From SCAD Require Import Geom.Mesh_exact2 Geom.Volume_proofs Geom.Revolve_volume Geom.Dim2_winding.
Lemma fanconv_translate sigma (l : list V2) (v : V2) : fanconv sigma (enumerate l) -> fanconv sigma (enumerate (pt2s_translate l v)).
Proof.
  intros Hf. assert (Hlm : length (enumerate (pt2s_translate l v)) = length (enumerate l)) by (rewrite !enumerate_length; unfold pt2s_translate; apply map_length).
  apply (fanconv_moved sigma (enumerate l) _ v Hlm); [|exact Hf]. intros i Hi. rewrite enumerate_length in Hi. apply pt_enum_map. exact Hi.
Qed.
Lemma fanconv_translate_rev sigma (l : list V2) (v : V2) : fanconv sigma (rev (enumerate l)) -> fanconv sigma (rev (enumerate (pt2s_translate l v))).
Proof.
  intros Hf. assert (Hlm : length (enumerate (pt2s_translate l v)) = length (enumerate l)) by (rewrite !enumerate_length; unfold pt2s_translate; apply map_length).
  apply (fanconv_moved sigma (rev (enumerate l)) _ v); [rewrite !rev_length; exact Hlm| |exact Hf].
  intros i Hi. rewrite rev_length in Hi. unfold pt_at at 1, nthv. rewrite rev_nth by (rewrite Hlm; exact Hi). rewrite Hlm.
  unfold pt_at at 1, nthv. rewrite rev_nth by exact Hi.
  change (snd (nth (length (enumerate l) - S i) (enumerate (pt2s_translate l v)) dv)) with (pt_at (enumerate (pt2s_translate l v)) (length (enumerate l) - S i)).
  change (snd (nth (length (enumerate l) - S i) (enumerate l) dv)) with (pt_at (enumerate l) (length (enumerate l) - S i)).
  apply pt_enum_map. rewrite enumerate_length in *. lia.
Qed.

Theorem revolve_fanconvex_closed (profile : list V2) (degrees : R) (segments : Z) ph :
  rotate_extrude profile degrees segments = Some ph -> (3 <= length profile)%nat ->
  fanconv false (enumerate profile) -> fanconv true (rev (enumerate profile)) -> closed_exact (snd ph).
Proof.
  intros E Hk F1 F2. apply (rotate_extrude_closed_exact profile degrees segments ph E).
  - apply (fanconv_complete false); [exact F1|rewrite enumerate_length; exact Hk].
  - apply (fanconv_complete true); [exact F2|rewrite rev_length, enumerate_length; exact Hk].
Qed.

(* a ring: the circle of radius r moved to distance R0 > r from the axis and revolved by any angle in (0, 360] -- closed in
   the exact form and outward, with no hypothesis at all on the caps *)
Theorem ring_unconditional (r R0 : R) (n : Z) (c : list V2) (degrees : R) (segments : Z) ph :
  (3 <= n)%Z -> 0 < r -> r < R0 -> circle r n = Some c -> 0 < degrees ->
  rotate_extrude (pt2s_translate c (Pt2 R0 0)) degrees segments = Some ph ->
  closed_exact (snd ph) /\ vol6 (fst ph) (snd ph) < 0.
Proof.
  intros Hn Hr HR Hc Hd E. pose proof (circle_convex r n c Hn ltac:(lra) Hc) as Hcv.
  assert (Hlen : (3 <= length c)%nat).
  { destruct (circle_on_radius r n c 0%nat ltac:(lia) Hc) as [Hl _]; [|rewrite Hl; lia].
    unfold circle, arc in Hc. cbn [nleb neqb nofZ nzero NumR] in Hc.
    destruct (Rleb 360 360) eqn:E1; [|apply Rleb_false in E1; lra]. destruct (Reqb 360 360) eqn:E2; [|apply Reqb_false in E2; lra].
    inversion Hc. rewrite map_length, zseq_length by lia. lia. }
  set (prof := pt2s_translate c (Pt2 R0 0)) in *.
  assert (Hlp : (3 <= length prof)%nat) by (unfold prof, pt2s_translate; rewrite map_length; exact Hlen).
  assert (F1 : fanconv false (enumerate prof)) by (apply fanconv_translate, conv_fanconv; [exact Hcv|rewrite enumerate_length; exact Hlen]).
  assert (F2 : fanconv true (rev (enumerate prof))).
  { apply fanconv_translate_rev. apply conv_fanconv; [apply (conv_rev false); exact Hcv|rewrite rev_length, enumerate_length; exact Hlen]. }
  split; [apply (revolve_fanconvex_closed prof degrees segments ph E Hlp F1 F2)|].
  apply (rotate_extrude_outward prof degrees segments ph (R0 - r) E Hd).
  - apply (fanconv_complete false); [exact F1|rewrite enumerate_length; exact Hlp].
  - unfold prof, pt2s_translate. rewrite Forall_map, Forall_forall. intros p Hp. apply (In_nth _ _ (Pt2 r 0)) in Hp. destruct Hp as (i & Hi & <-).
    destruct (circle_on_radius r n c i ltac:(lia) Hc Hi) as [_ Hrad]. unfold pt2_len2, pt2_dot in Hrad. cbn [nadd nmul NumR] in Hrad.
    unfold pt2_add. cbn [x2 nadd NumR]. set (q := nth i c (Pt2 r 0)) in *. nra.
  - lra.
  - unfold prof. rewrite area2_translate. apply (circle_clockwise r n c Hn ltac:(lra) Hc).
Qed.

(* ---- prisms and lofts of fan-convex profiles ---- *)
Theorem prism_fanconvex (pts : list V2) (h : R) ph : linear_extrude pts h = Some ph ->
  fanconv false (enumerate pts) -> fanconv true (rev (enumerate pts)) ->
  closed_exact (snd ph) /\ (0 < h -> Poly.area2 pts < 0 -> vol6 (fst ph) (snd ph) < 0).
Proof.
  intros E F1 F2.
  assert (Hk : (3 <= length pts)%nat).
  { unfold linear_extrude, triangulate2d in E. destruct (triangulate2d_rev pts); [|discriminate]. destruct (Nat.ltb_spec 3 (length pts)); [lia|discriminate]. }
  assert (C1 : complete (enumerate pts)) by (apply (fanconv_complete false); [exact F1|rewrite enumerate_length; exact Hk]).
  assert (C2 : complete (rev (enumerate pts))) by (apply (fanconv_complete true); [exact F2|rewrite rev_length, enumerate_length; exact Hk]).
  split; [apply (linear_extrude_closed_exact pts h ph E C2 C1)|].
  intros Hh Ha. rewrite (linear_extrude_volume pts h ph E C1). nra.
Qed.

Theorem loft_fanconvex (lower upper : list V2) (h : R) ph : loft lower upper h = Some ph ->
  fanconv true (rev (enumerate lower)) -> fanconv false (enumerate upper) -> closed_exact (snd ph).
Proof.
  intros E F1 F2.
  assert (Hk : (3 <= length lower)%nat /\ (3 <= length upper)%nat).
  { unfold loft in E. destruct (negb (Nat.eqb (length lower) (length upper))) eqn:El; [discriminate|]. apply negb_false_iff, Nat.eqb_eq in El.
    unfold triangulate2d_rev in E. destruct (Nat.ltb_spec 3 (length lower)); [lia|discriminate]. }
  apply (loft_closed_exact lower upper h ph E).
  - apply (fanconv_complete true); [exact F1|rewrite rev_length, enumerate_length; lia].
  - apply (fanconv_complete false); [exact F2|rewrite enumerate_length; lia].
Qed.
