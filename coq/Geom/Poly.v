(* Geom/Poly.v -- polygons as point lists: twice the signed area (shoelace), cyclic edges. *)
From Coq Require Import ZArith List.
From SCAD Require Import Base.Num Base.Vec.
Import ListNotations.
Local Open Scope num_scope.

Section Poly.
  Context {T : Type} `{Num T}.
  Notation pt2 := (pt2 T).
  Definition cross2 (a b : pt2) : T := x2 a * y2 b - x2 b * y2 a.
  (* twice the signed area of the triangle a b c: > 0 iff counter-clockwise *)
  Definition tri_area2 (a b c : pt2) : T := (x2 b - x2 a) * (y2 c - y2 a) - (x2 c - x2 a) * (y2 b - y2 a).
  Fixpoint open_area2 (l : list pt2) : T :=       (* sum of cross2 over consecutive pairs *)
    match l with
    | a :: ((b :: _) as tl) => cross2 a b + open_area2 tl
    | _ => nzero
    end.
  Definition area2 (l : list pt2) : T :=
    match l with
    | [] => nzero
    | a :: _ => open_area2 l + cross2 (last l a) a
    end.
End Poly.
