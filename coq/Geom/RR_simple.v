(* Geom/RR_simple.v -- C07: the rounded rectangle is a simple polygon, for all 0 < r < min(w,h)/2 and segments >= 1.
   Vertex (q, t) -- point t = 0..segments of corner arc q = 0..3 (top right, bottom right, bottom left, top left) -- is
   the corner centre plus r (sin, cos) of t*90/segments turned by q quarter turns. Edges in different zones (four arcs,
   four straight sides) have disjoint bounding boxes along x or y; two chords of one arc are separated because three
   points of an arc turn clockwise. *)
From Coq Require Import Reals ZArith List Bool Arith Lra Lia.
From SCAD Require Import Base.Num Base.NumR Base.Trig_proofs Base.Vec Base.Vec_proofs Base.Rot_proofs Geom.Poly Geom.Tri Geom.Tri_proofs Geom.Dim2 Geom.Dim2_proofs Geom.Dim2_winding Geom.Tri_convex Geom.Simple.
Import ListNotations.
Local Open Scope R_scope.

(* segments with disjoint extents along x or along y do not meet *)
Lemma box_apart (a b c d : V2) :
  (x2 a < x2 c /\ x2 a < x2 d /\ x2 b < x2 c /\ x2 b < x2 d) \/ (x2 c < x2 a /\ x2 d < x2 a /\ x2 c < x2 b /\ x2 d < x2 b) \/
  (y2 a < y2 c /\ y2 a < y2 d /\ y2 b < y2 c /\ y2 b < y2 d) \/ (y2 c < y2 a /\ y2 d < y2 a /\ y2 c < y2 b /\ y2 d < y2 b) ->
  ~ seg_meet a b c d.
Proof.
  intros Hb (s & t & Hs & Ht & Ex & Ey). destruct a as [ax ay], b as [bx by_], c as [cx cy], d as [dx dy]. cbn [x2 y2] in *.
  destruct Hb as [H|[H|[H|H]]]; destruct H as (H1 & H2 & H3 & H4).
  - assert (ax + s * (bx - ax) < cx + t * (dx - cx)); [|lra]. destruct (Rle_dec ax bx), (Rle_dec cx dx); nra.
  - assert (cx + t * (dx - cx) < ax + s * (bx - ax)); [|lra]. destruct (Rle_dec ax bx), (Rle_dec cx dx); nra.
  - assert (ay + s * (by_ - ay) < cy + t * (dy - cy)); [|lra]. destruct (Rle_dec ay by_), (Rle_dec cy dy); nra.
  - assert (cy + t * (dy - cy) < ay + s * (by_ - ay)); [|lra]. destruct (Rle_dec ay by_), (Rle_dec cy dy); nra.
Qed.

Lemma classic_neighbours n i j : neighbours n i j \/ ~ neighbours n i j.
Proof. unfold neighbours. destruct (Nat.eq_dec j (next_i n i)); destruct (Nat.eq_dec i (next_i n j)); tauto. Qed.

Section RR.
  Variables (w h r : R) (s : Z).
  Hypothesis Hr : 0 < r.
  Hypothesis Hw : 2 * r < w.
  Hypothesis Hh : 2 * r < h.
  Hypothesis Hs : (1 <= s)%Z.
  Let sn := Z.to_nat s.
  Let m := S sn.
  Definition tau (t : nat) : R := IZR (Z.of_nat t) * 90 / IZR s.
  Definition sg (t : nat) : R := r * dsin (tau t).
  Definition kp (t : nat) : R := r * dcos (tau t).
  Definition V (q t : nat) : V2 :=
    match q with
    | 0%nat => Pt2 (w - r + sg t) (h - r + kp t)
    | 1%nat => Pt2 (w - r + kp t) (r - sg t)
    | 2%nat => Pt2 (r - sg t) (r - kp t)
    | _ => Pt2 (r - kp t) (h - r + sg t)
    end.

  Lemma s_real : 1 <= IZR s. Proof. apply IZR_le. exact Hs. Qed.
  Lemma tau_range t : (t <= sn)%nat -> 0 <= tau t <= 90.
  Proof.
    intros Ht. pose proof s_real as H1. assert (Hi : 0 <= IZR (Z.of_nat t) <= IZR s) by (split; apply IZR_le; unfold sn in Ht; lia).
    unfold tau. split.
    - apply Rmult_le_pos; [nra|left; apply Rinv_0_lt_compat; lra].
    - apply (Rmult_le_reg_r (IZR s)); [lra|]. unfold Rdiv. rewrite Rmult_assoc, Rinv_l by lra. nra.
  Qed.
  Lemma tau_0 : tau 0 = 0. Proof. unfold tau. cbn [Z.of_nat]. unfold Rdiv. ring. Qed.
  Lemma tau_sn : tau sn = 90.
  Proof. pose proof s_real. unfold tau, sn. rewrite Z2Nat.id by lia. field. lra. Qed.
  Lemma tau_lt t : (t < sn)%nat -> tau t < 90.
  Proof.
    intros Ht. pose proof s_real as H1. assert (Hi : IZR (Z.of_nat t) <= IZR s - 1).
    { replace (IZR s - 1) with (IZR (s - 1)) by (rewrite minus_IZR; reflexivity). apply IZR_le. unfold sn in Ht. lia. }
    unfold tau. apply (Rmult_lt_reg_r (IZR s)); [lra|]. unfold Rdiv. rewrite Rmult_assoc, Rinv_l by lra. nra.
  Qed.
  Lemma tau_pos t : (0 < t)%nat -> 0 < tau t.
  Proof.
    intros Ht. pose proof s_real as H1. assert (Hi : 1 <= IZR (Z.of_nat t)) by (apply IZR_le; lia).
    unfold tau. apply Rmult_lt_0_compat; [nra|apply Rinv_0_lt_compat; lra].
  Qed.
  Lemma tau_step a b : (a < b)%nat -> tau a < tau b.
  Proof.
    intros Hab. pose proof s_real as H1. assert (Hi : IZR (Z.of_nat a) + 1 <= IZR (Z.of_nat b)) by (rewrite <- plus_IZR; apply IZR_le; lia).
    unfold tau. apply (Rmult_lt_reg_r (IZR s)); [lra|]. unfold Rdiv. rewrite !Rmult_assoc, Rinv_l by lra. nra.
  Qed.

  Lemma dsin_lt_1 x : 0 <= x < 90 -> dsin x < 1.
  Proof.
    intros Hx. rewrite <- dsin_90, !dsin_def. pose proof PI_RGT_0. apply sin_increasing_1; nra.
  Qed.
  Lemma dcos_lt_1 x : 0 < x <= 90 -> dcos x < 1.
  Proof.
    intros Hx. rewrite <- dcos_0, !dcos_def. pose proof PI_RGT_0. apply cos_decreasing_1; nra.
  Qed.

  (* what is known about the sine and cosine parts of point t of an arc *)
  Lemma sk t : (t <= sn)%nat ->
    0 <= sg t <= r /\ 0 <= kp t <= r /\ ((t < sn)%nat -> sg t < r) /\ ((0 < t)%nat -> kp t < r) /\
    (t = 0%nat -> sg t = 0 /\ kp t = r) /\ (t = sn -> sg t = r /\ kp t = 0).
  Proof.
    intros Ht. pose proof (tau_range t Ht) as Hrange. destruct (quarter_trig _ Hrange) as [Hsn Hcs]. unfold sg, kp.
    split; [nra|]. split; [nra|]. split; [|split; [|split]].
    - intros Hlt. pose proof (dsin_lt_1 (tau t) (conj (proj1 Hrange) (tau_lt t Hlt))). nra.
    - intros Hgt. pose proof (dcos_lt_1 (tau t) (conj (tau_pos t Hgt) (proj2 Hrange))). nra.
    - intros ->. rewrite tau_0, dsin_0, dcos_0. split; ring.
    - intros ->. rewrite tau_sn, dsin_90, dcos_90. split; ring.
  Qed.

  (* three points of one arc turn clockwise; the expression is the same in all four corners *)
  Definition O3 (a b c : nat) : R := (sg b - sg a) * (kp c - kp a) - (sg c - sg a) * (kp b - kp a).
  Lemma orient_arc q a b c : orientR (V q a) (V q b) (V q c) = O3 a b c.
  Proof. unfold orientR, O3, V. destruct q as [|[|[|q]]]; cbn [x2 y2]; ring. Qed.
  Lemma O3_neg a b c : (a < b)%nat -> (b < c)%nat -> (c <= sn)%nat -> O3 a b c < 0.
  Proof.
    intros Hab Hbc Hc. unfold O3, sg, kp.
    set (x := tau b - tau a). set (y := tau c - tau b).
    assert (Hx : 0 < x) by (unfold x; pose proof (tau_step a b Hab); lra).
    assert (Hy : 0 < y) by (unfold y; pose proof (tau_step b c Hbc); lra).
    assert (Hxy : x + y <= 90).
    { unfold x, y. pose proof (tau_range c Hc). pose proof (tau_range a ltac:(lia)). lra. }
    assert (E : (r * dsin (tau b) - r * dsin (tau a)) * (r * dcos (tau c) - r * dcos (tau a)) - (r * dsin (tau c) - r * dsin (tau a)) * (r * dcos (tau b) - r * dcos (tau a))
              = - (r * r * (dsin x + dsin y - dsin (x + y)))).
    { assert (Sub : forall u v, dsin (u - v) = dsin u * dcos v - dcos u * dsin v) by (intros u v; unfold Rminus; rewrite dsin_plus, dcos_neg, dsin_neg; ring).
      replace (x + y) with (tau c - tau a) by (unfold x, y; ring). unfold x, y. rewrite !Sub. ring. }
    rewrite E, three_sines.
    assert (P1 : 0 < dsin (x / 2)) by (apply dsin_pos; lra).
    assert (P2 : 0 < dsin (y / 2)) by (apply dsin_pos; lra).
    assert (P3 : 0 < dsin ((x + y) / 2)) by (apply dsin_pos; lra).
    assert (0 < dsin (x / 2) * dsin (y / 2) * dsin ((x + y) / 2)) by (apply Rmult_lt_0_compat; [apply Rmult_lt_0_compat|]; assumption).
    assert (0 < r * r) by nra. nra.
  Qed.

  (* ---- the vertices of the outline ---- *)
  Lemma arc_pt (start : V2) a i : arc start 90 s = Some a -> (i < m)%nat ->
    length a = m /\ nth i a start = Pt2 (x2 start * dcos (tau i) + y2 start * dsin (tau i)) (y2 start * dcos (tau i) - x2 start * dsin (tau i)).
  Proof.
    intros Ha Hi. assert (Hs0 : (0 <= s)%Z) by lia. destruct (arc_spec _ _ _ _ Hs0 Ha) as [Hl Hn].
    assert (E : Reqb 90 360 = false) by (apply Reqb_false; lra). rewrite E in Hl.
    assert (Hm : length a = m) by (rewrite Hl; unfold m, sn; lia). split; [exact Hm|].
    rewrite Hn by (rewrite Hm; exact Hi). pose proof s_real.
    replace (IZR (Z.of_nat i) * - (90) / IZR s) with (- tau i) by (unfold tau; field; lra).
    rewrite pt2_rotated_spec. unfold R2_spec. rewrite dcos_neg, dsin_neg. destruct start as [sx sy]. cbn [x2 y2]. f_equal; ring.
  Qed.

  Lemma nth_app4 (l0 l1 l2 l3 : list V2) (q t : nat) d : length l0 = m -> length l1 = m -> length l2 = m -> length l3 = m ->
    (q < 4)%nat -> (t < m)%nat ->
    nth (q * m + t) (l0 ++ l1 ++ l2 ++ l3) d = nth t (match q with 0%nat => l0 | 1%nat => l1 | 2%nat => l2 | _ => l3 end) d.
  Proof.
    intros L0 L1 L2 L3 Hq Ht. destruct q as [|[|[|[|q]]]]; try lia.
    - rewrite app_nth1 by lia. f_equal.
    - rewrite app_nth2 by lia. rewrite app_nth1 by lia. f_equal. lia.
    - rewrite app_nth2 by lia. rewrite app_nth2 by lia. rewrite app_nth1 by lia. f_equal. lia.
    - rewrite app_nth2 by lia. rewrite app_nth2 by lia. rewrite app_nth2 by lia. f_equal. lia.
  Qed.

  Lemma rr_vertices pts : rounded_rect w h r s false = Some pts ->
    length pts = (4 * m)%nat /\ forall q t, (q < 4)%nat -> (t < m)%nat -> vertex pts (q * m + t) = V q t.
  Proof.
    unfold rounded_rect. cbn [nzero nofZ nneg nsub NumR].
    destruct (arc (Pt2 0 r) 90 s) as [a0|] eqn:E0; [|discriminate]. destruct (arc (Pt2 r 0) 90 s) as [a1|] eqn:E1; [|discriminate].
    destruct (arc (Pt2 (- 0) (- r)) 90 s) as [a2|] eqn:E2; [|discriminate]. destruct (arc (Pt2 (- r) 0) 90 s) as [a3|] eqn:E3; [|discriminate].
    intros E. inversion E as [Hp]. clear E Hp.
    assert (L0 : length a0 = m) by (apply (arc_pt _ a0 0%nat E0); unfold m; lia).
    assert (L1 : length a1 = m) by (apply (arc_pt _ a1 0%nat E1); unfold m; lia).
    assert (L2 : length a2 = m) by (apply (arc_pt _ a2 0%nat E2); unfold m; lia).
    assert (L3 : length a3 = m) by (apply (arc_pt _ a3 0%nat E3); unfold m; lia).
    unfold pt2s_translate. split; [rewrite !app_length, !map_length; lia|].
    intros q t Hq Ht. unfold vertex. rewrite nth_app4 by (rewrite ?map_length; assumption).
    destruct q as [|[|[|[|q]]]]; try lia.
    - rewrite (nth_indep _ (Pt2 0 0) (pt2_add (Pt2 0 r) (Pt2 (w - r) (h - r)))) by (rewrite map_length; lia).
      rewrite (map_nth (fun p => pt2_add p (Pt2 (w - r) (h - r)))). rewrite (proj2 (arc_pt _ a0 t E0 Ht)).
      unfold V, sg, kp, pt2_add. cbn [x2 y2 nadd NumR]. f_equal; ring.
    - rewrite (nth_indep _ (Pt2 0 0) (pt2_add (Pt2 r 0) (Pt2 (w - r) r))) by (rewrite map_length; lia).
      rewrite (map_nth (fun p => pt2_add p (Pt2 (w - r) r))). rewrite (proj2 (arc_pt _ a1 t E1 Ht)).
      unfold V, sg, kp, pt2_add. cbn [x2 y2 nadd NumR]. f_equal; ring.
    - rewrite (nth_indep _ (Pt2 0 0) (pt2_add (Pt2 (- 0) (- r)) (Pt2 r r))) by (rewrite map_length; lia).
      rewrite (map_nth (fun p => pt2_add p (Pt2 r r))). rewrite (proj2 (arc_pt _ a2 t E2 Ht)).
      unfold V, sg, kp, pt2_add. cbn [x2 y2 nadd NumR]. f_equal; ring.
    - rewrite (nth_indep _ (Pt2 0 0) (pt2_add (Pt2 (- r) 0) (Pt2 r (h - r)))) by (rewrite map_length; lia).
      rewrite (map_nth (fun p => pt2_add p (Pt2 r (h - r)))). rewrite (proj2 (arc_pt _ a3 t E3 Ht)).
      unfold V, sg, kp, pt2_add. cbn [x2 y2 nadd NumR]. f_equal; ring.
  Qed.

  (* ---- edges ---- *)
  Definition nq (q : nat) : nat := match q with 0%nat => 1%nat | 1%nat => 2%nat | 2%nat => 3%nat | _ => 0%nat end.
  Definition nxt (q t : nat) : nat := if (t <? sn)%nat then (q * m + S t)%nat else (nq q * m)%nat.
  Definition Vn (q t : nat) : V2 := if (t <? sn)%nat then V q (S t) else V (nq q) 0.
  Lemma sn_pos : (1 <= sn)%nat. Proof. unfold sn. lia. Qed.

  Lemma arc_chords_apart q a b : (a < sn)%nat -> (b < sn)%nat -> a <> b -> S a <> b -> S b <> a ->
    ~ seg_meet (V q a) (V q (S a)) (V q b) (V q (S b)).
  Proof.
    intros Ha Hb N1 N2 N3. destruct (Nat.lt_ge_cases a b) as [Hlt|Hge].
    - apply one_side_no_meet. left. rewrite !orient_arc. split; apply O3_neg; lia.
    - intros M. apply seg_meet_sym in M. revert M. apply one_side_no_meet. left. rewrite !orient_arc. split; apply O3_neg; lia.
  Qed.

  (* bounds only *)
  Ltac bnd t :=
    let B1 := fresh "B" in let B2 := fresh "B" in let B3 := fresh "B" in let Y := fresh "Y" in
    assert (Y : (t <= sn)%nat) by lia; destruct (sk t Y) as (B1 & B2 & B3); clear B3.
  (* exact values at the two ends *)
  Ltac ends :=
    let E0 := fresh "E" in let E1 := fresh "E" in
    destruct (proj1 (proj2 (proj2 (proj2 (proj2 (sk 0%nat ltac:(lia)))))) eq_refl) as [E0 E1];
    let F0 := fresh "F" in let F1 := fresh "F" in
    destruct (proj2 (proj2 (proj2 (proj2 (proj2 (sk sn ltac:(lia)))))) eq_refl) as [F0 F1].
  (* bounds, and strictness where t is not an end (splitting on whether it is) *)
  Ltac know t :=
    let B1 := fresh "B" in let B2 := fresh "B" in let B3 := fresh "B" in let B4 := fresh "B" in let B5 := fresh "B" in let B6 := fresh "B" in
    let Z := fresh "Z" in let Z' := fresh "W" in let Y := fresh "Y" in
    assert (Y : (t <= sn)%nat) by lia;
    destruct (sk t Y) as (B1 & B2 & B3 & B4 & B5 & B6);
    (destruct (Nat.eq_dec t 0) as [Z|Z]; [destruct (B5 Z)|assert (kp t < r) by (apply B4; lia)]);
    (destruct (Nat.eq_dec t sn) as [Z'|Z']; [destruct (B6 Z')|assert (sg t < r) by (apply B3; lia)]);
    clear B3 B4 B5 B6; try (exfalso; lia).
  Ltac box4 := apply box_apart; cbn [V x2 y2]; first [ left; lra | right; left; lra | right; right; left; lra | right; right; right; lra ].
  Ltac box := first [ exfalso; lia | box4 ].

  Lemma rr_edges_apart qi ti qj tj : (qi < 4)%nat -> (ti <= sn)%nat -> (qj < 4)%nat -> (tj <= sn)%nat ->
    (qi * m + ti <> qj * m + tj)%nat -> nxt qi ti <> (qj * m + tj)%nat -> nxt qj tj <> (qi * m + ti)%nat ->
    ~ seg_meet (V qi ti) (Vn qi ti) (V qj tj) (Vn qj tj).
  Proof.
    intros Hqi Hti Hqj Htj N1 N2 N3. pose proof sn_pos as Hsn. unfold nxt, Vn in *. unfold m in *.
    destruct (ti <? sn)%nat eqn:Ei; destruct (tj <? sn)%nat eqn:Ej;
      [apply Nat.ltb_lt in Ei; apply Nat.ltb_lt in Ej|apply Nat.ltb_lt in Ei; apply Nat.ltb_ge in Ej
      |apply Nat.ltb_ge in Ei; apply Nat.ltb_lt in Ej|apply Nat.ltb_ge in Ei; apply Nat.ltb_ge in Ej].
    - (* arc, arc *)
      destruct (Nat.eq_dec qi qj) as [->|Nq]; [apply arc_chords_apart; lia|].
      bnd ti; bnd (S ti); bnd tj; bnd (S tj).
      destruct qi as [|[|[|[|qi]]]]; try lia; destruct qj as [|[|[|[|qj]]]]; try lia; try (exfalso; apply Nq; reflexivity); box4.
    - (* arc, side *)
      assert (tj = sn) by lia. subst tj. ends.
      destruct qi as [|[|[|[|qi]]]]; try lia; destruct qj as [|[|[|[|qj]]]]; try lia; cbn [nq] in *;
        first [ bnd ti; bnd (S ti); box4 | know ti; know (S ti); box ].
    - (* side, arc *)
      assert (ti = sn) by lia. subst ti. ends.
      destruct qi as [|[|[|[|qi]]]]; try lia; destruct qj as [|[|[|[|qj]]]]; try lia; cbn [nq] in *;
        first [ bnd tj; bnd (S tj); box4 | know tj; know (S tj); box ].
    - (* side, side *)
      assert (ti = sn) by lia. assert (tj = sn) by lia. subst ti tj. ends.
      destruct qi as [|[|[|[|qi]]]]; try lia; destruct qj as [|[|[|[|qj]]]]; try lia; cbn [nq] in *; box.
  Qed.

  Lemma decompose i : (i < 4 * m)%nat -> exists q t, (q < 4)%nat /\ (t <= sn)%nat /\ i = (q * m + t)%nat.
  Proof.
    intros Hi. exists (i / m)%nat, (i mod m)%nat. assert (Hm : m <> 0%nat) by (unfold m; lia).
    pose proof (Nat.mod_upper_bound i m Hm). pose proof (Nat.div_mod i m Hm). split; [apply Nat.div_lt_upper_bound; lia|]. split; [unfold m in *; lia|nia].
  Qed.
  Lemma next_is_nxt q t : (q < 4)%nat -> (t <= sn)%nat -> next_i (4 * m) (q * m + t) = nxt q t.
  Proof.
    intros Hq Ht. unfold next_i, nxt. destruct (Nat.ltb_spec t sn) as [Hlt|Hge].
    - destruct (Nat.eqb_spec (q * m + t) (4 * m - 1)) as [E|E]; [unfold m in *; nia|unfold m in *; lia].
    - assert (t = sn) by lia. subst t. destruct (Nat.eqb_spec (q * m + sn) (4 * m - 1)) as [E|E].
      + assert (q = 3%nat) by (unfold m in *; nia). subst q. reflexivity.
      + destruct q as [|[|[|[|q]]]]; cbn [nq]; unfold m in *; try lia.
  Qed.
  Lemma V_inj q a b : V q a = V q b -> sg a = sg b /\ kp a = kp b.
  Proof. unfold V. destruct q as [|[|[|q]]]; intros E; inversion E; split; lra. Qed.
  Lemma arc_neighbours_distinct q t : (t < sn)%nat -> V q t <> V q (S t).
  Proof.
    intros Ht E. apply V_inj in E. destruct E as [E1 E2]. destruct (Nat.eq_dec t 0) as [->|Nz].
    - destruct (sk 0%nat ltac:(lia)) as (_ & _ & _ & _ & B5 & _). destruct (B5 eq_refl) as [_ K0].
      destruct (sk 1%nat ltac:(lia)) as (_ & _ & _ & B4 & _ & _). specialize (B4 ltac:(lia)). lra.
    - pose proof (O3_neg 0%nat t (S t) ltac:(lia) ltac:(lia) ltac:(lia)) as Hneg. unfold O3 in Hneg. rewrite E1, E2 in Hneg. lra.
  Qed.

  Theorem rounded_rect_simple_uncentred pts : rounded_rect w h r s false = Some pts -> simple pts.
  Proof.
    intros E. destruct (rr_vertices pts E) as [Hlen Hv]. pose proof sn_pos as Hsn.
    assert (Hvn : forall q t, (q < 4)%nat -> (t <= sn)%nat -> vertex pts (next_i (4 * m) (q * m + t)) = Vn q t).
    { intros q t Hq Ht. rewrite next_is_nxt by assumption. unfold nxt, Vn. destruct (Nat.ltb_spec t sn) as [Hlt|Hge].
      - apply Hv; [exact Hq|unfold m; lia].
      - replace (nq q * m)%nat with (nq q * m + 0)%nat by lia. apply Hv; [destruct q as [|[|[|q]]]; cbn [nq]; lia|unfold m; lia]. }
    assert (Apart : forall i j, (i < 4 * m)%nat -> (j < 4 * m)%nat -> i <> j -> ~ neighbours (4 * m) i j ->
              ~ seg_meet (vertex pts i) (vertex pts (next_i (4 * m) i)) (vertex pts j) (vertex pts (next_i (4 * m) j))).
    { intros i j Hi Hj Nij Nn. destruct (decompose i Hi) as (qi & ti & Hqi & Hti & ->). destruct (decompose j Hj) as (qj & tj & Hqj & Htj & ->).
      rewrite (Hvn qi ti Hqi Hti), (Hvn qj tj Hqj Htj), (Hv qi ti Hqi ltac:(unfold m; lia)), (Hv qj tj Hqj ltac:(unfold m; lia)).
      unfold neighbours in Nn. rewrite !next_is_nxt in Nn by assumption.
      apply rr_edges_apart; try assumption.
      - intros Eq. apply Nn. left. symmetry. exact Eq.
      - intros Eq. apply Nn. right. symmetry. exact Eq. }
    unfold simple. rewrite Hlen. split; [|exact Apart].
    intros i j Hij Hj Eq.
    destruct (classic_neighbours (4 * m) i j) as [Hnb|Hnn].
    - (* neighbours: next_i i = j, or i = next_i j (only i = 0, j = last) *)
      destruct (decompose i ltac:(lia)) as (qi & ti & Hqi & Hti & Ei). destruct (decompose j Hj) as (qj & tj & Hqj & Htj & Ej).
      destruct Hnb as [Hn|Hn].
      + rewrite Hn in Eq. rewrite Ei in Eq. rewrite (Hvn qi ti Hqi Hti), (Hv qi ti Hqi ltac:(unfold m; lia)) in Eq. unfold Vn in Eq.
        destruct (Nat.ltb_spec ti sn) as [Hlt|Hge]; [exact (arc_neighbours_distinct qi ti Hlt Eq)|].
        assert (ti = sn) by lia. subst ti.
        destruct (sk 0%nat ltac:(lia)) as (_ & _ & _ & _ & B5 & _). destruct (B5 eq_refl) as [S0 K0].
        destruct (sk sn ltac:(lia)) as (_ & _ & _ & _ & _ & B6). destruct (B6 eq_refl) as [S1 K1].
        revert Eq. unfold V. destruct qi as [|[|[|[|qi]]]]; try lia; cbn [nq]; intros Eq; inversion Eq; lra.
      + (* i = next_i j with i < j: j is the last vertex and i = 0 *)
        assert (i = 0%nat /\ j = (4 * m - 1)%nat) as [-> ->].
        { unfold next_i in Hn. destruct (Nat.eqb_spec j (4 * m - 1)); lia. }
        replace (vertex pts 0) with (V 0 0) in Eq by (symmetry; apply (Hv 0%nat 0%nat); unfold m; lia).
        replace (vertex pts (4 * m - 1)) with (V 3 sn) in Eq by (symmetry; replace (4 * m - 1)%nat with (3 * m + sn)%nat by (unfold m; lia); apply (Hv 3%nat sn); unfold m; lia).
        destruct (sk 0%nat ltac:(lia)) as (_ & _ & _ & _ & B5 & _). destruct (B5 eq_refl) as [S0 K0].
        destruct (sk sn ltac:(lia)) as (_ & _ & _ & _ & _ & B6). destruct (B6 eq_refl) as [S1 K1].
        unfold V in Eq. inversion Eq. lra.
    - apply (Apart i j ltac:(lia) Hj ltac:(lia) Hnn). exists 0, 0. rewrite Eq. repeat split; lra.
  Qed.
End RR.

(* moving an outline keeps it simple *)
Lemma simple_translate (v : V2) l : simple l -> simple (pt2s_translate l v).
Proof.
  intros [Hd Hm]. unfold simple, pt2s_translate. rewrite map_length. set (n := length l) in *.
  assert (Hv : forall i, (i < n)%nat -> vertex (map (fun q => pt2_add q v) l) i = pt2_add (vertex l i) v).
  { intros i Hi. unfold vertex. rewrite (nth_indep _ (Pt2 0 0) (pt2_add (Pt2 0 0) v)) by (rewrite map_length; exact Hi). apply (map_nth (fun q => pt2_add q v)). }
  assert (Hnx : forall i, (i < n)%nat -> (next_i n i < n)%nat) by (intros i Hi; unfold next_i; destruct (Nat.eqb_spec i (n - 1)); lia).
  split.
  - intros i j Hij Hj. rewrite !Hv by lia. intros E. apply (Hd i j Hij Hj). unfold pt2_add in E. inversion E as [[Ex Ey]].
    destruct (vertex l i) as [ax ay], (vertex l j) as [bx by_]. cbn [x2 y2 nadd NumR] in *. f_equal; lra.
  - intros i j Hi Hj Nij Nn. rewrite (Hv i Hi), (Hv j Hj), (Hv _ (Hnx i Hi)), (Hv _ (Hnx j Hj)).
    intros (s & t & Hs & Ht & Ex & Ey). apply (Hm i j Hi Hj Nij Nn). exists s, t. unfold pt2_add in Ex, Ey. cbn [x2 y2 nadd NumR] in Ex, Ey.
    repeat split; try tauto; lra.
Qed.

Theorem rounded_rect_simple (w h r : R) (segments : Z) (center : bool) pts : 0 < r -> 2 * r < w -> 2 * r < h -> (1 <= segments)%Z ->
  rounded_rect w h r segments center = Some pts -> simple pts.
Proof.
  intros Hr Hw Hh Hs E. destruct center; [|apply (rounded_rect_simple_uncentred w h r segments Hr Hw Hh Hs pts E)].
  destruct (rounded_rect w h r segments false) as [pts0|] eqn:E0.
  - assert (Hp : pts = pt2s_translate pts0 (Pt2 (- w / 2) (- h / 2))).
    { unfold rounded_rect in E, E0. cbn [nzero nofZ nneg nsub ndiv ntwo NumR] in E, E0.
      destruct (arc (Pt2 0 r) 90 segments); [|discriminate]. destruct (arc (Pt2 r 0) 90 segments); [|discriminate].
      destruct (arc (Pt2 (- 0) (- r)) 90 segments); [|discriminate]. destruct (arc (Pt2 (- r) 0) 90 segments); [|discriminate].
      inversion E. inversion E0. reflexivity. }
    rewrite Hp. apply simple_translate. apply (rounded_rect_simple_uncentred w h r segments Hr Hw Hh Hs pts0 E0).
  - exfalso. unfold rounded_rect in E, E0.
    destruct (arc _ _ _); [|discriminate]. destruct (arc _ _ _); [|discriminate]. destruct (arc _ _ _); [|discriminate]. destruct (arc _ _ _); discriminate.
Qed.
