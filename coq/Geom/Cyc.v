(* Geom/Cyc.v -- cyclic sums over a list and what removing one element (clipping an ear) does to them.
   Generic in a commutative monoid, so that the same lemma gives the shoelace (area) identity over R and the
   directed-edge (boundary) identity over Z. Axiom-free. *)
From Coq Require Import List Arith Lia.
From AAC_tactics Require Import AAC.
Import ListNotations.

Section Cyc.
  Variables (A M : Type) (mzero : M) (madd : M -> M -> M).
  Hypothesis madd_comm : forall a b, madd a b = madd b a.
  Hypothesis madd_assoc : forall a b c, madd a (madd b c) = madd (madd a b) c.
  Hypothesis madd_0_l : forall a, madd mzero a = a.
  Variable g : A -> A -> M.
  Infix "+" := madd.
  Instance madd_A : Associative eq madd. Proof. intros a b c. apply madd_assoc. Qed.
  Instance madd_C : Commutative eq madd. Proof. intros a b. apply madd_comm. Qed.

  Fixpoint osum (l : list A) : M :=
    match l with
    | a :: ((b :: _) as tl) => g a b + osum tl
    | _ => mzero
    end.
  Definition csum (l : list A) : M :=
    match l with [] => mzero | a :: _ => osum l + g (last l a) a end.

  Lemma csum_cons a tl : csum (a :: tl) = osum (a :: tl) + g (last (a :: tl) a) a.
  Proof. reflexivity. Qed.
  Lemma madd_0_r a : a + mzero = a. Proof. rewrite madd_comm. apply madd_0_l. Qed.

  Lemma osum_app_cons l1 a l2 : osum (l1 ++ a :: l2) = osum (l1 ++ [a]) + osum (a :: l2).
  Proof.
    induction l1 as [|x l1 IH]; [cbn [app osum]; rewrite madd_0_l; reflexivity|].
    destruct l1 as [|y l1].
    - cbn [app]. change (osum (x :: a :: l2)) with (g x a + osum (a :: l2)). change (osum [x; a]) with (g x a + mzero).
      rewrite madd_0_r. reflexivity.
    - change ((x :: y :: l1) ++ a :: l2) with (x :: y :: (l1 ++ a :: l2)). change ((x :: y :: l1) ++ [a]) with (x :: y :: (l1 ++ [a])).
      change (osum (x :: y :: l1 ++ a :: l2)) with (g x y + osum ((y :: l1) ++ a :: l2)).
      change (osum (x :: y :: l1 ++ [a])) with (g x y + osum ((y :: l1) ++ [a])). rewrite IH. rewrite madd_assoc. reflexivity.
  Qed.

  (* the ear in the middle of the list *)
  Lemma osum_remove_middle l1 p x n l2 :
    osum (l1 ++ p :: n :: l2) + g p x + g x n = osum (l1 ++ p :: x :: n :: l2) + g p n.
  Proof.
    rewrite (osum_app_cons l1 p (n :: l2)), (osum_app_cons l1 p (x :: n :: l2)).
    change (osum (p :: n :: l2)) with (g p n + osum (n :: l2)).
    change (osum (p :: x :: n :: l2)) with (g p x + (g x n + osum (n :: l2))).
    aac_reflexivity.
  Qed.

  Lemma last_app_cons {B} (l1 : list B) a l2 d : last (l1 ++ a :: l2) d = last (a :: l2) d.
  Proof.
    induction l1 as [|x l1 IH]; [reflexivity|]. cbn [app]. rewrite <- IH.
    destruct (l1 ++ a :: l2) eqn:E; [destruct l1; discriminate|]. reflexivity.
  Qed.

  Definition remove_nth (i : nat) (l : list A) : list A := firstn i l ++ skipn (S i) l.
  Definition prev_i (n i : nat) : nat := if Nat.eqb i 0 then n - 1 else i - 1.
  Definition next_i (n i : nat) : nat := if Nat.eqb i (n - 1) then 0 else i + 1.

  Lemma remove_nth_last L x : remove_nth (length L) (L ++ [x]) = L.
  Proof.
    unfold remove_nth. rewrite firstn_app, Nat.sub_diag, firstn_all. cbn [firstn]. rewrite app_nil_r.
    rewrite skipn_all2 by (rewrite app_length; cbn [length]; lia). apply app_nil_r.
  Qed.

  (* clipping the vertex at position i of a cyclic list of at least three elements:
     csum(l with x removed) + g p x + g x n = csum l + g p n, p and n the cyclic neighbours of x *)
  Theorem csum_remove (l : list A) (i : nat) (d : A) : 3 <= length l -> i < length l ->
    let p := nth (prev_i (length l) i) l d in let x := nth i l d in let n := nth (next_i (length l) i) l d in
    csum (remove_nth i l) + g p x + g x n = csum l + g p n.
  Proof.
    intros Hlen Hi. cbv zeta. unfold prev_i, next_i.
    destruct (Nat.eqb_spec i 0) as [-> | Hi0].
    - (* first element: l = x :: n :: m, p = last *)
      destruct l as [|x [|n m]]; cbn [length] in *; try lia.
      destruct (Nat.eqb_spec 0 (S (S (length m)) - 1)); [lia|]. change (nth 0 (x :: n :: m) d) with x. change (nth (0 + 1) (x :: n :: m) d) with n.
      replace (S (S (length m)) - 1) with (S (length m)) by lia.
      unfold remove_nth. cbn [firstn skipn app].
      assert (Hlast : nth (S (length m)) (x :: n :: m) d = last (n :: m) x).
      { clear. cbn [nth]. revert n. induction m as [|y m IH]; intros n; [reflexivity|]. cbn [length nth]. rewrite IH. reflexivity. }
      rewrite Hlast. unfold csum.
      change (last (x :: n :: m) x) with (last (n :: m) x).
      assert (Hl2 : last (n :: m) n = last (n :: m) x).
      { destruct m as [|y m]; [cbn in Hlen; lia|]. clear. change (last (n :: y :: m) n) with (last (y :: m) n). change (last (n :: y :: m) x) with (last (y :: m) x).
        revert y. induction m as [|z m IH]; intros y; [reflexivity|]. change (last (y :: z :: m) n) with (last (z :: m) n). change (last (y :: z :: m) x) with (last (z :: m) x). apply IH. }
      rewrite Hl2. set (pl := last (n :: m) x).
      change (osum (x :: n :: m)) with (g x n + osum (n :: m)). set (b := osum (n :: m)).
      aac_reflexivity.
    - destruct (Nat.eqb_spec i (length l - 1)) as [Hil | Hil].
      + (* last element: l = n :: m ++ [p; x] *)
        destruct (exists_last (l := l) ltac:(destruct l; [cbn in Hlen; lia|discriminate])) as [l' [x El]]. subst l.
        rewrite app_length in *. cbn [length] in *.
        destruct (exists_last (l := l') ltac:(destruct l'; [cbn in Hlen; lia|discriminate])) as [l'' [p El]]. subst l'.
        rewrite app_length in *. cbn [length] in *. assert (i = S (length l'')) by lia. subst i.
        destruct l'' as [|n m]; [cbn in Hlen; lia|]. cbn [length] in *.
        replace (S (length m) + 1 + 1 - 1 - 1) with (S (length m)) by lia. replace (S (length m) + 1 + 1 - 1) with (S (S (length m))) by lia.
        assert (Hx : nth (S (S (length m))) (((n :: m) ++ [p]) ++ [x]) d = x).
        { rewrite app_nth2; rewrite app_length; cbn [length]; [|lia]. replace (S (S (length m)) - (S (length m) + 1)) with 0 by lia. reflexivity. }
        assert (Hp : nth (S (length m)) (((n :: m) ++ [p]) ++ [x]) d = p).
        { rewrite app_nth1 by (rewrite app_length; cbn [length]; lia). rewrite app_nth2 by (cbn [length]; lia).
          cbn [length]. rewrite Nat.sub_diag. reflexivity. }
        rewrite Hx, Hp. change (nth 0 (((n :: m) ++ [p]) ++ [x]) d) with n.
        assert (Hrem : remove_nth (S (S (length m))) (((n :: m) ++ [p]) ++ [x]) = (n :: m) ++ [p]).
        { replace (S (S (length m))) with (length ((n :: m) ++ [p])) by (rewrite app_length; cbn [length]; lia). apply remove_nth_last. }
        rewrite Hrem, <- app_assoc. change ([p] ++ [x]) with [p; x].
        change ((n :: m) ++ [p; x]) with (n :: (m ++ [p; x])). change ((n :: m) ++ [p]) with (n :: (m ++ [p])).
        rewrite !csum_cons.
        change (n :: (m ++ [p; x])) with ((n :: m) ++ p :: [x]). change (n :: (m ++ [p])) with ((n :: m) ++ p :: []).
        rewrite !last_app_cons. cbn [last].
        rewrite (osum_app_cons (n :: m) p [x]). change (osum [p; x]) with (g p x + mzero). rewrite madd_0_r.
        aac_reflexivity.
      + (* middle *)
        assert (Hsplit : exists l1 p x n l2, l = l1 ++ p :: x :: n :: l2 /\ length l1 = i - 1).
        { exists (firstn (i - 1) l). destruct (skipn (i - 1) l) as [|p [|x [|n l2]]] eqn:E.
          - exfalso. apply (f_equal (@length A)) in E. rewrite skipn_length in E. cbn in E. lia.
          - exfalso. apply (f_equal (@length A)) in E. rewrite skipn_length in E. cbn in E. lia.
          - exfalso. apply (f_equal (@length A)) in E. rewrite skipn_length in E. cbn in E. lia.
          - exists p, x, n, l2. split; [rewrite <- E; symmetry; apply firstn_skipn|]. rewrite firstn_length. lia. }
        destruct Hsplit as (l1 & p & x & n & l2 & -> & Hl1).
        rewrite app_length in *. cbn [length] in *.
        assert (Hp : nth (i - 1) (l1 ++ p :: x :: n :: l2) d = p) by (rewrite app_nth2 by lia; rewrite Hl1, Nat.sub_diag; reflexivity).
        assert (Hx : nth i (l1 ++ p :: x :: n :: l2) d = x) by (rewrite app_nth2 by lia; replace (i - length l1) with 1 by lia; reflexivity).
        assert (Hn : nth (i + 1) (l1 ++ p :: x :: n :: l2) d = n) by (rewrite app_nth2 by lia; replace (i + 1 - length l1) with 2 by lia; reflexivity).
        rewrite Hp, Hx, Hn.
        assert (Hrem : remove_nth i (l1 ++ p :: x :: n :: l2) = l1 ++ p :: n :: l2).
        { unfold remove_nth. rewrite firstn_app, skipn_app. rewrite Hl1.
          rewrite firstn_all2 by lia. rewrite skipn_all2 by lia.
          replace (i - (i - 1)) with 1 by lia. replace (S i - (i - 1)) with 2 by lia. cbn [firstn skipn app].
          rewrite <- app_assoc. reflexivity. }
        rewrite Hrem. unfold csum.
        destruct l1 as [|h l1].
        * cbn [app]. cbn [app] in *. rewrite !(last_app_cons [p] n l2), !(last_app_cons [p; x] n l2).
          pose proof (osum_remove_middle [] p x n l2) as Hm. cbn [app] in Hm.
          set (c := g (last (n :: l2) p) p). set (u := osum (p :: x :: n :: l2)) in *. set (v := osum (p :: n :: l2)) in *.
          transitivity (v + g p x + g x n + c); [aac_reflexivity|]. rewrite Hm. aac_reflexivity.
        * cbn [app]. change (h :: l1 ++ p :: n :: l2) with ((h :: l1) ++ p :: n :: l2).
          change (h :: l1 ++ p :: x :: n :: l2) with ((h :: l1) ++ p :: x :: n :: l2).
          rewrite (last_app_cons ((h :: l1) ++ [p]) n l2 h), (last_app_cons ((h :: l1) ++ [p; x]) n l2 h) || idtac.
          replace (last ((h :: l1) ++ p :: n :: l2) h) with (last (n :: l2) h)
            by (symmetry; change ((h :: l1) ++ p :: n :: l2) with (((h :: l1) ++ [p]) ++ n :: l2) || idtac; rewrite <- (last_app_cons ((h :: l1) ++ [p]) n l2 h), <- app_assoc; reflexivity).
          replace (last ((h :: l1) ++ p :: x :: n :: l2) h) with (last (n :: l2) h)
            by (symmetry; rewrite <- (last_app_cons ((h :: l1) ++ [p; x]) n l2 h), <- app_assoc; reflexivity).
          pose proof (osum_remove_middle (h :: l1) p x n l2) as Hm.
          set (c := g (last (n :: l2) h) h). set (u := osum ((h :: l1) ++ p :: x :: n :: l2)) in *. set (v := osum ((h :: l1) ++ p :: n :: l2)) in *.
          transitivity (v + g p x + g x n + c); [aac_reflexivity|]. rewrite Hm. aac_reflexivity.
  Qed.
End Cyc.

(* reversing the list: the cyclic sum of g over the reversed list is that of the flipped weight over the list *)
Section Rev.
  Variables (A M : Type) (mzero : M) (madd : M -> M -> M).
  Hypothesis madd_comm : forall a b, madd a b = madd b a.
  Hypothesis madd_assoc : forall a b c, madd a (madd b c) = madd (madd a b) c.
  Hypothesis madd_0_l : forall a, madd mzero a = a.
  Variable g : A -> A -> M.
  Notation osum := (osum A M mzero madd). Notation csum := (csum A M mzero madd).
  Definition flip_g (a b : A) : M := g b a.

  Lemma osum_snoc l x a : osum g ((x :: l) ++ [a]) = madd (osum g (x :: l)) (g (last (x :: l) a) a).
  Proof.
    revert x. induction l as [|y l IH]; intros x.
    - cbn [app osum last]. rewrite madd_0_l, madd_comm, madd_0_l. reflexivity.
    - change ((x :: y :: l) ++ [a]) with (x :: ((y :: l) ++ [a])).
      change (osum g (x :: (y :: l) ++ [a])) with (madd (g x y) (osum g ((y :: l) ++ [a]))).
      rewrite IH. change (osum g (x :: y :: l)) with (madd (g x y) (osum g (y :: l))).
      change (last (x :: y :: l) a) with (last (y :: l) a). apply madd_assoc.
  Qed.
  Lemma last_rev_cons (l : list A) x d : last (rev (x :: l)) d = x.
  Proof. cbn [rev]. rewrite last_app_cons. reflexivity. Qed.
  Lemma osum_rev l : osum g (rev l) = osum flip_g l.
  Proof.
    induction l as [|a l IH]; [reflexivity|]. cbn [rev]. destruct l as [|b l].
    - reflexivity.
    - destruct (rev (b :: l)) as [|x r] eqn:E; [apply (f_equal (@length A)) in E; rewrite rev_length in E; discriminate|].
      rewrite osum_snoc. rewrite <- E at 2. rewrite last_rev_cons. rewrite IH.
      change (osum flip_g (a :: b :: l)) with (madd (flip_g a b) (osum flip_g (b :: l))). unfold flip_g at 2. apply madd_comm.
  Qed.
  Lemma last_indep (l : list A) x d1 d2 : last (x :: l) d1 = last (x :: l) d2.
  Proof. revert x. induction l as [|y l IH]; intros x; [reflexivity|]. change (last (x :: y :: l) d1) with (last (y :: l) d1). change (last (x :: y :: l) d2) with (last (y :: l) d2). apply IH. Qed.
  Lemma hd_rev (l : list A) x d : hd d (rev (x :: l)) = last (x :: l) x.
  Proof.
    revert x. induction l as [|y l IH]; intros x; [reflexivity|].
    change (rev (x :: y :: l)) with (rev (y :: l) ++ [x]).
    destruct (rev (y :: l)) as [|z r] eqn:E; [apply (f_equal (@length A)) in E; rewrite rev_length in E; discriminate|].
    cbn [app hd]. specialize (IH y). rewrite E in IH. cbn [hd] in IH. rewrite IH.
    change (last (x :: y :: l) x) with (last (y :: l) x). apply last_indep.
  Qed.
  Theorem csum_rev l : csum g (rev l) = csum flip_g l.
  Proof.
    destruct l as [|a l]; [reflexivity|].
    destruct (rev (a :: l)) as [|x r] eqn:E; [apply (f_equal (@length A)) in E; rewrite rev_length in E; discriminate|].
    unfold csum. rewrite <- E. rewrite osum_rev. f_equal.
    rewrite last_rev_cons. pose proof (hd_rev l a a) as Hh. rewrite E in Hh. cbn [hd] in Hh. rewrite Hh. reflexivity.
  Qed.
End Rev.

