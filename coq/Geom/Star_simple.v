(* Geom/Star_simple.v -- C07: the star outline is a simple polygon, for every number of points >= 2 and all positive
   radii. Two edges that are not neighbours are separated by a line through the origin: the star's vertices stand on
   rays 180/n degrees apart, an edge spans one such step, and a direction half a step outside an edge leaves that edge
   strictly on one side and any non-neighbouring edge strictly on the other (the shorter way round). *)
From Coq Require Import Reals ZArith List Bool Arith Lra Lia.
From SCAD Require Import Base.Num Base.NumR Base.Trig_proofs Base.Vec Geom.Poly Geom.Tri Geom.Tri_proofs Geom.Dim2 Geom.Dim2_proofs Geom.Tri_convex Geom.Simple.
Import ListNotations.
Local Open Scope R_scope.

Lemma sep_by_origin_line (g a b c d : V2) :
  0 < cross2 g a -> 0 < cross2 g b -> cross2 g c < 0 -> cross2 g d < 0 -> ~ seg_meet a b c d.
Proof.
  intros Ha Hb Hc Hd (s & t & Hs & Ht & Ex & Ey). unfold cross2 in *. cbn [nsub nmul NumR] in *.
  destruct g as [gx gy], a as [ax ay], b as [bx by_], c as [cx cy], d as [dx dy]. cbn [x2 y2] in *.
  set (A := gx * ay - ax * gy) in *. set (B := gx * by_ - bx * gy) in *. set (C := gx * cy - cx * gy) in *. set (D := gx * dy - dx * gy) in *.
  assert (E : (1 - s) * A + s * B = (1 - t) * C + t * D).
  { unfold A, B, C, D. replace ((1 - s) * (gx * ay - ax * gy) + s * (gx * by_ - bx * gy)) with (gx * (ay + s * (by_ - ay)) - (ax + s * (bx - ax)) * gy) by ring.
    rewrite Ex, Ey. ring. }
  assert (0 < (1 - s) * A + s * B).
  { destruct (Rle_dec s (1 / 2)); [assert ((1 / 2) * A <= (1 - s) * A) by nra; assert (0 <= s * B) by nra; lra|assert ((1 / 2) * B <= s * B) by nra; assert (0 <= (1 - s) * A) by nra; lra]. }
  assert ((1 - t) * C + t * D < 0).
  { destruct (Rle_dec t (1 / 2)); [assert ((1 - t) * C <= (1 / 2) * C) by nra; assert (t * D <= 0) by nra; lra|assert (t * D <= (1 / 2) * D) by nra; assert ((1 - t) * C <= 0) by nra; lra]. }
  lra.
Qed.

Definition dirv (gam : R) : V2 := Pt2 (dcos gam) (dsin gam).
Lemma dsin_sub a b : dsin (a - b) = dsin a * dcos b - dcos a * dsin b.
Proof. unfold Rminus. rewrite dsin_plus, dcos_neg, dsin_neg. ring. Qed.
Lemma dsin_period a : dsin (a + 360) = dsin a.
Proof. rewrite dsin_plus, dsin_360, dcos_360. ring. Qed.
Lemma dsin_negative a : -180 < a < 0 -> dsin a < 0.
Proof. intros H. replace a with (- (- a)) by ring. rewrite dsin_neg. assert (0 < dsin (- a)) by (apply dsin_pos; lra). lra. Qed.
Lemma dsin_second_turn a : -360 < a < -180 -> 0 < dsin a.
Proof. intros H. rewrite <- dsin_period. apply dsin_pos. lra. Qed.

Lemma cross_dir_star (N inner outer gam : R) (m : Z) :
  cross2 (dirv gam) (star_pt N inner outer m) = (if Z.even m then inner else outer) * dsin (- 180 / N * IZR m - gam).
Proof. unfold star_pt, dirv, cross2. cbv zeta. cbn [x2 y2 nsub nmul NumR]. rewrite dsin_sub. ring. Qed.

Section Star.
  Variables (n : Z) (inner outer : R).
  Hypothesis Hn : (2 <= n)%Z.
  Hypothesis Hi : 0 < inner.
  Hypothesis Ho : 0 < outer.
  Let N := IZR n.
  Let dl := 180 / N.
  Let v (m : nat) : V2 := star_pt N inner outer (Z.of_nat m).
  Lemma N_ge2 : 2 <= N. Proof. unfold N. apply IZR_le. exact Hn. Qed.
  Lemma dl_facts : 0 < dl /\ dl <= 90 /\ dl * N = 180.
  Proof.
    pose proof N_ge2 as H2. unfold dl. repeat split.
    - apply Rdiv_lt_0_compat; lra.
    - apply (Rmult_le_reg_r N); [lra|]. unfold Rdiv. rewrite Rmult_assoc, Rinv_l by lra. lra.
    - field. lra.
  Qed.
  Lemma radius_pos (m : Z) : 0 < (if Z.even m then inner else outer). Proof. destruct (Z.even m); assumption. Qed.

  (* the sign of vertex m against the direction at angle -dl * g, by the number of steps x = g - m between them *)
  Lemma side (g : R) (m : nat) :
    let x := dl * (g - IZR (Z.of_nat m)) in
    (0 < x < 180 -> 0 < cross2 (dirv (- dl * g)) (v m)) /\
    (-180 < x < 0 -> cross2 (dirv (- dl * g)) (v m) < 0) /\
    (-360 < x < -180 -> 0 < cross2 (dirv (- dl * g)) (v m)).
  Proof.
    cbv zeta. unfold v. rewrite cross_dir_star. pose proof (radius_pos (Z.of_nat m)) as Hr. pose proof N_ge2.
    replace (- 180 / N * IZR (Z.of_nat m) - - dl * g) with (dl * (g - IZR (Z.of_nat m))) by (unfold dl; field; lra).
    repeat split; intros Hx.
    - apply Rmult_lt_0_compat; [exact Hr|apply dsin_pos; exact Hx].
    - pose proof (dsin_negative _ Hx). nra.
    - apply Rmult_lt_0_compat; [exact Hr|apply dsin_second_turn; exact Hx].
  Qed.

  Lemma idx (a b : nat) : IZR (Z.of_nat b) - IZR (Z.of_nat a) = IZR (Z.of_nat b - Z.of_nat a).
  Proof. rewrite minus_IZR. reflexivity. Qed.

  (* two edges i < j that are not neighbours: (v i, v (i+1)) and (v j, v (j+1)) do not meet *)
  Lemma edges_apart (i j : nat) : (i + 2 <= j)%nat -> (j < 2 * Z.to_nat n)%nat -> ~ (i = 0%nat /\ j = (2 * Z.to_nat n - 1)%nat) ->
    ~ seg_meet (v i) (v (S i)) (v j) (v (S j)).
  Proof.
    intros Hij Hj Hwrap. destruct dl_facts as (D0 & D90 & DN). pose proof N_ge2 as H2.
    set (I := IZR (Z.of_nat i)). set (J := IZR (Z.of_nat j)).
    assert (HSi : IZR (Z.of_nat (S i)) = I + 1) by (rewrite Nat2Z.inj_succ, succ_IZR; reflexivity).
    assert (HSj : IZR (Z.of_nat (S j)) = J + 1) by (rewrite Nat2Z.inj_succ, succ_IZR; reflexivity).
    assert (Hd2 : 2 <= J - I) by (unfold I, J; rewrite idx; apply IZR_le; lia).
    assert (HdN : J - I <= 2 * N - 2).
    { unfold I, J, N. rewrite idx. replace (2 * IZR n - 2) with (IZR (2 * n - 2)) by (rewrite minus_IZR, mult_IZR; reflexivity). apply IZR_le. lia. }
    destruct (Z_le_gt_dec (Z.of_nat j - Z.of_nat i) n) as [Hnear|Hfar].
    - (* the short way round lies after edge i: direction 1.5 steps after v i *)
      assert (HdN' : J - I <= N) by (unfold I, J, N; rewrite idx; apply IZR_le; exact Hnear).
      apply (sep_by_origin_line (dirv (- dl * (I + 3 / 2)))).
      + apply (proj1 (side (I + 3 / 2) i)). fold I. nra.
      + apply (proj1 (side (I + 3 / 2) (S i))). rewrite HSi. nra.
      + apply (proj1 (proj2 (side (I + 3 / 2) j))). fold J. nra.
      + apply (proj1 (proj2 (side (I + 3 / 2) (S j)))). rewrite HSj. fold J. nra.
    - (* the short way round lies before edge i: direction half a step before v i; swap the roles *)
      assert (HdN' : N + 1 <= J - I).
      { unfold I, J, N. rewrite idx. replace (IZR n + 1) with (IZR (n + 1)) by (rewrite plus_IZR; reflexivity). apply IZR_le. lia. }
      intros M. apply seg_meet_sym in M. revert M.
      apply (sep_by_origin_line (dirv (- dl * (I - 1 / 2)))).
      + apply (proj2 (proj2 (side (I - 1 / 2) j))). fold J. nra.
      + apply (proj2 (proj2 (side (I - 1 / 2) (S j)))). rewrite HSj. fold J. nra.
      + apply (proj1 (proj2 (side (I - 1 / 2) i))). fold I. nra.
      + apply (proj1 (proj2 (side (I - 1 / 2) (S i)))). rewrite HSi. nra.
  Qed.

  (* neighbouring and other pairs of vertices are distinct points *)
  Lemma vertices_distinct (p q : nat) : (p < q)%nat -> (q < 2 * Z.to_nat n)%nat -> v p <> v q.
  Proof.
    intros Hpq Hq E. destruct dl_facts as (D0 & D90 & DN). pose proof N_ge2 as H2.
    set (P := IZR (Z.of_nat p)). set (Q := IZR (Z.of_nat q)).
    assert (Hd1 : 1 <= Q - P) by (unfold P, Q; rewrite idx; apply IZR_le; lia).
    assert (HdN : Q - P <= 2 * N - 1).
    { unfold P, Q, N. rewrite idx. replace (2 * IZR n - 1) with (IZR (2 * n - 1)) by (rewrite minus_IZR, mult_IZR; reflexivity). apply IZR_le. lia. }
    destruct (Z_le_gt_dec (Z.of_nat q - Z.of_nat p) n) as [Hnear|Hfar].
    - assert (HdN' : Q - P <= N) by (unfold P, Q, N; rewrite idx; apply IZR_le; exact Hnear).
      assert (S1 : 0 < cross2 (dirv (- dl * (P + 1 / 2))) (v p)) by (apply (proj1 (side (P + 1 / 2) p)); fold P; nra).
      assert (S2 : cross2 (dirv (- dl * (P + 1 / 2))) (v q) < 0) by (apply (proj1 (proj2 (side (P + 1 / 2) q))); fold Q; nra).
      rewrite E in S1. lra.
    - assert (HdN' : N + 1 <= Q - P).
      { unfold P, Q, N. rewrite idx. replace (IZR n + 1) with (IZR (n + 1)) by (rewrite plus_IZR; reflexivity). apply IZR_le. lia. }
      assert (S1 : cross2 (dirv (- dl * (P - 1 / 2))) (v p) < 0) by (apply (proj1 (proj2 (side (P - 1 / 2) p))); fold P; nra).
      assert (S2 : 0 < cross2 (dirv (- dl * (P - 1 / 2))) (v q)) by (apply (proj2 (proj2 (side (P - 1 / 2) q))); fold Q; nra).
      rewrite E in S1. lra.
  Qed.

  (* after a full turn the outline is back at its first vertex *)
  Lemma v_wrap : v (2 * Z.to_nat n) = v 0.
  Proof.
    unfold v, star_pt. pose proof N_ge2 as H2. cbv zeta.
    replace (Z.of_nat (2 * Z.to_nat n)) with (2 * n)%Z by lia. rewrite Z.even_mul. cbn [Z.even orb Z.of_nat].
    replace (- 180 / N * IZR (2 * n)) with (- (360)) by (rewrite mult_IZR; fold N; field; lra).
    replace (- 180 / N * 0) with 0 by (unfold Rdiv; ring).
    rewrite dcos_neg, dsin_neg, dcos_360, dsin_360, dcos_0, dsin_0. f_equal; ring.
  Qed.

  Theorem star_simple : simple (star n inner outer).
  Proof.
    assert (Hn1 : (1 <= n)%Z) by lia. rewrite (star_as_map n inner outer Hn1). fold N.
    set (L := (2 * Z.to_nat n)%nat). assert (HL : (4 <= L)%nat) by (unfold L; lia).
    set (l := map (star_pt N inner outer) (map Z.of_nat (seq 0 L))).
    assert (Hlen : length l = L) by (unfold l; rewrite !map_length, seq_length; reflexivity).
    assert (Hv : forall m, (m < L)%nat -> vertex l m = v m).
    { intros m Hm. unfold vertex, l, v. rewrite (nth_indep _ (Pt2 0 0) (star_pt N inner outer (Z.of_nat 0))) by (rewrite !map_length, seq_length; exact Hm).
      rewrite map_map. rewrite (map_nth (fun x => star_pt N inner outer (Z.of_nat x))). rewrite seq_nth by exact Hm. reflexivity. }
    assert (Hnext : forall m, (m < L)%nat -> vertex l (next_i L m) = v (S m)).
    { intros m Hm. unfold next_i. destruct (Nat.eqb_spec m (L - 1)) as [E|E].
      - rewrite Hv by lia. replace (S m) with L by lia. symmetry. apply v_wrap.
      - rewrite Hv by lia. f_equal. lia. }
    unfold simple. rewrite Hlen. split.
    - intros i j Hij Hj. rewrite !Hv by lia. apply vertices_distinct; assumption.
    - intros i j Hi' Hj Nij Nn. rewrite (Hv i Hi'), (Hv j Hj), (Hnext i Hi'), (Hnext j Hj).
      unfold neighbours, next_i in Nn.
      destruct (Nat.lt_ge_cases i j) as [Hlt|Hge].
      + apply edges_apart.
        * destruct (Nat.eqb_spec i (L - 1)); lia.
        * exact Hj.
        * intros [E1 E2]. apply Nn. right. subst i. fold L in E2. destruct (Nat.eqb_spec j (L - 1)); lia.
      + intros M. apply seg_meet_sym in M. revert M. apply edges_apart.
        * destruct (Nat.eqb_spec j (L - 1)); lia.
        * exact Hi'.
        * intros [E1 E2]. apply Nn. left. subst j. fold L in E2. destruct (Nat.eqb_spec i (L - 1)); lia.
  Qed.
End Star.
