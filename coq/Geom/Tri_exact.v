(* Geom/Tri_exact.v -- no directed edge is used twice by the triangles of an ear-clipping run on a polygon with
   distinct indices; with the net identity of Tri_proofs this gives, for complete runs: every polygon edge used
   exactly once and never against its direction, every other pair used once in each direction or not at all.
   Axiom-free, generic in the number type. *)
From Coq Require Import ZArith List Bool Arith Lia.
From SCAD Require Import Base.Num Base.Vec Geom.Tri Geom.Tri_proofs.
From SCAD Require Geom.Cyc.
Import ListNotations.

(* ---------- cyclic lists of distinct elements, by position ---------- *)
Section Pos.
  Variable A : Type.
  Variable d : A.
  Definition pedge (l : list A) (u v : A) : Prop :=
    exists j, j < length l /\ nth j l d = u /\ nth (next_i (length l) j) l d = v.

  Definition skip (i j : nat) : nat := if Nat.ltb j i then j else S j.
  Lemma nth_remove (l : list A) i j : i < length l -> nth j (remove_nth i l) d = nth (skip i j) l d.
  Proof.
    unfold remove_nth, skip. revert i j. induction l as [|a l IH]; intros i j Hi; [cbn in Hi; lia|].
    destruct i as [|i].
    - cbn [firstn skipn app]. destruct (Nat.ltb_spec j 0); [lia|]. reflexivity.
    - change (firstn (S i) (a :: l)) with (a :: firstn i l). change (skipn (S (S i)) (a :: l)) with (skipn (S i) l).
      change ((a :: firstn i l) ++ skipn (S i) l) with (a :: (firstn i l ++ skipn (S i) l)). destruct j as [|j].
      + destruct (Nat.ltb_spec 0 (S i)); [reflexivity|lia].
      + change (nth (S j) (a :: firstn i l ++ skipn (S i) l) d) with (nth j (firstn i l ++ skipn (S i) l) d).
        cbn [length] in Hi. rewrite (IH i j) by lia.
        destruct (Nat.ltb_spec j i); destruct (Nat.ltb_spec (S j) (S i)); try lia; reflexivity.
  Qed.
  (* stepping to the cyclic successor commutes with skipping the removed position, except across it *)
  Lemma next_i_cases len k : (k = len - 1 /\ next_i len k = 0) \/ (k <> len - 1 /\ next_i len k = k + 1).
  Proof. unfold next_i. destruct (Nat.eqb_spec k (len - 1)); [left|right]; split; auto. Qed.
  Lemma prev_i_cases len k : (k = 0 /\ prev_i len k = len - 1) \/ (k <> 0 /\ prev_i len k = k - 1).
  Proof. unfold prev_i. destruct (Nat.eqb_spec k 0); [left|right]; split; auto. Qed.
  Lemma skip_cases i j : (j < i /\ skip i j = j) \/ (i <= j /\ skip i j = S j).
  Proof. unfold skip. destruct (Nat.ltb_spec j i); [left|right]; split; auto. Qed.
  Lemma skip_next len i j : 3 <= len -> i < len -> j < len - 1 ->
    skip i (next_i (len - 1) j) = (if Nat.eqb (next_i len (skip i j)) i then next_i len i else next_i len (skip i j)).
  Proof.
    intros Hlen Hi Hj.
    pose proof (next_i_cases (len - 1) j) as A1. pose proof (skip_cases i j) as A2.
    pose proof (skip_cases i (next_i (len - 1) j)) as A3. pose proof (next_i_cases len (skip i j)) as A4.
    pose proof (next_i_cases len i) as A5.
    destruct (Nat.eqb_spec (next_i len (skip i j)) i); lia.
  Qed.
  Lemma skip_lt len i j : i < len -> j < len - 1 -> skip i j < len /\ skip i j <> i.
  Proof. intros. unfold skip. destruct (Nat.ltb_spec j i); lia. Qed.
  Definition unskip (i J : nat) : nat := if Nat.ltb J i then J else J - 1.
  Lemma skip_unskip len i J : i < len -> J < len -> J <> i -> unskip i J < len - 1 /\ skip i (unskip i J) = J.
  Proof. intros. unfold skip, unskip. destruct (Nat.ltb_spec J i); [destruct (Nat.ltb_spec J i); lia|destruct (Nat.ltb_spec (J - 1) i); lia]. Qed.
  Lemma next_lt' len j : j < len -> next_i len j < len.
  Proof. unfold next_i. destruct (Nat.eqb_spec j (len - 1)); lia. Qed.
  Lemma next_prev len i : 1 <= len -> i < len -> next_i len (prev_i len i) = i.
  Proof. intros. unfold next_i, prev_i. destruct (Nat.eqb_spec i 0); [destruct (Nat.eqb_spec (len - 1) (len - 1)); lia|destruct (Nat.eqb_spec (i - 1) (len - 1)); lia]. Qed.

  Variable l : list A.
  Hypothesis Hnd : NoDup l.
  Variable i : nat.
  Hypothesis Hlen : 3 <= length l.
  Hypothesis Hi : i < length l.
  Let len := length l.
  Let P := prev_i len i.
  Let N := next_i len i.
  Let x := nth i l d.
  Let p := nth P l d.
  Let n := nth N l d.

  Lemma pos_unique j k : j < len -> k < len -> nth j l d = nth k l d -> j = k.
  Proof. intros Hj Hk E. apply (proj1 (NoDup_nth l d) Hnd j k Hj Hk E). Qed.
  Lemma PN_facts : P < len /\ N < len /\ P <> i /\ N <> i /\ P <> N /\ next_i len P = i.
  Proof.
    unfold P, N. pose proof (prev_i_cases len i). pose proof (next_i_cases len i). pose proof (next_i_cases len (prev_i len i)).
    assert (3 <= len) by exact Hlen. assert (i < len) by exact Hi. lia.
  Qed.
  Lemma remove_len : length (remove_nth i l) = len - 1.
  Proof. apply remove_nth_length. exact Hi. Qed.

  (* R1 *)
  Lemma pedge_remove_inv u v : pedge (remove_nth i l) u v -> (pedge l u v /\ u <> x /\ v <> x) \/ (u = p /\ v = n).
  Proof.
    intros (j & Hj & Hu & Hv). rewrite remove_len in Hj, Hv. rewrite nth_remove in Hu, Hv by exact Hi.
    destruct (skip_lt len i j Hi Hj) as [HJ HJi]. rewrite (skip_next len i j Hlen Hi Hj) in Hv.
    destruct (Nat.eqb_spec (next_i len (skip i j)) i) as [E|E].
    - right. destruct PN_facts as (HP & HN & HPi & HNi & HPN & HnP).
      assert (skip i j = P).
      { (* the predecessor of i is unique *)
        unfold P. pose proof (next_i_cases len (skip i j)). pose proof (prev_i_cases len i). lia. }
      split; [rewrite <- Hu; unfold p; f_equal; assumption|rewrite <- Hv; reflexivity].
    - left. split; [exists (skip i j); fold len; repeat split; assumption|].
      split; intros Ex; unfold x in Ex; rewrite <- ?Hu, <- ?Hv in Ex; apply pos_unique in Ex; try assumption; try lia.
      apply next_lt'. exact HJ.
  Qed.
  (* R2 *)
  Lemma pedge_remove_keep u v : pedge l u v -> u <> x -> v <> x -> pedge (remove_nth i l) u v.
  Proof.
    intros (J & HJ & Hu & Hv) Hux Hvx. fold len in HJ, Hv.
    assert (HJi : J <> i) by (intros ->; apply Hux; symmetry; exact Hu).
    assert (HnJ : next_i len J <> i) by (intros E; apply Hvx; rewrite <- Hv, E; reflexivity).
    destruct (skip_unskip len i J Hi HJ HJi) as [Hj Hs].
    exists (unskip i J). rewrite remove_len. split; [exact Hj|]. rewrite !nth_remove by exact Hi. rewrite Hs. split; [exact Hu|].
    rewrite (skip_next len i _ Hlen Hi Hj), Hs. destruct (Nat.eqb_spec (next_i len J) i); [contradiction|exact Hv].
  Qed.
  (* R3 *)
  Lemma pedge_remove_new : pedge (remove_nth i l) p n.
  Proof.
    destruct PN_facts as (HP & HN & HPi & HNi & HPN & HnP).
    destruct (skip_unskip len i P Hi HP HPi) as [Hj Hs].
    exists (unskip i P). rewrite remove_len. split; [exact Hj|]. rewrite !nth_remove by exact Hi. rewrite Hs. split; [reflexivity|].
    rewrite (skip_next len i _ Hlen Hi Hj), Hs, HnP, Nat.eqb_refl. reflexivity.
  Qed.
  (* R4 *)
  Lemma no_back_edge : 4 <= len -> ~ pedge l n p.
  Proof.
    intros H4 (J & HJ & Hu & Hv). fold len in HJ, Hv. destruct PN_facts as (HP & HN & HPi & HNi & HPN & HnP).
    apply pos_unique in Hu; [|assumption|assumption]. subst J. apply pos_unique in Hv; [|apply next_lt'; assumption|assumption].
    unfold P, N in *. pose proof (prev_i_cases len i). pose proof (next_i_cases len i). pose proof (next_i_cases len (next_i len i)).
    assert (i < len) by exact Hi. lia.
  Qed.
  (* R5 *)
  Lemma succ_of_p v : pedge l p v -> v = x.
  Proof.
    intros (J & HJ & Hu & Hv). fold len in HJ, Hv. destruct PN_facts as (HP & HN & HPi & HNi & HPN & HnP).
    apply pos_unique in Hu; [|assumption|assumption]. subst J. rewrite HnP in Hv. symmetry. exact Hv.
  Qed.
  Lemma pedge_px : pedge l p x /\ pedge l x n.
  Proof.
    destruct PN_facts as (HP & HN & HPi & HNi & HPN & HnP). split.
    - exists P. fold len. rewrite HnP. repeat split; assumption.
    - exists i. fold len. repeat split; assumption.
  Qed.
  Lemma pxn_distinct : p <> x /\ x <> n /\ n <> p.
  Proof.
    destruct PN_facts as (HP & HN & HPi & HNi & HPN & HnP).
    repeat split; intros E; apply pos_unique in E; try assumption; lia.
  Qed.
  Lemma in_remove u : In u (remove_nth i l) -> In u l /\ u <> x.
  Proof.
    intros Hu. split; [eapply remove_nth_incl; exact Hu|].
    apply (In_nth _ _ d) in Hu. destruct Hu as (j & Hj & E). rewrite remove_len in Hj. rewrite nth_remove in E by exact Hi.
    destruct (skip_lt len i j Hi Hj) as [HJ HJi]. intros Ex. rewrite <- E in Ex. apply pos_unique in Ex; [contradiction|assumption|assumption].
  Qed.
End Pos.

(* ---------- counting directed edge uses over the triangles ---------- *)
Section Exact.
  Context {T : Type} `{Num T}.
  Notation vtx := (@vtx T). Notation tri3 := (@tri3 T).
  Definition ids (p : list vtx) : list Z := map fst p.
  Definition ind (a b u v : Z) : nat := if Z.eqb a u && Z.eqb b v then 1 else 0.
  Definition cnt3 (u v : Z) (t : tri3) : nat :=
    let '(a, b, c) := t in ind (fst a) (fst b) u v + ind (fst b) (fst c) u v + ind (fst c) (fst a) u v.
  Definition cntT (u v : Z) (acc : list tri3) : nat := fold_right (fun t s => cnt3 u v t + s) 0 acc.
  Lemma cntT_app u v a b : cntT u v (a ++ b) = cntT u v a + cntT u v b.
  Proof. induction a as [|t a IH]; [reflexivity|]. cbn [app cntT fold_right]. fold (cntT u v (a ++ b)) (cntT u v a). rewrite IH. lia. Qed.
  Lemma ind_1 a b u v : ind a b u v = 1 <-> (a = u /\ b = v).
  Proof. unfold ind. destruct (Z.eqb_spec a u), (Z.eqb_spec b v); cbn [andb]; split; intros; try discriminate; try tauto; try lia. Qed.
  Lemma ind_le a b u v : ind a b u v <= 1.
  Proof. unfold ind. destruct (_ && _); lia. Qed.
  Lemma ind_0 a b u v : (a <> u \/ b <> v) -> ind a b u v = 0.
  Proof. unfold ind. destruct (Z.eqb_spec a u), (Z.eqb_spec b v); cbn [andb]; intros [|]; congruence. Qed.

  Definition pe (p : list vtx) (u v : Z) : Prop := pedge Z 0%Z (ids p) u v.

  Definition Inv (acc : list tri3) (p : list vtx) : Prop :=
    NoDup (ids p) /\
    (forall u v, cntT u v acc <= 1) /\
    (3 <= length p -> forall u v, pe p u v -> cntT u v acc = 0) /\
    (forall u v, In u (ids p) -> In v (ids p) -> 1 <= cntT u v acc -> pe p v u).

  Lemma ids_remove i (p : list vtx) : ids (remove_nth i p) = remove_nth i (ids p).
  Proof. apply remove_nth_map. Qed.
  Lemma ids_length (p : list vtx) : length (ids p) = length p. Proof. apply map_length. Qed.

  Lemma Inv_step acc p i : 3 <= length p -> i < length p -> Inv acc p -> Inv (acc ++ [ear_at p i]) (remove_nth i p).
  Proof.
    intros Hlen Hi (Hnd & H3 & H1 & H2).
    set (l := ids p). assert (Hl : length l = length p) by apply ids_length.
    assert (Hlen' : 3 <= length l) by lia. assert (Hi' : i < length l) by lia.
    set (P := prev_i (length l) i). set (N := next_i (length l) i).
    set (xx := nth i l 0%Z). set (pp := nth P l 0%Z). set (nn := nth N l 0%Z).
    assert (Het : forall u v, cnt3 u v (ear_at p i) = ind pp xx u v + ind xx nn u v + ind nn pp u v).
    { intros u v. unfold ear_at, cnt3. rewrite !nthv_fst. fold (ids p) l. rewrite <- Hl. reflexivity. }
    destruct (pxn_distinct Z 0%Z l Hnd i Hlen' Hi') as (D1 & D2 & D3). fold P N xx pp nn in D1, D2, D3.
    destruct (pedge_px Z 0%Z l i Hlen' Hi') as (E1 & E2). fold P N xx pp nn in E1, E2.
    assert (Hcnt : forall u v, cntT u v (acc ++ [ear_at p i]) = cntT u v acc + (ind pp xx u v + ind xx nn u v + ind nn pp u v)).
    { intros u v. rewrite cntT_app. cbn [cntT fold_right]. rewrite Het. lia. }
    (* the back edge n -> p has not been used *)
    assert (Hnp : cntT nn pp acc = 0).
    { destruct (cntT nn pp acc) eqn:E; [reflexivity|]. exfalso.
      assert (Hpn : pe p pp nn).
      { apply H2; [apply nth_In; unfold N; apply next_lt'; assumption|apply nth_In; unfold P; apply prev_lt; assumption|lia]. }
      apply (succ_of_p Z 0%Z l Hnd i Hlen' Hi') in Hpn. fold P N xx pp nn in Hpn. congruence. }
    split; [rewrite ids_remove; apply remove_nth_nodup; exact Hnd|]. split; [|split].
    - (* at most once *)
      intros u v. rewrite Hcnt. pose proof (H3 u v) as Hle.
      destruct (Z.eq_dec u pp) as [Eu|Eu]; destruct (Z.eq_dec v xx) as [Ev|Ev].
      + subst u v. rewrite (H1 Hlen pp xx E1). rewrite (ind_0 xx nn pp xx) by (left; congruence). rewrite (ind_0 nn pp pp xx) by (left; congruence).
        pose proof (ind_le pp xx pp xx). lia.
      + rewrite (ind_0 pp xx u v) by (right; congruence). rewrite (ind_0 xx nn u v) by (left; congruence).
        destruct (Z.eq_dec v nn) as [Evn|Evn]; [|rewrite (ind_0 nn pp u v) by (left; congruence); lia].
        subst u v. rewrite (ind_0 nn pp pp nn) by (left; congruence). lia.
      + rewrite (ind_0 pp xx u v) by (left; congruence). rewrite (ind_0 nn pp u v) by (right; congruence).
        destruct (Z.eq_dec u xx) as [Eux|Eux]; [|rewrite (ind_0 xx nn u v) by (left; congruence); lia].
        subst. rewrite (ind_0 xx nn xx xx) by (right; congruence). lia.
      + rewrite (ind_0 pp xx u v) by (left; congruence).
        destruct (Z.eq_dec u xx) as [Eux|Eux]; destruct (Z.eq_dec v nn) as [Evn|Evn].
        * subst u v. rewrite (H1 Hlen xx nn E2). rewrite (ind_0 nn pp xx nn) by (left; congruence). pose proof (ind_le xx nn xx nn). lia.
        * rewrite (ind_0 xx nn u v) by (right; congruence). rewrite (ind_0 nn pp u v) by (left; congruence). lia.
        * rewrite (ind_0 xx nn u v) by (left; congruence).
          destruct (Z.eq_dec u nn) as [Eun|Eun]; [|rewrite (ind_0 nn pp u v) by (left; congruence); lia].
          subst u v. rewrite (ind_0 nn pp nn nn) by (right; congruence). lia.
        * rewrite (ind_0 xx nn u v) by (left; congruence).
          destruct (Z.eq_dec u nn) as [Eun|Eun]; destruct (Z.eq_dec v pp) as [Evp|Evp].
          -- subst u v. rewrite Hnp. pose proof (ind_le nn pp nn pp). lia.
          -- rewrite (ind_0 nn pp u v) by (right; congruence). lia.
          -- rewrite (ind_0 nn pp u v) by (left; congruence). lia.
          -- rewrite (ind_0 nn pp u v) by (left; congruence). lia.
    - (* edges of the new polygon are unused *)
      intros Hlen3 u v Hpe. rewrite remove_nth_length in Hlen3 by assumption.
      assert (H4 : 4 <= length l) by lia.
      pose proof (no_back_edge Z 0%Z l Hnd i Hlen' Hi' H4) as Hnb. fold P N xx pp nn in Hnb.
      unfold pe in Hpe. rewrite ids_remove in Hpe. fold l in Hpe.
      apply (pedge_remove_inv Z 0%Z l Hnd i Hlen' Hi') in Hpe. fold P N xx pp nn in Hpe. rewrite Hcnt.
      destruct Hpe as [(Hpe & Hux & Hvx) | (-> & ->)].
      + rewrite (H1 Hlen u v Hpe). rewrite (ind_0 pp xx u v) by (right; congruence). rewrite (ind_0 xx nn u v) by (left; congruence).
        destruct (Z.eq_dec u nn) as [Eun|Eun]; destruct (Z.eq_dec v pp) as [Evp|Evp].
        * exfalso. apply Hnb. rewrite <- Eun, <- Evp. exact Hpe.
        * rewrite (ind_0 nn pp u v) by (right; congruence). lia.
        * rewrite (ind_0 nn pp u v) by (left; congruence). lia.
        * rewrite (ind_0 nn pp u v) by (left; congruence). lia.
      + rewrite (ind_0 pp xx pp nn) by (right; congruence). rewrite (ind_0 xx nn pp nn) by (left; congruence). rewrite (ind_0 nn pp pp nn) by (left; congruence).
        destruct (cntT pp nn acc) eqn:E; [lia|]. exfalso. apply Hnb.
        apply H2; [apply nth_In; unfold P; apply prev_lt; assumption|apply nth_In; unfold N; apply next_lt'; assumption|lia].
    - (* a used pair of current vertices is a reversed polygon edge *)
      intros u v Hu Hv Hc. rewrite ids_remove in Hu, Hv. fold l in Hu, Hv.
      apply (in_remove Z 0%Z l Hnd i Hi') in Hu. apply (in_remove Z 0%Z l Hnd i Hi') in Hv. fold xx in Hu, Hv.
      destruct Hu as [Hu Hux]. destruct Hv as [Hv Hvx]. unfold pe. rewrite ids_remove. fold l.
      rewrite Hcnt in Hc. rewrite (ind_0 pp xx u v) in Hc by (right; congruence). rewrite (ind_0 xx nn u v) in Hc by (left; congruence).
      destruct (Z.eq_dec u nn) as [Eu|Eu]; destruct (Z.eq_dec v pp) as [Ev|Ev].
      + subst u v. apply (pedge_remove_new Z 0%Z l i Hlen' Hi').
      + rewrite (ind_0 nn pp u v) in Hc by (right; congruence). apply (pedge_remove_keep Z 0%Z l i Hlen' Hi'); [apply H2; [assumption|assumption|lia]|exact Hvx|exact Hux].
      + rewrite (ind_0 nn pp u v) in Hc by (left; congruence). apply (pedge_remove_keep Z 0%Z l i Hlen' Hi'); [apply H2; [assumption|assumption|lia]|exact Hvx|exact Hux].
      + rewrite (ind_0 nn pp u v) in Hc by (left; congruence). apply (pedge_remove_keep Z 0%Z l i Hlen' Hi'); [apply H2; [assumption|assumption|lia]|exact Hvx|exact Hux].
  Qed.

  Lemma Inv_init p : NoDup (ids p) -> Inv [] p.
  Proof. intros Hnd. split; [exact Hnd|]. split; [intros; cbn; lia|]. split; [intros; reflexivity|]. intros u v _ _ Hc. cbn in Hc. lia. Qed.

  (* no directed edge is used twice, complete or not *)
  Theorem clipv_at_most_once ccw fuel poly : NoDup (ids poly) -> forall u v, cntT u v (fst (clipv fuel ccw poly [])) <= 1.
  Proof.
    intros Hnd.
    assert (HI : Inv (fst (clipv fuel ccw poly [])) (snd (clipv fuel ccw poly []))).
    { apply (clipv_invariant ccw Inv); [|apply Inv_init; exact Hnd].
      intros acc p i Hlen Hf HI. apply find_ear_some in Hf. destruct Hf as [Hi _]. apply Inv_step; assumption. }
    destruct HI as (_ & H3 & _). exact H3.
  Qed.
End Exact.
