(* Geom/Fan_convex.v -- a weaker hypothesis under which ear clipping provably completes (real reading). Over R.
   fanconv sigma p:  (L) at every vertex the triple previous, vertex, next (cyclically) is strictly oriented like sigma
                         (so the implementation's own winding test gives sigma there), and
                     (F) seen from the LAST vertex, all other vertices come in angular order: every pair of positions
                         i < j < n-1 is oriented like sigma.
   These are the only triples the first-vertex-is-an-ear argument of Tri_convex looks at, they survive the removal of the
   first vertex, and they are easier to establish for outlines built from arcs and straight sides than the orientation of
   all triples (conv implies fanconv). *)
From Coq Require Import Reals ZArith List Bool Arith Lra Lia.
From SCAD Require Import Base.Num Base.NumR Base.Vec Geom.Tri Geom.Tri_proofs Geom.Dim3 Geom.Mesh_proofs Geom.Tri_convex.
Import ListNotations.
Local Open Scope R_scope.

Definition osign (sigma : bool) (x : R) : Prop := if sigma then 0 < x else x < 0.
Definition fan (sigma : bool) (p : list vtxR) : Prop :=
  forall i j, (i < j)%nat -> (j < length p - 1)%nat -> osign sigma (orientR (pt_at p (length p - 1)) (pt_at p i) (pt_at p j)).
Definition locally (sigma : bool) (p : list vtxR) : Prop :=
  forall i, (i < length p)%nat -> osign sigma (orientR (pt_at p (prev_i (length p) i)) (pt_at p i) (pt_at p (next_i (length p) i))).
Definition fanconv (sigma : bool) (p : list vtxR) : Prop := fan sigma p /\ locally sigma p.

Lemma osign_ccw sigma a b c : osign sigma (orientR a b c) -> is_ccw a b c = sigma.
Proof. rewrite is_ccw_orient. unfold osign. destruct sigma; intros Hs; [apply Rltb_true; exact Hs|apply Rltb_false; lra]. Qed.

Lemma conv_fanconv sigma p : conv sigma p -> (3 <= length p)%nat -> fanconv sigma p.
Proof.
  intros Hc Hn. split.
  - intros i j Hij Hj. unfold osign.
    pose proof (Hc i j (length p - 1)%nat Hij Hj ltac:(lia)) as H.
    replace (orientR (pt_at p (length p - 1)) (pt_at p i) (pt_at p j)) with (orientR (pt_at p i) (pt_at p j) (pt_at p (length p - 1))) by (unfold orientR; ring).
    exact H.
  - intros i Hi. unfold osign, prev_i, next_i.
    destruct (Nat.eqb_spec i 0) as [->|Hi0].
    + destruct (Nat.eqb_spec 0 (length p - 1)); [lia|]. cbn [Nat.add].
      replace (orientR (pt_at p (length p - 1)) (pt_at p 0) (pt_at p 1)) with (orientR (pt_at p 0) (pt_at p 1) (pt_at p (length p - 1))) by (unfold orientR; ring).
      apply Hc; lia.
    + destruct (Nat.eqb_spec i (length p - 1)) as [->|Hil].
      * replace (orientR (pt_at p (length p - 1 - 1)) (pt_at p (length p - 1)) (pt_at p 0)) with (orientR (pt_at p 0) (pt_at p (length p - 1 - 1)) (pt_at p (length p - 1))) by (unfold orientR; ring).
        apply Hc; lia.
      * apply Hc; lia.
Qed.

(* vertex 0 is an ear for the implementation's own test *)
Lemma fan_first_is_ear sigma p : fanconv sigma p -> (3 <= length p)%nat -> is_ear sigma p 0 = true.
Proof.
  intros [Hf Hl] Hn. unfold is_ear. set (n := length p).
  assert (Hprev : prev_i n 0 = (n - 1)%nat) by reflexivity.
  assert (Hnext : next_i n 0 = 1%nat) by (unfold next_i; destruct (Nat.eqb_spec 0 (n - 1)); [unfold n in *; lia|reflexivity]).
  rewrite Hprev, Hnext.
  pose proof (osign_ccw _ _ _ _ (Hl 0%nat ltac:(lia))) as Hw. fold n in Hw. rewrite Hprev, Hnext in Hw. unfold pt_at in Hw. rewrite Hw.
  rewrite eqb_reflx. apply forallb_forall. intros j Hj. apply in_seq in Hj.
  destruct (Nat.eqb_spec j (n - 1)); [reflexivity|]. destruct (Nat.eqb_spec j 1); [reflexivity|]. destruct (Nat.eqb_spec j 0); [reflexivity|].
  cbn [orb]. apply negb_true_iff.
  fold (pt_at p j) (pt_at p (n - 1)) (pt_at p 0) (pt_at p 1).
  (* a = q_{n-1}, b = q_0, c = q_1; the other vertex q_j, 1 < j < n-1, lies beyond the chord c -> a *)
  assert (H1 : orientR (pt_at p 1) (pt_at p (n - 1)) (pt_at p 0) = orientR (pt_at p (n - 1)) (pt_at p 0) (pt_at p 1)) by (unfold orientR; ring).
  assert (H2 : orientR (pt_at p 1) (pt_at p (n - 1)) (pt_at p j) = - orientR (pt_at p (n - 1)) (pt_at p 1) (pt_at p j)) by (unfold orientR; ring).
  pose proof (Hf 0%nat 1%nat ltac:(lia) ltac:(unfold n in *; lia)) as S1. fold n in S1.
  pose proof (Hf 1%nat j ltac:(lia) ltac:(unfold n in *; lia)) as S2. fold n in S2.
  unfold osign in S1, S2. apply in_triangle_false; rewrite ?H1, ?H2.
  - destruct sigma; lra.
  - destruct sigma.
    + apply Ropp_lt_cancel. rewrite Ropp_0. unfold Rdiv. rewrite <- Ropp_mult_distr_l, Ropp_involutive. apply Rmult_lt_0_compat; [exact S2|apply Rinv_0_lt_compat; exact S1].
    + unfold Rdiv. assert (Hinv : / orientR (pt_at p (n - 1)) (pt_at p 0) (pt_at p 1) < 0) by (apply Rinv_lt_0_compat; exact S1). nra.
Qed.
Lemma fan_find_ear sigma p : fanconv sigma p -> (3 <= length p)%nat -> find_ear sigma p = Some 0%nat.
Proof.
  intros Hc Hn. unfold find_ear. destruct (length p) as [|m] eqn:E; [lia|]. cbn [seq find].
  rewrite (fan_first_is_ear sigma p Hc); [reflexivity|lia].
Qed.

(* removing the first vertex keeps both parts *)
Lemma fanconv_tail sigma a p : fanconv sigma (a :: p) -> (3 <= length p)%nat -> fanconv sigma p.
Proof.
  intros [Hf Hl] Hn. set (n := length p) in *.
  assert (Hpt : forall i, pt_at p i = pt_at (a :: p) (S i)) by (intros i; reflexivity).
  assert (Hf' : fan sigma p).
  { intros i j Hij Hj. fold n in Hj |- *. rewrite !Hpt. replace (S (n - 1)) with (length (a :: p) - 1)%nat by (cbn [length]; fold n; lia).
    apply Hf; [lia|cbn [length]; fold n; lia]. }
  split; [exact Hf'|].
  intros i Hi. fold n in Hi |- *. unfold prev_i, next_i.
  destruct (Nat.eqb_spec i 0) as [->|Hi0].
  - (* first vertex of the rest: previous is the last vertex: a fan triple *)
    destruct (Nat.eqb_spec 0 (n - 1)); [lia|]. cbn [Nat.add]. apply (Hf' 0%nat 1%nat); fold n; lia.
  - destruct (Nat.eqb_spec i (n - 1)) as [->|Hil].
    + (* last vertex: next is the first vertex of the rest *)
      replace (orientR (pt_at p (n - 1 - 1)) (pt_at p (n - 1)) (pt_at p 0)) with (orientR (pt_at p (n - 1)) (pt_at p 0) (pt_at p (n - 1 - 1))) by (unfold orientR; ring).
      apply (Hf' 0%nat (n - 1 - 1)%nat); fold n; lia.
    + (* an inner vertex: the same three vertices as before *)
      pose proof (Hl (S i) ltac:(cbn [length]; fold n; lia)) as H. cbn [length] in H. fold n in H. unfold prev_i, next_i in H.
      destruct (Nat.eqb_spec (S i) 0); [lia|]. destruct (Nat.eqb_spec (S i) (S n - 1)); [lia|].
      rewrite !Hpt. replace (S (i - 1)) with (S i - 1)%nat by lia. replace (S (i + 1)) with (S i + 1)%nat by lia. exact H.
Qed.

Lemma fan_clipv sigma : forall fuel p acc, fanconv sigma p -> (2 <= length p)%nat -> (length p <= fuel + 2)%nat ->
  length (fst (clipv fuel sigma p acc)) = (length acc + (length p - 2))%nat.
Proof.
  induction fuel as [|f IH]; intros p acc Hc H2 Hf.
  - cbn [clipv fst]. lia.
  - cbn [clipv]. destruct (Nat.ltb_spec (length p) 3) as [H3|H3]; [cbn [fst]; lia|].
    rewrite (fan_find_ear sigma p Hc H3). destruct p as [|a p]; [cbn in H3; lia|].
    unfold remove_nth. cbn [firstn skipn app]. cbn [length] in *.
    destruct (Nat.ltb_spec (length p) 3) as [Hs|Hs].
    + (* two vertices left after this triangle: the next round stops *)
      destruct f as [|f']; cbn [clipv]; [cbn [fst]; rewrite app_length; cbn [length]; lia|]. destruct (Nat.ltb_spec (length p) 3); [|lia]. cbn [fst]. rewrite app_length. cbn [length]. lia.
    + rewrite IH; [rewrite app_length; cbn [length]; lia|apply (fanconv_tail sigma a); assumption|lia|lia].
Qed.

Theorem fanconv_complete sigma (p : list vtxR) : fanconv sigma p -> (3 <= length p)%nat -> complete p.
Proof.
  intros Hc Hn. unfold complete. rewrite triangulate_run, flat_idx3_length. unfold run.
  assert (Hr : ref_ccw p = sigma).
  { unfold ref_ccw. apply osign_ccw. apply (proj2 Hc (leftmost p)).
    unfold leftmost. set (n := length p). assert (G : forall l st, (fst st < n)%nat -> (forall i, In i l -> (i < n)%nat) ->
        (fst (fold_left (fun st i => let '(idx, lft) := st in let q := snd (nthv p i) in
                                      if (x2 q <? x2 lft)%num || ((x2 q =? x2 lft)%num && (y2 q <? y2 lft)%num) then (i, q) else st) l st) < n)%nat).
    { induction l as [|i l IH]; intros st Hst Hl; [exact Hst|]. cbn [fold_left]. apply IH; [|intros i' Hi'; apply Hl; right; exact Hi'].
      destruct st as [idx lft]. cbn [fst] in *. destruct (_ || _); cbn [fst]; [apply Hl; left; reflexivity|exact Hst]. }
    apply G; [cbn [fst]; unfold n; lia|]. intros i Hi. apply in_seq in Hi. unfold n. lia. }
  rewrite Hr. rewrite (fan_clipv sigma (length p) p [] Hc); [cbn [length]; lia|lia|lia].
Qed.

(* ---- the same with less: only the angular order seen from the last vertex, plus the reference winding ----
   (L) was used for two things only: the winding test at vertex 0 -- which is the fan pair (0, 1) -- and the reference
   winding, which is computed once at the leftmost vertex of the whole polygon. So a polygon that is star-shaped from its
   last vertex with its vertices in angular order, whatever its reflex corners, is completely triangulated as soon as the
   reference test gives its winding (e.g. the chamfer outline, which has two reflex corners). *)
Lemma fanonly_first_is_ear sigma p : fan sigma p -> (3 <= length p)%nat -> is_ear sigma p 0 = true.
Proof.
  intros Hf Hn. unfold is_ear. set (n := length p).
  assert (Hprev : prev_i n 0 = (n - 1)%nat) by reflexivity.
  assert (Hnext : next_i n 0 = 1%nat) by (unfold next_i; destruct (Nat.eqb_spec 0 (n - 1)); [unfold n in *; lia|reflexivity]).
  rewrite Hprev, Hnext.
  pose proof (Hf 0%nat 1%nat ltac:(lia) ltac:(unfold n in *; lia)) as S1. fold n in S1.
  pose proof (osign_ccw _ _ _ _ S1) as Hw. unfold pt_at in Hw. rewrite Hw.
  rewrite eqb_reflx. apply forallb_forall. intros j Hj. apply in_seq in Hj.
  destruct (Nat.eqb_spec j (n - 1)); [reflexivity|]. destruct (Nat.eqb_spec j 1); [reflexivity|]. destruct (Nat.eqb_spec j 0); [reflexivity|].
  cbn [orb]. apply negb_true_iff.
  fold (pt_at p j) (pt_at p (n - 1)) (pt_at p 0) (pt_at p 1).
  assert (H1 : orientR (pt_at p 1) (pt_at p (n - 1)) (pt_at p 0) = orientR (pt_at p (n - 1)) (pt_at p 0) (pt_at p 1)) by (unfold orientR; ring).
  assert (H2 : orientR (pt_at p 1) (pt_at p (n - 1)) (pt_at p j) = - orientR (pt_at p (n - 1)) (pt_at p 1) (pt_at p j)) by (unfold orientR; ring).
  pose proof (Hf 1%nat j ltac:(lia) ltac:(unfold n in *; lia)) as S2. fold n in S2.
  unfold osign in S1, S2. apply in_triangle_false; rewrite ?H1, ?H2.
  - destruct sigma; lra.
  - destruct sigma.
    + apply Ropp_lt_cancel. rewrite Ropp_0. unfold Rdiv. rewrite <- Ropp_mult_distr_l, Ropp_involutive. apply Rmult_lt_0_compat; [exact S2|apply Rinv_0_lt_compat; exact S1].
    + unfold Rdiv. assert (Hinv : / orientR (pt_at p (n - 1)) (pt_at p 0) (pt_at p 1) < 0) by (apply Rinv_lt_0_compat; exact S1). nra.
Qed.
Lemma fan_tail sigma a p : fan sigma (a :: p) -> (2 <= length p)%nat -> fan sigma p.
Proof.
  intros Hf Hn i j Hij Hj. set (n := length p) in *.
  assert (Hpt : forall i, pt_at p i = pt_at (a :: p) (S i)) by (intros k; reflexivity).
  rewrite !Hpt. replace (S (n - 1)) with (length (a :: p) - 1)%nat by (cbn [length]; fold n; lia).
  apply Hf; [lia|cbn [length]; fold n; lia].
Qed.
Lemma fanonly_clipv sigma : forall fuel p acc, fan sigma p -> (2 <= length p)%nat -> (length p <= fuel + 2)%nat ->
  length (fst (clipv fuel sigma p acc)) = (length acc + (length p - 2))%nat.
Proof.
  induction fuel as [|f IH]; intros p acc Hc H2 Hf.
  - cbn [clipv fst]. lia.
  - cbn [clipv]. destruct (Nat.ltb_spec (length p) 3) as [H3|H3]; [cbn [fst]; lia|].
    assert (Hfe : find_ear sigma p = Some 0%nat).
    { unfold find_ear. destruct (length p) as [|m] eqn:E; [lia|]. cbn [seq find]. rewrite (fanonly_first_is_ear sigma p Hc); [reflexivity|lia]. }
    rewrite Hfe. destruct p as [|a p]; [cbn in H3; lia|].
    unfold remove_nth. cbn [firstn skipn app]. cbn [length] in *.
    rewrite IH; [rewrite app_length; cbn [length]; lia|apply (fan_tail sigma a); [exact Hc|lia]|lia|lia].
Qed.
Theorem fan_complete sigma (p : list vtxR) : fan sigma p -> ref_ccw p = sigma -> (3 <= length p)%nat -> complete p.
Proof.
  intros Hc Hr Hn. unfold complete. rewrite triangulate_run, flat_idx3_length. unfold run. rewrite Hr.
  rewrite (fanonly_clipv sigma (length p) p [] Hc); [cbn [length]; lia|lia|lia].
Qed.
