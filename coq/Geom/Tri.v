(* Geom/Tri.v -- mirror of scad_tree/src/triangulate.rs (ear clipping). No proofs here. *)
From Coq Require Import ZArith List Bool Arith.
From SCAD Require Import Base.Num Base.Vec.
Import ListNotations.
Local Open Scope num_scope.

Section Tri.
  Context {T : Type} `{Num T}.
  Notation pt2 := (pt2 T). Notation pt3 := (pt3 T).
  Definition vtx := (Z * pt2)%type.

  (* is_ccw: (b-a) x (c-a) > 0.0 *)
  Definition is_ccw (a b c : pt2) : bool :=
    nzero <? ((x2 b - x2 a) * (y2 c - y2 a) - (x2 c - x2 a) * (y2 b - y2 a)).

  Definition in_triangle (p a b c : pt2) : bool :=
    let denom := (y2 b - y2 c) * (x2 a - x2 c) + (x2 c - x2 b) * (y2 a - y2 c) in
    if denom =? nzero then true else
    let denom := none_ / denom in
    let alpha := denom * ((y2 b - y2 c) * (x2 p - x2 c) + (x2 c - x2 b) * (y2 p - y2 c)) in
    if alpha <? nzero then false else
    let beta := denom * ((y2 c - y2 a) * (x2 p - x2 c) + (x2 a - x2 c) * (y2 p - y2 c)) in
    if beta <? nzero then false else
    let gamma := none_ - alpha - beta in
    if gamma <? nzero then false else true.

  Definition dv : vtx := (0%Z, Pt2 nzero nzero).
  Definition nthv (l : list vtx) (i : nat) : vtx := nth i l dv.
  Definition prev_i (n i : nat) : nat := if Nat.eqb i 0 then n - 1 else i - 1.
  Definition next_i (n i : nat) : nat := if Nat.eqb i (n - 1) then 0 else i + 1.

  (* left-most (then lowest) vertex: the scan keeps (index, left) *)
  Definition leftmost (poly : list vtx) : nat :=
    fst (fold_left (fun st i =>
                      let '(idx, lft) := st in
                      let q := snd (nthv poly i) in
                      if (x2 q <? x2 lft) || ((x2 q =? x2 lft) && (y2 q <? y2 lft)) then (i, q) else st)
                   (seq 0 (length poly)) (0%nat, snd (nthv poly 0))).

  Definition is_ear (ccw : bool) (poly : list vtx) (i : nat) : bool :=
    let n := length poly in
    let p := prev_i n i in let nx := next_i n i in
    let a := snd (nthv poly p) in let b := snd (nthv poly i) in let c := snd (nthv poly nx) in
    if Bool.eqb (is_ccw a b c) ccw then
      forallb (fun j => Nat.eqb j p || Nat.eqb j nx || Nat.eqb j i || negb (in_triangle (snd (nthv poly j)) a b c)) (seq 0 n)
    else false.

  Definition find_ear (ccw : bool) (poly : list vtx) : option nat := find (is_ear ccw poly) (seq 0 (length poly)).

  Definition remove_nth {A} (i : nat) (l : list A) : list A := firstn i l ++ skipn (S i) l.

  Fixpoint clip (fuel : nat) (ccw : bool) (poly : list vtx) (acc : list Z) : list Z :=
    match fuel with
    | O => acc
    | S f =>
        if Nat.ltb (length poly) 3 then acc else
        match find_ear ccw poly with
        | None => acc
        | Some i =>
            let n := length poly in
            clip f ccw (remove_nth i poly)
                 (acc ++ [fst (nthv poly (prev_i n i)); fst (nthv poly i); fst (nthv poly (next_i n i))])
        end
    end.

  Definition triangulate (poly : list vtx) : list Z :=
    let n := length poly in
    let idx := leftmost poly in
    let ccw := is_ccw (snd (nthv poly (prev_i n idx))) (snd (nthv poly idx)) (snd (nthv poly (next_i n idx))) in
    clip n ccw poly [].

  Definition enumerate (l : list pt2) : list vtx := combine (map Z.of_nat (seq 0 (length l))) l.

  (* None = assert!(vertices.len() > 3) fails *)
  Definition triangulate2d (v : list pt2) : option (list Z) :=
    if Nat.ltb 3 (length v) then Some (triangulate (enumerate v)) else None.
  Definition triangulate2d_rev (v : list pt2) : option (list Z) :=
    if Nat.ltb 3 (length v) then Some (triangulate (rev (enumerate v))) else None.

  (* dominant axis of the normal, ties resolved in the order x, y, z as in the Rust *)
  Definition project (normal : pt3) (p : pt3) : pt2 :=
    let ax := nabs (x3 normal) in let ay := nabs (y3 normal) in let az := nabs (z3 normal) in
    if (ay <=? ax) && (az <=? ax) then
      (if nzero <=? x3 normal then Pt2 (y3 p) (z3 p) else Pt2 (- y3 p) (z3 p))
    else if (ax <=? ay) && (az <=? ay) then
      (if nzero <=? y3 normal then Pt2 (- x3 p) (z3 p) else Pt2 (x3 p) (z3 p))
    else if (ax <=? az) && (ay <=? az) then
      (if nzero <=? z3 normal then Pt2 (x3 p) (y3 p) else Pt2 (- x3 p) (y3 p))
    else Pt2 nzero nzero.
  (* when no branch applies (NaN normal) the Rust pushes nothing: the polygon stays empty *)
  Definition projectable (normal : pt3) : bool :=
    let ax := nabs (x3 normal) in let ay := nabs (y3 normal) in let az := nabs (z3 normal) in
    ((ay <=? ax) && (az <=? ax)) || ((ax <=? ay) && (az <=? ay)) || ((ax <=? az) && (ay <=? az)).
  Definition triangulate3d (v : list pt3) (normal : pt3) : option (list Z) :=
    if Nat.ltb 3 (length v) then
      if projectable normal then Some (triangulate (enumerate (map (project normal) v))) else None
    else None.
  Definition triangulate3d_rev (v : list pt3) (normal : pt3) : option (list Z) :=
    if Nat.ltb 3 (length v) then
      if projectable normal then Some (triangulate (rev (enumerate (map (project normal) v)))) else None
    else None.
End Tri.
