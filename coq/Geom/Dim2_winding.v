(* Geom/Dim2_winding.v -- C07: the rounded rectangle is wound clockwise.
   Seen from the centre of its box every edge of the outline (the chords of the four corner arcs and the four
   straight sides) turns clockwise, so the outline is star-shaped about the centre and its shoelace area is negative. *)
From Coq Require Import Reals ZArith Lra Lia List.
From SCAD Require Import Base.Num Base.NumR Base.Trig_proofs Base.Vec Base.Vec_proofs Base.Rot_proofs Geom.Poly Geom.Dim2 Geom.Dim2_proofs.
Import ListNotations.
Local Open Scope R_scope.

Notation V2 := (pt2 R).

(* ---- translation leaves the shoelace sum of a closed outline unchanged ---- *)
Lemma cross2_shift (a b v : V2) : cross2 (pt2_add a v) (pt2_add b v) = cross2 a b - cross2 v a + cross2 v b.
Proof. dred. ring. Qed.
Lemma last_nonempty_default {A} (l : list A) b d d' : last (b :: l) d = last (b :: l) d'.
Proof. revert b. induction l as [|c l IH]; intros b; [reflexivity|]. change (last (c :: l) d = last (c :: l) d'). apply IH. Qed.
Lemma open_area2_translate (v : V2) : forall l a,
  open_area2 (map (fun q => pt2_add q v) (a :: l)) = open_area2 (a :: l) - cross2 v a + cross2 v (last (a :: l) a).
Proof.
  induction l as [|b l IH]; intros a.
  - cbn [map open_area2 last]. change (@nzero R NumR) with 0. ring.
  - change (open_area2 (map (fun q => pt2_add q v) (a :: b :: l)))
      with (cross2 (pt2_add a v) (pt2_add b v) + open_area2 (map (fun q => pt2_add q v) (b :: l))).
    change (open_area2 (a :: b :: l)) with (cross2 a b + open_area2 (b :: l)).
    rewrite IH, cross2_shift. change (last (a :: b :: l) a) with (last (b :: l) a).
    rewrite (last_nonempty_default l b a b).
    ring.
Qed.
Lemma last_map {A B} (f : A -> B) l d : last (map f l) (f d) = f (last l d).
Proof. induction l as [|a l IH]; [reflexivity|]. cbn [map last]. destruct l; [reflexivity|exact IH]. Qed.
Theorem area2_translate (v : V2) l : area2 (pt2s_translate l v) = area2 l.
Proof.
  destruct l as [|a l]; [reflexivity|]. unfold pt2s_translate, area2.
  change (map (fun q => pt2_add q v) (a :: l)) with (pt2_add a v :: map (fun q => pt2_add q v) l) at 1.
  cbv iota beta. change (pt2_add a v :: map (fun q => pt2_add q v) l) with (map (fun q => pt2_add q v) (a :: l)).
  rewrite open_area2_translate, (last_map (fun q => pt2_add q v) (a :: l) a), cross2_shift.
  change (nadd ?x ?y) with (x + y). ring.
Qed.

(* ---- an outline all of whose consecutive pairs satisfy P ---- *)
Fixpoint pairs_ok (P : V2 -> V2 -> Prop) (l : list V2) : Prop :=
  match l with a :: ((b :: _) as tl) => P a b /\ pairs_ok P tl | _ => True end.
Lemma pairs_ok_app (P : V2 -> V2 -> Prop) l1 l2 d : pairs_ok P l1 -> pairs_ok P l2 -> (l1 <> [] -> l2 <> [] -> P (last l1 d) (hd d l2)) -> pairs_ok P (l1 ++ l2).
Proof.
  induction l1 as [|a l1 IH]; intros H1 H2 H12; [exact H2|]. destruct l1 as [|b l1].
  - cbn [app]. destruct l2 as [|c l2]; [exact I|]. split; [apply H12; discriminate|exact H2].
  - destruct H1 as [Hab H1]. change ((a :: b :: l1) ++ l2) with (a :: b :: (l1 ++ l2)). split; [exact Hab|].
    apply IH; [exact H1|exact H2|]. intros _ Hn. apply H12; [discriminate|exact Hn].
Qed.
Lemma pairs_ok_seq (P : V2 -> V2 -> Prop) (f : nat -> V2) : forall k s, (forall i, (s <= i < s + k)%nat -> P (f i) (f (S i))) -> pairs_ok P (map f (seq s (S k))).
Proof.
  induction k as [|k IH]; intros s Hf; [exact I|]. change (map f (seq s (S (S k)))) with (f s :: map f (seq (S s) (S k))).
  change (map f (seq (S s) (S k))) with (f (S s) :: map f (seq (S (S s)) k)). split; [apply Hf; lia|].
  change (f (S s) :: map f (seq (S (S s)) k)) with (map f (seq (S s) (S k))). apply IH. intros i Hi. apply Hf. lia.
Qed.
Lemma open_area2_nonpos l : pairs_ok (fun a b => cross2 a b <= 0) l -> open_area2 l <= 0.
Proof.
  induction l as [|a l IH]; [cbn; lra|]. destruct l as [|b l]; [cbn; lra|]. intros [Hab Hl].
  change (open_area2 (a :: b :: l)) with (cross2 a b + open_area2 (b :: l)). specialize (IH Hl). lra.
Qed.

(* ---- sine and cosine on a quarter turn are monotone ---- *)
Lemma quarter_monotone t t' : 0 <= t -> t <= t' -> t' <= 90 -> dsin t <= dsin t' /\ dcos t' <= dcos t.
Proof.
  intros H0 Hle H1. destruct (Req_dec t t') as [->|Hne]; [lra|]. assert (Hlt : t < t') by lra.
  rewrite !dsin_def, !dcos_def. pose proof PI_RGT_0 as Hpi.
  assert (0 <= t * PI / 180 < t' * PI / 180) by (split; nra). assert (t' * PI / 180 <= PI / 2) by nra.
  split.
  - left. apply sin_increasing_1; lra.
  - left. apply cos_decreasing_1; lra.
Qed.

(* two neighbouring points of a quarter arc: angles t <= t' in [0, 90] *)
Lemma quarter_arc_step (start : V2) (segments : Z) pts i : (1 <= segments)%Z -> arc start 90 segments = Some pts -> (S i < length pts)%nat ->
  exists c s c' s', 0 <= c <= 1 /\ 0 <= s <= 1 /\ 0 <= c' <= 1 /\ 0 <= s' <= 1 /\ s <= s' /\ c' <= c /\
    nth i pts start = Pt2 (x2 start * c + y2 start * s) (y2 start * c - x2 start * s) /\
    nth (S i) pts start = Pt2 (x2 start * c' + y2 start * s') (y2 start * c' - x2 start * s').
Proof.
  intros Hs Ha Hi. assert (Hs0 : (0 <= segments)%Z) by lia. destruct (arc_spec _ _ _ _ Hs0 Ha) as [Hl Hn].
  assert (E : Reqb 90 360 = false) by (apply Reqb_false; lra). rewrite E in Hl.
  assert (Hseg : 1 <= IZR segments) by (apply IZR_le; exact Hs).
  set (ang := fun j : nat => IZR (Z.of_nat j) * 90 / IZR segments).
  assert (Hang : forall j, (j < length pts)%nat -> 0 <= ang j <= 90).
  { intros j Hj. assert (Hj' : 0 <= IZR (Z.of_nat j) <= IZR segments) by (split; apply IZR_le; lia). unfold ang. split.
    - apply Rmult_le_pos; [nra|left; apply Rinv_0_lt_compat; lra].
    - apply (Rmult_le_reg_r (IZR segments)); [lra|]. unfold Rdiv. rewrite Rmult_assoc, Rinv_l by lra. nra. }
  assert (Hmono : ang i <= ang (S i)).
  { unfold ang. rewrite Nat2Z.inj_succ, succ_IZR. apply (Rmult_le_reg_r (IZR segments)); [lra|]. unfold Rdiv. rewrite !Rmult_assoc, Rinv_l by lra. lra. }
  assert (Hpt : forall j, (j < length pts)%nat -> nth j pts start = Pt2 (x2 start * dcos (ang j) + y2 start * dsin (ang j)) (y2 start * dcos (ang j) - x2 start * dsin (ang j))).
  { intros j Hj. rewrite Hn by exact Hj. replace (IZR (Z.of_nat j) * - (90) / IZR segments) with (- ang j) by (unfold ang; field; lra).
    rewrite pt2_rotated_spec. unfold R2_spec. rewrite dcos_neg, dsin_neg. destruct start as [sx sy]. dred. f_equal; ring. }
  assert (Hi0 : (i < length pts)%nat) by lia.
  destruct (quarter_trig _ (Hang i Hi0)) as [Hs1 Hc1]. destruct (quarter_trig _ (Hang (S i) Hi)) as [Hs2 Hc2].
  destruct (quarter_monotone (ang i) (ang (S i))) as [Hm1 Hm2]; [apply (Hang i Hi0)|exact Hmono|apply (Hang (S i) Hi)|].
  exists (dcos (ang i)), (dsin (ang i)), (dcos (ang (S i))), (dsin (ang (S i))).
  repeat (split; [assumption|]). split; [apply Hpt; exact Hi0|apply Hpt; exact Hi].
Qed.

(* ---- the shape of a quarter arc: it starts at `start` and ends at `start` turned clockwise by 90 degrees ---- *)
Lemma list_ends {A} (l : list A) d : (2 <= length l)%nat -> exists mid, l = nth 0 l d :: mid ++ [nth (length l - 1) l d].
Proof.
  destruct l as [|a l]; [cbn; lia|]. intros Hl. assert (Hne : l <> []) by (destruct l; [cbn in Hl; lia|discriminate]).
  destruct (exists_last Hne) as (m & z & ->). exists m. cbn [nth]. f_equal. f_equal. f_equal.
  cbn [length]. rewrite app_length. cbn [length]. replace (S (length m + 1) - 1)%nat with (S (length m)) by lia.
  cbn [nth]. rewrite app_nth2 by lia. replace (length m - length m)%nat with 0%nat by lia. reflexivity.
Qed.
Lemma quarter_arc_shape (start : V2) (segments : Z) pts : (1 <= segments)%Z -> arc start 90 segments = Some pts ->
  exists mid, pts = start :: mid ++ [Pt2 (y2 start) (- x2 start)].
Proof.
  intros Hs Ha. assert (Hs0 : (0 <= segments)%Z) by lia. destruct (arc_spec _ _ _ _ Hs0 Ha) as [Hl Hn].
  assert (E : Reqb 90 360 = false) by (apply Reqb_false; lra). rewrite E in Hl.
  assert (Hseg : 1 <= IZR segments) by (apply IZR_le; exact Hs).
  destruct (list_ends pts start) as (mid & Hm); [lia|]. exists mid. rewrite Hm at 1. f_equal; [|f_equal; f_equal].
  - rewrite Hn by lia. cbn [Z.of_nat]. replace (0 * - (90) / IZR segments) with 0 by (unfold Rdiv; ring).
    destruct (rot_zero (Pt3 0 0 0) start) as (_ & _ & _ & H0). exact H0.
  - rewrite Hn by lia. replace (Z.of_nat (length pts - 1)) with segments by lia.
    replace (IZR segments * - (90) / IZR segments) with (- (90)) by (field; lra).
    rewrite pt2_rotated_spec. unfold R2_spec. rewrite dcos_neg, dsin_neg, dcos_90, dsin_90. destruct start as [sx sy]. dred. f_equal; ring.
Qed.

Lemma pairs_ok_nth (P : V2 -> V2 -> Prop) l d : (forall i, (S i < length l)%nat -> P (nth i l d) (nth (S i) l d)) -> pairs_ok P l.
Proof.
  induction l as [|a l IH]; intros Hf; [exact I|]. destruct l as [|b l]; [exact I|]. split; [apply (Hf 0%nat); cbn [length]; lia|].
  apply IH. intros i Hi. apply (Hf (S i)). cbn [length] in *. lia.
Qed.

(* one chord of a corner arc seen from the centre of the box: S is the arc's start about its own centre, d the offset
   of the arc's centre from the centre of the box; d lies in the quadrant the arc sweeps *)
Lemma arc_edge_cw (S d : V2) c s c' s' : 0 <= c <= 1 -> 0 <= s <= 1 -> 0 <= c' <= 1 -> 0 <= s' <= 1 -> s <= s' -> c' <= c ->
  0 <= x2 d * y2 S - y2 d * x2 S -> 0 <= x2 d * x2 S + y2 d * y2 S ->
  cross2 (pt2_add (Pt2 (x2 S * c + y2 S * s) (y2 S * c - x2 S * s)) d) (pt2_add (Pt2 (x2 S * c' + y2 S * s') (y2 S * c' - x2 S * s')) d) <= 0.
Proof.
  intros Hc Hs Hc' Hs' Hss Hcc K1 K2. destruct S as [sx sy], d as [a b]. cbn [x2 y2] in *.
  assert (E : cross2 (pt2_add (Pt2 (sx * c + sy * s) (sy * c - sx * s)) (Pt2 a b)) (pt2_add (Pt2 (sx * c' + sy * s') (sy * c' - sx * s')) (Pt2 a b))
              = (sx * sx + sy * sy) * (s * c' - c * s') + (c' - c) * (a * sy - b * sx) - (s' - s) * (a * sx + b * sy)) by (dred; ring).
  rewrite E.
  assert (0 <= sx * sx + sy * sy) by nra.
  assert (s * c' - c * s' <= 0) by nra.
  assert ((sx * sx + sy * sy) * (s * c' - c * s') <= 0) by nra.
  assert ((c' - c) * (a * sy - b * sx) <= 0) by nra.
  assert (0 <= (s' - s) * (a * sx + b * sy)) by nra.
  lra.
Qed.

Lemma pt2_add_assoc (p a b : V2) : pt2_add (pt2_add p a) b = pt2_add p (pt2_add a b).
Proof. dred. f_equal; ring. Qed.

(* all chords of one translated corner arc turn clockwise about the origin *)
Lemma corner_ok (S T C : V2) (segments : Z) pts : (1 <= segments)%Z -> arc S 90 segments = Some pts ->
  0 <= x2 (pt2_add T C) * y2 S - y2 (pt2_add T C) * x2 S -> 0 <= x2 (pt2_add T C) * x2 S + y2 (pt2_add T C) * y2 S ->
  pairs_ok (fun a b => cross2 a b <= 0) (pt2s_translate (pt2s_translate pts T) C).
Proof.
  intros Hs Ha K1 K2. unfold pt2s_translate. rewrite map_map.
  apply (pairs_ok_nth _ _ (pt2_add (pt2_add S T) C)). intros i Hi. rewrite map_length in Hi.
  rewrite !(map_nth (fun x => pt2_add (pt2_add x T) C) pts S).
  destruct (quarter_arc_step S segments pts i Hs Ha Hi) as (c & s & c' & s' & Hc & Hsn & Hc' & Hsn' & Hss & Hcc & -> & ->).
  rewrite !pt2_add_assoc. apply arc_edge_cw; assumption.
Qed.

Theorem rounded_rect_clockwise (w h r : R) (segments : Z) (center : bool) pts : 0 < r -> 2 * r < w -> 2 * r < h -> (1 <= segments)%Z ->
  rounded_rect w h r segments center = Some pts -> area2 pts < 0.
Proof.
  intros Hr Hw Hh Hs. unfold rounded_rect. cbn [nzero nofZ nneg nsub ndiv ntwo NumR].
  destruct (arc (Pt2 0 r) 90 segments) as [tr|] eqn:Etr; [|discriminate]. destruct (arc (Pt2 r 0) 90 segments) as [br|] eqn:Ebr; [|discriminate].
  destruct (arc (Pt2 (- 0) (- r)) 90 segments) as [bl|] eqn:Ebl; [|discriminate]. destruct (arc (Pt2 (- r) 0) 90 segments) as [tl|] eqn:Etl; [|discriminate].
  set (C := Pt2 (- w / 2) (- h / 2)).
  set (all := pt2s_translate tr (Pt2 (w - r) (h - r)) ++ pt2s_translate br (Pt2 (w - r) r) ++ pt2s_translate bl (Pt2 r r) ++ pt2s_translate tl (Pt2 r (h - r))).
  intros E. assert (Hpts : area2 pts = area2 (pt2s_translate all C)).
  { destruct center; inversion E as [Hp]; [reflexivity|]. symmetry. apply area2_translate. }
  rewrite Hpts. clear E Hpts pts.
  (* the four corners, each seen from the centre *)
  assert (O1 := corner_ok (Pt2 0 r) (Pt2 (w - r) (h - r)) C segments tr Hs Etr).
  assert (O2 := corner_ok (Pt2 r 0) (Pt2 (w - r) r) C segments br Hs Ebr).
  assert (O3 := corner_ok (Pt2 (- 0) (- r)) (Pt2 r r) C segments bl Hs Ebl).
  assert (O4 := corner_ok (Pt2 (- r) 0) (Pt2 r (h - r)) C segments tl Hs Etl).
  unfold C in O1, O2, O3, O4. cbn [pt2_add x2 y2 nadd NumR] in O1, O2, O3, O4.
  specialize (O1 ltac:(nra) ltac:(nra)). specialize (O2 ltac:(nra) ltac:(nra)). specialize (O3 ltac:(nra) ltac:(nra)). specialize (O4 ltac:(nra) ltac:(nra)).
  fold C in O1, O2, O3, O4.
  destruct (quarter_arc_shape _ _ _ Hs Etr) as (m1 & ->). destruct (quarter_arc_shape _ _ _ Hs Ebr) as (m2 & ->).
  destruct (quarter_arc_shape _ _ _ Hs Ebl) as (m3 & ->). destruct (quarter_arc_shape _ _ _ Hs Etl) as (m4 & ->).
  cbn [x2 y2] in *.
  unfold all. unfold pt2s_translate in *. cbn [map] in *. rewrite ?map_app in O1, O2, O3, O4 |- *. rewrite ?map_app in O1, O2, O3, O4 |- *. cbn [map] in *.
  set (g1 := fun q : V2 => pt2_add (pt2_add q (Pt2 (w - r) (h - r))) C) in *.
  set (g2 := fun q : V2 => pt2_add (pt2_add q (Pt2 (w - r) r)) C) in *.
  set (g3 := fun q : V2 => pt2_add (pt2_add q (Pt2 r r)) C) in *.
  set (g4 := fun q : V2 => pt2_add (pt2_add q (Pt2 r (h - r))) C) in *.
  rewrite !map_map in *. fold g1 g2 g3 g4 in O1, O2, O3, O4 |- *.
  (* the corner points, centred *)
  set (a1 := pt2_add (pt2_add (Pt2 0 r) (Pt2 (w - r) (h - r))) C) in *. set (e1 := pt2_add (pt2_add (Pt2 r (- 0)) (Pt2 (w - r) (h - r))) C) in *.
  set (a2 := pt2_add (pt2_add (Pt2 r 0) (Pt2 (w - r) r)) C) in *. set (e2 := pt2_add (pt2_add (Pt2 0 (- r)) (Pt2 (w - r) r)) C) in *.
  set (a3 := pt2_add (pt2_add (Pt2 (- 0) (- r)) (Pt2 r r)) C) in *. set (e3 := pt2_add (pt2_add (Pt2 (- r) (- - 0)) (Pt2 r r)) C) in *.
  set (a4 := pt2_add (pt2_add (Pt2 (- r) 0) (Pt2 r (h - r))) C) in *. set (e4 := pt2_add (pt2_add (Pt2 0 (- - r)) (Pt2 r (h - r))) C) in *.
  assert (J12 : cross2 e1 a2 <= 0) by (unfold e1, a2, C; dred; nra).
  assert (J23 : cross2 e2 a3 <= 0) by (unfold e2, a3, C; dred; nra).
  assert (J34 : cross2 e3 a4 <= 0) by (unfold e3, a4, C; dred; nra).
  assert (J41 : cross2 e4 a1 < 0) by (unfold e4, a1, C; dred; nra).
  set (L1 := a1 :: map g1 m1 ++ [e1]) in *. set (L2 := a2 :: map g2 m2 ++ [e2]) in *.
  set (L3 := a3 :: map g3 m3 ++ [e3]) in *. set (L4 := a4 :: map g4 m4 ++ [e4]) in *.
  assert (Hlast : forall a (m : list V2) e d, last (a :: m ++ [e]) d = e).
  { intros a m e d. change (a :: m ++ [e]) with ((a :: m) ++ [e]). apply last_app_one. }
  assert (O34 : pairs_ok (fun a b => cross2 a b <= 0) (L3 ++ L4)).
  { apply (pairs_ok_app _ _ _ a1); [exact O3|exact O4|]. intros _ _. unfold L3, L4. rewrite Hlast. exact J34. }
  assert (O234 : pairs_ok (fun a b => cross2 a b <= 0) (L2 ++ L3 ++ L4)).
  { apply (pairs_ok_app _ _ _ a1); [exact O2|exact O34|]. intros _ _. unfold L2, L3. rewrite Hlast. exact J23. }
  assert (O1234 : pairs_ok (fun a b => cross2 a b <= 0) (L1 ++ L2 ++ L3 ++ L4)).
  { apply (pairs_ok_app _ _ _ a1); [exact O1|exact O234|]. intros _ _. unfold L1, L2. rewrite Hlast. exact J12. }
  apply open_area2_nonpos in O1234.
  assert (Hl : last (L1 ++ L2 ++ L3 ++ L4) a1 = e4).
  { rewrite !app_assoc. unfold L4. change (a4 :: map g4 m4 ++ [e4]) with ((a4 :: map g4 m4) ++ [e4]). rewrite app_assoc. apply last_app_one. }
  assert (G : area2 (L1 ++ L2 ++ L3 ++ L4) < 0).
  { assert (Ha : area2 (L1 ++ L2 ++ L3 ++ L4) = open_area2 (L1 ++ L2 ++ L3 ++ L4) + cross2 (last (L1 ++ L2 ++ L3 ++ L4) a1) a1) by reflexivity.
    rewrite Ha, Hl. lra. }
  match goal with |- area2 ?X < 0 => replace X with (L1 ++ L2 ++ L3 ++ L4); [exact G|] end.
  unfold L1, L2, L3, L4, a1, a2, a3, a4, e1, e2, e3, e4, g1, g2, g3, g4.
  repeat (rewrite ?map_app, ?map_map; cbn [map app]). rewrite <- ?app_assoc. cbn [app]. reflexivity.
Qed.
