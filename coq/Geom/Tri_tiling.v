(* Geom/Tri_tiling.v -- the combinatorial tiling statement of C03 for complete ear-clipping runs on polygons with
   distinct indices: every polygon edge is used by exactly one triangle and never against its direction, every other
   ordered pair is used at most once and exactly as often as its reverse. Axiom-free, generic in the number type. *)
From Coq Require Import ZArith List Bool Arith Lia FinFun.
From SCAD Require Import Base.Num Base.Vec Geom.Tri Geom.Tri_proofs Geom.Tri_exact Geom.Dim3 Geom.Mesh_proofs.
From SCAD Require Geom.Cyc.
Import ListNotations.

Lemma zsum_zero (f : Z -> Z) (ks : list Z) : (forall k, In k ks -> f k = 0%Z) -> zsum (map f ks) = 0%Z.
Proof. induction ks as [|k ks IH]; intros Hz; [reflexivity|]. cbn [map zsum fold_right]. fold (zsum (map f ks)). rewrite Hz by (left; reflexivity). rewrite IH; [reflexivity|]. intros; apply Hz; right; assumption. Qed.
Lemma zsum_single (f : Z -> Z) (ks : list Z) (J : Z) : NoDup ks -> In J ks -> (forall k, In k ks -> k <> J -> f k = 0%Z) ->
  zsum (map f ks) = f J.
Proof.
  induction ks as [|k ks IH]; intros Hnd Hin Hz; [contradiction|]. cbn [map zsum fold_right]. fold (zsum (map f ks)).
  inversion Hnd as [|? ? Hnotin Hnd']; subst. destruct (Z.eq_dec k J) as [->|Hne].
  - rewrite zsum_zero; [lia|]. intros k' Hk'. apply Hz; [right; exact Hk'|]. intros ->. contradiction.
  - destruct Hin as [E|Hin]; [contradiction|]. rewrite (Hz k (or_introl eq_refl) Hne). rewrite IH; [lia|assumption|assumption|].
    intros k' Hk' Hne'. apply Hz; [right; exact Hk'|exact Hne'].
Qed.

(* the net count of a cyclic list of distinct elements, by position *)
Section NetPos.
  Variable l : list Z.
  Hypothesis Hnd : NoDup l.
  Hypothesis Hlen : (3 <= length l)%nat.
  Let len := length l.
  Let f (z : Z) : Z := nth (Z.to_nat z) l 0%Z.
  Lemma l_as_map : l = map f (nseq len).
  Proof.
    apply (nth_ext _ _ 0%Z (f 0%Z)); [unfold nseq; rewrite !map_length, seq_length; reflexivity|].
    intros n Hn. unfold nseq. rewrite map_map. rewrite (map_nth (fun x => f (Z.of_nat x)) (seq 0 len) 0%nat).
    rewrite seq_nth by exact Hn. unfold f. rewrite Nat2Z.id. reflexivity.
  Qed.
  Lemma next_mod (j : nat) : (j < len)%nat -> Z.to_nat ((Z.of_nat j + 1) mod Z.of_nat len) = next_i len j.
  Proof.
    intros Hj. unfold next_i. destruct (Nat.eqb_spec j (len - 1)) as [E|E].
    - replace (Z.of_nat j + 1)%Z with (Z.of_nat len) by lia. rewrite Z.mod_same by lia. reflexivity.
    - rewrite Z.mod_small by lia. lia.
  Qed.
  Lemma fnet_positions u v :
    fnet u v l = zsum (map (fun z => dirz u v (f z) (f ((z + 1) mod Z.of_nat len))) (nseq len)).
  Proof. rewrite l_as_map at 1. unfold fnet. apply (csum_indexed (dirz u v) f len). unfold len. lia. Qed.

  Lemma fnet_edge u v : pedge Z 0%Z l u v -> fnet u v l = 1%Z.
  Proof.
    intros (J & HJ & Hu & Hv). fold len in HJ, Hv. rewrite fnet_positions.
    rewrite (zsum_single _ (nseq len) (Z.of_nat J)).
    - unfold f. rewrite Nat2Z.id, next_mod by exact HJ. rewrite Hu, Hv.
      assert (Huv : u <> v).
      { intros E. rewrite <- Hv in E. rewrite <- Hu in E at 1. apply (proj1 (NoDup_nth l 0%Z) Hnd) in E; [|exact HJ|apply next_lt'; exact HJ].
        pose proof (next_i_cases len J). unfold len in *. lia. }
      unfold dirz. rewrite !Z.eqb_refl. destruct (Z.eqb_spec u v); [contradiction|]. cbn [andb]. reflexivity.
    - unfold nseq. apply FinFun.Injective_map_NoDup; [intros a b; apply Nat2Z.inj|apply seq_NoDup].
    - unfold nseq. apply in_map. apply in_seq. lia.
    - intros k Hk Hne. unfold nseq in Hk. apply in_map_iff in Hk. destruct Hk as [j [<- Hj]]. apply in_seq in Hj.
      unfold f. rewrite Nat2Z.id, next_mod by lia. unfold dirz.
      assert (A1 : (Z.eqb (nth j l 0%Z) u && Z.eqb (nth (next_i len j) l 0%Z) v) = false).
      { destruct (Z.eqb_spec (nth j l 0%Z) u) as [E|E]; [|reflexivity]. exfalso. rewrite <- Hu in E.
        apply (proj1 (NoDup_nth l 0%Z) Hnd) in E; [|lia|exact HJ]. apply Hne. congruence. }
      assert (A2 : (Z.eqb (nth j l 0%Z) v && Z.eqb (nth (next_i len j) l 0%Z) u) = false).
      { destruct (Z.eqb_spec (nth j l 0%Z) v) as [E|E]; [|reflexivity]. destruct (Z.eqb_spec (nth (next_i len j) l 0%Z) u) as [E'|E']; [|reflexivity]. exfalso.
        rewrite <- Hv in E. rewrite <- Hu in E'.
        apply (proj1 (NoDup_nth l 0%Z) Hnd) in E; [|lia|apply next_lt'; exact HJ].
        apply (proj1 (NoDup_nth l 0%Z) Hnd) in E'; [|apply next_lt'; lia|exact HJ].
        pose proof (next_i_cases len J). pose proof (next_i_cases len j). unfold len in *. lia. }
      rewrite A1, A2. reflexivity.
  Qed.
  Lemma fnet_non_edge u v : ~ pedge Z 0%Z l u v -> ~ pedge Z 0%Z l v u -> fnet u v l = 0%Z.
  Proof.
    intros H1 H2. rewrite fnet_positions. apply zsum_zero. intros k Hk. unfold nseq in Hk. apply in_map_iff in Hk. destruct Hk as [j [<- Hj]]. apply in_seq in Hj.
    unfold f. rewrite Nat2Z.id, next_mod by lia. unfold dirz.
    assert (A1 : (Z.eqb (nth j l 0%Z) u && Z.eqb (nth (next_i len j) l 0%Z) v) = false).
    { destruct (Z.eqb_spec (nth j l 0%Z) u) as [E|E]; [|reflexivity]. destruct (Z.eqb_spec (nth (next_i len j) l 0%Z) v) as [E'|E']; [|reflexivity].
      exfalso. apply H1. exists j. fold len. split; [lia|split; assumption]. }
    assert (A2 : (Z.eqb (nth j l 0%Z) v && Z.eqb (nth (next_i len j) l 0%Z) u) = false).
    { destruct (Z.eqb_spec (nth j l 0%Z) v) as [E|E]; [|reflexivity]. destruct (Z.eqb_spec (nth (next_i len j) l 0%Z) u) as [E'|E']; [|reflexivity].
      exfalso. apply H2. exists j. fold len. split; [lia|split; assumption]. }
    rewrite A1, A2. reflexivity.
  Qed.
End NetPos.

Section Tiling.
  Context {T : Type} `{Num T}.
  Lemma net_tris_cnt u v (acc : list (@tri3 T)) : net_tris u v acc = (Z.of_nat (cntT u v acc) - Z.of_nat (cntT v u acc))%Z.
  Proof.
    induction acc as [|[[a b] c] acc IH]; [reflexivity|]. cbn [net_tris fold_right cntT]. fold (net_tris u v acc) (cntT u v acc) (cntT v u acc).
    rewrite IH. unfold net, Cyc.csum. cbn [Cyc.osum last cnt3]. unfold dir, ind.
    destruct (Z.eqb (fst a) u && Z.eqb (fst b) v), (Z.eqb (fst a) v && Z.eqb (fst b) u), (Z.eqb (fst b) u && Z.eqb (fst c) v), (Z.eqb (fst b) v && Z.eqb (fst c) u),
             (Z.eqb (fst c) u && Z.eqb (fst a) v), (Z.eqb (fst c) v && Z.eqb (fst a) u); lia.
  Qed.

  (* THE TILING THEOREM (combinatorial part of C03) *)
  Theorem complete_tiling (poly : list (@vtx T)) : NoDup (ids poly) -> (3 <= length poly)%nat -> complete poly ->
    let tris := fst (run poly) in
    (forall u v, (cntT u v tris <= 1)%nat) /\
    (forall u v, pe poly u v -> cntT u v tris = 1%nat /\ cntT v u tris = 0%nat) /\
    (forall u v, ~ pe poly u v -> ~ pe poly v u -> cntT u v tris = cntT v u tris).
  Proof.
    intros Hnd Hn Hc tris.
    assert (H1 : forall u v, (cntT u v tris <= 1)%nat) by (apply clipv_at_most_once; exact Hnd).
    assert (Hnet : forall u v, (Z.of_nat (cntT u v tris) - Z.of_nat (cntT v u tris))%Z = fnet u v (ids poly)).
    { intros u v. rewrite <- net_tris_cnt. unfold tris. rewrite (complete_boundary poly Hn Hc). apply net_is_fnet. }
    assert (Hl : (3 <= length (ids poly))%nat) by (unfold ids; rewrite map_length; exact Hn).
    split; [exact H1|]. split.
    - intros u v Hpe. specialize (Hnet u v). rewrite (fnet_edge (ids poly) Hnd Hl u v Hpe) in Hnet.
      pose proof (H1 u v). pose proof (H1 v u). lia.
    - intros u v Hn1 Hn2. specialize (Hnet u v). rewrite (fnet_non_edge (ids poly) Hl u v Hn1 Hn2) in Hnet. lia.
  Qed.
End Tiling.

(* the entry points: polygon edges of enumerate v are i -> (i+1) mod n, those of its reversal (i+1) mod n -> i *)
Section EntryTiling.
  Context {T : Type} `{Num T}.
  Lemma ids_enumerate (v : list (pt2 T)) : ids (enumerate v) = nseq (length v).
  Proof. unfold ids. apply enumerate_fst. Qed.
  Lemma nth_nseq n j : (j < n)%nat -> nth j (nseq n) 0%Z = Z.of_nat j.
  Proof. intros Hj. unfold nseq. change 0%Z with (Z.of_nat 0). rewrite (map_nth Z.of_nat (seq 0 n) 0%nat j). rewrite seq_nth by exact Hj. reflexivity. Qed.
  Lemma pe_enumerate (v : list (pt2 T)) u w : (1 <= length v)%nat ->
    pe (enumerate v) u w <-> (0 <= u < Z.of_nat (length v) /\ w = (u + 1) mod Z.of_nat (length v))%Z.
  Proof.
    intros Hn. unfold pe. rewrite ids_enumerate. unfold pedge.
    assert (Hlen : length (nseq (length v)) = length v) by (unfold nseq; rewrite map_length, seq_length; reflexivity). rewrite Hlen. split.
    - intros (j & Hj & Hu & Hw). rewrite nth_nseq in Hu by exact Hj. rewrite nth_nseq in Hw by (apply next_lt'; exact Hj).
      subst u w. split; [lia|]. pose proof (next_i_cases (length v) j) as [[E1 E2]|[E1 E2]]; rewrite E2.
      + replace (Z.of_nat j + 1)%Z with (Z.of_nat (length v)) by lia. rewrite Z.mod_same by lia. reflexivity.
      + rewrite Z.mod_small by lia. lia.
    - intros (Hu & ->). exists (Z.to_nat u). split; [lia|]. rewrite nth_nseq by lia. rewrite nth_nseq by (apply next_lt'; lia).
      split; [lia|]. pose proof (next_i_cases (length v) (Z.to_nat u)) as [[E1 E2]|[E1 E2]]; rewrite E2.
      + replace (u + 1)%Z with (Z.of_nat (length v)) by lia. rewrite Z.mod_same by lia. reflexivity.
      + rewrite Z.mod_small by lia. lia.
  Qed.

  (* triangulate2d on a polygon with more than three vertices whose run is complete: the tiling in terms of indices *)
  Theorem triangulate2d_tiling (v : list (pt2 T)) : (3 < length v)%nat -> complete (enumerate v) ->
    let n := Z.of_nat (length v) in let tris := fst (run (enumerate v)) in
    triangulate2d v = Some (flat_map idx3 tris) /\
    (forall a b, (cntT a b tris <= 1)%nat) /\
    (forall i, (0 <= i < n)%Z -> cntT i ((i + 1) mod n) tris = 1%nat /\ cntT ((i + 1) mod n) i tris = 0%nat) /\
    (forall a b, ~ ((0 <= a < n)%Z /\ b = ((a + 1) mod n)%Z) -> ~ ((0 <= b < n)%Z /\ a = ((b + 1) mod n)%Z) -> cntT a b tris = cntT b a tris).
  Proof.
    intros Hn Hc n tris.
    assert (Hnd : NoDup (ids (enumerate v))) by (rewrite ids_enumerate; unfold nseq; apply FinFun.Injective_map_NoDup; [intros a b; apply Nat2Z.inj|apply seq_NoDup]).
    assert (Hl : (3 <= length (enumerate v))%nat) by (rewrite enumerate_length; lia).
    destruct (complete_tiling (enumerate v) Hnd Hl Hc) as (A & B & C).
    split; [unfold triangulate2d; destruct (Nat.ltb_spec 3 (length v)); [rewrite triangulate_run; reflexivity|lia]|].
    split; [exact A|]. split.
    - intros i Hi. apply B. apply pe_enumerate; [lia|]. split; [exact Hi|reflexivity].
    - intros a b H1 H2. apply C; rewrite pe_enumerate by lia; assumption.
  Qed.
End EntryTiling.
