(* Geom/Mesh_exact2.v -- the exact form of closedness for stacks of strips: rotate_extrude (partial and full) and sweep
   (open and closed). Every directed edge is used by at most one face and by exactly as many faces as its reverse.
   Axiom-free, generic in the number type. *)
From Coq Require Import ZArith List Bool Arith Lia FinFun.
From SCAD Require Import Base.Num Base.Vec Geom.Tri Geom.Tri_proofs Geom.Tri_exact Geom.Dim3 Geom.Mesh_proofs Geom.Tri_tiling Geom.Mesh_exact.
From SCAD Require Geom.Cyc.
Import ListNotations.
Local Open Scope Z_scope.

(* a reversed quad uses the same directed edges as the quad with the two rings exchanged *)
Lemma fcnt_quad_rev u v n ra rb p : fcnt u v (quad_rev n ra rb p) = fcnt u v (quad n rb ra p).
Proof. unfold fcnt, quad, quad_rev, Cyc.csum. cbn [Cyc.osum last]. lia. Qed.
Lemma mcnt_strip_rev u v n ra rb l : mcnt u v (map (quad_rev n ra rb) l) = mcnt u v (map (quad n rb ra) l).
Proof. rewrite !mcnt_map. f_equal. apply map_ext. intros p. apply fcnt_quad_rev. Qed.

(* what a strip between ring a (first index ra) and ring b (first index rb) can use: ring a forward, a rung up, ring b
   backward, a rung down *)
Definition strip_uses (n ra rb u v : Z) : Prop :=
  (ra <= u < ra + n /\ v = ra + (u - ra + 1) mod n) \/ (ra <= u < ra + n /\ v = rb + (u - ra)) \/
  (rb <= v < rb + n /\ u = rb + (v - rb + 1) mod n) \/ (rb <= u < rb + n /\ v = ra + (u - rb)).

(* strip_cnt for two disjoint rings in either order *)
Theorem strip_cnt' u v (k : nat) ra rb : (1 <= k)%nat -> (ra + Z.of_nat k <= rb \/ rb + Z.of_nat k <= ra) ->
  let c := mcnt u v (map (quad (Z.of_nat k) ra rb) (nseq k)) in
  (c <= 1)%nat /\ ((1 <= c)%nat -> strip_uses (Z.of_nat k) ra rb u v).
Proof.
  intros Hk Hdis c. unfold c. clear c. set (n := Z.of_nat k). rewrite mcnt_map.
  rewrite (map_ext _ _ (fun p => fcnt_quad u v n ra rb p)).
  rewrite (nsum_map_add (fun p => (ind (ra + p) (ra + (p + 1) mod n) u v + ind (ra + (p + 1) mod n) (rb + (p + 1) mod n) u v + ind (rb + (p + 1) mod n) (rb + p) u v)%nat)).
  rewrite (nsum_map_add (fun p => (ind (ra + p) (ra + (p + 1) mod n) u v + ind (ra + (p + 1) mod n) (rb + (p + 1) mod n) u v)%nat)).
  rewrite (nsum_map_add (fun p => ind (ra + p) (ra + (p + 1) mod n) u v)).
  set (A := nsum (map (fun p => ind (ra + p) (ra + (p + 1) mod n) u v) (nseq k))).
  set (B := nsum (map (fun p => ind (ra + (p + 1) mod n) (rb + (p + 1) mod n) u v) (nseq k))).
  set (C := nsum (map (fun p => ind (rb + (p + 1) mod n) (rb + p) u v) (nseq k))).
  set (D := nsum (map (fun p => ind (rb + p) (ra + p) u v) (nseq k))).
  assert (Hmod : forall p, 0 <= p < n -> 0 <= (p + 1) mod n < n) by (intros; apply Z.mod_pos_bound; lia).
  assert (HA : (A <= 1)%nat) by (apply (nsum_ind_le1 (fun p => ra + p) (fun p => ra + (p + 1) mod n)); [apply nseq_nodup|intros p q _ _ E; lia]).
  assert (HB : (B <= 1)%nat).
  { apply (nsum_ind_le1 (fun p => ra + (p + 1) mod n) (fun p => rb + (p + 1) mod n)); [apply nseq_nodup|].
    intros p q Hp Hq E. apply in_nseq in Hp. apply in_nseq in Hq. apply (succ_mod_inj n); [exact Hp|exact Hq|lia]. }
  assert (HC : (C <= 1)%nat).
  { apply (nsum_ind_le1 (fun p => rb + (p + 1) mod n) (fun p => rb + p)); [apply nseq_nodup|].
    intros p q Hp Hq E. apply in_nseq in Hp. apply in_nseq in Hq. apply (succ_mod_inj n); [exact Hp|exact Hq|lia]. }
  assert (HD : (D <= 1)%nat) by (apply (nsum_ind_le1 (fun p => rb + p) (fun p => ra + p)); [apply nseq_nodup|intros p q _ _ E; lia]).
  assert (SA : (1 <= A)%nat -> ra <= u < ra + n /\ v = ra + (u - ra + 1) mod n).
  { intros H1. apply nsum_pos_exists in H1. destruct H1 as [p [Hp Hi]]. apply in_nseq in Hp. pose proof (ind_le (ra + p) (ra + (p + 1) mod n) u v).
    assert (E : ind (ra + p) (ra + (p + 1) mod n) u v = 1%nat) by lia. apply ind_1 in E. destruct E as [<- <-]. split; [lia|]. replace (ra + p - ra) with p by lia. reflexivity. }
  assert (SB : (1 <= B)%nat -> ra <= u < ra + n /\ v = rb + (u - ra)).
  { intros H1. apply nsum_pos_exists in H1. destruct H1 as [p [Hp Hi]]. apply in_nseq in Hp. pose proof (ind_le (ra + (p + 1) mod n) (rb + (p + 1) mod n) u v). pose proof (Hmod p Hp).
    assert (E : ind (ra + (p + 1) mod n) (rb + (p + 1) mod n) u v = 1%nat) by lia. apply ind_1 in E. destruct E as [<- <-]. split; lia. }
  assert (SC : (1 <= C)%nat -> rb <= v < rb + n /\ u = rb + (v - rb + 1) mod n).
  { intros H1. apply nsum_pos_exists in H1. destruct H1 as [p [Hp Hi]]. apply in_nseq in Hp. pose proof (ind_le (rb + (p + 1) mod n) (rb + p) u v).
    assert (E : ind (rb + (p + 1) mod n) (rb + p) u v = 1%nat) by lia. apply ind_1 in E. destruct E as [<- <-]. split; [lia|]. replace (rb + p - rb) with p by lia. reflexivity. }
  assert (SD : (1 <= D)%nat -> rb <= u < rb + n /\ v = ra + (u - rb)).
  { intros H1. apply nsum_pos_exists in H1. destruct H1 as [p [Hp Hi]]. apply in_nseq in Hp. pose proof (ind_le (rb + p) (ra + p) u v).
    assert (E : ind (rb + p) (ra + p) u v = 1%nat) by lia. apply ind_1 in E. destruct E as [<- <-]. split; lia. }
  assert (Hmv : 0 <= (u - ra + 1) mod n < n) by (apply Z.mod_pos_bound; lia).
  assert (Hmv' : 0 <= (v - rb + 1) mod n < n) by (apply Z.mod_pos_bound; lia).
  split.
  - destruct A as [|[|A']]; destruct B as [|[|B']]; destruct C as [|[|C']]; destruct D as [|[|D']]; try lia;
      try (specialize (SA ltac:(lia))); try (specialize (SB ltac:(lia))); try (specialize (SC ltac:(lia))); try (specialize (SD ltac:(lia))); lia.
  - intros Hc. unfold strip_uses. destruct (Nat.eq_dec A 0); [destruct (Nat.eq_dec B 0); [destruct (Nat.eq_dec C 0)|]|].
    + right. right. right. apply SD. lia.
    + right. right. left. apply SC. lia.
    + right. left. apply SB. lia.
    + left. apply SA. lia.
Qed.

(* two applications of the cyclic successor never return to the start on a ring of at least three *)
Lemma succ_succ_ne n a : 3 <= n -> 0 <= a < n -> ((a + 1) mod n + 1) mod n <> a.
Proof.
  intros Hn Ha. destruct (Z.eq_dec (a + 1) n) as [E|E].
  - rewrite E, Z.mod_same by lia. rewrite Z.mod_small by lia. lia.
  - rewrite (Z.mod_small (a + 1)) by lia. destruct (Z.eq_dec (a + 2) n) as [E2|E2].
    + replace (a + 1 + 1) with n by lia. rewrite Z.mod_same by lia. lia.
    + rewrite Z.mod_small by lia. lia.
Qed.

(* ---- rings as blocks of n consecutive indices ---- *)
Definition in_ring (n R x : Z) : Prop := R * n <= x < R * n + n.
Lemma ring_unique n R R' x : 0 < n -> in_ring n R x -> in_ring n R' x -> R = R'.
Proof. unfold in_ring. intros Hn H1 H2. nia. Qed.
Lemma uses_rings n A B u v : 0 < n -> strip_uses n (A * n) (B * n) u v ->
  (in_ring n A u /\ in_ring n A v /\ v = A * n + (u - A * n + 1) mod n) \/ (in_ring n A u /\ in_ring n B v /\ v = B * n + (u - A * n)) \/
  (in_ring n B u /\ in_ring n B v /\ u = B * n + (v - B * n + 1) mod n) \/ (in_ring n B u /\ in_ring n A v /\ v = A * n + (u - B * n)).
Proof.
  intros Hn [[Hu Hv]|[[Hu Hv]|[[Hv Hu]|[Hu Hv]]]]; unfold in_ring.
  - left. pose proof (Z.mod_pos_bound (u - A * n + 1) n Hn). repeat split; lia.
  - right. left. repeat split; lia.
  - right. right. left. pose proof (Z.mod_pos_bound (v - B * n + 1) n Hn). repeat split; lia.
  - right. right. right. repeat split; lia.
Qed.

(* two strips whose rings are arranged like the links of a chain never use the same directed edge *)
Lemma uses_exclusive n A B A' B' u v : 3 <= n -> A <> B -> A' <> B' -> A <> A' -> B <> B' -> ~ (A = B' /\ B = A') ->
  strip_uses n (A * n) (B * n) u v -> strip_uses n (A' * n) (B' * n) u v -> False.
Proof.
  intros Hn HAB HAB' HAA HBB H2 U1 U2. assert (Hn0 : 0 < n) by lia.
  apply (uses_rings n A B u v Hn0) in U1. apply (uses_rings n A' B' u v Hn0) in U2.
  destruct U1 as [(Ru & Rv & E)|[(Ru & Rv & E)|[(Ru & Rv & E)|(Ru & Rv & E)]]];
  destruct U2 as [(Ru' & Rv' & E')|[(Ru' & Rv' & E')|[(Ru' & Rv' & E')|(Ru' & Rv' & E')]]];
    pose proof (ring_unique n _ _ u Hn0 Ru Ru') as Eu; pose proof (ring_unique n _ _ v Hn0 Rv Rv') as Ev; try congruence; try (apply H2; split; congruence).
  - (* ring forward in one, ring backward in the other, same ring *)
    subst B'. unfold in_ring in *. set (a := u - A * n) in *. assert (Ha : 0 <= a < n) by (unfold a; lia).
    assert (Hv : v - A * n = (a + 1) mod n) by lia. rewrite Hv in E'. apply (succ_succ_ne n a Hn Ha). unfold a in *. lia.
  - subst A'. unfold in_ring in *. set (a := u - B * n) in *. assert (Ha : 0 <= a < n) by (unfold a; lia).
    assert (Hv : v - B * n = (a + 1) mod n) by lia. rewrite Hv in E. apply (succ_succ_ne n a Hn Ha). unfold a in *. lia.
Qed.

(* ---- chains of strips ---- *)
Definition chain_faces (k : nat) (P : list (Z * Z)) : list (list Z) :=
  flat_map (fun AB => map (quad (Z.of_nat k) (fst AB * Z.of_nat k) (snd AB * Z.of_nat k)) (nseq k)) P.
Definition good_chain (P : list (Z * Z)) : Prop :=
  (forall AB, In AB P -> fst AB <> snd AB) /\ NoDup (map fst P) /\ NoDup (map snd P) /\
  (forall AB AB', In AB P -> In AB' P -> ~ (fst AB = snd AB' /\ snd AB = fst AB')).

Theorem chain_cnt u v (k : nat) (P : list (Z * Z)) : (3 <= k)%nat -> good_chain P ->
  (mcnt u v (chain_faces k P) <= 1)%nat /\
  ((1 <= mcnt u v (chain_faces k P))%nat -> exists AB, In AB P /\ strip_uses (Z.of_nat k) (fst AB * Z.of_nat k) (snd AB * Z.of_nat k) u v).
Proof.
  intros Hk. set (n := Z.of_nat k). induction P as [|[A B] P IH]; intros (Hne & Hnd1 & Hnd2 & H2c).
  - cbn. split; [lia|intros; lia].
  - unfold chain_faces. cbn [flat_map fst snd]. fold (chain_faces k P). fold n. rewrite mcnt_app.
    assert (HAB : A <> B) by (apply (Hne (A, B)); left; reflexivity).
    destruct (strip_cnt' u v k (A * n) (B * n) ltac:(lia) ltac:(unfold n; nia)) as [Hc1 Hs1]. cbv zeta in Hc1, Hs1. fold n in Hc1, Hs1.
    inversion Hnd1 as [|? ? Hn1 Hnd1']; subst. inversion Hnd2 as [|? ? Hn2 Hnd2']; subst. cbn [fst snd] in Hn1, Hn2.
    assert (Hg : good_chain P).
    { split; [intros AB Hin; apply Hne; right; exact Hin|]. split; [exact Hnd1'|]. split; [exact Hnd2'|]. intros AB AB' Hi Hi'. apply H2c; right; assumption. }
    destruct (IH Hg) as [Hc2 Hs2].
    set (c1 := mcnt u v (map (quad n (A * n) (B * n)) (nseq k))) in *. set (c2 := mcnt u v (chain_faces k P)) in *.
    assert (Hex : (1 <= c1)%nat -> (1 <= c2)%nat -> False).
    { intros G1 G2. specialize (Hs1 G1). destruct (Hs2 G2) as [[A' B'] [Hin U2]]. cbn [fst snd] in U2.
      apply (uses_exclusive n A B A' B' u v); try assumption; [unfold n; lia| | | |].
      - apply (Hne (A', B')). right. exact Hin.
      - intros E. apply Hn1. subst A'. apply (in_map fst P (A, B')). exact Hin.
      - intros E. apply Hn2. subst B'. apply (in_map snd P (A', B)). exact Hin.
      - apply (H2c (A, B) (A', B')); [left; reflexivity|right; exact Hin]. }
    split.
    + destruct c1 as [|[|c1']]; destruct c2 as [|[|c2']]; lia.
    + intros Hc. destruct (Nat.eq_dec c1 0) as [E|E].
      * destruct (Hs2 ltac:(lia)) as [AB [Hin U]]. exists AB. split; [right; exact Hin|exact U].
      * exists (A, B). split; [left; reflexivity|]. cbn [fst snd]. apply Hs1. lia.
Qed.

(* chains going up (j-1 -> j) and down (j -> j-1) along distinct ring numbers are good *)
Lemma good_chain_up (js : list Z) : NoDup js -> good_chain (map (fun j => (j - 1, j)) js).
Proof.
  intros Hnd. split; [intros AB Hin; apply in_map_iff in Hin; destruct Hin as [j [<- _]]; cbn; lia|]. split; [|split].
  - rewrite map_map. cbn [fst]. apply Injective_map_NoDup; [intros a b E; lia|exact Hnd].
  - rewrite map_map. cbn [snd]. rewrite map_id. exact Hnd.
  - intros AB AB' Hin Hin'. apply in_map_iff in Hin. destruct Hin as [j [<- _]]. apply in_map_iff in Hin'. destruct Hin' as [j' [<- _]]. cbn. lia.
Qed.
Lemma good_chain_down (js : list Z) : NoDup js -> good_chain (map (fun j => (j, j - 1)) js).
Proof.
  intros Hnd. split; [intros AB Hin; apply in_map_iff in Hin; destruct Hin as [j [<- _]]; cbn; lia|]. split; [|split].
  - rewrite map_map. cbn [fst]. rewrite map_id. exact Hnd.
  - rewrite map_map. cbn [snd]. apply Injective_map_NoDup; [intros a b E; lia|exact Hnd].
  - intros AB AB' Hin Hin'. apply in_map_iff in Hin. destruct Hin as [j [<- _]]. apply in_map_iff in Hin'. destruct Hin' as [j' [<- _]]. cbn. lia.
Qed.
Lemma nodup_snoc {A} (l : list A) x : NoDup l -> ~ In x l -> NoDup (l ++ [x]).
Proof.
  intros Hl Hx. rewrite <- (rev_involutive (l ++ [x])). apply NoDup_rev. rewrite rev_app_distr. cbn [rev app].
  constructor; [intros Hin; apply Hx; apply in_rev; exact Hin|apply NoDup_rev; exact Hl].
Qed.
(* closing a chain: one more link from ring a to ring b *)
Lemma good_chain_snoc P a b : good_chain P -> a <> b -> ~ In a (map fst P) -> ~ In b (map snd P) -> ~ In (b, a) P -> good_chain (P ++ [(a, b)]).
Proof.
  intros (Hne & Hn1 & Hn2 & H2) Hab Ha Hb Hba. split; [|split; [|split]].
  - intros AB Hin. apply in_app_or in Hin. destruct Hin as [Hin|[<-|[]]]; [apply Hne; exact Hin|exact Hab].
  - rewrite map_app. cbn [map fst]. apply nodup_snoc; assumption.
  - rewrite map_app. cbn [map snd]. apply nodup_snoc; assumption.
  - intros AB AB' Hin Hin'. apply in_app_or in Hin. apply in_app_or in Hin'.
    destruct Hin as [Hin|[<-|[]]]; destruct Hin' as [Hin'|[<-|[]]]; cbn [fst snd].
    + apply H2; assumption.
    + intros [E1 E2]. apply Hba. destruct AB as [x y]. cbn in *. subst. exact Hin.
    + intros [E1 E2]. apply Hba. destruct AB' as [x y]. cbn in *. subst. exact Hin'.
    + intros [E1 E2]. apply Hab. exact E1.
Qed.

(* ---- a chain of strips with (optionally) a forward cap on a ring that is never a source and a reversed cap on a ring
        that is never a target ---- *)
Section Capped.
  Context {T : Type} `{Num T}.

  (* support and direction facts about the two kinds of cap, from the C03 tiling theorem *)
  Lemma forward_cap_facts (pts : list (pt2 T)) (R u v : Z) : (3 <= length pts)%nat -> complete (enumerate pts) ->
    let n := Z.of_nat (length pts) in let c := mcnt u v (triples (triangulate (enumerate pts)) (R * n)) in
    (c <= 1)%nat /\ ((1 <= c)%nat -> in_ring n R u /\ in_ring n R v /\ u <> R * n + (v - R * n + 1) mod n).
  Proof.
    intros Hn Hc n c. unfold c. rewrite cap_mcnt.
    assert (Hnd : NoDup (ids (enumerate pts))) by apply enumerate_nodup.
    assert (Hl : (3 <= length (enumerate pts))%nat) by (rewrite enumerate_length; exact Hn).
    destruct (complete_tiling _ Hnd Hl Hc) as (B1 & B2 & _). split; [apply B1|]. intros H1.
    destruct (cntT_support _ _ _ H1) as [Hu Hv]. apply enumerate_range in Hu. apply enumerate_range in Hv. fold n in Hu, Hv.
    unfold in_ring. split; [lia|]. split; [lia|]. intros E.
    assert (Hpe : pe (enumerate pts) (v - R * n) (u - R * n)).
    { apply (proj2 (pe_enumerate pts (v - R * n) (u - R * n) ltac:(lia))). fold n. split; [lia|]. lia. }
    destruct (B2 _ _ Hpe) as [_ E0]. lia.
  Qed.
  Lemma reversed_cap_facts (pts : list (pt2 T)) (R u v : Z) : (3 <= length pts)%nat -> complete (rev (enumerate pts)) ->
    let n := Z.of_nat (length pts) in let c := mcnt u v (triples (triangulate (rev (enumerate pts))) (R * n)) in
    (c <= 1)%nat /\ ((1 <= c)%nat -> in_ring n R u /\ in_ring n R v /\ v <> R * n + (u - R * n + 1) mod n).
  Proof.
    intros Hn Hc n c. unfold c. rewrite cap_mcnt.
    assert (Hnd : NoDup (ids (rev (enumerate pts)))) by (unfold ids; rewrite map_rev; apply NoDup_rev; apply enumerate_nodup).
    assert (Hl : (3 <= length (rev (enumerate pts)))%nat) by (rewrite rev_length, enumerate_length; exact Hn).
    destruct (complete_tiling _ Hnd Hl Hc) as (B1 & B2 & _). split; [apply B1|]. intros H1.
    destruct (cntT_support _ _ _ H1) as [Hu Hv]. unfold ids in Hu, Hv. rewrite map_rev in Hu, Hv. apply in_rev in Hu. apply in_rev in Hv.
    apply enumerate_range in Hu. apply enumerate_range in Hv. fold n in Hu, Hv.
    unfold in_ring. split; [lia|]. split; [lia|]. intros E.
    assert (Hpe : pe (rev (enumerate pts)) (v - R * n) (u - R * n)).
    { unfold pe, ids. rewrite map_rev. apply pedge_rev. rewrite rev_involutive.
      apply (proj2 (pe_enumerate pts (u - R * n) (v - R * n) ltac:(lia))). fold n. split; [lia|]. lia. }
    destruct (B2 _ _ Hpe) as [_ E0]. lia.
  Qed.

  (* a chain strip never uses an edge of a forward cap's ring in the cap's own directions when that ring is never a source,
     nor of a reversed cap's ring when that ring is never a target *)
  Lemma chain_vs_forward_cap n (P : list (Z * Z)) (R u v : Z) : 0 < n -> (forall AB, In AB P -> fst AB <> snd AB) -> ~ In R (map fst P) ->
    (exists AB, In AB P /\ strip_uses n (fst AB * n) (snd AB * n) u v) -> in_ring n R u -> in_ring n R v ->
    u = R * n + (v - R * n + 1) mod n.
  Proof.
    intros Hn Hne HR [[A B] [Hin U]] Ru Rv. cbn [fst snd] in U. apply (uses_rings n A B u v Hn) in U. pose proof (Hne (A, B) Hin) as HAB. cbn [fst snd] in HAB.
    destruct U as [(Ru' & Rv' & E)|[(Ru' & Rv' & E)|[(Ru' & Rv' & E)|(Ru' & Rv' & E)]]].
    - exfalso. apply HR. rewrite (ring_unique n R A u Hn Ru Ru'). apply (in_map fst P (A, B)). exact Hin.
    - exfalso. pose proof (ring_unique n R A u Hn Ru Ru'). pose proof (ring_unique n R B v Hn Rv Rv'). congruence.
    - rewrite (ring_unique n R B v Hn Rv Rv'). exact E.
    - exfalso. pose proof (ring_unique n R B u Hn Ru Ru'). pose proof (ring_unique n R A v Hn Rv Rv'). congruence.
  Qed.
  Lemma chain_vs_reversed_cap n (P : list (Z * Z)) (R u v : Z) : 0 < n -> (forall AB, In AB P -> fst AB <> snd AB) -> ~ In R (map snd P) ->
    (exists AB, In AB P /\ strip_uses n (fst AB * n) (snd AB * n) u v) -> in_ring n R u -> in_ring n R v ->
    v = R * n + (u - R * n + 1) mod n.
  Proof.
    intros Hn Hne HR [[A B] [Hin U]] Ru Rv. cbn [fst snd] in U. apply (uses_rings n A B u v Hn) in U. pose proof (Hne (A, B) Hin) as HAB. cbn [fst snd] in HAB.
    destruct U as [(Ru' & Rv' & E)|[(Ru' & Rv' & E)|[(Ru' & Rv' & E)|(Ru' & Rv' & E)]]].
    - rewrite (ring_unique n R A u Hn Ru Ru'). exact E.
    - exfalso. pose proof (ring_unique n R A u Hn Ru Ru'). pose proof (ring_unique n R B v Hn Rv Rv'). congruence.
    - exfalso. apply HR. rewrite (ring_unique n R B v Hn Rv Rv'). apply (in_map snd P (A, B)). exact Hin.
    - exfalso. pose proof (ring_unique n R B u Hn Ru Ru'). pose proof (ring_unique n R A v Hn Rv Rv'). congruence.
  Qed.
End Capped.

(* the strips of the builders, rewritten as chains *)
Lemma strips_rev_as_chain u v (k : nat) (js : list Z) :
  mcnt u v (flat_map (fun j => map (quad_rev (Z.of_nat k) ((j - 1) * Z.of_nat k) (j * Z.of_nat k)) (nseq k)) js) =
  mcnt u v (chain_faces k (map (fun j => (j, j - 1)) js)).
Proof.
  induction js as [|j js IH]; [reflexivity|]. unfold chain_faces in *. cbn [flat_map map fst snd]. rewrite !mcnt_app, IH, mcnt_strip_rev. reflexivity.
Qed.
Lemma strips_as_chain u v (k : nat) (js : list Z) :
  mcnt u v (flat_map (fun j => map (quad (Z.of_nat k) ((j - 1) * Z.of_nat k) (j * Z.of_nat k)) (nseq k)) js) =
  mcnt u v (chain_faces k (map (fun j => (j - 1, j)) js)).
Proof.
  induction js as [|j js IH]; [reflexivity|]. unfold chain_faces in *. cbn [flat_map map fst snd]. rewrite !mcnt_app, IH. reflexivity.
Qed.
Lemma chain_faces_app k P Q : chain_faces k (P ++ Q) = chain_faces k P ++ chain_faces k Q.
Proof. unfold chain_faces. apply flat_map_app. Qed.

Definition ones_to (m : nat) : list Z := map (fun i => i + 1) (nseq m).      (* 1 .. m *)
Lemma ones_to_nodup m : NoDup (ones_to m).
Proof. unfold ones_to. apply Injective_map_NoDup; [intros a b E; lia|apply nseq_nodup]. Qed.
Lemma in_ones_to m j : In j (ones_to m) <-> 1 <= j <= Z.of_nat m.
Proof.
  unfold ones_to. rewrite in_map_iff. split.
  - intros [i [<- Hi]]. apply in_nseq in Hi. lia.
  - intros Hj. exists (j - 1). split; [lia|]. apply in_nseq. lia.
Qed.
Lemma ones_to_length m : length (ones_to m) = m.
Proof. unfold ones_to, nseq. rewrite !map_length, seq_length. reflexivity. Qed.
Lemma ones_to_S m : ones_to (S m) = ones_to m ++ [Z.of_nat (S m)].
Proof. unfold ones_to, nseq. rewrite seq_S, !map_app. cbn [map Nat.add]. f_equal. f_equal. lia. Qed.

Section Builders.
  Context {T : Type} `{Num T}.

  (* rotate_extrude: every directed edge in at most one face and in exactly as many faces as its reverse *)
  Theorem rotate_extrude_closed_exact (profile : list (pt2 T)) (degrees : T) (segments : Z) ph :
    rotate_extrude profile degrees segments = Some ph ->
    complete (enumerate profile) -> complete (rev (enumerate profile)) -> closed_exact (snd ph).
  Proof.
    intros E Hc1 Hc2. assert (Hnet : closed_net (snd ph)) by (apply (rotate_extrude_closed profile degrees segments ph E Hc1 Hc2)).
    intros u v. split; [|specialize (Hnet u v); rewrite mnet_cnt in Hnet; lia].
    revert E. unfold rotate_extrude, triangulate2d, triangulate2d_rev.
    destruct (negb _); [discriminate|]. destruct (Z.ltb_spec segments 3) as [|Hs]; [discriminate|].
    destruct (Nat.ltb_spec 3 (length profile)) as [Hn|]; [|discriminate].
    intros E. injection E as <-. cbn [snd].
    set (k := length profile). set (n := Z.of_nat k).
    set (m := Z.to_nat (segments - 1)). assert (Hm : segments - 1 = Z.of_nat m) by (unfold m; lia).
    fold (ones_to m).
    assert (Hk3 : (3 <= k)%nat) by (unfold k; lia). assert (Hn0 : 0 < n) by (unfold n; lia).
    destruct (negb (degrees =? nofZ 360)%num).
    - (* partial: forward cap on ring 0, the strips s -> s-1 for s = 1..segments, reversed cap on ring segments *)
      match goal with |- (mcnt u v (?capF ++ ?mid ++ ?last ++ ?capB) <= 1)%nat =>
        replace (capF ++ mid ++ last ++ capB) with (capF ++ (mid ++ last) ++ capB) by (rewrite <- !app_assoc; reflexivity);
        assert (Elast : last = flat_map (fun j => map (quad_rev n ((j - 1) * n) (j * n)) (nseq k)) [segments]) by (cbn [flat_map]; rewrite app_nil_r; reflexivity);
        rewrite Elast; rewrite <- flat_map_app end.
      rewrite !mcnt_app.
      change (mcnt u v (triples (triangulate (enumerate profile)) 0)) with (mcnt u v (triples (triangulate (enumerate profile)) (0 * n))).
      destruct (forward_cap_facts profile 0 u v ltac:(lia) Hc1) as [Hf1 Hf2]. cbv zeta in Hf1, Hf2. fold k n in Hf1, Hf2.
      destruct (reversed_cap_facts profile segments u v ltac:(lia) Hc2) as [Hb1 Hb2]. cbv zeta in Hb1, Hb2. fold k n in Hb1, Hb2.
      set (cf := mcnt u v (triples (triangulate (enumerate profile)) (0 * n))) in *.
      set (cb := mcnt u v (triples (triangulate (rev (enumerate profile))) (segments * n))) in *.
      assert (Ejs : ones_to m ++ [segments] = ones_to (S m)) by (rewrite ones_to_S; f_equal; f_equal; lia). rewrite Ejs.
      unfold n at 1 2 3. fold k. rewrite (strips_rev_as_chain u v k (ones_to (S m))).
      set (P := map (fun j => (j, j - 1)) (ones_to (S m))).
      assert (Hg : good_chain P) by (apply good_chain_down, ones_to_nodup).
      destruct (chain_cnt u v k P Hk3 Hg) as [Hc Hs']. fold n in Hs'. set (cc := mcnt u v (chain_faces k P)) in *.
      assert (HRf : ~ In 0 (map fst P)) by (unfold P; rewrite map_map; cbn [fst]; rewrite map_id; intros Hin; apply in_ones_to in Hin; lia).
      assert (HRb : ~ In segments (map snd P)).
      { unfold P. rewrite map_map. cbn [snd]. intros Hin. apply in_map_iff in Hin. destruct Hin as [j [Ej Hj]]. apply in_ones_to in Hj. lia. }
      destruct Hg as (Hne & _).
      destruct cf as [|[|cf']]; destruct cc as [|[|cc']]; destruct cb as [|[|cb']]; try lia; exfalso.
      + destruct (Hb2 ltac:(lia)) as (Ru & Rv & Hx). apply Hx. apply (chain_vs_reversed_cap n P segments u v Hn0 Hne HRb); [apply Hs'; lia|exact Ru|exact Rv].
      + destruct (Hf2 ltac:(lia)) as (Ru & Rv & _). destruct (Hb2 ltac:(lia)) as (Ru' & _ & _). pose proof (ring_unique n 0 segments u Hn0 Ru Ru'). lia.
      + destruct (Hf2 ltac:(lia)) as (Ru & Rv & Hx). apply Hx. apply (chain_vs_forward_cap n P 0 u v Hn0 Hne HRf); [apply Hs'; lia|exact Ru|exact Rv].
      + destruct (Hf2 ltac:(lia)) as (Ru & Rv & Hx). apply Hx. apply (chain_vs_forward_cap n P 0 u v Hn0 Hne HRf); [apply Hs'; lia|exact Ru|exact Rv].
    - (* full turn: the strips s -> s-1 for s = 1..segments-1 and the closing strip 0 -> segments-1 *)
      cbn [app]. rewrite mcnt_app.
      unfold n at 1 2 3. fold k. rewrite (strips_rev_as_chain u v k (ones_to m)). fold n.
      rewrite mcnt_strip_rev.
      assert (Elast : mcnt u v (map (quad n 0 ((segments - 1) * n)) (nseq k)) = mcnt u v (chain_faces k [(0, segments - 1)])).
      { unfold chain_faces. cbn [flat_map fst snd]. rewrite app_nil_r. fold n. rewrite Z.mul_0_l. reflexivity. }
      rewrite Elast, <- mcnt_app, <- chain_faces_app.
      assert (Hg : good_chain (map (fun j => (j, j - 1)) (ones_to m) ++ [(0, segments - 1)])).
      { apply good_chain_snoc; [apply good_chain_down, ones_to_nodup|lia| | |].
        - rewrite map_map. cbn [fst]. rewrite map_id. intros Hin. apply in_ones_to in Hin. lia.
        - rewrite map_map. cbn [snd]. intros Hin. apply in_map_iff in Hin. destruct Hin as [j [Ej Hj]]. apply in_ones_to in Hj. lia.
        - intros Hin. apply in_map_iff in Hin. destruct Hin as [j [Ej Hj]]. apply in_ones_to in Hj. injection Ej as E1 E2. lia. }
      apply (chain_cnt u v k _ Hk3 Hg).
  Qed.

  (* sweep: open paths (two caps) of any length >= 2, closed paths of at least three points; profiles of at least three points *)
  Theorem sweep_closed_exact (profile : list (pt2 T)) (path : list (pt3 T)) (twist : T) (closed : bool) ph :
    sweep profile path twist closed = Some ph -> (3 <= length profile)%nat -> (closed = true -> (3 <= length path)%nat) ->
    (closed = false -> complete (rev (enumerate profile)) /\
                       complete (enumerate (map (project (sweep_end_normal path)) (sweep_last_points profile path twist closed)))) ->
    closed_exact (snd ph).
  Proof.
    intros E Hk3 Hlen3 Hcaps.
    assert (Hnet : closed_net (snd ph)) by (apply (sweep_closed profile path twist closed ph E ltac:(lia) Hcaps)).
    intros u v. split; [|specialize (Hnet u v); rewrite mnet_cnt in Hnet; lia].
    revert E. unfold sweep. destruct (Z.ltb_spec (Z.of_nat (length path)) 2) as [|Hlen]; [discriminate|].
    set (k := length profile). set (n := Z.of_nat k). set (len := Z.of_nat (length path)) in *.
    assert (Hm : len - 2 = Z.of_nat (Z.to_nat (len - 2))) by lia. set (m := Z.to_nat (len - 2)) in *.
    fold (ones_to m). assert (Hn0 : 0 < n) by (unfold n; lia).
    assert (Elen : len - 1 = Z.of_nat (S m)) by lia.
    destruct closed.
    - (* closed path: the strips s-1 -> s for s = 1..len-1 and the closing strip len-1 -> 0 *)
      intros E. injection E as <-. cbn [snd triples app].
      match goal with |- (mcnt u v (?mid ++ ?last ++ ?closing) <= 1)%nat =>
        replace (mid ++ last ++ closing) with ((mid ++ last) ++ closing) by (rewrite <- !app_assoc; reflexivity);
        assert (Elast : last = flat_map (fun j => map (quad n ((j - 1) * n) (j * n)) (nseq k)) [len - 1]) by (cbn [flat_map]; rewrite app_nil_r; reflexivity);
        rewrite Elast; rewrite <- flat_map_app end.
      assert (Ejs : ones_to m ++ [len - 1] = ones_to (S m)) by (rewrite ones_to_S; f_equal; f_equal; lia). rewrite Ejs.
      rewrite mcnt_app. unfold n at 1 2 3. fold k. rewrite (strips_as_chain u v k (ones_to (S m))). fold n.
      assert (Eclose : mcnt u v (map (quad n ((len - 1) * n) 0) (nseq k)) = mcnt u v (chain_faces k [(len - 1, 0)])).
      { unfold chain_faces. cbn [flat_map fst snd]. rewrite app_nil_r. fold n. rewrite Z.mul_0_l. reflexivity. }
      rewrite Eclose, <- mcnt_app, <- chain_faces_app.
      assert (H3 : 3 <= len) by (specialize (Hlen3 eq_refl); unfold len; lia).
      assert (Hg : good_chain (map (fun j => (j - 1, j)) (ones_to (S m)) ++ [(len - 1, 0)])).
      { apply good_chain_snoc; [apply good_chain_up, ones_to_nodup|lia| | |].
        - rewrite map_map. cbn [fst]. intros Hin. apply in_map_iff in Hin. destruct Hin as [j [Ej Hj]]. apply in_ones_to in Hj. lia.
        - rewrite map_map. cbn [snd]. rewrite map_id. intros Hin. apply in_ones_to in Hin. lia.
        - intros Hin. apply in_map_iff in Hin. destruct Hin as [j [Ej Hj]]. apply in_ones_to in Hj. injection Ej as E1 E2. lia. }
      apply (chain_cnt u v k _ Hk3 Hg).
    - (* open path: reversed cap on ring 0, the strips, forward cap of the projected last ring on ring len-1 *)
      destruct (Hcaps eq_refl) as [Hc1 Hc2]. clear Hcaps.
      unfold triangulate2d_rev, triangulate3d.
      destruct (Nat.ltb_spec 3 (length profile)) as [Hn|]; [|discriminate].
      assert (Hlp : length (sweep_last_points profile path twist false) = k) by (unfold sweep_last_points; rewrite !map_length; reflexivity).
      rewrite Hlp. fold k. destruct (Nat.ltb_spec 3 k); [|unfold k in *; lia].
      destruct (projectable (sweep_end_normal path)); [|discriminate].
      intros E. injection E as <-. cbn [snd].
      set (poly2 := map (project (sweep_end_normal path)) (sweep_last_points profile path twist false)) in *.
      assert (Hl2 : length poly2 = k) by (unfold poly2; rewrite map_length; exact Hlp).
      match goal with |- context [triples (triangulate (enumerate poly2)) (Z.of_nat (length ?Pts) - n)] => assert (Hoff : Z.of_nat (length Pts) - n = (len - 1) * n) end.
      { rewrite !app_length, !map_length, Hlp. fold k.
        rewrite (flat_map_const_length _ _ k) by (intros x; rewrite !map_length; reflexivity).
        rewrite ones_to_length. unfold n. nia. }
      rewrite Hoff.
      match goal with |- (mcnt u v (?capB ++ ?mid ++ ?last ++ ?capF) <= 1)%nat =>
        replace (capB ++ mid ++ last ++ capF) with (capB ++ (mid ++ last) ++ capF) by (rewrite <- !app_assoc; reflexivity);
        assert (Elast : last = flat_map (fun j => map (quad n ((j - 1) * n) (j * n)) (nseq k)) [len - 1]) by (cbn [flat_map]; rewrite app_nil_r; reflexivity);
        rewrite Elast; rewrite <- flat_map_app end.
      assert (Ejs : ones_to m ++ [len - 1] = ones_to (S m)) by (rewrite ones_to_S; f_equal; f_equal; lia). rewrite Ejs.
      rewrite !mcnt_app. unfold n at 1 2 3. fold k. rewrite (strips_as_chain u v k (ones_to (S m))). fold n.
      change (mcnt u v (triples (triangulate (rev (enumerate profile))) 0)) with (mcnt u v (triples (triangulate (rev (enumerate profile))) (0 * n))).
      destruct (reversed_cap_facts profile 0 u v ltac:(lia) Hc1) as [Hb1 Hb2]. cbv zeta in Hb1, Hb2. fold k n in Hb1, Hb2.
      destruct (forward_cap_facts poly2 (len - 1) u v ltac:(lia) Hc2) as [Hf1 Hf2]. cbv zeta in Hf1, Hf2. rewrite Hl2 in Hf1, Hf2. fold n in Hf1, Hf2.
      set (cb := mcnt u v (triples (triangulate (rev (enumerate profile))) (0 * n))) in *.
      set (cf := mcnt u v (triples (triangulate (enumerate poly2)) ((len - 1) * n))) in *.
      set (P := map (fun j => (j - 1, j)) (ones_to (S m))).
      assert (Hg : good_chain P) by (apply good_chain_up, ones_to_nodup).
      destruct (chain_cnt u v k P Hk3 Hg) as [Hc Hs']. fold n in Hs'. set (cc := mcnt u v (chain_faces k P)) in *.
      assert (HRb : ~ In 0 (map snd P)) by (unfold P; rewrite map_map; cbn [snd]; rewrite map_id; intros Hin; apply in_ones_to in Hin; lia).
      assert (HRf : ~ In (len - 1) (map fst P)).
      { unfold P. rewrite map_map. cbn [fst]. intros Hin. apply in_map_iff in Hin. destruct Hin as [j [Ej Hj]]. apply in_ones_to in Hj. lia. }
      destruct Hg as (Hne & _).
      destruct cb as [|[|cb']]; destruct cc as [|[|cc']]; destruct cf as [|[|cf']]; try lia; exfalso.
      + destruct (Hf2 ltac:(lia)) as (Ru & Rv & Hx). apply Hx. apply (chain_vs_forward_cap n P (len - 1) u v Hn0 Hne HRf); [apply Hs'; lia|exact Ru|exact Rv].
      + destruct (Hb2 ltac:(lia)) as (Ru & Rv & _). destruct (Hf2 ltac:(lia)) as (Ru' & _ & _). pose proof (ring_unique n 0 (len - 1) u Hn0 Ru Ru'). lia.
      + destruct (Hb2 ltac:(lia)) as (Ru & Rv & Hx). apply Hx. apply (chain_vs_reversed_cap n P 0 u v Hn0 Hne HRb); [apply Hs'; lia|exact Ru|exact Rv].
      + destruct (Hb2 ltac:(lia)) as (Ru & Rv & Hx). apply Hx. apply (chain_vs_reversed_cap n P 0 u v Hn0 Hne HRb); [apply Hs'; lia|exact Ru|exact Rv].
  Qed.
End Builders.
