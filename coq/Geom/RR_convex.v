(* Geom/RR_convex.v -- C07/C03/C04: ear clipping completes on the rounded rectangle, in both vertex orders, so its
   extrusion is closed and outward with no hypothesis on the caps. Over R.
   Seen from the two vertices on the top side -- the last one (r, h) and the first one (w - r, h) -- every edge of the
   outline that does not touch the apex turns clockwise (corner arcs: the three-sines identity; straight sides: direct),
   all other vertices lie strictly below the apex, hence all pairs of vertices are in angular order (Fan_convex). *)
From Coq Require Import Reals ZArith List Bool Arith Lra Lia Psatz.
From SCAD Require Import Base.Num Base.NumR Base.Trig_proofs Base.Vec Geom.Poly Geom.Tri Geom.Tri_proofs Geom.Dim2 Geom.Dim2_proofs Geom.Dim3 Geom.Mesh_proofs Geom.Tri_convex Geom.Simple Geom.RR_simple Geom.Fan_convex.
Import ListNotations.
Local Open Scope R_scope.

(* ---- all pairs in angular order from consecutive pairs, for points below the apex ---- *)
Lemma cross_transitive (a p q u : V2) : y2 p < y2 a -> y2 q < y2 a -> y2 u < y2 a ->
  orientR a p q < 0 -> orientR a q u < 0 -> orientR a p u < 0.
Proof.
  unfold orientR. destruct a as [ax ay], p as [px py], q as [qx qy], u as [ux uy]. cbn [x2 y2]. intros Hp Hq Hu H1 H2.
  (* (qy - ay) * cross(p,u) = (uy - ay) * cross(p,q) + (py - ay) * cross(q,u) *)
  assert (E : (qy - ay) * ((px - ax) * (uy - ay) - (ux - ax) * (py - ay))
            = (uy - ay) * ((px - ax) * (qy - ay) - (qx - ax) * (py - ay)) + (py - ay) * ((qx - ax) * (uy - ay) - (ux - ax) * (qy - ay))) by ring.
  nra.
Qed.
Lemma fan_neg (a : V2) (f : nat -> V2) (N : nat) :
  y2 (f 0%nat) = y2 a -> x2 a < x2 (f 0%nat) -> (forall i, (1 <= i < N)%nat -> y2 (f i) < y2 a) ->
  (forall i, (S i < N)%nat -> orientR a (f i) (f (S i)) < 0) -> forall i j, (i < j)%nat -> (j < N)%nat -> orientR a (f i) (f j) < 0.
Proof.
  intros H0y H0x Hb Hc i j Hij Hj. destruct i as [|i].
  - (* from the horizontal direction to any point below *)
    assert (Hy : y2 (f j) < y2 a) by (apply Hb; lia). unfold orientR. rewrite H0y. nra.
  - remember (j - S (S i))%nat as d eqn:Ed. revert j Hij Hj Ed. induction d as [|d IH]; intros j Hij Hj Ed.
    + replace j with (S (S i)) by lia. apply Hc. lia.
    + apply (cross_transitive a (f (S i)) (f (j - 1)%nat) (f j)); try (apply Hb; lia).
      * apply IH; lia.
      * replace j with (S (j - 1)) at 2 by lia. apply Hc. lia.
Qed.
Lemma cross_transitive_pos (a p q u : V2) : y2 p < y2 a -> y2 q < y2 a -> y2 u < y2 a ->
  0 < orientR a p q -> 0 < orientR a q u -> 0 < orientR a p u.
Proof.
  unfold orientR. destruct a as [ax ay], p as [px py], q as [qx qy], u as [ux uy]. cbn [x2 y2]. intros Hp Hq Hu H1 H2.
  assert (E : (qy - ay) * ((px - ax) * (uy - ay) - (ux - ax) * (py - ay))
            = (uy - ay) * ((px - ax) * (qy - ay) - (qx - ax) * (py - ay)) + (py - ay) * ((qx - ax) * (uy - ay) - (ux - ax) * (qy - ay))) by ring.
  nra.
Qed.
Lemma fan_pos (a : V2) (g : nat -> V2) (N : nat) :
  y2 (g 0%nat) = y2 a -> x2 (g 0%nat) < x2 a -> (forall i, (1 <= i < N)%nat -> y2 (g i) < y2 a) ->
  (forall i, (S i < N)%nat -> 0 < orientR a (g i) (g (S i))) -> forall i j, (i < j)%nat -> (j < N)%nat -> 0 < orientR a (g i) (g j).
Proof.
  intros H0y H0x Hb Hc i j Hij Hj. destruct i as [|i].
  - assert (Hy : y2 (g j) < y2 a) by (apply Hb; lia). unfold orientR. rewrite H0y. nra.
  - remember (j - S (S i))%nat as d eqn:Ed. revert j Hij Hj Ed. induction d as [|d IH]; intros j Hij Hj Ed.
    + replace j with (S (S i)) by lia. apply Hc. lia.
    + apply (cross_transitive_pos a (g (S i)) (g (j - 1)%nat) (g j)); try (apply Hb; lia).
      * apply IH; lia.
      * replace j with (S (j - 1)) at 2 by lia. apply Hc. lia.
Qed.

(* the winding test at every vertex, reversed list *)
Lemma locally_rev sigma (p : list vtxR) : locally sigma p -> locally (negb sigma) (rev p).
Proof.
  intros Hl i Hi. rewrite rev_length in Hi |- *. set (n := length p) in *.
  assert (E : forall t, (t < n)%nat -> pt_at (rev p) t = pt_at p (n - S t)) by (intros t Ht; unfold pt_at, nthv; rewrite rev_nth by exact Ht; reflexivity).
  assert (Hp : (prev_i n i < n)%nat) by (unfold prev_i; destruct (Nat.eqb_spec i 0); lia).
  assert (Hx : (next_i n i < n)%nat) by (unfold next_i; destruct (Nat.eqb_spec i (n - 1)); lia).
  rewrite (E i Hi), (E _ Hp), (E _ Hx).
  pose proof (Hl (n - S i)%nat ltac:(lia)) as H. fold n in H.
  assert (P1 : (n - S (prev_i n i) = next_i n (n - S i))%nat).
  { unfold prev_i, next_i. destruct (Nat.eqb_spec i 0), (Nat.eqb_spec (n - S i) (n - 1)); lia. }
  assert (P2 : (n - S (next_i n i) = prev_i n (n - S i))%nat).
  { unfold prev_i, next_i. destruct (Nat.eqb_spec i (n - 1)), (Nat.eqb_spec (n - S i) 0); lia. }
  rewrite P1, P2. unfold osign in *.
  replace (orientR (pt_at p (next_i n (n - S i))) (pt_at p (n - S i)) (pt_at p (prev_i n (n - S i))))
    with (- orientR (pt_at p (prev_i n (n - S i))) (pt_at p (n - S i)) (pt_at p (next_i n (n - S i)))) by (unfold orientR; ring).
  destruct sigma; cbn [negb]; lra.
Qed.

Section RRC.
  Variables (w h r : R) (s : Z).
  Hypothesis Hr : 0 < r.
  Hypothesis Hw : 2 * r < w.
  Hypothesis Hh : 2 * r < h.
  Hypothesis Hs : (1 <= s)%Z.
  Notation sn := (Z.to_nat s).
  Notation m := (S (Z.to_nat s)).
  Notation sg := (sg r s). Notation kp := (kp r s). Notation tau := (tau s). Notation V := (V w h r s).
  Notation sk := (sk r s Hr Hs).

  (* ---- three facts about two points t < t' of a quarter arc ---- *)
  Lemma dcos_as_dsin x : dcos x = dsin (90 - x).
  Proof. unfold Rminus. rewrite dsin_plus, dsin_90, dcos_90, dcos_neg, dsin_neg. ring. Qed.
  Lemma arc_pair t t' : (t < t')%nat -> (t' <= sn)%nat ->
    sg t < sg t' /\ kp t' < kp t /\
    sg t * kp t' - kp t * sg t' < 0 /\
    sg t * kp t' - kp t * sg t' + r * (sg t' - sg t) <= 0 /\ ((0 < t)%nat -> sg t * kp t' - kp t * sg t' + r * (sg t' - sg t) < 0) /\
    sg t * kp t' - kp t * sg t' + r * (kp t - kp t') <= 0 /\ ((t' < sn)%nat -> sg t * kp t' - kp t * sg t' + r * (kp t - kp t') < 0).
  Proof.
    intros Htt Ht'. unfold RR_simple.sg, RR_simple.kp.
    pose proof (tau_range s Hs t ltac:(lia)) as R1. pose proof (tau_range s Hs t' Ht') as R2. pose proof (tau_step s Hs t t' Htt) as St.
    set (a := tau t) in *. set (b := tau t') in *.
    assert (Sub : forall u v, dsin (u - v) = dsin u * dcos v - dcos u * dsin v) by (intros u v; unfold Rminus; rewrite dsin_plus, dcos_neg, dsin_neg; ring).
    assert (Hd : 0 < dsin (b - a)) by (apply dsin_pos; lra).
    assert (Hrr : 0 < r * r) by nra.
    (* sin b - sin a - sin (b - a) = - 4 sin(b/2) sin(a/2) sin((b-a)/2) *)
    assert (T1 : dsin b - dsin a - dsin (b - a) = - (4 * dsin (b / 2) * dsin (a / 2) * dsin ((b - a) / 2))).
    { pose proof (three_sines b (- a)) as H3. rewrite dsin_neg in H3. replace (b + - a) with (b - a) in H3 by ring.
      replace (- a / 2) with (- (a / 2)) in H3 by field. rewrite dsin_neg in H3. lra. }
    (* cos a - cos b - sin (b - a) = - 4 sin((90-a)/2) sin((90-b)/2) sin((b-a)/2) *)
    assert (T2 : dcos a - dcos b - dsin (b - a) = - (4 * dsin ((90 - a) / 2) * dsin ((90 - b) / 2) * dsin ((b - a) / 2))).
    { rewrite (dcos_as_dsin a), (dcos_as_dsin b). pose proof (three_sines (90 - a) (- (90 - b))) as H3. rewrite dsin_neg in H3.
      replace (90 - a + - (90 - b)) with (b - a) in H3 by ring. replace (- (90 - b) / 2) with (- ((90 - b) / 2)) in H3 by field. rewrite dsin_neg in H3. lra. }
    assert (Hh2 : 0 < dsin ((b - a) / 2)) by (apply dsin_pos; lra).
    assert (Hb2 : 0 < dsin (b / 2)) by (apply dsin_pos; lra).
    assert (Ha2 : 0 <= dsin (a / 2)) by (destruct (Req_dec a 0) as [->|]; [replace (0 / 2) with 0 by field; rewrite dsin_0; lra|left; apply dsin_pos; lra]).
    assert (Hca : 0 < dsin ((90 - a) / 2)) by (apply dsin_pos; lra).
    assert (Hcb : 0 <= dsin ((90 - b) / 2)) by (destruct (Req_dec b 90) as [->|]; [replace ((90 - 90) / 2) with 0 by field; rewrite dsin_0; lra|left; apply dsin_pos; lra]).
    assert (Ms : dsin a < dsin b).
    { rewrite !dsin_def. pose proof PI_RGT_0. apply sin_increasing_1; nra. }
    assert (Mc : dcos b < dcos a).
    { rewrite !dcos_def. pose proof PI_RGT_0. apply cos_decreasing_1; nra. }
    assert (X : r * dsin a * (r * dcos b) - r * dcos a * (r * dsin b) = - (r * r * dsin (b - a))) by (rewrite Sub; ring).
    repeat split.
    - nra.
    - nra.
    - rewrite X. nra.
    - replace (r * dsin a * (r * dcos b) - r * dcos a * (r * dsin b) + r * (r * dsin b - r * dsin a)) with (r * r * (dsin b - dsin a - dsin (b - a))) by (rewrite Sub; ring).
      rewrite T1. assert (0 <= dsin (b / 2) * dsin (a / 2) * dsin ((b - a) / 2)) by (apply Rmult_le_pos; [apply Rmult_le_pos; lra|lra]). nra.
    - intros Hpos. replace (r * dsin a * (r * dcos b) - r * dcos a * (r * dsin b) + r * (r * dsin b - r * dsin a)) with (r * r * (dsin b - dsin a - dsin (b - a))) by (rewrite Sub; ring).
      rewrite T1. assert (0 < a) by (unfold a; apply tau_pos; assumption). assert (0 < dsin (a / 2)) by (apply dsin_pos; lra).
      assert (0 < dsin (b / 2) * dsin (a / 2) * dsin ((b - a) / 2)) by (apply Rmult_lt_0_compat; [apply Rmult_lt_0_compat; lra|lra]). nra.
    - replace (r * dsin a * (r * dcos b) - r * dcos a * (r * dsin b) + r * (r * dcos a - r * dcos b)) with (r * r * (dcos a - dcos b - dsin (b - a))) by (rewrite Sub; ring).
      rewrite T2. assert (0 <= dsin ((90 - a) / 2) * dsin ((90 - b) / 2) * dsin ((b - a) / 2)) by (apply Rmult_le_pos; [apply Rmult_le_pos; lra|lra]). nra.
    - intros Hlt. replace (r * dsin a * (r * dcos b) - r * dcos a * (r * dsin b) + r * (r * dcos a - r * dcos b)) with (r * r * (dcos a - dcos b - dsin (b - a))) by (rewrite Sub; ring).
      rewrite T2. assert (b < 90) by (unfold b; apply tau_lt; assumption). assert (0 < dsin ((90 - b) / 2)) by (apply dsin_pos; lra).
      assert (0 < dsin ((90 - a) / 2) * dsin ((90 - b) / 2) * dsin ((b - a) / 2)) by (apply Rmult_lt_0_compat; [apply Rmult_lt_0_compat; lra|lra]). nra.
  Qed.

  Notation Vn := (Vn w h r s). Notation nq := RR_simple.nq.
  Definition apexA : V2 := Pt2 r h.            (* the last vertex *)
  Definition apexB : V2 := Pt2 (w - r) h.      (* the first vertex *)
  Lemma sn_pos' : (1 <= sn)%nat. Proof. lia. Qed.

  Ltac ends' :=
    let E0 := fresh "E" in let E1 := fresh "E" in
    destruct (proj1 (proj2 (proj2 (proj2 (proj2 (sk 0%nat ltac:(lia)))))) eq_refl) as [E0 E1];
    let F0 := fresh "F" in let F1 := fresh "F" in
    destruct (proj2 (proj2 (proj2 (proj2 (proj2 (sk sn ltac:(lia)))))) eq_refl) as [F0 F1].

  (* every edge that does not touch the apex turns clockwise seen from it *)
  Lemma edge_from_A q t : (q < 4)%nat -> (t <= sn)%nat -> ~ (q = 3%nat /\ (sn <= S t)%nat) -> orientR apexA (V q t) (Vn q t) < 0.
  Proof.
    intros Hq Ht Hex. pose proof sn_pos' as Hsn. unfold RR_simple.Vn, apexA.
    destruct (Nat.ltb_spec t sn) as [Hlt|Hge].
    - destruct (arc_pair t (S t) ltac:(lia) ltac:(lia)) as (M1 & M2 & X & T1 & T1s & T2 & T2s).
      destruct (sk t ltac:(lia)) as (B1 & B2 & _). destruct (sk (S t) ltac:(lia)) as (B3 & B4 & _).
      destruct q as [|[|[|[|q]]]]; try lia; unfold orientR, RR_simple.V; cbn [x2 y2].
      + nra.
      + nra.
      + nra.
      + assert (Hs' : (S t < sn)%nat) by (destruct (Nat.lt_ge_cases (S t) sn); [assumption|exfalso; apply Hex; split; [reflexivity|assumption]]).
        specialize (T2s Hs'). nra.
    - assert (t = sn) by lia. subst t. ends'.
      destruct q as [|[|[|[|q]]]]; try lia; cbn [nq]; unfold orientR, RR_simple.V; cbn [x2 y2]; try nra.
  Qed.
  Lemma edge_from_B q t : (q < 4)%nat -> (t <= sn)%nat -> ~ (q = 0%nat /\ t = 0%nat) -> ~ (q = 3%nat /\ t = sn) -> orientR apexB (V q t) (Vn q t) < 0.
  Proof.
    intros Hq Ht Hex1 Hex2. pose proof sn_pos' as Hsn. unfold RR_simple.Vn, apexB.
    destruct (Nat.ltb_spec t sn) as [Hlt|Hge].
    - destruct (arc_pair t (S t) ltac:(lia) ltac:(lia)) as (M1 & M2 & X & T1 & T1s & T2 & T2s).
      destruct (sk t ltac:(lia)) as (B1 & B2 & _). destruct (sk (S t) ltac:(lia)) as (B3 & B4 & _).
      destruct q as [|[|[|[|q]]]]; try lia; unfold orientR, RR_simple.V; cbn [x2 y2].
      + assert (Hpos : (0 < t)%nat) by (destruct t; [exfalso; apply Hex1; split; reflexivity|lia]). specialize (T1s Hpos). nra.
      + nra.
      + nra.
      + nra.
    - assert (t = sn) by lia. subst t. ends'.
      destruct q as [|[|[|[|q]]]]; try lia; cbn [nq]; unfold orientR, RR_simple.V; cbn [x2 y2]; try nra.
  Qed.

  (* ---- the corners: where an arc meets a straight side ---- *)
  Definition pq (q : nat) : nat := match q with 0%nat => 3%nat | 1%nat => 0%nat | 2%nat => 1%nat | _ => 2%nat end.
  Lemma corner_start q : (q < 4)%nat -> orientR (V (pq q) sn) (V q 0) (V q 1) < 0.
  Proof.
    intros Hq. ends'. destruct (arc_pair 0%nat 1%nat ltac:(lia) ltac:(lia)) as (M1 & M2 & _).
    destruct (sk 1%nat ltac:(lia)) as (B1 & B2 & _).
    destruct q as [|[|[|[|q]]]]; try lia; cbn [pq]; unfold orientR, RR_simple.V; cbn [x2 y2]; nra.
  Qed.
  Lemma corner_end q : (q < 4)%nat -> orientR (V q (sn - 1)) (V q sn) (V (nq q) 0) < 0.
  Proof.
    intros Hq. ends'. destruct (arc_pair (sn - 1)%nat sn ltac:(lia) ltac:(lia)) as (M1 & M2 & _).
    destruct (sk (sn - 1)%nat ltac:(lia)) as (B1 & B2 & _).
    destruct q as [|[|[|[|q]]]]; try lia; cbn [nq]; unfold orientR, RR_simple.V; cbn [x2 y2]; nra.
  Qed.
  Lemma below_top q t : (q < 4)%nat -> (t <= sn)%nat -> ~ (q = 0%nat /\ t = 0%nat) -> ~ (q = 3%nat /\ t = sn) -> y2 (V q t) < h.
  Proof.
    intros Hq Ht N1 N2. destruct (sk t Ht) as (B1 & B2 & B3 & B4 & _).
    destruct q as [|[|[|[|q]]]]; try lia; unfold RR_simple.V; cbn [y2].
    - assert (kp t < r) by (apply B4; destruct t; [exfalso; apply N1; split; reflexivity|lia]). lra.
    - lra.
    - lra.
    - assert (sg t < r) by (apply B3; destruct (Nat.lt_ge_cases t sn); [assumption|exfalso; apply N2; split; [reflexivity|lia]]). lra.
  Qed.

  Lemma prev_is q t : (q < 4)%nat -> (t <= sn)%nat ->
    prev_i (4 * m) (q * m + t) = if Nat.eqb t 0 then (pq q * m + sn)%nat else (q * m + (t - 1))%nat.
  Proof.
    intros Hq Ht. unfold prev_i. destruct (Nat.eqb_spec t 0) as [->|Hn].
    - destruct (Nat.eqb_spec (q * m + 0) 0) as [E|E].
      + assert (q = 0%nat) by nia. subst q. cbn [pq]. lia.
      + destruct q as [|[|[|[|q]]]]; cbn [pq]; lia.
    - destruct (Nat.eqb_spec (q * m + t) 0); lia.
  Qed.

  Section WithPts.
    Variable pts : list V2.
    Hypothesis Hpts : rounded_rect w h r s false = Some pts.
    Let P (i : nat) : V2 := vertex pts i.
    Lemma len_pts : length pts = (4 * m)%nat. Proof. exact (proj1 (rr_vertices w h r s Hs pts Hpts)). Qed.
    Lemma P_is q t : (q < 4)%nat -> (t <= sn)%nat -> P (q * m + t) = V q t.
    Proof. intros Hq Ht. apply (proj2 (rr_vertices w h r s Hs pts Hpts)); [exact Hq|lia]. Qed.
    Lemma pt_enum i : (i < 4 * m)%nat -> pt_at (enumerate pts) i = P i.
    Proof. intros Hi. unfold pt_at, P, vertex. apply enumerate_nthv. rewrite len_pts. exact Hi. Qed.
    Lemma P_next q t : (q < 4)%nat -> (t <= sn)%nat -> P (next_i (4 * m) (q * m + t)) = Vn q t.
    Proof.
      intros Hq Ht. rewrite (next_is_nxt s Hs) by assumption. unfold RR_simple.nxt, RR_simple.Vn. destruct (Nat.ltb_spec t sn) as [Hlt|Hge].
      - apply P_is; [exact Hq|lia].
      - replace (nq q * m)%nat with (nq q * m + 0)%nat by lia. apply P_is; [destruct q as [|[|[|q]]]; cbn [nq]; lia|lia].
    Qed.

    Lemma rr_locally : locally false (enumerate pts).
    Proof.
      intros i Hi. rewrite enumerate_length, len_pts in Hi |- *. unfold osign.
      destruct (decompose s Hs i Hi) as (q & t & Hq & Ht & ->).
      assert (Hp : (prev_i (4 * m) (q * m + t) < 4 * m)%nat) by (rewrite prev_is by assumption; destruct (Nat.eqb t 0); destruct q as [|[|[|[|q]]]]; cbn [pq]; lia).
      assert (Hx : (next_i (4 * m) (q * m + t) < 4 * m)%nat) by (unfold next_i; destruct (Nat.eqb_spec (q * m + t) (4 * m - 1)); lia).
      rewrite (pt_enum _ Hp), (pt_enum _ Hx), (pt_enum (q * m + t)) by lia.
      rewrite (P_is q t Hq Ht), (P_next q t Hq Ht), prev_is by assumption. pose proof sn_pos' as Hsn.
      destruct (Nat.eqb_spec t 0) as [->|Hn0].
      - (* arc start *)
        rewrite (P_is (pq q) sn) by (destruct q as [|[|[|[|q]]]]; cbn [pq]; lia).
        unfold RR_simple.Vn. destruct (Nat.ltb_spec 0 sn); [|lia]. apply corner_start. exact Hq.
      - rewrite (P_is q (t - 1)) by lia. unfold RR_simple.Vn. destruct (Nat.ltb_spec t sn) as [Hlt|Hge].
        + (* inside an arc *)
          rewrite (orient_arc w h r s). apply (O3_neg r s Hr Hs); lia.
        + assert (t = sn) by lia. subst t. apply corner_end. exact Hq.
    Qed.

    Lemma rr_fan : fan false (enumerate pts).
    Proof.
      intros i j Hij Hj. rewrite enumerate_length, len_pts in Hj |- *. unfold osign.
      rewrite !pt_enum by lia.
      assert (Ha : P (4 * m - 1) = apexA).
      { replace (4 * m - 1)%nat with (3 * m + sn)%nat by lia. rewrite (P_is 3%nat sn) by lia. ends'. unfold RR_simple.V, apexA. f_equal; lra. }
      rewrite Ha. apply (fan_neg apexA P (4 * m - 1)%nat); try assumption.
      - replace 0%nat with (0 * m + 0)%nat by lia. rewrite (P_is 0%nat 0%nat) by lia. ends'. unfold RR_simple.V, apexA. cbn [y2]. lra.
      - replace 0%nat with (0 * m + 0)%nat by lia. rewrite (P_is 0%nat 0%nat) by lia. ends'. unfold RR_simple.V, apexA. cbn [x2]. lra.
      - intros k Hk. destruct (decompose s Hs k ltac:(lia)) as (q & t & Hq & Ht & ->). rewrite (P_is q t Hq Ht). unfold apexA. cbn [y2].
        apply below_top; try assumption; intros [-> E]; subst t; lia.
      - intros k Hk. destruct (decompose s Hs k ltac:(lia)) as (q & t & Hq & Ht & ->). rewrite (P_is q t Hq Ht).
        replace (S (q * m + t)) with (next_i (4 * m) (q * m + t)) by (unfold next_i; destruct (Nat.eqb_spec (q * m + t) (4 * m - 1)); lia).
        rewrite (P_next q t Hq Ht). apply edge_from_A; try assumption. intros [-> E]. lia.
    Qed.

    Lemma rr_fan_rev : fan true (rev (enumerate pts)).
    Proof.
      intros i j Hij Hj. rewrite rev_length, enumerate_length, len_pts in Hj |- *. unfold osign.
      assert (E : forall t, (t < 4 * m)%nat -> pt_at (rev (enumerate pts)) t = P (4 * m - S t)).
      { intros t Ht. unfold pt_at at 1, nthv. rewrite rev_nth by (rewrite enumerate_length, len_pts; exact Ht).
        rewrite enumerate_length, len_pts. apply (pt_enum (4 * m - S t)). lia. }
      rewrite !E by lia. replace (4 * m - S (4 * m - 1))%nat with 0%nat by lia.
      assert (Hb : P 0 = apexB).
      { replace 0%nat with (0 * m + 0)%nat at 1 by lia. rewrite (P_is 0%nat 0%nat) by lia. ends'. unfold RR_simple.V, apexB. f_equal; lra. }
      rewrite Hb. set (g := fun k : nat => P (4 * m - S k)).
      change (P (4 * m - S i)) with (g i). change (P (4 * m - S j)) with (g j).
      apply (fan_pos apexB g (4 * m - 1)%nat); try assumption.
      - unfold g. replace (4 * m - 1)%nat with (3 * m + sn)%nat by lia. rewrite (P_is 3%nat sn) by lia. ends'. unfold RR_simple.V, apexB. cbn [y2]. lra.
      - unfold g. replace (4 * m - 1)%nat with (3 * m + sn)%nat by lia. rewrite (P_is 3%nat sn) by lia. ends'. unfold RR_simple.V, apexB. cbn [x2]. lra.
      - intros k Hk. unfold g. destruct (decompose s Hs (4 * m - S k)%nat ltac:(lia)) as (q & t & Hq & Ht & Ek). rewrite Ek, (P_is q t Hq Ht). unfold apexB. cbn [y2].
        apply below_top; try assumption; intros [-> Et]; subst t; lia.
      - intros k Hk. unfold g. destruct (decompose s Hs (4 * m - S (S k))%nat ltac:(lia)) as (q & t & Hq & Ht & Ek).
        replace (4 * m - S k)%nat with (next_i (4 * m) (q * m + t)) by (rewrite <- Ek; unfold next_i; destruct (Nat.eqb_spec (4 * m - S (S k)) (4 * m - 1)); lia).
        rewrite Ek, (P_is q t Hq Ht), (P_next q t Hq Ht).
        assert (Hneg : orientR apexB (V q t) (Vn q t) < 0) by (apply edge_from_B; try assumption; intros [-> Et]; subst t; lia).
        replace (orientR apexB (Vn q t) (V q t)) with (- orientR apexB (V q t) (Vn q t)) by (unfold orientR; ring). lra.
    Qed.

    Theorem rr_caps_complete : complete (enumerate pts) /\ complete (rev (enumerate pts)).
    Proof.
      assert (Hl : (3 <= length (enumerate pts))%nat) by (rewrite enumerate_length, len_pts; lia).
      split.
      - apply (fanconv_complete false); [split; [exact rr_fan|exact rr_locally]|exact Hl].
      - apply (fanconv_complete true); [split; [exact rr_fan_rev|apply (locally_rev false); exact rr_locally]|rewrite rev_length; exact Hl].
    Qed.
  End WithPts.
End RRC.

(* ---- moving the outline changes nothing ---- *)
Lemma orient_translate (v a b c : V2) : orientR (pt2_add a v) (pt2_add b v) (pt2_add c v) = orientR a b c.
Proof. unfold orientR, pt2_add. cbn [x2 y2 nadd NumR]. ring. Qed.
Lemma fanconv_moved sigma (p p' : list vtxR) (v : V2) : length p' = length p ->
  (forall i, (i < length p)%nat -> pt_at p' i = pt2_add (pt_at p i) v) -> fanconv sigma p -> fanconv sigma p'.
Proof.
  intros Hlen Hpt [Hf Hl]. split.
  - intros i j Hij Hj. rewrite Hlen in Hj |- *. rewrite !Hpt by lia. rewrite orient_translate. apply Hf; assumption.
  - intros i Hi. rewrite Hlen in Hi |- *.
    assert (Hp : (prev_i (length p) i < length p)%nat) by (unfold prev_i; destruct (Nat.eqb_spec i 0); lia).
    assert (Hx : (next_i (length p) i < length p)%nat) by (unfold next_i; destruct (Nat.eqb_spec i (length p - 1)); lia).
    rewrite !Hpt by assumption. rewrite orient_translate. apply Hl. exact Hi.
Qed.
Lemma pt_enum_map (l : list V2) (v : V2) i : (i < length l)%nat ->
  pt_at (enumerate (pt2s_translate l v)) i = pt2_add (pt_at (enumerate l) i) v.
Proof.
  intros Hi. unfold pt_at, pt2s_translate. rewrite (enumerate_nthv _ i (pt2_add (Pt2 0 0) v)) by (rewrite map_length; exact Hi).
  rewrite (enumerate_nthv l i (Pt2 0 0)) by exact Hi. apply (map_nth (fun q => pt2_add q v)).
Qed.

Theorem rounded_rect_fanconv (w h r : R) (segments : Z) (center : bool) pts : 0 < r -> 2 * r < w -> 2 * r < h -> (1 <= segments)%Z ->
  rounded_rect w h r segments center = Some pts ->
  (3 <= length pts)%nat /\ fanconv false (enumerate pts) /\ fanconv true (rev (enumerate pts)).
Proof.
  intros Hr Hw Hh Hs E.
  assert (Base : forall pts0, rounded_rect w h r segments false = Some pts0 ->
            (3 <= length pts0)%nat /\ fanconv false (enumerate pts0) /\ fanconv true (rev (enumerate pts0))).
  { intros pts0 E0. split; [rewrite (len_pts w h r segments Hs pts0 E0); lia|]. split.
    - split; [apply (rr_fan w h r segments Hr Hw Hh Hs pts0 E0)|apply (rr_locally w h r segments Hr Hw Hh Hs pts0 E0)].
    - split; [apply (rr_fan_rev w h r segments Hr Hw Hh Hs pts0 E0)|apply (locally_rev false); apply (rr_locally w h r segments Hr Hw Hh Hs pts0 E0)]. }
  destruct center; [|apply Base; exact E].
  destruct (rounded_rect w h r segments false) as [pts0|] eqn:E0.
  - assert (Hp : pts = pt2s_translate pts0 (Pt2 (- w / 2) (- h / 2))).
    { unfold rounded_rect in E, E0. cbn [nzero nofZ nneg nsub ndiv ntwo NumR] in E, E0.
      destruct (arc (Pt2 0 r) 90 segments); [|discriminate]. destruct (arc (Pt2 r 0) 90 segments); [|discriminate].
      destruct (arc (Pt2 (- 0) (- r)) 90 segments); [|discriminate]. destruct (arc (Pt2 (- r) 0) 90 segments); [|discriminate].
      inversion E. inversion E0. reflexivity. }
    set (v := Pt2 (- w / 2) (- h / 2)) in *. subst pts. destruct (Base pts0 eq_refl) as (Hl0 & F1 & F2).
    assert (Hlm : length (enumerate (pt2s_translate pts0 v)) = length (enumerate pts0)) by (rewrite !enumerate_length; unfold pt2s_translate; apply map_length).
    split; [unfold pt2s_translate; rewrite map_length; exact Hl0|]. split.
    + apply (fanconv_moved false (enumerate pts0) _ v Hlm); [|exact F1].
      intros i Hi. rewrite enumerate_length in Hi. apply pt_enum_map. exact Hi.
    + apply (fanconv_moved true (rev (enumerate pts0)) _ v); [rewrite !rev_length; exact Hlm| |exact F2].
      intros i Hi. rewrite rev_length in Hi. unfold pt_at at 1, nthv. rewrite rev_nth by (rewrite Hlm; exact Hi). rewrite Hlm.
      unfold pt_at at 1, nthv. rewrite rev_nth by exact Hi.
      change (snd (nth (length (enumerate pts0) - S i) (enumerate (pt2s_translate pts0 v)) dv)) with (pt_at (enumerate (pt2s_translate pts0 v)) (length (enumerate pts0) - S i)).
      change (snd (nth (length (enumerate pts0) - S i) (enumerate pts0) dv)) with (pt_at (enumerate pts0) (length (enumerate pts0) - S i)).
      apply pt_enum_map. rewrite enumerate_length in *. lia.
  - exfalso. unfold rounded_rect in E, E0.
    destruct (arc _ _ _); [|discriminate]. destruct (arc _ _ _); [|discriminate]. destruct (arc _ _ _); [|discriminate]. destruct (arc _ _ _); discriminate.
Qed.

Theorem rounded_rect_caps_complete (w h r : R) (segments : Z) (center : bool) pts : 0 < r -> 2 * r < w -> 2 * r < h -> (1 <= segments)%Z ->
  rounded_rect w h r segments center = Some pts -> complete (enumerate pts) /\ complete (rev (enumerate pts)).
Proof.
  intros Hr Hw Hh Hs E. destruct (rounded_rect_fanconv w h r segments center pts Hr Hw Hh Hs E) as (Hl & F1 & F2). split.
  - apply (fanconv_complete false); [exact F1|rewrite enumerate_length; exact Hl].
  - apply (fanconv_complete true); [exact F2|rewrite rev_length, enumerate_length; exact Hl].
Qed.

(* the extrusion of a rounded rectangle: closed (exact form) and outward, with no hypothesis on the caps *)
From SCAD Require Import Geom.Mesh_exact Geom.Volume_proofs Geom.Dim2_winding.
Theorem rounded_rect_prism_unconditional (w h r : R) (segments : Z) (center : bool) pts (height : R) ph :
  0 < r -> 2 * r < w -> 2 * r < h -> (1 <= segments)%Z -> rounded_rect w h r segments center = Some pts ->
  linear_extrude pts height = Some ph -> closed_exact (snd ph) /\ (0 < height -> vol6 (fst ph) (snd ph) < 0).
Proof.
  intros Hr Hw Hh Hs E Ex. destruct (rounded_rect_caps_complete w h r segments center pts Hr Hw Hh Hs E) as [C1 C2]. split.
  - apply (linear_extrude_closed_exact pts height ph Ex C2 C1).
  - intros Hpos. rewrite (linear_extrude_volume pts height ph Ex C1). pose proof (rounded_rect_clockwise w h r segments center pts Hr Hw Hh Hs E). nra.
Qed.
