(* Geom/Tri_convex.v -- on the real reading, ear clipping completes on every strictly convex polygon: the first vertex is
   always an ear, so the run returns n - 2 triangles. Hence all C03/C04 theorems that assume a complete cap hold
   unconditionally for convex profiles (every circle, inscribed and circumscribed polygon). Over R. *)
From Coq Require Import Reals ZArith List Bool Arith Lra Lia.
From SCAD Require Import Base.Num Base.NumR Base.Vec Geom.Tri Geom.Tri_proofs Geom.Dim3 Geom.Mesh_proofs.
Import ListNotations.
Local Open Scope R_scope.
Notation vtxR := (@vtx R).
Notation V2 := (pt2 R).

Definition orientR (a b c : V2) : R := (x2 b - x2 a) * (y2 c - y2 a) - (x2 c - x2 a) * (y2 b - y2 a).
Definition pt_at (p : list vtxR) (i : nat) : V2 := snd (nthv p i).
(* all increasing triples of positions have the same strict orientation *)
Definition conv (sigma : bool) (p : list vtxR) : Prop :=
  forall i j k, (i < j)%nat -> (j < k)%nat -> (k < length p)%nat ->
    if sigma then 0 < orientR (pt_at p i) (pt_at p j) (pt_at p k) else orientR (pt_at p i) (pt_at p j) (pt_at p k) < 0.

Lemma orient_rot a b c : orientR b c a = orientR a b c.
Proof. unfold orientR. ring. Qed.
Lemma orient_swap a b c : orientR a c b = - orientR a b c.
Proof. unfold orientR. ring. Qed.
Lemma is_ccw_orient (a b c : V2) : is_ccw a b c = Rltb 0 (orientR a b c).
Proof. reflexivity. Qed.

Lemma conv_sign sigma p i j k : conv sigma p -> (i < j)%nat -> (j < k)%nat -> (k < length p)%nat ->
  Rltb 0 (orientR (pt_at p i) (pt_at p j) (pt_at p k)) = sigma /\ orientR (pt_at p i) (pt_at p j) (pt_at p k) <> 0.
Proof.
  intros Hc Hij Hjk Hk. specialize (Hc i j k Hij Hjk Hk). destruct sigma.
  - split; [apply Rltb_true; exact Hc|lra].
  - split; [apply Rltb_false; lra|lra].
Qed.

(* the winding test at any vertex of a strictly convex polygon gives its orientation *)
Lemma conv_is_ccw sigma p i : conv sigma p -> (3 <= length p)%nat -> (i < length p)%nat ->
  is_ccw (pt_at p (prev_i (length p) i)) (pt_at p i) (pt_at p (next_i (length p) i)) = sigma.
Proof.
  intros Hc Hn Hi. rewrite is_ccw_orient. unfold prev_i, next_i.
  destruct (Nat.eqb_spec i 0) as [->|Hi0].
  - destruct (Nat.eqb_spec 0 (length p - 1)); [lia|]. cbn [Nat.add].
    replace (orientR (pt_at p (length p - 1)) (pt_at p 0) (pt_at p 1)) with (orientR (pt_at p 0) (pt_at p 1) (pt_at p (length p - 1))) by (unfold orientR; ring).
    apply (conv_sign sigma p 0 1 (length p - 1) Hc); lia.
  - destruct (Nat.eqb_spec i (length p - 1)) as [->|Hil].
    + replace (orientR (pt_at p (length p - 1 - 1)) (pt_at p (length p - 1)) (pt_at p 0)) with (orientR (pt_at p 0) (pt_at p (length p - 1 - 1)) (pt_at p (length p - 1))) by (unfold orientR; ring).
      apply (conv_sign sigma p 0 (length p - 1 - 1) (length p - 1) Hc); lia.
    + apply (conv_sign sigma p (i - 1) i (i + 1) Hc); lia.
Qed.

(* in_triangle on the reals: false as soon as the triangle is non-degenerate and the point lies strictly on the far side of
   the edge c -> a *)
Lemma in_triangle_false (q a b c : V2) : orientR c a b <> 0 -> orientR c a q / orientR c a b < 0 -> in_triangle q a b c = false.
Proof.
  intros Hd Hb. unfold in_triangle. cbn [neqb nltb nzero none_ nsub nadd nmul ndiv NumR].
  set (denom := (y2 b - y2 c) * (x2 a - x2 c) + (x2 c - x2 b) * (y2 a - y2 c)).
  assert (Ed : denom = orientR c a b) by (unfold denom, orientR; ring).
  destruct (Reqb denom 0) eqn:E0; [apply Reqb_true in E0; rewrite Ed in E0; contradiction|].
  destruct (Rltb (1 / denom * ((y2 b - y2 c) * (x2 q - x2 c) + (x2 c - x2 b) * (y2 q - y2 c))) 0); [reflexivity|].
  assert (Eb : 1 / denom * ((y2 c - y2 a) * (x2 q - x2 c) + (x2 a - x2 c) * (y2 q - y2 c)) = orientR c a q / orientR c a b).
  { replace ((y2 c - y2 a) * (x2 q - x2 c) + (x2 a - x2 c) * (y2 q - y2 c)) with (orientR c a q) by (unfold orientR; ring). rewrite Ed. field. exact Hd. }
  rewrite Eb. destruct (Rltb (orientR c a q / orientR c a b) 0) eqn:E1; [reflexivity|]. apply Rltb_false in E1. lra.
Qed.

(* vertex 0 of a strictly convex polygon is an ear for the implementation's own test *)
Lemma conv_first_is_ear sigma p : conv sigma p -> (3 <= length p)%nat -> is_ear sigma p 0 = true.
Proof.
  intros Hc Hn. unfold is_ear. set (n := length p).
  assert (Hprev : prev_i n 0 = (n - 1)%nat) by reflexivity.
  assert (Hnext : next_i n 0 = 1%nat) by (unfold next_i; destruct (Nat.eqb_spec 0 (n - 1)); [unfold n in *; lia|reflexivity]).
  rewrite Hprev, Hnext.
  pose proof (conv_is_ccw sigma p 0 Hc Hn ltac:(lia)) as Hw. fold n in Hw. rewrite Hprev, Hnext in Hw. unfold pt_at in Hw. rewrite Hw.
  rewrite eqb_reflx. apply forallb_forall. intros j Hj. apply in_seq in Hj.
  destruct (Nat.eqb_spec j (n - 1)); [reflexivity|]. destruct (Nat.eqb_spec j 1); [reflexivity|]. destruct (Nat.eqb_spec j 0); [reflexivity|].
  cbn [orb]. apply negb_true_iff.
  (* a = q_{n-1}, b = q_0, c = q_1, the other vertex q_j with 1 < j < n-1 *)
  fold (pt_at p j) (pt_at p (n - 1)) (pt_at p 0) (pt_at p 1).
  assert (H1 : orientR (pt_at p 1) (pt_at p (n - 1)) (pt_at p 0) = orientR (pt_at p 0) (pt_at p 1) (pt_at p (n - 1))) by (unfold orientR; ring).
  assert (H2 : orientR (pt_at p 1) (pt_at p (n - 1)) (pt_at p j) = - orientR (pt_at p 1) (pt_at p j) (pt_at p (n - 1))) by (unfold orientR; ring).
  pose proof (Hc 0%nat 1%nat (n - 1)%nat ltac:(lia) ltac:(unfold n; lia) ltac:(unfold n; lia)) as S1.
  pose proof (Hc 1%nat j (n - 1)%nat ltac:(lia) ltac:(unfold n in *; lia) ltac:(unfold n; lia)) as S2.
  apply in_triangle_false; rewrite ?H1, ?H2.
  - destruct sigma; lra.
  - destruct sigma.
    + apply Ropp_lt_cancel. rewrite Ropp_0. unfold Rdiv. rewrite <- Ropp_mult_distr_l, Ropp_involutive. apply Rmult_lt_0_compat; [exact S2|apply Rinv_0_lt_compat; exact S1].
    + unfold Rdiv. assert (Hinv : / orientR (pt_at p 0) (pt_at p 1) (pt_at p (n - 1)) < 0) by (apply Rinv_lt_0_compat; exact S1). nra.
Qed.
Lemma conv_find_ear sigma p : conv sigma p -> (3 <= length p)%nat -> find_ear sigma p = Some 0%nat.
Proof.
  intros Hc Hn. unfold find_ear. destruct (length p) as [|m] eqn:E; [lia|]. cbn [seq find].
  rewrite (conv_first_is_ear sigma p Hc); [reflexivity|lia].
Qed.
Lemma conv_tail sigma a p : conv sigma (a :: p) -> conv sigma p.
Proof. intros Hc i j k Hij Hjk Hk. specialize (Hc (S i) (S j) (S k)). cbn [length] in Hc. unfold pt_at, nthv in *. cbn [nth] in Hc. apply Hc; lia. Qed.

(* the loop on a strictly convex polygon: one triangle per vertex beyond two *)
Lemma conv_clipv sigma : forall fuel p acc, conv sigma p -> (2 <= length p)%nat -> (length p <= fuel + 2)%nat ->
  length (fst (clipv fuel sigma p acc)) = (length acc + (length p - 2))%nat.
Proof.
  induction fuel as [|f IH]; intros p acc Hc H2 Hf.
  - cbn [clipv fst]. lia.
  - cbn [clipv]. destruct (Nat.ltb_spec (length p) 3) as [H3|H3]; [cbn [fst]; lia|].
    rewrite (conv_find_ear sigma p Hc H3). destruct p as [|a p]; [cbn in H3; lia|].
    unfold remove_nth. cbn [firstn skipn app]. rewrite IH.
    + rewrite app_length. cbn [length] in *. lia.
    + apply (conv_tail sigma a). exact Hc.
    + cbn [length] in *. lia.
    + cbn [length] in *. lia.
Qed.

Theorem convex_complete sigma (p : list vtxR) : conv sigma p -> (3 <= length p)%nat -> complete p.
Proof.
  intros Hc Hn. unfold complete. rewrite triangulate_run, flat_idx3_length. unfold run.
  assert (Hr : ref_ccw p = sigma).
  { unfold ref_ccw. apply (conv_is_ccw sigma p (leftmost p) Hc Hn).
    (* the scan returns a position of the polygon *)
    unfold leftmost. set (n := length p). assert (G : forall l st, (fst st < n)%nat -> (forall i, In i l -> (i < n)%nat) ->
        (fst (fold_left (fun st i => let '(idx, lft) := st in let q := snd (nthv p i) in
                                      if (x2 q <? x2 lft)%num || ((x2 q =? x2 lft)%num && (y2 q <? y2 lft)%num) then (i, q) else st) l st) < n)%nat).
    { induction l as [|i l IH]; intros st Hst Hl; [exact Hst|]. cbn [fold_left]. apply IH; [|intros i' Hi'; apply Hl; right; exact Hi'].
      destruct st as [idx lft]. cbn [fst] in *. destruct (_ || _); cbn [fst]; [apply Hl; left; reflexivity|exact Hst]. }
    apply G; [cbn [fst]; unfold n; lia|]. intros i Hi. apply in_seq in Hi. unfold n. lia. }
  rewrite Hr. rewrite (conv_clipv sigma (length p) p [] Hc); [cbn [length]; lia|lia|lia].
Qed.

(* reversing the vertex order flips the orientation *)
Lemma conv_rev sigma (p : list vtxR) : conv sigma p -> conv (negb sigma) (rev p).
Proof.
  intros Hc i j k Hij Hjk Hk. rewrite rev_length in Hk. set (n := length p) in *.
  assert (E : forall t, (t < n)%nat -> pt_at (rev p) t = pt_at p (n - S t)) by (intros t Ht; unfold pt_at, nthv; rewrite rev_nth by exact Ht; reflexivity).
  rewrite !E by lia. specialize (Hc (n - S k)%nat (n - S j)%nat (n - S i)%nat ltac:(lia) ltac:(lia) ltac:(lia)).
  replace (orientR (pt_at p (n - S i)) (pt_at p (n - S j)) (pt_at p (n - S k))) with (- orientR (pt_at p (n - S k)) (pt_at p (n - S j)) (pt_at p (n - S i))) by (unfold orientR; ring).
  destruct sigma; cbn [negb]; lra.
Qed.

(* ---- the circle outline is strictly convex and clockwise ---- *)
From SCAD Require Import Base.Trig_proofs Base.Vec_proofs Base.Rot_proofs Geom.Poly Geom.Dim2 Geom.Dim2_proofs.
Lemma orient_as_crosses (a b c : V2) : orientR a b c = cross2 a b + cross2 b c + cross2 c a.
Proof. unfold orientR, cross2. cbn [nsub nmul NumR]. ring. Qed.

Lemma enumerate_nthv (c : list V2) (t : nat) (d : V2) : (t < length c)%nat -> snd (nthv (enumerate c) t) = nth t c d.
Proof.
  intros Ht. unfold nthv, enumerate.
  assert (Hl : length (combine (map Z.of_nat (seq 0 (length c))) c) = length c) by (rewrite combine_length, map_length, seq_length; apply Nat.min_id).
  rewrite (nth_indep _ _ (0%Z, d)) by (rewrite Hl; exact Ht).
  rewrite combine_nth by (rewrite map_length, seq_length; reflexivity). reflexivity.
Qed.

Theorem circle_convex (radius : R) (segments : Z) (c : list V2) : (3 <= segments)%Z -> radius <> 0 ->
  circle radius segments = Some c -> conv false (enumerate c).
Proof.
  intros Hs Hr Hc. set (n := IZR segments). assert (Hn : 3 <= n) by (unfold n; apply IZR_le; exact Hs).
  assert (Hpts : c = map (circle_pt radius n) (zseq segments)).
  { unfold circle, arc in Hc. cbn [nleb neqb nofZ nzero NumR] in Hc.
    destruct (Rleb 360 360) eqn:E1; [|apply Rleb_false in E1; lra]. destruct (Reqb 360 360) eqn:E2; [|apply Reqb_false in E2; lra]. inversion Hc. reflexivity. }
  assert (Hlen : length c = Z.to_nat segments) by (rewrite Hpts, map_length, zseq_length by lia; reflexivity).
  assert (Hnth : forall t, (t < Z.to_nat segments)%nat -> pt_at (enumerate c) t = circle_pt radius n (Z.of_nat t)).
  { intros t Ht. unfold pt_at. rewrite (enumerate_nthv c t (Pt2 0 0)) by (rewrite Hlen; exact Ht).
    rewrite Hpts. rewrite (nth_map' (circle_pt radius n) _ t _ 0%Z) by (rewrite zseq_length by lia; exact Ht). rewrite zseq_nth by exact Ht. reflexivity. }
  intros i j k Hij Hjk Hk. rewrite enumerate_length, Hlen in Hk. rewrite !Hnth by lia. rewrite orient_as_crosses. unfold circle_pt. rewrite !cross2_rotated.
  assert (Hl : pt2_len2 (Pt2 radius 0) = radius * radius) by (unfold pt2_len2, pt2_dot; cbn [x2 y2 nadd nmul NumR]; ring). rewrite Hl.
  set (th := 360 / n). assert (Hth : 0 < th) by (unfold th; apply Rdiv_lt_0_compat; lra).
  set (x := IZR (Z.of_nat j - Z.of_nat i) * th). set (y := IZR (Z.of_nat k - Z.of_nat j) * th).
  replace (IZR (Z.of_nat j) * - 360 / n - IZR (Z.of_nat i) * - 360 / n) with (- x) by (unfold x, th; rewrite minus_IZR; field; lra).
  replace (IZR (Z.of_nat k) * - 360 / n - IZR (Z.of_nat j) * - 360 / n) with (- y) by (unfold y, th; rewrite minus_IZR; field; lra).
  replace (IZR (Z.of_nat i) * - 360 / n - IZR (Z.of_nat k) * - 360 / n) with (x + y) by (unfold x, y, th; rewrite !minus_IZR; field; lra).
  rewrite !dsin_neg.
  assert (E : radius * radius * - dsin x + radius * radius * - dsin y + radius * radius * dsin (x + y) = - (radius * radius * (dsin x + dsin y - dsin (x + y)))) by ring.
  rewrite E, three_sines.
  assert (Hx : 1 <= IZR (Z.of_nat j - Z.of_nat i)) by (apply IZR_le; lia). assert (Hy : 1 <= IZR (Z.of_nat k - Z.of_nat j)) by (apply IZR_le; lia).
  assert (Hxy : IZR (Z.of_nat j - Z.of_nat i) + IZR (Z.of_nat k - Z.of_nat j) <= n - 1).
  { rewrite <- plus_IZR. unfold n. replace (IZR segments - 1) with (IZR (segments - 1)) by (rewrite minus_IZR; ring). apply IZR_le. lia. }
  assert (Hnth' : n * th = 360) by (unfold th; field; lra).
  assert (P1 : 0 < dsin (x / 2)) by (apply dsin_pos; unfold x; split; nra).
  assert (P2 : 0 < dsin (y / 2)) by (apply dsin_pos; unfold y; split; nra).
  assert (P3 : 0 < dsin ((x + y) / 2)) by (apply dsin_pos; unfold x, y; split; nra).
  assert (0 < radius * radius) by nra.
  assert (0 < dsin (x / 2) * dsin (y / 2) * dsin ((x + y) / 2)) by (apply Rmult_lt_0_compat; [apply Rmult_lt_0_compat|]; assumption). nra.
Qed.

(* hence both caps of every cylinder are complete (real reading) *)
Theorem circle_caps_complete (radius : R) (segments : Z) (c : list V2) : (3 <= segments)%Z -> radius <> 0 ->
  circle radius segments = Some c -> complete (enumerate c) /\ complete (rev (enumerate c)).
Proof.
  intros Hs Hr Hc. pose proof (circle_convex radius segments c Hs Hr Hc) as Hcv.
  assert (Hlen : (3 <= length (enumerate c))%nat).
  { rewrite enumerate_length. unfold circle, arc in Hc. cbn [nleb neqb nofZ nzero NumR] in Hc.
    destruct (Rleb 360 360) eqn:E1; [|apply Rleb_false in E1; lra]. destruct (Reqb 360 360) eqn:E2; [|apply Reqb_false in E2; lra]. inversion Hc. rewrite map_length, zseq_length by lia. lia. }
  split; [apply (convex_complete false); assumption|apply (convex_complete (negb false)); [apply conv_rev; exact Hcv|rewrite rev_length; exact Hlen]].
Qed.

(* every cylinder (real reading): exact closedness and outward orientation, with no hypothesis on the caps *)
From SCAD Require Import Geom.Mesh_exact Geom.Volume_proofs.
Theorem cylinder_unconditional (r h : R) (segments : Z) ph : cylinder r h segments = Some ph -> r <> 0 ->
  closed_exact (snd ph) /\ (0 < h -> vol6 (fst ph) (snd ph) < 0).
Proof.
  intros E Hr. unfold cylinder in E. destruct (circle r segments) as [c|] eqn:Ec; [|discriminate].
  assert (Hs : (3 <= segments)%Z).
  { unfold linear_extrude, triangulate2d in E. destruct (triangulate2d_rev c); [|discriminate]. destruct (Nat.ltb_spec 3 (length c)) as [Hl|]; [|discriminate].
    unfold circle, arc in Ec. cbn [nleb neqb nofZ nzero NumR] in Ec.
    destruct (Rleb 360 360) eqn:E1; [|apply Rleb_false in E1; lra]. destruct (Reqb 360 360) eqn:E2; [|apply Reqb_false in E2; lra]. inversion Ec as [Hc]. rewrite <- Hc in Hl.
    rewrite map_length in Hl. unfold zseq in Hl. rewrite map_length, seq_length in Hl. lia. }
  destruct (circle_caps_complete r segments c Hs Hr Ec) as [C1 C2]. split.
  - apply (linear_extrude_closed_exact c h ph E C2 C1).
  - intros Hh. rewrite (linear_extrude_volume c h ph E C1). pose proof (circle_clockwise r segments c Hs Hr Ec). nra.
Qed.

(* what a cylinder is, in full: the circle of n points on radius r at z = 0 and at z = h, and its signed volume in closed form
   (six times the volume = 3 h n r^2 sin(360/n), negative under the clockwise-outward convention) *)
Theorem cylinder_described (r h : R) (segments : Z) ph : cylinder r h segments = Some ph -> r <> 0 ->
  exists c, circle r segments = Some c /\ length c = Z.to_nat segments /\ (forall p, In p c -> pt2_len2 p = r * r) /\
    fst ph = map (fun p => Pt3 (x2 p) (y2 p) 0) c ++ map (fun p => Pt3 (x2 p) (y2 p) h) c /\
    vol6 (fst ph) (snd ph) = - (3 * h * (IZR segments * (r * r) * dsin (360 / IZR segments))).
Proof.
  intros E Hr. pose proof E as E0. unfold cylinder in E. destruct (circle r segments) as [c|] eqn:Ec; [|discriminate].
  assert (Hs : (3 <= segments)%Z).
  { unfold linear_extrude, triangulate2d in E. destruct (triangulate2d_rev c); [|discriminate]. destruct (Nat.ltb_spec 3 (length c)) as [Hl|]; [|discriminate].
    unfold circle, arc in Ec. cbn [nleb neqb nofZ nzero NumR] in Ec.
    destruct (Rleb 360 360) eqn:E1; [|apply Rleb_false in E1; lra]. destruct (Reqb 360 360) eqn:E2; [|apply Reqb_false in E2; lra]. inversion Ec as [Hc]. rewrite <- Hc in Hl.
    rewrite map_length in Hl. unfold zseq in Hl. rewrite map_length, seq_length in Hl. lia. }
  destruct (circle_caps_complete r segments c Hs Hr Ec) as [C1 C2].
  exists c. split; [reflexivity|]. split; [|split; [|split]].
  - destruct c as [|p0 c']; [unfold linear_extrude, triangulate2d in E; destruct (triangulate2d_rev []); discriminate|].
    exact (proj1 (circle_on_radius r segments (p0 :: c') 0%nat ltac:(lia) Ec ltac:(cbn; lia))).
  - intros p Hp. destruct (In_nth c p (Pt2 r 0) Hp) as [i [Hi Hn]]. rewrite <- Hn.
    exact (proj2 (circle_on_radius r segments c i ltac:(lia) Ec Hi)).
  - unfold linear_extrude in E. destruct (triangulate2d_rev c); [|discriminate]. destruct (triangulate2d c); [|discriminate].
    inversion E. reflexivity.
  - rewrite (linear_extrude_volume c h ph E C1). rewrite (circle_area r segments c ltac:(lia) Ec). ring.
Qed.

(* the hexagonal heads and nuts of the thread module (and every circumscribed or inscribed prism): the outline is a circle
   of another radius, so the prism is a cylinder; closed and outward with no hypothesis on the caps *)
Theorem polygon_prism_unconditional (n : Z) (r h : R) pts ph : r <> 0 ->
  (inscribed_polygon n r = Some pts \/ circumscribed_polygon n r = Some pts) -> linear_extrude pts h = Some ph ->
  closed_exact (snd ph) /\ (0 < h -> vol6 (fst ph) (snd ph) < 0).
Proof.
  intros Hr Hp E.
  assert (Hn : (4 <= n)%Z).
  { assert (Hc : exists R', circle R' n = Some pts) by (destruct Hp as [Hp|Hp]; [exists r; exact Hp|exists (r / dcos (180 / IZR n)); exact Hp]).
    destruct Hc as [R' Hc]. unfold linear_extrude, triangulate2d in E. destruct (triangulate2d_rev pts); [|discriminate]. destruct (Nat.ltb_spec 3 (length pts)) as [Hl|]; [|discriminate].
    unfold circle, arc in Hc. cbn [nleb neqb nofZ nzero NumR] in Hc.
    destruct (Rleb 360 360) eqn:E1; [|apply Rleb_false in E1; lra]. destruct (Reqb 360 360) eqn:E2; [|apply Reqb_false in E2; lra]. inversion Hc as [Hq]. rewrite <- Hq in Hl.
    rewrite map_length in Hl. unfold zseq in Hl. rewrite map_length, seq_length in Hl. lia. }
  destruct Hp as [Hp|Hp].
  - apply (cylinder_unconditional r h n ph); [|exact Hr]. unfold cylinder. unfold inscribed_polygon in Hp. rewrite Hp. exact E.
  - assert (Hn3 : 4 <= IZR n) by (apply IZR_le; exact Hn).
    assert (Hcos : 0 < dcos (180 / IZR n)).
    { rewrite Trig_proofs.dcos_def. pose proof PI_RGT_0. apply cos_gt_0.
      - apply Rlt_trans with 0; [lra|]. apply Rdiv_lt_0_compat; [|lra]. apply Rmult_lt_0_compat; [apply Rdiv_lt_0_compat; lra|lra].
      - apply (Rmult_lt_reg_r (180 / PI)); [apply Rdiv_lt_0_compat; lra|]. field_simplify; [|lra|split; lra].
        apply (Rmult_lt_reg_r (IZR n)); [lra|]. field_simplify; lra. }
    apply (cylinder_unconditional (r / dcos (180 / IZR n)) h n ph).
    + unfold cylinder. unfold circumscribed_polygon, inscribed_polygon in Hp. cbn [ndiv nofZ NumR] in Hp. rewrite Hp. exact E.
    + intros E0. apply Rmult_integral_contrapositive_currified in E0; [exact E0|exact Hr|]. apply Rinv_neq_0_compat. lra.
Qed.
