(* Geom/Dim2_proofs.v -- profiles and Bezier curves/chains on the real reading (C07, C08). *)
From Coq Require Import Reals ZArith Lra Lia Nsatz List.
From SCAD Require Import Base.Num Base.NumR Base.Trig_proofs Base.Vec Base.Vec_proofs Base.Rot_proofs Geom.Poly Geom.Dim2.
Import ListNotations.
Local Open Scope R_scope.

Ltac dred := lazy beta iota zeta delta
  [quadratic_point cubic_point quadratic_point3 cubic_point3 handle handle3 chamfer
   pt2_add pt2_sub pt2_mul pt2_as_pt3 pt3_add pt3_sub pt3_mul cross2 tri_area2 pt2_dot pt2_len2
   x2 y2 x3 y3 z3 nadd nmul nsub ndiv nneg none_ nzero ntwo nthree nofZ NumR]; fold NumR.

Lemma nth_map' {A B} (f : A -> B) l i d d' : (i < length l)%nat -> nth i (map f l) d = f (nth i l d').
Proof. intros Hi. rewrite (nth_indep _ d (f d')) by (rewrite map_length; assumption). apply map_nth. Qed.

Lemma zseq_length n : (0 <= n)%Z -> length (zseq n) = Z.to_nat n.
Proof. intros. unfold zseq. rewrite map_length, seq_length. reflexivity. Qed.
Lemma zseq_nth n i (d : Z) : (i < Z.to_nat n)%nat -> nth i (zseq n) d = Z.of_nat i.
Proof.
  intros Hi. unfold zseq. rewrite (nth_indep _ d (Z.of_nat 0)) by (rewrite map_length, seq_length; lia).
  rewrite (map_nth Z.of_nat). rewrite seq_nth by lia. reflexivity.
Qed.

(* ---------------- C07 ---------------- *)
Lemma arc_defined start degrees segments :
  arc start degrees segments <> None <-> degrees <= 360.
Proof.
  unfold arc. cbn [nleb nofZ NumR]. destruct (Rleb degrees 360) eqn:E.
  - apply Rleb_true in E. split; intros; [assumption | discriminate].
  - apply Rleb_false in E. split; intros H; [exfalso; apply H; reflexivity | lra].
Qed.

Lemma arc_spec start degrees segments pts : (0 <= segments)%Z ->
  arc start degrees segments = Some pts ->
  length pts = Z.to_nat (if Reqb degrees 360 then segments else (segments + 1)%Z) /\
  forall i, (i < length pts)%nat ->
    nth i pts start = pt2_rotated start ((IZR (Z.of_nat i) * (- degrees)) / IZR segments).
Proof.
  intros Hs. unfold arc. cbn [nleb neqb nofZ NumR]. destruct (Rleb degrees 360); [|discriminate].
  intros Hp. inversion Hp; subst; clear Hp. rewrite map_length.
  set (n := if Reqb degrees 360 then segments else (segments + 1)%Z).
  assert (0 <= n)%Z by (unfold n; destruct (Reqb degrees 360); lia).
  rewrite zseq_length by assumption. split; [reflexivity|]. intros i Hi.
  rewrite (nth_map' _ _ _ _ 0%Z) by (rewrite zseq_length; assumption).
  rewrite zseq_nth by assumption. reflexivity.
Qed.

(* every arc point keeps the start point's distance from the origin *)
Lemma rotated_keeps_len2 (p : P2) a : pt2_len2 (pt2_rotated p a) = pt2_len2 p.
Proof. unfold pt2_len2. apply pt2_rotation_preserves_dot. Qed.
Lemma arc_keeps_radius start degrees segments pts i : (0 <= segments)%Z ->
  arc start degrees segments = Some pts -> (i < length pts)%nat ->
  pt2_len2 (nth i pts start) = pt2_len2 start.
Proof.
  intros Hs Ha Hi. destruct (arc_spec _ _ _ _ Hs Ha) as [_ Hn]. rewrite Hn by assumption. apply rotated_keeps_len2.
Qed.
(* positive degrees advance clockwise: point i is the start turned by -i*degrees/segments *)
Lemma arc_step_is_clockwise_rotation start degrees segments pts i : (0 <= segments)%Z ->
  arc start degrees segments = Some pts -> (i < length pts)%nat ->
  nth i pts start = R2_spec (dcos (- (IZR (Z.of_nat i) * degrees / IZR segments))) (dsin (- (IZR (Z.of_nat i) * degrees / IZR segments))) start.
Proof.
  intros Hs Ha Hi. destruct (arc_spec _ _ _ _ Hs Ha) as [_ Hn]. rewrite Hn by assumption.
  rewrite pt2_rotated_spec. f_equal; f_equal; unfold Rdiv; ring.
Qed.

Lemma circle_on_radius radius segments pts i : (0 <= segments)%Z ->
  circle radius segments = Some pts -> (i < length pts)%nat ->
  length pts = Z.to_nat segments /\ pt2_len2 (nth i pts (Pt2 radius 0)) = radius * radius.
Proof.
  intros Hs Hc Hi. unfold circle in Hc. cbn [nzero nofZ NumR] in Hc.
  destruct (arc_spec _ _ _ _ Hs Hc) as [Hl _]. split.
  - rewrite Hl. unfold Reqb. destruct (Req_EM_T 360 360); [reflexivity|contradiction].
  - rewrite (arc_keeps_radius _ _ _ _ _ Hs Hc Hi). dred. ring.
Qed.
Lemma inscribed_is_circle n r : inscribed_polygon n r = circle r n. Proof. reflexivity. Qed.
Lemma circumscribed_radius n r :
  circumscribed_polygon n r = inscribed_polygon n (r / dcos (180 / IZR n)).
Proof. reflexivity. Qed.

Lemma chamfer_points size oversize :
  chamfer size oversize =
  [Pt2 0 (size + oversize); Pt2 oversize (size + oversize); Pt2 oversize size; Pt2 size oversize;
   Pt2 (size + oversize) oversize; Pt2 (oversize + size) 0; Pt2 0 0].
Proof. reflexivity. Qed.
Lemma chamfer_area size oversize :
  area2 (chamfer size oversize) = - (size * size + 2 * size * oversize + 3 * oversize * oversize).
Proof. unfold chamfer, area2, open_area2, last. dred. ring. Qed.
Lemma chamfer_clockwise size oversize : 0 < size -> 0 <= oversize -> area2 (chamfer size oversize) < 0.
Proof. intros. rewrite chamfer_area. nra. Qed.

Lemma star_length n inner outer : (0 <= n)%Z -> length (star n inner outer) = (2 * Z.to_nat n)%nat.
Proof.
  intros Hn. unfold star. generalize ((- nofZ 360) / nofZ n)%num; intros ang.
  unfold zseq. generalize (seq 0 (Z.to_nat n)) (seq_length (Z.to_nat n) 0).
  intros l Hl. rewrite <- Hl. clear Hl. induction l as [|a l IH]; [reflexivity|]. cbn [map flat_map app length]. rewrite IH. lia.
Qed.

(* ---------------- C08 ---------------- *)
Definition bern3 (s c1 c2 e : P2) (t : R) : P2 :=
  Pt2 ((1 - t) ^ 3 * x2 s + 3 * t * (1 - t) ^ 2 * x2 c1 + 3 * t ^ 2 * (1 - t) * x2 c2 + t ^ 3 * x2 e)
      ((1 - t) ^ 3 * y2 s + 3 * t * (1 - t) ^ 2 * y2 c1 + 3 * t ^ 2 * (1 - t) * y2 c2 + t ^ 3 * y2 e).
Definition bern2 (s c e : P2) (t : R) : P2 :=
  Pt2 ((1 - t) ^ 2 * x2 s + 2 * t * (1 - t) * x2 c + t ^ 2 * x2 e)
      ((1 - t) ^ 2 * y2 s + 2 * t * (1 - t) * y2 c + t ^ 2 * y2 e).
Lemma cubic_is_bernstein s c1 c2 e t : cubic_point s c1 c2 e t = bern3 s c1 c2 e t.
Proof. destruct s, c1, c2, e. unfold bern3. dred. f_equal; ring. Qed.
Lemma quadratic_is_bernstein s c e t : quadratic_point s c e t = bern2 s c e t.
Proof. destruct s, c, e. unfold bern2. dred. f_equal; ring. Qed.
(* de Casteljau: repeated linear interpolation of the control polygon *)
Lemma cubic_is_decasteljau (s c1 c2 e : P2) t :
  cubic_point s c1 c2 e t =
  pt2_lerp (pt2_lerp (pt2_lerp s c1 t) (pt2_lerp c1 c2 t) t) (pt2_lerp (pt2_lerp c1 c2 t) (pt2_lerp c2 e t) t) t.
Proof. destruct s, c1, c2, e. unfold pt2_lerp. dred. f_equal; ring. Qed.
Lemma quadratic_is_decasteljau (s c e : P2) t :
  quadratic_point s c e t = pt2_lerp (pt2_lerp s c t) (pt2_lerp c e t) t.
Proof. destruct s, c, e. unfold pt2_lerp. dred. f_equal; ring. Qed.
Lemma cubic_at_0 (s c1 c2 e : P2) : cubic_point s c1 c2 e 0 = s.
Proof. destruct s, c1, c2, e. dred. f_equal; ring. Qed.
Lemma cubic_at_1 (s c1 c2 e : P2) : cubic_point s c1 c2 e 1 = e.
Proof. destruct s, c1, c2, e. dred. f_equal; ring. Qed.
Lemma quadratic_at_0 (s c e : P2) : quadratic_point s c e 0 = s.
Proof. destruct s, c, e. dred. f_equal; ring. Qed.
Lemma quadratic_at_1 (s c e : P2) : quadratic_point s c e 1 = e.
Proof. destruct s, c, e. dred. f_equal; ring. Qed.
(* convex hull: the Bernstein weights are non-negative and sum to one on [0,1] *)
Lemma bernstein3_weights t : 0 <= t <= 1 ->
  0 <= (1 - t) ^ 3 /\ 0 <= 3 * t * (1 - t) ^ 2 /\ 0 <= 3 * t ^ 2 * (1 - t) /\ 0 <= t ^ 3 /\
  (1 - t) ^ 3 + 3 * t * (1 - t) ^ 2 + 3 * t ^ 2 * (1 - t) + t ^ 3 = 1.
Proof.
  intros [H0 H1]. assert (0 <= 1 - t) by lra.
  repeat split; try ring; simpl; repeat apply Rmult_le_pos; lra.
Qed.
(* 2D and 3D agree on planar input *)
Lemma cubic_2d_3d (s c1 c2 e : P2) z t :
  cubic_point3 (pt2_as_pt3 s z) (pt2_as_pt3 c1 z) (pt2_as_pt3 c2 z) (pt2_as_pt3 e z) t = pt2_as_pt3 (cubic_point s c1 c2 e t) z.
Proof. destruct s, c1, c2, e. dred. f_equal; ring. Qed.
Lemma quadratic_2d_3d (s c e : P2) z t :
  quadratic_point3 (pt2_as_pt3 s z) (pt2_as_pt3 c z) (pt2_as_pt3 e z) t = pt2_as_pt3 (quadratic_point s c e t) z.
Proof. destruct s, c, e. dred. f_equal; ring. Qed.

(* the sampled points: segments+1 of them, the i-th at t = i * (1/segments) *)
Lemma bez_ts_spec segments : (0 <= segments)%Z ->
  length (@bez_ts R _ segments) = Z.to_nat (segments + 1) /\
  forall i, (i < Z.to_nat (segments + 1))%nat -> nth i (@bez_ts R _ segments) 0 = IZR (Z.of_nat i) * (1 / IZR segments).
Proof.
  intros Hs. unfold bez_ts. rewrite map_length, zseq_length by lia. split; [reflexivity|].
  intros i Hi. cbn [none_ ndiv nofZ nmul NumR].
  rewrite (nth_map' _ _ _ _ 0%Z) by (rewrite zseq_length; lia).
  rewrite zseq_nth by assumption. reflexivity.
Qed.
Lemma cubic_bezier_points (s c1 c2 e : P2) segments : (1 <= segments)%Z ->
  length (cubic_bezier s c1 c2 e segments) = Z.to_nat (segments + 1) /\
  (forall i, (i < Z.to_nat (segments + 1))%nat ->
     nth i (cubic_bezier s c1 c2 e segments) s = bern3 s c1 c2 e (IZR (Z.of_nat i) / IZR segments)) /\
  nth 0 (cubic_bezier s c1 c2 e segments) s = s /\
  nth (Z.to_nat segments) (cubic_bezier s c1 c2 e segments) s = e.
Proof.
  intros Hs. destruct (bez_ts_spec segments ltac:(lia)) as [Hl Hn]. unfold cubic_bezier. rewrite map_length.
  assert (Hnth : forall i, (i < Z.to_nat (segments + 1))%nat ->
            nth i (map (cubic_point s c1 c2 e) (bez_ts segments)) s = cubic_point s c1 c2 e (IZR (Z.of_nat i) * (1 / IZR segments))).
  { intros i Hi. rewrite (nth_map' _ _ _ _ 0) by lia. rewrite Hn by assumption. reflexivity. }
  split; [exact Hl|]. split; [|split].
  - intros i Hi. rewrite Hnth by assumption. rewrite cubic_is_bernstein. f_equal. unfold Rdiv. ring.
  - rewrite Hnth by lia. replace (IZR (Z.of_nat 0) * (1 / IZR segments)) with 0 by (cbn; lra). apply cubic_at_0.
  - rewrite Hnth by lia. rewrite Z2Nat.id by lia.
    replace (IZR segments * (1 / IZR segments)) with 1. apply cubic_at_1.
    field. apply not_0_IZR. lia.
Qed.

(* ---- chains: an invariant over every history new -> add* -> [close] ---- *)
Definition joined (a b : @curve2 R) : Prop :=
  c_start b = c_end a /\ exists len, c_control1 b = handle (c_end a) (c_control2 a) len.
Fixpoint chained (l : list (@curve2 R)) : Prop :=
  match l with
  | a :: ((b :: _) as tl) => joined a b /\ chained tl
  | _ => True
  end.
Lemma chained_app_one l a b : chained (l ++ [a]) -> joined a b -> chained (l ++ [a; b]).
Proof.
  induction l as [|x l IH]; intros Hc Hj; [cbn; tauto|].
  destruct l as [|y l]; cbn in *; [tauto|]. destruct Hc as [Hxy Hc]. split; [assumption|]. apply IH; assumption.
Qed.
Lemma last_app_one {A} (l : list A) a d : last (l ++ [a]) d = a.
Proof. induction l as [|x l IH]; [reflexivity|]. cbn. destruct (l ++ [a]) eqn:E; [destruct l; discriminate|]. exact IH. Qed.

Inductive chain_op := OpAdd (len : R) (c2 e : P2) (seg : Z).
Definition apply_op (ch : @chain2 R) (o : chain_op) : @chain2 R :=
  match o with OpAdd len c2 e seg => chain2_add ch len c2 e seg end.

Lemma add_chained ch len c2 e seg : ch_curves ch <> [] -> chained (ch_curves ch) ->
  chained (ch_curves (chain2_add ch len c2 e seg)) /\ ch_curves (chain2_add ch len c2 e seg) <> [] /\
  c_end (last (ch_curves (chain2_add ch len c2 e seg)) dummy_curve2) = e /\
  hd dummy_curve2 (ch_curves (chain2_add ch len c2 e seg)) = hd dummy_curve2 (ch_curves ch).
Proof.
  intros Hne Hc. unfold chain2_add. cbn [ch_curves].
  destruct (exists_last Hne) as [l [a Hl]]. rewrite Hl in *. rewrite last_app_one.
  rewrite <- app_assoc. cbn [app]. split; [|split; [|split]].
  - apply chained_app_one; [assumption|]. split; [reflexivity|]. exists len. reflexivity.
  - destruct l; discriminate.
  - replace (l ++ [a; _]) with ((l ++ [a]) ++ [Curve2 (c_end a) (handle (c_end a) (c_control2 a) len) c2 e seg])
      by (rewrite <- app_assoc; reflexivity). rewrite last_app_one. reflexivity.
  - destruct l; reflexivity.
Qed.

(* every reachable open chain is C0 and G1 at every joint *)
Theorem chain_history_inv s c1 c2 e seg (ops : list chain_op) :
  let ch := fold_left apply_op ops (chain2_new s c1 c2 e seg) in
  chained (ch_curves ch) /\ ch_curves ch <> [] /\ ch_closed ch = false /\ c_start (hd dummy_curve2 (ch_curves ch)) = s.
Proof.
  cbv zeta.
  assert (H0 : chained (ch_curves (chain2_new s c1 c2 e seg)) /\ ch_curves (chain2_new s c1 c2 e seg) <> [] /\
               ch_closed (chain2_new s c1 c2 e seg) = false /\ c_start (hd dummy_curve2 (ch_curves (chain2_new s c1 c2 e seg))) = s)
    by (cbn; repeat split; discriminate).
  revert H0. generalize (chain2_new s c1 c2 e seg). induction ops as [|o ops IH]; intros ch H0; [exact H0|].
  cbn [fold_left]. apply IH. destruct H0 as (Hc & Hne & Hcl & Hs). destruct o as [len k2 k seg'].
  destruct (add_chained ch len k2 k seg' Hne Hc) as (H1 & H2 & H3 & H4). cbn [apply_op].
  repeat split; try assumption. rewrite H4. assumption.
Qed.

(* closing: the last curve ends exactly at the first start, and the first curve's handle is re-aimed along the last tangent *)
Theorem chain_close_inv (ch : @chain2 R) len c2 slen seg : ch_curves ch <> [] -> chained (ch_curves ch) ->
  let ch' := chain2_close ch len c2 slen seg in
  ch_closed ch' = true /\
  c_end (last (ch_curves ch') dummy_curve2) = c_start (hd dummy_curve2 (ch_curves ch')) /\
  joined (last (ch_curves ch') dummy_curve2) (hd dummy_curve2 (ch_curves ch')) /\
  length (ch_curves ch') = S (length (ch_curves ch)).
Proof.
  intros Hne Hc. cbv zeta. unfold chain2_close.
  set (ch0 := {| ch_curves := ch_curves ch; ch_closed := true |}).
  destruct (add_chained ch0 len c2 (c_start (hd dummy_curve2 (ch_curves ch))) seg Hne Hc) as (H1 & H2 & H3 & H4).
  set (ch1 := chain2_add ch0 len c2 (c_start (hd dummy_curve2 (ch_curves ch))) seg) in *.
  assert (Hlen : length (ch_curves ch1) = S (length (ch_curves ch))).
  { unfold ch1, chain2_add. cbn [ch_curves ch0]. rewrite app_length. cbn. lia. }
  destruct (ch_curves ch1) as [|f rest] eqn:E; [contradiction|]. cbn [ch_curves ch_closed hd].
  assert (Hf : c_start f = c_start (hd dummy_curve2 (ch_curves ch))) by (cbn [hd] in H4; rewrite H4; reflexivity).
  assert (Hlast : forall f', c_end (last (f' :: rest) dummy_curve2) = c_end (last (f :: rest) dummy_curve2) \/ rest = []).
  { intros f'. destruct rest; [right; reflexivity|left; reflexivity]. }
  assert (Hrest : rest <> []).
  { intro Hr. subst rest. cbn in Hlen. destruct (ch_curves ch); [contradiction|discriminate]. }
  split; [reflexivity|]. split; [|split].
  - destruct (Hlast (Curve2 (c_start f) (handle (c_end (last (f :: rest) dummy_curve2)) (c_control2 (last (f :: rest) dummy_curve2)) slen)
                            (c_control2 f) (c_end f) (c_segments f))) as [Hl | Hl]; [|contradiction].
    rewrite Hl, H3. cbn [c_start]. symmetry. exact Hf.
  - assert (Hsame : last (Curve2 (c_start f) (handle (c_end (last (f :: rest) dummy_curve2)) (c_control2 (last (f :: rest) dummy_curve2)) slen)
                                 (c_control2 f) (c_end f) (c_segments f) :: rest) dummy_curve2 = last (f :: rest) dummy_curve2).
    { destruct rest; [contradiction|reflexivity]. }
    rewrite Hsame. split.
    + cbn [c_start]. rewrite H3. exact Hf.
    + exists slen. reflexivity.
  - cbn [length] in *. lia.
Qed.

(* the tangent is continuous: the new handle points along the old end tangent (for a positive length) *)
Lemma handle_direction (e c2 : P2) len : pt2_nonzero (pt2_sub e c2) -> 0 < len ->
  exists k, 0 < k /\ pt2_sub (handle e c2 len) e = pt2_mul (pt2_sub e c2) k.
Proof.
  intros Hn Hl. destruct (pt2_normalized_dir _ Hn) as [Hd Hp].
  exists (/ pt2_len (pt2_sub e c2) * len). split; [apply Rmult_lt_0_compat; assumption|].
  unfold handle. rewrite Hd. destruct e, c2. dred. f_equal; ring.
Qed.

(* number of generated points *)
Lemma removelast_length {A} (l : list A) : l <> [] -> length (removelast l) = (length l - 1)%nat.
Proof.
  induction l as [|a l IH]; [contradiction|]. intros _. destruct l as [|b l]; [reflexivity|].
  cbn [removelast length] in *. rewrite IH by discriminate. lia.
Qed.
Lemma chain_points_length (ch : @chain2 R) :
  (forall c, In c (ch_curves ch) -> (1 <= c_segments c)%Z) ->
  length (chain2_points ch) =
  (fold_right (fun c acc => Z.to_nat (c_segments c) + acc) 0 (ch_curves ch) + (if ch_closed ch then 0 else 1))%nat.
Proof.
  intros Hseg. unfold chain2_points.
  assert (G : forall l acc, acc <> [] -> (forall c, In c l -> (1 <= c_segments c)%Z) ->
     let pts := fold_left (fun acc c => removelast acc ++ cubic_bezier (c_start c) (c_control1 c) (c_control2 c) (c_end c) (c_segments c)) l acc in
     pts <> [] /\ length pts = (length acc + fold_right (fun c a => Z.to_nat (c_segments c) + a) 0 l)%nat).
  { induction l as [|c l IH]; intros acc Hne Hs; cbv zeta; cbn [fold_left fold_right]; [split; [assumption|lia]|].
    assert (Hc : (1 <= c_segments c)%Z) by (apply Hs; left; reflexivity).
    destruct (cubic_bezier_points (c_start c) (c_control1 c) (c_control2 c) (c_end c) (c_segments c) Hc) as [Hl _].
    set (acc' := removelast acc ++ cubic_bezier (c_start c) (c_control1 c) (c_control2 c) (c_end c) (c_segments c)).
    assert (Hne' : acc' <> []).
    { unfold acc'. intro E. apply app_eq_nil in E as [_ E]. rewrite E in Hl. cbn in Hl. lia. }
    destruct (IH acc' Hne' (fun c' H' => Hs c' (or_intror H'))) as [H1 H2]. cbv zeta in H1, H2. split; [assumption|].
    rewrite H2. unfold acc'. rewrite app_length, removelast_length by assumption. rewrite Hl.
    destruct acc; [contradiction|]. cbn [length]. lia. }
  destruct (G (ch_curves ch) [Pt2 nzero nzero] ltac:(discriminate) Hseg) as [Hne Hlen]. cbv zeta in Hne, Hlen.
  destruct (ch_closed ch).
  - rewrite removelast_length by assumption. rewrite Hlen. cbn [length]. lia.
  - rewrite Hlen. cbn [length]. lia.
Qed.

(* chamfer is NOT simple when oversize > size: two non-adjacent edges cross at (oversize, oversize) *)
Definition strictly_between (a b x : R) : Prop := (a < x < b) \/ (b < x < a).
Lemma chamfer_self_intersects size oversize : 0 < size -> size < oversize ->
  let p := chamfer size oversize in
  let e2a := nth 1 p (Pt2 0 0) in let e2b := nth 2 p (Pt2 0 0) in      (* edge 1 -> 2 *)
  let e4a := nth 3 p (Pt2 0 0) in let e4b := nth 4 p (Pt2 0 0) in      (* edge 3 -> 4 *)
  x2 e2a = oversize /\ x2 e2b = oversize /\ strictly_between (y2 e2a) (y2 e2b) oversize /\
  y2 e4a = oversize /\ y2 e4b = oversize /\ strictly_between (x2 e4a) (x2 e4b) oversize.
Proof.
  intros Hs Ho. cbv zeta. unfold chamfer, strictly_between. cbn [nth x2 y2]. rnum.
  repeat split; try reflexivity; [right|left]; lra.
Qed.

(* ---------------- C07: the closed trig outlines are wound clockwise ---------------- *)
(* sum of a constant edge weight along an indexed open list *)
Lemma open_area2_const (f : Z -> P2) (c : R) : (forall i, cross2 (f i) (f (i + 1)%Z) = c) ->
  forall k s, open_area2 (map f (map Z.of_nat (seq s (S k)))) = INR k * c.
Proof.
  intros Hc. induction k as [|k IH]; intros s; [cbn; ring|].
  cbn [seq map]. cbn [seq map] in IH. specialize (IH (S s)).
  change (open_area2 (f (Z.of_nat s) :: f (Z.of_nat (S s)) :: map f (map Z.of_nat (seq (S (S s)) k))))
    with (cross2 (f (Z.of_nat s)) (f (Z.of_nat (S s))) + open_area2 (f (Z.of_nat (S s)) :: map f (map Z.of_nat (seq (S (S s)) k)))).
  rewrite IH. replace (Z.of_nat (S s)) with (Z.of_nat s + 1)%Z by lia. rewrite Hc. rewrite (S_INR k). change (nadd c (INR k * c)) with (c + INR k * c). ring.
Qed.
Lemma dsin_360_minus a : dsin (360 - a) = - dsin a.
Proof. unfold Rminus. rewrite dsin_plus, dsin_360, dcos_360, dsin_neg. ring. Qed.
Lemma dsin_pos a : 0 < a < 180 -> 0 < dsin a.
Proof. intros [H1 H2]. rewrite dsin_def. apply sin_gt_0; pose proof PI_RGT_0; [|]; nra. Qed.
(* cross product of two turned copies of one vector *)
Lemma cross2_rotated (v : P2) a b : cross2 (pt2_rotated v a) (pt2_rotated v b) = pt2_len2 v * dsin (b - a).
Proof.
  unfold Rminus. rewrite dsin_plus, dsin_neg, dcos_neg. destruct v as [vx vy]. rewrite !pt2_rotated_spec. unfold R2_spec. dred.
  generalize (dcos a) (dsin a) (dcos b) (dsin b). intros ca sa cb sb. ring.
Qed.

Definition circle_pt (radius n : R) (i : Z) : P2 := pt2_rotated (Pt2 radius 0) ((IZR i * (- 360)) / n).
Theorem circle_area (radius : R) (segments : Z) pts : (1 <= segments)%Z -> circle radius segments = Some pts ->
  area2 pts = - (IZR segments * (radius * radius) * dsin (360 / IZR segments)).
Proof.
  intros Hs Hc. unfold circle, arc in Hc. cbn [nleb neqb nofZ nzero NumR] in Hc.
  destruct (Rleb 360 360) eqn:E1; [|apply Rleb_false in E1; lra].
  destruct (Reqb 360 360) eqn:E2; [|apply Reqb_false in E2; lra].
  set (n := IZR segments). assert (Hn : n <> 0) by (unfold n; apply not_0_IZR; lia).
  set (f := circle_pt radius n).
  assert (Hpts : pts = map f (zseq segments)) by (inversion Hc; reflexivity). rewrite Hpts. clear Hpts Hc.
  set (c := - (radius * radius * dsin (360 / n))).
  assert (Hstep : forall i, cross2 (f i) (f (i + 1)%Z) = c).
  { intros i. unfold f, circle_pt. rewrite cross2_rotated. rewrite plus_IZR.
    replace ((IZR i + 1) * - 360 / n - IZR i * - 360 / n) with (- (360 / n)) by (field; exact Hn).
    rewrite dsin_neg. unfold c. dred. ring. }
  unfold zseq. destruct (Z.to_nat segments) as [|k] eqn:Ek; [lia|].
  change (map f (map Z.of_nat (seq 0 (S k)))) with (f 0%Z :: map f (map Z.of_nat (seq 1 k))).
  cbv beta iota delta [area2].
  change (f 0%Z :: map f (map Z.of_nat (seq 1 k))) with (map f (map Z.of_nat (seq 0 (S k)))).
  rewrite (open_area2_const f c Hstep k 0%nat).
  assert (Hlast : last (map f (map Z.of_nat (seq 0 (S k)))) (f 0%Z) = f (Z.of_nat k)).
  { rewrite seq_S, !map_app. cbn [map Nat.add]. apply last_app_one. }
  rewrite Hlast.
  assert (Hclose : cross2 (f (Z.of_nat k)) (f 0%Z) = c).
  { unfold f, circle_pt. rewrite cross2_rotated. replace (IZR 0 * - 360 / n - IZR (Z.of_nat k) * - 360 / n) with (360 - 360 / n).
    - rewrite dsin_360_minus. unfold c. dred. ring.
    - assert (Hk : IZR (Z.of_nat k) = n - 1) by (unfold n; replace segments with (Z.of_nat k + 1)%Z by lia; rewrite plus_IZR; ring).
      rewrite Hk. field. exact Hn. }
  change (nadd (INR k * c) (cross2 (f (Z.of_nat k)) (f 0%Z))) with (INR k * c + cross2 (f (Z.of_nat k)) (f 0%Z)). rewrite Hclose.
  assert (HINR : INR k = n - 1) by (unfold n; rewrite INR_IZR_INZ; replace segments with (Z.of_nat k + 1)%Z by lia; rewrite plus_IZR; ring).
  rewrite HINR. unfold c. ring.
Qed.
(* hence clockwise (negative shoelace area) for every radius <> 0 and every segment count >= 3 *)
Theorem circle_clockwise (radius : R) (segments : Z) pts : (3 <= segments)%Z -> radius <> 0 -> circle radius segments = Some pts ->
  area2 pts < 0.
Proof.
  intros Hs Hr Hc. rewrite (circle_area radius segments pts ltac:(lia) Hc).
  assert (Hn : 3 <= IZR segments) by (apply IZR_le in Hs; exact Hs).
  assert (Hd : 0 < dsin (360 / IZR segments)).
  { apply dsin_pos. split; [apply Rdiv_lt_0_compat; lra|]. apply (Rmult_lt_reg_r (IZR segments)); [lra|]. unfold Rdiv. rewrite Rmult_assoc, Rinv_l by lra. lra. }
  assert (0 < radius * radius) by nra. assert (0 < IZR segments * (radius * radius)) by nra. nra.
Qed.
Theorem circumscribed_clockwise (n_sides : Z) (radius : R) pts : (3 <= n_sides)%Z -> radius <> 0 ->
  circumscribed_polygon n_sides radius = Some pts -> area2 pts < 0.
Proof.
  intros Hs Hr Hc. unfold circumscribed_polygon, inscribed_polygon in Hc. eapply circle_clockwise; [exact Hs| |exact Hc].
  cbn [ndiv nofZ NumR]. assert (Hn : 3 <= IZR n_sides) by (apply IZR_le in Hs; exact Hs).
  assert (Hcos : 0 < dcos (180 / IZR n_sides)).
  { rewrite dcos_def. apply cos_gt_0; pose proof PI_RGT_0 as Hpi.
    - assert (0 < 180 / IZR n_sides) by (apply Rdiv_lt_0_compat; lra). nra.
    - assert (180 / IZR n_sides <= 60) by (apply (Rmult_le_reg_r (IZR n_sides)); [lra|]; unfold Rdiv; rewrite Rmult_assoc, Rinv_l by lra; lra). nra. }
  intros E. apply Rmult_integral in E. destruct E as [E|E]; [contradiction|]. pose proof (Rinv_0_lt_compat _ Hcos). lra.
Qed.

(* ---------------- C07: the edges of a circumscribed polygon are tangent to the given radius ---------------- *)
Lemma dcos_180_minus a : dcos (180 - a) = - dcos a.
Proof. unfold Rminus. rewrite dcos_plus, dsin_180, dcos_180, dcos_neg. ring. Qed.
(* two turned copies of one vector: the line through them passes the origin at distance |v| |cos(delta/2)| *)
Lemma chord_distance (v : P2) a b :
  let p := pt2_rotated v a in let q := pt2_rotated v b in let h := dcos ((b - a) / 2) in
  cross2 p q * cross2 p q = (pt2_len2 v * (h * h)) * pt2_len2 (pt2_sub q p).
Proof.
  cbv zeta. rewrite cross2_rotated.
  assert (Hs : dsin (b - a) = 2 * dsin ((b - a) / 2) * dcos ((b - a) / 2)).
  { replace (b - a) with ((b - a) / 2 + (b - a) / 2) at 1 by field. rewrite dsin_plus. ring. }
  assert (Hlen : pt2_len2 (pt2_sub (pt2_rotated v b) (pt2_rotated v a)) = 2 * pt2_len2 v * (1 - dcos (b - a))).
  { unfold Rminus at 2. rewrite dcos_plus, dsin_neg, dcos_neg. pose proof (dsin2_dcos2 a) as Ha. pose proof (dsin2_dcos2 b) as Hb.
    destruct v as [vx vy]. rewrite !pt2_rotated_spec. unfold R2_spec. dred. revert Ha Hb. generalize (dcos a) (dsin a) (dcos b) (dsin b). intros ca sa cb sb Ha Hb. nsatz. }
  assert (Hc : dcos (b - a) = dcos ((b - a) / 2) * dcos ((b - a) / 2) - dsin ((b - a) / 2) * dsin ((b - a) / 2)).
  { replace (b - a) with ((b - a) / 2 + (b - a) / 2) at 1 by field. rewrite dcos_plus. ring. }
  rewrite Hlen, Hs, Hc. pose proof (dsin2_dcos2 ((b - a) / 2)) as Hh. revert Hh. generalize (dcos ((b - a) / 2)) (dsin ((b - a) / 2)) (pt2_len2 v). intros c s L Hh. nsatz.
Qed.
Theorem circumscribed_tangent (n_sides : Z) (radius : R) pts (i : nat) : (3 <= n_sides)%Z ->
  circumscribed_polygon n_sides radius = Some pts -> (i < Z.to_nat n_sides)%nat ->
  let a := nth i pts (Pt2 0 0) in let b := nth (if Nat.eqb i (Z.to_nat n_sides - 1) then 0 else i + 1)%nat pts (Pt2 0 0) in
  cross2 a b * cross2 a b = radius * radius * pt2_len2 (pt2_sub b a).
Proof.
  intros Hs Hc Hi. cbv zeta.
  set (n := IZR n_sides). assert (Hn3 : 3 <= n) by (unfold n; apply IZR_le in Hs; exact Hs).
  set (h := dcos (180 / n)).
  assert (Hh : 0 < h).
  { unfold h. rewrite dcos_def. apply cos_gt_0; pose proof PI_RGT_0 as Hpi.
    - assert (0 < 180 / n) by (apply Rdiv_lt_0_compat; lra). nra.
    - assert (180 / n <= 60) by (apply (Rmult_le_reg_r n); [lra|]; unfold Rdiv; rewrite Rmult_assoc, Rinv_l by lra; lra). nra. }
  set (R' := radius / h).
  assert (Hpts : pts = map (circle_pt R' n) (zseq n_sides)).
  { unfold circumscribed_polygon, inscribed_polygon, circle, arc in Hc. cbn [nleb neqb nofZ nzero NumR] in Hc.
    destruct (Rleb 360 360) eqn:E1; [|apply Rleb_false in E1; lra]. destruct (Reqb 360 360) eqn:E2; [|apply Reqb_false in E2; lra].
    inversion Hc. reflexivity. }
  assert (Hnth : forall j, (j < Z.to_nat n_sides)%nat -> nth j pts (Pt2 0 0) = circle_pt R' n (Z.of_nat j)).
  { intros j Hj. rewrite Hpts. rewrite (nth_map' (circle_pt R' n) _ j _ 0%Z) by (rewrite zseq_length by lia; exact Hj). rewrite zseq_nth by exact Hj. reflexivity. }
  rewrite Hnth by exact Hi. rewrite Hnth by (destruct (Nat.eqb_spec i (Z.to_nat n_sides - 1)); lia).
  unfold circle_pt. rewrite chord_distance.
  assert (Hlen : pt2_len2 (Pt2 R' 0) = R' * R') by (dred; ring). rewrite Hlen.
  assert (Hn0 : n <> 0) by lra.
  f_equal. destruct (Nat.eqb_spec i (Z.to_nat n_sides - 1)) as [E|E].
  - (* the closing edge: the half angle is 180 - 180/n *)
    assert (Hi' : IZR (Z.of_nat i) = n - 1) by (unfold n; replace n_sides with (Z.of_nat i + 1)%Z by lia; rewrite plus_IZR; ring).
    replace ((IZR (Z.of_nat 0) * - 360 / n - IZR (Z.of_nat i) * - 360 / n) / 2) with (180 - 180 / n) by (rewrite Hi'; cbn [Z.of_nat]; field; exact Hn0).
    rewrite dcos_180_minus. fold h. unfold R'. field. lra.
  - replace ((IZR (Z.of_nat (i + 1)) * - 360 / n - IZR (Z.of_nat i) * - 360 / n) / 2) with (- (180 / n)) by (rewrite Nat2Z.inj_add, plus_IZR; cbn [Z.of_nat]; field; exact Hn0).
    rewrite dcos_neg. fold h. unfold R'. field. lra.
Qed.

(* ---------------- C07: the rounded rectangle lies in its box, touches its four sides, corner arcs of the radius ---------------- *)
Lemma quarter_trig t : 0 <= t <= 90 -> 0 <= dsin t <= 1 /\ 0 <= dcos t <= 1.
Proof.
  intros [H0 H1]. rewrite dsin_def, dcos_def. pose proof PI_RGT_0 as Hpi.
  assert (0 <= t * PI / 180 <= PI / 2) by (split; nra).
  repeat split.
  - apply sin_ge_0; lra.
  - apply SIN_bound.
  - apply cos_ge_0; lra.
  - apply COS_bound.
Qed.
(* point i of a quarter arc: the start turned clockwise by t = i*90/segments, 0 <= t <= 90 *)
Lemma quarter_arc_nth (start : P2) (segments : Z) pts i : (1 <= segments)%Z -> arc start 90 segments = Some pts -> (i < length pts)%nat ->
  length pts = Z.to_nat (segments + 1) /\
  exists c s, 0 <= c <= 1 /\ 0 <= s <= 1 /\ s * s + c * c = 1 /\
              nth i pts start = Pt2 (x2 start * c + y2 start * s) (y2 start * c - x2 start * s).
Proof.
  intros Hs Ha Hi. assert (Hs0 : (0 <= segments)%Z) by lia. destruct (arc_spec _ _ _ _ Hs0 Ha) as [Hl Hn].
  assert (E : Reqb 90 360 = false) by (apply Reqb_false; lra). rewrite E in Hl. split; [exact Hl|].
  rewrite Hn by exact Hi. set (t := IZR (Z.of_nat i) * 90 / IZR segments).
  assert (Hseg : 1 <= IZR segments) by (apply IZR_le; exact Hs).
  assert (Hi' : 0 <= IZR (Z.of_nat i) <= IZR segments) by (split; apply IZR_le; lia).
  assert (Ht : 0 <= t <= 90).
  { unfold t. split; [apply Rmult_le_pos; [nra|left; apply Rinv_0_lt_compat; lra]|].
    apply (Rmult_le_reg_r (IZR segments)); [lra|]. unfold Rdiv. rewrite Rmult_assoc, Rinv_l by lra. nra. }
  destruct (quarter_trig t Ht) as [Hsn Hcs]. exists (dcos t), (dsin t). split; [exact Hcs|]. split; [exact Hsn|]. split; [apply dsin2_dcos2|].
  replace (IZR (Z.of_nat i) * - (90) / IZR segments) with (- t) by (unfold t; field; lra).
  rewrite pt2_rotated_spec. unfold R2_spec. rewrite dcos_neg, dsin_neg. destruct start as [sx sy]. dred. f_equal; ring.
Qed.

Definition in_box (lo_x lo_y hi_x hi_y : R) (p : P2) : Prop := lo_x <= x2 p <= hi_x /\ lo_y <= y2 p <= hi_y.

Theorem rounded_rect_box (w h r : R) (segments : Z) pts : 0 < r -> 2 * r <= w -> 2 * r <= h -> (1 <= segments)%Z ->
  rounded_rect w h r segments false = Some pts ->
  length pts = (4 * Z.to_nat (segments + 1))%nat /\
  Forall (in_box 0 0 w h) pts /\
  (* it touches all four sides: the first point of each corner arc *)
  In (Pt2 (w - r) h) pts /\ In (Pt2 w r) pts /\ In (Pt2 r 0) pts /\ In (Pt2 0 (h - r)) pts.
Proof.
  intros Hr Hw Hh Hs. unfold rounded_rect. cbn [nzero nofZ nneg nsub NumR].
  destruct (arc (Pt2 0 r) 90 segments) as [tr|] eqn:Etr; [|discriminate]. destruct (arc (Pt2 r 0) 90 segments) as [br|] eqn:Ebr; [|discriminate].
  destruct (arc (Pt2 (- 0) (- r)) 90 segments) as [bl|] eqn:Ebl; [|discriminate]. destruct (arc (Pt2 (- r) 0) 90 segments) as [tl|] eqn:Etl; [|discriminate].
  intros E. inversion E as [Hp]. clear E Hp.
  assert (Q : forall start a, arc start 90 segments = Some a -> length a = Z.to_nat (segments + 1) /\
            forall p, In p a -> exists c s, 0 <= c <= 1 /\ 0 <= s <= 1 /\ s * s + c * c = 1 /\ p = Pt2 (x2 start * c + y2 start * s) (y2 start * c - x2 start * s)).
  { intros start a Ha. assert (Hlen : length a = Z.to_nat (segments + 1)).
    { assert (Hs0 : (0 <= segments)%Z) by lia. destruct (arc_spec _ _ _ _ Hs0 Ha) as [Hl _]. assert (E : Reqb 90 360 = false) by (apply Reqb_false; lra). rewrite E in Hl. exact Hl. }
    split; [exact Hlen|]. intros p Hp. apply (In_nth _ _ start) in Hp. destruct Hp as (i & Hi & <-).
    destruct (quarter_arc_nth start segments a i Hs Ha Hi) as [_ HH]. exact HH. }
  assert (F0 : forall a start, arc start 90 segments = Some a -> nth 0 a start = start).
  { intros a start Ha. assert (Hs0 : (0 <= segments)%Z) by lia. destruct (arc_spec _ _ _ _ Hs0 Ha) as [Hl Hn]. assert (E : Reqb 90 360 = false) by (apply Reqb_false; lra). rewrite E in Hl.
    rewrite Hn by lia. cbn [Z.of_nat]. replace (0 * - (90) / IZR segments) with 0 by (unfold Rdiv; ring). destruct (rot_zero (Pt3 0 0 0) start) as (_ & _ & _ & H0). exact H0. }
  assert (First : forall a start, arc start 90 segments = Some a -> In start a).
  { intros a start Ha. rewrite <- (F0 a start Ha). apply nth_In. destruct (Q start a Ha) as [Hl _]. lia. }
  destruct (Q _ _ Etr) as [Ltr Ptr]. destruct (Q _ _ Ebr) as [Lbr Pbr]. destruct (Q _ _ Ebl) as [Lbl Pbl]. destruct (Q _ _ Etl) as [Ltl Ptl].
  unfold pt2s_translate. split; [rewrite !app_length, !map_length; lia|]. split.
  - repeat (apply Forall_app; split); rewrite Forall_map, Forall_forall; intros p Hp.
    + destruct (Ptr p Hp) as (c & s & Hc & Hsn & _ & ->). unfold in_box, pt2_add. cbn [x2 y2 nadd NumR]. nra.
    + destruct (Pbr p Hp) as (c & s & Hc & Hsn & _ & ->). unfold in_box, pt2_add. cbn [x2 y2 nadd NumR]. nra.
    + destruct (Pbl p Hp) as (c & s & Hc & Hsn & _ & ->). unfold in_box, pt2_add. cbn [x2 y2 nadd NumR]. nra.
    + destruct (Ptl p Hp) as (c & s & Hc & Hsn & _ & ->). unfold in_box, pt2_add. cbn [x2 y2 nadd NumR]. nra.
  - assert (T1 : In (pt2_add (Pt2 0 r) (Pt2 (w - r) (h - r))) (map (fun q : P2 => pt2_add q (Pt2 (w - r) (h - r))) tr)) by (apply (in_map (fun q : P2 => pt2_add q (Pt2 (w - r) (h - r))) tr (Pt2 0 r)), First; exact Etr).
    assert (T2 : In (pt2_add (Pt2 r 0) (Pt2 (w - r) r)) (map (fun q : P2 => pt2_add q (Pt2 (w - r) r)) br)) by (apply (in_map (fun q : P2 => pt2_add q (Pt2 (w - r) r)) br (Pt2 r 0)), First; exact Ebr).
    assert (T3 : In (pt2_add (Pt2 (- 0) (- r)) (Pt2 r r)) (map (fun q : P2 => pt2_add q (Pt2 r r)) bl)) by (apply (in_map (fun q : P2 => pt2_add q (Pt2 r r)) bl (Pt2 (- 0) (- r))), First; exact Ebl).
    assert (T4 : In (pt2_add (Pt2 (- r) 0) (Pt2 r (h - r))) (map (fun q : P2 => pt2_add q (Pt2 r (h - r))) tl)) by (apply (in_map (fun q : P2 => pt2_add q (Pt2 r (h - r))) tl (Pt2 (- r) 0)), First; exact Etl).
    unfold pt2_add in T1, T2, T3, T4. cbn [x2 y2 nadd NumR] in T1, T2, T3, T4.
    replace (0 + (w - r)) with (w - r) in T1 by ring. replace (r + (h - r)) with h in T1 by ring.
    replace (r + (w - r)) with w in T2 by ring. replace (0 + r) with r in T2 by ring.
    replace (- 0 + r) with r in T3 by ring. replace (- r + r) with 0 in T3, T4 by ring. replace (0 + (h - r)) with (h - r) in T4 by ring.
    repeat split; rewrite !in_app_iff; tauto.
Qed.

(* ---------------- C07: the star is wound clockwise ---------------- *)
(* point j of the star: radius alternates inner, outer; angle advances by -180/n per point *)
Definition star_pt (n inner outer : R) (j : Z) : P2 :=
  let a := - 180 / n * IZR j in let r := if Z.even j then inner else outer in Pt2 (dcos a * r) (dsin a * r).
Lemma star_as_map (n : Z) (inner outer : R) : (1 <= n)%Z ->
  star n inner outer = map (star_pt (IZR n) inner outer) (map Z.of_nat (seq 0 (2 * Z.to_nat n))).
Proof.
  intros Hn. unfold star, zseq. cbn [nneg ndiv nmul nadd nofZ NumR]. unfold nlit. cbn [ndiv nofZ NumR].
  set (N := IZR n). assert (HN : N <> 0) by (unfold N; apply not_0_IZR; lia).
  assert (G : forall k s, flat_map (fun i : Z => [Pt2 (dcos (- 360 / N * IZR i) * inner) (dsin (- 360 / N * IZR i) * inner);
                                                  Pt2 (dcos (- 360 / N * (IZR i + 1 / 2)) * outer) (dsin (- 360 / N * (IZR i + 1 / 2)) * outer)])
                                  (map Z.of_nat (seq s k))
                        = map (star_pt N inner outer) (map Z.of_nat (flat_map (fun i => [2 * i; 2 * i + 1]%nat) (seq s k)))).
  { induction k as [|k IH]; intros s; [reflexivity|]. cbn [seq map flat_map app]. rewrite IH. f_equal; [|f_equal].
    - unfold star_pt. replace (Z.even (Z.of_nat (2 * s))) with true by (symmetry; rewrite Nat2Z.inj_mul; apply Z.even_mul). cbv zeta.
      replace (- 180 / N * IZR (Z.of_nat (2 * s))) with (- 360 / N * IZR (Z.of_nat s)) by (rewrite Nat2Z.inj_mul, mult_IZR; cbn [Z.of_nat]; field; exact HN). reflexivity.
    - unfold star_pt. replace (Z.even (Z.of_nat (2 * s + 1))) with false by (symmetry; rewrite Nat2Z.inj_add, Nat2Z.inj_mul; cbn [Z.of_nat]; rewrite Z.even_add, Z.even_mul; reflexivity). cbv zeta.
      replace (- 180 / N * IZR (Z.of_nat (2 * s + 1))) with (- 360 / N * (IZR (Z.of_nat s) + 1 / 2)) by (rewrite Nat2Z.inj_add, Nat2Z.inj_mul, plus_IZR, mult_IZR; cbn [Z.of_nat]; field; exact HN). reflexivity. }
  rewrite G. f_equal. f_equal. clear. generalize (Z.to_nat n). intros k.
  assert (forall s, flat_map (fun i => [2 * i; 2 * i + 1]%nat) (seq s k) = seq (2 * s) (2 * k)).
  { induction k as [|k IH]; intros s; [reflexivity|]. cbn [seq flat_map app]. rewrite IH. replace (2 * S k)%nat with (S (S (2 * k))) by lia. cbn [seq].
    replace (2 * s + 1)%nat with (S (2 * s)) by lia. replace (2 * S s)%nat with (S (S (2 * s))) by lia. reflexivity. }
  rewrite H. reflexivity.
Qed.

Theorem star_area (n : Z) (inner outer : R) : (1 <= n)%Z ->
  area2 (star n inner outer) = - (2 * IZR n * (inner * outer) * dsin (180 / IZR n)).
Proof.
  intros Hn. rewrite star_as_map by exact Hn. set (N := IZR n). assert (HN : 1 <= N) by (unfold N; apply IZR_le; exact Hn).
  set (f := star_pt N inner outer). set (c := - (inner * outer * dsin (180 / N))).
  assert (Hstep : forall i, cross2 (f i) (f (i + 1)%Z) = c).
  { intros i. unfold f, star_pt. cbv zeta. rewrite Z.even_add. change (Z.even 1) with false.
    set (a := - 180 / N * IZR i). replace (- 180 / N * IZR (i + 1)) with (a + - (180 / N)) by (unfold a; rewrite plus_IZR; field; lra).
    rewrite dsin_plus, dcos_plus, dsin_neg, dcos_neg. pose proof (dsin2_dcos2 a) as Ha. unfold c.
    destruct (Z.even i); cbn [Bool.eqb]; dred; revert Ha; generalize (dcos a) (dsin a) (dcos (180 / N)) (dsin (180 / N)); intros ca sa cn sn Ha; nsatz. }
  destruct (Z.to_nat n) as [|k] eqn:Ek; [lia|]. replace (2 * S k)%nat with (S (S (2 * k))) by lia.
  change (map f (map Z.of_nat (seq 0 (S (S (2 * k)))))) with (f 0%Z :: map f (map Z.of_nat (seq 1 (S (2 * k))))).
  cbv beta iota delta [area2]. change (f 0%Z :: map f (map Z.of_nat (seq 1 (S (2 * k))))) with (map f (map Z.of_nat (seq 0 (S (S (2 * k)))))).
  rewrite (open_area2_const f c Hstep (S (2 * k)) 0%nat).
  assert (Hlast : last (map f (map Z.of_nat (seq 0 (S (S (2 * k)))))) (f 0%Z) = f (Z.of_nat (S (2 * k)))) by (rewrite seq_S, !map_app; cbn [map Nat.add]; apply last_app_one).
  rewrite Hlast.
  assert (Hclose : cross2 (f (Z.of_nat (S (2 * k)))) (f 0%Z) = c).
  { unfold f, star_pt. cbv zeta. change (Z.even 0) with true.
    replace (Z.even (Z.of_nat (S (2 * k)))) with false by (symmetry; rewrite Nat2Z.inj_succ, Nat2Z.inj_mul, Z.even_succ, Z.odd_mul; reflexivity).
    replace (- 180 / N * IZR 0) with 0 by (simpl; field; lra). rewrite dcos_0, dsin_0.
    assert (HkN : IZR (Z.of_nat (S (2 * k))) = 2 * N - 1).
    { unfold N. replace n with (Z.of_nat (S k)) by lia. rewrite !Nat2Z.inj_succ, Nat2Z.inj_mul, !succ_IZR, mult_IZR. cbn [Z.of_nat]. ring. }
    rewrite HkN. replace (- 180 / N * (2 * N - 1)) with (- (360 - 180 / N)) by (field; lra).
    rewrite dsin_neg, dcos_neg, dsin_360_minus. unfold c. dred. ring. }
  change (nadd (INR (S (2 * k)) * c) (cross2 (f (Z.of_nat (S (2 * k)))) (f 0%Z))) with (INR (S (2 * k)) * c + cross2 (f (Z.of_nat (S (2 * k)))) (f 0%Z)).
  rewrite Hclose.
  assert (HINR : INR (S (2 * k)) = 2 * N - 1).
  { unfold N. replace n with (Z.of_nat (S k)) by lia. rewrite INR_IZR_INZ, !Nat2Z.inj_succ, Nat2Z.inj_mul, !succ_IZR, mult_IZR. cbn [Z.of_nat]. ring. }
  rewrite HINR. unfold c. ring.
Qed.
Theorem star_clockwise (n : Z) (inner outer : R) : (2 <= n)%Z -> 0 < inner -> 0 < outer -> area2 (star n inner outer) < 0.
Proof.
  intros Hn Hi Ho. rewrite star_area by lia. assert (HN : 2 <= IZR n) by (apply IZR_le; exact Hn).
  assert (Hd : 0 < dsin (180 / IZR n)).
  { apply dsin_pos. split; [apply Rdiv_lt_0_compat; lra|]. apply (Rmult_lt_reg_r (IZR n)); [lra|]. unfold Rdiv. rewrite Rmult_assoc, Rinv_l by lra. lra. }
  assert (0 < inner * outer) by nra. assert (0 < IZR n * (inner * outer)) by nra. nra.
Qed.

(* sin x + sin y - sin (x + y) = 4 sin(x/2) sin(y/2) sin((x+y)/2) *)
Lemma three_sines x y : dsin x + dsin y - dsin (x + y) = 4 * dsin (x / 2) * dsin (y / 2) * dsin ((x + y) / 2).
Proof.
  replace x with (x / 2 + x / 2) at 1 by field. replace y with (y / 2 + y / 2) at 1 by field.
  replace (x + y) with ((x / 2 + y / 2) + (x / 2 + y / 2)) at 1 by field. replace ((x + y) / 2) with (x / 2 + y / 2) by field.
  rewrite !dsin_plus, !dcos_plus. pose proof (dsin2_dcos2 (x / 2)) as Hx. pose proof (dsin2_dcos2 (y / 2)) as Hy.
  revert Hx Hy. generalize (dsin (x / 2)) (dcos (x / 2)) (dsin (y / 2)) (dcos (y / 2)). intros sx cx sy cy Hx Hy. nsatz.
Qed.

(* the centred rounded rectangle is the un-centred one moved by (-w/2, -h/2): it lies in [-w/2, w/2] x [-h/2, h/2] *)
Theorem rounded_rect_centred (w h r : R) (segments : Z) pts : 0 < r -> 2 * r <= w -> 2 * r <= h -> (1 <= segments)%Z ->
  rounded_rect w h r segments true = Some pts ->
  exists pts0, rounded_rect w h r segments false = Some pts0 /\ pts = map (fun p => pt2_add p (Pt2 (- w / 2) (- h / 2))) pts0 /\
               Forall (in_box (- w / 2) (- h / 2) (w / 2) (h / 2)) pts.
Proof.
  intros Hr Hw Hh Hs E.
  destruct (rounded_rect w h r segments false) as [pts0|] eqn:E0.
  - exists pts0. split; [reflexivity|].
    assert (Epts : pts = map (fun p => pt2_add p (Pt2 (- w / 2) (- h / 2))) pts0).
    { unfold rounded_rect in E, E0.
      destruct (arc (Pt2 nzero r) (nofZ 90) segments); [|discriminate]. destruct (arc (Pt2 r nzero) (nofZ 90) segments); [|discriminate].
      destruct (arc (Pt2 (- nzero) (- r))%num (nofZ 90) segments); [|discriminate]. destruct (arc (Pt2 (- r)%num nzero) (nofZ 90) segments); [|discriminate].
      inversion E0 as [H0]. inversion E as [H1]. reflexivity. }
    split; [exact Epts|]. rewrite Epts. rewrite Forall_map.
    destruct (rounded_rect_box w h r segments pts0 Hr Hw Hh Hs E0) as (_ & HF & _).
    eapply Forall_impl; [|exact HF]. intros p [[X1 X2] [Y1 Y2]]. unfold in_box, pt2_add. cbn [x2 y2 nadd NumR]. lra.
  - exfalso. unfold rounded_rect in E, E0.
    destruct (arc (Pt2 nzero r) (nofZ 90) segments); [|discriminate]. destruct (arc (Pt2 r nzero) (nofZ 90) segments); [|discriminate].
    destruct (arc (Pt2 (- nzero) (- r))%num (nofZ 90) segments); [|discriminate]. destruct (arc (Pt2 (- r)%num nzero) (nofZ 90) segments); discriminate.
Qed.
