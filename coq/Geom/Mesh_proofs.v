(* Geom/Mesh_proofs.v -- net directed-edge counts of face lists; the side-wall strip between two rings; caps through
   the C03 boundary identity; closedness (no boundary as an oriented chain) of the built meshes for every profile
   length. Axiom-free, generic in the number type. *)
From Coq Require Import ZArith List Bool Arith Lia FinFun.
From SCAD Require Import Base.Num Base.Vec Geom.Tri Geom.Tri_proofs Geom.Dim3.
From SCAD Require Geom.Cyc.
Import ListNotations.
Local Open Scope Z_scope.

(* ---- sums ---- *)
Definition zsum (l : list Z) : Z := fold_right Z.add 0 l.
Lemma zsum_app a b : zsum (a ++ b) = zsum a + zsum b.
Proof. induction a as [|x a IH]; cbn [app zsum fold_right]; [reflexivity|]. fold (zsum (a ++ b)) (zsum a). rewrite IH. lia. Qed.
Lemma zsum_map_add {A} (f g : A -> Z) l : zsum (map (fun x => f x + g x) l) = zsum (map f l) + zsum (map g l).
Proof. induction l as [|x l IH]; [reflexivity|]. cbn [map zsum fold_right]. fold (zsum (map (fun x => f x + g x) l)) (zsum (map f l)) (zsum (map g l)). rewrite IH. lia. Qed.
Lemma zsum_map_opp {A} (f : A -> Z) l : zsum (map (fun x => - f x) l) = - zsum (map f l).
Proof. induction l as [|x l IH]; [reflexivity|]. cbn [map zsum fold_right]. fold (zsum (map (fun x => - f x) l)) (zsum (map f l)). rewrite IH. lia. Qed.
Lemma zsum_map_ext {A} (f g : A -> Z) l : (forall x, In x l -> f x = g x) -> zsum (map f l) = zsum (map g l).
Proof. intros E. f_equal. apply map_ext_in. exact E. Qed.

Definition nseq' (s k : nat) : list Z := map Z.of_nat (seq s k).
Lemma nseq_nseq' k : nseq k = nseq' 0 k. Proof. reflexivity. Qed.

(* cyclic shift of the summation index *)
Lemma zsum_shift (h : Z -> Z) (k : nat) : (1 <= k)%nat ->
  zsum (map (fun p => h ((p + 1) mod Z.of_nat k)) (nseq k)) = zsum (map h (nseq k)).
Proof.
  intros Hk. destruct k as [|k]; [lia|]. unfold nseq.
  replace (seq 0 (S k)) with (seq 0 k ++ [k]%nat) by (rewrite <- seq_S; reflexivity).
  rewrite !map_app, !zsum_app. cbn [map zsum fold_right].
  replace ((Z.of_nat k + 1) mod Z.of_nat (S k)) with 0 by (replace (Z.of_nat k + 1) with (Z.of_nat (S k)) by lia; rewrite Z.mod_same by lia; reflexivity).
  assert (E : zsum (map (fun p => h ((p + 1) mod Z.of_nat (S k))) (map Z.of_nat (seq 0 k))) = zsum (map h (map Z.of_nat (seq 1 k)))).
  { rewrite <- seq_shift, !map_map. apply zsum_map_ext. intros x Hx. apply in_seq in Hx. f_equal.
    rewrite Z.mod_small by lia. lia. }
  rewrite E. clear E.
  (* sum over 1..k plus h 0 = sum over 0..k-1 plus h k *)
  assert (G : forall s, zsum (map h (map Z.of_nat (seq (S s) k))) + h (Z.of_nat s) = zsum (map h (map Z.of_nat (seq s k))) + h (Z.of_nat (s + k)%nat)).
  { clear Hk. induction k as [|k IH]; intros s; cbn [seq map zsum fold_right]; [replace (s + 0)%nat with s by lia; lia|].
    fold (zsum (map h (map Z.of_nat (seq (S (S s)) k)))) (zsum (map h (map Z.of_nat (seq (S s) k)))).
    specialize (IH (S s)). replace (S s + k)%nat with (s + S k)%nat in IH by lia. lia. }
  specialize (G 0%nat). cbn [Z.of_nat Nat.add] in G. lia.
Qed.

(* ---- net directed-edge count of a face, a face list ---- *)
Definition dirz (u v a b : Z) : Z :=
  (if Z.eqb a u && Z.eqb b v then 1 else 0) - (if Z.eqb a v && Z.eqb b u then 1 else 0).
Definition fnet (u v : Z) (f : list Z) : Z := Cyc.csum Z Z 0 Z.add (dirz u v) f.
Definition mnet (u v : Z) (F : list (list Z)) : Z := zsum (map (fnet u v) F).
Lemma mnet_app u v F G : mnet u v (F ++ G) = mnet u v F + mnet u v G.
Proof. unfold mnet. rewrite map_app. apply zsum_app. Qed.
Lemma dirz_anti u v a b : dirz u v b a = - dirz u v a b.
Proof. unfold dirz. rewrite (andb_comm (Z.eqb b u)), (andb_comm (Z.eqb b v)). lia. Qed.
Lemma dirz_shift u v a b off : dirz u v (a + off) (b + off) = dirz (u - off) (v - off) a b.
Proof.
  unfold dirz.
  replace (Z.eqb (a + off) u) with (Z.eqb a (u - off)) by (destruct (Z.eqb_spec a (u - off)), (Z.eqb_spec (a + off) u); lia).
  replace (Z.eqb (b + off) v) with (Z.eqb b (v - off)) by (destruct (Z.eqb_spec b (v - off)), (Z.eqb_spec (b + off) v); lia).
  replace (Z.eqb (a + off) v) with (Z.eqb a (v - off)) by (destruct (Z.eqb_spec a (v - off)), (Z.eqb_spec (a + off) v); lia).
  replace (Z.eqb (b + off) u) with (Z.eqb b (u - off)) by (destruct (Z.eqb_spec b (u - off)), (Z.eqb_spec (b + off) u); lia).
  reflexivity.
Qed.

(* cyclic sums and map *)
Lemma osum_map {A B} (f : A -> B) (g : B -> B -> Z) l :
  Cyc.osum B Z 0 Z.add g (map f l) = Cyc.osum A Z 0 Z.add (fun a b => g (f a) (f b)) l.
Proof.
  induction l as [|a l IH]; [reflexivity|]. destruct l as [|b l]; [reflexivity|].
  cbn [map]. cbn [map] in IH.
  change (Cyc.osum B Z 0 Z.add g (f a :: f b :: map f l)) with (g (f a) (f b) + Cyc.osum B Z 0 Z.add g (f b :: map f l)).
  rewrite IH. reflexivity.
Qed.
Lemma last_map {A B} (f : A -> B) l d : last (map f l) (f d) = f (last l d).
Proof. induction l as [|a l IH]; [reflexivity|]. destruct l as [|b l]; [reflexivity|]. cbn [map] in *. change (last (f a :: f b :: map f l) (f d)) with (last (f b :: map f l) (f d)). rewrite IH. reflexivity. Qed.
Lemma csum_map {A B} (f : A -> B) (g : B -> B -> Z) l :
  Cyc.csum B Z 0 Z.add g (map f l) = Cyc.csum A Z 0 Z.add (fun a b => g (f a) (f b)) l.
Proof.
  destruct l as [|a l]; [reflexivity|]. unfold Cyc.csum. cbn [map]. f_equal; [apply (osum_map f g (a :: l))|].
  change (f a :: map f l) with (map f (a :: l)). rewrite last_map. reflexivity.
Qed.

(* the cyclic sum over an indexed list f 0, f 1, ..., f (k-1) *)
Lemma osum_indexed (g : Z -> Z -> Z) (f : Z -> Z) : forall k s,
  Cyc.osum Z Z 0 Z.add g (map f (nseq' s (S k))) = zsum (map (fun i => g (f i) (f (i + 1))) (nseq' s k)).
Proof.
  induction k as [|k IH]; intros s; [reflexivity|].
  unfold nseq' in *. cbn [seq map]. cbn [seq map] in IH. specialize (IH (S s)).
  change (Cyc.osum Z Z 0 Z.add g (f (Z.of_nat s) :: f (Z.of_nat (S s)) :: map f (map Z.of_nat (seq (S (S s)) k))))
    with (g (f (Z.of_nat s)) (f (Z.of_nat (S s))) + Cyc.osum Z Z 0 Z.add g (f (Z.of_nat (S s)) :: map f (map Z.of_nat (seq (S (S s)) k)))).
  rewrite IH. cbn [zsum fold_right map]. replace (Z.of_nat s + 1) with (Z.of_nat (S s)) by lia. reflexivity.
Qed.
Lemma csum_indexed (g : Z -> Z -> Z) (f : Z -> Z) (k : nat) : (1 <= k)%nat ->
  Cyc.csum Z Z 0 Z.add g (map f (nseq k)) = zsum (map (fun p => g (f p) (f ((p + 1) mod Z.of_nat k))) (nseq k)).
Proof.
  intros Hk. destruct k as [|k]; [lia|]. rewrite nseq_nseq'.
  assert (Hne : map f (nseq' 0 (S k)) = f 0 :: map f (nseq' 1 k)) by reflexivity.
  unfold Cyc.csum. rewrite Hne. rewrite <- Hne. rewrite osum_indexed.
  assert (Hlast : last (map f (nseq' 0 (S k))) (f 0) = f (Z.of_nat k)).
  { rewrite last_map. f_equal. unfold nseq'. rewrite seq_S, map_app. cbn [map Nat.add].
    rewrite Cyc.last_app_cons. reflexivity. }
  rewrite Hlast. unfold nseq'. rewrite (seq_S k 0), !map_app, zsum_app. cbn [map zsum fold_right Nat.add].
  replace ((Z.of_nat k + 1) mod Z.of_nat (S k)) with 0 by (replace (Z.of_nat k + 1) with (Z.of_nat (S k)) by lia; rewrite Z.mod_same by lia; reflexivity).
  rewrite Z.add_0_r. f_equal. apply zsum_map_ext. intros x Hx. apply in_map_iff in Hx. destruct Hx as [i [<- Hi]]. apply in_seq in Hi.
  rewrite Z.mod_small by lia. reflexivity.
Qed.

(* ---- rings and strips ---- *)
Definition ring (r : Z) (k : nat) : list Z := map (fun p => r + p) (nseq k).
Lemma fnet_ring u v r k : (1 <= k)%nat ->
  fnet u v (ring r k) = zsum (map (fun p => dirz u v (r + p) (r + (p + 1) mod Z.of_nat k)) (nseq k)).
Proof. intros Hk. unfold fnet, ring. apply (csum_indexed (dirz u v) (fun p => r + p) k Hk). Qed.

Lemma fnet_quad u v n ra rb p :
  fnet u v (quad n ra rb p) =
  dirz u v (ra + p) (ra + (p + 1) mod n) + dirz u v (ra + (p + 1) mod n) (rb + (p + 1) mod n)
  + dirz u v (rb + (p + 1) mod n) (rb + p) + dirz u v (rb + p) (ra + p).
Proof. unfold fnet, quad, Cyc.csum. cbn [Cyc.osum last]. lia. Qed.
Lemma fnet_quad_rev u v n ra rb p : fnet u v (quad_rev n ra rb p) = - fnet u v (quad n ra rb p).
Proof.
  rewrite fnet_quad. unfold fnet, quad_rev, Cyc.csum. cbn [Cyc.osum last].
  rewrite (dirz_anti u v (ra + p)), (dirz_anti u v (rb + (p + 1) mod n) (rb + p)), (dirz_anti u v (ra + (p + 1) mod n) (rb + (p + 1) mod n)), (dirz_anti u v (rb + p) (ra + p)). lia.
Qed.

(* the strip of quads between ring ra and ring rb: ring ra forward, ring rb backward, the rungs cancel *)
Theorem strip_net u v (k : nat) ra rb : (1 <= k)%nat ->
  mnet u v (map (quad (Z.of_nat k) ra rb) (nseq k)) = fnet u v (ring ra k) - fnet u v (ring rb k).
Proof.
  intros Hk. unfold mnet. rewrite map_map. rewrite (zsum_map_ext _ _ _ (fun p _ => fnet_quad u v (Z.of_nat k) ra rb p)).
  rewrite !fnet_ring by assumption. set (n := Z.of_nat k).
  rewrite (zsum_map_add (fun p => dirz u v (ra + p) (ra + (p + 1) mod n) + dirz u v (ra + (p + 1) mod n) (rb + (p + 1) mod n) + dirz u v (rb + (p + 1) mod n) (rb + p))).
  rewrite (zsum_map_add (fun p => dirz u v (ra + p) (ra + (p + 1) mod n) + dirz u v (ra + (p + 1) mod n) (rb + (p + 1) mod n))).
  rewrite (zsum_map_add (fun p => dirz u v (ra + p) (ra + (p + 1) mod n))).
  pose proof (zsum_shift (fun q => dirz u v (ra + q) (rb + q)) k Hk) as Hs. fold n in Hs. cbv beta in Hs. rewrite Hs.
  assert (E1 : zsum (map (fun p => dirz u v (rb + (p + 1) mod n) (rb + p)) (nseq k)) = - zsum (map (fun p => dirz u v (rb + p) (rb + (p + 1) mod n)) (nseq k))).
  { rewrite <- zsum_map_opp. apply zsum_map_ext. intros x _. apply dirz_anti. }
  assert (E2 : zsum (map (fun p => dirz u v (rb + p) (ra + p)) (nseq k)) = - zsum (map (fun q => dirz u v (ra + q) (rb + q)) (nseq k))).
  { rewrite <- zsum_map_opp. apply zsum_map_ext. intros x _. apply dirz_anti. }
  rewrite E1, E2. lia.
Qed.
Theorem strip_rev_net u v (k : nat) ra rb : (1 <= k)%nat ->
  mnet u v (map (quad_rev (Z.of_nat k) ra rb) (nseq k)) = fnet u v (ring rb k) - fnet u v (ring ra k).
Proof.
  intros Hk. pose proof (strip_net u v k ra rb Hk) as Hs. unfold mnet in *. rewrite map_map in *.
  rewrite (zsum_map_ext _ _ _ (fun p _ => fnet_quad_rev u v (Z.of_nat k) ra rb p)). rewrite zsum_map_opp. lia.
Qed.

(* ---- reversal ---- *)
Lemma osum_oppZ {A} (g : A -> A -> Z) l :
  Cyc.osum A Z 0 Z.add (fun a b => - g a b) l = - Cyc.osum A Z 0 Z.add g l.
Proof.
  induction l as [|a l IH]; [reflexivity|]. destruct l as [|b l]; [reflexivity|].
  change (Cyc.osum A Z 0 Z.add (fun a b => - g a b) (a :: b :: l)) with (- g a b + Cyc.osum A Z 0 Z.add (fun a b => - g a b) (b :: l)).
  change (Cyc.osum A Z 0 Z.add g (a :: b :: l)) with (g a b + Cyc.osum A Z 0 Z.add g (b :: l)). rewrite IH. lia.
Qed.
Lemma fnet_rev u v l : fnet u v (rev l) = - fnet u v l.
Proof.
  unfold fnet. rewrite (Cyc.csum_rev Z Z 0 Z.add Z.add_comm Z.add_assoc Z.add_0_l).
  destruct l as [|a l]; [reflexivity|]. unfold Cyc.csum.
  assert (E : forall l', Cyc.osum Z Z 0 Z.add (Cyc.flip_g Z Z (dirz u v)) l' = Cyc.osum Z Z 0 Z.add (fun a b => - dirz u v a b) l').
  { intros l'. induction l' as [|x l' IH]; [reflexivity|]. destruct l' as [|y l']; [reflexivity|].
    change (Cyc.osum Z Z 0 Z.add (Cyc.flip_g Z Z (dirz u v)) (x :: y :: l')) with (Cyc.flip_g Z Z (dirz u v) x y + Cyc.osum Z Z 0 Z.add (Cyc.flip_g Z Z (dirz u v)) (y :: l')).
    rewrite IH. unfold Cyc.flip_g. rewrite dirz_anti. reflexivity. }
  rewrite E, osum_oppZ. unfold Cyc.flip_g. rewrite dirz_anti. lia.
Qed.
Lemma fnet_shift u v off l : fnet (u - off) (v - off) l = fnet u v (map (fun i => i + off) l).
Proof.
  unfold fnet. rewrite csum_map. destruct l as [|a l]; [reflexivity|]. unfold Cyc.csum. rewrite dirz_shift. f_equal.
  generalize (a :: l). intros l'. induction l' as [|x l' IH]; [reflexivity|]. destruct l' as [|y l']; [reflexivity|].
  change (Cyc.osum Z Z 0 Z.add (dirz (u - off) (v - off)) (x :: y :: l')) with (dirz (u - off) (v - off) x y + Cyc.osum Z Z 0 Z.add (dirz (u - off) (v - off)) (y :: l')).
  rewrite IH, <- dirz_shift. reflexivity.
Qed.

(* ---- caps: a complete triangulation has the net boundary of its polygon (C03) ---- *)
Section Caps.
  Context {T : Type} `{Num T}.
  Definition complete (poly : list (@vtx T)) : Prop := length (triangulate poly) = (3 * (length poly - 2))%nat.

  Lemma net_is_fnet u v (l : list (@vtx T)) : net u v l = fnet u v (map fst l).
  Proof. unfold net, fnet. rewrite csum_map. reflexivity. Qed.
  Lemma triples_idx3 (tris : list (@tri3 T)) off :
    triples (flat_map idx3 tris) off = map (fun t : @tri3 T => let '(a, b, c) := t in [fst a + off; fst b + off; fst c + off]) tris.
  Proof. induction tris as [|[[a b] c] tl IH]; [reflexivity|]. cbn [flat_map idx3 app triples map]. rewrite IH. reflexivity. Qed.
  Lemma mnet_triples u v (tris : list (@tri3 T)) off : mnet u v (triples (flat_map idx3 tris) off) = net_tris (u - off) (v - off) tris.
  Proof.
    rewrite triples_idx3. unfold mnet. induction tris as [|[[a b] c] tl IH]; [reflexivity|].
    cbn [map zsum fold_right net_tris]. fold (zsum (map (fnet u v) (map (fun t : @tri3 T => let '(a, b, c) := t in [fst a + off; fst b + off; fst c + off]) tl))).
    fold (net_tris (u - off) (v - off) tl). rewrite IH. f_equal.
    unfold fnet, net, Cyc.csum. cbn [Cyc.osum last]. rewrite !dirz_shift. reflexivity.
  Qed.
  Theorem cap_net u v (poly : list (@vtx T)) off : (3 <= length poly)%nat -> complete poly ->
    mnet u v (triples (triangulate poly) off) = fnet u v (map (fun i => i + off) (map fst poly)).
  Proof.
    intros Hn Hc. rewrite triangulate_run, mnet_triples. rewrite (complete_boundary poly Hn Hc). rewrite net_is_fnet. apply fnet_shift.
  Qed.
  Lemma ring_is_shift off k : map (fun i => i + off) (nseq k) = ring off k.
  Proof. unfold ring. apply map_ext. intros. lia. Qed.
  Corollary cap_forward u v (pts : list (pt2 T)) off : (3 <= length pts)%nat -> complete (enumerate pts) ->
    mnet u v (triples (triangulate (enumerate pts)) off) = fnet u v (ring off (length pts)).
  Proof.
    intros Hn Hc. rewrite cap_net by (rewrite ?enumerate_length; assumption). rewrite enumerate_fst. fold (nseq (length pts)). rewrite ring_is_shift. reflexivity.
  Qed.
  Corollary cap_backward u v (pts : list (pt2 T)) off : (3 <= length pts)%nat -> complete (rev (enumerate pts)) ->
    mnet u v (triples (triangulate (rev (enumerate pts))) off) = - fnet u v (ring off (length pts)).
  Proof.
    intros Hn Hc. rewrite cap_net by (rewrite ?rev_length, ?enumerate_length; assumption).
    rewrite map_rev. unfold vtx. rewrite enumerate_fst. fold (nseq (length pts)). rewrite map_rev, ring_is_shift. apply fnet_rev.
  Qed.

  (* ---- linear_extrude, loft, cylinder: no boundary, for every profile length ---- *)
  Definition closed_net (faces : list (list Z)) : Prop := forall u v, mnet u v faces = 0.

  Lemma two_caps_and_strip (lower upper : list (pt2 T)) : length lower = length upper -> (3 <= length lower)%nat ->
    complete (rev (enumerate lower)) -> complete (enumerate upper) ->
    closed_net (triples (triangulate (rev (enumerate lower))) 0 ++ triples (triangulate (enumerate upper)) (Z.of_nat (length lower)) ++
                map (quad (Z.of_nat (length lower)) 0 (Z.of_nat (length lower))) (nseq (length lower))).
  Proof.
    intros Hl Hn Hc1 Hc2 u v. rewrite !mnet_app.
    rewrite cap_backward by assumption. rewrite cap_forward by (rewrite <- ?Hl; assumption). rewrite strip_net by lia. rewrite <- Hl. lia.
  Qed.

  Theorem linear_extrude_closed (pts : list (pt2 T)) (h : T) ph : linear_extrude pts h = Some ph ->
    complete (rev (enumerate pts)) -> complete (enumerate pts) -> closed_net (snd ph).
  Proof.
    unfold linear_extrude, triangulate2d, triangulate2d_rev. destruct (Nat.ltb_spec 3 (length pts)) as [Hn|]; [|discriminate].
    intros E Hc1 Hc2. injection E as <-. cbn [snd]. apply two_caps_and_strip; try assumption; [reflexivity|lia].
  Qed.
  Theorem loft_closed (lower upper : list (pt2 T)) (h : T) ph : loft lower upper h = Some ph ->
    complete (rev (enumerate lower)) -> complete (enumerate upper) -> closed_net (snd ph).
  Proof.
    unfold loft, triangulate2d, triangulate2d_rev. destruct (Nat.eqb_spec (length lower) (length upper)) as [Hl|]; [|discriminate]. cbn [negb].
    destruct (Nat.ltb_spec 3 (length lower)) as [Hn|]; [|discriminate]. destruct (Nat.ltb_spec 3 (length upper)); [|lia].
    intros E Hc1 Hc2. injection E as <-. cbn [snd]. apply two_caps_and_strip; try assumption. lia.
  Qed.
  Theorem cylinder_closed (r h : T) (segments : Z) ph c : cylinder r h segments = Some ph -> Dim2.circle r segments = Some c ->
    complete (rev (enumerate c)) -> complete (enumerate c) -> closed_net (snd ph).
  Proof. unfold cylinder. intros E Ec. rewrite Ec in E. apply (linear_extrude_closed c h ph E). Qed.
End Caps.

(* ---- stacks of strips telescope ---- *)
Lemma strips_telescope u v (k : nat) (m : nat) : (1 <= k)%nat ->
  let n := Z.of_nat k in
  mnet u v (flat_map (fun j => map (quad n ((j - 1) * n) (j * n)) (nseq k)) (map (fun i => i + 1) (nseq m)))
  = fnet u v (ring 0 k) - fnet u v (ring (Z.of_nat m * n) k).
Proof.
  intros Hk n. induction m as [|m IH].
  - cbn [nseq seq map flat_map]. unfold mnet. cbn [map zsum fold_right Z.of_nat]. rewrite Z.mul_0_l. lia.
  - unfold nseq in *. rewrite seq_S, !map_app, flat_map_app, mnet_app, IH. cbn [map flat_map Nat.add]. rewrite app_nil_r.
    fold (nseq k). replace (Z.of_nat m + 1 - 1) with (Z.of_nat m) by lia. rewrite (strip_net u v k _ _ Hk).
    replace (Z.of_nat m + 1) with (Z.of_nat (S m)) by lia. lia.
Qed.
Lemma strips_rev_telescope u v (k : nat) (m : nat) : (1 <= k)%nat ->
  let n := Z.of_nat k in
  mnet u v (flat_map (fun j => map (quad_rev n ((j - 1) * n) (j * n)) (nseq k)) (map (fun i => i + 1) (nseq m)))
  = fnet u v (ring (Z.of_nat m * n) k) - fnet u v (ring 0 k).
Proof.
  intros Hk n. induction m as [|m IH].
  - cbn [nseq seq map flat_map]. unfold mnet. cbn [map zsum fold_right Z.of_nat]. rewrite Z.mul_0_l. lia.
  - unfold nseq in *. rewrite seq_S, !map_app, flat_map_app, mnet_app, IH. cbn [map flat_map Nat.add]. rewrite app_nil_r.
    fold (nseq k). replace (Z.of_nat m + 1 - 1) with (Z.of_nat m) by lia. rewrite (strip_rev_net u v k _ _ Hk).
    replace (Z.of_nat m + 1) with (Z.of_nat (S m)) by lia. lia.
Qed.

Section Revolve.
  Context {T : Type} `{Num T}.
  (* rotate_extrude, partial (two caps) and full (closing ring): no boundary for every profile length and segment count *)
  Theorem rotate_extrude_closed (profile : list (pt2 T)) (degrees : T) (segments : Z) ph :
    rotate_extrude profile degrees segments = Some ph ->
    complete (enumerate profile) -> complete (rev (enumerate profile)) -> closed_net (snd ph).
  Proof.
    unfold rotate_extrude, triangulate2d, triangulate2d_rev.
    destruct (negb _); [discriminate|]. destruct (Z.ltb_spec segments 3) as [|Hs]; [discriminate|].
    destruct (Nat.ltb_spec 3 (length profile)) as [Hn|]; [|discriminate].
    intros E Hc1 Hc2. injection E as <-. cbn [snd]. intros u v.
    set (k := length profile). set (n := Z.of_nat k).
    assert (Hm : segments - 1 = Z.of_nat (Z.to_nat (segments - 1))) by lia.
    set (m := Z.to_nat (segments - 1)) in *.
    assert (Hk : (1 <= k)%nat) by (unfold k; lia).
    pose proof (strips_rev_telescope u v k m Hk) as Ht. cbv zeta in Ht. fold n in Ht.
    destruct (negb (degrees =? nofZ 360)%num).
    - rewrite !mnet_app. rewrite Ht. rewrite (cap_forward u v profile 0) by (fold k; try assumption; lia).
      rewrite (cap_backward u v profile (segments * n)) by (fold k; try assumption; lia).
      fold k. rewrite (strip_rev_net u v k _ _ Hk). rewrite Hm. replace segments with (Z.of_nat m + 1) by lia. lia.
    - cbn [app]. rewrite !mnet_app. rewrite Ht. rewrite (strip_rev_net u v k _ _ Hk). rewrite Hm. lia.
  Qed.
End Revolve.

Section Sweep.
  Context {T : Type} `{Num T}.
  Lemma flat_map_const_length {A B} (f : A -> list B) (l : list A) (c : nat) : (forall x, length (f x) = c) -> length (flat_map f l) = (length l * c)%nat.
  Proof. intros Hf. induction l as [|x l IH]; [reflexivity|]. cbn [flat_map length]. rewrite app_length, Hf, IH. lia. Qed.

  (* sweep along any path of at least two points, open (two caps) or closed (closing ring): no boundary *)
  Theorem sweep_closed (profile : list (pt2 T)) (path : list (pt3 T)) (twist : T) (closed : bool) ph :
    sweep profile path twist closed = Some ph -> (1 <= length profile)%nat ->
    (closed = false -> complete (rev (enumerate profile)) /\
                       complete (enumerate (map (project (sweep_end_normal path)) (sweep_last_points profile path twist closed)))) ->
    closed_net (snd ph).
  Proof.
    unfold sweep. destruct (Z.ltb_spec (Z.of_nat (length path)) 2) as [|Hlen]; [discriminate|].
    set (k := length profile). set (n := Z.of_nat k). set (len := Z.of_nat (length path)) in *.
    assert (Hm : len - 2 = Z.of_nat (Z.to_nat (len - 2))) by lia. set (m := Z.to_nat (len - 2)) in *.
    intros E Hk Hcaps u v.
    pose proof (strips_telescope u v k m Hk) as Ht. cbv zeta in Ht. fold n in Ht.
    destruct closed.
    - injection E as <-. cbn [snd triples app]. rewrite !mnet_app. rewrite Ht. rewrite !(strip_net u v k _ _ Hk).
      replace ((len - 1 - 1) * n) with (Z.of_nat m * n) by lia. lia.
    - destruct (Hcaps eq_refl) as [Hc1 Hc2]. clear Hcaps.
      unfold triangulate2d_rev, triangulate3d in E.
      destruct (Nat.ltb_spec 3 (length profile)) as [Hn|]; [|discriminate].
      assert (Hlp : length (sweep_last_points profile path twist false) = k) by (unfold sweep_last_points; rewrite !map_length; reflexivity).
      rewrite Hlp in E. fold k in E. destruct (Nat.ltb_spec 3 k); [|unfold k in *; lia].
      destruct (projectable (sweep_end_normal path)); [|discriminate].
      injection E as <-. cbn [snd]. rewrite !mnet_app. rewrite Ht. rewrite !(strip_net u v k _ _ Hk).
      rewrite (cap_backward u v profile 0) by (fold k; try assumption; lia). fold k.
      set (poly2 := map (project (sweep_end_normal path)) (sweep_last_points profile path twist false)) in *.
      assert (Hl2 : length poly2 = k) by (unfold poly2; rewrite map_length; exact Hlp).
      assert (H3 : (3 <= length poly2)%nat) by lia.
      rewrite (cap_forward u v poly2 _ H3 Hc2). rewrite Hl2.
      (* the end cap's offset is the index of the last ring *)
      match goal with |- context [ring (Z.of_nat (length ?P) - n) k] => assert (Hoff : Z.of_nat (length P) - n = (len - 1) * n) end.
      { rewrite !app_length, !map_length, Hlp. fold k.
        rewrite (flat_map_const_length _ _ k) by (intros x; rewrite !map_length; reflexivity).
        rewrite map_length. unfold nseq. rewrite map_length, seq_length. fold m. unfold n. nia. }
      rewrite Hoff. replace ((len - 1 - 1) * n) with (Z.of_nat m * n) by lia. lia.
  Qed.
End Sweep.

(* ---- faces are well formed: at least three distinct vertices, all in range ---- *)
Definition face_ok (npts : Z) (f : list Z) : Prop := (3 <= length f)%nat /\ NoDup f /\ Forall (fun i => 0 <= i < npts) f.

Lemma quad_nodup n ra rb p : 2 <= n -> 0 <= p < n -> (ra + n <= rb \/ rb + n <= ra) ->
  NoDup (quad n ra rb p) /\ NoDup (quad_rev n ra rb p).
Proof.
  intros Hn Hp Hr. unfold quad, quad_rev.
  assert (Hm : 0 <= (p + 1) mod n < n) by (apply Z.mod_pos_bound; lia).
  assert (Hne : (p + 1) mod n <> p).
  { destruct (Z.eq_dec (p + 1) n) as [E | E].
    - rewrite E, Z.mod_same by lia. lia.
    - rewrite Z.mod_small by lia. lia. }
  split; repeat constructor; cbn [In]; intuition lia.
Qed.
Lemma quad_range n ra rb p lo hi : 1 <= n -> 0 <= p < n -> lo <= ra -> lo <= rb -> ra + n <= hi -> rb + n <= hi ->
  Forall (fun i => lo <= i < hi) (quad n ra rb p) /\ Forall (fun i => lo <= i < hi) (quad_rev n ra rb p).
Proof.
  intros Hn Hp H1 H2 H3 H4. assert (Hm : 0 <= (p + 1) mod n < n) by (apply Z.mod_pos_bound; lia).
  unfold quad, quad_rev. split; repeat constructor; lia.
Qed.

Section FacesOk.
  Context {T : Type} `{Num T}.
  Lemma cap_faces_ok (poly : list (@vtx T)) off n : NoDup (map fst poly) -> (forall i, In i (map fst poly) -> 0 <= i < n) ->
    Forall (fun f => length f = 3%nat /\ NoDup f /\ Forall (fun i => off <= i < off + n) f) (triples (triangulate poly) off).
  Proof.
    intros Hnd Hr. rewrite triangulate_run, triples_idx3. rewrite Forall_map.
    pose proof (clipv_distinct (ref_ccw poly) (length poly) poly Hnd) as Hd. fold (run poly) in Hd.
    destruct (clipv_vertices (ref_ccw poly) (length poly) poly) as [Hv _]. fold (run poly) in Hv.
    rewrite Forall_forall in *. intros [[a b] c] Ht. specialize (Hd _ Ht). specialize (Hv _ Ht). cbn beta iota in Hv.
    destruct Hd as (D1 & D2 & D3). destruct Hv as (Va & Vb & Vc).
    pose proof (Hr _ (in_map fst _ _ Va)). pose proof (Hr _ (in_map fst _ _ Vb)). pose proof (Hr _ (in_map fst _ _ Vc)).
    split; [reflexivity|]. split; [repeat constructor; cbn [In]; intuition lia|repeat constructor; lia].
  Qed.
  Lemma enumerate_nodup (v : list (pt2 T)) : NoDup (map fst (enumerate v)).
  Proof. rewrite enumerate_fst. apply FinFun.Injective_map_NoDup; [intros a b; apply Nat2Z.inj|apply seq_NoDup]. Qed.
  Lemma enumerate_range (v : list (pt2 T)) i : In i (map fst (enumerate v)) -> 0 <= i < Z.of_nat (length v).
  Proof. rewrite enumerate_fst. intros Hi. apply in_map_iff in Hi. destruct Hi as [k [<- Hk]]. apply in_seq in Hk. lia. Qed.

  Lemma two_caps_and_strip_ok (lower upper : list (pt2 T)) : length lower = length upper -> (3 <= length lower)%nat ->
    let n := Z.of_nat (length lower) in
    Forall (face_ok (2 * n)) (triples (triangulate (rev (enumerate lower))) 0 ++ triples (triangulate (enumerate upper)) n ++
                              map (quad n 0 n) (nseq (length lower))).
  Proof.
    intros Hl Hn n. apply Forall_app. split; [|apply Forall_app; split].
    - eapply Forall_impl; [|apply (cap_faces_ok (rev (enumerate lower)) 0 n)].
      + intros f (L & D & R). split; [lia|]. split; [exact D|]. eapply Forall_impl; [|exact R]. cbv beta. intros. lia.
      + rewrite map_rev. apply NoDup_rev. apply enumerate_nodup.
      + intros i Hi. rewrite map_rev in Hi. apply in_rev in Hi. apply enumerate_range. exact Hi.
    - eapply Forall_impl; [|apply (cap_faces_ok (enumerate upper) n n)].
      + intros f (L & D & R). split; [lia|]. split; [exact D|]. eapply Forall_impl; [|exact R]. cbv beta. intros. lia.
      + apply enumerate_nodup.
      + intros i Hi. unfold n. rewrite Hl. apply enumerate_range. exact Hi.
    - rewrite Forall_map. rewrite Forall_forall. intros p Hp. unfold nseq in Hp. apply in_map_iff in Hp. destruct Hp as [j [<- Hj]]. apply in_seq in Hj.
      split; [cbn; lia|]. split.
      + apply (quad_nodup n 0 n (Z.of_nat j)); unfold n; lia.
      + apply (quad_range n 0 n (Z.of_nat j) 0 (2 * n)); unfold n; lia.
  Qed.
  Theorem linear_extrude_faces_ok (pts : list (pt2 T)) (h : T) ph : linear_extrude pts h = Some ph ->
    let n := Z.of_nat (length pts) in Z.of_nat (length (fst ph)) = 2 * n /\ Forall (face_ok (2 * n)) (snd ph).
  Proof.
    unfold linear_extrude, triangulate2d, triangulate2d_rev. destruct (Nat.ltb_spec 3 (length pts)) as [Hn|]; [|discriminate].
    intros E. injection E as <-. cbn [fst snd]. split; [rewrite app_length, !map_length; lia|].
    apply two_caps_and_strip_ok; [reflexivity|lia].
  Qed.
  Theorem loft_faces_ok (lower upper : list (pt2 T)) (h : T) ph : loft lower upper h = Some ph ->
    let n := Z.of_nat (length lower) in Z.of_nat (length (fst ph)) = 2 * n /\ Forall (face_ok (2 * n)) (snd ph).
  Proof.
    unfold loft, triangulate2d, triangulate2d_rev. destruct (Nat.eqb_spec (length lower) (length upper)) as [Hl|]; [|discriminate]. cbn [negb].
    destruct (Nat.ltb_spec 3 (length lower)) as [Hn|]; [|discriminate]. destruct (Nat.ltb_spec 3 (length upper)); [|lia].
    intros E. injection E as <-. cbn [fst snd]. split; [rewrite app_length, !map_length; lia|].
    apply two_caps_and_strip_ok; [assumption|lia].
  Qed.
End FacesOk.
