(* Geom/Volume_proofs.v -- the volume of a linear extrusion is profile area times height (C05). Over R.
   vol6 = six times the signed volume enclosed by the faces (each face fanned from its first vertex, counter-clockwise
   seen from outside counted positive); the library winds faces clockwise seen from outside, so a clockwise profile
   (area2 < 0) gives vol6 = 3 h area2 < 0, i.e. enclosed volume -vol6/6 = h * |area|. *)
From Coq Require Import Reals ZArith List Bool Arith Lra Lia.
From SCAD Require Import Base.Num Base.NumR Base.Vec Geom.Poly Geom.Tri Geom.Tri_proofs Geom.Dim3 Geom.Mesh_proofs.
From SCAD Require Geom.Cyc.
Import ListNotations.
Local Open Scope R_scope.
Notation V3 := (pt3 R). Notation V2 := (pt2 R).

Definition det3 (a b c : V3) : R :=
  x3 a * (y3 b * z3 c - z3 b * y3 c) - y3 a * (x3 b * z3 c - z3 b * x3 c) + z3 a * (x3 b * y3 c - y3 b * x3 c).
Definition ptz (vs : list V3) (i : Z) : V3 := nth (Z.to_nat i) vs (Pt3 0 0 0).
Fixpoint fan (vs : list V3) (a : Z) (l : list Z) : R :=
  match l with
  | b :: ((c :: _) as tl) => det3 (ptz vs a) (ptz vs b) (ptz vs c) + fan vs a tl
  | _ => 0
  end.
Definition face_vol6 (vs : list V3) (f : list Z) : R := match f with a :: rest => fan vs a rest | [] => 0 end.
Definition vol6 (vs : list V3) (F : list (list Z)) : R := fold_right (fun f s => face_vol6 vs f + s) 0 F.
Lemma vol6_app vs F G : vol6 vs (F ++ G) = vol6 vs F + vol6 vs G.
Proof. unfold vol6. induction F as [|f F IH]; cbn [app fold_right]; [ring|]. rewrite IH. ring. Qed.

(* ---- cyclic sums over R by index ---- *)
Definition rsum (l : list R) : R := fold_right Rplus 0 l.
Lemma rsum_app a b : rsum (a ++ b) = rsum a + rsum b.
Proof. unfold rsum. induction a as [|x a IH]; cbn [app fold_right]; [ring|]. rewrite IH. ring. Qed.
Lemma open_area2_indexed (f : nat -> V2) : forall k s,
  open_area2 (map f (seq s (S k))) = rsum (map (fun i => cross2 (f i) (f (S i))) (seq s k)).
Proof.
  induction k as [|k IH]; intros s; [reflexivity|]. cbn [seq map]. cbn [seq map] in IH. specialize (IH (S s)).
  change (open_area2 (f s :: f (S s) :: map f (seq (S (S s)) k))) with (nadd (cross2 (f s) (f (S s))) (open_area2 (f (S s) :: map f (seq (S (S s)) k)))).
  rewrite IH. reflexivity.
Qed.
Lemma area2_indexed (l : list V2) (d : V2) : (1 <= length l)%nat ->
  Poly.area2 l = rsum (map (fun p => cross2 (nth p l d) (nth (next_i (length l) p) l d)) (seq 0 (length l))).
Proof.
  intros Hl. set (k := length l). set (f := fun i => nth i l d).
  assert (El : l = map f (seq 0 k)).
  { apply (nth_ext _ _ d (f 0%nat)); [rewrite map_length, seq_length; reflexivity|]. intros i Hi. rewrite (map_nth f), seq_nth by exact Hi. reflexivity. }
  destruct k as [|k'] eqn:Ek; [unfold k in Ek; lia|].
  rewrite El at 1. change (map f (seq 0 (S k'))) with (f 0%nat :: map f (seq 1 k')). cbv beta iota delta [Poly.area2].
  change (f 0%nat :: map f (seq 1 k')) with (map f (seq 0 (S k'))). rewrite open_area2_indexed.
  assert (Hlast : last (map f (seq 0 (S k'))) (f 0%nat) = f k').
  { rewrite seq_S, map_app. cbn [map Nat.add]. apply Cyc.last_app_cons. }
  rewrite Hlast. rewrite (seq_S k' 0), map_app, rsum_app. cbn [map rsum fold_right Nat.add].
  unfold next_i. replace (Nat.eqb k' (S k' - 1)) with true by (symmetry; apply Nat.eqb_eq; lia).
  change (nadd ?a ?b) with (a + b). fold f. rewrite Rplus_0_r. f_equal.
  f_equal. apply map_ext_in. intros i Hi. apply in_seq in Hi. replace (Nat.eqb i (S k' - 1)) with false by (symmetry; apply Nat.eqb_neq; lia).
  replace (i + 1)%nat with (S i) by lia. reflexivity.
Qed.

(* ---- the vertices of a prism ---- *)
Definition prism_pts (pts : list V2) (h : R) : list V3 := map (fun p => Pt3 (x2 p) (y2 p) 0) pts ++ map (fun p => Pt3 (x2 p) (y2 p) h) pts.
Lemma prism_low pts h (i : Z) d : (0 <= i < Z.of_nat (length pts))%Z -> ptz (prism_pts pts h) i = Pt3 (x2 (nth (Z.to_nat i) pts d)) (y2 (nth (Z.to_nat i) pts d)) 0.
Proof.
  intros Hi. unfold ptz, prism_pts. rewrite app_nth1 by (rewrite map_length; lia).
  set (g := fun p : V2 => Pt3 (x2 p) (y2 p) 0). rewrite (nth_indep _ (Pt3 0 0 0) (g d)) by (rewrite map_length; lia). rewrite (map_nth g). reflexivity.
Qed.
Lemma prism_high pts h (i : Z) d : (0 <= i < Z.of_nat (length pts))%Z -> ptz (prism_pts pts h) (i + Z.of_nat (length pts)) = Pt3 (x2 (nth (Z.to_nat i) pts d)) (y2 (nth (Z.to_nat i) pts d)) h.
Proof.
  intros Hi. unfold ptz, prism_pts. rewrite app_nth2 by (rewrite map_length; lia). rewrite map_length.
  replace (Z.to_nat (i + Z.of_nat (length pts)) - length pts)%nat with (Z.to_nat i) by lia.
  set (g := fun p : V2 => Pt3 (x2 p) (y2 p) h). rewrite (nth_indep _ (Pt3 0 0 0) (g d)) by (rewrite map_length; lia). rewrite (map_nth g). reflexivity.
Qed.

(* every vertex of enumerate pts carries the point at its own index *)
Lemma enumerate_in (pts : list V2) (a : Z * V2) d : In a (enumerate pts) -> (0 <= fst a < Z.of_nat (length pts))%Z /\ snd a = nth (Z.to_nat (fst a)) pts d.
Proof.
  unfold enumerate. intros Hin. apply (In_nth _ _ (0%Z, d)) in Hin. destruct Hin as (i & Hi & E).
  rewrite combine_length, map_length, seq_length, Nat.min_id in Hi. rewrite combine_nth in E by (rewrite map_length, seq_length; reflexivity).
  rewrite (nth_indep _ 0%Z (Z.of_nat 0)) in E by (rewrite map_length, seq_length; exact Hi). rewrite (map_nth Z.of_nat), seq_nth in E by exact Hi.
  subst a. cbn [fst snd]. split; [lia|]. rewrite Nat2Z.id. reflexivity.
Qed.

(* ---- the volume contributed by a cap ---- *)
Definition tri_det (vs : list V3) (off : Z) (t : @tri3 R) : R :=
  let '(a, b, c) := t in det3 (ptz vs (fst a + off)) (ptz vs (fst b + off)) (ptz vs (fst c + off)).
Lemma vol6_triples vs (tris : list (@tri3 R)) off : vol6 vs (triples (flat_map idx3 tris) off) = rsum (map (tri_det vs off) tris).
Proof.
  rewrite triples_idx3. unfold vol6, rsum. induction tris as [|[[a b] c] tl IH]; [reflexivity|]. cbn [map fold_right]. rewrite IH.
  unfold face_vol6. cbn [fan tri_det]. ring.
Qed.

Section Prism.
  Variables (pts : list V2) (h : R).
  Let n := Z.of_nat (length pts).
  Let vs := prism_pts pts h.
  Lemma bottom_tri_zero (t : @tri3 R) (poly : list (Z * V2)) : (forall a, In a poly -> In a (enumerate pts)) ->
    (let '(a, b, c) := t in In a poly /\ In b poly /\ In c poly) -> tri_det vs 0 t = 0.
  Proof.
    intros Hsub. destruct t as [[a b] c]. intros (Ha & Hb & Hc). unfold tri_det. rewrite !Z.add_0_r.
    destruct (enumerate_in pts a (Pt2 0 0) (Hsub a Ha)) as [Ra _]. destruct (enumerate_in pts b (Pt2 0 0) (Hsub b Hb)) as [Rb _]. destruct (enumerate_in pts c (Pt2 0 0) (Hsub c Hc)) as [Rc _].
    unfold vs. rewrite (prism_low pts h (fst a) (Pt2 0 0) Ra), (prism_low pts h (fst b) (Pt2 0 0) Rb), (prism_low pts h (fst c) (Pt2 0 0) Rc).
    unfold det3. cbn [x3 y3 z3]. ring.
  Qed.
  Lemma top_tri_area (t : @tri3 R) : (let '(a, b, c) := t in In a (enumerate pts) /\ In b (enumerate pts) /\ In c (enumerate pts)) ->
    tri_det vs n t = h * Tri_proofs.tri_area2 t.
  Proof.
    destruct t as [[a b] c]. intros (Ha & Hb & Hc). unfold tri_det.
    destruct (enumerate_in pts a (Pt2 0 0) Ha) as [Ra Ea]. destruct (enumerate_in pts b (Pt2 0 0) Hb) as [Rb Eb]. destruct (enumerate_in pts c (Pt2 0 0) Hc) as [Rc Ec].
    unfold vs, n. rewrite (prism_high pts h (fst a) (Pt2 0 0) Ra), (prism_high pts h (fst b) (Pt2 0 0) Rb), (prism_high pts h (fst c) (Pt2 0 0) Rc).
    rewrite <- Ea, <- Eb, <- Ec. unfold det3, Tri_proofs.tri_area2, Tri_proofs.cross. cbn [x3 y3 z3]. ring.
  Qed.
End Prism.

Lemma open_area2_osum (m : list V2) : open_area2 m = Cyc.osum V2 R 0 Rplus cross2 m.
Proof.
  induction m as [|x m IH]; [reflexivity|]. destruct m as [|y m]; [reflexivity|].
  change (open_area2 (x :: y :: m)) with (cross2 x y + open_area2 (y :: m)). rewrite IH. reflexivity.
Qed.
Lemma poly_area2_csum (l : list V2) : Poly.area2 l = Cyc.csum V2 R 0 Rplus cross2 l.
Proof. destruct l as [|a l]; [reflexivity|]. unfold Poly.area2, Cyc.csum. rewrite open_area2_osum. reflexivity. Qed.
Lemma osum_map_sndR (l : list (Z * V2)) :
  Cyc.osum (Z * V2) R 0 Rplus Tri_proofs.cross l = Cyc.osum V2 R 0 Rplus cross2 (map snd l).
Proof.
  induction l as [|a l IH]; [reflexivity|]. destruct l as [|b l]; [reflexivity|]. cbn [map] in *.
  change (Cyc.osum (Z * V2) R 0 Rplus Tri_proofs.cross (a :: b :: l)) with (Tri_proofs.cross a b + Cyc.osum (Z * V2) R 0 Rplus Tri_proofs.cross (b :: l)).
  change (Cyc.osum V2 R 0 Rplus cross2 (snd a :: snd b :: map snd l)) with (cross2 (snd a) (snd b) + Cyc.osum V2 R 0 Rplus cross2 (snd b :: map snd l)).
  rewrite IH. reflexivity.
Qed.
Lemma vtx_area2_is_poly_area2 (l : list (Z * V2)) : Tri_proofs.area2 l = Poly.area2 (map snd l).
Proof.
  rewrite poly_area2_csum. destruct l as [|a l]; [reflexivity|]. unfold Tri_proofs.area2, Cyc.csum. cbn [map]. f_equal; [apply (osum_map_sndR (a :: l))|].
  change (snd a :: map snd l) with (map snd (a :: l)). rewrite (Mesh_proofs.last_map snd (a :: l) a). reflexivity.
Qed.
Lemma enumerate_snd (pts : list V2) : map snd (enumerate pts) = pts.
Proof.
  unfold enumerate. set (l := map Z.of_nat (seq 0 (length pts))). assert (Hl : length l = length pts) by (unfold l; rewrite map_length, seq_length; reflexivity).
  clearbody l. revert l Hl. induction pts as [|p pts IH]; intros [|z l] Hl; try discriminate; [reflexivity|]. cbn [combine map snd]. f_equal. apply IH. cbn [length] in Hl. lia.
Qed.

Lemma next_modZ (k j : nat) : (j < k)%nat -> Z.to_nat ((Z.of_nat j + 1) mod Z.of_nat k) = next_i k j.
Proof.
  intros Hj. unfold next_i. destruct (Nat.eqb_spec j (k - 1)) as [E|E].
  - replace (Z.of_nat j + 1)%Z with (Z.of_nat k) by lia. rewrite Z.mod_same by lia. reflexivity.
  - rewrite Z.mod_small by lia. lia.
Qed.

Lemma rsum_map_ext_in {A} (f g : A -> R) l : (forall t, In t l -> f t = g t) -> rsum (map f l) = rsum (map g l).
Proof. intros E. f_equal. apply map_ext_in. exact E. Qed.
Lemma rsum_map_scal {A} (c : R) (F : A -> R) l : rsum (map (fun t => c * F t) l) = c * rsum (map F l).
Proof. unfold rsum. induction l as [|a l IH]; cbn [map fold_right]; [ring|]. rewrite IH. ring. Qed.
Lemma sum_area2_rsum (l : list (@tri3 R)) : sum_area2 l = rsum (map Tri_proofs.tri_area2 l).
Proof. unfold sum_area2, rsum. induction l as [|a l IH]; cbn [map fold_right]; [reflexivity|]. rewrite IH. reflexivity. Qed.
Lemma rsum_map_zero {A} (F : A -> R) l : (forall t, In t l -> F t = 0) -> rsum (map F l) = 0.
Proof. unfold rsum. induction l as [|a l IH]; intros Hz; cbn [map fold_right]; [reflexivity|]. rewrite Hz by (left; reflexivity). rewrite IH; [ring|]. intros t Ht. apply Hz. right. exact Ht. Qed.

(* THE VOLUME OF A LINEAR EXTRUSION: six times the signed volume is 3 h (twice the signed profile area) *)
Theorem linear_extrude_volume (pts : list V2) (h : R) ph : linear_extrude pts h = Some ph ->
  complete (enumerate pts) -> vol6 (fst ph) (snd ph) = 3 * h * Poly.area2 pts.
Proof.
  unfold linear_extrude, triangulate2d, triangulate2d_rev. destruct (Nat.ltb_spec 3 (length pts)) as [Hn|]; [|discriminate].
  intros E Hc. assert (E' : forall (A : Type) (a b : A), Some a = Some b -> a = b) by (intros A a b Q; inversion Q; reflexivity); apply E' in E. rewrite <- E. clear E ph. cbv beta iota delta [fst snd].
  change (map (fun p : pt2 R => pt2_as_pt3 p nzero) pts ++ map (fun p : pt2 R => pt2_as_pt3 p h) pts) with (prism_pts pts h).
  set (k := length pts). set (n := Z.of_nat k).
  rewrite !vol6_app. rewrite !triangulate_run, !vol6_triples.
  (* bottom cap: all z = 0 *)
  assert (Hbot : rsum (map (tri_det (prism_pts pts h) 0) (fst (run (rev (enumerate pts))))) = 0).
  { destruct (clipv_vertices (ref_ccw (rev (enumerate pts))) (length (rev (enumerate pts))) (rev (enumerate pts))) as [HF _]. fold (run (rev (enumerate pts))) in HF.
    rewrite Forall_forall in HF. apply rsum_map_zero. intros t Ht.
    apply (bottom_tri_zero pts h t (rev (enumerate pts))); [intros a Ha; apply in_rev; exact Ha|apply HF; exact Ht]. }
  rewrite Hbot.
  (* top cap: h times the triangle areas, which add up to the polygon area *)
  assert (Htop : rsum (map (tri_det (prism_pts pts h) n) (fst (run (enumerate pts)))) = h * Poly.area2 pts).
  { unfold n, k in *. assert (Hl : (3 <= length (enumerate pts))%nat) by (rewrite enumerate_length; lia).
    destruct (complete_area (enumerate pts) Hl Hc) as (Hsum & _). rewrite vtx_area2_is_poly_area2, enumerate_snd in Hsum. rewrite <- Hsum.
    destruct (clipv_vertices (ref_ccw (enumerate pts)) (length (enumerate pts)) (enumerate pts)) as [HF _]. fold (run (enumerate pts)) in HF.
    rewrite Forall_forall in HF. rewrite sum_area2_rsum, <- rsum_map_scal. apply rsum_map_ext_in. intros t Ht. apply (top_tri_area pts h t). apply HF. exact Ht. }
  rewrite Htop.
  (* side quads: 2 h cross(P_p, P_p') each *)
  assert (Hside : vol6 (prism_pts pts h) (map (quad n 0 n) (nseq k)) = 2 * h * Poly.area2 pts).
  { rewrite (area2_indexed pts (Pt2 0 0)) by (fold k; lia). fold k.
    unfold vol6, nseq. rewrite map_map.
    assert (G : forall l : list nat, (forall j, In j l -> (j < k)%nat) ->
              fold_right (fun f s => face_vol6 (prism_pts pts h) f + s) 0 (map (fun x => quad n 0 n (Z.of_nat x)) l) =
              2 * h * rsum (map (fun p => cross2 (nth p pts (Pt2 0 0)) (nth (next_i k p) pts (Pt2 0 0))) l)).
    { induction l as [|j l IH]; intros Hall; [cbn; ring|]. cbn [map fold_right rsum]. fold (rsum (map (fun p => cross2 (nth p pts (Pt2 0 0)) (nth (next_i k p) pts (Pt2 0 0))) l)).
      rewrite IH by (intros j' Hj'; apply Hall; right; exact Hj'). assert (Hj : (j < k)%nat) by (apply Hall; left; reflexivity).
      unfold quad, face_vol6. cbn [fan]. rewrite !Z.add_0_l.
      assert (Hm : (0 <= (Z.of_nat j + 1) mod n < n)%Z) by (apply Z.mod_pos_bound; unfold n; lia).
      rewrite (prism_low pts h (Z.of_nat j) (Pt2 0 0)) by (fold k; lia). rewrite (prism_low pts h ((Z.of_nat j + 1) mod n) (Pt2 0 0)) by (fold k n; lia).
      replace (n + (Z.of_nat j + 1) mod n)%Z with ((Z.of_nat j + 1) mod n + Z.of_nat (length pts))%Z by (fold k n; lia).
      replace (n + Z.of_nat j)%Z with (Z.of_nat j + Z.of_nat (length pts))%Z by (fold k n; lia).
      rewrite (prism_high pts h ((Z.of_nat j + 1) mod n) (Pt2 0 0)) by (fold k n; lia). rewrite (prism_high pts h (Z.of_nat j) (Pt2 0 0)) by (fold k; lia).
      rewrite Nat2Z.id. unfold n. rewrite (next_modZ k j Hj). unfold det3, cross2. cbn [x3 y3 z3 nmul nsub NumR]. ring. }
    apply G. intros j Hj. apply in_seq in Hj. lia. }
  rewrite Hside. ring.
Qed.
