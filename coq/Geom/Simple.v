(* Geom/Simple.v -- C07: the convex outlines are simple polygons. Over R.
   An outline is simple when its vertices are pairwise distinct and two edges that are not neighbours share no point
   (closed segments). Every outline in strictly convex position (Tri_convex.conv: all increasing triples of vertices turn
   the same way) is simple; hence circle, inscribed_polygon and circumscribed_polygon for every segment count >= 3. *)
From Coq Require Import Reals ZArith List Bool Arith Lra Lia.
From SCAD Require Import Base.Num Base.NumR Base.Trig_proofs Base.Vec Geom.Poly Geom.Tri Geom.Tri_proofs Geom.Dim2 Geom.Dim2_proofs Geom.Tri_convex.
Import ListNotations.
Local Open Scope R_scope.

(* the closed segments [a,b] and [c,d] have a common point *)
Definition seg_meet (a b c d : V2) : Prop :=
  exists s t, 0 <= s <= 1 /\ 0 <= t <= 1 /\
    x2 a + s * (x2 b - x2 a) = x2 c + t * (x2 d - x2 c) /\ y2 a + s * (y2 b - y2 a) = y2 c + t * (y2 d - y2 c).

Definition vertex (l : list V2) (i : nat) : V2 := nth i l (Pt2 0 0).
Definition neighbours (n i j : nat) : Prop := j = next_i n i \/ i = next_i n j.
(* simple closed outline: distinct vertices, non-neighbouring edges disjoint *)
Definition simple (l : list V2) : Prop :=
  let n := length l in
  (forall i j, (i < j)%nat -> (j < n)%nat -> vertex l i <> vertex l j) /\
  (forall i j, (i < n)%nat -> (j < n)%nat -> i <> j -> ~ neighbours n i j ->
     ~ seg_meet (vertex l i) (vertex l (next_i n i)) (vertex l j) (vertex l (next_i n j))).

(* both ends of [c,d] strictly on one side of the line through a and b: the segments cannot meet *)
Lemma one_side_no_meet (a b c d : V2) :
  (orientR a b c < 0 /\ orientR a b d < 0) \/ (0 < orientR a b c /\ 0 < orientR a b d) -> ~ seg_meet a b c d.
Proof.
  intros Hside (s & t & Hs & Ht & Ex & Ey). unfold orientR in Hside.
  destruct a as [ax ay], b as [bx by_], c as [cx cy], d as [dx dy]. cbn [x2 y2] in *.
  (* the common point q = c + t (d - c) lies on the line ab: its orientation is 0, but it is a convex combination of two
     orientations of one strict sign *)
  assert (Hq : (bx - ax) * ((cy + t * (dy - cy)) - ay) - ((cx + t * (dx - cx)) - ax) * (by_ - ay) = 0).
  { rewrite <- Ex, <- Ey. ring. }
  assert (Hlin : (bx - ax) * ((cy + t * (dy - cy)) - ay) - ((cx + t * (dx - cx)) - ax) * (by_ - ay)
               = (1 - t) * ((bx - ax) * (cy - ay) - (cx - ax) * (by_ - ay)) + t * ((bx - ax) * (dy - ay) - (dx - ax) * (by_ - ay))) by ring.
  rewrite Hlin in Hq. clear Hlin Ex Ey.
  set (A := (bx - ax) * (cy - ay) - (cx - ax) * (by_ - ay)) in *. set (B := (bx - ax) * (dy - ay) - (dx - ax) * (by_ - ay)) in *.
  destruct (Rle_dec t (1 / 2)) as [Hle|Hgt]; destruct Hside as [[H1 H2]|[H1 H2]].
  - assert ((1 - t) * A <= (1 / 2) * A) by nra. assert (t * B <= 0) by nra. lra.
  - assert ((1 / 2) * A <= (1 - t) * A) by nra. assert (0 <= t * B) by nra. lra.
  - assert (t * B <= (1 / 2) * B) by nra. assert ((1 - t) * A <= 0) by nra. lra.
  - assert ((1 / 2) * B <= t * B) by nra. assert (0 <= (1 - t) * A) by nra. lra.
Qed.
Lemma seg_meet_sym a b c d : seg_meet a b c d -> seg_meet c d a b.
Proof. intros (s & t & Hs & Ht & Ex & Ey). exists t, s. repeat split; try tauto; lra. Qed.

Lemma conv_orient sigma (p : list vtxR) i j k : conv sigma p -> (i < j)%nat -> (j < k)%nat -> (k < length p)%nat ->
  (if sigma then 0 < orientR (pt_at p i) (pt_at p j) (pt_at p k) else orientR (pt_at p i) (pt_at p j) (pt_at p k) < 0).
Proof. intros Hc. apply Hc. Qed.

(* every other vertex lies strictly on the inner side of every edge, the closing edge included *)
Lemma conv_side sigma (p : list vtxR) i j : conv sigma p -> (i < length p)%nat -> (j < length p)%nat -> j <> i -> j <> next_i (length p) i ->
  (if sigma then 0 < orientR (pt_at p i) (pt_at p (next_i (length p) i)) (pt_at p j)
   else orientR (pt_at p i) (pt_at p (next_i (length p) i)) (pt_at p j) < 0).
Proof.
  intros Hc Hi Hj N1 N2. unfold next_i in *. destruct (Nat.eqb_spec i (length p - 1)) as [E|E].
  - (* closing edge (p_{n-1}, p_0), 0 < j < n-1 *)
    rewrite (orient_rot (pt_at p j) (pt_at p i) (pt_at p 0%nat)). rewrite (orient_rot (pt_at p 0%nat) (pt_at p j) (pt_at p i)).
    apply Hc; lia.
  - replace (i + 1)%nat with (S i) in * by lia. destruct (Nat.lt_ge_cases j i) as [Hlt|Hge].
    + rewrite (orient_rot (pt_at p j) (pt_at p i) (pt_at p (S i))). apply Hc; lia.
    + apply Hc; lia.
Qed.

Theorem conv_simple sigma (p : list vtxR) : conv sigma p -> (3 <= length p)%nat -> simple (map snd p).
Proof.
  intros Hc Hn. unfold simple. rewrite map_length. set (n := length p). assert (Hn' : (3 <= n)%nat) by exact Hn.
  assert (Hv : forall i, (i < n)%nat -> vertex (map snd p) i = pt_at p i).
  { intros i Hi. unfold vertex, pt_at, nthv. rewrite (nth_indep _ (Pt2 0 0) (snd dv)) by (rewrite map_length; exact Hi). apply (map_nth snd). }
  assert (Hnx : forall i, (i < n)%nat -> (next_i n i < n)%nat) by (intros i Hi; unfold next_i; destruct (Nat.eqb_spec i (n - 1)); lia).
  split.
  - (* distinct vertices: two equal vertices make a zero orientation with any third *)
    intros i j Hij Hj. change (j < n)%nat in Hj. rewrite (Hv i) by lia. rewrite (Hv j) by lia. intros E.
    destruct (Nat.eq_dec j (n - 1)) as [Ej|Ej].
    + (* a third position k strictly between or before *)
      destruct (Nat.eq_dec i 0) as [E0|E0].
      * pose proof (Hc i 1%nat j ltac:(lia) ltac:(lia) Hj) as H. rewrite E in H. unfold orientR in H. destruct sigma; nra.
      * pose proof (Hc 0%nat i j ltac:(lia) Hij Hj) as H. rewrite E in H. unfold orientR in H. destruct sigma; nra.
    + pose proof (Hc i j (n - 1)%nat Hij ltac:(lia) ltac:(lia)) as H. rewrite E in H. unfold orientR in H. destruct sigma; nra.
  - intros i j Hi Hj Nij Nn. change (i < n)%nat in Hi. change (j < n)%nat in Hj. change (~ neighbours n i j) in Nn.
    change (~ seg_meet (vertex (map snd p) i) (vertex (map snd p) (next_i n i)) (vertex (map snd p) j) (vertex (map snd p) (next_i n j))).
    rewrite (Hv i), (Hv j), (Hv (next_i n i)), (Hv (next_i n j)) by (try apply Hnx; assumption). unfold neighbours in Nn.
    apply one_side_no_meet.
    pose proof (conv_side sigma p i j Hc Hi Hj ltac:(lia) ltac:(intros E; apply Nn; left; exact E)) as S1.
    assert (Hnj : next_i n j <> i) by (intros E; apply Nn; right; symmetry; exact E).
    assert (Hnn : next_i n j <> next_i n i).
    { unfold next_i. destruct (Nat.eqb_spec j (n - 1)), (Nat.eqb_spec i (n - 1)); lia. }
    pose proof (conv_side sigma p i (next_i n j) Hc Hi (Hnx j Hj) Hnj Hnn) as S2.
    fold n in S1, S2. destruct sigma; [right|left]; split; assumption.
Qed.

(* ---- circle, inscribed and circumscribed polygons are simple ---- *)
Lemma enumerate_snd' (c : list V2) : map snd (enumerate c) = c.
Proof.
  unfold enumerate. set (l := map Z.of_nat (seq 0 (length c))). assert (Hl : length l = length c) by (unfold l; rewrite map_length, seq_length; reflexivity).
  clearbody l. revert l Hl. induction c as [|q c IH]; intros [|z l] Hl; try discriminate; [reflexivity|]. cbn [combine map snd]. f_equal. apply IH. cbn [length] in Hl. lia.
Qed.
Theorem circle_simple (radius : R) (segments : Z) (c : list V2) : (3 <= segments)%Z -> radius <> 0 ->
  circle radius segments = Some c -> simple c.
Proof.
  intros Hs Hr Hc. pose proof (circle_convex radius segments c Hs Hr Hc) as Hcv.
  rewrite <- (enumerate_snd' c). apply (conv_simple false); [exact Hcv|].
  rewrite enumerate_length. unfold circle, arc in Hc. cbn [nleb neqb nofZ nzero NumR] in Hc.
  destruct (Rleb 360 360) eqn:E1; [|apply Rleb_false in E1; lra]. destruct (Reqb 360 360) eqn:E2; [|apply Reqb_false in E2; lra].
  inversion Hc. rewrite map_length, zseq_length by lia. lia.
Qed.
Theorem polygons_simple (n_sides : Z) (radius : R) pts : (3 <= n_sides)%Z -> radius <> 0 ->
  (inscribed_polygon n_sides radius = Some pts -> simple pts) /\ (circumscribed_polygon n_sides radius = Some pts -> simple pts).
Proof.
  intros Hn Hr. split; intros E.
  - apply (circle_simple radius n_sides); assumption.
  - unfold circumscribed_polygon, inscribed_polygon in E. apply (circle_simple _ n_sides pts Hn) in E; [exact E|].
    assert (Hn3 : 3 <= IZR n_sides) by (apply IZR_le; exact Hn).
    assert (Hcos : 0 < dcos (180 / IZR n_sides)).
    { rewrite dcos_def. pose proof PI_RGT_0. apply cos_gt_0.
      - apply Rlt_trans with 0; [lra|]. apply Rdiv_lt_0_compat; [|lra]. apply Rmult_lt_0_compat; [apply Rdiv_lt_0_compat; lra|lra].
      - apply (Rmult_lt_reg_r (180 / PI)); [apply Rdiv_lt_0_compat; lra|]. field_simplify; [|lra|split; lra].
        apply (Rmult_lt_reg_r (IZR n_sides)); [lra|]. field_simplify; lra. }
    cbn [ndiv nofZ NumR]. intros E0. apply Rmult_integral_contrapositive_currified in E0; [exact E0|exact Hr|]. apply Rinv_neq_0_compat. lra.
Qed.

(* ---- the chamfer outline is simple for 0 < oversize < size (for oversize >= size it crosses itself: Dim2_proofs) ---- *)
Lemma no_meet_by_sides (a b c d : V2) :
  (orientR a b c < 0 /\ orientR a b d < 0) \/ (0 < orientR a b c /\ 0 < orientR a b d) \/
  (orientR c d a < 0 /\ orientR c d b < 0) \/ (0 < orientR c d a /\ 0 < orientR c d b) -> ~ seg_meet a b c d.
Proof.
  intros [H|[H|[H|H]]]; [apply one_side_no_meet; left; exact H|apply one_side_no_meet; right; exact H| |];
    intros M; apply seg_meet_sym in M; revert M; apply one_side_no_meet; [left|right]; exact H.
Qed.
Ltac sides := apply no_meet_by_sides; unfold orientR; cbn [x2 y2];
  first [ left; split; nra | right; left; split; nra | right; right; left; split; nra | right; right; right; split; nra ].

Theorem chamfer_simple (size oversize : R) : 0 < oversize -> oversize < size -> simple (chamfer size oversize).
Proof.
  intros Ho Hs. unfold simple, chamfer. cbn [length nzero nadd NumR]. split.
  - intros i j Hij Hj. unfold vertex.
    do 7 (destruct i as [|i]; [do 7 (destruct j as [|j]; [try lia; cbn [nth]; intros E; inversion E; lra|]); lia|]); lia.
  - intros i j Hi Hj Nij Nn. unfold neighbours, next_i in Nn. unfold vertex, next_i.
    do 7 (destruct i as [|i]; [do 7 (destruct j as [|j]; [try (exfalso; apply Nij; reflexivity); try (exfalso; apply Nn; cbn; lia); cbn [nth Nat.eqb Nat.add Nat.sub]; sides|]); lia|]); lia.
Qed.

(* and it is not simple once oversize reaches size: vertices 2 and 3 coincide when they are equal, and beyond that the
   edges 1 and 3 cross at (oversize, oversize) *)
Theorem chamfer_not_simple (size oversize : R) : 0 < size -> size <= oversize -> ~ simple (chamfer size oversize).
Proof.
  intros Hs Hle [Hd Hm]. unfold chamfer in *. cbn [length nzero nadd NumR] in *. destruct (Req_dec size oversize) as [E|N].
  - apply (Hd 2%nat 3%nat); [lia|lia|]. unfold vertex. cbn [nth]. rewrite E. reflexivity.
  - apply (Hm 1%nat 3%nat); [lia|lia|lia|unfold neighbours, next_i; cbn; lia|].
    unfold vertex, next_i. cbn [nth Nat.eqb Nat.add Nat.sub]. exists (size / oversize), ((oversize - size) / oversize). cbn [x2 y2].
    assert (Ho : 0 < oversize) by lra.
    assert (0 <= size / oversize <= 1).
    { split; [apply Rlt_le, Rdiv_lt_0_compat; lra|]. apply (Rmult_le_reg_r oversize); [lra|]. unfold Rdiv. rewrite Rmult_assoc, Rinv_l by lra. lra. }
    assert (0 <= (oversize - size) / oversize <= 1).
    { split; [apply Rmult_le_pos; [lra|left; apply Rinv_0_lt_compat; lra]|]. apply (Rmult_le_reg_r oversize); [lra|]. unfold Rdiv. rewrite Rmult_assoc, Rinv_l by lra. lra. }
    repeat split; try tauto; field; lra.
Qed.
