(* Geom/Fan_tiling.v -- C03 for fan-convex polygons: the triangles the run returns are the fan from the last vertex,
   (a, p_i, p_{i+1}) for i = 0 .. n-3, and no point lies strictly inside two of them. With the complete-tiling and area
   theorems (every polygon edge once, every diagonal twice in opposite directions, areas adding up to the polygon's) this
   is the geometric statement "tiles exactly" for that class. Over R. *)
From Coq Require Import Reals ZArith List Bool Arith Lra Lia Psatz.
From SCAD Require Import Base.Num Base.NumR Base.Vec Geom.Tri Geom.Tri_proofs Geom.Dim3 Geom.Mesh_proofs Geom.Tri_convex Geom.Fan_convex.
Import ListNotations.
Local Open Scope R_scope.

(* the fan from the last vertex, as whole vertices *)
Fixpoint fan_tris (a : vtxR) (l : list vtxR) : list (@tri3 R) :=
  match l with
  | p :: ((q :: _) as tl) => (a, p, q) :: fan_tris a tl
  | _ => []
  end.
Lemma fan_tris_length a l : length (fan_tris a l) = (length l - 1)%nat.
Proof. induction l as [|p [|q l] IH]; [reflexivity|reflexivity|]. cbn [fan_tris length] in *. lia. Qed.

Lemma last_tail {A} (x y : A) l d : last (x :: y :: l) d = last (y :: l) d. Proof. reflexivity. Qed.

Lemma nth_is_last {A} (l : list A) d : l <> [] -> nth (length l - 1) l d = last l d.
Proof.
  induction l as [|x l IH]; intros Hn; [contradiction|]. destruct l as [|y l]; [reflexivity|].
  replace (length (x :: y :: l) - 1)%nat with (S (length (y :: l) - 1)) by (cbn [length]; lia). cbn [nth]. rewrite last_tail. apply IH. discriminate.
Qed.

(* the run on a fan-convex polygon p = body ++ [a]: the fan over body *)
Lemma fan_clipv_tris sigma : forall fuel (p : list vtxR) acc, fanconv sigma p -> (2 <= length p)%nat -> (length p <= fuel + 2)%nat ->
  fst (clipv fuel sigma p acc) = acc ++ fan_tris (last p dv) (removelast p).
Proof.
  induction fuel as [|f IH]; intros p acc Hc H2 Hf.
  - cbn [clipv fst]. destruct p as [|x [|y [|z p]]]; cbn [length] in *; try lia. cbn [removelast fan_tris]. rewrite app_nil_r. reflexivity.
  - cbn [clipv]. destruct (Nat.ltb_spec (length p) 3) as [H3|H3].
    + cbn [fst]. destruct p as [|x [|y [|z p]]]; cbn [length] in *; try lia. cbn [removelast fan_tris]. rewrite app_nil_r. reflexivity.
    + rewrite (fan_find_ear sigma p Hc H3). destruct p as [|x [|y p]]; try (cbn in H3; lia).
      assert (Hear : ear_at (x :: y :: p) 0 = (last (x :: y :: p) dv, x, y)).
      { unfold ear_at. set (n := length (x :: y :: p)). assert (Hn : (3 <= n)%nat) by exact H3.
        assert (Hprev : prev_i n 0 = (n - 1)%nat) by reflexivity.
        assert (Hnext : next_i n 0 = 1%nat) by (unfold next_i; destruct (Nat.eqb_spec 0 (n - 1)); [lia|reflexivity]).
        rewrite Hprev, Hnext. unfold nthv. unfold n. rewrite nth_is_last by discriminate. reflexivity. }
      rewrite Hear. unfold remove_nth. cbn [firstn skipn app].
      destruct (Nat.ltb_spec (length (y :: p)) 3) as [Hs|Hs].
      * (* two vertices left: y and the last one *)
        destruct p as [|z [|w p]]; cbn [length] in *; try lia.
        destruct f as [|f']; cbn [clipv fst length Nat.ltb Nat.leb]; cbn [removelast fan_tris last]; reflexivity.
      * rewrite IH; [|apply (fanconv_tail sigma x); assumption|cbn [length] in *; lia|cbn [length] in *; lia].
        rewrite <- app_assoc. f_equal. rewrite last_tail.
        destruct p as [|z p]; [cbn in Hs; lia|]. cbn [app].
        change (removelast (x :: y :: z :: p)) with (x :: removelast (y :: z :: p)).
        change (removelast (y :: z :: p)) with (y :: removelast (z :: p)).
        cbn [fan_tris]. reflexivity.
Qed.

Theorem fan_run sigma (p : list vtxR) : fanconv sigma p -> (3 <= length p)%nat ->
  fst (run p) = fan_tris (last p dv) (removelast p).
Proof.
  intros Hc Hn. unfold run.
  assert (Hr : ref_ccw p = sigma).
  { unfold ref_ccw. apply osign_ccw. apply (proj2 Hc (leftmost p)).
    unfold leftmost. set (n := length p). assert (G : forall l st, (fst st < n)%nat -> (forall i, In i l -> (i < n)%nat) ->
        (fst (fold_left (fun st i => let '(idx, lft) := st in let q := snd (nthv p i) in
                                      if (x2 q <? x2 lft)%num || ((x2 q =? x2 lft)%num && (y2 q <? y2 lft)%num) then (i, q) else st) l st) < n)%nat).
    { induction l as [|i l IH]; intros st Hst Hl; [exact Hst|]. cbn [fold_left]. apply IH; [|intros i' Hi'; apply Hl; right; exact Hi'].
      destruct st as [idx lft]. cbn [fst] in *. destruct (_ || _); cbn [fst]; [apply Hl; left; reflexivity|exact Hst]. }
    apply G; [cbn [fst]; unfold n; lia|]. intros i Hi. apply in_seq in Hi. unfold n. lia. }
  rewrite Hr. rewrite (fan_clipv_tris sigma (length p) p [] Hc); [reflexivity|lia|lia].
Qed.

(* ---- no point strictly inside two triangles of the fan ---- *)
Definition strictly_inside (sigma : bool) (t : @tri3 R) (q : V2) : Prop :=
  let '(a, b, c) := t in
  osign sigma (orientR (snd a) (snd b) q) /\ osign sigma (orientR (snd b) (snd c) q) /\ osign sigma (orientR (snd c) (snd a) q).

Lemma gp4 (a d u v w : V2) :
  orientR a d v * orientR a u w = orientR a d u * orientR a v w + orientR a d w * orientR a u v.
Proof. unfold orientR. ring. Qed.

Lemma nth_fan_tris a (l : list vtxR) i : (S i < length l)%nat -> nth i (fan_tris a l) (a, a, a) = (a, nth i l dv, nth (S i) l dv).
Proof.
  revert i. induction l as [|x [|y l] IH]; intros i Hi; cbn [length] in Hi; try lia.
  destruct i as [|i]; [reflexivity|]. cbn [fan_tris nth]. apply IH. cbn [length]. lia.
Qed.
Lemma nth_removelast {A} (l : list A) i d : (S i < length l)%nat -> nth i (removelast l) d = nth i l d.
Proof.
  revert i. induction l as [|x [|y l] IH]; intros i Hi; cbn [length] in Hi; try lia.
  change (removelast (x :: y :: l)) with (x :: removelast (y :: l)). destruct i as [|i]; [reflexivity|]. cbn [nth]. apply IH. cbn [length]. lia.
Qed.
Lemma removelast_length' {A} (l : list A) : length (removelast l) = (length l - 1)%nat.
Proof. induction l as [|x [|y l] IH]; [reflexivity|reflexivity|]. change (removelast (x :: y :: l)) with (x :: removelast (y :: l)). cbn [length] in *. lia. Qed.

Theorem fan_no_overlap sigma (p : list vtxR) : fanconv sigma p -> (3 <= length p)%nat ->
  forall i j (q : V2), (i < j)%nat -> (j < length (fst (run p)))%nat ->
    ~ (strictly_inside sigma (nth i (fst (run p)) (dv, dv, dv)) q /\ strictly_inside sigma (nth j (fst (run p)) (dv, dv, dv)) q).
Proof.
  intros Hc Hn i j q Hij Hj. rewrite (fan_run sigma p Hc Hn) in *. set (n := length p) in *.
  rewrite fan_tris_length, removelast_length' in Hj. fold n in Hj.
  set (a := last p dv). assert (Ea : a = nthv p (n - 1)) by (unfold a, nthv, n; symmetry; apply nth_is_last; destruct p; [cbn in Hn; lia|discriminate]).
  rewrite (nth_indep _ (dv, dv, dv) (a, a, a)) by (rewrite fan_tris_length, removelast_length'; fold n; lia).
  rewrite (nth_indep _ (dv, dv, dv) (a, a, a)) by (rewrite fan_tris_length, removelast_length'; fold n; lia).
  rewrite !nth_fan_tris by (rewrite removelast_length'; fold n; lia).
  rewrite !nth_removelast by (fold n; lia).
  intros [(I1 & I2 & I3) (J1 & J2 & J3)]. rewrite Ea in *.
  fold (nthv p i) (nthv p (S i)) (nthv p j) (nthv p (S j)) in *. fold (pt_at p (n - 1)) (pt_at p i) (pt_at p (S i)) (pt_at p j) (pt_at p (S j)) in *.
  destruct Hc as [Hf _].
  pose proof (Hf i j Hij ltac:(fold n; lia)) as F1. pose proof (Hf i (S i) ltac:(lia) ltac:(fold n; lia)) as F2. fold n in F1, F2.
  assert (F3 : S i = j \/ osign sigma (orientR (pt_at p (n - 1)) (pt_at p (S i)) (pt_at p j))).
  { destruct (Nat.eq_dec (S i) j) as [E|N]; [left; exact E|right]. apply (Hf (S i) j); fold n; lia. }
  pose proof (gp4 (pt_at p (n - 1)) (pt_at p i) (pt_at p (S i)) (pt_at p j) q) as GP.
  assert (I3' : orientR (pt_at p (S i)) (pt_at p (n - 1)) q = - orientR (pt_at p (n - 1)) (pt_at p (S i)) q) by (unfold orientR; ring).
  rewrite I3' in I3. unfold osign in *.
  destruct F3 as [E|F3].
  - subst j. assert (Z : orientR (pt_at p (n - 1)) (pt_at p (S i)) (pt_at p (S i)) = 0) by (unfold orientR; ring). rewrite Z in GP.
    destruct sigma; nra.
  - destruct sigma; nra.
Qed.

(* the index list returned for a fan-convex polygon *)
Theorem fan_indices sigma (p : list vtxR) : fanconv sigma p -> (3 <= length p)%nat ->
  triangulate p = flat_map idx3 (fan_tris (last p dv) (removelast p)).
Proof. intros Hc Hn. rewrite triangulate_run, (fan_run sigma p Hc Hn). reflexivity. Qed.

(* ---- and they cover the polygon: a point strictly on the inner side of every edge lies in one of the fan triangles ---- *)
Lemma sign_change (f : nat -> R) : forall m, f 0%nat < 0 -> 0 < f m -> exists i, (i < m)%nat /\ f i <= 0 /\ 0 < f (S i).
Proof.
  induction m as [|m IH]; intros H0 Hm; [lra|]. destruct (Rle_lt_dec (f m) 0) as [Hle|Hgt].
  - exists m. split; [lia|]. split; assumption.
  - destruct (IH H0 Hgt) as (i & Hi & H1 & H2). exists i. split; [lia|]. split; assumption.
Qed.

Definition inner_side (sigma : bool) (p : list vtxR) (q : V2) : Prop :=
  forall i, (i < length p)%nat -> osign sigma (orientR (pt_at p i) (pt_at p (next_i (length p) i)) q).

Theorem fan_covers sigma (p : list vtxR) (q : V2) : (3 <= length p)%nat -> inner_side sigma p q ->
  exists i, (S i < length p - 1)%nat /\
    let a := pt_at p (length p - 1) in
    (if sigma then 0 <= orientR a (pt_at p i) q else orientR a (pt_at p i) q <= 0) /\
    osign sigma (orientR (pt_at p i) (pt_at p (S i)) q) /\ osign sigma (orientR (pt_at p (S i)) a q).
Proof.
  intros Hn Hin. set (n := length p) in *. set (a := pt_at p (n - 1)).
  pose proof (Hin (n - 1)%nat ltac:(lia)) as E1. fold n in E1. unfold next_i in E1. destruct (Nat.eqb_spec (n - 1) (n - 1)); [|lia]. fold a in E1.
  pose proof (Hin (n - 2)%nat ltac:(lia)) as E2. fold n in E2. unfold next_i in E2. destruct (Nat.eqb_spec (n - 2) (n - 1)); [lia|].
  replace (n - 2 + 1)%nat with (n - 1)%nat in E2 by lia. fold a in E2.
  assert (R2 : orientR (pt_at p (n - 2)) a q = - orientR a (pt_at p (n - 2)) q) by (unfold orientR; ring).
  set (s := if sigma then -1 else 1). set (f := fun i : nat => s * orientR a (pt_at p i) q).
  assert (H0 : f 0%nat < 0) by (unfold f, s, osign in *; destruct sigma; lra).
  assert (Hm : 0 < f (n - 2)%nat) by (unfold f, s, osign in *; rewrite R2 in E2; destruct sigma; lra).
  destruct (sign_change f (n - 2)%nat H0 Hm) as (i & Hi & F1 & F2). exists i. split; [lia|]. cbv zeta. fold n a.
  pose proof (Hin i ltac:(lia)) as E3. fold n in E3. unfold next_i in E3. destruct (Nat.eqb_spec i (n - 1)); [lia|]. replace (i + 1)%nat with (S i) in E3 by lia.
  assert (R3 : orientR (pt_at p (S i)) a q = - orientR a (pt_at p (S i)) q) by (unfold orientR; ring).
  unfold f, s, osign in *. rewrite R3. destruct sigma; repeat split; lra.
Qed.
