(* Geom/Revolve_algebra.v -- the two determinant identities behind the volume of a revolve (kept apart because Nsatz
   shadows list names). *)
From Coq Require Import Reals Lra Nsatz.
From SCAD Require Import Base.Num Base.NumR Base.Trig_proofs Base.Vec Geom.Dim3_proofs Geom.Volume_proofs.
Local Open Scope R_scope.

Definition mterm (a b : V2) : R := (x2 a + x2 b) * (x2 a * y2 b - x2 b * y2 a).

Lemma dsin_minus a b : dsin (a - b) = dsin a * dcos b - dcos a * dsin b.
Proof. unfold Rminus. rewrite dsin_plus, dcos_neg, dsin_neg. ring. Qed.

(* the side quad a' a | a b (ring at angle al, ring at angle be), fanned from its first vertex *)
Lemma quad_rev_det (a a' : V2) al be :
  det3 (revolve_pt a' al) (revolve_pt a al) (revolve_pt a be) + det3 (revolve_pt a' al) (revolve_pt a be) (revolve_pt a' be)
  = dsin (be - al) * mterm a a'.
Proof.
  rewrite dsin_minus. unfold det3, revolve_pt, mterm. cbn [x3 y3 z3].
  pose proof (dsin2_dcos2 al) as Ha. pose proof (dsin2_dcos2 be) as Hb.
  destruct a as [x y], a' as [x' y']. cbn [x2 y2]. revert Ha Hb.
  generalize (dsin al) (dcos al) (dsin be) (dcos be). intros sa ca sb cb Ha Hb. nsatz.
Qed.

Lemma det3_same_angle (a b c : V2) ang : det3 (revolve_pt a ang) (revolve_pt b ang) (revolve_pt c ang) = 0.
Proof. unfold det3, revolve_pt. cbn [x3 y3 z3]. ring. Qed.
Lemma dsin_360_minus' a : dsin (360 - a) = - dsin a.
Proof. rewrite dsin_minus, dsin_360, dcos_360. ring. Qed.
