(* Geom/Dim3_proofs.v -- where the mesh builders put their rings (C05). Over R. *)
From Coq Require Import Reals ZArith List Bool Arith Lra Lia.
From SCAD Require Import Base.Num Base.NumR Base.Trig_proofs Base.Vec Base.Vec_proofs Base.Mat Base.Mat_proofs Base.Rot_proofs Geom.Tri Geom.Dim3.
Import ListNotations.
Local Open Scope R_scope.

Lemma some_inj {A} (a b : A) : Some a = Some b -> a = b.
Proof. intros E. inversion E. reflexivity. Qed.

(* ---- blocks of a concatenation of equally long lists ---- *)
Lemma nth_flat_map_block {A B} (f : A -> list B) (l : list A) (n : nat) (d : B) (da : A) (i j : nat) :
  (forall x, length (f x) = n) -> (i < length l)%nat -> (j < n)%nat ->
  nth (i * n + j) (flat_map f l) d = nth j (f (nth i l da)) d.
Proof.
  intros Hf. revert i. induction l as [|a l IH]; intros i Hi Hj; [cbn in Hi; lia|].
  cbn [flat_map]. destruct i as [|i].
  - cbn [Nat.mul Nat.add nth]. rewrite app_nth1 by (rewrite Hf; exact Hj). reflexivity.
  - rewrite app_nth2 by (rewrite Hf; nia). rewrite Hf. replace (S i * n + j - n)%nat with (i * n + j)%nat by nia.
    cbn [nth]. apply IH; [cbn in Hi; lia|exact Hj].
Qed.

Lemma flat_map_length_const {A B} (f : A -> list B) (l : list A) (c : nat) : (forall x, length (f x) = c) -> length (flat_map f l) = (length l * c)%nat.
Proof. intros Hf. induction l as [|x l IH]; [reflexivity|]. cbn [flat_map length]. rewrite app_length, Hf, IH. lia. Qed.

(* ---- look_at_matrix_lh is an isometry whenever the two points differ, whichever branch is taken ---- *)
Lemma look_at_isometry (eye center up : P3) : eye <> center ->
  forall v w, pt3_dot (acts (mt4_look_at_lh eye center up) v) (acts (mt4_look_at_lh eye center up) w) = pt3_dot v w.
Proof.
  intros Hne v w.
  destruct (pt3_is_zero (pt3_cross up (direction eye center))) eqn:Ez.
  - unfold mt4_look_at_lh. fold (direction eye center). rewrite Ez.
    destruct (nltb _ _).
    + unfold acts. rewrite !rot_x_matrix_pt3. apply axis_rotations_preserve_dot.
    + unfold acts. destruct v as [vx vy vz], w as [wx wy wz]. rred. ring.
  - assert (Hnz : pt3_cross up (direction eye center) <> Pt3 0 0 0).
    { intros E. rewrite E in Ez. unfold pt3_is_zero in Ez. cbn [x3 y3 z3 neqb nzero NumR] in Ez.
      assert (Reqb 0 0 = true) as E0 by (apply Reqb_true; reflexivity). rewrite E0 in Ez. discriminate. }
    destruct (look_at_rotation eye center up Hne Hnz) as [[Hiso _] _]. apply Hiso.
Qed.

(* ---- rotate_extrude: copy k of the profile stands in the half-plane at angle k*degrees/segments, radius and height kept ---- *)
Definition revolve_pt (p : P2) (ang : R) : P3 := Pt3 (x2 p * dcos ang) (x2 p * dsin ang) (y2 p).
Lemma revolve_pt_radius_height p ang :
  x3 (revolve_pt p ang) * x3 (revolve_pt p ang) + y3 (revolve_pt p ang) * y3 (revolve_pt p ang) = x2 p * x2 p /\ z3 (revolve_pt p ang) = y2 p.
Proof. unfold revolve_pt. cbn [x3 y3 z3]. pose proof (dsin2_dcos2 ang). split; [nra|reflexivity]. Qed.
(* the copy lies in the half-plane through Z at that angle: its (x, y) is |x| times (cos, sin) for x >= 0 *)
Lemma revolve_pt_halfplane p ang : x3 (revolve_pt p ang) * dsin ang - y3 (revolve_pt p ang) * dcos ang = 0.
Proof. unfold revolve_pt. cbn [x3 y3]. ring. Qed.

Theorem rotate_extrude_rings (profile : list P2) (degrees : R) (segments : Z) ph d2 d3 :
  rotate_extrude profile degrees segments = Some ph ->
  let n := length profile in
  let last := if Reqb degrees 360 then (Z.to_nat segments - 1)%nat else Z.to_nat segments in
  length (fst ph) = ((last + 1) * n)%nat /\
  forall k j, (k <= last)%nat -> (j < n)%nat ->
    nth (k * n + j) (fst ph) d3 = revolve_pt (nth j profile d2) (degrees / IZR segments * IZR (Z.of_nat k)).
Proof.
  unfold rotate_extrude.
  destruct (negb (_ && _)); [discriminate|]. destruct (Z.ltb_spec segments 3) as [|Hs]; [discriminate|].
  destruct (triangulate2d profile); [|discriminate]. destruct (triangulate2d_rev profile); [|discriminate].
  intros E. apply some_inj in E. rewrite <- E. clear E ph. cbv beta iota zeta delta [fst].
  change (Reqb degrees 360) with (neqb degrees (nofZ 360%Z)).
  set (n := length profile). set (a := (degrees / nofZ segments)%num).
  set (ringf := fun k : Z => map (fun p : pt2 R => {| x3 := (x2 p * dcos (a * nofZ k))%num; y3 := (x2 p * dsin (a * nofZ k))%num; z3 := y2 p |}) profile).
  change (map (fun p : pt2 R => {| x3 := (x2 p * dcos (a * nofZ segments))%num; y3 := (x2 p * dsin (a * nofZ segments))%num; z3 := y2 p |}) profile) with (ringf segments).
  set (ring0 := map (fun p : pt2 R => {| x3 := x2 p; y3 := nzero; z3 := y2 p |}) profile).
  set (m := Z.to_nat (segments - 1)).
  set (mid := map (fun k : Z => (k + 1)%Z) (nseq m)).
  change (degrees / IZR segments) with a.
  assert (Hring_len : forall k, length (ringf k) = n) by (intros; unfold ringf; apply map_length).
  assert (Hring0 : ring0 = ringf 0%Z).
  { unfold ring0, ringf. apply map_ext. intros p. change (a * nofZ 0%Z)%num with (a * 0). rewrite Rmult_0_r, dcos_0, dsin_0.
    cbn [nmul nzero NumR]. f_equal; ring. }
  assert (Hmid_len : length mid = m) by (unfold mid, nseq; rewrite !map_length, seq_length; reflexivity).
  assert (Hmid_nth : forall i, (i < m)%nat -> nth i mid 0%Z = Z.of_nat (S i)).
  { intros i Hi. unfold mid, nseq. rewrite map_map. set (g := fun x : nat => (Z.of_nat x + 1)%Z).
    rewrite (nth_indep _ 0%Z (g 0%nat)) by (rewrite map_length, seq_length; exact Hi).
    rewrite (map_nth g), seq_nth by exact Hi. unfold g. lia. }
  assert (Hpt : forall k j, (j < n)%nat -> nth j (ringf k) d3 = revolve_pt (nth j profile d2) (a * IZR k)).
  { intros k j Hj. unfold ringf. set (h := fun p : pt2 R => {| x3 := (x2 p * dcos (a * nofZ k))%num; y3 := (x2 p * dsin (a * nofZ k))%num; z3 := y2 p |}).
    rewrite (nth_indep _ d3 (h d2)) by (rewrite map_length; exact Hj). rewrite (map_nth h). reflexivity. }
  assert (Hsegs : Z.to_nat segments = S m) by (unfold m; lia).
  assert (Hflat : length (flat_map ringf mid) = (m * n)%nat).
  { rewrite (flat_map_length_const ringf mid n Hring_len), Hmid_len. reflexivity. }
  (* the first m+1 rings are the same in both cases *)
  assert (Hfirst : forall tl k j, (k <= m)%nat -> (j < n)%nat ->
            nth (k * n + j) (ring0 ++ flat_map ringf mid ++ tl) d3 = revolve_pt (nth j profile d2) (a * IZR (Z.of_nat k))).
  { intros tl k j Hk Hj. destruct k as [|k].
    - cbn [Nat.mul Nat.add]. rewrite app_nth1 by (unfold ring0; rewrite map_length; exact Hj). rewrite Hring0. apply Hpt. exact Hj.
    - rewrite app_nth2 by (unfold ring0; rewrite map_length; fold n; nia).
      unfold ring0 at 1. rewrite map_length. fold n. replace (S k * n + j - n)%nat with (k * n + j)%nat by nia.
      rewrite app_nth1 by (rewrite Hflat; nia).
      rewrite (nth_flat_map_block ringf mid n d3 0%Z k j Hring_len) by (rewrite ?Hmid_len; lia).
      rewrite Hmid_nth by lia. apply Hpt. exact Hj. }
  destruct (neqb degrees (nofZ 360%Z)) eqn:E360; cbv beta iota delta [negb].
  - rewrite Hsegs. replace (S m - 1)%nat with m by lia. split.
    + rewrite app_nil_r. rewrite !app_length. unfold ring0. rewrite map_length, Hflat. cbn [length]. fold n. nia.
    + intros k j Hk Hj. apply Hfirst; assumption.
  - rewrite Hsegs. split.
    + rewrite !app_length. unfold ring0. rewrite map_length, Hflat, Hring_len. fold n. nia.
    + intros k j Hk Hj. destruct (Nat.eq_dec k (S m)) as [->|Hne]; [|apply Hfirst; [lia|exact Hj]].
      rewrite app_nth2 by (unfold ring0; rewrite map_length; fold n; nia). unfold ring0 at 1. rewrite map_length. fold n.
      rewrite app_nth2 by (rewrite Hflat; nia). rewrite Hflat. replace (S m * n + j - n - m * n)%nat with j by nia.
      rewrite Hpt by exact Hj. f_equal. f_equal. f_equal. lia.
Qed.

(* ---- sweep: ring k stands at path point k as a rigid copy of the profile, turned by k times the per-step twist, in
        the plane perpendicular to the frame's forward axis ---- *)
Definition placed (m : M4) (theta : R) (c : P3) (p : P2) : P3 :=
  pt3_add (acts m (pt3_rotated_z (Pt3 (x2 p) (y2 p) 0) theta)) c.
Definition isometry (m : M4) : Prop := forall v w, pt3_dot (acts m v) (acts m w) = pt3_dot v w.

Lemma acts_linear_sub (m : M4) (v w : P3) : pt3_sub (acts m v) (acts m w) = acts m (pt3_sub v w).
Proof. destruct m as [[a1 a2 a3 a4] [b1 b2 b3 b4] [c1 c2 c3 c4] [d1 d2 d3 d4]], v as [vx vy vz], w as [wx wy wz]. unfold acts. rred. f_equal; ring. Qed.
Theorem placed_rigid (m : M4) theta c (p q : P2) : isometry m ->
  let d := pt3_sub (placed m theta c p) (placed m theta c q) in
  pt3_dot d d = (x2 p - x2 q) * (x2 p - x2 q) + (y2 p - y2 q) * (y2 p - y2 q).
Proof.
  intros Hiso d. unfold d, placed.
  assert (E : pt3_sub (pt3_add (acts m (pt3_rotated_z (Pt3 (x2 p) (y2 p) 0) theta)) c) (pt3_add (acts m (pt3_rotated_z (Pt3 (x2 q) (y2 q) 0) theta)) c)
              = acts m (pt3_sub (pt3_rotated_z (Pt3 (x2 p) (y2 p) 0) theta) (pt3_rotated_z (Pt3 (x2 q) (y2 q) 0) theta))).
  { rewrite <- acts_linear_sub. generalize (acts m (pt3_rotated_z (Pt3 (x2 p) (y2 p) 0) theta)) (acts m (pt3_rotated_z (Pt3 (x2 q) (y2 q) 0) theta)).
    intros [ax ay az] [bx by_ bz]. destruct c as [cx cy cz]. rred. f_equal; ring. }
  rewrite E, Hiso. pose proof (dsin2_dcos2 theta) as Ht. destruct p as [px py], q as [qx qy]. rred. revert Ht. generalize (dcos theta) (dsin theta). intros co si Ht.
  transitivity (((px - qx) * (px - qx) + (py - qy) * (py - qy)) * (si * si + co * co)); [ring|rewrite Ht; ring].
Qed.
Theorem placed_perpendicular (m : M4) theta c (p : P2) : isometry m ->
  pt3_dot (pt3_sub (placed m theta c p) c) (acts m (Pt3 0 0 1)) = 0.
Proof.
  intros Hiso. unfold placed.
  assert (E : pt3_sub (pt3_add (acts m (pt3_rotated_z (Pt3 (x2 p) (y2 p) 0) theta)) c) c = acts m (pt3_rotated_z (Pt3 (x2 p) (y2 p) 0) theta)).
  { generalize (acts m (pt3_rotated_z (Pt3 (x2 p) (y2 p) 0) theta)). intros [ax ay az]. destruct c as [cx cy cz]. rred. f_equal; ring. }
  rewrite E, Hiso. rred. ring.
Qed.

(* the frames have no translation part: applying them to (v, w) gives the rotated v for every w *)
Lemma look_at_no_translation (eye center up v : P3) (w : R) :
  pt4_as_pt3 (mt4_mul_pt4 (mt4_look_at_lh eye center up) (pt3_as_pt4 v w)) = acts (mt4_look_at_lh eye center up) v.
Proof.
  unfold mt4_look_at_lh, acts. destruct (pt3_is_zero _).
  - destruct (nltb _ _); destruct v as [vx vy vz]; rred; f_equal; ring.
  - destruct v as [vx vy vz]. rred. f_equal; ring.
Qed.

Definition path_at (path : list P3) (i : Z) : P3 := nthp3 path i.
Definition sweep_frame (path : list P3) (closed : bool) (k : nat) : M4 :=
  let len := Z.of_nat (length path) in
  if Nat.eqb k 0 then
    (if closed then mt4_look_at_lh (path_at path (len - 1)) (path_at path 1) up_z else mt4_look_at_lh (path_at path 0) (path_at path 1) up_z)
  else if Nat.eqb k (length path - 1) then
    (if closed then mt4_look_at_lh (path_at path (len - 2)) (path_at path 0) up_z else mt4_look_at_lh (path_at path (len - 2)) (path_at path (len - 1)) up_z)
  else mt4_look_at_lh (path_at path (Z.of_nat k - 1)) (path_at path (Z.of_nat k + 1)) up_z.

Theorem sweep_rings (profile : list P2) (path : list P3) (twist : R) (closed : bool) ph d2 d3 :
  sweep profile path twist closed = Some ph ->
  let n := length profile in let len := length path in
  let step := sweep_twist_angle path twist closed in
  (2 <= len)%nat /\ length (fst ph) = (len * n)%nat /\
  forall k j, (k < len)%nat -> (j < n)%nat ->
    nth (k * n + j) (fst ph) d3 =
    placed (sweep_frame path closed k) (if Nat.eqb k 0 then 0 else step * IZR (Z.of_nat k)) (path_at path (Z.of_nat k)) (nth j profile d2).
Proof.
  unfold sweep. destruct (Z.ltb_spec (Z.of_nat (length path)) 2) as [|Hlen]; [discriminate|].
  set (n := length profile). set (lenz := Z.of_nat (length path)) in *. set (len := length path) in *.
  set (step := sweep_twist_angle path twist closed).
  set (profile3 := map (fun p : pt2 R => pt2_as_pt3 p nzero) profile).
  set (m := Z.to_nat (lenz - 2)).
  set (mid := map (fun k : Z => (k + 1)%Z) (nseq m)).
  destruct (if closed then Some [] else triangulate2d_rev profile) as [sc|]; [|discriminate].
  match goal with |- context [match ?e with Some ef => _ | None => _ end] => destruct e as [ef|]; [|discriminate] end.
  intros E. apply some_inj in E. rewrite <- E. clear E ph. cbv beta iota zeta delta [fst].
  match goal with |- context [flat_map ?f mid] => set (ring_mid := f) end.
  match goal with |- context [?r0 ++ flat_map ring_mid mid ++ ?lp] => set (ring0 := r0); set (lastp := lp) end.
  assert (Hp3 : forall j, (j < n)%nat -> nth j profile3 (Pt3 0 0 0) = Pt3 (x2 (nth j profile d2)) (y2 (nth j profile d2)) 0).
  { intros j Hj. unfold profile3. set (h := fun p : pt2 R => pt2_as_pt3 p nzero).
    rewrite (nth_indep _ (Pt3 0 0 0) (h d2)) by (rewrite map_length; exact Hj). rewrite (map_nth h). reflexivity. }
  assert (Hp3len : length profile3 = n) by (unfold profile3; apply map_length).
  assert (Hmid_len : length mid = m) by (unfold mid, nseq; rewrite !map_length, seq_length; reflexivity).
  assert (Hmid_nth : forall i, (i < m)%nat -> nth i mid 0%Z = Z.of_nat (S i)).
  { intros i Hi. unfold mid, nseq. rewrite map_map. set (g := fun x : nat => (Z.of_nat x + 1)%Z).
    rewrite (nth_indep _ 0%Z (g 0%nat)) by (rewrite map_length, seq_length; exact Hi).
    rewrite (map_nth g), seq_nth by exact Hi. unfold g. lia. }
  assert (Hrm_len : forall k, length (ring_mid k) = n) by (intros; unfold ring_mid; rewrite map_length; exact Hp3len).
  assert (Hr0_len : length ring0 = n) by (unfold ring0; rewrite map_length; exact Hp3len).
  assert (Hlp_len : length lastp = n) by (unfold lastp, sweep_last_points; rewrite !map_length; reflexivity).
  assert (Hflat : length (flat_map ring_mid mid) = (m * n)%nat) by (rewrite (flat_map_length_const ring_mid mid n Hrm_len), Hmid_len; reflexivity).
  assert (Hlenm : len = (m + 2)%nat) by (unfold m, lenz, len in *; lia).
  split; [unfold len, lenz in *; lia|]. split; [rewrite !app_length, Hr0_len, Hflat, Hlp_len; nia|].
  intros k j Hk Hj. unfold placed, sweep_frame. fold len lenz.
  destruct (Nat.eqb_spec k 0) as [->|Hk0].
  - (* ring 0 *)
    cbn [Nat.mul Nat.add]. rewrite app_nth1 by (rewrite Hr0_len; exact Hj). unfold ring0.
    match goal with |- nth j (map ?h profile3) d3 = _ => rewrite (nth_indep _ d3 (h (Pt3 0 0 0))) by (rewrite map_length, Hp3len; exact Hj); rewrite (map_nth h) end.
    rewrite Hp3 by exact Hj.
    assert (Hrz : pt3_rotated_z (Pt3 (x2 (nth j profile d2)) (y2 (nth j profile d2)) 0) 0 = Pt3 (x2 (nth j profile d2)) (y2 (nth j profile d2)) 0) by exact (proj1 (proj2 (proj2 (rot_zero _ (Pt2 0 0))))).
    rewrite Hrz. unfold path_at. destruct closed; rewrite look_at_no_translation; reflexivity.
  - rewrite app_nth2 by (rewrite Hr0_len; nia). rewrite Hr0_len.
    destruct (Nat.eqb_spec k (len - 1)) as [Hkl|Hkl].
    + (* last ring *)
      rewrite app_nth2 by (rewrite Hflat; nia). rewrite Hflat. replace (k * n + j - n - m * n)%nat with j by nia.
      unfold lastp, sweep_last_points. fold lenz profile3 step.
      match goal with |- nth j (map ?h profile3) d3 = _ => rewrite (nth_indep _ d3 (h (Pt3 0 0 0))) by (rewrite map_length, Hp3len; exact Hj); rewrite (map_nth h) end.
      rewrite Hp3 by exact Hj. unfold path_at. replace (Z.of_nat k) with (lenz - 1)%Z by (unfold lenz, len in *; lia).
      destruct closed; rewrite look_at_no_translation; reflexivity.
    + (* a middle ring *)
      rewrite app_nth1 by (rewrite Hflat; nia). replace (k * n + j - n)%nat with ((k - 1) * n + j)%nat by nia.
      rewrite (nth_flat_map_block ring_mid mid n d3 0%Z (k - 1) j Hrm_len) by (rewrite ?Hmid_len; lia).
      rewrite Hmid_nth by lia. replace (S (k - 1)) with k by lia. unfold ring_mid.
      match goal with |- nth j (map ?h profile3) d3 = _ => rewrite (nth_indep _ d3 (h (Pt3 0 0 0))) by (rewrite map_length, Hp3len; exact Hj); rewrite (map_nth h) end.
      rewrite Hp3 by exact Hj. rewrite look_at_no_translation. reflexivity.
Qed.

(* the two path points frame k looks between: the neighbours of point k (cyclically for closed paths, the end
   segments for open ones) *)
Definition frame_pts (path : list P3) (closed : bool) (k : nat) : P3 * P3 :=
  let len := Z.of_nat (length path) in
  if Nat.eqb k 0 then (if closed then (path_at path (len - 1), path_at path 1) else (path_at path 0, path_at path 1))
  else if Nat.eqb k (length path - 1) then (if closed then (path_at path (len - 2), path_at path 0) else (path_at path (len - 2), path_at path (len - 1)))
  else (path_at path (Z.of_nat k - 1), path_at path (Z.of_nat k + 1)).
Lemma sweep_frame_pts path closed k :
  sweep_frame path closed k = mt4_look_at_lh (fst (frame_pts path closed k)) (snd (frame_pts path closed k)) up_z.
Proof. unfold sweep_frame, frame_pts. destruct (Nat.eqb k 0); [destruct closed; reflexivity|]. destruct (Nat.eqb k (length path - 1)); [destruct closed; reflexivity|reflexivity]. Qed.
(* every frame is an isometry as soon as the two points it looks between differ -- also in the parallel and
   anti-parallel special cases of look_at_matrix_lh *)
Theorem sweep_frame_isometry path closed k : fst (frame_pts path closed k) <> snd (frame_pts path closed k) -> isometry (sweep_frame path closed k).
Proof. intros Hne v w. rewrite sweep_frame_pts. apply look_at_isometry. exact Hne. Qed.
