(* Props/C09.v -- Mt4 obeys 4x4 matrix algebra. Over R; "to rounding" is the R/binary64 gap. *)
From Coq Require Import Reals ZArith List.
From SCAD Require Import Base.Num Base.NumR Base.Vec Base.Vec_proofs Gen.Mt4Cof Base.Mat Base.Mat_proofs.
Local Open Scope R_scope.

Theorem C09_identity_neutral :
  (forall m : mt4 R, mt4_mul mt4_identity m = m) /\ (forall m : mt4 R, mt4_mul m mt4_identity = m) /\
  (forall p : pt4 R, mt4_mul_pt4 mt4_identity p = p).
Proof. exact (conj mt4_mul_identity_l (conj mt4_mul_identity_r mt4_identity_pt)). Qed.

Theorem C09_associative :
  (forall a b c : mt4 R, mt4_mul (mt4_mul a b) c = mt4_mul a (mt4_mul b c)) /\
  (forall (a b : mt4 R) (p : pt4 R), mt4_mul_pt4 (mt4_mul a b) p = mt4_mul_pt4 a (mt4_mul_pt4 b p)).
Proof. exact (conj mt4_mul_assoc mt4_mul_pt_assoc). Qed.

Theorem C09_transpose :
  (forall m : mt4 R, mt4_transposed (mt4_transposed m) = m) /\
  (forall a b : mt4 R, mt4_transposed (mt4_mul a b) = mt4_mul (mt4_transposed b) (mt4_transposed a)).
Proof. exact (conj mt4_transposed_invol mt4_transposed_mul). Qed.

(* the product with a homogeneous point is the textbook row-by-column product over all four components *)
Theorem C09_acts_on_homogeneous_points : forall (m : mt4 R) (p : pt4 R),
  mt4_mul_pt4 m p =
  Pt4 (x4 (mx m) * x4 p + x4 (my m) * y4 p + x4 (mz m) * z4 p + x4 (mw m) * w4 p)
      (y4 (mx m) * x4 p + y4 (my m) * y4 p + y4 (mz m) * z4 p + y4 (mw m) * w4 p)
      (z4 (mx m) * x4 p + z4 (my m) * y4 p + z4 (mz m) * z4 p + z4 (mw m) * w4 p)
      (w4 (mx m) * x4 p + w4 (my m) * y4 p + w4 (mz m) * z4 p + w4 (mw m) * w4 p).
Proof. exact mt4_mul_pt4_spec. Qed.

Theorem C09_translate_scale :
  (forall tx ty tz (p : pt3 R),
     mt4_mul_pt4 (mt4_translate_matrix tx ty tz) (pt3_as_pt4 p 1) = Pt4 (x3 p + tx) (y3 p + ty) (z3 p + tz) 1) /\
  (forall tx ty tz (p : pt3 R),
     mt4_mul_pt4 (mt4_translate_matrix tx ty tz) (pt3_as_pt4 p 0) = pt3_as_pt4 p 0) /\
  (forall sx sy sz (p : pt4 R),
     mt4_mul_pt4 (mt4_scale_matrix sx sy sz) p = Pt4 (sx * x4 p) (sy * y4 p) (sz * z4 p) (w4 p)).
Proof. exact (conj mt4_translate_point (conj mt4_translate_direction mt4_scale_acts)). Qed.

(* Pt3s::apply_matrix (and Polyhedron::apply_matrix, which delegates to it) is the full affine map *)
Theorem C09_apply_matrix_affine :
  (forall (l : list (pt3 R)) (m : mt4 R),
     pt3s_apply_matrix l m = map (fun p => pt3_add (mt4_mul_pt3 m p) (pt4_as_pt3 (mw m))) l) /\
  (forall (l : list (pt3 R)) (m : mt4 R), length (pt3s_apply_matrix l m) = length l) /\
  (forall (m : mt4 R) (p : pt3 R), mt4_mul_pt3 m p = pt4_as_pt3 (mt4_mul_pt4 m (pt3_as_pt4 p 0))).
Proof. exact (conj pt3s_apply_matrix_affine (conj pt3s_apply_matrix_length mt4_mul_pt3_linear)). Qed.

Theorem C09_index_column_major :
  (forall (m : mt4 R) (c r : Z), (0 <= c < 4)%Z -> (0 <= r < 4)%Z ->
     mt4_index m (4 * c + r) =
     pt4_index (match c with 0%Z => mx m | 1%Z => my m | 2%Z => mz m | _ => mw m end) r) /\
  (forall (m : mt4 R) i, (exists v, mt4_index m i = Some v) <-> (0 <= i < 16)%Z) /\
  (forall (m m' : mt4 R) i v, mt4_index_set m i v = Some m' -> forall j, (0 <= j < 16)%Z ->
     mt4_index m' j = if Z.eqb j i then Some v else mt4_index m j).
Proof. exact (conj mt4_index_column_major (conj mt4_index_range mt4_index_set_get)). Qed.

(* inverse: None exactly when the determinant is zero, otherwise a two-sided inverse *)
Theorem C09_inverse :
  (forall m : mt4 R, mt4_inverse m = None <-> mt4_determinant m = 0) /\
  (forall m m' : mt4 R, mt4_inverse m = Some m' -> mt4_mul m' m = mt4_identity) /\
  (forall m m' : mt4 R, mt4_inverse m = Some m' -> mt4_mul m m' = mt4_identity) /\
  mt4_determinant mt4_identity = 1 /\
  (forall a b : mt4 R, mt4_determinant (mt4_mul a b) = mt4_determinant a * mt4_determinant b).
Proof.
  exact (conj mt4_inverse_none_iff (conj mt4_inverse_left (conj mt4_inverse_right
        (conj mt4_determinant_identity mt4_determinant_mul)))).
Qed.

Example C09_inverse_nonvacuous : exists m', mt4_inverse (mt4_translate_matrix 1 2 3) = Some m'.
Proof.
  destruct (mt4_inverse (mt4_translate_matrix 1 2 3)) eqn:E; [eexists; reflexivity|].
  apply mt4_inverse_none_iff in E. exfalso. revert E. unfold mt4_determinant. mred. Lra.lra.
Qed.
