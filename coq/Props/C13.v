(* Props/C13.v -- a saved file is exactly the global settings plus the emitted trees.
   The scad_file! arms are regenerated from the source (Gen/ScadFile.v); these theorems are
   re-checked against them on every run. Axiom-free. *)
From Coq Require Import NArith List String Bool.
From SCAD Require Import Text.Chars Text.Tree Text.Lex Text.Parse Text.Emit Text.Lex_proofs Text.Emit_proofs Text.Parse_proofs Text.FileParse_proofs Gen.ScadFile Text.FileModel Text.File_proofs.
Import ListNotations.
Local Open Scope string_scope. Local Open Scope list_scope.

(* every arm writes one `$k=value;` line per setting of its pattern, in pattern order, and nothing else *)
Theorem C13_all_arms_ok : forallb arm_ok scad_file_arms = true.
Proof. exact all_arms_ok. Qed.
(* the arms are exactly the five documented forms *)
Theorem C13_forms_covered : forms_covered = true.
Proof. exact forms_are_covered. Qed.
(* content of each form, for all values and all bodies *)
Theorem C13_content :
  (forall body, file_content [] body = Some body) /\
  (forall v body, file_content [("fa", v)] body = Some (s2t "$fa=" ++ v ++ s2t ";" ++ [10%N] ++ body)) /\
  (forall v body, file_content [("fs", v)] body = Some (s2t "$fs=" ++ v ++ s2t ";" ++ [10%N] ++ body)) /\
  (forall v body, file_content [("fn", v)] body = Some (s2t "$fn=" ++ v ++ s2t ";" ++ [10%N] ++ body)) /\
  (forall a s body, file_content [("fa", a); ("fs", s)] body =
     Some (s2t "$fa=" ++ a ++ s2t ";" ++ [10%N] ++ s2t "$fs=" ++ s ++ s2t ";" ++ [10%N] ++ body)).
Proof. exact (conj content_none (conj content_fa (conj content_fs (conj content_fn content_fa_fs)))). Qed.

(* the file therefore parses as an OpenSCAD program: one assignment per setting line, then the children as top-level
   statements (same hypothesis on the number printer as C01) *)
Section C13parse.
  Variables num str : Type.
  Variable fmt : num -> text.
  Variable chars : str -> text.
  Hypothesis fmt_plain_decimal : forall x, wf_num (fmt x).
  Theorem C13_file_parses : forall (sl : list (text * text)) ts, Forall wf_setting sl -> forallb (@wf num str) ts = true ->
    parse_text (flat_map setting_line sl ++ emit_seq num str fmt chars ts) =
    Some (map (fun kv => TAssign (fst kv) (ENum (snd kv))) sl ++ map (fun t => TInst (stmt_of num str fmt chars t)) ts).
  Proof. exact (file_parses num str fmt chars fmt_plain_decimal). Qed.
End C13parse.
(* the setting lines of the model are of that form: label '=' literal ';' newline with the labels $fa, $fs, $fn *)
Theorem C13_content_is_setting_lines : forall a s body,
  file_content [("fa", a); ("fs", s)] body = Some (flat_map setting_line [(s2t "$fa", a); (s2t "$fs", s)] ++ body) /\
  file_content [("fn", a)] body = Some (flat_map setting_line [(s2t "$fn", a)] ++ body) /\
  wf_id (s2t "$fa") /\ wf_id (s2t "$fs") /\ wf_id (s2t "$fn").
Proof.
  intros. split; [|split; [|repeat split; reflexivity]]; unfold setting_line; cbn; rewrite ?app_nil_r, <- ?app_assoc; cbn; rewrite <- ?app_assoc; reflexivity.
Qed.
