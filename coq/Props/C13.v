(* Props/C13.v -- a saved file is exactly the global settings plus the emitted trees.
   The scad_file! arms are regenerated from the source (Gen/ScadFile.v); these theorems are
   re-checked against them on every run. Axiom-free. *)
From Coq Require Import NArith List String Bool.
From SCAD Require Import Text.Chars Gen.ScadFile Text.FileModel Text.File_proofs.
Import ListNotations.
Local Open Scope string_scope. Local Open Scope list_scope.

(* every arm writes one `$k=value;` line per setting of its pattern, in pattern order, and nothing else *)
Theorem C13_all_arms_ok : forallb arm_ok scad_file_arms = true.
Proof. exact all_arms_ok. Qed.
(* the arms are exactly the five documented forms *)
Theorem C13_forms_covered : forms_covered = true.
Proof. exact forms_are_covered. Qed.
(* content of each form, for all values and all bodies *)
Theorem C13_content :
  (forall body, file_content [] body = Some body) /\
  (forall v body, file_content [("fa", v)] body = Some (s2t "$fa=" ++ v ++ s2t ";" ++ [10%N] ++ body)) /\
  (forall v body, file_content [("fs", v)] body = Some (s2t "$fs=" ++ v ++ s2t ";" ++ [10%N] ++ body)) /\
  (forall v body, file_content [("fn", v)] body = Some (s2t "$fn=" ++ v ++ s2t ";" ++ [10%N] ++ body)) /\
  (forall a s body, file_content [("fa", a); ("fs", s)] body =
     Some (s2t "$fa=" ++ a ++ s2t ";" ++ [10%N] ++ s2t "$fs=" ++ s ++ s2t ";" ++ [10%N] ++ body)).
Proof. exact (conj content_none (conj content_fa (conj content_fs (conj content_fn content_fa_fs)))). Qed.
