(* Props/C02.v -- emitted arguments denote the node's parameters exactly. Axiom-free part. *)
From Coq Require Import NArith List.
From SCAD Require Import Text.Chars Text.Lex Text.Emit Text.Lex_proofs.
Import ListNotations.
Local Open Scope N_scope.

(* strings: for every string of code points, the emitted literal lexes back to the same characters *)
Theorem C02_string_readback : forall (s : text) out,
  lrun (LS MDefault out) ([34] ++ flat_map esc_char s ++ [34]) = LS MDefault (TStr s :: out).
Proof. exact string_readback. Qed.
