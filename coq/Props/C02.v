(* Props/C02.v -- emitted arguments denote the node's parameters exactly. Axiom-free.
   Hypothesis per f64: its printed literal reads back to the same binary64 under exact decimal->binary64 conversion
   (checked exactly on every sampled number); u64 values and strings need no hypothesis. *)
From Coq Require Import NArith ZArith List Bool String Floats.
From SCAD Require Import Text.Chars Text.Tree Text.Lex Text.Parse Text.Dec64 Text.Emit Text.Bind Text.Lex_proofs Text.Emit_proofs
     Text.Parse_proofs Text.Bind_proofs Text.Dec64_proofs Gen.Enums.
Import ListNotations.
Local Open Scope N_scope.

(* for every node (all 27 variants, every combination of optional fields and flags, all values): binding the emitted
   arguments by OpenSCAD's rules gives exactly the parameters the node stands for -- names, values, vectors, presence *)
Theorem C02_bind_emit_op : forall o : scadop fnum text, op_ok o ->
  bind (s2t (op_ident fnum text o)) (map erase_arg (args_of fnum text nlit id_text o)) = Some (params_of o).
Proof. exact bind_emit_op. Qed.

(* every u64 reads back as itself (rounded to binary64 as OpenSCAD stores numbers) *)
Theorem C02_u64_readback : forall n : N, dec_to_f64 (dec_of_N n) = Some (N_to_float n).
Proof. exact N_ok_all. Qed.

(* strings: for every string of code points, the emitted literal lexes back to the same characters *)
Theorem C02_string_readback : forall (s : text) out,
  lrun (LS MDefault out) ([34] ++ flat_map esc_char s ++ [34]) = LS MDefault (TStr s :: out).
Proof. exact string_readback. Qed.

(* colour names: every variant of the regenerated ScadColor list is one OpenSCAD knows -- except Browns (known finding) *)
Theorem C02_colours_known_except_browns :
  forallb (fun n => colour_known n || String.eqb n "Browns") color_names = true /\ colour_known "Browns" = false.
Proof. split; vm_compute; reflexivity. Qed.

(* keywords: alignment / direction names are emitted as the strings OpenSCAD expects *)
Theorem C02_keywords :
  halign_names = ["left"; "center"; "right"]%string /\ valign_names = ["top"; "center"; "baseline"; "bottom"]%string /\
  direction_names = ["ltr"; "rtl"; "ttb"; "btt"]%string.
Proof. repeat split; reflexivity. Qed.

(* the hypothesis is satisfiable: a node whose numbers read back *)
Example C02_op_ok_example : op_ok (Circle (FN 0x1.8p+1%float (s2t "3")) None None (Some 16)).
Proof. cbn [op_ok onum_ok oN_ok]. split; [vm_compute; reflexivity|]. split; [exact I|]. split; [exact I|apply N_ok_all]. Qed.
