(* Props/C05.v -- mesh builders put every ring where documented. Over R (ring placement). *)
From Coq Require Import Reals ZArith List.
From SCAD Require Import Base.Num Base.NumR Base.Vec Base.Mat Geom.Tri Geom.Dim3.
Import ListNotations.
Local Open Scope R_scope.

(* linear_extrude / loft: the profiles unchanged at z = 0 and z = height, for every profile the triangulator accepts *)
Theorem C05_linear_extrude_points : forall (points : list (pt2 R)) height ph,
  linear_extrude points height = Some ph ->
  fst ph = map (fun p => Pt3 (x2 p) (y2 p) 0) points ++ map (fun p => Pt3 (x2 p) (y2 p) height) points.
Proof.
  intros points height ph. unfold linear_extrude.
  destruct (triangulate2d_rev points); [|discriminate]. destruct (triangulate2d points); [|discriminate].
  intros E. inversion E. reflexivity.
Qed.
Theorem C05_loft_points : forall (lower upper : list (pt2 R)) height ph,
  loft lower upper height = Some ph ->
  length lower = length upper /\
  fst ph = map (fun p => Pt3 (x2 p) (y2 p) 0) lower ++ map (fun p => Pt3 (x2 p) (y2 p) height) upper.
Proof.
  intros lower upper height ph. unfold loft.
  destruct (Nat.eqb_spec (length lower) (length upper)) as [El | El]; cbn [negb]; [|discriminate].
  destruct (triangulate2d_rev lower); [|discriminate]. destruct (triangulate2d upper); [|discriminate].
  intros E. inversion E. split; [assumption|reflexivity].
Qed.
(* the transform methods leave the faces untouched and keep the number of points *)
Theorem C05_transforms_keep_faces : forall (ph : @polyhedron R) v a m,
  snd (poly_translate ph v) = snd ph /\ snd (poly_rotate_x ph a) = snd ph /\ snd (poly_rotate_y ph a) = snd ph /\
  snd (poly_rotate_z ph a) = snd ph /\ snd (poly_apply_matrix ph m) = snd ph /\
  length (fst (poly_translate ph v)) = length (fst ph) /\ length (fst (poly_apply_matrix ph m)) = length (fst ph).
Proof. intros. repeat split; try reflexivity; apply map_length. Qed.
