(* Props/C05.v -- mesh builders put every ring where documented. Over R (ring placement). *)
From Coq Require Import Reals ZArith List.
From SCAD Require Import Base.Num Base.NumR Base.Vec Base.Mat Geom.Tri Geom.Dim3.
Import ListNotations.
Local Open Scope R_scope.

(* linear_extrude / loft: the profiles unchanged at z = 0 and z = height, for every profile the triangulator accepts *)
Theorem C05_linear_extrude_points : forall (points : list (pt2 R)) height ph,
  linear_extrude points height = Some ph ->
  fst ph = map (fun p => Pt3 (x2 p) (y2 p) 0) points ++ map (fun p => Pt3 (x2 p) (y2 p) height) points.
Proof.
  intros points height ph. unfold linear_extrude.
  destruct (triangulate2d_rev points); [|discriminate]. destruct (triangulate2d points); [|discriminate].
  intros E. inversion E. reflexivity.
Qed.
Theorem C05_loft_points : forall (lower upper : list (pt2 R)) height ph,
  loft lower upper height = Some ph ->
  length lower = length upper /\
  fst ph = map (fun p => Pt3 (x2 p) (y2 p) 0) lower ++ map (fun p => Pt3 (x2 p) (y2 p) height) upper.
Proof.
  intros lower upper height ph. unfold loft.
  destruct (Nat.eqb_spec (length lower) (length upper)) as [El | El]; cbn [negb]; [|discriminate].
  destruct (triangulate2d_rev lower); [|discriminate]. destruct (triangulate2d upper); [|discriminate].
  intros E. inversion E. split; [assumption|reflexivity].
Qed.
(* the transform methods leave the faces untouched and keep the number of points *)
Theorem C05_transforms_keep_faces : forall (ph : @polyhedron R) v a m,
  snd (poly_translate ph v) = snd ph /\ snd (poly_rotate_x ph a) = snd ph /\ snd (poly_rotate_y ph a) = snd ph /\
  snd (poly_rotate_z ph a) = snd ph /\ snd (poly_apply_matrix ph m) = snd ph /\
  length (fst (poly_translate ph v)) = length (fst ph) /\ length (fst (poly_apply_matrix ph m)) = length (fst ph).
Proof. intros. repeat split; try reflexivity; apply map_length. Qed.

(* ---- rotate_extrude and sweep: where every ring stands ---- *)
From SCAD Require Import Base.Rot_proofs Geom.Dim3_proofs.
(* copy k of the profile is the profile point (x, y) carried to (x cos t, x sin t, y), t = k * degrees / segments:
   same radius, same height, in the half-plane at angle t; rings 0..segments (0..segments-1 for 360) *)
Theorem C05_rotate_extrude_rings : forall (profile : list (pt2 R)) (degrees : R) (segments : Z) ph d2 d3,
  rotate_extrude profile degrees segments = Some ph ->
  let n := length profile in
  let last := if Reqb degrees 360 then (Z.to_nat segments - 1)%nat else Z.to_nat segments in
  length (fst ph) = ((last + 1) * n)%nat /\
  forall k j, (k <= last)%nat -> (j < n)%nat ->
    nth (k * n + j) (fst ph) d3 = revolve_pt (nth j profile d2) (degrees / IZR segments * IZR (Z.of_nat k)).
Proof. exact rotate_extrude_rings. Qed.
Theorem C05_revolve_keeps_radius_and_height : forall p ang,
  x3 (revolve_pt p ang) * x3 (revolve_pt p ang) + y3 (revolve_pt p ang) * y3 (revolve_pt p ang) = x2 p * x2 p /\ z3 (revolve_pt p ang) = y2 p /\
  x3 (revolve_pt p ang) * dsin ang - y3 (revolve_pt p ang) * dcos ang = 0.
Proof. intros p ang. destruct (revolve_pt_radius_height p ang) as [A B]. split; [exact A|]. split; [exact B|apply revolve_pt_halfplane]. Qed.

(* ring k of a sweep is the profile turned about Z by k times the per-step twist, carried by the frame that looks from
   the previous to the next path point, and moved to path point k *)
Theorem C05_sweep_rings : forall (profile : list (pt2 R)) (path : list (pt3 R)) (twist : R) (closed : bool) ph d2 d3,
  sweep profile path twist closed = Some ph ->
  let n := length profile in let len := length path in
  let step := sweep_twist_angle path twist closed in
  (2 <= len)%nat /\ length (fst ph) = (len * n)%nat /\
  forall k j, (k < len)%nat -> (j < n)%nat ->
    nth (k * n + j) (fst ph) d3 =
    placed (sweep_frame path closed k) (if Nat.eqb k 0 then 0 else step * IZR (Z.of_nat k)) (path_at path (Z.of_nat k)) (nth j profile d2).
Proof. exact sweep_rings. Qed.
(* such a placement is a rigid copy lying in the plane through the path point perpendicular to the frame's forward
   axis, for every frame that is an isometry; the frames of sweep are isometries whenever the two path points they look
   between differ (also in the parallel / anti-parallel special cases) *)
Theorem C05_placed_is_rigid_and_perpendicular : forall (m : mt4 R) theta c (p q : pt2 R), isometry m ->
  (let d := pt3_sub (placed m theta c p) (placed m theta c q) in
   pt3_dot d d = (x2 p - x2 q) * (x2 p - x2 q) + (y2 p - y2 q) * (y2 p - y2 q)) /\
  pt3_dot (pt3_sub (placed m theta c p) c) (acts m (Pt3 0 0 1)) = 0.
Proof. intros m theta c p q Hiso. split; [apply placed_rigid; exact Hiso|apply placed_perpendicular; exact Hiso]. Qed.
Theorem C05_sweep_frames_are_isometries : forall path closed k,
  fst (frame_pts path closed k) <> snd (frame_pts path closed k) -> isometry (sweep_frame path closed k).
Proof. exact sweep_frame_isometry. Qed.

(* ---- the volume of a linear extrusion is profile area times height ----
   vol6 = six times the signed volume enclosed by the faces (each face fanned from its first vertex; counter-clockwise
   seen from outside counts positive). With a complete top cap: vol6 = 3 h area2(profile), area2 = twice the signed
   (shoelace) area, so the signed volume is h * (signed area); for the clockwise profiles the library expects it is
   negative under this convention, i.e. the faces wind clockwise seen from outside and enclose h * |area|. *)
From SCAD Require Import Geom.Poly Geom.Mesh_proofs Geom.Volume_proofs.
Theorem C05_linear_extrude_volume : forall (pts : list (pt2 R)) (h : R) ph, linear_extrude pts h = Some ph ->
  complete (enumerate pts) -> vol6 (fst ph) (snd ph) = 3 * h * Poly.area2 pts.
Proof. exact linear_extrude_volume. Qed.

(* ---- the volume of a revolve (Pappus with 2 pi replaced by segments sin(360/segments)) ----
   moment(profile) = sum over the profile's edges a -> b of (xa + xb)(xa yb - xb ya) = six times the first moment of
   the outline about the axis (signed area times distance of the centroid). For every profile the builder accepts,
   every angle in [0, 360] and every segment count, whatever the caps' triangulation produced. *)
From SCAD Require Import Geom.Revolve_algebra Geom.Revolve_volume.
From SCAD Require Geom.Cyc.
Theorem C05_rotate_extrude_volume : forall (profile : list (pt2 R)) (degrees : R) (segments : Z) ph,
  rotate_extrude profile degrees segments = Some ph ->
  vol6 (fst ph) (snd ph) = IZR segments * dsin (degrees / IZR segments) * Cyc.csum (pt2 R) R 0 Rplus (fun a b => (x2 a + x2 b) * (x2 a * y2 b - x2 b * y2 a)) profile.
Proof. exact rotate_extrude_volume. Qed.
(* with a complete cap triangulation the moment is the sum over the cap's triangles of (xa + xb + xc) * (twice their
   signed area): each triangle's own first moment -- the cap tiles the profile in first moment as well as in area *)
Theorem C05_moment_by_triangles : forall (profile : list (pt2 R)), (3 <= length profile)%nat -> complete (enumerate profile) ->
  moment profile = rsum (map (fun t => (let '(a, b, c) := t in x2 (snd a) + x2 (snd b) + x2 (snd c)) * Tri_proofs.tri_area2 t) (fst (Tri_proofs.run (enumerate profile)))).
Proof.
  intros profile Hn Hc. rewrite (moment_by_triangles profile Hn Hc). f_equal. apply map_ext. intros t. apply tri_moment_area.
Qed.

(* ---- "every end cap is a valid triangulation of the ring it closes, whatever direction the path points in" ----
   For every fan-convex profile (C03_fanconv_complete: every strictly convex outline, every rounded rectangle) and every
   open path whose last two points differ, the end cap of the sweep -- the last ring projected along the dominant axis of
   the end direction, as the implementation does -- is completely triangulated: the projected ring is the profile under
   a map of the plane that multiplies all orientations by a non-zero number (up to sign the component of the unit end
   direction along that axis), so it is fan-convex again, possibly with the other winding. With C03_complete_tiling /
   C03_complete_area the cap is then an exact tiling of that ring. *)
From SCAD Require Import Geom.Tri_convex Geom.Fan_convex Geom.Sweep_caps.
Theorem C05_sweep_end_cap_complete : forall (profile : list (pt2 R)) (path : list (pt3 R)) (twist : R),
  let len := Z.of_nat (length path) in
  (3 <= length profile)%nat -> fanconv false (enumerate profile) -> nthp3 path (len - 2) <> nthp3 path (len - 1) ->
  complete (enumerate (map (project (sweep_end_normal path)) (sweep_last_points profile path twist false))).
Proof. exact sweep_end_cap_complete. Qed.
Theorem C05_projected_ring_orientations : forall (P Q c : pt3 R) (theta : R), P <> Q ->
  exists D, D <> 0 /\ forall p1 p2 p3 : pt2 R,
    orientR (project (pt3_sub Q P) (placed (mt4_look_at_lh P Q up_z) theta c p1)) (project (pt3_sub Q P) (placed (mt4_look_at_lh P Q up_z) theta c p2))
            (project (pt3_sub Q P) (placed (mt4_look_at_lh P Q up_z) theta c p3)) = D * orientR p1 p2 p3.
Proof. exact projected_ring_scales. Qed.

(* cylinder, in full: the n-point circle of radius r at z = 0 and at z = h, and the signed volume in closed form
   (six times the volume is 3 h n r^2 sin(360/n); negative = clockwise seen from outside) *)
From SCAD Require Import Geom.Dim2 Geom.Tri_convex.
Theorem C05_cylinder : forall (r h : R) (segments : Z) ph, cylinder r h segments = Some ph -> r <> 0 ->
  exists c, circle r segments = Some c /\ length c = Z.to_nat segments /\ (forall p, In p c -> pt2_len2 p = r * r) /\
    fst ph = map (fun p => Pt3 (x2 p) (y2 p) 0) c ++ map (fun p => Pt3 (x2 p) (y2 p) h) c /\
    vol6 (fst ph) (snd ph) = - (3 * h * (IZR segments * (r * r) * dsin (360 / IZR segments))).
Proof. exact cylinder_described. Qed.
