(* Props/C10.v -- all rotation routes agree and follow the right-hand rule. Over R. *)
From Coq Require Import Reals ZArith List.
From SCAD Require Import Base.Num Base.NumR Base.Trig_proofs Base.Vec Base.Vec_proofs Base.Mat Base.Mat_proofs Base.Rot_proofs.
Local Open Scope R_scope.

(* every route is the textbook right-hand rotation (= Rodrigues about the coordinate axis) *)
Theorem C10_point_methods_are_textbook :
  (forall (p : pt3 R) a, pt3_rotated_x p a = Rx_spec (dcos a) (dsin a) p) /\
  (forall (p : pt3 R) a, pt3_rotated_y p a = Ry_spec (dcos a) (dsin a) p) /\
  (forall (p : pt3 R) a, pt3_rotated_z p a = Rz_spec (dcos a) (dsin a) p) /\
  (forall (p : pt2 R) a, pt2_rotated p a = R2_spec (dcos a) (dsin a) p) /\
  (forall c s p, Rx_spec c s p = rodrigues (Pt3 1 0 0) c s p) /\
  (forall c s p, Ry_spec c s p = rodrigues (Pt3 0 1 0) c s p) /\
  (forall c s p, Rz_spec c s p = rodrigues (Pt3 0 0 1) c s p) /\
  (pt3_rotated_z (Pt3 1 0 0) 90 = Pt3 0 1 0 /\ pt3_rotated_x (Pt3 0 1 0) 90 = Pt3 0 0 1 /\
   pt3_rotated_y (Pt3 0 0 1) 90 = Pt3 1 0 0 /\ pt2_rotated (Pt2 1 0) 90 = Pt2 0 1).
Proof.
  exact (conj pt3_rotated_x_spec (conj pt3_rotated_y_spec (conj pt3_rotated_z_spec (conj pt2_rotated_spec
        (conj Rx_is_rodrigues (conj Ry_is_rodrigues (conj Rz_is_rodrigues right_handed))))))).
Qed.

Theorem C10_routes_agree :
  (* matrix on homogeneous points and directions *)
  (forall (p : pt3 R) a w, mt4_mul_pt4 (mt4_rot_x_matrix a) (pt3_as_pt4 p w) = pt3_as_pt4 (pt3_rotated_x p a) w) /\
  (forall (p : pt3 R) a w, mt4_mul_pt4 (mt4_rot_y_matrix a) (pt3_as_pt4 p w) = pt3_as_pt4 (pt3_rotated_y p a) w) /\
  (forall (p : pt3 R) a w, mt4_mul_pt4 (mt4_rot_z_matrix a) (pt3_as_pt4 p w) = pt3_as_pt4 (pt3_rotated_z p a) w) /\
  (* matrix through Mul<Pt3> *)
  (forall (p : pt3 R) a, mt4_mul_pt3 (mt4_rot_x_matrix a) p = pt3_rotated_x p a) /\
  (forall (p : pt3 R) a, mt4_mul_pt3 (mt4_rot_y_matrix a) p = pt3_rotated_y p a) /\
  (forall (p : pt3 R) a, mt4_mul_pt3 (mt4_rot_z_matrix a) p = pt3_rotated_z p a) /\
  (* rot_vec about the same unit axis *)
  (forall a, mt4_rot_vec 1 0 0 a = mt4_rot_x_matrix a) /\
  (forall a, mt4_rot_vec 0 1 0 a = mt4_rot_y_matrix a) /\
  (forall a, mt4_rot_vec 0 0 1 a = mt4_rot_z_matrix a) /\
  (forall (u v : pt3 R) a, mt4_mul_pt3 (mt4_rot_vec (x3 u) (y3 u) (z3 u) a) v = rodrigues u (dcos a) (dsin a) v) /\
  (* in-place forms *)
  (forall (p : pt3 R) a, pt3_rotate_x p a = pt3_rotated_x p a /\ pt3_rotate_y p a = pt3_rotated_y p a /\
                         pt3_rotate_z p a = pt3_rotated_z p a).
Proof.
  exact (conj rot_x_matrix_pt (conj rot_y_matrix_pt (conj rot_z_matrix_pt
        (conj rot_x_matrix_pt3 (conj rot_y_matrix_pt3 (conj rot_z_matrix_pt3
        (conj rot_vec_x (conj rot_vec_y (conj rot_vec_z (conj rot_vec_rodrigues pt3_rotate_is_rotated)))))))))).
Qed.

(* lengths and angles: dot products are preserved (about any unit axis) *)
Theorem C10_isometry :
  (forall (u v w : pt3 R) a, pt3_dot u u = 1 ->
     pt3_dot (mt4_mul_pt3 (mt4_rot_vec (x3 u) (y3 u) (z3 u) a) v) (mt4_mul_pt3 (mt4_rot_vec (x3 u) (y3 u) (z3 u) a) w)
     = pt3_dot v w) /\
  (forall (v w : pt3 R) a,
     pt3_dot (pt3_rotated_x v a) (pt3_rotated_x w a) = pt3_dot v w /\
     pt3_dot (pt3_rotated_y v a) (pt3_rotated_y w a) = pt3_dot v w /\
     pt3_dot (pt3_rotated_z v a) (pt3_rotated_z w a) = pt3_dot v w) /\
  (forall (v w : pt2 R) a, pt2_dot (pt2_rotated v a) (pt2_rotated w a) = pt2_dot v w).
Proof. exact (conj rotation_preserves_dot (conj axis_rotations_preserve_dot pt2_rotation_preserves_dot)). Qed.

Theorem C10_composition :
  (forall (p : pt3 R) a b, pt3_rotated_x (pt3_rotated_x p a) b = pt3_rotated_x p (a + b)) /\
  (forall (p : pt3 R) a b, pt3_rotated_y (pt3_rotated_y p a) b = pt3_rotated_y p (a + b)) /\
  (forall (p : pt3 R) a b, pt3_rotated_z (pt3_rotated_z p a) b = pt3_rotated_z p (a + b)) /\
  (forall (p : pt2 R) a b, pt2_rotated (pt2_rotated p a) b = pt2_rotated p (a + b)) /\
  (forall (u v : pt3 R) a b, pt3_dot u u = 1 ->
     rodrigues u (dcos b) (dsin b) (rodrigues u (dcos a) (dsin a) v) = rodrigues u (dcos (a + b)) (dsin (a + b)) v) /\
  (forall (p : pt3 R) (q : pt2 R) a,
     pt3_rotated_x (pt3_rotated_x p a) (- a) = p /\ pt3_rotated_y (pt3_rotated_y p a) (- a) = p /\
     pt3_rotated_z (pt3_rotated_z p a) (- a) = p /\ pt2_rotated (pt2_rotated q a) (- a) = q).
Proof. exact (conj rot_x_add (conj rot_y_add (conj rot_z_add (conj rot_2_add (conj rot_vec_add rot_neg_inv))))). Qed.

(* look_at_matrix_lh acts on vectors as a proper rotation taking +Z to the unit direction and +X perpendicular to up *)
Theorem C10_look_at :
  (forall eye center up : pt3 R, eye <> center ->
     let f := direction eye center in
     pt3_cross up f <> Pt3 0 0 0 ->
     let m := mt4_look_at_lh eye center up in
     proper_rotation m /\ acts m (Pt3 0 0 1) = f /\ pt3_dot f f = 1 /\ pt3_dot (acts m (Pt3 1 0 0)) up = 0) /\
  (forall eye center : pt3 R, eye <> center ->
     let f := direction eye center in
     (f = Pt3 0 0 1 \/ f = Pt3 0 0 (-1)) ->
     let m := mt4_look_at_lh eye center (Pt3 0 0 1) in
     proper_rotation m /\ acts m (Pt3 0 0 1) = f /\ pt3_dot (acts m (Pt3 1 0 0)) (Pt3 0 0 1) = 0).
Proof. exact (conj look_at_rotation look_at_vertical). Qed.
