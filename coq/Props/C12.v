(* Props/C12.v -- degree-based trig helpers are the trig functions in degrees. Over R. *)
From Coq Require Import Reals.
From SCAD Require Import Base.Num Base.NumR Base.Trig_proofs.
Local Open Scope R_scope.

Theorem C12_forward :
  (forall a, dsin a = sin (a * PI / 180)) /\ (forall a, dcos a = cos (a * PI / 180)) /\
  (forall a, dtan a = tan (a * PI / 180)).
Proof. exact (conj dsin_def (conj dcos_def dtan_def)). Qed.

Theorem C12_inverse_in_degrees :
  (forall x, dasin x = asin x * 180 / PI) /\ (forall x, dacos x = acos x * 180 / PI) /\
  (forall x, datan x = atan x * 180 / PI).
Proof. exact (conj dasin_def (conj dacos_def datan_def)). Qed.

Theorem C12_roundtrip :
  (forall a, -90 <= a <= 90 -> dasin (dsin a) = a) /\
  (forall a, 0 <= a <= 180 -> dacos (dcos a) = a) /\
  (forall a, -90 < a < 90 -> datan (dtan a) = a).
Proof. exact (conj dasin_dsin (conj dacos_dcos datan_dtan)). Qed.

Theorem C12_roundtrip_ratio :
  (forall x, -1 <= x <= 1 -> dsin (dasin x) = x) /\
  (forall x, -1 <= x <= 1 -> dcos (dacos x) = x) /\
  (forall x, dtan (datan x) = x).
Proof. exact (conj dsin_dasin (conj dcos_dacos dtan_datan)). Qed.

Theorem C12_approx_eq : forall a b eps, approx_eq a b eps = true <-> Rabs (a - b) < eps.
Proof. exact approx_eq_iff. Qed.

Example C12_nonvacuous : (-90 <= 30 <= 90) /\ (0 <= 120 <= 180) /\ (-90 < -45 < 90).
Proof. repeat split; Lra.lra. Qed.
