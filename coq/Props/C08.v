(* Props/C08.v -- Bezier curves and chains. Over R. *)
From Coq Require Import Reals ZArith List.
From SCAD Require Import Base.Num Base.NumR Base.Vec Base.Vec_proofs Geom.Dim2 Geom.Dim2_proofs.
Import ListNotations.
Local Open Scope R_scope.

(* the point function is the Bernstein form and the de Casteljau construction; 2D and 3D agree *)
Theorem C08_curve_is_bernstein_decasteljau :
  (forall s c1 c2 e t, cubic_point s c1 c2 e t = bern3 s c1 c2 e t) /\
  (forall s c e t, quadratic_point s c e t = bern2 s c e t) /\
  (forall (s c1 c2 e : pt2 R) t, cubic_point s c1 c2 e t =
     pt2_lerp (pt2_lerp (pt2_lerp s c1 t) (pt2_lerp c1 c2 t) t) (pt2_lerp (pt2_lerp c1 c2 t) (pt2_lerp c2 e t) t) t) /\
  (forall (s c e : pt2 R) t, quadratic_point s c e t = pt2_lerp (pt2_lerp s c t) (pt2_lerp c e t) t) /\
  (forall (s c1 c2 e : pt2 R) z t,
     cubic_point3 (pt2_as_pt3 s z) (pt2_as_pt3 c1 z) (pt2_as_pt3 c2 z) (pt2_as_pt3 e z) t = pt2_as_pt3 (cubic_point s c1 c2 e t) z) /\
  (forall (s c e : pt2 R) z t,
     quadratic_point3 (pt2_as_pt3 s z) (pt2_as_pt3 c z) (pt2_as_pt3 e z) t = pt2_as_pt3 (quadratic_point s c e t) z).
Proof.
  exact (conj cubic_is_bernstein (conj quadratic_is_bernstein (conj cubic_is_decasteljau (conj quadratic_is_decasteljau
        (conj cubic_2d_3d quadratic_2d_3d))))).
Qed.

(* segments+1 points, point i at t = i/segments, first = start, last = end, all in the convex hull *)
Theorem C08_sampled_points :
  (forall (s c1 c2 e : pt2 R) segments, (1 <= segments)%Z ->
     length (cubic_bezier s c1 c2 e segments) = Z.to_nat (segments + 1) /\
     (forall i, (i < Z.to_nat (segments + 1))%nat ->
        nth i (cubic_bezier s c1 c2 e segments) s = bern3 s c1 c2 e (IZR (Z.of_nat i) / IZR segments)) /\
     nth 0 (cubic_bezier s c1 c2 e segments) s = s /\
     nth (Z.to_nat segments) (cubic_bezier s c1 c2 e segments) s = e) /\
  (forall t, 0 <= t <= 1 ->
     0 <= (1 - t) ^ 3 /\ 0 <= 3 * t * (1 - t) ^ 2 /\ 0 <= 3 * t ^ 2 * (1 - t) /\ 0 <= t ^ 3 /\
     (1 - t) ^ 3 + 3 * t * (1 - t) ^ 2 + 3 * t ^ 2 * (1 - t) + t ^ 3 = 1).
Proof. exact (conj cubic_bezier_points bernstein3_weights). Qed.

(* every history new -> add* : consecutive curves share their end point exactly and the next handle lies on the old end tangent *)
Theorem C08_chain_history : forall s c1 c2 e seg (ops : list chain_op),
  let ch := fold_left apply_op ops (chain2_new s c1 c2 e seg) in
  chained (ch_curves ch) /\ ch_curves ch <> [] /\ ch_closed ch = false /\ c_start (hd dummy_curve2 (ch_curves ch)) = s.
Proof. exact chain_history_inv. Qed.

Theorem C08_chain_close : forall (ch : @chain2 R) len c2 slen seg, ch_curves ch <> [] -> chained (ch_curves ch) ->
  let ch' := chain2_close ch len c2 slen seg in
  ch_closed ch' = true /\
  c_end (last (ch_curves ch') dummy_curve2) = c_start (hd dummy_curve2 (ch_curves ch')) /\
  joined (last (ch_curves ch') dummy_curve2) (hd dummy_curve2 (ch_curves ch')) /\
  length (ch_curves ch') = S (length (ch_curves ch)).
Proof. exact chain_close_inv. Qed.

Theorem C08_tangent_direction : forall (e c2 : pt2 R) len, pt2_nonzero (pt2_sub e c2) -> 0 < len ->
  exists k, 0 < k /\ pt2_sub (handle e c2 len) e = pt2_mul (pt2_sub e c2) k.
Proof. exact handle_direction. Qed.

Theorem C08_chain_point_count : forall (ch : @chain2 R),
  (forall c, In c (ch_curves ch) -> (1 <= c_segments c)%Z) ->
  length (chain2_points ch) =
  (fold_right (fun c acc => Z.to_nat (c_segments c) + acc) 0 (ch_curves ch) + (if ch_closed ch then 0 else 1))%nat.
Proof. exact chain_points_length. Qed.

(* bezier_star and BezierStar::new(..).gen_points() are the same function of their arguments (one term in the model; the
   two Rust code paths are each compared with it by the differential run) *)
Theorem C08_star_paths_agree : forall n inner ihl outer ohl seg,
  @bezier_star R _ n inner ihl outer ohl seg = chain2_points (bezier_star_struct n inner ihl outer ohl seg).
Proof. reflexivity. Qed.
