(* Props/C08.v -- Bezier curves and chains. Over R. *)
From Coq Require Import Reals ZArith List.
From SCAD Require Import Base.Num Base.NumR Base.Vec Base.Vec_proofs Geom.Dim2 Geom.Dim2_proofs Geom.Bezier_chains.
Import ListNotations.
Local Open Scope R_scope.

(* the point function is the Bernstein form and the de Casteljau construction; 2D and 3D agree *)
Theorem C08_curve_is_bernstein_decasteljau :
  (forall s c1 c2 e t, cubic_point s c1 c2 e t = bern3 s c1 c2 e t) /\
  (forall s c e t, quadratic_point s c e t = bern2 s c e t) /\
  (forall (s c1 c2 e : pt2 R) t, cubic_point s c1 c2 e t =
     pt2_lerp (pt2_lerp (pt2_lerp s c1 t) (pt2_lerp c1 c2 t) t) (pt2_lerp (pt2_lerp c1 c2 t) (pt2_lerp c2 e t) t) t) /\
  (forall (s c e : pt2 R) t, quadratic_point s c e t = pt2_lerp (pt2_lerp s c t) (pt2_lerp c e t) t) /\
  (forall (s c1 c2 e : pt2 R) z t,
     cubic_point3 (pt2_as_pt3 s z) (pt2_as_pt3 c1 z) (pt2_as_pt3 c2 z) (pt2_as_pt3 e z) t = pt2_as_pt3 (cubic_point s c1 c2 e t) z) /\
  (forall (s c e : pt2 R) z t,
     quadratic_point3 (pt2_as_pt3 s z) (pt2_as_pt3 c z) (pt2_as_pt3 e z) t = pt2_as_pt3 (quadratic_point s c e t) z).
Proof.
  exact (conj cubic_is_bernstein (conj quadratic_is_bernstein (conj cubic_is_decasteljau (conj quadratic_is_decasteljau
        (conj cubic_2d_3d quadratic_2d_3d))))).
Qed.

(* segments+1 points, point i at t = i/segments, first = start, last = end, all in the convex hull *)
Theorem C08_sampled_points :
  (forall (s c1 c2 e : pt2 R) segments, (1 <= segments)%Z ->
     length (cubic_bezier s c1 c2 e segments) = Z.to_nat (segments + 1) /\
     (forall i, (i < Z.to_nat (segments + 1))%nat ->
        nth i (cubic_bezier s c1 c2 e segments) s = bern3 s c1 c2 e (IZR (Z.of_nat i) / IZR segments)) /\
     nth 0 (cubic_bezier s c1 c2 e segments) s = s /\
     nth (Z.to_nat segments) (cubic_bezier s c1 c2 e segments) s = e) /\
  (forall t, 0 <= t <= 1 ->
     0 <= (1 - t) ^ 3 /\ 0 <= 3 * t * (1 - t) ^ 2 /\ 0 <= 3 * t ^ 2 * (1 - t) /\ 0 <= t ^ 3 /\
     (1 - t) ^ 3 + 3 * t * (1 - t) ^ 2 + 3 * t ^ 2 * (1 - t) + t ^ 3 = 1).
Proof. exact (conj cubic_bezier_points bernstein3_weights). Qed.

(* every history new -> add* : consecutive curves share their end point exactly and the next handle lies on the old end tangent *)
Theorem C08_chain_history : forall s c1 c2 e seg (ops : list chain_op),
  let ch := fold_left apply_op ops (chain2_new s c1 c2 e seg) in
  chained (ch_curves ch) /\ ch_curves ch <> [] /\ ch_closed ch = false /\ c_start (hd dummy_curve2 (ch_curves ch)) = s.
Proof. exact chain_history_inv. Qed.

Theorem C08_chain_close : forall (ch : @chain2 R) len c2 slen seg, ch_curves ch <> [] -> chained (ch_curves ch) ->
  let ch' := chain2_close ch len c2 slen seg in
  ch_closed ch' = true /\
  c_end (last (ch_curves ch') dummy_curve2) = c_start (hd dummy_curve2 (ch_curves ch')) /\
  joined (last (ch_curves ch') dummy_curve2) (hd dummy_curve2 (ch_curves ch')) /\
  length (ch_curves ch') = S (length (ch_curves ch)).
Proof. exact chain_close_inv. Qed.

Theorem C08_tangent_direction : forall (e c2 : pt2 R) len, pt2_nonzero (pt2_sub e c2) -> 0 < len ->
  exists k, 0 < k /\ pt2_sub (handle e c2 len) e = pt2_mul (pt2_sub e c2) k.
Proof. exact handle_direction. Qed.

Theorem C08_chain_point_count : forall (ch : @chain2 R),
  (forall c, In c (ch_curves ch) -> (1 <= c_segments c)%Z) ->
  length (chain2_points ch) =
  (fold_right (fun c acc => Z.to_nat (c_segments c) + acc) 0 (ch_curves ch) + (if ch_closed ch then 0 else 1))%nat.
Proof. exact chain_points_length. Qed.

(* bezier_star and BezierStar::new(..).gen_points() are the same function of their arguments (one term in the model; the
   two Rust code paths are each compared with it by the differential run) *)
Theorem C08_star_paths_agree : forall n inner ihl outer ohl seg,
  @bezier_star R _ n inner ihl outer ohl seg = chain2_points (bezier_star_struct n inner ihl outer ohl seg).
Proof. reflexivity. Qed.

(* quadratic curves and the 3D curves: the same sample theorem *)
Theorem C08_sampled_points_quadratic_and_3d :
  (forall (s c e : pt2 R) segments, (1 <= segments)%Z ->
     length (quadratic_bezier s c e segments) = Z.to_nat (segments + 1) /\
     (forall i, (i < Z.to_nat (segments + 1))%nat ->
        nth i (quadratic_bezier s c e segments) s = bern2 s c e (IZR (Z.of_nat i) / IZR segments)) /\
     nth 0 (quadratic_bezier s c e segments) s = s /\
     nth (Z.to_nat segments) (quadratic_bezier s c e segments) s = e) /\
  (forall t, 0 <= t <= 1 -> 0 <= (1 - t) ^ 2 /\ 0 <= 2 * t * (1 - t) /\ 0 <= t ^ 2 /\ (1 - t) ^ 2 + 2 * t * (1 - t) + t ^ 2 = 1) /\
  (forall (s c1 c2 e : pt3 R) segments, (1 <= segments)%Z ->
     length (cubic_bezier3 s c1 c2 e segments) = Z.to_nat (segments + 1) /\
     (forall i, (i < Z.to_nat (segments + 1))%nat ->
        nth i (cubic_bezier3 s c1 c2 e segments) s = bern3_3 s c1 c2 e (IZR (Z.of_nat i) / IZR segments)) /\
     nth 0 (cubic_bezier3 s c1 c2 e segments) s = s /\
     nth (Z.to_nat segments) (cubic_bezier3 s c1 c2 e segments) s = e) /\
  (forall (s c e : pt3 R) segments, (1 <= segments)%Z ->
     length (quadratic_bezier3 s c e segments) = Z.to_nat (segments + 1) /\
     (forall i, (i < Z.to_nat (segments + 1))%nat ->
        nth i (quadratic_bezier3 s c e segments) s = bern2_3 s c e (IZR (Z.of_nat i) / IZR segments)) /\
     nth 0 (quadratic_bezier3 s c e segments) s = s /\
     nth (Z.to_nat segments) (quadratic_bezier3 s c e segments) s = e).
Proof. exact (conj quadratic_bezier_points (conj bernstein2_weights (conj cubic_bezier3_points quadratic_bezier3_points))). Qed.

(* gen_points of a chain, point by point: point i of curve k sits at (sum of the earlier segment counts) + i and is that curve's
   Bernstein point at i/segments -- so the chain passes through every knot, in order, each joint appears once, an open chain ends on
   the end point of its last curve and a closed one stops before repeating its first point *)
Theorem C08_chain_points : forall (ch : @chain2 R), (forall c, In c (ch_curves ch) -> (1 <= c_segments c)%Z) ->
  (forall k i, (k < length (ch_curves ch))%nat -> (i < Z.to_nat (c_segments (nth k (ch_curves ch) dummy_curve2)))%nat ->
     let c := nth k (ch_curves ch) dummy_curve2 in
     nth (offset2 (ch_curves ch) k + i) (chain2_points ch) (c_start c) =
     bern3 (c_start c) (c_control1 c) (c_control2 c) (c_end c) (IZR (Z.of_nat i) / IZR (c_segments c))) /\
  (forall k, (k < length (ch_curves ch))%nat ->
     nth (offset2 (ch_curves ch) k) (chain2_points ch) (c_start (nth k (ch_curves ch) dummy_curve2)) = c_start (nth k (ch_curves ch) dummy_curve2)) /\
  (ch_curves ch <> [] -> ch_closed ch = false -> forall d, last (chain2_points ch) d = c_end (last (ch_curves ch) dummy_curve2)) /\
  (ch_curves ch <> [] -> ch_closed ch = true -> length (chain2_points ch) = offset2 (ch_curves ch) (length (ch_curves ch))).
Proof.
  intros ch Hs. split; [|split; [|split]].
  - intros k i Hk Hi. exact (chain2_point_at ch k i Hs Hk Hi).
  - intros k Hk. exact (chain2_knot ch k Hs Hk).
  - intros Hne Hcl d. exact (chain2_last_point ch d Hne Hs Hcl).
  - intros Hne Hcl. exact (chain2_closed_length ch Hne Hs Hcl).
Qed.

(* CubicBezierChain3D: the same invariants and the same point-by-point description *)
Theorem C08_chain3_history : forall s c1 c2 e seg (ops : list chain_op3),
  let ch := fold_left apply_op3 ops (chain3_new s c1 c2 e seg) in
  chained3 (dh_curves ch) /\ dh_curves ch <> [] /\ dh_closed ch = false /\ d_start (hd dummy_curve3 (dh_curves ch)) = s.
Proof. exact chain3_history_inv. Qed.

Theorem C08_chain3_close : forall (ch : @chain3 R) len c2 slen seg, dh_curves ch <> [] -> chained3 (dh_curves ch) ->
  let ch' := chain3_close ch len c2 slen seg in
  dh_closed ch' = true /\
  d_end (last (dh_curves ch') dummy_curve3) = d_start (hd dummy_curve3 (dh_curves ch')) /\
  joined3 (last (dh_curves ch') dummy_curve3) (hd dummy_curve3 (dh_curves ch')) /\
  length (dh_curves ch') = S (length (dh_curves ch)).
Proof. exact chain3_close_inv. Qed.

Theorem C08_tangent_direction3 : forall (e c2 : pt3 R) len, pt3_nonzero (pt3_sub e c2) -> 0 < len ->
  exists k, 0 < k /\ pt3_sub (handle3 e c2 len) e = pt3_mul (pt3_sub e c2) k.
Proof. exact handle3_direction. Qed.

Theorem C08_chain3_points : forall (ch : @chain3 R), (forall c, In c (dh_curves ch) -> (1 <= d_segments c)%Z) ->
  (forall k i, (k < length (dh_curves ch))%nat -> (i < Z.to_nat (d_segments (nth k (dh_curves ch) dummy_curve3)))%nat ->
     let c := nth k (dh_curves ch) dummy_curve3 in
     nth (offset3 (dh_curves ch) k + i) (chain3_points ch) (d_start c) =
     bern3_3 (d_start c) (d_control1 c) (d_control2 c) (d_end c) (IZR (Z.of_nat i) / IZR (d_segments c))) /\
  (forall k, (k < length (dh_curves ch))%nat ->
     nth (offset3 (dh_curves ch) k) (chain3_points ch) (d_start (nth k (dh_curves ch) dummy_curve3)) = d_start (nth k (dh_curves ch) dummy_curve3)) /\
  (dh_curves ch <> [] -> dh_closed ch = false -> forall d, last (chain3_points ch) d = d_end (last (dh_curves ch) dummy_curve3)) /\
  (dh_curves ch <> [] -> dh_closed ch = true -> length (chain3_points ch) = offset3 (dh_curves ch) (length (dh_curves ch))).
Proof.
  intros ch Hs. split; [|split; [|split]].
  - intros k i Hk Hi. exact (chain3_point_at ch k i Hs Hk Hi).
  - intros k Hk. exact (chain3_knot ch k Hs Hk).
  - intros Hne Hcl d. exact (chain3_last_point ch d Hne Hs Hcl).
  - intros Hne Hcl. exact (chain3_closed_length ch Hne Hs Hcl).
Qed.
