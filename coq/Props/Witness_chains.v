(* Props/Witness_chains.v -- the premises of the conditional C08 theorems are satisfiable. *)
From Coq Require Import Reals ZArith List Lra Lia.
From SCAD Require Import Base.Num Base.NumR Base.Vec Geom.Dim2 Geom.Dim2_proofs Geom.Bezier_chains.
Import ListNotations.
Local Open Scope R_scope.

(* a closed chain of three curves meets the hypotheses of C08_chain_points (segment counts >= 1, curves present) *)
Example chain_instance :
  let ch := chain2_close (chain2_add (chain2_new (Pt2 0 0) (Pt2 1 0) (Pt2 2 1) (Pt2 3 1) 4) 1 (Pt2 4 3) (Pt2 3 4) 3) 1 (Pt2 (-1) 2) 1 5 in
  ch_curves ch <> [] /\ (forall c, In c (ch_curves ch) -> (1 <= c_segments c)%Z) /\ ch_closed ch = true /\ length (ch_curves ch) = 3%nat.
Proof.
  cbv zeta. unfold chain2_close, chain2_add, chain2_new. cbn [ch_curves ch_closed app last hd length].
  split; [discriminate|]. split; [|split; reflexivity].
  intros c [<-|[<-|[<-|[]]]]; cbn [c_segments]; lia.
Qed.
