(* Props/Witness.v -- the premises of the conditional theorems over R are satisfiable: concrete, non-trivial instances
   (the rational reading is used for such witnesses where a theorem is generic in the number type, see C03.v / C04.v). *)
From Coq Require Import Reals ZArith List Lra Lia.
From SCAD Require Import Base.Num Base.NumR Base.Vec Geom.Poly Geom.Tri Geom.Tri_proofs Geom.Dim2 Geom.Dim2_proofs Geom.Dim3 Geom.Mesh_proofs
  Geom.Tri_convex Geom.Volume_proofs Geom.Revolve_volume Geom.Dim2_winding Geom.Simple Geom.RR_simple Geom.Fan_convex Geom.RR_convex Geom.Mesh_exact.
Import ListNotations.
Local Open Scope R_scope.

Lemma arc_is_defined start degrees segments : degrees <= 360 -> exists pts, arc start degrees segments = Some pts.
Proof. intros Hd. unfold arc. cbn [nleb nofZ NumR]. destruct (Rleb degrees 360) eqn:E; [eexists; reflexivity|apply Rleb_false in E; lra]. Qed.

(* a 10 x 6 rounded rectangle of corner radius 2 with 3 segments per corner, centred: built, 16 points, and its extrusion is
   built too -- so C07_rounded_rect_*, C03_rounded_rect_complete and C04_rounded_rect_prism speak about something *)
Example rounded_rect_instance :
  exists pts ph, rounded_rect 10 6 2 3 true = Some pts /\ length pts = 16%nat /\ linear_extrude pts 5 = Some ph /\
                 closed_exact (snd ph) /\ vol6 (fst ph) (snd ph) < 0 /\ simple pts /\ Poly.area2 pts < 0.
Proof.
  destruct (arc_is_defined (Pt2 0 2) 90 3 ltac:(lra)) as [a0 E0]. destruct (arc_is_defined (Pt2 2 0) 90 3 ltac:(lra)) as [a1 E1].
  destruct (arc_is_defined (Pt2 (- 0) (- (2))) 90 3 ltac:(lra)) as [a2 E2]. destruct (arc_is_defined (Pt2 (- (2)) 0) 90 3 ltac:(lra)) as [a3 E3].
  assert (Hrr : exists pts, rounded_rect 10 6 2 3 true = Some pts).
  { unfold rounded_rect. cbn [nzero nofZ nneg nsub ndiv ntwo NumR]. rewrite E0, E1, E2, E3. eexists. reflexivity. }
  destruct Hrr as [pts Hp]. assert (Hr : 0 < 2) by lra. assert (Hw : 2 * 2 < 10) by lra. assert (Hh : 2 * 2 < 6) by lra. assert (Hs : (1 <= 3)%Z) by lia.
  assert (Hlen : length pts = 16%nat).
  { destruct (rounded_rect_centred 10 6 2 3 pts Hr ltac:(lra) ltac:(lra) Hs Hp) as (pts0 & Hp0 & -> & _). rewrite map_length.
    destruct (rounded_rect_box 10 6 2 3 pts0 Hr ltac:(lra) ltac:(lra) Hs Hp0) as (Hl & _). rewrite Hl. reflexivity. }
  assert (Hex : exists ph, linear_extrude pts 5 = Some ph).
  { unfold linear_extrude, triangulate2d, triangulate2d_rev. rewrite Hlen. cbn [Nat.ltb Nat.leb]. eexists. reflexivity. }
  destruct Hex as [ph Hph]. exists pts, ph.
  destruct (rounded_rect_prism_unconditional 10 6 2 3 true pts 5 ph Hr Hw Hh Hs Hp Hph) as [Hc Hv].
  split; [exact Hp|]. split; [exact Hlen|]. split; [exact Hph|]. split; [exact Hc|]. split; [apply Hv; lra|]. split.
  - apply (rounded_rect_simple 10 6 2 3 true pts Hr Hw Hh Hs Hp).
  - apply (rounded_rect_clockwise 10 6 2 3 true pts Hr Hw Hh Hs Hp).
Qed.

(* the washer profile [1,2] x [0,1], clockwise: convex (so its caps are complete), right of the axis, negative area; a
   half turn in 8 segments is built and outward -- the premises of C04_rotate_extrude_outward hold together *)
Definition washer : list (pt2 R) := [Pt2 1 0; Pt2 1 1; Pt2 2 1; Pt2 2 0].
Example washer_instance :
  conv false (enumerate washer) /\ complete (enumerate washer) /\ Forall (fun p => 1 <= x2 p) washer /\ Poly.area2 washer < 0 /\
  exists ph, rotate_extrude washer 180 8 = Some ph /\ vol6 (fst ph) (snd ph) < 0.
Proof.
  assert (Hcv : conv false (enumerate washer)).
  { intros i j k Hij Hjk Hk. cbn [length enumerate washer combine map seq] in Hk.
    destruct i as [|[|[|[|i]]]]; destruct j as [|[|[|[|j]]]]; destruct k as [|[|[|[|k]]]]; try lia;
      unfold pt_at, nthv, enumerate, washer, orientR; cbn [length combine map seq nth snd x2 y2]; lra. }
  assert (Hcp : complete (enumerate washer)) by (apply (convex_complete false); [exact Hcv|cbn; lia]).
  assert (Hx : Forall (fun p => 1 <= x2 p) washer) by (repeat constructor; cbn [x2]; lra).
  assert (Ha : Poly.area2 washer < 0) by (unfold Poly.area2, washer, open_area2, last; cbn [cross2 x2 y2 nsub nmul nadd nzero NumR]; lra).
  split; [exact Hcv|]. split; [exact Hcp|]. split; [exact Hx|]. split; [exact Ha|].
  assert (Hre : exists ph, rotate_extrude washer 180 8 = Some ph).
  { unfold rotate_extrude, triangulate2d, triangulate2d_rev. cbn [nleb nzero nofZ NumR length washer Nat.ltb Nat.leb].
    destruct (Rleb 0 180) eqn:E1; [|apply Rleb_false in E1; lra]. destruct (Rleb 180 360) eqn:E2; [|apply Rleb_false in E2; lra].
    cbn [andb negb Z.ltb Z.compare Pos.compare Pos.compare_cont]. eexists. reflexivity. }
  destruct Hre as [ph Hph]. exists ph. split; [exact Hph|].
  apply (rotate_extrude_outward washer 180 8 ph 1 Hph); try assumption; lra.
Qed.
