(* Props/C19.v -- the random generator is the reference MT19937 stream in documented ranges.
   Axiom-free (N, nat, lists). *)
From Coq Require Import NArith ZArith List Arith.
From SCAD Require Import Gen.RngConsts Rng.MT Rng.MTSpec Rng.MT_proofs Rng.F32_proofs.
Local Open Scope N_scope.

(* the reference sequence really is the textbook recurrence *)
Theorem C19_reference_recurrence :
  (forall seed, x seed 0 = N.land seed 4294967295) /\
  (forall seed i, (0 < i < 624)%nat -> x seed i = N.land (6069 * x seed (i - 1)) 4294967295) /\
  (forall seed k, x seed (k + 624) = N.lxor (x seed (k + 397)) (ref_twist (x seed k) (x seed (k + 1)))).
Proof. exact (conj x_0 (conj x_seed_step x_rec)). Qed.

(* one regeneration maps a block of the sequence to the next block *)
Theorem C19_regen_is_recurrence : forall seed g b, Block seed g b -> Block seed (g + 624) (regen b).
Proof. exact regen_is_recurrence. Qed.

(* every seed, every stream position: output i = temper(x_(i+624)) *)
Theorem C19_stream_is_reference : forall seed i, nth_output seed i = ref_output seed i.
Proof. exact stream_is_reference. Qed.

Theorem C19_outputs_are_reference : forall seed n i, (i < n)%nat ->
  nth i (outputs (with_seed seed) n) 0 = ref_output seed i.
Proof. exact outputs_are_reference. Qed.

(* f32_0_1 in [0, 1) for all 2^32 raw outputs: numerator over f01_den = 2^32 *)
Theorem C19_f32_0_1_range : f01_den = 4294967296 /\ forall u, u < 4294967296 -> f01_num u < f01_den.
Proof. exact (conj f01_den_val f01_lt_1). Qed.

(* why the guard has to cover 128 values, not one *)
Theorem C19_unguarded_top_is_one :
  r32 4294967168 = 4294967296 /\ r32 4294967295 = 4294967296 /\ r32 4294967167 = 4294967040.
Proof. exact r32_top_reaches_one. Qed.

(* i32_minmax(min, max) is in [min, max) for all min < max with max - min <= 2^24 and all 2^32 raw outputs:
   the f32 product (max-min) * f01 is rounded once (ties to even) and truncated *)
Theorem C19_i32_minmax_range : forall (mn mx : Z) (u : N), (mn < mx)%Z -> (mx - mn <= 16777216)%Z -> u < 4294967296 ->
  (mn <= i32_minmax mn mx u < mx)%Z.
Proof. exact i32_minmax_range. Qed.
(* f32_0_1 never exceeds 1 - 2^-24 *)
Theorem C19_f01_max : forall u, u < 4294967296 -> f01_num u <= 4294967040.
Proof. exact f01_num_le. Qed.

Example C19_i32_nonvacuous : ((-5) < 7 /\ 7 - (-5) <= 16777216)%Z. Proof. split; Lia.lia. Qed.

(* ---- f32_minmax / f64_minmax never leave [min, max] ----
   min + (max - min) * f with every operation rounded to nearest-even (binary32: 24 bits, emin -149; binary64: 53 bits,
   emin -1074; Flocq's FLT format, overflow excluded by the property's bound on max - min), f = f32_0_1() =
   f01_num u / 2^32 <= 1 - 2^-24: for all representable min <= max and every raw output.
   Axioms: stdlib reals and Classical_Prop.classic (through Flocq). *)
From Coq Require Import Reals.
From Flocq Require Import Core.
From SCAD Require Import Rng.Minmax_proofs.
Theorem C19_minmax_any_precision : forall (emin prec : Z) (Hp : Prec_gt_0 prec), (24 <= prec)%Z ->
  forall x y f : R, generic_format radix2 (FLT_exp emin prec) x -> generic_format radix2 (FLT_exp emin prec) y ->
  (x <= y)%R -> (0 <= f <= 1 - bpow radix2 (-24))%R -> (x <= minmax emin prec x y f <= y)%R.
Proof. intros emin prec Hp. exact (@minmax_in_range emin prec Hp). Qed.
Theorem C19_f32_minmax_range : forall (mn mx : R) (u : N),
  generic_format radix2 (FLT_exp (-149) 24) mn -> generic_format radix2 (FLT_exp (-149) 24) mx ->
  (mn <= mx)%R -> (u < 4294967296)%N -> (mn <= f32_minmax_R mn mx u <= mx)%R.
Proof. exact f32_minmax_range. Qed.
Theorem C19_f64_minmax_range : forall (mn mx : R) (u : N),
  generic_format radix2 (FLT_exp (-1074) 53) mn -> generic_format radix2 (FLT_exp (-1074) 53) mx ->
  (mn <= mx)%R -> (u < 4294967296)%N -> (mn <= f64_minmax_R mn mx u <= mx)%R.
Proof. exact f64_minmax_range. Qed.
