(* Props/C14.v -- a `center` flag only translates the part. Over R, on the part models. *)
From Coq Require Import Reals ZArith List.
From SCAD Require Import Base.Num Base.NumR Base.Vec Base.Mat Text.Chars Text.Tree Parts.Thread Parts.Sem Parts.Parts_proofs.
Import ListNotations.
Local Open Scope R_scope.

(* for every builder with a centre flag and all other arguments: the centred tree is the un-centred tree under
   translate([0, 0, -H/2]) and nothing else (H = the part's total height) *)
Theorem C14_center_is_one_translate :
  (forall m length seg li lo left,
     threaded_rod m length seg li lo left true = option_map (tzR (- length / 2)) (threaded_rod m length seg li lo left false)) /\
  (forall m length seg left, tap m length seg left true = option_map (tzR (- length / 2)) (tap m length seg left false)) /\
  (forall m length hh seg li ch left,
     hex_bolt m length hh seg li ch left true = option_map (tzR (- ((hh + length) / 2))) (hex_bolt m length hh seg li ch left false)) /\
  (forall m height seg ch left,
     hex_nut m height seg ch left true = option_map (tzR (- height / 2)) (hex_nut m height seg ch left false)) /\
  (forall size oversize radius height seg,
     external_cylinder_chamfer size oversize radius height seg true =
     tzR (- height / 2) (external_cylinder_chamfer size oversize radius height seg false)).
Proof.
  exact (conj center_threaded_rod (conj center_tap (conj center_hex_bolt (conj center_hex_nut center_cylinder_chamfer)))).
Qed.

(* and that means: every placed sub-part is moved by exactly that translation; leaves and nesting are unchanged *)
Theorem C14_translate_moves_every_subpart : forall (z : R) (t : scad R text),
  flatten mt4_identity [] (tzR z t) = map (move (mt4_translate_matrix 0 0 z)) (flatten mt4_identity [] t).
Proof. exact centred_is_moved. Qed.
