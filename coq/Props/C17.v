(* Props/C17.v -- polar_array and cylinder chamfers. Over R, on the part models. *)
From Coq Require Import Reals ZArith List.
From SCAD Require Import Base.Num Base.NumR Base.Vec Base.Mat Text.Chars Text.Tree Parts.Thread Parts.Sem Parts.Parts_proofs.
Import ListNotations.
Local Open Scope R_scope.

(* the union unrolls to the seed followed by one copy of the unmodified s per k, rotated about Z by k * (-degrees) / steps *)
Theorem C17_polar_array : forall (s : scad R text) count degrees, not_union s -> degrees <= 360 ->
  let steps := if Reqb degrees 360 then count else (count - 1)%Z in
  exists t, polar_array s count degrees = Some t /\
    unroll_union t = s :: map (fun i => rot_copy s ((IZR i * (- degrees)) / IZR steps)) (map Z.of_nat (seq 0 (Z.to_nat count))).
Proof. exact polar_array_unrolled. Qed.
Theorem C17_step : forall i count degrees, (1 <= count)%Z ->
  (IZR (Z.of_nat i) * (- degrees)) / IZR count = - (IZR (Z.of_nat i) * (degrees / IZR count)).
Proof. exact polar_step_angle. Qed.

Theorem C17_cylinder_chamfer :
  (forall size oversize radius height seg,
     external_cylinder_chamfer size oversize radius height seg false =
     Node Union [external_circle_chamfer size oversize radius 360 seg;
                 Node (Translate (P3 0 0 height)) [Node (Rotate None false (P3 180 0 0)) [external_circle_chamfer size oversize radius 360 seg]]]) /\
  (forall (p : pt3 R) h,
     let q := pt3_add (pt3_rotated_x p 180) (Pt3 0 0 h) in
     x3 q = x3 p /\ y3 q = - y3 p /\ z3 q - h / 2 = - (z3 p - h / 2)).
Proof. exact (conj cylinder_chamfer_cutters flip_is_mirror_about_mid_height). Qed.

(* the same, semantically and for every seed s (also when s is itself a union): the placed items of the array are those of s
   followed, for k = 0 .. count-1, by those of s moved by rotate([0, 0, k * (-degrees) / steps]), which is the rotation about Z *)
Theorem C17_polar_array_placements : forall (s : scad R text) count degrees, degrees <= 360 ->
  let steps := if Reqb degrees 360 then count else (count - 1)%Z in
  exists t, polar_array s count degrees = Some t /\
    placements t = placements s ++
      flat_map (fun i => map (premul (mt4_rot_z_matrix ((IZR i * (- degrees)) / IZR steps))) (placements s)) (map Z.of_nat (seq 0 (Z.to_nat count))).
Proof.
  intros s count degrees Hd. cbv zeta. destruct (polar_array_placements s count degrees Hd) as [t [E P]]. exists t. split; [exact E|].
  cbv zeta in P. rewrite P. f_equal. apply flat_map_ext. intros i. rewrite rot_zyx_is_rot_z. reflexivity.
Qed.
