(* Props/C07.v -- 2D profile generators. Over R. What is proved: point counts, the arc law (radius kept, clockwise advance
   by degrees/segments), circle/inscribed corners on the radius, the circumscribed radius and tangency of its edges, the
   rounded-rectangle box (centred or not), and for all six outlines -- circle, inscribed and circumscribed polygon,
   rounded rectangle, star, chamfer -- the clockwise winding (negative shoelace area) and that they are simple polygons
   (pairwise distinct vertices, non-neighbouring edges disjoint); the chamfer exactly for 0 < oversize < size, and not
   beyond (known finding). The float reading of these facts is decided by the oracles on sampled outputs, see DESIGN.md. *)
From Coq Require Import Reals ZArith List Lia.
From SCAD Require Import Base.Num Base.NumR Base.Vec Base.Vec_proofs Base.Rot_proofs Geom.Poly Geom.Dim2 Geom.Dim2_proofs Geom.Dim2_winding Geom.Simple Geom.Star_simple Geom.RR_simple.
Import ListNotations.
Local Open Scope R_scope.

Theorem C07_arc :
  (forall start degrees segments, arc start degrees segments <> None <-> degrees <= 360) /\
  (forall start degrees segments pts, (0 <= segments)%Z -> arc start degrees segments = Some pts ->
     length pts = Z.to_nat (if Reqb degrees 360 then segments else (segments + 1)%Z)) /\
  (forall start degrees segments pts i, (0 <= segments)%Z -> arc start degrees segments = Some pts ->
     (i < length pts)%nat -> pt2_len2 (nth i pts start) = pt2_len2 start) /\
  (forall start degrees segments pts i, (0 <= segments)%Z -> arc start degrees segments = Some pts ->
     (i < length pts)%nat ->
     nth i pts start = R2_spec (dcos (- (IZR (Z.of_nat i) * degrees / IZR segments)))
                               (dsin (- (IZR (Z.of_nat i) * degrees / IZR segments))) start).
Proof.
  exact (conj arc_defined (conj (fun s d g p H1 H2 => proj1 (arc_spec s d g p H1 H2))
        (conj arc_keeps_radius arc_step_is_clockwise_rotation))).
Qed.

Theorem C07_circle_polygons :
  (forall radius segments pts i, (0 <= segments)%Z -> circle radius segments = Some pts -> (i < length pts)%nat ->
     length pts = Z.to_nat segments /\ pt2_len2 (nth i pts (Pt2 radius 0)) = radius * radius) /\
  (forall n r, inscribed_polygon n r = circle r n) /\
  (forall n r, circumscribed_polygon n r = inscribed_polygon n (r / dcos (180 / IZR n))).
Proof. exact (conj circle_on_radius (conj inscribed_is_circle circumscribed_radius)). Qed.

Theorem C07_chamfer :
  (forall size oversize, chamfer size oversize =
     [Pt2 0 (size + oversize); Pt2 oversize (size + oversize); Pt2 oversize size; Pt2 size oversize;
      Pt2 (size + oversize) oversize; Pt2 (oversize + size) 0; Pt2 0 0]) /\
  (forall size oversize, 0 < size -> 0 <= oversize -> area2 (chamfer size oversize) < 0).
Proof. exact (conj chamfer_points chamfer_clockwise). Qed.

Theorem C07_star_count : forall n inner outer, (0 <= n)%Z -> length (star n inner outer) = (2 * Z.to_nat n)%nat.
Proof. exact star_length. Qed.

(* REFUTED for oversize > size: the outline crosses itself at (oversize, oversize) -- recorded as a known finding *)
Theorem C07_chamfer_not_simple_when_oversize_exceeds_size : forall size oversize, 0 < size -> size < oversize ->
  let p := chamfer size oversize in
  let e2a := nth 1 p (Pt2 0 0) in let e2b := nth 2 p (Pt2 0 0) in
  let e4a := nth 3 p (Pt2 0 0) in let e4b := nth 4 p (Pt2 0 0) in
  x2 e2a = oversize /\ x2 e2b = oversize /\ strictly_between (y2 e2a) (y2 e2b) oversize /\
  y2 e4a = oversize /\ y2 e4b = oversize /\ strictly_between (x2 e4a) (x2 e4b) oversize.
Proof. exact chamfer_self_intersects. Qed.

(* the closed trig outlines are wound clockwise: shoelace area of circle(r, n) is -n r^2 sin(360/n) < 0 for every
   radius <> 0 and every n >= 3; likewise inscribed (= circle) and circumscribed polygons *)
Theorem C07_circle_area : forall (radius : R) (segments : Z) pts, (1 <= segments)%Z -> circle radius segments = Some pts ->
  area2 pts = (- (IZR segments * (radius * radius) * dsin (360 / IZR segments)))%R.
Proof. exact circle_area. Qed.
Theorem C07_circle_clockwise : forall (radius : R) (segments : Z) pts, (3 <= segments)%Z -> radius <> 0%R ->
  circle radius segments = Some pts -> (area2 pts < 0)%R.
Proof. exact circle_clockwise. Qed.
Theorem C07_polygons_clockwise : forall (n_sides : Z) (radius : R) pts, (3 <= n_sides)%Z -> radius <> 0%R ->
  (inscribed_polygon n_sides radius = Some pts -> (area2 pts < 0)%R) /\
  (circumscribed_polygon n_sides radius = Some pts -> (area2 pts < 0)%R).
Proof. intros n r pts Hn Hr. split; [apply circle_clockwise; assumption|apply circumscribed_clockwise; assumption]. Qed.
(* tangency: for every edge a -> b of circumscribed_polygon(n, r), (a x b)^2 = r^2 |b - a|^2, i.e. the line through
   the edge passes the origin at distance exactly r (all n >= 3, including the closing edge) *)
Theorem C07_circumscribed_tangent : forall (n_sides : Z) (radius : R) pts (i : nat), (3 <= n_sides)%Z ->
  circumscribed_polygon n_sides radius = Some pts -> (i < Z.to_nat n_sides)%nat ->
  let a := nth i pts (Pt2 0 0)%R in let b := nth (if Nat.eqb i (Z.to_nat n_sides - 1) then 0 else i + 1)%nat pts (Pt2 0 0)%R in
  (cross2 a b * cross2 a b = radius * radius * pt2_len2 (pt2_sub b a))%R.
Proof. exact circumscribed_tangent. Qed.
(* the rounded rectangle (un-centred): 4*(segments+1) points, all inside [0,w] x [0,h], touching all four sides at the
   ends of its corner arcs; every arc point is the corner start turned clockwise by at most 90 degrees about its
   corner centre (radius kept) -- for all 0 < r, 2r <= w, 2r <= h, segments >= 1 *)
Theorem C07_rounded_rect_box : forall (w h r : R) (segments : Z) pts, (0 < r)%R -> (2 * r <= w)%R -> (2 * r <= h)%R -> (1 <= segments)%Z ->
  rounded_rect w h r segments false = Some pts ->
  length pts = (4 * Z.to_nat (segments + 1))%nat /\ Forall (in_box 0 0 w h) pts /\
  In (Pt2 (w - r) h)%R pts /\ In (Pt2 w r) pts /\ In (Pt2 r 0)%R pts /\ In (Pt2 0 (h - r))%R pts.
Proof. exact rounded_rect_box. Qed.
(* the star: shoelace area -2 n inner outer sin(180/n) < 0, i.e. clockwise, for every n >= 2 and positive radii *)
Theorem C07_star_clockwise : forall (n : Z) (inner outer : R), (2 <= n)%Z -> (0 < inner)%R -> (0 < outer)%R ->
  area2 (star n inner outer) = (- (2 * IZR n * (inner * outer) * dsin (180 / IZR n)))%R /\ (area2 (star n inner outer) < 0)%R.
Proof. intros n i o Hn Hi Ho. split; [apply star_area; lia|apply star_clockwise; assumption]. Qed.
(* the centred rounded rectangle is the un-centred one moved by (-w/2, -h/2), inside [-w/2, w/2] x [-h/2, h/2] *)
Theorem C07_rounded_rect_centred : forall (w h r : R) (segments : Z) pts, (0 < r)%R -> (2 * r <= w)%R -> (2 * r <= h)%R -> (1 <= segments)%Z ->
  rounded_rect w h r segments true = Some pts ->
  exists pts0, rounded_rect w h r segments false = Some pts0 /\ pts = map (fun p => pt2_add p (Pt2 (- w / 2) (- h / 2))%R) pts0 /\
               Forall (in_box (- w / 2) (- h / 2) (w / 2) (h / 2))%R pts.
Proof. exact rounded_rect_centred. Qed.
(* the rounded rectangle, centred or not, is wound clockwise: seen from the centre of its box every chord of the four
   corner arcs and every straight side turns clockwise, so the shoelace area is negative -- all 0 < r < min(w,h)/2,
   segments >= 1 *)
Theorem C07_rounded_rect_clockwise : forall (w h r : R) (segments : Z) (center : bool) pts, (0 < r)%R -> (2 * r < w)%R -> (2 * r < h)%R -> (1 <= segments)%Z ->
  rounded_rect w h r segments center = Some pts -> (area2 pts < 0)%R.
Proof. exact rounded_rect_clockwise. Qed.
(* moving a closed outline does not change its shoelace area (so winding is a property of the shape, not of where
   `center` puts it) *)
Theorem C07_area_translation_invariant : forall (v : pt2 R) l, area2 (pt2s_translate l v) = area2 l.
Proof. exact area2_translate. Qed.
(* SIMPLE: pairwise distinct vertices, and two edges that are not neighbours share no point (closed segments, the closing
   edge included). Every circle, inscribed and circumscribed polygon with at least 3 sides is simple (they are in strictly
   convex position: every other vertex lies strictly on the inner side of every edge) *)
Theorem C07_convex_outlines_simple : forall (n : Z) (radius : R) pts, (3 <= n)%Z -> radius <> 0%R ->
  (circle radius n = Some pts -> simple pts) /\ (inscribed_polygon n radius = Some pts -> simple pts) /\
  (circumscribed_polygon n radius = Some pts -> simple pts).
Proof.
  intros n r pts Hn Hr. destruct (polygons_simple n r pts Hn Hr) as [H1 H2].
  split; [intros E; apply (circle_simple r n); assumption|split; assumption].
Qed.
(* the chamfer outline is simple exactly in the range the library uses: 0 < oversize < size (all 14 pairs of
   non-neighbouring edges are separated by the line through one of them); for oversize >= size it is not
   (C07_chamfer_oversize_refuted / known finding) *)
Theorem C07_chamfer_simple : forall size oversize : R, (0 < oversize)%R -> (oversize < size)%R -> simple (chamfer size oversize).
Proof. exact chamfer_simple. Qed.
Theorem C07_chamfer_not_simple_from_size_on : forall size oversize : R, (0 < size)%R -> (size <= oversize)%R -> ~ simple (chamfer size oversize).
Proof. exact chamfer_not_simple. Qed.
(* the star is simple for every number of points >= 2 and all positive radii (inner < outer or not): two edges that are
   not neighbours are separated by a line through the origin half a step outside one of them, the shorter way round *)
Theorem C07_star_simple : forall (n : Z) (inner outer : R), (2 <= n)%Z -> (0 < inner)%R -> (0 < outer)%R -> simple (star n inner outer).
Proof. exact star_simple. Qed.
(* the rounded rectangle, centred or not, is simple for all 0 < r < min(w,h)/2 and segments >= 1: edges of different
   zones (four corner arcs, four straight sides) have disjoint extents along x or y; two chords of one arc are separated
   because three points of an arc turn clockwise *)
Theorem C07_rounded_rect_simple : forall (w h r : R) (segments : Z) (center : bool) pts, (0 < r)%R -> (2 * r < w)%R -> (2 * r < h)%R -> (1 <= segments)%Z ->
  rounded_rect w h r segments center = Some pts -> simple pts.
Proof. exact rounded_rect_simple. Qed.
(* "feeding any of them to linear_extrude yields an outward-facing solid": for every outline above the extrusion by a
   positive height has vol6 < 0 (faces clockwise seen from outside, Geom/Volume_proofs.v) as soon as the top cap is
   completely triangulated -- which is unconditional for circle, inscribed and circumscribed polygons and the rounded
   rectangle (C04_every_cylinder, C04_polygon_prisms, C04_rounded_rect_prism) and is the open part of C03 for star and
   chamfer *)
From Coq Require Import Lra Psatz.
From SCAD Require Import Geom.Tri Geom.Dim3 Geom.Mesh_proofs Geom.Volume_proofs.
Theorem C07_extrusions_outward : forall (pts : list (pt2 R)) (h : R) ph,
  ((exists w hh r s c, (0 < r)%R /\ (2 * r < w)%R /\ (2 * r < hh)%R /\ (1 <= s)%Z /\ rounded_rect w hh r s c = Some pts) \/
   (exists n i o, (2 <= n)%Z /\ (0 < i)%R /\ (0 < o)%R /\ pts = star n i o) \/
   (exists size oversize, (0 < size)%R /\ (0 <= oversize)%R /\ pts = chamfer size oversize) \/
   (exists r n, (3 <= n)%Z /\ r <> 0%R /\ (circle r n = Some pts \/ inscribed_polygon n r = Some pts \/ circumscribed_polygon n r = Some pts))) ->
  linear_extrude pts h = Some ph -> complete (enumerate pts) -> (0 < h)%R -> (vol6 (fst ph) (snd ph) < 0)%R.
Proof.
  intros pts h ph Hgen E Hc Hh. rewrite (linear_extrude_volume pts h ph E Hc).
  assert (Ha : (area2 pts < 0)%R).
  { destruct Hgen as [(w & hh & r & s & c & Hr & Hw & Hhh & Hs & Hp)|[(n & i & o & Hn & Hi & Ho & ->)|[(size & oversize & Hs & Ho & ->)|(r & n & Hn & Hr & Hp)]]].
    - exact (rounded_rect_clockwise w hh r s c pts Hr Hw Hhh Hs Hp).
    - apply star_clockwise; assumption.
    - apply chamfer_clockwise; assumption.
    - destruct Hp as [Hp|[Hp|Hp]]; [exact (circle_clockwise r n pts Hn Hr Hp)|exact (circle_clockwise r n pts Hn Hr Hp)|exact (circumscribed_clockwise n r pts Hn Hr Hp)]. }
  nra.
Qed.
