(* Props/C06.v -- every macro form builds the node its OpenSCAD spelling denotes, once.
   The arm list is regenerated from scad.rs on every run; the theorems are re-checked against it.
   Axiom-free. *)
From Coq Require Import NArith List String Bool.
From SCAD Require Import Macro.Syntax Macro.Denote Macro.Check Gen.MacroArms.
Import ListNotations.
Local Open Scope string_scope. Local Open Scope list_scope.

(* all 136 construction arms of this tree pass the checker (reflection over the regenerated list) *)
Theorem C06_all_arms_ok : forallb (arm_ok scadop_decl) macro_arms = true.
Proof. vm_compute. reflexivity. Qed.

(* every documented invocation form (the `#patterns` lines of the macro documentation, regenerated) is accepted by an arm of the
   same macro with the same shape: same positional arguments, keywords, bracketed vectors and children, in the same order *)
Theorem C06_documented_forms_have_arms : forallb (doc_has_arm macro_arms) macro_doc_forms = true.
Proof. vm_compute. reflexivity. Qed.
(* hence every documented form is handled by an arm that evaluates each argument once and builds the node the form denotes *)
Theorem C06_documented_forms_ok : forall d, In d macro_doc_forms ->
  exists a, In a macro_arms /\ m_macro a = fst (fst d) /\ dshapes_eqb (map shape_of (m_pattern a)) (snd d) = true /\ arm_ok scadop_decl a = true.
Proof.
  intros [[m txt] sh] Hin. pose proof C06_documented_forms_have_arms as H. rewrite forallb_forall in H. specialize (H _ Hin).
  unfold doc_has_arm in H. apply existsb_exists in H. destruct H as [a [Ha Hb]]. apply andb_prop in Hb. destruct Hb as [Hm Hs].
  exists a. split; [exact Ha|]. split; [apply String.eqb_eq; exact Hm|]. split; [exact Hs|].
  pose proof C06_all_arms_ok as Hall. rewrite forallb_forall in Hall. apply Hall. exact Ha.
Qed.

(* what passing means: every argument expression is evaluated exactly once ... *)
Theorem C06_evaluated_once : forall a, In a macro_arms ->
  forall v, In v (pattern_vars (m_pattern a)) -> evaluations a v = 1%nat.
Proof.
  intros a Hin. apply (arm_ok_linear scadop_decl).
  pose proof C06_all_arms_ok as H. rewrite forallb_forall in H. apply H. exact Hin.
Qed.

(* ... and the node built is the one the form denotes (variant, every field, defaults) *)
Theorem C06_denotes : forall a, In a macro_arms ->
  exists fs, denote (m_macro a) (m_pattern a) = Some (m_variant a, fs) /\
             fields_eqb (map (fun kv => (fst kv, norm (m_lets a) (snd kv))) (m_fields a)) fs = true /\
             existsb (fun kv => has_req (snd kv)) fs = false.
Proof.
  intros a Hin. apply (arm_ok_denotes scadop_decl).
  pose proof C06_all_arms_ok as H. rewrite forallb_forall in H. apply H. exact Hin.
Qed.
