(* Props/C01.v -- emitted text is well-formed OpenSCAD with the same shape as the tree. *)
From Coq Require Import NArith List.
From SCAD Require Import Text.Chars Text.Lex Text.Lex_proofs.
Import ListNotations.

Theorem C01_lex_compositional : forall s a b, lrun s (a ++ b) = lrun (lrun s a) b.
Proof. exact lrun_app. Qed.
