(* Props/C01.v -- emitted text is well-formed OpenSCAD with the same shape as the tree. Axiom-free.
   `fmt` is Rust's Display for f64 (a section variable); the only hypothesis on it is that it prints a plain decimal
   literal, which the correspondence run checks on every sampled number. *)
From Coq Require Import NArith List Bool String.
From SCAD Require Import Text.Chars Text.Tree Text.Lex Text.Parse Text.Emit Text.Lex_proofs Text.Emit_proofs Text.Parse_proofs.
Import ListNotations.

Section C01.
  Variables num str : Type.
  Variable fmt : num -> text.
  Variable chars : str -> text.
  Hypothesis fmt_plain_decimal : forall x, wf_num (fmt x).

  (* the statement a tree denotes: same operation at every node, same children in the same order *)
  Theorem C01_statement_shape : forall o cs,
    stmt_of num str fmt chars (Node o cs) =
    Inst (s2t (op_ident num str o)) (map erase_arg (args_of num str fmt chars o)) (map (stmt_of num str fmt chars) cs).
  Proof. reflexivity. Qed.

  (* every well-formed tree (any variant, any parameter values, any strings, empty lists, any depth and fan-out incl. zero
     children): the emitted text lexes ... *)
  Theorem C01_lex_emit : forall ts, forallb (@wf num str) ts = true ->
    lex (emit_seq num str fmt chars ts) = Some (flat_map (t_tree num str fmt chars) ts).
  Proof. exact (lex_emit_seq num str fmt chars fmt_plain_decimal). Qed.

  (* ... and parses, under the module-instantiation grammar, to exactly the sequence of statements of the trees *)
  Theorem C01_parse_emit_seq : forall ts, forallb (@wf num str) ts = true ->
    parse_text (emit_seq num str fmt chars ts) = Some (map (fun t => TInst (stmt_of num str fmt chars t)) ts).
  Proof.
    intros ts Hw. unfold parse_text. rewrite (lex_emit_seq num str fmt chars fmt_plain_decimal ts Hw).
    apply parse_program_trees. exact Hw.
  Qed.

  Corollary C01_parse_emit_tree : forall t, wf t = true ->
    parse_text (emit num str fmt chars t) = Some [TInst (stmt_of num str fmt chars t)].
  Proof.
    intros t Hw. pose proof (C01_parse_emit_seq [t]) as H. cbn [forallb map emit_seq flat_map] in H.
    rewrite Hw, app_nil_r in H. apply H. reflexivity.
  Qed.
End C01.

(* non-vacuity: an operator without children, an empty point list and a nested tree are well-formed *)
Example C01_wf_examples :
  @wf nat nat (Node Union []) = true /\ @wf nat nat (Node (Polygon [] None 1%N) []) = true /\
  @wf nat nat (Node (Translate (P3 0 0 0)) [Node (Color None (Some 3%N) None None) []; Node (Sphere 1 None None None) []]) = true.
Proof. repeat split; reflexivity. Qed.
