(* Props/C11.v -- Pt2/Pt3/Pt4 arithmetic is component-wise vector arithmetic.
   Statements only; every proof is `exact` of a lemma proved elsewhere. All over R. *)
From Coq Require Import Reals ZArith List.
From SCAD Require Import Base.Num Base.NumR Base.Vec Base.Vec_proofs.
Local Open Scope R_scope.

(* + - unary- scalar* scalar/ act on every component (Pt4 including w) *)
Theorem C11_componentwise :
  (forall a b : pt2 R, pt2_add a b = Pt2 (x2 a + x2 b) (y2 a + y2 b)) /\
  (forall a b : pt2 R, pt2_sub a b = Pt2 (x2 a - x2 b) (y2 a - y2 b)) /\
  (forall (a : pt2 R) k, pt2_mul a k = Pt2 (x2 a * k) (y2 a * k)) /\
  (forall (a : pt2 R) k, pt2_div a k = Pt2 (x2 a / k) (y2 a / k)) /\
  (forall a : pt2 R, pt2_neg a = Pt2 (- x2 a) (- y2 a)) /\
  (forall a b : pt3 R, pt3_add a b = Pt3 (x3 a + x3 b) (y3 a + y3 b) (z3 a + z3 b)) /\
  (forall a b : pt3 R, pt3_sub a b = Pt3 (x3 a - x3 b) (y3 a - y3 b) (z3 a - z3 b)) /\
  (forall (a : pt3 R) k, pt3_mul a k = Pt3 (x3 a * k) (y3 a * k) (z3 a * k)) /\
  (forall (a : pt3 R) k, pt3_div a k = Pt3 (x3 a / k) (y3 a / k) (z3 a / k)) /\
  (forall a : pt3 R, pt3_neg a = Pt3 (- x3 a) (- y3 a) (- z3 a)) /\
  (forall a b : pt4 R, pt4_add a b = Pt4 (x4 a + x4 b) (y4 a + y4 b) (z4 a + z4 b) (w4 a + w4 b)) /\
  (forall a b : pt4 R, pt4_sub a b = Pt4 (x4 a - x4 b) (y4 a - y4 b) (z4 a - z4 b) (w4 a - w4 b)) /\
  (forall (a : pt4 R) k, pt4_mul a k = Pt4 (x4 a * k) (y4 a * k) (z4 a * k) (w4 a * k)) /\
  (forall (a : pt4 R) k, pt4_div a k = Pt4 (x4 a / k) (y4 a / k) (z4 a / k) (w4 a / k)) /\
  (forall a : pt4 R, pt4_neg a = Pt4 (- x4 a) (- y4 a) (- z4 a) (- w4 a)).
Proof.
  exact (conj pt2_add_c (conj pt2_sub_c (conj pt2_mul_c (conj pt2_div_c (conj pt2_neg_c
        (conj pt3_add_c (conj pt3_sub_c (conj pt3_mul_c (conj pt3_div_c (conj pt3_neg_c
        (conj pt4_add_c (conj pt4_sub_c (conj pt4_mul_c (conj pt4_div_c pt4_neg_c)))))))))))))).
Qed.

(* the operators agree with each other; the assigning forms are the pure forms *)
Theorem C11_operators_agree :
  (forall a b : pt2 R, pt2_sub a b = pt2_add a (pt2_neg b)) /\
  (forall a b : pt3 R, pt3_sub a b = pt3_add a (pt3_neg b)) /\
  (forall a b : pt4 R, pt4_sub a b = pt4_add a (pt4_neg b)) /\
  (forall (a : pt2 R) k, k <> 0 -> pt2_div a k = pt2_mul a (/ k)) /\
  (forall (a : pt3 R) k, k <> 0 -> pt3_div a k = pt3_mul a (/ k)) /\
  (forall (a : pt4 R) k, k <> 0 -> pt4_div a k = pt4_mul a (/ k)) /\
  (forall a b : pt2 R, pt2_add_assign a b = pt2_add a b /\ pt2_sub_assign a b = pt2_sub a b) /\
  (forall (a : pt2 R) k, pt2_mul_assign a k = pt2_mul a k /\ pt2_div_assign a k = pt2_div a k) /\
  (forall a b : pt3 R, pt3_add_assign a b = pt3_add a b /\ pt3_sub_assign a b = pt3_sub a b) /\
  (forall (a : pt3 R) k, pt3_mul_assign a k = pt3_mul a k /\ pt3_div_assign a k = pt3_div a k) /\
  (forall a b : pt4 R, pt4_add_assign a b = pt4_add a b /\ pt4_sub_assign a b = pt4_sub a b) /\
  (forall (a : pt4 R) k, pt4_mul_assign a k = pt4_mul a k /\ pt4_div_assign a k = pt4_div a k).
Proof.
  exact (conj pt2_sub_add_neg (conj pt3_sub_add_neg (conj pt4_sub_add_neg
        (conj pt2_div_mul_inv (conj pt3_div_mul_inv (conj pt4_div_mul_inv
        (conj (fun a b => conj eq_refl eq_refl) (conj (fun a k => conj eq_refl eq_refl)
        (conj (fun a b => conj eq_refl eq_refl) (conj (fun a k => conj eq_refl eq_refl)
        (conj (fun a b => conj eq_refl eq_refl) (fun a k => conj eq_refl eq_refl)))))))))))).
Qed.

(* indexing i reads and writes the i-th named component; out of range is a panic (None) *)
Theorem C11_index :
  (forall (p : pt2 R) i, pt2_index p i = match i with 0%Z => Some (x2 p) | 1%Z => Some (y2 p) | _ => None end) /\
  (forall (p : pt3 R) i, pt3_index p i = match i with 0%Z => Some (x3 p) | 1%Z => Some (y3 p) | 2%Z => Some (z3 p) | _ => None end) /\
  (forall (p : pt4 R) i, pt4_index p i = match i with 0%Z => Some (x4 p) | 1%Z => Some (y4 p) | 2%Z => Some (z4 p) | 3%Z => Some (w4 p) | _ => None end) /\
  (forall (p p' : pt2 R) i v, pt2_index_set p i v = Some p' ->
      forall j, pt2_index p' j = if Z.eqb j i then Some v else pt2_index p j) /\
  (forall (p p' : pt3 R) i v, pt3_index_set p i v = Some p' ->
      forall j, pt3_index p' j = if Z.eqb j i then Some v else pt3_index p j) /\
  (forall (p p' : pt4 R) i v, pt4_index_set p i v = Some p' ->
      forall j, pt4_index p' j = if Z.eqb j i then Some v else pt4_index p j) /\
  (forall (p : pt2 R) i v, (exists p', pt2_index_set p i v = Some p') <-> (0 <= i < 2)%Z) /\
  (forall (p : pt3 R) i v, (exists p', pt3_index_set p i v = Some p') <-> (0 <= i < 3)%Z) /\
  (forall (p : pt4 R) i v, (exists p', pt4_index_set p i v = Some p') <-> (0 <= i < 4)%Z).
Proof.
  exact (conj pt2_index_spec (conj pt3_index_spec (conj pt4_index_spec
        (conj pt2_index_set_get (conj pt3_index_set_get (conj pt4_index_set_get
        (conj pt2_index_set_defined (conj pt3_index_set_defined pt4_index_set_defined)))))))).
Qed.

(* dot, cross, len, len2 satisfy their defining identities; for Pt4 they act on xyz *)
Theorem C11_dot_cross_len :
  (forall a b : pt2 R, pt2_dot a b = x2 a * x2 b + y2 a * y2 b) /\
  (forall a b : pt3 R, pt3_dot a b = x3 a * x3 b + y3 a * y3 b + z3 a * z3 b) /\
  (forall a b : pt3 R, pt3_dot (pt3_cross a b) a = 0 /\ pt3_dot (pt3_cross a b) b = 0) /\
  (forall a b : pt3 R, pt3_len2 (pt3_cross a b) = pt3_len2 a * pt3_len2 b - pt3_dot a b * pt3_dot a b) /\
  (forall a : pt2 R, pt2_len2 a = pt2_dot a a /\ pt2_len a * pt2_len a = pt2_len2 a /\ 0 <= pt2_len a) /\
  (forall a : pt3 R, pt3_len2 a = pt3_dot a a /\ pt3_len a * pt3_len a = pt3_len2 a /\ 0 <= pt3_len a) /\
  (forall a b : pt4 R, pt4_dot a b = pt3_dot (pt4_as_pt3 a) (pt4_as_pt3 b)) /\
  (forall a b : pt4 R, pt4_as_pt3 (pt4_cross a b) = pt3_cross (pt4_as_pt3 a) (pt4_as_pt3 b) /\ w4 (pt4_cross a b) = 0) /\
  (forall a : pt4 R, pt4_len a = pt3_len (pt4_as_pt3 a)) /\
  (forall a : pt4 R, pt4_as_pt3 (pt4_normalized a) = pt3_normalized (pt4_as_pt3 a) /\ w4 (pt4_normalized a) = 0).
Proof.
  exact (conj pt2_dot_spec (conj pt3_dot_spec
        (conj (fun a b => conj (pt3_cross_perp_l a b) (pt3_cross_perp_r a b))
        (conj pt3_lagrange
        (conj (fun a => conj (pt2_len2_dot a) (conj (pt2_len_sq a) (pt2_len_nonneg a)))
        (conj (fun a => conj (pt3_len2_dot a) (conj (pt3_len_sq a) (pt3_len_nonneg a)))
        (conj pt4_dot_xyz (conj pt4_cross_xyz (conj pt4_len_xyz pt4_normalized_xyz))))))))).
Qed.

(* normalized has length 1 and the same direction (a positive multiple), for every non-zero vector *)
Theorem C11_normalized :
  (forall a : pt2 R, pt2_nonzero a ->
     pt2_len (pt2_normalized a) = 1 /\ pt2_normalized a = pt2_mul a (/ pt2_len a) /\ 0 < / pt2_len a) /\
  (forall a : pt3 R, pt3_nonzero a ->
     pt3_len (pt3_normalized a) = 1 /\ pt3_normalized a = pt3_mul a (/ pt3_len a) /\ 0 < / pt3_len a) /\
  (forall a : pt2 R, pt2_normalize a = pt2_normalized a) /\
  (forall a : pt3 R, pt3_normalize a = pt3_normalized a).
Proof.
  exact (conj (fun a H => conj (pt2_normalized_len1 a H) (pt2_normalized_dir a H))
        (conj (fun a H => conj (pt3_normalized_len1 a H) (pt3_normalized_dir a H))
        (conj pt2_normalize_normalized pt3_normalize_normalized))).
Qed.

Theorem C11_lerp :
  (forall a b : pt2 R, pt2_lerp a b 0 = a /\ pt2_lerp a b 1 = b) /\
  (forall a b : pt3 R, pt3_lerp a b 0 = a /\ pt3_lerp a b 1 = b) /\
  (forall a b : pt4 R, pt4_lerp a b 0 = a /\ pt4_lerp a b 1 = b).
Proof.
  exact (conj (fun a b => conj (pt2_lerp_0 a b) (pt2_lerp_1 a b))
        (conj (fun a b => conj (pt3_lerp_0 a b) (pt3_lerp_1 a b))
              (fun a b => conj (pt4_lerp_0 a b) (pt4_lerp_1 a b)))).
Qed.

(* the list wrappers transform every element and only the elements (all lengths, including 0) *)
Theorem C11_lists :
  (forall (l : list (pt2 R)) p, length (pt2s_translate l p) = length l /\
      forall i d, nth i (pt2s_translate l p) (pt2_add d p) = pt2_add (nth i l d) p) /\
  (forall (l : list (pt2 R)) a, length (pt2s_rotate l a) = length l /\
      forall i d, nth i (pt2s_rotate l a) (pt2_rotate d a) = pt2_rotate (nth i l d) a) /\
  (forall (l : list (pt3 R)) p, length (pt3s_translate l p) = length l /\
      forall i d, nth i (pt3s_translate l p) (pt3_add d p) = pt3_add (nth i l d) p) /\
  (forall (l : list (pt3 R)) a, length (pt3s_rotate_x l a) = length l /\
      forall i d, nth i (pt3s_rotate_x l a) (pt3_rotate_x d a) = pt3_rotate_x (nth i l d) a) /\
  (forall (l : list (pt3 R)) a, length (pt3s_rotate_y l a) = length l /\
      forall i d, nth i (pt3s_rotate_y l a) (pt3_rotate_y d a) = pt3_rotate_y (nth i l d) a) /\
  (forall (l : list (pt3 R)) a, length (pt3s_rotate_z l a) = length l /\
      forall i d, nth i (pt3s_rotate_z l a) (pt3_rotate_z d a) = pt3_rotate_z (nth i l d) a) /\
  (forall (l : list (pt2 R)) z, length (pt3s_from_pt2s l z) = length l /\
      forall i d, nth i (pt3s_from_pt2s l z) (pt2_as_pt3 d z) = Pt3 (x2 (nth i l d)) (y2 (nth i l d)) z).
Proof.
  exact (conj pt2s_translate_spec (conj pt2s_rotate_spec (conj pt3s_translate_spec
        (conj pt3s_rotate_x_spec (conj pt3s_rotate_y_spec (conj pt3s_rotate_z_spec pt3s_from_pt2s_spec)))))).
Qed.

Theorem C11_conversions :
  (forall (a : pt2 R) z, pt2_as_pt3 a z = Pt3 (x2 a) (y2 a) z) /\
  (forall a : pt2 R, pt2_to_xz a = Pt3 (x2 a) 0 (y2 a)) /\
  (forall (a : pt3 R) w, pt3_as_pt4 a w = Pt4 (x3 a) (y3 a) (z3 a) w) /\
  (forall a : pt4 R, pt4_as_pt3 a = Pt3 (x4 a) (y4 a) (z4 a)).
Proof.
  exact (conj pt2_as_pt3_slots (conj pt2_to_xz_slots (conj pt3_as_pt4_slots pt4_as_pt3_slots))).
Qed.

(* non-vacuity: the hypotheses of C11_normalized are satisfiable *)
Example C11_normalized_nonvacuous : pt3_nonzero (Pt3 3 4 12) /\ pt2_nonzero (Pt2 0 (-2)).
Proof. split; [left | right]; cbn; Lra.lra. Qed.
