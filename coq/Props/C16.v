(* Props/C16.v -- metric threads: table lookup for every m, facts about every listed size, ISO minor diameter.
   The table is regenerated from metric_thread.rs on every run. *)
From Coq Require Import Reals ZArith List Bool.
From SCAD Require Import Base.Num Base.NumR Gen.ThreadTable Parts.Thread Parts.Thread_proofs Parts.Thread_proofsR.
Import ListNotations.

(* every m in Z (all of i32 and beyond): the lookup terminates and returns the largest listed size <= max(m, 2) *)
Theorem C16_lookup_for_every_m : forall m : Z,
  exists r, m_table_lookup m = Some r /\ In r thread_rows /\ (row_key r <= Z.max m 2)%Z /\
            forall r', In r' thread_rows -> (row_key r' <= Z.max m 2)%Z -> (row_key r' <= row_key r)%Z.
Proof. exact lookup_total_and_largest_below. Qed.
Theorem C16_listed_size_is_itself : forall m, has_key m = true -> exists r, m_table_lookup m = Some r /\ row_key r = m.
Proof. exact lookup_listed_size. Qed.
(* for every listed size the internal thread is larger than the external one and the pitch is positive (exact rationals) *)
Theorem C16_every_row_fits : forallb row_fits thread_rows = true.
Proof. exact every_row_fits. Qed.
Theorem C16_keys_distinct : NoDup (map row_key thread_rows).
Proof. exact keys_distinct. Qed.
(* minor = major - 2*(5/8)*(sqrt(3)/2)*pitch, and a larger major diameter at the same pitch gives a larger minor one *)
Theorem C16_iso_minor_diameter :
  (forall d_maj pitch : R, d_min_from_d_maj_pitch d_maj pitch = (d_maj - 2 * (5 / 8) * (sqrt 3 / 2) * pitch)%R) /\
  (forall ext int pitch : R, (ext < int)%R -> (d_min_from_d_maj_pitch ext pitch < d_min_from_d_maj_pitch int pitch)%R).
Proof. exact (conj d_min_formula minor_clearance). Qed.

(* ---- the thread mesh ---- *)
From SCAD Require Import Base.Vec Parts.Thread_mesh_proofs.
(* every vertex of the thread mesh, for all dimensions 0 <= d_min <= d_maj, pitch >= 0, segments >= 0, lead-in/out angles
   >= 0, both hands, any number of steps: distance from the axis between d_min/2 and d_maj/2, and z >= 0 *)
Theorem C16_thread_vertices : forall (d_min d_maj pitch length : R) (segments : Z) (li lo : R) (left : bool),
  (0 <= d_min <= d_maj)%R -> (0 <= pitch)%R -> (0 <= segments)%Z -> (0 <= li)%R -> (0 <= lo)%R ->
  (0 <= z_step pitch length segments)%R ->
  Forall (vok d_min d_maj) (fst (thread_mesh d_min d_maj pitch length segments li lo left)).
Proof. exact thread_vertices. Qed.
Theorem C16_z_step_nonneg : forall (pitch length : R) (segments : Z),
  (0 <= pitch)%R -> (7 / 10 * pitch <= length)%R -> (0 <= segments)%Z -> (0 <= z_step pitch length segments)%R.
Proof. exact z_step_nonneg. Qed.
(* one pitch per revolution, within the rounding of the step count *)
Theorem C16_pitch_per_revolution : forall (pitch length : R) (segments : Z),
  (0 < pitch)%R -> (7 / 10 * pitch <= length)%R -> (0 <= segments)%Z -> (1 <= n_steps pitch length segments)%Z ->
  (pitch <= z_step pitch length segments * IZR segments < pitch * (1 + / IZR (n_steps pitch length segments)))%R.
Proof. exact pitch_per_revolution. Qed.
(* hence for every size m (listed, unlisted, below 2, above 100): the rod / bolt thread (external diameter) and the
   tap / nut thread (internal diameter) keep every vertex between the ISO minor radius and the table's major radius *)
Theorem C16_threads_of_every_size : forall (m : Z) (length : R) (segments : Z) (li lo : R) (left : bool),
  (0 <= segments)%Z -> (0 <= li)%R -> (0 <= lo)%R ->
  exists r, m_table_lookup m = Some r /\
    ((7 / 10 * r_pitch r <= length)%R ->
     Forall (vok (d_min_from_d_maj_pitch (r_ext r) (r_pitch r)) (r_ext r))
            (fst (thread_mesh (d_min_from_d_maj_pitch (r_ext r) (r_pitch r)) (r_ext r) (r_pitch r) length segments li lo left)) /\
     Forall (vok (d_min_from_d_maj_pitch (r_int r) (r_pitch r)) (r_int r))
            (fst (thread_mesh (d_min_from_d_maj_pitch (r_int r) (r_pitch r)) (r_int r) (r_pitch r) length segments li lo left))).
Proof.
  intros m length segments li lo left Hs Hli Hlo. destruct (lookup_total_and_largest_below m) as (r & Hr & Hin & _).
  exists r. split; [exact Hr|]. intros Hlen. destruct (row_minor_nonneg r Hin) as (He & Hi & Hp).
  split; apply thread_vertices; try assumption; apply z_step_nonneg; assumption.
Qed.

(* hand and advance: the vertex list is the first section followed by one ring of four section points per step; the ring of
   step s stands at angle +(s+1)*360/segments for right-hand threads and -(s+1)*360/segments for left-hand ones and is lifted by
   s * z_step: going up a right-hand thread turns counter-clockwise, a left-hand one clockwise *)
Theorem C16_thread_rings : forall (d_min d_maj pitch length : R) (segments : Z) (li lo : R) (left : bool),
  (0 <= d_min <= d_maj)%R -> (0 <= pitch)%R -> (0 <= segments)%Z -> (0 <= li)%R -> (0 <= lo)%R ->
  built d_min d_maj pitch length segments left (rev (fst (thread_mesh d_min d_maj pitch length segments li lo left)))
        (Z.to_nat (n_steps pitch length segments - 1)).
Proof. exact thread_rings. Qed.
