(* Props/C16.v -- metric threads: table lookup for every m, facts about every listed size, ISO minor diameter.
   The table is regenerated from metric_thread.rs on every run. *)
From Coq Require Import Reals ZArith List Bool.
From SCAD Require Import Base.Num Base.NumR Gen.ThreadTable Parts.Thread Parts.Thread_proofs Parts.Thread_proofsR.
Import ListNotations.

(* every m in Z (all of i32 and beyond): the lookup terminates and returns the largest listed size <= max(m, 2) *)
Theorem C16_lookup_for_every_m : forall m : Z,
  exists r, m_table_lookup m = Some r /\ In r thread_rows /\ (row_key r <= Z.max m 2)%Z /\
            forall r', In r' thread_rows -> (row_key r' <= Z.max m 2)%Z -> (row_key r' <= row_key r)%Z.
Proof. exact lookup_total_and_largest_below. Qed.
Theorem C16_listed_size_is_itself : forall m, has_key m = true -> exists r, m_table_lookup m = Some r /\ row_key r = m.
Proof. exact lookup_listed_size. Qed.
(* for every listed size the internal thread is larger than the external one and the pitch is positive (exact rationals) *)
Theorem C16_every_row_fits : forallb row_fits thread_rows = true.
Proof. exact every_row_fits. Qed.
Theorem C16_keys_distinct : NoDup (map row_key thread_rows).
Proof. exact keys_distinct. Qed.
(* minor = major - 2*(5/8)*(sqrt(3)/2)*pitch, and a larger major diameter at the same pitch gives a larger minor one *)
Theorem C16_iso_minor_diameter :
  (forall d_maj pitch : R, d_min_from_d_maj_pitch d_maj pitch = (d_maj - 2 * (5 / 8) * (sqrt 3 / 2) * pitch)%R) /\
  (forall ext int pitch : R, (ext < int)%R -> (d_min_from_d_maj_pitch ext pitch < d_min_from_d_maj_pitch int pitch)%R).
Proof. exact (conj d_min_formula minor_clearance). Qed.
