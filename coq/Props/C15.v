(* Props/C15.v -- pipes. Over R, on the part models. *)
From Coq Require Import Reals ZArith List.
From SCAD Require Import Base.Num Base.NumR Base.Vec Base.Mat Text.Chars Text.Tree Parts.Thread Parts.Sem Parts.Parts_proofs.
Import ListNotations.
Local Open Scope R_scope.

(* straight / tapered: body of the given diameters and length minus a coaxial bore of diameter od - 2*wall;
   removing the bore leaves exactly the solid variant *)
Theorem C15_straight_tapered_shape :
  (forall od wall length center fn_, 0 < od - wall * 2 ->
     pipe_straight od wall length center fn_ =
     Some (Node Difference [pipe_straight_solid od length center fn_;
                            tzR (if center then 0 else -1) (cyl (length + 2) (od - wall * 2) (od - wall * 2) center fn_)])) /\
  (forall od1 od2 wall length center fn_, 0 < od1 - wall * 2 -> 0 < od2 - wall * 2 ->
     pipe_tapered od1 od2 wall length center fn_ =
     Some (Node Difference [pipe_tapered_solid od1 od2 length center fn_;
                            tzR (if center then 0 else - (1 / 1000)) (cyl (length + 2 / 1000) (od1 - wall * 2) (od2 - wall * 2) center fn_)])).
Proof. exact (conj pipe_straight_shape pipe_tapered_shape). Qed.

(* the bore extends strictly beyond both ends of the body, for either centre setting *)
Theorem C15_bore_is_a_through_hole :
  (forall (length : R) (center : bool), 0 < length ->
     let dz : R := if center then 0 else -1 in
     z_lo (length + 2) center dz < z_lo length center 0 /\ z_hi length center 0 < z_hi (length + 2) center dz) /\
  (forall (length : R) (center : bool), 0 < length ->
     let dz : R := if center then 0 else - (1 / 1000) in
     z_lo (length + 2 / 1000) center dz < z_lo length center 0 /\ z_hi length center 0 < z_hi (length + 2 / 1000) center dz).
Proof. exact (conj straight_bore_through tapered_bore_through). Qed.

(* the bore is the stated one: its radius is od/2 - wall_thickness, positive and strictly inside the body *)
Theorem C15_bore_is_the_stated_one : forall od wall : R, 0 < wall -> 0 < od - wall * 2 ->
  (od - wall * 2) / 2 = od / 2 - wall /\ 0 < (od - wall * 2) / 2 < od / 2.
Proof. exact pipe_wall_thickness. Qed.

(* placement semantics (Parts/Sem.v): a straight / tapered pipe places exactly two primitives under one
   difference -- the body with the given diameters at the identity, and in the subtracted position the bore of
   diameter od - 2*wall under a pure z translation, hence on the same axis *)
Theorem C15_bore_is_coaxial :
  (forall od wall length center fn_, 0 < od - wall * 2 ->
     option_map (flatten mt4_identity []) (pipe_straight od wall length center fn_) =
     Some [([(Difference, 0%nat)], mt4_identity,
            Cylinder length (od / 2) (od / 2) center None None (Some (Z.to_N fn_)));
           ([(Difference, 1%nat)], mt4_translate_matrix 0 0 (if center then 0 else -1),
            Cylinder (length + 2) ((od - wall * 2) / 2) ((od - wall * 2) / 2) center None None (Some (Z.to_N fn_)))]) /\
  (forall od1 od2 wall length center fn_, 0 < od1 - wall * 2 -> 0 < od2 - wall * 2 ->
     option_map (flatten mt4_identity []) (pipe_tapered od1 od2 wall length center fn_) =
     Some [([(Difference, 0%nat)], mt4_identity,
            Cylinder length (od1 / 2) (od2 / 2) center None None (Some (Z.to_N fn_)));
           ([(Difference, 1%nat)], mt4_translate_matrix 0 0 (if center then 0 else - (1 / 1000)),
            Cylinder (length + 2 / 1000) ((od1 - wall * 2) / 2) ((od2 - wall * 2) / 2) center None None (Some (Z.to_N fn_)))]).
Proof. exact (conj pipe_straight_placed pipe_tapered_placed). Qed.

(* curved: same wrapper for hollow and solid; its two translations cancel, so the section starts centred on the origin *)
Theorem C15_curved :
  (forall od wall degrees radius fn_, 0 < od - wall * 2 -> 0 < degrees <= 360 ->
     pipe_curved od wall degrees radius fn_ =
       Some (curved_wrap od degrees radius fn_ (Node Difference [circ od fn_; circ (od - wall * 2) fn_])) /\
     pipe_curved_solid od degrees radius fn_ = Some (curved_wrap od degrees radius fn_ (circ od fn_))) /\
  (forall od radius, (- od / 2 - radius) + (od / 2 + radius) = 0).
Proof. exact (conj pipe_curved_shape curved_starts_at_origin). Qed.

(* curved, semantically (Parts/Sem.v): everything the wrapper places sits under translate * rotate([90,0,0]) with the
   section translated by od/2 + radius inside the rotate_extrude; that composition carries the section's own origin
   (its centre) to the origin of the part, for every od and radius *)
Theorem C15_curved_section_centre_on_origin :
  (forall od degrees radius fn_ (section : scad R text),
     flatten mt4_identity [] (curved_wrap od degrees radius fn_ section) =
     flatten (mt4_mul (mt4_mul mt4_identity (mt4_translate_matrix (- od / 2 - radius) 0 0))
                      (mt4_mul (mt4_rot_z_matrix 0) (mt4_mul (mt4_rot_y_matrix 0) (mt4_rot_x_matrix 90)))) []
             (Node (RotateExtrude degrees 4%N None None (Some (Z.to_N fn_)))
                   [Node (Translate (P3 (od / 2 + radius) 0 0)) [section]])) /\
  (forall od radius,
     mt4_mul_pt4 (mt4_mul (mt4_mul mt4_identity (mt4_translate_matrix (- od / 2 - radius) 0 0))
                          (mt4_mul (mt4_rot_z_matrix 0) (mt4_mul (mt4_rot_y_matrix 0) (mt4_rot_x_matrix 90))))
                 (mt4_mul_pt4 (mt4_translate_matrix (od / 2 + radius) 0 0) (Pt4 0 0 0 1)) = Pt4 0 0 0 1).
Proof.
  split; [|exact curved_centre_lands_on_origin].
  intros od degrees radius fn_ section. destruct (curved_placed od degrees radius fn_ section) as [_ [inner [Hf Hi]]].
  rewrite Hf, Hi. reflexivity.
Qed.

Example C15_nonvacuous : 0 < 10 - 1 * 2 /\ 0 < 90 <= 360.
Proof. Lra.lra. Qed.
