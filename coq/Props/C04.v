(* Props/C04.v -- built polyhedra: well-formed faces and no boundary, for every profile length, segment count and
   path length. Axiom-free, generic in the number type (so also true of the float reading).
   mnet u v faces = (number of faces using the directed edge u->v) - (number using v->u);
   closed_net faces: that is 0 for every ordered pair, i.e. the oriented surface has no boundary and no edge is used
   more often one way than the other. `complete poly` says the cap triangulation returned n-2 triangles (C03). *)
From Coq Require Import ZArith List Lia.
From SCAD Require Import Base.Num Base.Vec Geom.Tri Geom.Tri_proofs Geom.Dim2 Geom.Dim3 Geom.Mesh_proofs.
Import ListNotations.

(* a side quad between two rings has four distinct vertices (n >= 2) *)
Theorem C04_quad_vertices : forall n ra rb p, (2 <= n)%Z -> (0 <= p < n)%Z -> (ra + n <= rb \/ rb + n <= ra)%Z ->
  NoDup (quad n ra rb p) /\ NoDup (quad_rev n ra rb p).
Proof. exact quad_nodup. Qed.

(* the strip of quads between two rings of any size: ring a forward, ring b backward, all rungs cancel *)
Theorem C04_strip : forall u v (k : nat) ra rb, (1 <= k)%nat ->
  mnet u v (map (quad (Z.of_nat k) ra rb) (nseq k)) = (fnet u v (ring ra k) - fnet u v (ring rb k))%Z /\
  mnet u v (map (quad_rev (Z.of_nat k) ra rb) (nseq k)) = (fnet u v (ring rb k) - fnet u v (ring ra k))%Z.
Proof. intros u v k ra rb Hk. split; [apply strip_net|apply strip_rev_net]; exact Hk. Qed.

(* a complete cap contributes exactly its ring, forward or backward *)
Theorem C04_caps {T} `{Num T} : forall u v (pts : list (pt2 T)) off, (3 <= length pts)%nat ->
  (complete (enumerate pts) -> mnet u v (triples (triangulate (enumerate pts)) off) = fnet u v (ring off (length pts))) /\
  (complete (rev (enumerate pts)) -> mnet u v (triples (triangulate (rev (enumerate pts))) off) = (- fnet u v (ring off (length pts)))%Z).
Proof. intros u v pts off Hn. split; intros Hc; [apply cap_forward|apply cap_backward]; assumption. Qed.

(* linear_extrude, loft, cylinder *)
Theorem C04_linear_extrude {T} `{Num T} : forall (pts : list (pt2 T)) (h : T) ph, linear_extrude pts h = Some ph ->
  let n := Z.of_nat (length pts) in
  (Z.of_nat (length (fst ph)) = 2 * n)%Z /\ Forall (face_ok (2 * n)) (snd ph) /\
  (complete (rev (enumerate pts)) -> complete (enumerate pts) -> closed_net (snd ph)).
Proof.
  intros pts h ph E n. destruct (linear_extrude_faces_ok pts h ph E) as [H1 H2]. split; [exact H1|]. split; [exact H2|].
  apply (linear_extrude_closed pts h ph E).
Qed.
Theorem C04_loft {T} `{Num T} : forall (lower upper : list (pt2 T)) (h : T) ph, loft lower upper h = Some ph ->
  let n := Z.of_nat (length lower) in
  (Z.of_nat (length (fst ph)) = 2 * n)%Z /\ Forall (face_ok (2 * n)) (snd ph) /\
  (complete (rev (enumerate lower)) -> complete (enumerate upper) -> closed_net (snd ph)).
Proof.
  intros lower upper h ph E n. destruct (loft_faces_ok lower upper h ph E) as [H1 H2]. split; [exact H1|]. split; [exact H2|].
  apply (loft_closed lower upper h ph E).
Qed.
Theorem C04_cylinder {T} `{Num T} : forall (r h : T) (segments : Z) ph c, cylinder r h segments = Some ph -> circle r segments = Some c ->
  complete (rev (enumerate c)) -> complete (enumerate c) -> closed_net (snd ph).
Proof. exact (@cylinder_closed T H). Qed.

(* rotate_extrude for any angle in (0, 360] and any segment count >= 3, with caps (partial) or the closing ring (360) *)
Theorem C04_rotate_extrude {T} `{Num T} : forall (profile : list (pt2 T)) (degrees : T) (segments : Z) ph,
  rotate_extrude profile degrees segments = Some ph ->
  complete (enumerate profile) -> complete (rev (enumerate profile)) -> closed_net (snd ph).
Proof. exact (@rotate_extrude_closed T H). Qed.

(* sweep along any path, open (start cap from the profile, end cap from the last ring projected along the last
   segment) or closed (closing ring): every twist, every path length >= 2 *)
Theorem C04_sweep {T} `{Num T} : forall (profile : list (pt2 T)) (path : list (pt3 T)) (twist : T) (closed : bool) ph,
  sweep profile path twist closed = Some ph -> (1 <= length profile)%nat ->
  (closed = false -> complete (rev (enumerate profile)) /\
                     complete (enumerate (map (project (sweep_end_normal path)) (sweep_last_points profile path twist closed)))) ->
  closed_net (snd ph).
Proof. exact (@sweep_closed T H). Qed.

(* not vacuous: a unit-square prism in the rational reading is built, its caps are complete, hence closed *)
From SCAD Require Import Base.NumQ.
From Coq Require Import QArith.
Example C04_square_prism :
  let sq := [Pt2 0%Q 0%Q; Pt2 0%Q 1%Q; Pt2 1%Q 1%Q; Pt2 1%Q 0%Q] in
  (exists ph, linear_extrude sq 1%Q = Some ph /\ closed_net (snd ph)) /\ complete (enumerate sq) /\ complete (rev (enumerate sq)).
Proof.
  cbv zeta. assert (C1 : complete (enumerate [Pt2 0%Q 0%Q; Pt2 0%Q 1%Q; Pt2 1%Q 1%Q; Pt2 1%Q 0%Q])) by (vm_compute; reflexivity).
  assert (C2 : complete (rev (enumerate [Pt2 0%Q 0%Q; Pt2 0%Q 1%Q; Pt2 1%Q 1%Q; Pt2 1%Q 0%Q]))) by (vm_compute; reflexivity).
  split; [|split; assumption].
  destruct (linear_extrude [Pt2 0%Q 0%Q; Pt2 0%Q 1%Q; Pt2 1%Q 1%Q; Pt2 1%Q 0%Q] 1%Q) as [ph|] eqn:E; [|vm_compute in E; discriminate].
  exists ph. split; [reflexivity|]. eapply linear_extrude_closed; eassumption.
Qed.

(* ---- the exact form for the two-ring builders: mcnt u v F = number of faces of F that use the directed edge u -> v.
        Every directed edge is used by at most one face and by exactly as many faces as its reverse: each edge of the
        surface lies in exactly one face one way and in exactly one other face the other way. (linear_extrude, loft,
        cylinder -- hence also every edge cylinder of the Viewer -- for every profile length) ---- *)
From SCAD Require Import Geom.Mesh_exact.
Theorem C04_linear_extrude_exact {T} `{Num T} : forall (pts : list (pt2 T)) (h : T) ph, linear_extrude pts h = Some ph ->
  complete (rev (enumerate pts)) -> complete (enumerate pts) ->
  forall u v, (mcnt u v (snd ph) <= 1)%nat /\ mcnt u v (snd ph) = mcnt v u (snd ph).
Proof. exact (@linear_extrude_closed_exact T H). Qed.
Theorem C04_loft_exact {T} `{Num T} : forall (lower upper : list (pt2 T)) (h : T) ph, loft lower upper h = Some ph ->
  complete (rev (enumerate lower)) -> complete (enumerate upper) ->
  forall u v, (mcnt u v (snd ph) <= 1)%nat /\ mcnt u v (snd ph) = mcnt v u (snd ph).
Proof. exact (@loft_closed_exact T H). Qed.
Theorem C04_cylinder_exact {T} `{Num T} : forall (r h : T) (segments : Z) ph c, cylinder r h segments = Some ph -> circle r segments = Some c ->
  complete (rev (enumerate c)) -> complete (enumerate c) ->
  forall u v, (mcnt u v (snd ph) <= 1)%nat /\ mcnt u v (snd ph) = mcnt v u (snd ph).
Proof. exact (@cylinder_closed_exact T H). Qed.
(* the strip of quads between two disjoint rings uses every directed edge at most once *)
Theorem C04_strip_exact : forall u v (k : nat) ra rb, (1 <= k)%nat -> (ra + Z.of_nat k <= rb)%Z ->
  (mcnt u v (map (quad (Z.of_nat k) ra rb) (nseq k)) <= 1)%nat.
Proof. intros u v k ra rb Hk Hd. exact (proj1 (strip_cnt u v k ra rb Hk Hd)). Qed.

(* ---- the thread mesh (threaded_rod, tap, hex_bolt, hex_nut): two start triangles, eight triangles per step and two end
        triangles cancel ring by ring; no boundary for every number of steps >= 1, every lead-in/out, both hands ---- *)
From SCAD Require Import Text.Chars Text.Tree Parts.Thread Parts.Thread_closed_proofs.
Theorem C04_thread_mesh_indices {T} `{Num T} : forall (d_min d_maj pitch length : T) (segments : Z) (li lo : T) (left : bool),
  let ns := mesh_steps d_min d_maj pitch length segments in
  snd (thread_mesh d_min d_maj pitch length segments li lo left) =
  start_faces left ++ flat_map (fun s => ring_faces left (s * 4)%Z) (nseq (Z.to_nat (ns - 1))) ++ map (fun k => (k + (ns - 2) * 4)%Z) (end_faces0 left).
Proof. exact (@thread_mesh_indices T H). Qed.
Theorem C04_thread_mesh_closed {T} `{Num T} : forall (d_min d_maj pitch length : T) (segments : Z) (li lo : T) (left : bool),
  (1 <= mesh_steps d_min d_maj pitch length segments)%Z ->
  closed_net (triples (snd (thread_mesh d_min d_maj pitch length segments li lo left)) 0).
Proof. exact (@thread_mesh_closed T H). Qed.

(* ---- outward: with the library's convention (faces clockwise seen from outside) the enclosed volume of a linear
        extrusion of a clockwise profile (negative shoelace area) with positive height is positive, i.e. vol6 < 0 under
        the counter-clockwise-positive convention of vol6; in particular every cylinder ---- *)
From Coq Require Import Reals Lra.
From SCAD Require Import Base.NumR Geom.Poly Geom.Dim2_proofs Geom.Volume_proofs.
Theorem C04_linear_extrude_outward : forall (pts : list (pt2 R)) (h : R) ph, linear_extrude pts h = Some ph ->
  complete (enumerate pts) -> (0 < h)%R -> (Poly.area2 pts < 0)%R -> (vol6 (fst ph) (snd ph) < 0)%R.
Proof. intros pts h ph E Hc Hh Ha. rewrite (linear_extrude_volume pts h ph E Hc). nra. Qed.
Theorem C04_cylinder_outward : forall (r h : R) (segments : Z) ph c, cylinder r h segments = Some ph -> circle r segments = Some c ->
  complete (enumerate c) -> (3 <= segments)%Z -> r <> 0%R -> (0 < h)%R -> (vol6 (fst ph) (snd ph) < 0)%R.
Proof.
  intros r h segments ph c E Ec Hc Hs Hr Hh. unfold cylinder in E. rewrite Ec in E.
  apply (C04_linear_extrude_outward c h ph E Hc Hh). exact (circle_clockwise r segments c Hs Hr Ec).
Qed.

(* ---- the exact form for the many-ring builders: every directed edge is used by at most one face and by exactly as many
        faces as its reverse -- rotate_extrude for every angle and segment count (two caps or closing ring), sweep for every
        open path and every closed path of at least three points, profiles of at least three points ---- *)
From SCAD Require Import Geom.Mesh_exact2.
Theorem C04_rotate_extrude_exact {T} `{Num T} : forall (profile : list (pt2 T)) (degrees : T) (segments : Z) ph,
  rotate_extrude profile degrees segments = Some ph ->
  complete (enumerate profile) -> complete (rev (enumerate profile)) ->
  forall u v, (mcnt u v (snd ph) <= 1)%nat /\ mcnt u v (snd ph) = mcnt v u (snd ph).
Proof. exact (@rotate_extrude_closed_exact T H). Qed.
Theorem C04_sweep_exact {T} `{Num T} : forall (profile : list (pt2 T)) (path : list (pt3 T)) (twist : T) (closed : bool) ph,
  sweep profile path twist closed = Some ph -> (3 <= length profile)%nat -> (closed = true -> (3 <= length path)%nat) ->
  (closed = false -> complete (rev (enumerate profile)) /\
                     complete (enumerate (map (project (sweep_end_normal path)) (sweep_last_points profile path twist closed)))) ->
  forall u v, (mcnt u v (snd ph) <= 1)%nat /\ mcnt u v (snd ph) = mcnt v u (snd ph).
Proof. exact (@sweep_closed_exact T H). Qed.
(* a chain of strips over rings arranged like the links of a chain (each ring at most once a source and at most once a
   target, no two links between the same two rings) uses every directed edge at most once *)
Theorem C04_chain_exact : forall u v (k : nat) (P : list (Z * Z)), (3 <= k)%nat -> good_chain P -> (mcnt u v (chain_faces k P) <= 1)%nat.
Proof. intros u v k P Hk Hg. exact (proj1 (chain_cnt u v k P Hk Hg)). Qed.

(* ---- every cylinder, with no hypothesis on the caps (real reading): the circle outline is strictly convex, so ear clipping
        completes on it (Geom/Tri_convex.v); the mesh is exactly closed and, for positive height, outward ---- *)
From SCAD Require Import Geom.Tri_convex.
Theorem C04_every_cylinder : forall (r h : R) (segments : Z) ph, cylinder r h segments = Some ph -> r <> 0%R ->
  (forall u v, (mcnt u v (snd ph) <= 1)%nat /\ mcnt u v (snd ph) = mcnt v u (snd ph)) /\ ((0 < h)%R -> (vol6 (fst ph) (snd ph) < 0)%R).
Proof. exact cylinder_unconditional. Qed.
(* the index list of a thread mesh refers to its own 4 * steps vertices *)
Theorem C04_thread_indices_in_range {T} `{Num T} : forall (d_min d_maj pitch length : T) (segments : Z) (li lo : T) (left : bool),
  let ns := mesh_steps d_min d_maj pitch length segments in (1 <= ns)%Z ->
  Forall (fun i => (0 <= i < 4 * ns)%Z) (snd (thread_mesh d_min d_maj pitch length segments li lo left)).
Proof. exact (@thread_mesh_indices_in_range T H). Qed.

(* the thread mesh in its exact form: at least two steps, both hands, every lead-in / lead-out *)
From SCAD Require Import Parts.Thread_exact_proofs.
Theorem C04_thread_mesh_exact {T} `{Num T} : forall (d_min d_maj pitch length : T) (segments : Z) (li lo : T) (left : bool),
  (2 <= mesh_steps d_min d_maj pitch length segments)%Z ->
  forall u v, (mcnt u v (triples (snd (thread_mesh d_min d_maj pitch length segments li lo left)) 0) <= 1)%nat /\
              mcnt u v (triples (snd (thread_mesh d_min d_maj pitch length segments li lo left)) 0) = mcnt v u (triples (snd (thread_mesh d_min d_maj pitch length segments li lo left)) 0).
Proof. exact (@thread_mesh_exact T H). Qed.

(* ---- outward, rotate_extrude: a clockwise profile (negative shoelace area) strictly right of the axis (x >= xmin > 0),
        completely triangulated, revolved by any angle in (0, 360] with any segment count: vol6 < 0, i.e. the faces wind
        clockwise seen from outside and enclose positive volume. (vol6 = segments sin(degrees/segments) moment(profile),
        Props/C05.v; the caps lie in planes through the axis and enclose nothing with it.) ---- *)
From SCAD Require Import Geom.Revolve_volume.
Theorem C04_rotate_extrude_outward : forall (profile : list (pt2 R)) (degrees : R) (segments : Z) ph (xmin : R),
  rotate_extrude profile degrees segments = Some ph -> (0 < degrees)%R ->
  complete (enumerate profile) -> Forall (fun p => (xmin <= x2 p)%R) profile -> (0 < xmin)%R -> (Poly.area2 profile < 0)%R ->
  (vol6 (fst ph) (snd ph) < 0)%R.
Proof. exact rotate_extrude_outward. Qed.

(* ---- the prisms the thread module builds for hexagonal heads and nuts (and every inscribed / circumscribed prism):
        the outline is a circle of another radius, so these are cylinders -- closed (exact form) and outward with no
        hypothesis on the caps. Together with C04_every_cylinder (rods, viewer edges) this covers every linear extrusion
        the library itself performs. ---- *)
Theorem C04_polygon_prisms : forall (n : Z) (r h : R) pts ph, r <> 0%R ->
  (inscribed_polygon n r = Some pts \/ circumscribed_polygon n r = Some pts) -> linear_extrude pts h = Some ph ->
  (forall u v, (mcnt u v (snd ph) <= 1)%nat /\ mcnt u v (snd ph) = mcnt v u (snd ph)) /\ ((0 < h)%R -> (vol6 (fst ph) (snd ph) < 0)%R).
Proof. exact polygon_prism_unconditional. Qed.

(* ---- the extrusion of every rounded rectangle (0 < r < min(w,h)/2, segments >= 1, centred or not): closed in the exact
        form and outward, with no hypothesis on the caps (Geom/RR_convex.v: ear clipping completes on it in both orders) ---- *)
From SCAD Require Import Geom.RR_convex.
Theorem C04_rounded_rect_prism : forall (w h r : R) (segments : Z) (center : bool) pts (height : R) ph,
  (0 < r)%R -> (2 * r < w)%R -> (2 * r < h)%R -> (1 <= segments)%Z -> rounded_rect w h r segments center = Some pts ->
  linear_extrude pts height = Some ph ->
  (forall u v, (mcnt u v (snd ph) <= 1)%nat /\ mcnt u v (snd ph) = mcnt v u (snd ph)) /\ ((0 < height)%R -> (vol6 (fst ph) (snd ph) < 0)%R).
Proof. exact rounded_rect_prism_unconditional. Qed.

(* ---- open sweeps of fan-convex profiles are closed in the exact form with no hypothesis on the caps, whatever
        direction the path starts and ends in: in particular circles (tubes), inscribed / circumscribed polygons and
        rounded rectangles. (Closed sweeps have no caps: C04_sweep_exact.) ---- *)
From SCAD Require Import Geom.Fan_convex Geom.Sweep_caps Geom.Sweep_library.
Theorem C04_sweep_fanconvex : forall (profile : list (pt2 R)) (path : list (pt3 R)) (twist : R) ph,
  sweep profile path twist false = Some ph -> (3 <= length profile)%nat ->
  fanconv false (enumerate profile) -> fanconv true (rev (enumerate profile)) ->
  nthp3 path (Z.of_nat (length path) - 2) <> nthp3 path (Z.of_nat (length path) - 1) ->
  forall u v, (mcnt u v (snd ph) <= 1)%nat /\ mcnt u v (snd ph) = mcnt v u (snd ph).
Proof. exact sweep_fanconvex_closed. Qed.
Theorem C04_sweep_circle_and_rounded_rect :
  (forall (radius : R) (segments : Z) (c : list (pt2 R)) (path : list (pt3 R)) (twist : R) ph,
     (3 <= segments)%Z -> radius <> 0%R -> circle radius segments = Some c -> sweep c path twist false = Some ph ->
     nthp3 path (Z.of_nat (length path) - 2) <> nthp3 path (Z.of_nat (length path) - 1) ->
     forall u v, (mcnt u v (snd ph) <= 1)%nat /\ mcnt u v (snd ph) = mcnt v u (snd ph)) /\
  (forall (w h r : R) (segments : Z) (center : bool) pts (path : list (pt3 R)) (twist : R) ph,
     (0 < r)%R -> (2 * r < w)%R -> (2 * r < h)%R -> (1 <= segments)%Z -> rounded_rect w h r segments center = Some pts ->
     sweep pts path twist false = Some ph ->
     nthp3 path (Z.of_nat (length path) - 2) <> nthp3 path (Z.of_nat (length path) - 1) ->
     forall u v, (mcnt u v (snd ph) <= 1)%nat /\ mcnt u v (snd ph) = mcnt v u (snd ph)).
Proof. split; [exact sweep_circle_closed|exact sweep_rounded_rect_closed]. Qed.

(* ---- revolves of fan-convex profiles: closed in the exact form for every angle and segment count with no hypothesis on
        the caps; and the ring -- a circle of radius r at distance R0 > r from the axis, any angle in (0, 360] -- is closed
        and outward unconditionally ---- *)
Theorem C04_revolve_fanconvex : forall (profile : list (pt2 R)) (degrees : R) (segments : Z) ph,
  rotate_extrude profile degrees segments = Some ph -> (3 <= length profile)%nat ->
  fanconv false (enumerate profile) -> fanconv true (rev (enumerate profile)) ->
  forall u v, (mcnt u v (snd ph) <= 1)%nat /\ mcnt u v (snd ph) = mcnt v u (snd ph).
Proof. exact revolve_fanconvex_closed. Qed.
Theorem C04_ring : forall (r R0 : R) (n : Z) (c : list (pt2 R)) (degrees : R) (segments : Z) ph,
  (3 <= n)%Z -> (0 < r)%R -> (r < R0)%R -> circle r n = Some c -> (0 < degrees)%R ->
  rotate_extrude (pt2s_translate c (Pt2 R0 0%R)) degrees segments = Some ph ->
  (forall u v, (mcnt u v (snd ph) <= 1)%nat /\ mcnt u v (snd ph) = mcnt v u (snd ph)) /\ (vol6 (fst ph) (snd ph) < 0)%R.
Proof. exact ring_unconditional. Qed.
(* every prism over a fan-convex outline: closed in the exact form, and outward for a clockwise outline and positive height *)
Theorem C04_prism_fanconvex : forall (pts : list (pt2 R)) (h : R) ph, linear_extrude pts h = Some ph ->
  fanconv false (enumerate pts) -> fanconv true (rev (enumerate pts)) ->
  (forall u v, (mcnt u v (snd ph) <= 1)%nat /\ mcnt u v (snd ph) = mcnt v u (snd ph)) /\
  ((0 < h)%R -> (Poly.area2 pts < 0)%R -> (vol6 (fst ph) (snd ph) < 0)%R).
Proof. exact prism_fanconvex. Qed.
(* lofts between fan-convex profiles (e.g. a circle below a rounded rectangle of the same point count) *)
Theorem C04_loft_fanconvex : forall (lower upper : list (pt2 R)) (h : R) ph, loft lower upper h = Some ph ->
  fanconv true (rev (enumerate lower)) -> fanconv false (enumerate upper) ->
  forall u v, (mcnt u v (snd ph) <= 1)%nat /\ mcnt u v (snd ph) = mcnt v u (snd ph).
Proof. exact loft_fanconvex. Qed.

(* moving a mesh rigidly keeps the signed volume its faces enclose (and, the faces being untouched, its closedness): translation
   for every mesh whose directed edges come in opposite pairs -- every closed mesh --, the rotations about the coordinate axes
   and every proper rotation for every mesh. So a built polyhedron that is closed and outward stays so under the transform
   methods; in particular every edge cylinder of the Viewer, whatever direction the edge points in. *)
From SCAD Require Import Base.Mat Base.Rot_proofs Geom.Rigid_volume Parts.Viewer_solid_proofs.
Theorem C04_rigid_motions_keep_volume : forall (ph : @polyhedron R),
  (forall v, in_range ph -> paired (snd ph) -> vol6 (fst (poly_translate ph v)) (snd (poly_translate ph v)) = vol6 (fst ph) (snd ph)) /\
  (forall a, vol6 (fst (poly_rotate_x ph a)) (snd (poly_rotate_x ph a)) = vol6 (fst ph) (snd ph)) /\
  (forall a, vol6 (fst (poly_rotate_y ph a)) (snd (poly_rotate_y ph a)) = vol6 (fst ph) (snd ph)) /\
  (forall a, vol6 (fst (poly_rotate_z ph a)) (snd (poly_rotate_z ph a)) = vol6 (fst ph) (snd ph)).
Proof. exact transforms_keep_volume. Qed.
Theorem C04_proper_rotation_keeps_volume : forall (m : mt4 R) (vs : list (pt3 R)) (F : list (list Z)),
  proper_rotation m -> vol6 (map (acts m) vs) F = vol6 vs F.
Proof. exact vol6_proper_rotation. Qed.
Theorem C04_viewer_edges_closed_outward :
  (forall (r : R) (segments : Z) (s e : pt3 R) ph, s <> e -> r <> 0%R -> cylinder r (pt3_len (pt3_sub e s)) segments = Some ph ->
     let moved := poly_translate (poly_apply_matrix ph (mt4_look_at_lh s e up_z)) s in
     closed_exact (snd moved) /\ (vol6 (fst moved) (snd moved) < 0)%R) /\
  (forall (r : R) (segments : Z) (s e : pt2 R) ph, s <> e -> r <> 0%R -> cylinder r (pt2_len (pt2_sub e s)) segments = Some ph ->
     let moved := poly_translate (poly_apply_matrix ph (mt4_look_at_lh (pt2_as_pt3 s 0%R) (pt2_as_pt3 e 0%R) up_z)) (pt2_as_pt3 s 0%R) in
     closed_exact (snd moved) /\ (vol6 (fst moved) (snd moved) < 0)%R).
Proof. exact (conj edge_cylinder_closed_outward edge_cylinder2_closed_outward). Qed.
