(* Props/C04.v -- see Geom/Mesh_proofs.v (in progress); here: the face generators' index facts. *)
From Coq Require Import ZArith List Lia.
From SCAD Require Import Base.Num Geom.Dim3.
Import ListNotations.

(* a side quad between two rings has four distinct, in-range vertices (n >= 2) *)
Theorem C04_quad_vertices : forall n ra rb p, (2 <= n)%Z -> (0 <= p < n)%Z -> (ra + n <= rb \/ rb + n <= ra)%Z ->
  NoDup (quad n ra rb p) /\ NoDup (quad_rev n ra rb p).
Proof.
  intros n ra rb p Hn Hp Hr. unfold quad, quad_rev.
  assert (Hm : (0 <= (p + 1) mod n < n)%Z) by (apply Z.mod_pos_bound; lia).
  assert (Hne : ((p + 1) mod n <> p)%Z).
  { destruct (Z.eq_dec (p + 1) n) as [E | E].
    - rewrite E, Z.mod_same by lia. lia.
    - rewrite Z.mod_small by lia. lia. }
  split; repeat constructor; cbn [In]; intuition lia.
Qed.
