(* Props/C03.v -- triangulation. The theorems hold for every number type (so for the float reading the
   implementation is compared with, too) except the area ones, which are stated over the reals. *)
From Coq Require Import ZArith List Reals.
From SCAD Require Import Base.Num Base.NumR Base.Vec Geom.Tri Geom.Tri_proofs.
Import ListNotations.

(* fewer than four vertices are rejected by all entry points (the Rust asserts) *)
Theorem C03_rejects_small {T} `{Num T} : forall (v : list (pt2 T)), (length v <= 3)%nat ->
  triangulate2d v = None /\ triangulate2d_rev v = None.
Proof.
  intros v Hv. unfold triangulate2d, triangulate2d_rev.
  destruct (Nat.ltb_spec 3 (length v)); [exfalso; apply (Nat.lt_irrefl 3); eapply Nat.lt_le_trans; eassumption|split; reflexivity].
Qed.

(* more than three vertices: both 2D entry points answer, and only with indices of the input *)
Theorem C03_indices {T} `{Num T} : forall (v : list (pt2 T)), (3 < length v)%nat ->
  exists out, triangulate2d v = Some out /\ (forall i, In i out -> (0 <= i < Z.of_nat (length v))%Z) /\
  exists out', triangulate2d_rev v = Some out' /\ (forall i, In i out' -> (0 <= i < Z.of_nat (length v))%Z).
Proof. exact (@triangulate2d_indices T H). Qed.

(* the output is the index triples of the run; one triangle per clipped vertex; at most n - 2; exactly n - 2 unless
   the loop stopped because its own ear test accepted no vertex of the polygon that was left *)
Theorem C03_count {T} `{Num T} : forall (poly : list (@vtx T)), (3 <= length poly)%nat ->
  let out := triangulate poly in let rest := snd (run poly) in
  length out = (3 * (length poly - length rest))%nat /\ (2 <= length rest)%nat /\
  (length rest = 2%nat \/ ((3 <= length rest)%nat /\ find_ear (ref_ccw poly) rest = None)).
Proof. exact (@triangulate_count T H). Qed.
Theorem C03_output_is_run {T} `{Num T} : forall (poly : list (@vtx T)), triangulate poly = flat_map idx3 (fst (run poly)).
Proof. exact (@triangulate_run T H). Qed.

(* every triangle is wound like the reference corner (the left-most vertex) *)
Theorem C03_winding {T} `{Num T} : forall (poly : list (@vtx T)), Forall (wound (ref_ccw poly)) (fst (run poly)).
Proof. intros poly. exact (clipv_winding (ref_ccw poly) (length poly) poly). Qed.

(* complete results (n - 2 triangles): for every ordered pair of indices, uses of u->v minus uses of v->u over
   the triangles equal the same count for the polygon (each polygon edge once more along than against, each
   diagonal as often one way as the other) *)
Theorem C03_complete_boundary {T} `{Num T} : forall (poly : list (@vtx T)), (3 <= length poly)%nat ->
  length (triangulate poly) = (3 * (length poly - 2))%nat ->
  forall u v, net_tris u v (fst (run poly)) = net u v poly.
Proof. exact (@complete_boundary T H). Qed.

(* complete results, reals: signed areas add up to the polygon's (shoelace) signed area, absolute areas to its
   absolute area, and the reference winding is the polygon's own orientation *)
Theorem C03_complete_area : forall (poly : list (@vtx R)), (3 <= length poly)%nat ->
  length (triangulate poly) = (3 * (length poly - 2))%nat ->
  sum_area2 (fst (run poly)) = area2 poly /\ sum_abs_area2 (fst (run poly)) = Rabs (area2 poly) /\
  (ref_ccw poly = true -> (0 < area2 poly)%R) /\ (ref_ccw poly = false -> (area2 poly <= 0)%R).
Proof. exact complete_area. Qed.
(* at every stage, complete or not: polygon area = area of what is left + area of the triangles *)
Theorem C03_area_split : forall (poly : list (@vtx R)), area2 poly = (area2 (snd (run poly)) + sum_area2 (fst (run poly)))%R.
Proof. exact area_split. Qed.

(* the _rev entry points run the same function on the reversed list: its triangles are wound the other way *)
Theorem C03_rev_opposite : forall (poly : list (@vtx R)), (3 <= length poly)%nat ->
  length (triangulate poly) = (3 * (length poly - 2))%nat ->
  length (triangulate (rev poly)) = (3 * (length poly - 2))%nat ->
  area2 poly <> 0%R -> ref_ccw (rev poly) = negb (ref_ccw poly).
Proof. exact rev_opposite. Qed.

(* not vacuous: the unit square, both windings, in the rational reading *)
From SCAD Require Import Base.NumQ.
From Coq Require Import QArith.
Example C03_square_complete :
  let sq := [Pt2 0%Q 0%Q; Pt2 0%Q 1%Q; Pt2 1%Q 1%Q; Pt2 1%Q 0%Q] in
  triangulate2d sq = Some [3; 0; 1; 3; 1; 2]%Z /\ triangulate2d_rev sq = Some [0; 3; 2; 0; 2; 1]%Z.
Proof. vm_compute. split; reflexivity. Qed.

(* ---- the combinatorial tiling statement ---- *)
From SCAD Require Import Geom.Tri_exact Geom.Dim3 Geom.Mesh_proofs Geom.Tri_tiling.
(* no directed edge is used by two triangles, complete or not *)
Theorem C03_no_edge_twice {T} `{Num T} : forall (poly : list (@vtx T)), NoDup (ids poly) ->
  forall u v, (cntT u v (fst (run poly)) <= 1)%nat.
Proof. intros poly Hnd. exact (clipv_at_most_once (ref_ccw poly) (length poly) poly Hnd). Qed.
(* complete runs: every polygon edge used exactly once and never against its direction; every other ordered pair used
   at most once and exactly as often as its reverse (interior diagonals are shared by exactly two triangles) *)
Theorem C03_complete_tiling {T} `{Num T} : forall (poly : list (@vtx T)), NoDup (ids poly) -> (3 <= length poly)%nat -> complete poly ->
  let tris := fst (run poly) in
  (forall u v, (cntT u v tris <= 1)%nat) /\
  (forall u v, pe poly u v -> cntT u v tris = 1%nat /\ cntT v u tris = 0%nat) /\
  (forall u v, ~ pe poly u v -> ~ pe poly v u -> cntT u v tris = cntT v u tris).
Proof. exact (@complete_tiling T H). Qed.
(* the same for triangulate2d, in terms of the indices 0..n-1 *)
Theorem C03_triangulate2d_tiling {T} `{Num T} : forall (v : list (pt2 T)), (3 < length v)%nat -> complete (enumerate v) ->
  let n := Z.of_nat (length v) in let tris := fst (run (enumerate v)) in
  triangulate2d v = Some (flat_map idx3 tris) /\
  (forall a b, (cntT a b tris <= 1)%nat) /\
  (forall i, (0 <= i < n)%Z -> cntT i ((i + 1) mod n) tris = 1%nat /\ cntT ((i + 1) mod n) i tris = 0%nat) /\
  (forall a b, ~ ((0 <= a < n)%Z /\ b = ((a + 1) mod n)%Z) -> ~ ((0 <= b < n)%Z /\ a = ((b + 1) mod n)%Z) -> cntT a b tris = cntT b a tris).
Proof. exact (@triangulate2d_tiling T H). Qed.

(* ---- completion, where it can be proved: on the real reading the first vertex of a strictly convex polygon (all increasing
        position triples strictly oriented the same way) is always an ear, so the run returns n - 2 triangles and every
        theorem above that assumes a complete run applies; every circle outline (n >= 3, r <> 0) is such a polygon, in both
        vertex orders ---- *)
From SCAD Require Import Geom.Tri_convex Geom.Dim2.
Theorem C03_convex_complete : forall sigma (p : list (@vtx R)), conv sigma p -> (3 <= length p)%nat -> complete p.
Proof. exact convex_complete. Qed.
Theorem C03_circle_complete : forall (radius : R) (segments : Z) (c : list (pt2 R)), (3 <= segments)%Z -> radius <> 0%R ->
  circle radius segments = Some c -> conv false (enumerate c) /\ complete (enumerate c) /\ complete (rev (enumerate c)).
Proof.
  intros r s c Hs Hr Hc. split; [exact (circle_convex r s c Hs Hr Hc)|exact (circle_caps_complete r s c Hs Hr Hc)].
Qed.

(* ---- completion under a weaker hypothesis, and for the rounded rectangle ----
   fanconv sigma p: at every vertex the triple previous, vertex, next is strictly oriented like sigma, and seen from the
   last vertex all other vertices come in angular order (every pair of positions i < j < n-1 oriented like sigma). These
   are the only triples the first-vertex-is-an-ear argument looks at and they survive the removal of the first vertex
   (strict convexity implies them). Every rounded rectangle, centred or not, satisfies them in both vertex orders: seen
   from its first and from its last vertex (both on the top side) every edge that does not touch the apex turns
   clockwise and all other vertices lie strictly below. *)
From SCAD Require Import Geom.Fan_convex Geom.RR_convex.
Theorem C03_fanconv_complete : forall sigma (p : list (@vtx R)), fanconv sigma p -> (3 <= length p)%nat -> complete p.
Proof. exact fanconv_complete. Qed.
Theorem C03_convex_is_fanconv : forall sigma (p : list (@vtx R)), conv sigma p -> (3 <= length p)%nat -> fanconv sigma p.
Proof. exact conv_fanconv. Qed.
Theorem C03_rounded_rect_complete : forall (w h r : R) (segments : Z) (center : bool) pts,
  (0 < r)%R -> (2 * r < w)%R -> (2 * r < h)%R -> (1 <= segments)%Z ->
  rounded_rect w h r segments center = Some pts -> complete (enumerate pts) /\ complete (rev (enumerate pts)).
Proof. exact rounded_rect_caps_complete. Qed.

(* ---- the geometric statement for fan-convex polygons (every strictly convex outline, every rounded rectangle) ----
   the run returns exactly the fan from the last vertex, (a, p_i, p_{i+1}) for i = 0 .. n-3, and no point lies strictly
   inside two of its triangles; with C03_complete_tiling and C03_complete_area (every polygon edge once, every diagonal
   twice in opposite directions, all triangles wound like the polygon, areas adding up to the polygon's area) this is
   "tiles exactly" for that class *)
From SCAD Require Import Geom.Fan_tiling.
Theorem C03_fan_run : forall sigma (p : list (@vtx R)), fanconv sigma p -> (3 <= length p)%nat ->
  fst (run p) = fan_tris (last p dv) (removelast p) /\ triangulate p = flat_map idx3 (fan_tris (last p dv) (removelast p)).
Proof. intros sigma p Hc Hn. split; [exact (fan_run sigma p Hc Hn)|exact (fan_indices sigma p Hc Hn)]. Qed.
Theorem C03_fan_no_overlap : forall sigma (p : list (@vtx R)), fanconv sigma p -> (3 <= length p)%nat ->
  forall i j (q : pt2 R), (i < j)%nat -> (j < length (fst (run p)))%nat ->
    ~ (strictly_inside sigma (nth i (fst (run p)) (dv, dv, dv)) q /\ strictly_inside sigma (nth j (fst (run p)) (dv, dv, dv)) q).
Proof. exact fan_no_overlap. Qed.

(* ---- the weakest form: star-shaped from the last vertex with the vertices in angular order, whatever the reflex
        corners, plus the reference winding -- e.g. the chamfer outline (two reflex corners) for 0 < oversize < size ---- *)
From SCAD Require Import Geom.Chamfer_complete.
Theorem C03_fan_complete : forall sigma (p : list (@vtx R)), fan sigma p -> ref_ccw p = sigma -> (3 <= length p)%nat -> complete p.
Proof. exact fan_complete. Qed.
Theorem C03_chamfer_complete : forall size oversize : R, (0 < oversize)%R -> (oversize < size)%R -> complete (enumerate (chamfer size oversize)).
Proof. exact chamfer_cap_complete. Qed.
(* ... and they cover it: a point strictly on the inner side of every edge of the polygon lies in one of the fan triangles
   (on the inner side of its polygon edge and of its second ray, on or inside its first ray) *)
Theorem C03_fan_covers : forall sigma (p : list (@vtx R)) (q : pt2 R), (3 <= length p)%nat -> inner_side sigma p q ->
  exists i, (S i < length p - 1)%nat /\
    let a := pt_at p (length p - 1) in
    (if sigma then (0 <= orientR a (pt_at p i) q)%R else (orientR a (pt_at p i) q <= 0)%R) /\
    osign sigma (orientR (pt_at p i) (pt_at p (S i)) q) /\ osign sigma (orientR (pt_at p (S i)) a q).
Proof. exact fan_covers. Qed.
