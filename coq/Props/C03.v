(* Props/C03.v -- triangulation (placeholder section, theorems follow in Geom/Tri_proofs.v). *)
From Coq Require Import ZArith List.
From SCAD Require Import Base.Num Base.Vec Geom.Tri.
Import ListNotations.

(* fewer than four vertices are rejected by all four entry points (the Rust asserts) *)
Theorem C03_rejects_small {T} `{Num T} : forall (v : list (pt2 T)), (length v <= 3)%nat ->
  triangulate2d v = None /\ triangulate2d_rev v = None.
Proof.
  intros v Hv. unfold triangulate2d, triangulate2d_rev.
  destruct (Nat.ltb_spec 3 (length v)); [exfalso; apply (Nat.lt_irrefl 3); eapply Nat.lt_le_trans; eassumption|split; reflexivity].
Qed.
