(* Props/C18.v -- a Viewer scene contains everything added, where it was added. Generic in the number type, axiom-free. *)
From Coq Require Import ZArith NArith List Bool.
From SCAD Require Import Base.Num Base.Vec Geom.Dim2 Geom.Dim3 Text.Chars Text.Tree Parts.Thread Parts.Viewer Parts.Viewer_proofs.
Import ListNotations.

Section C18.
  Context {T : Type} `{Num T}.
  (* for every history and every continuation: the later scene is the earlier scene's parts, in order, followed by new parts *)
  Theorem C18_history_monotone : forall cfg (ops1 ops2 : list vop) st1 st2,
    viewer_run cfg ops1 = Some st1 -> viewer_run cfg (ops1 ++ ops2) = Some st2 -> extends st1 st2.
  Proof. exact viewer_history_monotone. Qed.
  Theorem C18_every_call_extends : forall cfg st o st', viewer_step cfg st o = Some st' -> extends st st'.
  Proof. exact viewer_step_extends. Qed.
  (* the basic calls add exactly the described part: a coloured sphere of the point radius at the point, a group of spheres,
     a group of edge cylinders (one per edge, also for empty lists) *)
  Theorem C18_basic_calls : forall cfg st,
    (forall p c, parts_of (add_pt3 cfg st p c) = parts_of st ++ [point_item cfg p c]) /\
    (forall l c, parts_of (add_pt3s cfg st l c) = parts_of st ++ [group_item c (map (sphere_at cfg) l)]) /\
    (forall l c st', add_lines3 cfg st l c = Some st' ->
       exists cs, all_some (map (fun se => edge_cylinder cfg (fst se) (snd se)) l) = Some cs /\ parts_of st' = parts_of st ++ [group_item c cs]) /\
    (forall l c st', add_lines2 cfg st l c = Some st' ->
       exists cs, all_some (map (fun se => edge_cylinder2 cfg (fst se) (snd se)) l) = Some cs /\ parts_of st' = parts_of st ++ [group_item c cs]).
  Proof. exact viewer_basic_calls. Qed.
End C18.

(* ---- geometry of an edge (real reading): the cylinder of an edge from s to e (s <> e) has its bottom ring at
        s + F(circle point) and its top ring at bottom + (e - s); F is an isometry, so each bottom point lies at the
        circle point's distance (the edge radius) from s in the plane through s perpendicular to e - s: the cylinder
        runs from the start to the end of the edge ---- *)
From Coq Require Import Reals.
From SCAD Require Import Base.NumR Base.Mat Parts.Viewer_geom_proofs.
Theorem C18_edge_cylinder_points : forall (r : R) (segments : Z) (s e : pt3 R) (c : list (pt2 R)) ph, s <> e ->
  circle r segments = Some c -> cylinder r (pt3_len (pt3_sub e s)) segments = Some ph ->
  fst (poly_translate (poly_apply_matrix ph (mt4_look_at_lh s e up_z)) s) =
    map (edge_point s e) c ++ map (fun p => pt3_add (edge_point s e p) (pt3_sub e s)) c.
Proof. exact edge_cylinder_points. Qed.
Theorem C18_edge_point_on_circle : forall (s e : pt3 R) (c : pt2 R), s <> e ->
  let d := pt3_sub (edge_point s e c) s in
  (pt3_dot d d = x2 c * x2 c + y2 c * y2 c)%R /\ pt3_dot d (pt3_sub e s) = 0%R.
Proof. exact edge_point_on_circle. Qed.

(* ... and it is a closed, outward-facing solid for every edge whose end points differ, in every direction (the cylinder is,
   the frame is a proper rotation in every branch of look_at_matrix_lh, rigid motions keep the enclosed signed volume) *)
From SCAD Require Import Geom.Mesh_exact Geom.Volume_proofs Parts.Viewer_solid_proofs.
Theorem C18_edge_cylinder_is_a_closed_solid : forall (r : R) (segments : Z) (s e : pt3 R) ph, s <> e -> r <> 0%R ->
  cylinder r (pt3_len (pt3_sub e s)) segments = Some ph ->
  let moved := poly_translate (poly_apply_matrix ph (mt4_look_at_lh s e up_z)) s in
  closed_exact (snd moved) /\ (vol6 (fst moved) (snd moved) < 0)%R.
Proof. exact edge_cylinder_closed_outward. Qed.
