(* Text/Bind_proofs.v -- binding the emitted arguments of any node by OpenSCAD's rules recovers exactly the
   node's parameters (C02). Axiom-free. Hypothesis per number: its printed literal reads back to its value
   (checked exactly on every sampled number). *)
From Coq Require Import NArith ZArith String List Bool Floats Lia.
From SCAD Require Import Text.Chars Text.Tree Text.Lex Text.Parse Text.Dec64 Text.Emit Text.Bind Text.Lex_proofs Text.Emit_proofs Text.Parse_proofs Base.NumF Gen.Enums.
Import ListNotations.

Definition id_text (s : text) : text := s.
Notation args_of' := (args_of fnum text nlit id_text).

Definition num_ok (x : fnum) : Prop := dec_to_f64 (nlit x) = Some (nval x).
Definition onum_ok (o : option fnum) : Prop := match o with Some x => num_ok x | None => True end.
Definition p2_ok (p : p2 fnum) := num_ok (p2x p) /\ num_ok (p2y p).
Definition p3_ok (p : p3 fnum) := num_ok (p3x p) /\ num_ok (p3y p) /\ num_ok (p3z p).
Definition p4_ok (p : p4 fnum) := num_ok (p4x p) /\ num_ok (p4y p) /\ num_ok (p4z p) /\ num_ok (p4w p).
Definition N_ok (n : N) : Prop := dec_to_f64 (dec_of_N n) = Some (N_to_float n).
Definition oN_ok (o : option N) : Prop := match o with Some n => N_ok n | None => True end.

(* every number of the node reads back *)
Definition op_ok (o : scadop fnum text) : Prop :=
  match o with
  | Circle r fa fs fn_ | Sphere r fa fs fn_ => num_ok r /\ onum_ok fa /\ onum_ok fs /\ oN_ok fn_
  | Square s _ => p2_ok s
  | Polygon pts paths cv => Forall p2_ok pts /\ match paths with Some p => Forall (Forall N_ok) p | None => True end /\ N_ok cv
  | Text _ size _ _ _ sp _ _ _ fn_ => num_ok size /\ num_ok sp /\ oN_ok fn_
  | Import _ cv | Minkowski cv => N_ok cv
  | Cube s _ => p3_ok s
  | Cylinder h r1 r2 _ fa fs fn_ => num_ok h /\ num_ok r1 /\ num_ok r2 /\ onum_ok fa /\ onum_ok fs /\ oN_ok fn_
  | Polyhedron pts faces cv => Forall p3_ok pts /\ Forall (Forall N_ok) faces /\ N_ok cv
  | LinearExtrude h _ cv tw sc sl fn_ => num_ok h /\ N_ok cv /\ num_ok tw /\ p2_ok sc /\ oN_ok sl /\ oN_ok fn_
  | RotateExtrude a cv fa fs fn_ => num_ok a /\ N_ok cv /\ onum_ok fa /\ onum_ok fs /\ oN_ok fn_
  | Surface _ _ _ cv => N_ok cv
  | Translate v | Scale v | Mirror v => p3_ok v
  | Rotate a _ v => onum_ok a /\ p3_ok v
  | Resize ns _ _ _ cv => p3_ok ns /\ N_ok cv
  | Color rgba _ _ alpha => match rgba with Some p => p4_ok p | None => True end /\ onum_ok alpha
  | Offset r d _ => onum_ok r /\ onum_ok d
  | _ => True
  end.

Definition val (e : sexpr) : value := value_of (erase e).

Lemma val_sn x : num_ok x -> val (sn fnum nlit x) = VNum (nval x).
Proof. intros H. unfold val, sn. cbn [erase value_of]. rewrite H. reflexivity. Qed.
Lemma val_sN n : N_ok n -> val (sN n) = VNum (N_to_float n).
Proof. intros H. unfold val, sN. cbn [erase value_of]. rewrite H. reflexivity. Qed.
Lemma val_sb b : val (sb b) = VBool b. Proof. destruct b; reflexivity. Qed.
Lemma val_ss s : val (ss text id_text s) = VStr s. Proof. reflexivity. Qed.
Lemma val_senum names i : val (senum names i) = VStr (s2t (nth (N.to_nat i) names "?"%string)). Proof. reflexivity. Qed.
Lemma val_undef : val (SId (s2t "undef")) = VUndef. Proof. reflexivity. Qed.
Lemma val_vec sep l : val (SVec sep l) = VVec (map val l).
Proof. unfold val. cbn [erase value_of]. rewrite map_map. reflexivity. Qed.
Lemma val_s2 p : p2_ok p -> val (s2 fnum nlit p) = v2 p.
Proof. intros [H1 H2]. unfold s2, v2, vn. rewrite val_vec. cbn [map]. rewrite !val_sn by assumption. reflexivity. Qed.
Lemma val_s3 p : p3_ok p -> val (s3 fnum nlit p) = v3 p.
Proof. intros (H1 & H2 & H3). unfold s3, v3, vn. rewrite val_vec. cbn [map]. rewrite !val_sn by assumption. reflexivity. Qed.
Lemma val_s4 p : p4_ok p -> val (s4 fnum nlit p) = v4 p.
Proof. intros (H1 & H2 & H3 & H4). unfold s4, v4, vn. rewrite val_vec. cbn [map]. rewrite !val_sn by assumption. reflexivity. Qed.
Lemma val_sidx l : Forall N_ok l -> val (sidx l) = vidx l.
Proof.
  intros H. unfold sidx, vidx. rewrite val_vec. f_equal. rewrite map_map. induction H as [|n l Hn Hl IH]; [reflexivity|].
  cbn [map]. rewrite val_sN by assumption. unfold vN. rewrite IH. reflexivity.
Qed.
Lemma val_spaths l : Forall (Forall N_ok) l -> val (spaths l) = vpaths l.
Proof.
  intros H. unfold spaths, vpaths. rewrite val_vec. f_equal. rewrite map_map. induction H as [|n l Hn Hl IH]; [reflexivity|].
  cbn [map]. rewrite val_sidx by assumption. rewrite IH. reflexivity.
Qed.
Lemma val_pts2 l : Forall p2_ok l -> val (SVec comma (map (s2 fnum nlit) l)) = VVec (map v2 l).
Proof. intros H. rewrite val_vec. f_equal. rewrite map_map. induction H as [|p l Hp Hl IH]; [reflexivity|]. cbn [map]. rewrite val_s2, IH by assumption. reflexivity. Qed.
Lemma val_pts3 l : Forall p3_ok l -> val (SVec comma (map (s3 fnum nlit) l)) = VVec (map v3 l).
Proof. intros H. rewrite val_vec. f_equal. rewrite map_map. induction H as [|p l Hp Hl IH]; [reflexivity|]. cbn [map]. rewrite val_s3, IH by assumption. reflexivity. Qed.

(* binding a list of arguments whose names are all distinct parameters: generic step lemmas would be heavier than
   computing; the name logic is closed, only the values are symbolic *)
Definition bound (name : string) (args : list sarg) : option (list (text * value)) :=
  match lookup_sig (s2t name) signatures with
  | None => None
  | Some (pos, named) =>
      (fix go (pos : list string) (args : list sarg) (acc : list (text * value)) : option (list (text * value)) :=
         match args with
         | [] => Some (rev acc)
         | (None, e) :: tl =>
             match pos with
             | p :: pos' => if existsb (fun kv => text_eqb (fst kv) (s2t p)) acc then None else go pos' tl ((s2t p, val e) :: acc)
             | [] => None
             end
         | (Some n, e) :: tl =>
             if existsb (fun kv => text_eqb (fst kv) n) acc then None
             else if is_special n || mem_name n pos || mem_name n named
                  then go (filter (fun p => negb (text_eqb n (s2t p))) pos) tl ((n, val e) :: acc)
                  else None
         end) pos args []
  end.

Lemma bind_is_bound name args : bind (s2t name) (map erase_arg args) = bound name args.
Proof.
  unfold bind, bound. destruct (lookup_sig (s2t name) signatures) as [[pos named]|]; [|reflexivity].
  generalize (@nil (text * value)). revert pos. induction args as [|[[n|] e] args IH]; intros pos acc; cbn [map bind_args erase_arg fst snd].
  - reflexivity.
  - destruct (existsb _ acc); [reflexivity|]. destruct (is_special n || mem_name n pos || mem_name n named); [|reflexivity]. apply IH.
  - destruct pos as [|p pos]; [reflexivity|]. destruct (existsb _ acc); [reflexivity|]. apply IH.
Qed.

Local Opaque val.

Ltac vals := repeat first
  [ rewrite val_sn by assumption | rewrite val_sN by assumption | rewrite val_sb | rewrite val_ss | rewrite val_senum | rewrite val_undef
  | rewrite val_s2 by assumption | rewrite val_s3 by assumption | rewrite val_s4 by assumption | rewrite val_spaths by assumption
  | rewrite val_pts2 by assumption | rewrite val_pts3 by assumption
  | rewrite val_vec ].

Theorem bind_emit_op : forall o : scadop fnum text, op_ok o ->
  bind (s2t (op_ident fnum text o)) (map erase_arg (args_of' o)) = Some (params_of o).
Proof.
  intros o Hok. rewrite bind_is_bound.
  destruct o; cbn [op_ok] in Hok; repeat match goal with H : _ /\ _ |- _ => destruct H end;
    cbn [op_ident Emit.args_of params_of];
    repeat match goal with
           | x : option _ |- _ => destruct x
           | x : bool |- context [match ?b with _ => _ end] => match b with x => destruct x end
           | x : (bool * bool * bool)%type |- _ => destruct x as [[? ?] ?]
           end;
    cbn [onum_ok oN_ok] in *;
    cbv - [val N_to_float nth halign_names valign_names direction_names color_names sn sN sb ss s2 s3 s4 sidx spaths senum map comma comma_sp nlit id_text dec_of_N bool_text v2 v3 v4 vn vN vidx vpaths ename];
    vals; cbn [map]; vals; try reflexivity.
Qed.
