(* Text/Emit.v -- mirror of `impl Display for Scad` (scad.rs) and of the list Display impls (lib.rs,
   pt2.rs, pt3.rs, pt4.rs), written as a renderer of a spaced statement: every node is
   name '(' arguments ')' and then ';' or ' {' newline children '}' newline, where an argument is
   [name '='] value and a value is a number literal, a string literal, a keyword or a bracketed list with
   the separator the Rust uses at that place ("," for point lists, ", " elsewhere).
   `fmt` stands for Rust's Display of f64 and `chars` for the code points of a String; both are supplied
   by the caller (DESIGN.md section 5). The text this produces is compared character for character with the
   implementation on every run. *)
From Coq Require Import NArith List String.
From SCAD Require Import Text.Chars Text.Tree Gen.Enums.
Import ListNotations.
Local Open Scope list_scope.

(* spaced values *)
Inductive sexpr :=
| SNum (lit : text)                       (* as printed *)
| SStr (s : text)                         (* code points; printed quoted with OpenSCAD escapes *)
| SId (s : text)                          (* true / false / undef *)
| SVec (sep : text) (l : list sexpr).     (* '[' elements joined by sep ']' *)
Definition sarg := (option text * sexpr)%type.

(* ScadStr: OpenSCAD escapes *)
Definition esc_char (c : N) : text :=
  (if N.eqb c 92 then [92; 92] else if N.eqb c 34 then [92; 34] else if N.eqb c 10 then [92; 110]
   else if N.eqb c 9 then [92; 116] else if N.eqb c 13 then [92; 114] else [c])%N.

Fixpoint join (sep : text) (l : list text) : text :=
  match l with
  | [] => []
  | [x] => x
  | x :: tl => x ++ sep ++ join sep tl
  end.

Fixpoint r_expr (e : sexpr) : text :=
  match e with
  | SNum l => l
  | SStr s => [34%N] ++ flat_map esc_char s ++ [34%N]
  | SId s => s
  | SVec sep l => [91%N] ++ join sep (map r_expr l) ++ [93%N]
  end.
Definition r_arg (a : sarg) : text :=
  match a with (Some n, e) => n ++ [61%N] ++ r_expr e | (None, e) => r_expr e end.
Definition comma_sp : text := [44%N; 32%N].
Definition comma : text := [44%N].
Definition r_head (name : text) (args : list sarg) : text := name ++ [40%N] ++ join comma_sp (map r_arg args) ++ [41%N].

Section Emit.
  Variables num str : Type.
  Variable fmt : num -> text.
  Variable chars : str -> text.
  Notation scadop := (scadop num str). Notation scad := (scad num str).

  Definition sn (x : num) : sexpr := SNum (fmt x).
  Definition sN (n : N) : sexpr := SNum (dec_of_N n).
  Definition sb (b : bool) : sexpr := SId (bool_text b).
  Definition ss (s : str) : sexpr := SStr (chars s).
  Definition s2 (p : p2 num) : sexpr := SVec comma_sp [sn (p2x p); sn (p2y p)].
  Definition s3 (p : p3 num) : sexpr := SVec comma_sp [sn (p3x p); sn (p3y p); sn (p3z p)].
  Definition s4 (p : p4 num) : sexpr := SVec comma_sp [sn (p4x p); sn (p4y p); sn (p4z p); sn (p4w p)].
  Definition sidx (l : list N) : sexpr := SVec comma_sp (map sN l).
  Definition spaths (l : list (list N)) : sexpr := SVec comma_sp (map sidx l).
  Definition senum (names : list string) (i : N) : sexpr := SStr (s2t (nth (N.to_nat i) names "?"%string)).
  Definition na (k : string) (e : sexpr) : list sarg := [(Some (s2t k), e)].
  Definition oa {A} (k : string) (f : A -> sexpr) (o : option A) : list sarg :=
    match o with Some x => na k (f x) | None => [] end.
  Definition fafsfn (fa fs : option num) (fn_ : option N) : list sarg := oa "$fa" sn fa ++ oa "$fs" sn fs ++ oa "$fn" sN fn_.

  Definition op_ident (o : scadop) : string :=
    match o with
    | Union => "union" | Difference => "difference" | Intersection => "intersection"
    | Circle _ _ _ _ => "circle" | Square _ _ => "square" | Polygon _ _ _ => "polygon"
    | Text _ _ _ _ _ _ _ _ _ _ => "text" | Import _ _ => "import" | Projection _ => "projection"
    | Sphere _ _ _ _ => "sphere" | Cube _ _ => "cube" | Cylinder _ _ _ _ _ _ _ => "cylinder"
    | Polyhedron _ _ _ => "polyhedron" | LinearExtrude _ _ _ _ _ _ _ => "linear_extrude"
    | RotateExtrude _ _ _ _ _ => "rotate_extrude" | Surface _ _ _ _ => "surface"
    | Translate _ => "translate" | Rotate _ _ _ => "rotate" | Scale _ => "scale"
    | Resize _ _ _ _ _ => "resize" | Mirror _ => "mirror" | Color _ _ _ _ => "color"
    | Offset _ _ _ => "offset" | Hull => "hull" | Minkowski _ => "minkowski"
    end%string.

  (* the arguments each header writes, in the order and with the names the Rust writes them *)
  Definition args_of (o : scadop) : list sarg :=
    match o with
    | Union | Difference | Intersection | Hull => []
    | Circle r fa fs fn_ => na "r" (sn r) ++ fafsfn fa fs fn_
    | Square sz c => na "size" (s2 sz) ++ na "center" (sb c)
    | Polygon pts (Some paths) cv => na "points" (SVec comma (map s2 pts)) ++ na "paths" (spaths paths) ++ na "convexity" (sN cv)
    | Polygon pts None cv => na "points" (SVec comma (map s2 pts)) ++ na "paths" (SId (s2t "undef")) ++ na "convexity" (sN cv)
    | Text t size font ha va sp dir lang script fn_ =>
        na "text" (ss t) ++ na "size" (sn size) ++ na "font" (ss font) ++ na "halign" (senum halign_names ha) ++
        na "valign" (senum valign_names va) ++ na "spacing" (sn sp) ++ na "direction" (senum direction_names dir) ++
        na "language" (ss lang) ++ na "script" (ss script) ++ oa "$fn" sN fn_
    | Import file cv => na "file" (ss file) ++ na "convexity" (sN cv)
    | Projection cut => na "cut" (sb cut)
    | Sphere r fa fs fn_ => na "r" (sn r) ++ fafsfn fa fs fn_
    | Cube sz c => na "size" (s3 sz) ++ na "center" (sb c)
    | Cylinder h r1 r2 c fa fs fn_ => na "h" (sn h) ++ na "r1" (sn r1) ++ na "r2" (sn r2) ++ na "center" (sb c) ++ fafsfn fa fs fn_
    | Polyhedron pts faces cv => na "points" (SVec comma (map s3 pts)) ++ na "faces" (spaths faces) ++ na "convexity" (sN cv)
    | LinearExtrude h c cv tw sc slices fn_ =>
        na "height" (sn h) ++ na "center" (sb c) ++ na "convexity" (sN cv) ++ na "twist" (sn tw) ++ na "scale" (s2 sc) ++
        oa "slices" sN slices ++ oa "$fn" sN fn_
    | RotateExtrude a cv fa fs fn_ => na "angle" (sn a) ++ na "convexity" (sN cv) ++ fafsfn fa fs fn_
    | Surface file c inv cv => na "file" (ss file) ++ na "center" (sb c) ++ na "invert" (sb inv) ++ na "convexity" (sN cv)
    | Translate v => na "v" (s3 v)
    | Rotate (Some a) true _ => na "a" (sn a)
    | Rotate (Some a) false v => na "a" (sn a) ++ na "v" (s3 v)
    | Rotate None _ v => na "a" (s3 v)
    | Scale v => na "v" (s3 v)
    | Resize ns au false _ cv => na "newsize" (s3 ns) ++ na "auto" (sb au) ++ na "convexity" (sN cv)
    | Resize ns _ true (a1, a2, a3) cv => na "newsize" (s3 ns) ++ na "auto" (SVec comma_sp [sb a1; sb a2; sb a3]) ++ na "convexity" (sN cv)
    | Mirror v => na "v" (s3 v)
    | Color (Some rgba) _ _ _ => na "c" (s4 rgba)
    | Color None (Some c) _ alpha => [(None, senum color_names c)] ++ oa "alpha" sn alpha
    | Color None None (Some hex) _ => [(None, ss hex)]
    | Color None None None _ => []
    | Offset (Some r) _ _ => na "r" (sn r)
    | Offset None (Some d) ch => na "delta" (sn d) ++ na "chamfer" (sb ch)
    | Offset None None _ => []
    | Minkowski cv => na "convexity" (sN cv)
    end.

  (* every node writes its header; a Color / Offset node that says nothing writes `color()` / `offset()` *)
  Definition e_header (o : scadop) : text :=
    if op_complete o then r_head (s2t (op_ident o)) (args_of o) ++ (if is_leaf_op o then s2t ";" else s2t " {" ++ [10%N])
    else [].

  Fixpoint emit (t : scad) : text :=
    match t with
    | Node o cs =>
        e_header o ++ flat_map emit cs ++ (if is_leaf_op o then [] else s2t "}") ++ [10%N]
    end.

  Definition emit_seq (ts : list scad) : text := flat_map emit ts.
End Emit.
