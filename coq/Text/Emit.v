(* Text/Emit.v -- mirror of `impl Display for Scad` (scad.rs) and of the list Display impls
   (lib.rs, pt2.rs, pt3.rs, pt4.rs). `fmt` stands for Rust's Display of f64 and `chars` for the
   code points of a String; both are supplied by the caller (DESIGN.md section 5). *)
From Coq Require Import NArith List String.
From SCAD Require Import Text.Chars Text.Tree Gen.Enums.
Import ListNotations.
Local Open Scope list_scope.

Section Emit.
  Variables num str : Type.
  Variable fmt : num -> text.
  Variable chars : str -> text.
  Notation scadop := (scadop num str). Notation scad := (scad num str).

  Fixpoint join (sep : text) (l : list text) : text :=
    match l with
    | [] => []
    | [x] => x
    | x :: tl => x ++ sep ++ join sep tl
    end.

  Definition e_p2 (p : p2 num) : text := s2t "[" ++ fmt (p2x p) ++ s2t ", " ++ fmt (p2y p) ++ s2t "]".
  Definition e_p3 (p : p3 num) : text :=
    s2t "[" ++ fmt (p3x p) ++ s2t ", " ++ fmt (p3y p) ++ s2t ", " ++ fmt (p3z p) ++ s2t "]".
  Definition e_p4 (p : p4 num) : text :=
    s2t "[" ++ fmt (p4x p) ++ s2t ", " ++ fmt (p4y p) ++ s2t ", " ++ fmt (p4z p) ++ s2t ", " ++ fmt (p4w p) ++ s2t "]".
  Definition e_p2s (l : list (p2 num)) : text := s2t "[" ++ join (s2t ",") (map e_p2 l) ++ s2t "]".
  Definition e_p3s (l : list (p3 num)) : text := s2t "[" ++ join (s2t ",") (map e_p3 l) ++ s2t "]".
  Definition e_indices (l : list N) : text := s2t "[" ++ join (s2t ", ") (map dec_of_N l) ++ s2t "]".
  Definition e_paths (l : list (list N)) : text := s2t "[" ++ join (s2t ", ") (map e_indices l) ++ s2t "]".

  (* ScadStr: OpenSCAD escapes *)
  Definition esc_char (c : N) : text :=
    (if N.eqb c 92 then [92; 92] else if N.eqb c 34 then [92; 34] else if N.eqb c 10 then [92; 110]
     else if N.eqb c 9 then [92; 116] else if N.eqb c 13 then [92; 114] else [c])%N.
  Definition e_str (s : str) : text := [34%N] ++ flat_map esc_char (chars s) ++ [34%N].

  Definition e_opt (label : string) (o : option text) : text :=
    match o with Some t => s2t label ++ t | None => [] end.
  Definition e_fa_fs_fn (fa fs : option num) (fn_ : option N) : text :=
    e_opt ", $fa=" (option_map fmt fa) ++ e_opt ", $fs=" (option_map fmt fs) ++ e_opt ", $fn=" (option_map dec_of_N fn_).
  Definition enum_name (names : list string) (i : N) : text := s2t (nth (N.to_nat i) names "?"%string).

  Definition e_header (o : scadop) : text :=
    match o with
    | Union => s2t "union() {" ++ [10%N]
    | Difference => s2t "difference() {" ++ [10%N]
    | Intersection => s2t "intersection() {" ++ [10%N]
    | Circle r fa fs fn_ => s2t "circle(r=" ++ fmt r ++ e_fa_fs_fn fa fs fn_ ++ s2t ");"
    | Square sz c => s2t "square(size=[" ++ fmt (p2x sz) ++ s2t ", " ++ fmt (p2y sz) ++ s2t "], center=" ++ bool_text c ++ s2t ");"
    | Polygon pts (Some paths) cv =>
        s2t "polygon(points=" ++ e_p2s pts ++ s2t ", paths=" ++ e_paths paths ++ s2t ", convexity=" ++ dec_of_N cv ++ s2t ");"
    | Polygon pts None cv =>
        s2t "polygon(points=" ++ e_p2s pts ++ s2t ", paths=undef, convexity=" ++ dec_of_N cv ++ s2t ");"
    | Text t size font ha va sp dir lang script fn_ =>
        s2t "text(text=" ++ e_str t ++ s2t ", size=" ++ fmt size ++ s2t ", font=" ++ e_str font ++
        s2t ", halign=""" ++ enum_name halign_names ha ++ s2t """, valign=""" ++ enum_name valign_names va ++
        s2t """, spacing=" ++ fmt sp ++ s2t ", direction=""" ++ enum_name direction_names dir ++
        s2t """, language=" ++ e_str lang ++ s2t ", script=" ++ e_str script ++
        e_opt ", $fn=" (option_map dec_of_N fn_) ++ s2t ");"
    | Import file cv => s2t "import(file=" ++ e_str file ++ s2t ", convexity=" ++ dec_of_N cv ++ s2t ");"
    | Projection cut => s2t "projection(cut=" ++ bool_text cut ++ s2t ") {" ++ [10%N]
    | Sphere r fa fs fn_ => s2t "sphere(r=" ++ fmt r ++ e_fa_fs_fn fa fs fn_ ++ s2t ");"
    | Cube sz c => s2t "cube(size=" ++ e_p3 sz ++ s2t ", center=" ++ bool_text c ++ s2t ");"
    | Cylinder h r1 r2 c fa fs fn_ =>
        s2t "cylinder(h=" ++ fmt h ++ s2t ", r1=" ++ fmt r1 ++ s2t ", r2=" ++ fmt r2 ++ s2t ", center=" ++ bool_text c ++
        e_fa_fs_fn fa fs fn_ ++ s2t ");"
    | Polyhedron pts faces cv =>
        s2t "polyhedron(points=" ++ e_p3s pts ++ s2t ", faces=" ++ e_paths faces ++ s2t ", convexity=" ++ dec_of_N cv ++ s2t ");"
    | LinearExtrude h c cv tw sc slices fn_ =>
        s2t "linear_extrude(height=" ++ fmt h ++ s2t ", center=" ++ bool_text c ++ s2t ", convexity=" ++ dec_of_N cv ++
        s2t ", twist=" ++ fmt tw ++ s2t ", scale=" ++ e_p2 sc ++
        e_opt ", slices=" (option_map dec_of_N slices) ++ e_opt ", $fn=" (option_map dec_of_N fn_) ++ s2t ") {" ++ [10%N]
    | RotateExtrude a cv fa fs fn_ =>
        s2t "rotate_extrude(angle=" ++ fmt a ++ s2t ", convexity=" ++ dec_of_N cv ++ e_fa_fs_fn fa fs fn_ ++ s2t ") {" ++ [10%N]
    | Surface file c inv cv =>
        s2t "surface(file=" ++ e_str file ++ s2t ", center=" ++ bool_text c ++ s2t ", invert=" ++ bool_text inv ++
        s2t ", convexity=" ++ dec_of_N cv ++ s2t ");"
    | Translate v => s2t "translate(v=" ++ e_p3 v ++ s2t ") {" ++ [10%N]
    | Rotate (Some a) true v => s2t "rotate(a=" ++ fmt a ++ s2t ") {" ++ [10%N]
    | Rotate (Some a) false v => s2t "rotate(a=" ++ fmt a ++ s2t ", v=" ++ e_p3 v ++ s2t ") {" ++ [10%N]
    | Rotate None _ v => s2t "rotate(a=" ++ e_p3 v ++ s2t ") {" ++ [10%N]
    | Scale v => s2t "scale(v=" ++ e_p3 v ++ s2t ") {" ++ [10%N]
    | Resize ns au false _ cv =>
        s2t "resize(newsize=" ++ e_p3 ns ++ s2t ", auto=" ++ bool_text au ++ s2t ", convexity=" ++ dec_of_N cv ++ s2t ") {" ++ [10%N]
    | Resize ns _ true (a1, a2, a3) cv =>
        s2t "resize(newsize=" ++ e_p3 ns ++ s2t ", auto=[" ++ bool_text a1 ++ s2t ", " ++ bool_text a2 ++ s2t ", " ++
        bool_text a3 ++ s2t "], convexity=" ++ dec_of_N cv ++ s2t ") {" ++ [10%N]
    | Mirror v => s2t "mirror(v=" ++ e_p3 v ++ s2t ") {" ++ [10%N]
    | Color (Some rgba) _ _ _ => s2t "color(c=" ++ e_p4 rgba ++ s2t ") {" ++ [10%N]
    | Color None (Some c) _ alpha =>
        s2t "color(""" ++ enum_name color_names c ++ s2t """" ++ e_opt ", alpha=" (option_map fmt alpha) ++ s2t ") {" ++ [10%N]
    | Color None None (Some hex) _ => s2t "color(" ++ e_str hex ++ s2t ") {" ++ [10%N]
    | Color None None None _ => []
    | Offset (Some r) _ _ => s2t "offset(r=" ++ fmt r ++ s2t ") {" ++ [10%N]
    | Offset None (Some d) ch => s2t "offset(delta=" ++ fmt d ++ s2t ", chamfer=" ++ bool_text ch ++ s2t ") {" ++ [10%N]
    | Offset None None _ => []
    | Hull => s2t "hull() {" ++ [10%N]
    | Minkowski cv => s2t "minkowski(convexity=" ++ dec_of_N cv ++ s2t ") {" ++ [10%N]
    end.

  Fixpoint emit (t : scad) : text :=
    match t with
    | Node o cs =>
        e_header o ++ flat_map emit cs ++ (if is_leaf_op o then [] else s2t "}") ++ [10%N]
    end.

  Definition emit_seq (ts : list scad) : text := flat_map emit ts.
End Emit.
