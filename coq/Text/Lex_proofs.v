(* Text/Lex_proofs.v -- the lexer reads back what the renderer writes. Axiom-free. *)
From Coq Require Import NArith List Bool Lia ZArith ZifyN ZifyBool.
From SCAD Require Import Text.Chars Text.Lex Text.Emit.
Import ListNotations.
Local Open Scope N_scope.

Lemma lrun_app s a b : lrun s (a ++ b) = lrun (lrun s a) b.
Proof. unfold lrun. apply fold_left_app. Qed.
Lemma lrun_cons s c r : lrun s (c :: r) = lrun (lstep s c) r.
Proof. reflexivity. Qed.

(* ---- character classes ---- *)
Definition delim (d : N) : bool := is_punct d || is_ws d.
Definition starts_delim (t : text) : Prop := match t with d :: _ => delim d = true | [] => False end.

Ltac classes := unfold delim, is_num_char, is_punct, is_ws, is_id_start, is_id_char, is_alpha, is_digit in *.
Lemma punct_not_ws c : is_punct c = true -> is_ws c = false. Proof. classes. lia. Qed.
Lemma idstart_not_ws c : is_id_start c = true -> is_ws c = false. Proof. classes. lia. Qed.
Lemma idstart_not_punct c : is_id_start c = true -> is_punct c = false. Proof. classes. lia. Qed.
Lemma delim_not_idchar d : delim d = true -> is_id_char d = false. Proof. classes. lia. Qed.
Lemma delim_not_numchar d : delim d = true -> is_num_char d = false. Proof. classes. lia. Qed.
Lemma delim_not_idstart d : delim d = true -> is_id_start d = false. Proof. classes. lia. Qed.
Definition num_start (c : N) : bool := is_digit c || (c =? 45) || (c =? 46).
Lemma numstart_facts c : num_start c = true -> is_ws c = false /\ is_punct c = false /\ is_id_start c = false.
Proof. unfold num_start. classes. lia. Qed.
Lemma quote_facts : is_ws 34 = false /\ is_punct 34 = false /\ is_id_start 34 = false /\ num_start 34 = false.
Proof. repeat split; reflexivity. Qed.

(* ---- pieces ---- *)
Lemma step_default out c : lstep (LS MDefault out) c = start_default out c. Proof. reflexivity. Qed.

Lemma lrun_punct c out : is_punct c = true -> lrun (LS MDefault out) [c] = LS MDefault (TP c :: out).
Proof. intros Hp. cbn. unfold lstep, start_default. cbn [lmode lout]. rewrite (punct_not_ws c Hp), Hp. reflexivity. Qed.
Lemma lrun_ws w out : forallb is_ws w = true -> lrun (LS MDefault out) w = LS MDefault out.
Proof.
  induction w as [|c w IH]; intros H; [reflexivity|]. cbn [forallb] in H. apply andb_prop in H as [Hc Hw].
  rewrite lrun_cons, step_default. unfold start_default. rewrite Hc. apply IH. assumption.
Qed.

Definition wf_id (w : text) : Prop :=
  match w with c :: w' => is_id_start c = true /\ forallb is_id_char w' = true | [] => False end.
Definition wf_num (w : text) : Prop :=
  match w with c :: w' => num_start c = true /\ forallb is_num_char w' = true | [] => False end.

Lemma lrun_ident_body w acc out rest : forallb is_id_char w = true ->
  lrun (LS (MIdent acc) out) (w ++ rest) = lrun (LS (MIdent (rev w ++ acc)) out) rest.
Proof.
  revert acc. induction w as [|c w IH]; intros acc H; [reflexivity|]. cbn [forallb] in H. apply andb_prop in H as [Hc Hw].
  cbn [app]. rewrite lrun_cons. unfold lstep at 1. cbn [lmode lout]. rewrite Hc. rewrite IH by assumption.
  cbn [rev]. rewrite <- app_assoc. reflexivity.
Qed.
Lemma lrun_ident w out rest : wf_id w -> starts_delim rest ->
  lrun (LS MDefault out) (w ++ rest) = lrun (LS MDefault (TId w :: out)) rest.
Proof.
  destruct w as [|c w]; [intros []|]. intros [Hc Hw] Hd. cbn [app]. rewrite lrun_cons, step_default.
  unfold start_default. rewrite (idstart_not_ws c Hc), (idstart_not_punct c Hc), Hc.
  rewrite lrun_ident_body by assumption. destruct rest as [|d rest]; [contradiction|]. cbn in Hd.
  rewrite !lrun_cons. unfold lstep at 1. cbn [lmode lout]. rewrite (delim_not_idchar d Hd).
  rewrite rev_app_distr. cbn [rev app]. rewrite rev_involutive. reflexivity.
Qed.
Lemma lrun_num_body w acc out rest : forallb is_num_char w = true ->
  lrun (LS (MNum acc) out) (w ++ rest) = lrun (LS (MNum (rev w ++ acc)) out) rest.
Proof.
  revert acc. induction w as [|c w IH]; intros acc H; [reflexivity|]. cbn [forallb] in H. apply andb_prop in H as [Hc Hw].
  cbn [app]. rewrite lrun_cons. unfold lstep at 1. cbn [lmode lout]. rewrite Hc. rewrite IH by assumption.
  cbn [rev]. rewrite <- app_assoc. reflexivity.
Qed.
Lemma lrun_num w out rest : wf_num w -> starts_delim rest ->
  lrun (LS MDefault out) (w ++ rest) = lrun (LS MDefault (TNum w :: out)) rest.
Proof.
  destruct w as [|c w]; [intros []|]. intros [Hc Hw] Hd. cbn [app]. rewrite lrun_cons, step_default.
  destruct (numstart_facts c Hc) as (H1 & H2 & H3). unfold start_default. rewrite H1, H2, H3.
  replace (is_digit c || (c =? 45) || (c =? 46)) with true by (symmetry; exact Hc).
  rewrite lrun_num_body by assumption. destruct rest as [|d rest]; [contradiction|]. cbn in Hd.
  rewrite !lrun_cons. unfold lstep at 1. cbn [lmode lout]. rewrite (delim_not_numchar d Hd), (delim_not_idstart d Hd).
  rewrite rev_app_distr. cbn [rev app]. rewrite rev_involutive. reflexivity.
Qed.

(* strings: for every string of code points *)
Lemma lrun_esc_char acc out c : lrun (LS (MStr acc) out) (esc_char c) = LS (MStr (c :: acc)) out.
Proof.
  unfold esc_char.
  destruct (N.eqb_spec c 92) as [-> | H92]; [reflexivity|].
  destruct (N.eqb_spec c 34) as [-> | H34]; [reflexivity|].
  destruct (N.eqb_spec c 10) as [-> | H10]; [reflexivity|].
  destruct (N.eqb_spec c 9) as [-> | H9]; [reflexivity|].
  destruct (N.eqb_spec c 13) as [-> | H13]; [reflexivity|].
  cbn. unfold lstep. cbn [lmode lout].
  destruct (N.eqb_spec c 34); [contradiction|]. destruct (N.eqb_spec c 92); [contradiction|].
  destruct (N.eqb_spec c 10); [contradiction|]. reflexivity.
Qed.
Lemma lrun_esc_string s acc out : lrun (LS (MStr acc) out) (flat_map esc_char s) = LS (MStr (rev s ++ acc)) out.
Proof.
  revert acc. induction s as [|c s IH]; intros acc; [reflexivity|].
  cbn [flat_map]. rewrite lrun_app, lrun_esc_char, IH. cbn [rev]. rewrite <- app_assoc. reflexivity.
Qed.
Theorem string_readback (s : text) out :
  lrun (LS MDefault out) ([34] ++ flat_map esc_char s ++ [34]) = LS MDefault (TStr s :: out).
Proof.
  rewrite lrun_app. change (lrun (LS MDefault out) [34]) with (LS (MStr []) out).
  rewrite lrun_app, lrun_esc_string. cbn. rewrite app_nil_r, rev_involutive. reflexivity.
Qed.

(* ---- token streams of spaced values ---- *)
Fixpoint t_expr (e : sexpr) : list token :=
  match e with
  | SNum l => [TNum l] | SStr s => [TStr s] | SId s => [TId s]
  | SVec _ l => TP 91 :: (fix go (l : list sexpr) : list token :=
                            match l with [] => [] | [x] => t_expr x | x :: tl => t_expr x ++ TP 44 :: go tl end) l ++ [TP 93]
  end.
Definition t_elems : list sexpr -> list token :=
  fix go (l : list sexpr) : list token := match l with [] => [] | [x] => t_expr x | x :: tl => t_expr x ++ TP 44 :: go tl end.
Lemma t_expr_vec sep l : t_expr (SVec sep l) = TP 91 :: t_elems l ++ [TP 93]. Proof. reflexivity. Qed.

Definition wf_sep (sep : text) : Prop := match sep with c :: w => c = 44 /\ forallb is_ws w = true | [] => False end.
Fixpoint wf_sexpr (e : sexpr) : Prop :=
  match e with
  | SNum l => wf_num l
  | SStr _ => True
  | SId s => wf_id s
  | SVec sep l => wf_sep sep /\ (fix all (l : list sexpr) : Prop := match l with [] => True | x :: tl => wf_sexpr x /\ all tl end) l
  end.
Definition wf_list : list sexpr -> Prop :=
  fix all (l : list sexpr) : Prop := match l with [] => True | x :: tl => wf_sexpr x /\ all tl end.

Lemma lrun_sep sep out rest : wf_sep sep -> lrun (LS MDefault out) (sep ++ rest) = lrun (LS MDefault (TP 44 :: out)) rest.
Proof.
  destruct sep as [|c w]; [intros []|]. intros [-> Hw]. cbn [app]. rewrite lrun_cons.
  change (lstep (LS MDefault out) 44) with (LS MDefault (TP 44 :: out)). rewrite lrun_app, lrun_ws by assumption. reflexivity.
Qed.
Lemma sep_starts_delim sep rest : wf_sep sep -> starts_delim (sep ++ rest).
Proof. destruct sep as [|c w]; [intros []|]. intros [-> _]. reflexivity. Qed.

Section ExprInd.
  Variable P : sexpr -> Prop.
  Hypothesis Hn : forall l, P (SNum l).
  Hypothesis Hs : forall s, P (SStr s).
  Hypothesis Hi : forall s, P (SId s).
  Hypothesis Hv : forall sep l, Forall P l -> P (SVec sep l).
  Fixpoint sexpr_ind' (e : sexpr) : P e :=
    match e with
    | SNum l => Hn l | SStr s => Hs s | SId s => Hi s
    | SVec sep l => Hv sep l ((fix go (l : list sexpr) : Forall P l :=
                                match l with [] => Forall_nil _ | x :: tl => Forall_cons x (sexpr_ind' x) (go tl) end) l)
    end.
End ExprInd.

Theorem lex_expr : forall e, wf_sexpr e -> forall out rest, starts_delim rest ->
  lrun (LS MDefault out) (r_expr e ++ rest) = lrun (LS MDefault (rev (t_expr e) ++ out)) rest.
Proof.
  induction e as [l | s | s | sep l IH] using sexpr_ind'; intros Hwf out rest Hd.
  - cbn [r_expr t_expr rev app]. apply lrun_num; assumption.
  - change (r_expr (SStr s)) with ([34] ++ flat_map esc_char s ++ [34]). rewrite lrun_app, string_readback. reflexivity.
  - cbn [r_expr t_expr rev app]. apply lrun_ident; assumption.
  - destruct Hwf as [Hsep Hall]. fold wf_list in Hall. cbn [r_expr]. rewrite t_expr_vec.
    cbn [app]. rewrite lrun_cons. change (lstep (LS MDefault out) 91) with (LS MDefault (TP 91 :: out)).
    rewrite <- app_assoc.
    assert (G : forall l, Forall (fun e => wf_sexpr e -> forall out rest, starts_delim rest ->
                  lrun (LS MDefault out) (r_expr e ++ rest) = lrun (LS MDefault (rev (t_expr e) ++ out)) rest) l ->
                wf_list l -> forall out rest, starts_delim rest ->
                lrun (LS MDefault out) (join sep (map r_expr l) ++ rest) = lrun (LS MDefault (rev (t_elems l) ++ out)) rest).
    { clear IH Hall l. induction l as [|x l IHl]; intros HF Hw out0 rest0 Hd0; [reflexivity|].
      inversion HF as [|? ? Hx HF']; subst. destruct Hw as [Hwx Hwl]. destruct l as [|y l].
      - cbn [map join t_elems]. apply Hx; assumption.
      - cbn [map join]. change (t_elems (x :: y :: l)) with (t_expr x ++ TP 44 :: t_elems (y :: l)).
        rewrite <- !app_assoc. rewrite Hx; [|assumption|apply sep_starts_delim; assumption].
        rewrite lrun_sep by assumption. change (map r_expr (y :: l)) with (map r_expr (y :: l)).
        rewrite (IHl HF' Hwl) by assumption. rewrite rev_app_distr. cbn [rev]. rewrite <- !app_assoc. reflexivity. }
    rewrite (G l IH Hall) by reflexivity. cbn [app]. rewrite lrun_cons.
    match goal with |- lrun (lstep (LS MDefault ?o) 93) _ = _ => change (lstep (LS MDefault o) 93) with (LS MDefault (TP 93 :: o)) end.
    cbn [rev]. rewrite !rev_app_distr. cbn [rev app]. rewrite <- !app_assoc. reflexivity.
Qed.

(* ---- arguments, headers, trees ---- *)
Definition t_arg (a : sarg) : list token :=
  match a with (Some n, e) => TId n :: TP 61 :: t_expr e | (None, e) => t_expr e end.
Definition t_args : list sarg -> list token :=
  fix go (l : list sarg) : list token := match l with [] => [] | [x] => t_arg x | x :: tl => t_arg x ++ TP 44 :: go tl end.
Definition t_head (name : text) (args : list sarg) : list token := TId name :: TP 40 :: t_args args ++ [TP 41].

Definition wf_arg (a : sarg) : Prop := match a with (Some n, e) => wf_id n /\ wf_sexpr e | (None, e) => wf_sexpr e end.

Lemma lex_arg a : wf_arg a -> forall out rest, starts_delim rest ->
  lrun (LS MDefault out) (r_arg a ++ rest) = lrun (LS MDefault (rev (t_arg a) ++ out)) rest.
Proof.
  destruct a as [[n|] e]; cbn [wf_arg r_arg t_arg]; intros Hw out rest Hd.
  - destruct Hw as [Hn He]. rewrite <- !app_assoc. rewrite lrun_ident by (assumption || reflexivity).
    cbn [app]. rewrite lrun_cons. change (lstep (LS MDefault (TId n :: out)) 61) with (LS MDefault (TP 61 :: TId n :: out)).
    rewrite lex_expr by assumption. cbn [rev]. rewrite <- !app_assoc. reflexivity.
  - apply lex_expr; assumption.
Qed.

Lemma comma_sp_wf : wf_sep comma_sp. Proof. split; reflexivity. Qed.
Lemma comma_wf : wf_sep comma. Proof. split; reflexivity. Qed.

Lemma lex_args l : Forall wf_arg l -> forall out rest, starts_delim rest ->
  lrun (LS MDefault out) (join comma_sp (map r_arg l) ++ rest) = lrun (LS MDefault (rev (t_args l) ++ out)) rest.
Proof.
  induction l as [|x l IH]; intros HF out rest Hd; [reflexivity|]. inversion HF as [|? ? Hx HF']; subst.
  destruct l as [|y l].
  - cbn [map join t_args]. apply lex_arg; assumption.
  - cbn [map join]. change (t_args (x :: y :: l)) with (t_arg x ++ TP 44 :: t_args (y :: l)).
    rewrite <- !app_assoc. rewrite lex_arg; [|assumption|apply sep_starts_delim; apply comma_sp_wf].
    rewrite lrun_sep by apply comma_sp_wf. rewrite (IH HF') by assumption.
    rewrite rev_app_distr. cbn [rev]. rewrite <- !app_assoc. reflexivity.
Qed.

Lemma lex_head name args : wf_id name -> Forall wf_arg args -> forall out rest,
  lrun (LS MDefault out) (r_head name args ++ rest) = lrun (LS MDefault (rev (t_head name args) ++ out)) rest.
Proof.
  intros Hn Ha out rest. unfold r_head, t_head. rewrite <- !app_assoc. rewrite lrun_ident by (assumption || reflexivity).
  cbn [app]. rewrite lrun_cons. change (lstep (LS MDefault (TId name :: out)) 40) with (LS MDefault (TP 40 :: TId name :: out)).
  rewrite lex_args by (assumption || reflexivity). cbn [app]. rewrite lrun_cons.
  match goal with |- lrun (lstep (LS MDefault ?o) 41) _ = _ => change (lstep (LS MDefault o) 41) with (LS MDefault (TP 41 :: o)) end.
  cbn [rev]. rewrite !rev_app_distr. cbn [rev app]. rewrite <- !app_assoc. reflexivity.
Qed.

(* decimal printing of N gives a number literal *)
Lemma dec_digits_all fuel : forall n acc, forallb is_digit acc = true -> forallb is_digit (dec_digits_fuel fuel n acc) = true.
Proof.
  induction fuel as [|f IH]; intros n acc Ha; [assumption|]. cbn [dec_digits_fuel].
  assert (Hd : is_digit (48 + n mod 10) = true).
  { unfold is_digit. pose proof (N.mod_upper_bound n 10 ltac:(lia)). lia. }
  destruct (n <? 10); [cbn [forallb]; rewrite Hd; assumption|]. apply IH. cbn [forallb]. rewrite Hd. assumption.
Qed.
Lemma dec_digits_suffix fuel : forall n acc, exists pre, dec_digits_fuel fuel n acc = pre ++ acc /\ (fuel <> O -> pre <> []).
Proof.
  induction fuel as [|f IH]; intros n acc; [exists []; split; [reflexivity|intros H; contradiction]|].
  cbn [dec_digits_fuel]. destruct (n <? 10).
  - exists [48 + n mod 10]. split; [reflexivity|discriminate].
  - destruct (IH (n / 10) ((48 + n mod 10) :: acc)) as [pre [Hp _]].
    exists (pre ++ [48 + n mod 10]). split; [rewrite Hp, <- app_assoc; reflexivity|].
    intros _ E. apply app_eq_nil in E as [_ E]. discriminate.
Qed.
Lemma dec_of_N_wf n : wf_num (dec_of_N n).
Proof.
  unfold dec_of_N. set (fuel := S (N.to_nat (N.log2 n))).
  destruct (dec_digits_suffix fuel n []) as [pre [Hp Hne]]. rewrite app_nil_r in Hp.
  pose proof (dec_digits_all fuel n [] eq_refl) as Hd. rewrite Hp in *.
  destruct pre as [|c w]; [exfalso; apply Hne; [discriminate|reflexivity]|].
  cbn [forallb] in Hd. apply andb_prop in Hd as [Hc Hw]. split.
  - unfold num_start. rewrite Hc. reflexivity.
  - clear -Hw. induction w as [|x w IH]; [reflexivity|]. cbn [forallb] in *. apply andb_prop in Hw as [Hx Hw].
    rewrite IH by assumption. unfold is_num_char. rewrite Hx. reflexivity.
Qed.
Lemma bool_text_wf b : wf_id (bool_text b). Proof. destruct b; split; reflexivity. Qed.
