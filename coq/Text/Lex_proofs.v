(* Text/Lex_proofs.v -- facts about the lexer automaton. Axiom-free. *)
From Coq Require Import NArith List Bool Lia.
From SCAD Require Import Text.Chars Text.Lex Text.Emit.
Import ListNotations.
Local Open Scope N_scope.

Lemma lrun_app s a b : lrun s (a ++ b) = lrun (lrun s a) b.
Proof. unfold lrun. apply fold_left_app. Qed.

(* string escaping: the lexer reads an escaped string back as the same code points, for every string *)
Lemma lrun_esc_char acc out c :
  lrun (LS (MStr acc) out) (esc_char c) = LS (MStr (c :: acc)) out.
Proof.
  unfold esc_char.
  destruct (N.eqb_spec c 92) as [-> | H92]; [reflexivity|].
  destruct (N.eqb_spec c 34) as [-> | H34]; [reflexivity|].
  destruct (N.eqb_spec c 10) as [-> | H10]; [reflexivity|].
  destruct (N.eqb_spec c 9) as [-> | H9]; [reflexivity|].
  destruct (N.eqb_spec c 13) as [-> | H13]; [reflexivity|].
  cbn. unfold lstep. cbn [lmode lout].
  destruct (N.eqb_spec c 34); [contradiction|]. destruct (N.eqb_spec c 92); [contradiction|].
  destruct (N.eqb_spec c 10); [contradiction|]. reflexivity.
Qed.

Lemma lrun_esc_string s acc out :
  lrun (LS (MStr acc) out) (flat_map esc_char s) = LS (MStr (rev s ++ acc)) out.
Proof.
  revert acc. induction s as [|c s IH]; intros acc; [reflexivity|].
  cbn [flat_map]. rewrite lrun_app, lrun_esc_char, IH. cbn [rev]. rewrite <- app_assoc. reflexivity.
Qed.

(* a quoted, escaped string lexes to exactly one string token holding the original code points *)
Theorem string_readback (s : text) out :
  lrun (LS MDefault out) ([34] ++ flat_map esc_char s ++ [34]) = LS MDefault (TStr s :: out).
Proof.
  rewrite lrun_app. change (lrun (LS MDefault out) [34]) with (LS (MStr []) out).
  rewrite lrun_app, lrun_esc_string. cbn. rewrite app_nil_r, rev_involutive. reflexivity.
Qed.
