(* Text/Parse_proofs.v -- the parser inverts the token printer: for every well-formed tree the token stream
   parses to exactly the statement of the tree. Axiom-free. *)
From Coq Require Import NArith String List Bool Lia Arith.
From SCAD Require Import Text.Chars Text.Tree Text.Lex Text.Parse Text.Emit Text.Lex_proofs Text.Emit_proofs.
Import ListNotations.

Fixpoint erase (e : sexpr) : expr :=
  match e with
  | SNum l => ENum l | SStr s => EStr s | SId s => EId s
  | SVec _ l => EVec (map erase l)
  end.
Definition erase_arg (a : sarg) : option text * expr := (fst a, erase (snd a)).

Lemma t_expr_nonempty e : t_expr e <> [].
Proof. destruct e; discriminate. Qed.
Lemma t_expr_not_rb e r : match t_expr e ++ r with TP c :: _ => N.eqb c RB = false | _ => True end.
Proof. destruct e; cbn; try exact I. reflexivity. Qed.
Lemma t_elems_cons x y l : t_elems (x :: y :: l) = t_expr x ++ TP 44 :: t_elems (y :: l). Proof. reflexivity. Qed.
Lemma t_elems_one x : t_elems [x] = t_expr x. Proof. reflexivity. Qed.
Lemma t_elems_length x l : (List.length (t_expr x) <= List.length (t_elems (x :: l)))%nat.
Proof. destruct l; [rewrite t_elems_one; lia|rewrite t_elems_cons, app_length; lia]. Qed.

Theorem parse_expr : forall e fuel rest, (length (t_expr e) <= fuel)%nat ->
  p_expr fuel (t_expr e ++ rest) = Some (erase e, rest).
Proof.
  induction e as [l | s | s | sep l IH] using sexpr_ind'; intros fuel rest Hf.
  - destruct fuel; [cbn in Hf; lia|]. reflexivity.
  - destruct fuel; [cbn in Hf; lia|]. reflexivity.
  - destruct fuel; [cbn in Hf; lia|]. reflexivity.
  - rewrite t_expr_vec in *. destruct fuel as [|f]; [cbn in Hf; lia|].
    cbn [app p_expr]. change (N.eqb 91 LB) with true. cbv iota.
    destruct l as [|x l].
    + cbn [t_elems app]. change (N.eqb 93 RB) with true. reflexivity.
    + (* non-empty: the token after '[' is not ']' *)
      assert (G : forall l0 acc f0 rest0, l0 <> [] -> Forall (fun e => forall fuel rest, (length (t_expr e) <= fuel)%nat ->
                    p_expr fuel (t_expr e ++ rest) = Some (erase e, rest)) l0 ->
                  (length (t_elems l0) + 1 <= f0)%nat ->
                  p_elems f0 (t_elems l0 ++ TP 93 :: rest0) acc = Some (EVec (rev acc ++ map erase l0), rest0)).
      { clear. induction l0 as [|x l0 IHl]; intros acc f0 rest0 Hne HF Hf0; [contradiction|].
        inversion HF as [|? ? Hx HF']; subst. destruct f0 as [|f1]; [lia|]. cbn [p_elems].
        destruct l0 as [|y l0].
        - rewrite t_elems_one in *. rewrite Hx by lia.
          change (N.eqb 93 COMMA) with false. change (N.eqb 93 RB) with true. cbv iota.
          reflexivity.
        - rewrite t_elems_cons in *. rewrite <- app_assoc. rewrite app_length in Hf0. cbn [length] in Hf0.
          rewrite Hx by lia. cbn [app]. change (N.eqb 44 COMMA) with true. cbv iota.
          pose proof (t_expr_nonempty x) as Hnx. destruct (t_expr x) eqn:Ex; [contradiction|]. cbn [length] in Hf0.
          rewrite IHl; [|discriminate|assumption|lia]. cbn [rev map]. rewrite <- app_assoc. reflexivity. }
      pose proof (t_expr_not_rb x (match l with [] => [] | _ => TP 44 :: t_elems l end ++ [TP 93] ++ rest)) as Hnr.
      assert (Hsplit : (t_elems (x :: l) ++ [TP 93]) ++ rest = t_expr x ++ (match l with [] => [] | _ => TP 44 :: t_elems l end ++ [TP 93] ++ rest)).
      { destruct l; [rewrite t_elems_one|rewrite t_elems_cons]; rewrite <- !app_assoc; reflexivity. }
      cbn [List.length] in Hf. rewrite app_length in Hf. cbn [List.length] in Hf.
      assert (Hgo : p_elems f ((t_elems (x :: l) ++ [TP 93]) ++ rest) [] = Some (EVec (map erase (x :: l)), rest)).
      { rewrite <- app_assoc. cbn [app]. rewrite (G (x :: l) [] f rest); [reflexivity|discriminate|assumption|lia]. }
      rewrite Hsplit in *. destruct (t_expr x ++ _) as [|tk tl] eqn:E.
      * exfalso. apply app_eq_nil in E as [E _]. apply (t_expr_nonempty x E).
      * destruct tk as [s0|s0|s0|c]; try exact Hgo. rewrite Hnr. exact Hgo.
Qed.

(* ---- arguments ---- *)
Definition arg_follow (rest : list token) : Prop := match rest with TP c :: _ => c = 44%N \/ c = 41%N | _ => False end.

Lemma parse_arg a fuel rest : (length (t_arg a) <= fuel)%nat -> arg_follow rest ->
  p_arg fuel (t_arg a ++ rest) = Some (erase_arg a, rest).
Proof.
  destruct a as [[n|] e]; unfold erase_arg; cbn [t_arg fst snd]; intros Hf Hr.
  - cbn [app p_arg]. change (N.eqb 61 EQ) with true. cbv iota. cbn [length] in Hf. rewrite parse_expr by lia. reflexivity.
  - unfold p_arg. pose proof (parse_expr e fuel rest Hf) as Hp.
    destruct e as [l|s|s|sep l]; cbn [t_expr app] in *; try (rewrite Hp; reflexivity).
    + destruct rest as [|[ | | |c] rest]; try contradiction. destruct Hr as [-> | ->]; cbn; rewrite Hp; reflexivity.
Qed.

Lemma t_arg_nonempty a : t_arg a <> []. Proof. destruct a as [[n|] e]; [discriminate|apply t_expr_nonempty]. Qed.
Lemma t_args_cons x y l : t_args (x :: y :: l) = t_arg x ++ TP 44 :: t_args (y :: l). Proof. reflexivity. Qed.

Lemma parse_args : forall l acc fuel rest, l <> [] -> (length (t_args l) + 1 <= fuel)%nat ->
  p_args fuel (t_args l ++ TP 41 :: rest) acc = Some (rev acc ++ map erase_arg l, rest).
Proof.
  induction l as [|x l IH]; intros acc fuel rest Hne Hf; [contradiction|].
  destruct fuel as [|f]; [lia|]. cbn [p_args]. destruct l as [|y l].
  - change (t_args [x]) with (t_arg x) in *. rewrite parse_arg; [|lia|right; reflexivity].
    change (N.eqb 41 COMMA) with false. change (N.eqb 41 RP) with true. cbv iota. reflexivity.
  - rewrite t_args_cons in *. rewrite <- app_assoc. rewrite app_length in Hf. cbn [length] in Hf.
    rewrite parse_arg; [|lia|left; reflexivity]. cbn [app]. change (N.eqb 44 COMMA) with true. cbv iota.
    pose proof (t_arg_nonempty x). destruct (t_arg x); [contradiction|]. cbn [length] in Hf.
    rewrite IH; [|discriminate|lia]. cbn [rev map]. rewrite <- app_assoc. reflexivity.
Qed.

Lemma t_args_first_not_rp l r : l <> [] -> match t_args l ++ r with TP c :: _ => N.eqb c RP = false | _ => True end.
Proof.
  destruct l as [|[[n|] e] l]; [contradiction|..]; intros _.
  - destruct l; exact I.
  - destruct l; [change (t_args [(None, e)]) with (t_expr e)|rewrite t_args_cons; cbn [t_arg]; rewrite <- app_assoc];
      destruct e; cbn; try exact I; reflexivity.
Qed.

Lemma parse_arglist l fuel rest : (length (t_args l) + 1 <= fuel)%nat ->
  p_arglist fuel (t_args l ++ TP 41 :: rest) = Some (map erase_arg l, rest).
Proof.
  intros Hf. unfold p_arglist. destruct l as [|x l].
  - cbn [t_args app]. change (N.eqb 41 RP) with true. reflexivity.
  - pose proof (t_args_first_not_rp (x :: l) (TP 41 :: rest) ltac:(discriminate)) as Hn.
    pose proof (parse_args (x :: l) [] fuel rest ltac:(discriminate) Hf) as Hp. cbn [rev app] in Hp.
    destruct (t_args (x :: l) ++ TP 41 :: rest) as [|[ | | |c] tl]; try exact Hp. rewrite Hn. exact Hp.
Qed.

(* ---- trees ---- *)
Section PT.
  Variables num str : Type.
  Variable fmt : num -> text.
  Variable chars : str -> text.
  Notation scad := (scad num str).
  Notation t_tree := (t_tree num str fmt chars).
  Notation args_of := (args_of num str fmt chars).

  Fixpoint stmt_of (t : scad) : stmt :=
    match t with Node o cs => Inst (s2t (op_ident num str o)) (map erase_arg (args_of o)) (map stmt_of cs) end.

  Lemma t_tree_length_pos t : (3 <= length (t_tree t))%nat.
  Proof. destruct t as [o cs]. cbn [Emit_proofs.t_tree]. unfold t_head. rewrite app_length. cbn [length]. rewrite app_length. cbn [length]. lia. Qed.

  Theorem parse_tree : forall t, wf t = true -> forall fuel rest, (length (t_tree t) <= fuel)%nat ->
    p_inst fuel (t_tree t ++ rest) = Some (stmt_of t, rest).
  Proof.
    induction t as [o cs IH] using scad_ind'. intros Hwf fuel rest Hf.
    cbn [wf] in Hwf. apply andb_prop in Hwf as [Hwf Hcs]. apply andb_prop in Hwf as [Hc Hleaf].
    cbn [Emit_proofs.t_tree stmt_of] in *. unfold t_head in *. rewrite !app_length in Hf. cbn [length] in Hf. rewrite app_length in Hf. cbn [length] in Hf.
    destruct fuel as [|f]; [lia|]. cbn [app p_inst]. change (N.eqb 40 LP) with true. cbv iota.
    rewrite <- !app_assoc. cbn [app]. rewrite parse_arglist by lia.
    destruct (is_leaf_op o) eqn:El.
    - destruct cs as [|c cs]; [|discriminate]. cbn [app map]. change (N.eqb 59 SEMI) with true. reflexivity.
    - cbn [app]. change (N.eqb 123 SEMI) with false. change (N.eqb 123 LC) with true. cbv iota.
      cbn [length] in Hf. rewrite app_length in Hf. cbn [length] in Hf.
      assert (G : forall l acc f0 rest0, Forall (fun t => wf t = true -> forall fuel rest, (length (t_tree t) <= fuel)%nat ->
                       p_inst fuel (t_tree t ++ rest) = Some (stmt_of t, rest)) l -> forallb (@wf num str) l = true ->
                    (length (flat_map t_tree l) + 1 <= f0)%nat ->
                    p_block f0 (flat_map t_tree l ++ TP 125 :: rest0) acc = Some (rev acc ++ map stmt_of l, rest0)).
      { clear. induction l as [|x l IHl]; intros acc f0 rest0 HF Hw Hf0.
        - destruct f0; [cbn in Hf0; lia|]. cbn. change (N.eqb 125 RC) with true. rewrite app_nil_r. reflexivity.
        - inversion HF as [|? ? Hx HF']; subst. cbn [forallb] in Hw. apply andb_prop in Hw as [Hwx Hwl].
          cbn [flat_map] in *. rewrite app_length in Hf0. destruct f0 as [|f1]; [lia|]. rewrite <- app_assoc.
          pose proof (t_tree_length_pos x) as Hpos.
          assert (Hhd : exists nm tl, t_tree x = TId nm :: tl) by (destruct x as [o' cs']; cbn [Emit_proofs.t_tree]; unfold t_head; eexists; eexists; reflexivity).
          destruct Hhd as [nm [tl Ehd]].
          assert (Hb : forall X, p_block (S f1) (t_tree x ++ X) acc =
                       match p_inst f1 (t_tree x ++ X) with Some (s, r) => p_block f1 r (s :: acc) | None => None end)
            by (intros X; rewrite Ehd; reflexivity).
          rewrite Hb. rewrite (Hx Hwx f1) by lia. rewrite IHl; [|assumption|assumption|lia]. cbn [rev map]. rewrite <- app_assoc. reflexivity. }
      rewrite <- app_assoc. cbn [app]. rewrite (G cs [] f rest IH Hcs) by lia. reflexivity.
  Qed.

  Theorem parse_program_trees : forall ts, forallb (@wf num str) ts = true ->
    parse_tokens (flat_map t_tree ts) = Some (map (fun t => TInst (stmt_of t)) ts).
  Proof.
    intros ts Hw. unfold parse_tokens.
    assert (G : forall l acc fuel, forallb (@wf num str) l = true -> (length (flat_map t_tree l) < fuel)%nat ->
              p_program fuel (flat_map t_tree l) acc = Some (rev acc ++ map (fun t => TInst (stmt_of t)) l)).
    { induction l as [|t l IH]; intros acc fuel Hwl Hf.
      - destruct fuel; [lia|]. cbn. rewrite app_nil_r. reflexivity.
      - cbn [forallb] in Hwl. apply andb_prop in Hwl as [Hwt Hwl]. cbn [flat_map] in *. rewrite app_length in Hf.
        destruct fuel as [|f]; [lia|]. cbn [p_program].
        pose proof (parse_tree t Hwt f (flat_map t_tree l) ltac:(lia)) as Hp.
        destruct t as [o cs]. cbn [Emit_proofs.t_tree] in *. unfold t_head in *. cbn [app] in *.
        change (N.eqb 40 EQ) with false. cbv iota. rewrite Hp. rewrite IH; [|assumption|].
        + cbn [rev map]. rewrite <- app_assoc. reflexivity.
        + cbn [length] in Hf. lia. }
    rewrite (G ts [] (S (length (flat_map t_tree ts))) Hw ltac:(lia)). reflexivity.
  Qed.
End PT.
