(* Text/FileModel.v -- what Scad::save and the scad_file! arms write (C13). The arms come from
   Gen/ScadFile.v, regenerated from the source on every run. *)
From Coq Require Import NArith List String Bool.
From SCAD Require Import Text.Chars Gen.ScadFile.
Import ListNotations.
Local Open Scope string_scope. Local Open Scope list_scope.

Definition arm := (list (string * string) * list (string * string))%type.

Fixpoint str_list_eqb (a b : list (string * string)) : bool :=
  match a, b with
  | [], [] => true
  | (x1, x2) :: a', (y1, y2) :: b' => String.eqb x1 y1 && String.eqb x2 y2 && str_list_eqb a' b'
  | _, _ => false
  end.

(* an arm is right when it writes, for each setting keyword k=$v of its pattern and in that order,
   exactly one line `$k=<value of $v>;` and no other header line *)
Definition arm_ok (a : arm) : bool :=
  str_list_eqb (map (fun kv => (("$" ++ fst kv)%string, snd kv)) (fst a)) (snd a).

(* the documented forms: no settings, fa, fs, fa+fs (in that order), fn *)
Definition documented_forms : list (list string) := [["fa"; "fs"]; ["fn"]; ["fs"]; ["fa"]; []].
Definition arm_keywords (a : arm) : list string := map fst (fst a).
Fixpoint kw_eqb (a b : list string) : bool :=
  match a, b with [], [] => true | x :: a', y :: b' => String.eqb x y && kw_eqb a' b' | _, _ => false end.
Definition forms_covered : bool :=
  forallb (fun f => existsb (fun a => kw_eqb (arm_keywords a) f) scad_file_arms) documented_forms &&
  forallb (fun a => existsb (fun f => kw_eqb (arm_keywords a) f) documented_forms) scad_file_arms.

(* macro_rules! takes the first arm whose keywords are the call's keywords *)
Definition select_arm (kws : list string) : option arm :=
  find (fun a => kw_eqb (arm_keywords a) kws) scad_file_arms.

Fixpoint lookup_lit (mv : string) (env : list (string * text)) : text :=
  match env with [] => [] | (k, v) :: tl => if String.eqb k mv then v else lookup_lit mv tl end.

(* settings: (keyword, literal Rust prints for the value); body: the emission of the children *)
Definition file_content (settings : list (string * text)) (body : text) : option text :=
  match select_arm (map fst settings) with
  | None => None
  | Some a =>
      let env := map (fun kv => (snd kv, lookup_lit (fst kv) settings)) (fst a) in   (* metavariable -> literal *)
      Some (flat_map (fun w => s2t (fst w) ++ s2t "=" ++ lookup_lit (snd w) env ++ s2t ";" ++ [10%N]) (snd a) ++ body)
  end.
