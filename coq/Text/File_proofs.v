(* Text/File_proofs.v -- C13 facts about the regenerated arms. Axiom-free. *)
From Coq Require Import NArith List String Bool.
From SCAD Require Import Text.Chars Gen.ScadFile Text.FileModel.
Import ListNotations.
Local Open Scope string_scope. Local Open Scope list_scope.

Lemma all_arms_ok : forallb arm_ok scad_file_arms = true.
Proof. vm_compute. reflexivity. Qed.
Lemma forms_are_covered : forms_covered = true.
Proof. vm_compute. reflexivity. Qed.

(* for each documented form: exactly the header lines of that form, in the documented order, then the body and nothing else *)
Lemma content_none body : file_content [] body = Some body.
Proof. reflexivity. Qed.
Lemma content_fa v body : file_content [("fa", v)] body = Some (s2t "$fa=" ++ v ++ s2t ";" ++ [10%N] ++ body).
Proof. cbn. rewrite ?app_nil_r, <- ?app_assoc. cbn. rewrite <- ?app_assoc. reflexivity. Qed.
Lemma content_fs v body : file_content [("fs", v)] body = Some (s2t "$fs=" ++ v ++ s2t ";" ++ [10%N] ++ body).
Proof. cbn. rewrite ?app_nil_r, <- ?app_assoc. cbn. rewrite <- ?app_assoc. reflexivity. Qed.
Lemma content_fn v body : file_content [("fn", v)] body = Some (s2t "$fn=" ++ v ++ s2t ";" ++ [10%N] ++ body).
Proof. cbn. rewrite ?app_nil_r, <- ?app_assoc. cbn. rewrite <- ?app_assoc. reflexivity. Qed.
Lemma content_fa_fs a s body :
  file_content [("fa", a); ("fs", s)] body =
  Some (s2t "$fa=" ++ a ++ s2t ";" ++ [10%N] ++ s2t "$fs=" ++ s ++ s2t ";" ++ [10%N] ++ body).
Proof. cbn. rewrite ?app_nil_r, <- ?app_assoc. cbn. rewrite <- ?app_assoc. reflexivity. Qed.
