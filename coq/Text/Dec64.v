(* Text/Dec64.v -- a decimal literal to the nearest binary64 (ties to even), exactly, in Z. *)
From Coq Require Import ZArith NArith List Floats Bool.
From SCAD Require Import Text.Chars Base.NumF.
Import ListNotations.
Local Open Scope Z_scope.

(* literal := ['-'] digits ['.' digits] [('e'|'E') ['+'|'-'] digits] ; at least one digit in the mantissa *)
Fixpoint take_digits (t : text) (acc : Z) (n : Z) : Z * Z * text :=   (* value, count, rest *)
  match t with
  | c :: r => if is_digit c then take_digits r (acc * 10 + (Z.of_N c - 48)) (n + 1) else (acc, n, t)
  | [] => (acc, n, [])
  end.

Definition parse_decimal (t : text) : option (bool * Z * Z) :=   (* negative, mantissa, exponent10 *)
  let '(neg, t1) := match t with c :: r => if N.eqb c 45 then (true, r) else (false, t) | [] => (false, t) end in
  let '(ip, ni, t2) := take_digits t1 0 0 in
  let '(m, nf, t3) := match t2 with
                      | c :: r => if N.eqb c 46 then (let '(v, n, r') := take_digits r ip 0 in (v, n, r')) else (ip, 0, t2)
                      | [] => (ip, 0, t2)
                      end in
  if (ni + nf =? 0) then None else
  match t3 with
  | [] => Some (neg, m, - nf)
  | c :: r =>
      if (N.eqb c 101 || N.eqb c 69)%bool then
        let '(eneg, r1) := match r with c' :: r' => if N.eqb c' 45 then (true, r') else if N.eqb c' 43 then (false, r') else (false, r) | [] => (false, r) end in
        let '(ev, ne, r2) := take_digits r1 0 0 in
        match r2 with
        | [] => if ne =? 0 then None else Some (neg, m, (if eneg then - ev else ev) - nf)
        | _ => None
        end
      else None
  end.

Definition round_ratio (num den : Z) : float :=   (* num/den > 0 to nearest binary64 *)
  let lg := Z.log2 num - Z.log2 den in
  let qk k := if 0 <=? k then (num * 2 ^ k) / den else num / (den * 2 ^ (- k)) in
  let k0 := 52 - lg in
  let k1 := if 2 ^ 53 <=? qk k0 then k0 - 1 else if qk k0 <? 2 ^ 52 then k0 + 1 else k0 in
  let k := if 1074 <? k1 then 1074 else k1 in
  let n := if 0 <=? k then num * 2 ^ k else num in
  let d := if 0 <=? k then den else den * 2 ^ (- k) in
  let q := n / d in
  let r := n mod d in
  let q' := if (d <? 2 * r) || ((d =? 2 * r) && Z.odd q) then q + 1 else q in
  Z.ldexp (F_ofZ q') (- k).

Definition dec_to_f64 (t : text) : option float :=
  match parse_decimal t with
  | None => None
  | Some (neg, m, e) =>
      let v := if m =? 0 then 0%float
               else if 0 <=? e then round_ratio (m * 10 ^ e) 1 else round_ratio m (10 ^ (- e)) in
      Some (if neg then PrimFloat.opp v else v)
  end.
