(* Text/Tree.v -- mirror of ScadOp / Scad (scad.rs), polymorphic in the number and string carriers. *)
From Coq Require Import NArith List.
Import ListNotations.

Section Tree.
  Variables num str : Type.

  Record p2 := P2 { p2x : num; p2y : num }.
  Record p3 := P3 { p3x : num; p3y : num; p3z : num }.
  Record p4 := P4 { p4x : num; p4y : num; p4z : num; p4w : num }.

  Inductive scadop :=
  | Union | Difference | Intersection
  | Circle (radius : num) (fa fs : option num) (fn_ : option N)
  | Square (size : p2) (center : bool)
  | Polygon (points : list p2) (paths : option (list (list N))) (convexity : N)
  | Text (text : str) (size : num) (font : str) (halign valign : N) (spacing : num) (direction : N)
         (language script : str) (fn_ : option N)
  | Import (file : str) (convexity : N)
  | Projection (cut : bool)
  | Sphere (radius : num) (fa fs : option num) (fn_ : option N)
  | Cube (size : p3) (center : bool)
  | Cylinder (height radius1 radius2 : num) (center : bool) (fa fs : option num) (fn_ : option N)
  | Polyhedron (points : list p3) (faces : list (list N)) (convexity : N)
  | LinearExtrude (height : num) (center : bool) (convexity : N) (twist : num) (scale : p2)
                  (slices : option N) (fn_ : option N)
  | RotateExtrude (angle : num) (convexity : N) (fa fs : option num) (fn_ : option N)
  | Surface (file : str) (center invert : bool) (convexity : N)
  | Translate (v : p3)
  | Rotate (a : option num) (a_is_scalar : bool) (v : p3)
  | Scale (v : p3)
  | Resize (newsize : p3) (auto auto_is_vec : bool) (autovec : bool * bool * bool) (convexity : N)
  | Mirror (v : p3)
  | Color (rgba : option p4) (color : option N) (hex : option str) (alpha : option num)
  | Offset (r delta : option num) (chamfer : bool)
  | Hull
  | Minkowski (convexity : N).

  Inductive scad := Node (op : scadop) (children : list scad).

  Definition is_leaf_op (o : scadop) : bool :=
    match o with
    | Circle _ _ _ _ | Square _ _ | Polygon _ _ _ | Text _ _ _ _ _ _ _ _ _ _ | Import _ _
    | Sphere _ _ _ _ | Cube _ _ | Cylinder _ _ _ _ _ _ _ | Polyhedron _ _ _ | Surface _ _ _ _ => true
    | _ => false
    end.

  (* every node writes its header (since the fix of the header-less Color / Offset nodes); kept as a definition so that the
     statements that mention it stay as they were *)
  Definition op_complete (o : scadop) : bool := true.

  (* proper nested induction *)
  Section Ind.
    Variable P : scad -> Prop.
    Hypothesis H : forall o cs, Forall P cs -> P (Node o cs).
    Fixpoint scad_ind' (t : scad) : P t :=
      match t with
      | Node o cs => H o cs ((fix go (l : list scad) : Forall P l :=
                                match l with [] => Forall_nil _ | c :: l' => Forall_cons c (scad_ind' c) (go l') end) cs)
      end.
  End Ind.

  (* well-formed: primitives have no children, every op says what it is *)
  Fixpoint wf (t : scad) : bool :=
    match t with
    | Node o cs => op_complete o && (if is_leaf_op o then match cs with [] => true | _ => false end else true)
                   && forallb wf cs
    end.
End Tree.

Arguments Node {num str}.
Arguments Union {num str}. Arguments Difference {num str}. Arguments Intersection {num str}.
Arguments Hull {num str}.
Arguments Circle {num str}. Arguments Square {num str}. Arguments Polygon {num str}.
Arguments Text {num str}. Arguments Import {num str}. Arguments Projection {num str}.
Arguments Sphere {num str}. Arguments Cube {num str}. Arguments Cylinder {num str}.
Arguments Polyhedron {num str}. Arguments LinearExtrude {num str}. Arguments RotateExtrude {num str}.
Arguments Surface {num str}. Arguments Translate {num str}. Arguments Rotate {num str}.
Arguments Scale {num str}. Arguments Resize {num str}. Arguments Mirror {num str}.
Arguments Color {num str}. Arguments Offset {num str}. Arguments Minkowski {num str}.
Arguments P2 {num}. Arguments P3 {num}. Arguments P4 {num}.
Arguments p2x {num}. Arguments p2y {num}. Arguments p3x {num}. Arguments p3y {num}. Arguments p3z {num}.
Arguments p4x {num}. Arguments p4y {num}. Arguments p4z {num}. Arguments p4w {num}.
Arguments is_leaf_op {num str}. Arguments op_complete {num str}. Arguments wf {num str}.
