(* Text/FileParse_proofs.v -- C13: a file made of setting lines followed by emitted trees parses as those assignments
   followed by those statements. Axiom-free. *)
From Coq Require Import NArith String List Bool Lia Arith.
From SCAD Require Import Text.Chars Text.Tree Text.Lex Text.Parse Text.Emit Text.Lex_proofs Text.Emit_proofs Text.Parse_proofs.
Import ListNotations.
Local Open Scope N_scope.

Definition setting_line (kv : text * text) : text := fst kv ++ [61] ++ snd kv ++ [59; 10].
Definition setting_toks (kv : text * text) : list token := [TId (fst kv); TP 61; TNum (snd kv); TP 59].
Definition wf_setting (kv : text * text) : Prop := wf_id (fst kv) /\ wf_num (snd kv).

Lemma lex_setting kv out rest : wf_setting kv ->
  lrun (LS MDefault out) (setting_line kv ++ rest) = lrun (LS MDefault (rev (setting_toks kv) ++ out)) rest.
Proof.
  destruct kv as [k v]. intros [Hk Hv]. unfold setting_line, setting_toks. cbn [fst snd]. rewrite <- !app_assoc.
  rewrite lrun_ident by (assumption || reflexivity). cbn [app]. rewrite lrun_cons.
  change (lstep (LS MDefault (TId k :: out)) 61) with (LS MDefault (TP 61 :: TId k :: out)).
  rewrite lrun_num by (assumption || reflexivity). rewrite !lrun_cons.
  change (lstep (lstep (LS MDefault (TNum v :: TP 61 :: TId k :: out)) 59) 10) with (LS MDefault (TP 59 :: TNum v :: TP 61 :: TId k :: out)).
  reflexivity.
Qed.

Section FP.
  Variables num str : Type.
  Variable fmt : num -> text.
  Variable chars : str -> text.
  Hypothesis fmt_wf : forall x, wf_num (fmt x).
  Notation t_tree := (t_tree num str fmt chars).
  Notation stmt_of := (stmt_of num str fmt chars).

  Lemma lex_file sl ts : Forall wf_setting sl -> forallb (@wf num str) ts = true ->
    lex (flat_map setting_line sl ++ emit_seq num str fmt chars ts) = Some (flat_map setting_toks sl ++ flat_map t_tree ts).
  Proof.
    intros Hs Hw. unfold lex.
    assert (G : forall out, lrun (LS MDefault out) (flat_map setting_line sl ++ emit_seq num str fmt chars ts) =
                            lrun (LS MDefault (rev (flat_map setting_toks sl) ++ out)) (emit_seq num str fmt chars ts)).
    { induction Hs as [|kv l Hkv Hl IH]; intros out; [reflexivity|]. cbn [flat_map]. rewrite <- app_assoc.
      rewrite lex_setting by assumption. rewrite IH. rewrite rev_app_distr, <- app_assoc. reflexivity. }
    rewrite G.
    assert (G2 : forall out, lrun (LS MDefault out) (emit_seq num str fmt chars ts) = LS MDefault (rev (flat_map t_tree ts) ++ out)).
    { unfold emit_seq. clear G. induction ts as [|t l IH]; intros out; [reflexivity|]. cbn [forallb] in Hw. apply andb_prop in Hw as [Ht Hl].
      cbn [flat_map]. rewrite (lex_emit num str fmt chars fmt_wf) by assumption. rewrite (IH Hl). rewrite rev_app_distr, <- app_assoc. reflexivity. }
    rewrite G2. cbn [lfinish lmode lout]. rewrite app_nil_r, rev_app_distr, !rev_involutive. reflexivity.
  Qed.

  Lemma parse_file_tokens sl ts : forallb (@wf num str) ts = true ->
    parse_tokens (flat_map setting_toks sl ++ flat_map t_tree ts) =
    Some (map (fun kv => TAssign (fst kv) (ENum (snd kv))) sl ++ map (fun t => TInst (stmt_of t)) ts).
  Proof.
    intros Hw. unfold parse_tokens.
    assert (G : forall l acc fuel, (length (flat_map setting_toks l ++ flat_map t_tree ts) < fuel)%nat ->
              p_program fuel (flat_map setting_toks l ++ flat_map t_tree ts) acc =
              Some (rev acc ++ map (fun kv => TAssign (fst kv) (ENum (snd kv))) l ++ map (fun t => TInst (stmt_of t)) ts)).
    { induction l as [|kv l IH]; intros acc fuel Hf.
      - cbn [flat_map app map] in *.
        (* the trees: same as parse_program_trees but with an accumulator *)
        revert acc fuel Hf. induction ts as [|t l IH]; intros acc fuel Hf.
        + destruct fuel; [cbn in Hf; lia|]. cbn. rewrite app_nil_r. reflexivity.
        + cbn [forallb] in Hw. apply andb_prop in Hw as [Hwt Hwl]. cbn [flat_map] in *. rewrite app_length in Hf.
          destruct fuel as [|f]; [lia|]. cbn [p_program].
          pose proof (parse_tree num str fmt chars t Hwt f (flat_map t_tree l) ltac:(lia)) as Hp.
          destruct t as [o cs]. cbn [Emit_proofs.t_tree] in *. unfold t_head in *. cbn [app] in *.
          change (N.eqb 40 EQ) with false. cbv iota. rewrite Hp. rewrite (IH Hwl); [|cbn [length] in Hf; lia].
          cbn [rev map]. rewrite <- app_assoc. reflexivity.
      - cbn [flat_map] in *. unfold setting_toks at 1 in Hf. unfold setting_toks at 1. cbn [app length] in *.
        destruct fuel as [|f]; [lia|]. cbn [p_program]. change (N.eqb 61 EQ) with true. cbv iota.
        destruct f as [|f']; [lia|]. cbn [p_expr]. change (N.eqb 59 SEMI) with true. cbv iota.
        rewrite IH by lia. cbn [rev map]. rewrite <- !app_assoc. reflexivity. }
    rewrite (G sl [] (S (length (flat_map setting_toks sl ++ flat_map t_tree ts))) ltac:(lia)). reflexivity.
  Qed.

  Theorem file_parses sl ts : Forall wf_setting sl -> forallb (@wf num str) ts = true ->
    parse_text (flat_map setting_line sl ++ emit_seq num str fmt chars ts) =
    Some (map (fun kv => TAssign (fst kv) (ENum (snd kv))) sl ++ map (fun t => TInst (stmt_of t)) ts).
  Proof. intros Hs Hw. unfold parse_text. rewrite lex_file by assumption. apply parse_file_tokens. assumption. Qed.
End FP.
