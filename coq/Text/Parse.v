(* Text/Parse.v -- parser for OpenSCAD's module-instantiation grammar over tokens.
   TRUSTED SPEC:   program := (assign | inst)*
                   assign  := ID '=' expr ';'
                   inst    := ID '(' [arg (',' arg)*] ')' ( ';' | '{' inst* '}' | inst )
                   arg     := ID '=' expr | expr
                   expr    := NUM | STR | ID | '[' [expr (',' expr)*] ']'
   Recursive descent on fuel (each call consumes a token, so fuel = number of tokens suffices). *)
From Coq Require Import NArith List Bool.
From SCAD Require Import Text.Chars Text.Lex.
Import ListNotations.
Local Open Scope N_scope.

Inductive expr := ENum (lit : text) | EStr (s : text) | EId (s : text) | EVec (l : list expr).
Inductive stmt := Inst (name : text) (args : list (option text * expr)) (children : list stmt).
Inductive top := TAssign (name : text) (e : expr) | TInst (s : stmt).

Definition LP := 40. Definition RP := 41. Definition LB := 91. Definition RB := 93.
Definition LC := 123. Definition RC := 125. Definition COMMA := 44. Definition SEMI := 59. Definition EQ := 61.

Fixpoint p_expr (fuel : nat) (ts : list token) : option (expr * list token) :=
  match fuel with O => None | S f =>
    match ts with
    | TNum l :: r => Some (ENum l, r)
    | TStr s :: r => Some (EStr s, r)
    | TId s :: r => Some (EId s, r)
    | TP c :: r =>
        if c =? LB then
          match r with
          | TP c2 :: r2 => if c2 =? RB then Some (EVec [], r2) else p_elems f r []
          | _ => p_elems f r []
          end
        else None
    | [] => None
    end
  end
with p_elems (fuel : nat) (ts : list token) (acc : list expr) : option (expr * list token) :=
  match fuel with O => None | S f =>
    match p_expr f ts with
    | Some (e, TP c :: r) =>
        if c =? COMMA then p_elems f r (e :: acc)
        else if c =? RB then Some (EVec (rev (e :: acc)), r) else None
    | _ => None
    end
  end.

Definition p_arg (fuel : nat) (ts : list token) : option ((option text * expr) * list token) :=
  match ts with
  | TId n :: TP c :: r =>
      if c =? EQ then match p_expr fuel r with Some (e, r') => Some ((Some n, e), r') | None => None end
      else match p_expr fuel ts with Some (e, r') => Some ((None, e), r') | None => None end
  | _ => match p_expr fuel ts with Some (e, r') => Some ((None, e), r') | None => None end
  end.

Fixpoint p_args (fuel : nat) (ts : list token) (acc : list (option text * expr))
  : option (list (option text * expr) * list token) :=
  match fuel with O => None | S f =>
    match p_arg f ts with
    | Some (a, TP c :: r) =>
        if c =? COMMA then p_args f r (a :: acc)
        else if c =? RP then Some (rev (a :: acc), r) else None
    | _ => None
    end
  end.

Definition p_arglist (fuel : nat) (ts : list token) : option (list (option text * expr) * list token) :=
  match ts with
  | TP c :: r => if c =? RP then Some ([], r) else p_args fuel ts []
  | _ => p_args fuel ts []
  end.

Fixpoint p_inst (fuel : nat) (ts : list token) : option (stmt * list token) :=
  match fuel with O => None | S f =>
    match ts with
    | TId name :: TP c :: r =>
        if c =? LP then
          match p_arglist f r with
          | Some (args, TP c2 :: r2) =>
              if c2 =? SEMI then Some (Inst name args [], r2)
              else if c2 =? LC then
                match p_block f r2 [] with
                | Some (cs, r3) => Some (Inst name args cs, r3)
                | None => None
                end
              else None
          | Some (args, r2) =>
              match p_inst f r2 with
              | Some (c1, r3) => Some (Inst name args [c1], r3)
              | None => None
              end
          | None => None
          end
        else None
    | _ => None
    end
  end
with p_block (fuel : nat) (ts : list token) (acc : list stmt) : option (list stmt * list token) :=
  match fuel with O => None | S f =>
    match ts with
    | TP c :: r => if c =? RC then Some (rev acc, r)
                   else None
    | _ => match p_inst f ts with
           | Some (s, r) => p_block f r (s :: acc)
           | None => None
           end
    end
  end.

Fixpoint p_program (fuel : nat) (ts : list token) (acc : list top) : option (list top) :=
  match fuel with O => None | S f =>
    match ts with
    | [] => Some (rev acc)
    | TId n :: TP c :: r =>
        if c =? EQ then
          match p_expr f r with
          | Some (e, TP c2 :: r2) => if c2 =? SEMI then p_program f r2 (TAssign n e :: acc) else None
          | _ => None
          end
        else match p_inst f ts with
             | Some (s, r') => p_program f r' (TInst s :: acc)
             | None => None
             end
    | _ => None
    end
  end.

Definition parse_tokens (ts : list token) : option (list top) := p_program (S (length ts)) ts [].
Definition parse_text (t : text) : option (list top) :=
  match lex t with Some ts => parse_tokens ts | None => None end.

(* brace balance outside string literals, on the token stream *)
Fixpoint balanced (ts : list token) (depth : N) : bool :=
  match ts with
  | [] => depth =? 0
  | TP c :: r => if c =? LC then balanced r (depth + 1)
                 else if c =? RC then (if depth =? 0 then false else balanced r (depth - 1))
                 else balanced r depth
  | _ :: r => balanced r depth
  end.
