(* Text/Emit_proofs.v -- lexing the emission of any well-formed tree gives its token stream. Axiom-free.
   Hypothesis on the number printer: every number is printed as a plain decimal literal (checked on every
   sampled number by the correspondence run). *)
From Coq Require Import NArith List Bool String Lia.
From SCAD Require Import Text.Chars Text.Tree Text.Lex Text.Emit Text.Lex_proofs Gen.Enums.
Import ListNotations.
Local Open Scope N_scope.

Section EP.
  Variables num str : Type.
  Variable fmt : num -> text.
  Variable chars : str -> text.
  Hypothesis fmt_wf : forall x, wf_num (fmt x).
  Notation scadop := (scadop num str). Notation scad := (scad num str).
  Notation args_of := (args_of num str fmt chars).
  Notation emit := (emit num str fmt chars).
  Notation e_header := (e_header num str fmt chars).

  Lemma sn_wf x : wf_sexpr (sn num fmt x). Proof. apply fmt_wf. Qed.
  Lemma sN_wf n : wf_sexpr (sN n). Proof. apply dec_of_N_wf. Qed.
  Lemma sb_wf b : wf_sexpr (sb b). Proof. apply bool_text_wf. Qed.
  Lemma s2_wf p : wf_sexpr (s2 num fmt p). Proof. split; [apply comma_sp_wf|]. repeat split; apply fmt_wf. Qed.
  Lemma s3_wf p : wf_sexpr (s3 num fmt p). Proof. split; [apply comma_sp_wf|]. repeat split; apply fmt_wf. Qed.
  Lemma s4_wf p : wf_sexpr (s4 num fmt p). Proof. split; [apply comma_sp_wf|]. repeat split; apply fmt_wf. Qed.
  Lemma wf_list_map {A} (f : A -> sexpr) (l : list A) : (forall x, wf_sexpr (f x)) -> wf_list (map f l).
  Proof. intros Hf. induction l as [|x l IH]; [exact I|]. split; [apply Hf|exact IH]. Qed.
  Lemma sidx_wf l : wf_sexpr (sidx l). Proof. split; [apply comma_sp_wf|]. apply (wf_list_map sN). apply sN_wf. Qed.
  Lemma spaths_wf l : wf_sexpr (spaths l). Proof. split; [apply comma_sp_wf|]. apply (wf_list_map sidx). apply sidx_wf. Qed.
  Lemma pts2_wf l : wf_sexpr (SVec comma (map (s2 num fmt) l)). Proof. split; [apply comma_wf|]. apply wf_list_map. apply s2_wf. Qed.
  Lemma pts3_wf l : wf_sexpr (SVec comma (map (s3 num fmt) l)). Proof. split; [apply comma_wf|]. apply wf_list_map. apply s3_wf. Qed.

  Definition wf_name (k : string) : Prop := wf_id (s2t k).
  Lemma na_wf k e : wf_name k -> wf_sexpr e -> Forall wf_arg (na k e).
  Proof. intros. constructor; [split; assumption|constructor]. Qed.
  Lemma oa_wf {A} k (f : A -> sexpr) o : wf_name k -> (forall x, wf_sexpr (f x)) -> Forall wf_arg (oa k f o).
  Proof. intros Hk Hf. destruct o; [apply na_wf; [assumption|apply Hf]|constructor]. Qed.
  Lemma fafsfn_wf fa fs fn_ : Forall wf_arg (fafsfn num fmt fa fs fn_).
  Proof.
    unfold fafsfn. repeat match goal with |- Forall _ (_ ++ _) => apply Forall_app; split end;
      (apply oa_wf; [split; reflexivity | first [apply sn_wf | apply sN_wf]]).
  Qed.

  Ltac wfargs :=
    repeat match goal with |- Forall _ (_ ++ _) => apply Forall_app; split end;
    first [ apply fafsfn_wf
          | apply oa_wf; [split; reflexivity | first [apply sn_wf | apply sN_wf]]
          | apply na_wf; [split; reflexivity |
                          first [exact I | apply sn_wf | apply sN_wf | apply sb_wf | apply s2_wf | apply s3_wf | apply s4_wf | apply spaths_wf
                                | apply pts2_wf | apply pts3_wf | (split; reflexivity)
                                | (split; [apply comma_sp_wf | repeat split; apply bool_text_wf])]]
          | (constructor; [exact I | constructor])
          | constructor ].

  Lemma args_of_wf o : Forall wf_arg (args_of o).
  Proof.
    destruct o; cbn [Emit.args_of];
      repeat (match goal with |- Forall _ (match ?x with _ => _ end) => destruct x end);
      try (constructor; fail); wfargs.
  Qed.
  Lemma op_ident_wf o : wf_id (s2t (op_ident num str o)).
  Proof. destruct o; split; reflexivity. Qed.

  (* tokens of a node *)
  Fixpoint t_tree (t : scad) : list token :=
    match t with
    | Node o cs => t_head (s2t (op_ident num str o)) (args_of o) ++
                   (if is_leaf_op o then [TP 59] else TP 123 :: flat_map t_tree cs ++ [TP 125])
    end.

  Lemma lex_header o : op_complete o = true -> forall out rest,
    lrun (LS MDefault out) (e_header o ++ rest) =
    lrun (LS MDefault ((if is_leaf_op o then [TP 59] else [TP 123]) ++ rev (t_head (s2t (op_ident num str o)) (args_of o)) ++ out)) rest.
  Proof.
    intros Hc out rest. unfold Emit.e_header. rewrite Hc. rewrite <- app_assoc.
    rewrite lex_head by (apply op_ident_wf || apply args_of_wf). destruct (is_leaf_op o); reflexivity.
  Qed.

  Theorem lex_emit : forall t, wf t = true -> forall out rest,
    lrun (LS MDefault out) (emit t ++ rest) = lrun (LS MDefault (rev (t_tree t) ++ out)) rest.
  Proof.
    induction t as [o cs IH] using scad_ind'. intros Hwf out rest. cbn [wf] in Hwf.
    apply andb_prop in Hwf as [Hwf Hcs]. apply andb_prop in Hwf as [Hc Hleaf].
    cbn [Emit.emit t_tree]. rewrite <- !app_assoc. rewrite lex_header by assumption.
    assert (G : forall out0 rest0, lrun (LS MDefault out0) (flat_map emit cs ++ rest0) = lrun (LS MDefault (rev (flat_map t_tree cs) ++ out0)) rest0).
    { clear Hleaf. induction IH as [|c l Hx Hl IHl]; intros out0 rest0; [reflexivity|].
      cbn [forallb] in Hcs. apply andb_prop in Hcs as [Hwc Hwl]. cbn [flat_map]. rewrite <- app_assoc.
      rewrite Hx by assumption. rewrite (IHl Hwl). rewrite rev_app_distr, <- app_assoc. reflexivity. }
    destruct (is_leaf_op o) eqn:El.
    - destruct cs as [|c cs]; [|discriminate].
      change (flat_map emit [] ++ [] ++ [10] ++ rest) with (10 :: rest). rewrite lrun_cons.
      match goal with |- lrun (lstep (LS MDefault ?o') 10) _ = _ => change (lstep (LS MDefault o') 10) with (LS MDefault o') end.
      rewrite rev_app_distr. reflexivity.
    - rewrite G. change (s2t "}" ++ [10] ++ rest) with (125 :: 10 :: rest). rewrite !lrun_cons.
      match goal with |- lrun (lstep (lstep (LS MDefault ?o') 125) 10) _ = _ =>
        change (lstep (lstep (LS MDefault o') 125) 10) with (LS MDefault (TP 125 :: o')) end.
      f_equal. f_equal. rewrite !rev_app_distr. cbn [rev app]. rewrite rev_app_distr. cbn [rev app]. rewrite <- !app_assoc. reflexivity.
  Qed.

  Corollary lex_emit_seq ts : forallb (@wf num str) ts = true -> lex (emit_seq num str fmt chars ts) = Some (flat_map t_tree ts).
  Proof.
    intros Hw. unfold lex, emit_seq.
    assert (G : forall out, lrun (LS MDefault out) (flat_map emit ts) = LS MDefault (rev (flat_map t_tree ts) ++ out)).
    { induction ts as [|t l IH]; intros out; [reflexivity|]. cbn [forallb] in Hw. apply andb_prop in Hw as [Ht Hl].
      cbn [flat_map]. rewrite lex_emit by assumption. rewrite (IH Hl). rewrite rev_app_distr, <- app_assoc. reflexivity. }
    rewrite G. cbn [lfinish lmode lout]. rewrite app_nil_r, rev_involutive. reflexivity.
  Qed.
End EP.
