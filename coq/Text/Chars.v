(* Text/Chars.v -- text as lists of Unicode code points; literals; decimal printing of N. *)
From Coq Require Import NArith List String Ascii Bool.
Import ListNotations.
Local Open Scope N_scope.

Definition text := list N.

Fixpoint s2t (s : string) : text :=
  match s with EmptyString => [] | String c r => N_of_ascii c :: s2t r end.
Coercion s2t : string >-> text.

Definition text_eqb (a b : text) : bool :=
  (fix go (a b : text) : bool :=
     match a, b with
     | [], [] => true
     | x :: a', y :: b' => N.eqb x y && go a' b'
     | _, _ => false
     end) a b.

(* decimal digits of n, most significant first (Rust `{}` for u64) *)
Fixpoint dec_digits_fuel (fuel : nat) (n : N) (acc : text) : text :=
  match fuel with
  | O => acc
  | S f => let acc' := (48 + n mod 10) :: acc in
           if n <? 10 then acc' else dec_digits_fuel f (n / 10) acc'
  end.
Definition dec_of_N (n : N) : text := dec_digits_fuel (S (N.to_nat (N.log2 n))) n [].

Definition bool_text (b : bool) : text := if b then s2t "true" else s2t "false".

(* character classes *)
Definition is_digit (c : N) : bool := (48 <=? c) && (c <=? 57).
Definition is_alpha (c : N) : bool := ((65 <=? c) && (c <=? 90)) || ((97 <=? c) && (c <=? 122)) || (c =? 95).
Definition is_id_start (c : N) : bool := is_alpha c || (c =? 36).     (* letters, _, $ *)
Definition is_id_char (c : N) : bool := is_alpha c || is_digit c.
Definition is_ws (c : N) : bool := (c =? 32) || (c =? 10) || (c =? 9) || (c =? 13).
Definition is_punct (c : N) : bool :=
  (c =? 40) || (c =? 41) || (c =? 91) || (c =? 93) || (c =? 123) || (c =? 125) || (c =? 44) || (c =? 59) || (c =? 61).
Definition is_hex (c : N) : bool := is_digit c || ((65 <=? c) && (c <=? 70)) || ((97 <=? c) && (c <=? 102)).
Definition hex_val (c : N) : N :=
  if is_digit c then c - 48 else if (97 <=? c) then c - 87 else c - 55.

(* UTF-8 bytes to code points (the harness hands texts over as byte strings) *)
Fixpoint utf8_decode (l : list N) : text :=
  match l with
  | [] => []
  | b0 :: r =>
      if b0 <? 128 then b0 :: utf8_decode r
      else if b0 <? 224 then
        match r with
        | b1 :: r1 => ((b0 - 192) * 64 + (b1 - 128)) :: utf8_decode r1
        | [] => [b0]
        end
      else if b0 <? 240 then
        match r with
        | b1 :: b2 :: r2 => ((b0 - 224) * 4096 + (b1 - 128) * 64 + (b2 - 128)) :: utf8_decode r2
        | _ => [b0]
        end
      else
        match r with
        | b1 :: b2 :: b3 :: r3 => ((b0 - 240) * 262144 + (b1 - 128) * 4096 + (b2 - 128) * 64 + (b3 - 128)) :: utf8_decode r3
        | _ => [b0]
        end
  end.
Definition u8 (s : string) : text := utf8_decode (s2t s).
Definition u8b (l : list N) : text := utf8_decode l.
