(* Text/Dec64_proofs.v -- every u64 (every N) printed in decimal reads back as itself: N_ok for all n. Axiom-free. *)
From Coq Require Import NArith ZArith List Bool Lia Floats ZifyN ZifyBool.
From SCAD Require Import Text.Chars Text.Dec64 Text.Lex_proofs Text.Bind Text.Bind_proofs.
Import ListNotations.
Local Open Scope Z_scope.
Ltac Zify.zify_post_hook ::= Z.div_mod_to_equations.

Definition dval (l : text) (a : Z) : Z := fold_left (fun a c => a * 10 + (Z.of_N c - 48)) l a.

Lemma take_digits_all l : forallb is_digit l = true -> forall a k, take_digits l a k = (dval l a, k + Z.of_nat (length l), []).
Proof.
  induction l as [|c l IH]; intros H a k; cbn [take_digits dval fold_left length].
  - f_equal. f_equal. lia.
  - cbn [forallb] in H. apply andb_prop in H as [Hc Hl]. rewrite Hc. rewrite IH by assumption. unfold dval. f_equal. f_equal. lia.
Qed.
Lemma dval_app l1 l2 a : dval (l1 ++ l2) a = dval l2 (dval l1 a).
Proof. unfold dval. apply fold_left_app. Qed.

Lemma dec_digits_value fuel : forall n acc, (n < 2 ^ N.of_nat fuel)%N ->
  dval (dec_digits_fuel fuel n acc) 0 = dval acc (Z.of_N n).
Proof.
  induction fuel as [|f IH]; intros n acc Hn.
  - cbn in Hn. assert (n = 0%N) by lia. subst. reflexivity.
  - cbn [dec_digits_fuel]. destruct (N.ltb_spec n 10) as [Hlt | Hge].
    + unfold dval. cbn [fold_left]. f_equal. rewrite N.mod_small by assumption. lia.
    + rewrite IH.
      * unfold dval. cbn [fold_left]. f_equal. pose proof (N.div_mod n 10 ltac:(lia)). lia.
      * rewrite Nat2N.inj_succ, N.pow_succ_r' in Hn. pose proof (N.pow_nonzero 2 (N.of_nat f) ltac:(lia)).
        apply N.div_lt_upper_bound; lia.
Qed.

Lemma dec_of_N_digits n : forallb is_digit (dec_of_N n) = true /\ dec_of_N n <> [] /\ dval (dec_of_N n) 0 = Z.of_N n.
Proof.
  unfold dec_of_N. set (fuel := S (N.to_nat (N.log2 n))). split; [apply dec_digits_all; reflexivity|]. split.
  - destruct (dec_digits_suffix fuel n []) as [pre [Hp Hne]]. rewrite app_nil_r in Hp. rewrite Hp. apply Hne. discriminate.
  - rewrite dec_digits_value; [reflexivity|]. unfold fuel. rewrite Nat2N.inj_succ, N2Nat.id.
    destruct (N.eq_dec n 0) as [-> | Hn]; [reflexivity|]. apply N.log2_spec. lia.
Qed.

Lemma parse_decimal_digits l : forallb is_digit l = true -> l <> [] ->
  parse_decimal l = Some (false, dval l 0, 0).
Proof.
  intros Hd Hne. unfold parse_decimal.
  destruct l as [|c l]; [contradiction|].
  assert (Hc : is_digit c = true) by (cbn [forallb] in Hd; apply andb_prop in Hd as [H _]; exact H).
  replace (N.eqb c 45) with false by (unfold is_digit in Hc; lia).
  rewrite take_digits_all by assumption.
  assert (Hlen : (0 + Z.of_nat (length (c :: l)) + 0 =? 0) = false) by (cbn [length]; lia).
  cbn [length] in *. rewrite Hlen. f_equal.
Qed.

Theorem N_ok_all (n : N) : N_ok n.
Proof.
  unfold N_ok, dec_to_f64. destruct (dec_of_N_digits n) as (Hd & Hne & Hv).
  rewrite parse_decimal_digits by assumption. rewrite Hv. unfold N_to_float.
  destruct (N.eqb_spec n 0) as [-> | Hn]; [reflexivity|].
  replace (Z.of_N n =? 0) with false by lia. cbn [Z.leb Z.compare]. rewrite Z.pow_0_r, Z.mul_1_r. reflexivity.
Qed.
