(* Text/Bind.v -- OpenSCAD argument binding for the built-ins the library emits, and the
   parameters each tree node stands for.
   TRUSTED SPEC (from OpenSCAD's documentation; the tool is not available offline):
   positional arguments fill the built-in's parameter list in order, named arguments bind by name
   and must name a parameter of the built-in, $fa/$fs/$fn are special variables accepted by every
   module, colour names are the CSS/SVG names (case-insensitive) plus "transparent". *)
From Coq Require Import NArith ZArith List String Floats Bool.
From SCAD Require Import Text.Chars Text.Tree Text.Lex Text.Parse Text.Dec64 Base.NumF Gen.Enums.
Import ListNotations.

Inductive value := VNum (f : float) | VBool (b : bool) | VStr (s : text) | VVec (l : list value) | VUndef | VBad.

Fixpoint value_of (e : expr) : value :=
  match e with
  | ENum lit => match dec_to_f64 lit with Some f => VNum f | None => VBad end
  | EStr s => VStr s
  | EId s => if text_eqb s (s2t "true") then VBool true else if text_eqb s (s2t "false") then VBool false
             else if text_eqb s (s2t "undef") then VUndef else VBad
  | EVec l => VVec (map value_of l)
  end.

Fixpoint value_eqb (a b : value) : bool :=
  match a, b with
  | VNum x, VNum y => F_bits_eq x y
  | VBool x, VBool y => Bool.eqb x y
  | VStr x, VStr y => text_eqb x y
  | VVec x, VVec y =>
      (fix go (x y : list value) : bool :=
         match x, y with [], [] => true | a :: x', b :: y' => value_eqb a b && go x' y' | _, _ => false end) x y
  | VUndef, VUndef => true
  | _, _ => false
  end.

(* name -> (positional parameter order, further named parameters) *)
Definition signatures : list (string * (list string * list string)) :=
  [ ("circle", (["r"], ["d"]));
    ("square", (["size"; "center"], []));
    ("polygon", (["points"; "paths"; "convexity"], []));
    ("text", (["text"; "size"; "font"], ["halign"; "valign"; "spacing"; "direction"; "language"; "script"]));
    ("import", (["file"; "layer"; "convexity"; "origin"; "scale"], ["width"; "height"; "filename"; "center"; "dpi"; "id"]));
    ("projection", (["cut"], []));
    ("sphere", (["r"], ["d"]));
    ("cube", (["size"; "center"], []));
    ("cylinder", (["h"; "r1"; "r2"; "center"], ["r"; "d"; "d1"; "d2"]));
    ("polyhedron", (["points"; "faces"; "convexity"], ["triangles"]));
    ("linear_extrude", (["height"], ["center"; "convexity"; "twist"; "scale"; "slices"; "v"; "segments"]));
    ("rotate_extrude", (["angle"], ["convexity"; "start"]));
    ("surface", (["file"; "center"; "convexity"], ["invert"]));
    ("translate", (["v"], []));
    ("rotate", (["a"; "v"], []));
    ("scale", (["v"], []));
    ("resize", (["newsize"; "auto"; "convexity"], []));
    ("mirror", (["v"], []));
    ("color", (["c"; "alpha"], []));
    ("offset", (["r"], ["delta"; "chamfer"]));
    ("hull", ([], []));
    ("minkowski", (["convexity"], []));
    ("union", ([], []));
    ("difference", ([], []));
    ("intersection", ([], [])) ]%string.

Fixpoint lookup_sig (name : text) (l : list (string * (list string * list string))) : option (list string * list string) :=
  match l with
  | [] => None
  | (n, s) :: tl => if text_eqb name (s2t n) then Some s else lookup_sig name tl
  end.

Definition is_special (n : text) : bool :=
  text_eqb n (s2t "$fa") || text_eqb n (s2t "$fs") || text_eqb n (s2t "$fn").
Definition mem_name (n : text) (l : list string) : bool := existsb (fun s => text_eqb n (s2t s)) l.

(* bind: None = an argument binds to nothing (too many positionals, unknown or duplicated name) *)
Fixpoint bind_args (pos named : list string) (args : list (option text * expr)) (acc : list (text * value))
  : option (list (text * value)) :=
  match args with
  | [] => Some (rev acc)
  | (None, e) :: tl =>
      match pos with
      | p :: pos' => if existsb (fun kv => text_eqb (fst kv) (s2t p)) acc then None
                     else bind_args pos' named tl ((s2t p, value_of e) :: acc)
      | [] => None
      end
  | (Some n, e) :: tl =>
      if existsb (fun kv => text_eqb (fst kv) n) acc then None
      else if is_special n || mem_name n pos || mem_name n named
           then bind_args (filter (fun p => negb (text_eqb n (s2t p))) pos) named tl ((n, value_of e) :: acc)
           else None
  end.

Definition bind (name : text) (args : list (option text * expr)) : option (list (text * value)) :=
  match lookup_sig name signatures with
  | None => None
  | Some (pos, named) => bind_args pos named args []
  end.

(* ---- what a node stands for ---- *)
Record fnum := FN { nval : float; nlit : text }.

Definition N_to_float (n : N) : float := if N.eqb n 0 then 0%float else round_ratio (Z.of_N n) 1.

Section Params.
  Notation op := (scadop fnum text).
  Definition vn (x : fnum) : value := VNum (nval x).
  Definition vN (n : N) : value := VNum (N_to_float n).
  Definition v2 (p : p2 fnum) : value := VVec [vn (p2x p); vn (p2y p)].
  Definition v3 (p : p3 fnum) : value := VVec [vn (p3x p); vn (p3y p); vn (p3z p)].
  Definition v4 (p : p4 fnum) : value := VVec [vn (p4x p); vn (p4y p); vn (p4z p); vn (p4w p)].
  Definition vidx (l : list N) : value := VVec (map vN l).
  Definition vpaths (l : list (list N)) : value := VVec (map vidx l).
  Definition kv (k : string) (v : value) : list (text * value) := [(s2t k, v)].
  Definition okv {A} (k : string) (f : A -> value) (o : option A) : list (text * value) :=
    match o with Some x => kv k (f x) | None => [] end.
  Definition fafsfn (fa fs : option fnum) (fn_ : option N) := okv "$fa" vn fa ++ okv "$fs" vn fs ++ okv "$fn" vN fn_.
  Definition ename (names : list string) (i : N) : value := VStr (s2t (nth (N.to_nat i) names "?"%string)).

  Definition op_name (o : op) : string :=
    match o with
    | Union => "union" | Difference => "difference" | Intersection => "intersection"
    | Circle _ _ _ _ => "circle" | Square _ _ => "square" | Polygon _ _ _ => "polygon"
    | Text _ _ _ _ _ _ _ _ _ _ => "text" | Import _ _ => "import" | Projection _ => "projection"
    | Sphere _ _ _ _ => "sphere" | Cube _ _ => "cube" | Cylinder _ _ _ _ _ _ _ => "cylinder"
    | Polyhedron _ _ _ => "polyhedron" | LinearExtrude _ _ _ _ _ _ _ => "linear_extrude"
    | RotateExtrude _ _ _ _ _ => "rotate_extrude" | Surface _ _ _ _ => "surface"
    | Translate _ => "translate" | Rotate _ _ _ => "rotate" | Scale _ => "scale"
    | Resize _ _ _ _ _ => "resize" | Mirror _ => "mirror" | Color _ _ _ _ => "color"
    | Offset _ _ _ => "offset" | Hull => "hull" | Minkowski _ => "minkowski"
    end%string.

  Definition params_of (o : op) : list (text * value) :=
    match o with
    | Union | Difference | Intersection | Hull => []
    | Circle r fa fs fn_ => kv "r" (vn r) ++ fafsfn fa fs fn_
    | Square sz c => kv "size" (v2 sz) ++ kv "center" (VBool c)
    | Polygon pts paths cv =>
        kv "points" (VVec (map v2 pts)) ++ kv "paths" (match paths with Some p => vpaths p | None => VUndef end) ++
        kv "convexity" (vN cv)
    | Text t size font ha va sp dir lang script fn_ =>
        kv "text" (VStr t) ++ kv "size" (vn size) ++ kv "font" (VStr font) ++ kv "halign" (ename halign_names ha) ++
        kv "valign" (ename valign_names va) ++ kv "spacing" (vn sp) ++ kv "direction" (ename direction_names dir) ++
        kv "language" (VStr lang) ++ kv "script" (VStr script) ++ okv "$fn" vN fn_
    | Import file cv => kv "file" (VStr file) ++ kv "convexity" (vN cv)
    | Projection cut => kv "cut" (VBool cut)
    | Sphere r fa fs fn_ => kv "r" (vn r) ++ fafsfn fa fs fn_
    | Cube sz c => kv "size" (v3 sz) ++ kv "center" (VBool c)
    | Cylinder h r1 r2 c fa fs fn_ =>
        kv "h" (vn h) ++ kv "r1" (vn r1) ++ kv "r2" (vn r2) ++ kv "center" (VBool c) ++ fafsfn fa fs fn_
    | Polyhedron pts faces cv => kv "points" (VVec (map v3 pts)) ++ kv "faces" (vpaths faces) ++ kv "convexity" (vN cv)
    | LinearExtrude h c cv tw sc slices fn_ =>
        kv "height" (vn h) ++ kv "center" (VBool c) ++ kv "convexity" (vN cv) ++ kv "twist" (vn tw) ++
        kv "scale" (v2 sc) ++ okv "slices" vN slices ++ okv "$fn" vN fn_
    | RotateExtrude a cv fa fs fn_ => kv "angle" (vn a) ++ kv "convexity" (vN cv) ++ fafsfn fa fs fn_
    | Surface file c inv cv => kv "file" (VStr file) ++ kv "center" (VBool c) ++ kv "invert" (VBool inv) ++ kv "convexity" (vN cv)
    | Translate v => kv "v" (v3 v)
    | Rotate (Some a) true _ => kv "a" (vn a)
    | Rotate (Some a) false v => kv "a" (vn a) ++ kv "v" (v3 v)
    | Rotate None _ v => kv "a" (v3 v)
    | Scale v => kv "v" (v3 v)
    | Resize ns au false _ cv => kv "newsize" (v3 ns) ++ kv "auto" (VBool au) ++ kv "convexity" (vN cv)
    | Resize ns _ true (a1, a2, a3) cv =>
        kv "newsize" (v3 ns) ++ kv "auto" (VVec [VBool a1; VBool a2; VBool a3]) ++ kv "convexity" (vN cv)
    | Mirror v => kv "v" (v3 v)
    | Color (Some rgba) _ _ _ => kv "c" (v4 rgba)
    | Color None (Some c) _ alpha => kv "c" (ename color_names c) ++ okv "alpha" vn alpha
    | Color None None (Some hex) _ => kv "c" (VStr hex)
    | Color None None None _ => []
    | Offset (Some r) _ _ => kv "r" (vn r)
    | Offset None (Some d) ch => kv "delta" (vn d) ++ kv "chamfer" (VBool ch)
    | Offset None None _ => []
    | Minkowski cv => kv "convexity" (vN cv)
    end.
End Params.

(* every expected pair is bound with an equal value and nothing else is bound *)
Definition same_params (got want : list (text * value)) : bool :=
  Nat.eqb (List.length got) (List.length want) &&
  forallb (fun w => existsb (fun g => text_eqb (fst g) (fst w) && value_eqb (snd g) (snd w)) got) want.

(* colour names OpenSCAD knows (CSS/SVG list, lower case, plus transparent) *)
Definition lower (t : text) : text := map (fun c => if (N.leb 65 c && N.leb c 90)%bool then (c + 32)%N else c) t.
Definition openscad_colors : list string :=
  ["aliceblue"; "antiquewhite"; "aqua"; "aquamarine"; "azure"; "beige"; "bisque"; "black"; "blanchedalmond"; "blue";
   "blueviolet"; "brown"; "burlywood"; "cadetblue"; "chartreuse"; "chocolate"; "coral"; "cornflowerblue"; "cornsilk";
   "crimson"; "cyan"; "darkblue"; "darkcyan"; "darkgoldenrod"; "darkgray"; "darkgreen"; "darkgrey"; "darkkhaki";
   "darkmagenta"; "darkolivegreen"; "darkorange"; "darkorchid"; "darkred"; "darksalmon"; "darkseagreen";
   "darkslateblue"; "darkslategray"; "darkslategrey"; "darkturquoise"; "darkviolet"; "deeppink"; "deepskyblue";
   "dimgray"; "dimgrey"; "dodgerblue"; "firebrick"; "floralwhite"; "forestgreen"; "fuchsia"; "gainsboro"; "ghostwhite";
   "gold"; "goldenrod"; "gray"; "grey"; "green"; "greenyellow"; "honeydew"; "hotpink"; "indianred"; "indigo"; "ivory";
   "khaki"; "lavender"; "lavenderblush"; "lawngreen"; "lemonchiffon"; "lightblue"; "lightcoral"; "lightcyan";
   "lightgoldenrodyellow"; "lightgray"; "lightgreen"; "lightgrey"; "lightpink"; "lightsalmon"; "lightseagreen";
   "lightskyblue"; "lightslategray"; "lightslategrey"; "lightsteelblue"; "lightyellow"; "lime"; "limegreen"; "linen";
   "magenta"; "maroon"; "mediumaquamarine"; "mediumblue"; "mediumorchid"; "mediumpurple"; "mediumseagreen";
   "mediumslateblue"; "mediumspringgreen"; "mediumturquoise"; "mediumvioletred"; "midnightblue"; "mintcream";
   "mistyrose"; "moccasin"; "navajowhite"; "navy"; "oldlace"; "olive"; "olivedrab"; "orange"; "orangered"; "orchid";
   "palegoldenrod"; "palegreen"; "paleturquoise"; "palevioletred"; "papayawhip"; "peachpuff"; "peru"; "pink"; "plum";
   "powderblue"; "purple"; "red"; "rosybrown"; "royalblue"; "saddlebrown"; "salmon"; "sandybrown"; "seagreen";
   "seashell"; "sienna"; "silver"; "skyblue"; "slateblue"; "slategray"; "slategrey"; "snow"; "springgreen";
   "steelblue"; "tan"; "teal"; "thistle"; "tomato"; "turquoise"; "violet"; "wheat"; "white"; "whitesmoke"; "yellow";
   "yellowgreen"; "transparent"]%string.
Definition colour_known (name : string) : bool := mem_name (lower (s2t name)) openscad_colors.
