(* Text/Lex.v -- OpenSCAD lexer for the fragment the library emits, written as a left fold
   (an automaton over code points), so that lex (a ++ b) composes by fold_left_app.
   TRUSTED SPEC (OpenSCAD is not installed here): identifiers [A-Za-z_$][A-Za-z0-9_]*, decimal
   numbers (an optional leading '-' directly before a digit is kept with the literal; in the
   real grammar it is a unary minus applied to the literal, which denotes the same value),
   string literals with the escapes backslash-backslash, backslash-quote, \n \t \r \xHH \uHHHH \UHHHHHH
   (anything else after a backslash, and a raw newline inside a string, is an error), punctuation ( ) [ ] { } , ; =,
   white space. *)
From Coq Require Import NArith List Bool.
From SCAD Require Import Text.Chars.
Import ListNotations.
Local Open Scope N_scope.

Inductive token := TId (s : text) | TNum (s : text) | TStr (s : text) | TP (c : N).

Inductive mode :=
| MDefault
| MIdent (acc : text)            (* reversed *)
| MNum (acc : text)              (* reversed *)
| MStr (acc : text)              (* reversed, decoded *)
| MEsc (acc : text)              (* after a backslash *)
| MHex (acc : text) (need : nat) (val : N)   (* inside \x \u \U *)
| MErr.

Record lstate := LS { lmode : mode; lout : list token (* reversed *) }.

Definition start_default (out : list token) (c : N) : lstate :=
  if is_ws c then LS MDefault out
  else if is_punct c then LS MDefault (TP c :: out)
  else if is_id_start c then LS (MIdent [c]) out
  else if is_digit c || (c =? 45) || (c =? 46) then LS (MNum [c]) out
  else if c =? 34 then LS (MStr []) out
  else LS MErr out.

Definition is_num_char (c : N) : bool := is_digit c || (c =? 46) || (c =? 101) || (c =? 69) || (c =? 43) || (c =? 45).

Definition lstep (s : lstate) (c : N) : lstate :=
  match lmode s with
  | MDefault => start_default (lout s) c
  | MIdent acc => if is_id_char c then LS (MIdent (c :: acc)) (lout s)
                  else start_default (TId (rev acc) :: lout s) c
  | MNum acc => if is_num_char c then LS (MNum (c :: acc)) (lout s)
                else if is_id_start c then LS MErr (lout s)
                else start_default (TNum (rev acc) :: lout s) c
  | MStr acc => if c =? 34 then LS MDefault (TStr (rev acc) :: lout s)
                else if c =? 92 then LS (MEsc acc) (lout s)
                else if c =? 10 then LS MErr (lout s)
                else LS (MStr (c :: acc)) (lout s)
  | MEsc acc => if c =? 92 then LS (MStr (92 :: acc)) (lout s)
                else if c =? 34 then LS (MStr (34 :: acc)) (lout s)
                else if c =? 110 then LS (MStr (10 :: acc)) (lout s)
                else if c =? 116 then LS (MStr (9 :: acc)) (lout s)
                else if c =? 114 then LS (MStr (13 :: acc)) (lout s)
                else if c =? 120 then LS (MHex acc 2 0) (lout s)
                else if c =? 117 then LS (MHex acc 4 0) (lout s)
                else if c =? 85 then LS (MHex acc 6 0) (lout s)
                else LS MErr (lout s)
  | MHex acc need v =>
      if is_hex c then
        let v' := v * 16 + hex_val c in
        match need with
        | S O => LS (MStr ((if v' =? 0 then 32 else v') :: acc)) (lout s)
        | S n => LS (MHex acc n v') (lout s)
        | O => LS MErr (lout s)
        end
      else LS MErr (lout s)
  | MErr => s
  end.

Definition lfinish (s : lstate) : option (list token) :=
  match lmode s with
  | MDefault => Some (rev (lout s))
  | MIdent acc => Some (rev (TId (rev acc) :: lout s))
  | MNum acc => Some (rev (TNum (rev acc) :: lout s))
  | _ => None
  end.

Definition lrun (s : lstate) (t : text) : lstate := fold_left lstep t s.
Definition lex (t : text) : option (list token) := lfinish (lrun (LS MDefault []) t).

Definition token_eqb (a b : token) : bool :=
  match a, b with
  | TId x, TId y | TNum x, TNum y | TStr x, TStr y => text_eqb x y
  | TP x, TP y => x =? y
  | _, _ => false
  end.
