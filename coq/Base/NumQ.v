(* Base/NumQ.v -- exact rational reading for the polynomial fragment
   (no sqrt, no trig: those return 0 and must not be reached by a Q witness). *)
From Coq Require Import QArith ZArith Qabs Qround.
From SCAD Require Import Base.Num.

Definition Qltb (a b : Q) : bool := match Qcompare a b with Lt => true | _ => false end.
Definition Qleb (a b : Q) : bool := match Qcompare a b with Gt => false | _ => true end.
Definition Qeqb (a b : Q) : bool := match Qcompare a b with Eq => true | _ => false end.

#[export] Instance NumQ : Num Q := {|
  nzero := 0%Q; none_ := 1%Q;
  nadd := fun a b => Qred (a + b); nsub := fun a b => Qred (a - b);
  nmul := fun a b => Qred (a * b); ndiv := fun a b => Qred (a / b);
  nneg := Qopp; nabs := Qabs; nsqrt := fun _ => 0%Q;
  nltb := Qltb; nleb := Qleb; neqb := Qeqb;
  nofZ := inject_Z; ntrunc := fun q => Z.quot (Qnum q) (Zpos (Qden q));
  npi180 := 0%Q; n180pi := 0%Q;
  nsin := fun _ => 0%Q; ncos := fun _ => 0%Q; ntan := fun _ => 0%Q;
  nasin := fun _ => 0%Q; nacos := fun _ => 0%Q; natan := fun _ => 0%Q
|}.
