(* Base/Vec.v -- mirror of scad_tree_math/src/{pt2,pt3,pt4}.rs, one definition per
   Rust impl, over an arbitrary Num. No proofs here (Vec_proofs.v). *)
From Coq Require Import ZArith List.
From SCAD Require Import Base.Num.
Import ListNotations.
Local Open Scope num_scope.

Section Vec.
  Context {T : Type} `{Num T}.

  Record pt2 := Pt2 { x2 : T; y2 : T }.
  Record pt3 := Pt3 { x3 : T; y3 : T; z3 : T }.
  Record pt4 := Pt4 { x4 : T; y4 : T; z4 : T; w4 : T }.

  (* ---------------- Pt2 (pt2.rs) ---------------- *)
  Definition pt2_index (p : pt2) (i : Z) : option T :=      (* None = panic *)
    match i with 0%Z => Some (x2 p) | 1%Z => Some (y2 p) | _ => None end.
  Definition pt2_index_set (p : pt2) (i : Z) (v : T) : option pt2 :=
    match i with 0%Z => Some (Pt2 v (y2 p)) | 1%Z => Some (Pt2 (x2 p) v) | _ => None end.
  Definition pt2_add (a b : pt2) := Pt2 (x2 a + x2 b) (y2 a + y2 b).
  Definition pt2_sub (a b : pt2) := Pt2 (x2 a - x2 b) (y2 a - y2 b).
  Definition pt2_mul (a : pt2) (k : T) := Pt2 (x2 a * k) (y2 a * k).
  Definition pt2_div (a : pt2) (k : T) := Pt2 (x2 a / k) (y2 a / k).
  Definition pt2_neg (a : pt2) := pt2_mul a (- none_).
  (* the *Assign forms are `*self = *self op rhs` *)
  Definition pt2_add_assign := pt2_add.
  Definition pt2_sub_assign := pt2_sub.
  Definition pt2_mul_assign := pt2_mul.
  Definition pt2_div_assign := pt2_div.
  Definition pt2_dot (a b : pt2) : T := x2 a * x2 b + y2 a * y2 b.
  Definition pt2_len2 (a : pt2) : T := pt2_dot a a.
  Definition pt2_len (a : pt2) : T := nsqrt (pt2_len2 a).
  Definition pt2_normalize (a : pt2) : pt2 := pt2_div_assign a (pt2_len a).
  Definition pt2_normalized (a : pt2) : pt2 :=
    let l := pt2_len a in Pt2 (x2 a / l) (y2 a / l).
  Definition pt2_rotated (a : pt2) (deg : T) : pt2 :=
    let c := dcos deg in let s := dsin deg in
    Pt2 (x2 a * c - y2 a * s) (x2 a * s + y2 a * c).
  Definition pt2_rotate := pt2_rotated.
  Definition pt2_lerp (a b : pt2) (t : T) : pt2 := pt2_add a (pt2_mul (pt2_sub b a) t).
  Definition pt2_to_xz (a : pt2) : pt3 := Pt3 (x2 a) nzero (y2 a).
  Definition pt2_as_pt3 (a : pt2) (z : T) : pt3 := Pt3 (x2 a) (y2 a) z.

  (* Pt2s *)
  Definition pt2s_translate (l : list pt2) (p : pt2) : list pt2 := map (fun q => pt2_add q p) l.
  Definition pt2s_rotate (l : list pt2) (deg : T) : list pt2 := map (fun q => pt2_rotate q deg) l.

  (* ---------------- Pt3 (pt3.rs) ---------------- *)
  Definition pt3_index (p : pt3) (i : Z) : option T :=
    match i with 0%Z => Some (x3 p) | 1%Z => Some (y3 p) | 2%Z => Some (z3 p) | _ => None end.
  Definition pt3_index_set (p : pt3) (i : Z) (v : T) : option pt3 :=
    match i with
    | 0%Z => Some (Pt3 v (y3 p) (z3 p)) | 1%Z => Some (Pt3 (x3 p) v (z3 p))
    | 2%Z => Some (Pt3 (x3 p) (y3 p) v) | _ => None end.
  Definition pt3_add (a b : pt3) := Pt3 (x3 a + x3 b) (y3 a + y3 b) (z3 a + z3 b).
  Definition pt3_sub (a b : pt3) := Pt3 (x3 a - x3 b) (y3 a - y3 b) (z3 a - z3 b).
  Definition pt3_mul (a : pt3) (k : T) := Pt3 (x3 a * k) (y3 a * k) (z3 a * k).
  Definition pt3_div (a : pt3) (k : T) := Pt3 (x3 a / k) (y3 a / k) (z3 a / k).
  Definition pt3_neg (a : pt3) := pt3_mul a (- none_).
  Definition pt3_add_assign := pt3_add.
  Definition pt3_sub_assign := pt3_sub.
  Definition pt3_mul_assign := pt3_mul.
  Definition pt3_div_assign := pt3_div.
  Definition pt3_dot (a b : pt3) : T := x3 a * x3 b + y3 a * y3 b + z3 a * z3 b.
  Definition pt3_cross (a b : pt3) : pt3 :=
    Pt3 (y3 a * z3 b - z3 a * y3 b) (z3 a * x3 b - x3 a * z3 b) (x3 a * y3 b - y3 a * x3 b).
  Definition pt3_len2 (a : pt3) : T := pt3_dot a a.
  Definition pt3_len (a : pt3) : T := nsqrt (pt3_len2 a).
  Definition pt3_normalize (a : pt3) : pt3 := pt3_div_assign a (pt3_len a).
  Definition pt3_normalized (a : pt3) : pt3 :=
    let l := pt3_len a in Pt3 (x3 a / l) (y3 a / l) (z3 a / l).
  Definition pt3_rotated_x (a : pt3) (deg : T) : pt3 :=
    let s := dsin deg in let c := dcos deg in
    Pt3 (x3 a) (y3 a * c - z3 a * s) (y3 a * s + z3 a * c).
  Definition pt3_rotated_y (a : pt3) (deg : T) : pt3 :=
    let s := dsin deg in let c := dcos deg in
    Pt3 (x3 a * c + z3 a * s) (y3 a) (z3 a * c - x3 a * s).
  Definition pt3_rotated_z (a : pt3) (deg : T) : pt3 :=
    let s := dsin deg in let c := dcos deg in
    Pt3 (x3 a * c - y3 a * s) (x3 a * s + y3 a * c) (z3 a).
  Definition pt3_rotate_x := pt3_rotated_x.
  Definition pt3_rotate_y := pt3_rotated_y.
  Definition pt3_rotate_z := pt3_rotated_z.
  Definition pt3_lerp (a b : pt3) (t : T) : pt3 := pt3_add a (pt3_mul (pt3_sub b a) t).
  Definition pt3_as_pt4 (a : pt3) (w : T) : pt4 := Pt4 (x3 a) (y3 a) (z3 a) w.

  (* Pt3s *)
  Definition pt3s_from_pt2s (l : list pt2) (z : T) : list pt3 := map (fun p => pt2_as_pt3 p z) l.
  Definition pt3s_translate (l : list pt3) (p : pt3) : list pt3 := map (fun q => pt3_add q p) l.
  Definition pt3s_rotate_x (l : list pt3) (deg : T) := map (fun q => pt3_rotate_x q deg) l.
  Definition pt3s_rotate_y (l : list pt3) (deg : T) := map (fun q => pt3_rotate_y q deg) l.
  Definition pt3s_rotate_z (l : list pt3) (deg : T) := map (fun q => pt3_rotate_z q deg) l.

  (* ---------------- Pt4 (pt4.rs) ---------------- *)
  Definition pt4_index (p : pt4) (i : Z) : option T :=
    match i with 0%Z => Some (x4 p) | 1%Z => Some (y4 p) | 2%Z => Some (z4 p)
               | 3%Z => Some (w4 p) | _ => None end.
  Definition pt4_index_set (p : pt4) (i : Z) (v : T) : option pt4 :=
    match i with
    | 0%Z => Some (Pt4 v (y4 p) (z4 p) (w4 p)) | 1%Z => Some (Pt4 (x4 p) v (z4 p) (w4 p))
    | 2%Z => Some (Pt4 (x4 p) (y4 p) v (w4 p)) | 3%Z => Some (Pt4 (x4 p) (y4 p) (z4 p) v)
    | _ => None end.
  Definition pt4_add (a b : pt4) := Pt4 (x4 a + x4 b) (y4 a + y4 b) (z4 a + z4 b) (w4 a + w4 b).
  Definition pt4_sub (a b : pt4) := Pt4 (x4 a - x4 b) (y4 a - y4 b) (z4 a - z4 b) (w4 a - w4 b).
  Definition pt4_mul (a : pt4) (k : T) := Pt4 (x4 a * k) (y4 a * k) (z4 a * k) (w4 a * k).
  Definition pt4_div (a : pt4) (k : T) := Pt4 (x4 a / k) (y4 a / k) (z4 a / k) (w4 a / k).
  Definition pt4_neg (a : pt4) := pt4_mul a (- none_).
  Definition pt4_add_assign := pt4_add.
  Definition pt4_sub_assign := pt4_sub.
  Definition pt4_mul_assign := pt4_mul.
  Definition pt4_div_assign := pt4_div.
  (* dot/cross/len/normalized act on the xyz part (as documented by the property) *)
  Definition pt4_dot (a b : pt4) : T := x4 a * x4 b + y4 a * y4 b + z4 a * z4 b.
  Definition pt4_cross (a b : pt4) : pt4 :=
    Pt4 (y4 a * z4 b - z4 a * y4 b) (z4 a * x4 b - x4 a * z4 b) (x4 a * y4 b - y4 a * x4 b) nzero.
  Definition pt4_len2 (a : pt4) : T := pt4_dot a a.
  Definition pt4_len (a : pt4) : T := nsqrt (pt4_len2 a).
  Definition pt4_normalize (a : pt4) : pt4 := pt4_div_assign a (pt4_len a).
  Definition pt4_normalized (a : pt4) : pt4 :=
    let l := pt4_len a in Pt4 (x4 a / l) (y4 a / l) (z4 a / l) nzero.
  Definition pt4_lerp (a b : pt4) (t : T) : pt4 := pt4_add a (pt4_mul (pt4_sub b a) t).
  Definition pt4_as_pt3 (a : pt4) : pt3 := Pt3 (x4 a) (y4 a) (z4 a).
End Vec.

Arguments pt2 T : clear implicits.
Arguments pt3 T : clear implicits.
Arguments pt4 T : clear implicits.
