(* Base/NumR.v -- the real-number reading (what the theorems are about). *)
From Coq Require Import Reals ZArith Lra.
From SCAD Require Import Base.Num.
Local Open Scope R_scope.

Definition Rltb (a b : R) : bool := if Rlt_dec a b then true else false.
Definition Rleb (a b : R) : bool := if Rle_dec a b then true else false.
Definition Reqb (a b : R) : bool := if Req_EM_T a b then true else false.
(* truncation toward zero *)
Definition Rtrunc (x : R) : Z :=
  if Rle_dec 0 x then Int_part x else (- Int_part (- x))%Z.

#[export] Instance NumR : Num R := {|
  nzero := 0; none_ := 1;
  nadd := Rplus; nsub := Rminus; nmul := Rmult; ndiv := Rdiv;
  nneg := Ropp; nabs := Rabs; nsqrt := sqrt;
  nltb := Rltb; nleb := Rleb; neqb := Reqb;
  nofZ := IZR; ntrunc := Rtrunc;
  npi180 := PI / 180; n180pi := 180 / PI;
  nsin := sin; ncos := cos; ntan := tan;
  nasin := asin; nacos := acos; natan := atan
|}.

Lemma Rltb_true a b : Rltb a b = true <-> a < b.
Proof. unfold Rltb; destruct (Rlt_dec a b); split; intros; try easy. Qed.
Lemma Rltb_false a b : Rltb a b = false <-> b <= a.
Proof. unfold Rltb; destruct (Rlt_dec a b); split; intros; try easy; lra. Qed.
Lemma Rleb_true a b : Rleb a b = true <-> a <= b.
Proof. unfold Rleb; destruct (Rle_dec a b); split; intros; try easy. Qed.
Lemma Rleb_false a b : Rleb a b = false <-> b < a.
Proof. unfold Rleb; destruct (Rle_dec a b); split; intros; try easy; lra. Qed.
Lemma Reqb_true a b : Reqb a b = true <-> a = b.
Proof. unfold Reqb; destruct (Req_EM_T a b); split; intros; try easy. Qed.
Lemma Reqb_false a b : Reqb a b = false <-> a <> b.
Proof. unfold Reqb; destruct (Req_EM_T a b); split; intros; try easy. Qed.

(* unfold the class projections at R so that ring/field/lra see plain R terms *)
Ltac rnum := cbn [nzero none_ nadd nsub nmul ndiv nneg nabs nsqrt nltb nleb neqb nofZ
                  ntrunc npi180 n180pi nsin ncos ntan nasin nacos natan NumR] in *.
