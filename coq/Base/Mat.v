(* Base/Mat.v -- mirror of scad_tree_math/src/mt4.rs (column-major 4x4). No proofs here. *)
From Coq Require Import ZArith List.
From SCAD Require Import Base.Num Base.Vec Gen.Mt4Cof.
Import ListNotations.
Local Open Scope num_scope.

Section Mat.
  Context {T : Type} `{Num T}.
  Notation pt3 := (pt3 T). Notation pt4 := (pt4 T).

  Record mt4 := Mt4 { mx : pt4; my : pt4; mz : pt4; mw : pt4 }.   (* the four columns *)

  Definition mt4_transposed (m : mt4) : mt4 :=
    Mt4 (Pt4 (x4 (mx m)) (x4 (my m)) (x4 (mz m)) (x4 (mw m)))
        (Pt4 (y4 (mx m)) (y4 (my m)) (y4 (mz m)) (y4 (mw m)))
        (Pt4 (z4 (mx m)) (z4 (my m)) (z4 (mz m)) (z4 (mw m)))
        (Pt4 (w4 (mx m)) (w4 (my m)) (w4 (mz m)) (w4 (mw m))).

  Definition mt4_identity : mt4 :=
    Mt4 (Pt4 none_ nzero nzero nzero) (Pt4 nzero none_ nzero nzero)
        (Pt4 nzero nzero none_ nzero) (Pt4 nzero nzero nzero none_).

  Definition mt4_scale_matrix (x y z : T) : mt4 :=
    Mt4 (Pt4 x nzero nzero nzero) (Pt4 nzero y nzero nzero)
        (Pt4 nzero nzero z nzero) (Pt4 nzero nzero nzero none_).

  Definition mt4_translate_matrix (x y z : T) : mt4 :=
    Mt4 (Pt4 none_ nzero nzero nzero) (Pt4 nzero none_ nzero nzero)
        (Pt4 nzero nzero none_ nzero) (Pt4 x y z none_).

  Definition mt4_rot_x_matrix (deg : T) : mt4 :=
    let c := dcos deg in let s := dsin deg in
    mt4_transposed (Mt4 (Pt4 none_ nzero nzero nzero) (Pt4 nzero c (- s) nzero)
                        (Pt4 nzero s c nzero) (Pt4 nzero nzero nzero none_)).
  Definition mt4_rot_y_matrix (deg : T) : mt4 :=
    let c := dcos deg in let s := dsin deg in
    mt4_transposed (Mt4 (Pt4 c nzero s nzero) (Pt4 nzero none_ nzero nzero)
                        (Pt4 (- s) nzero c nzero) (Pt4 nzero nzero nzero none_)).
  Definition mt4_rot_z_matrix (deg : T) : mt4 :=
    let c := dcos deg in let s := dsin deg in
    mt4_transposed (Mt4 (Pt4 c (- s) nzero nzero) (Pt4 s c nzero nzero)
                        (Pt4 nzero nzero none_ nzero) (Pt4 nzero nzero nzero none_)).

  Definition mt4_rot_vec (x y z deg : T) : mt4 :=
    let c := dcos deg in let s := dsin deg in
    mt4_transposed
      (Mt4 (Pt4 (c + x * x * (none_ - c)) (x * y * (none_ - c) - z * s) (x * z * (none_ - c) + y * s) nzero)
           (Pt4 (y * x * (none_ - c) + z * s) (c + y * y * (none_ - c)) (y * z * (none_ - c) - x * s) nzero)
           (Pt4 (z * x * (none_ - c) - y * s) (z * y * (none_ - c) + x * s) (c + z * z * (none_ - c)) nzero)
           (Pt4 nzero nzero nzero none_)).

  Definition mt4_perspective_matrix (fovy aspect near far : T) : mt4 :=
    let th := dtan (fovy / ntwo) in
    mt4_transposed
      (Mt4 (Pt4 (none_ / (aspect * th)) nzero nzero nzero)
           (Pt4 nzero (none_ / th) nzero nzero)
           (Pt4 nzero nzero ((- (far + near)) / (far - near)) ((- (ntwo * far * near)) / (far - near)))
           (Pt4 nzero nzero (- none_) none_)).

  (* Index / IndexMut: 0..15 column by column; None = panic *)
  Definition mt4_get (m : mt4) (i : Z) : T :=
    match i with
    | 0 => x4 (mx m) | 1 => y4 (mx m) | 2 => z4 (mx m) | 3 => w4 (mx m)
    | 4 => x4 (my m) | 5 => y4 (my m) | 6 => z4 (my m) | 7 => w4 (my m)
    | 8 => x4 (mz m) | 9 => y4 (mz m) | 10 => z4 (mz m) | 11 => w4 (mz m)
    | 12 => x4 (mw m) | 13 => y4 (mw m) | 14 => z4 (mw m) | 15 => w4 (mw m)
    | _ => nzero
    end%Z.
  Definition mt4_index (m : mt4) (i : Z) : option T :=
    if ((0 <=? i) && (i <? 16))%Z%bool then Some (mt4_get m i) else None.
  Definition mt4_of_fun (f : Z -> T) : mt4 :=
    Mt4 (Pt4 (f 0%Z) (f 1%Z) (f 2%Z) (f 3%Z)) (Pt4 (f 4%Z) (f 5%Z) (f 6%Z) (f 7%Z))
        (Pt4 (f 8%Z) (f 9%Z) (f 10%Z) (f 11%Z)) (Pt4 (f 12%Z) (f 13%Z) (f 14%Z) (f 15%Z)).
  Definition mt4_index_set (m : mt4) (i : Z) (v : T) : option mt4 :=
    if ((0 <=? i) && (i <? 16))%Z%bool
    then Some (mt4_of_fun (fun j => if Z.eqb j i then v else mt4_get m j)) else None.

  (* inverse: cofactors regenerated from the source (Gen/Mt4Cof.v) *)
  Definition mt4_inverse (m : mt4) : option mt4 :=
    let e := mt4_get m in
    let o := mt4_cof e in
    let det := mt4_det e o in
    if det =? nzero then None
    else let d := none_ / det in Some (mt4_of_fun (fun i => o i * d)).

  Definition dot4 (a b : pt4) : T := x4 a * x4 b + y4 a * y4 b + z4 a * z4 b + w4 a * w4 b.

  Definition mt4_mul_pt4 (m : mt4) (p : pt4) : pt4 :=
    let t := mt4_transposed m in
    Pt4 (dot4 (mx t) p) (dot4 (my t) p) (dot4 (mz t) p) (dot4 (mw t) p).
  Definition mt4_mul_pt3 (m : mt4) (p : pt3) : pt3 :=
    let t := mt4_transposed m in
    Pt3 (pt3_dot (pt4_as_pt3 (mx t)) p) (pt3_dot (pt4_as_pt3 (my t)) p) (pt3_dot (pt4_as_pt3 (mz t)) p).
  Definition mt4_mul (a b : mt4) : mt4 :=
    let t := mt4_transposed a in
    let col c := Pt4 (dot4 (mx t) c) (dot4 (my t) c) (dot4 (mz t) c) (dot4 (mw t) c) in
    Mt4 (col (mx b)) (col (my b)) (col (mz b)) (col (mw b)).

  Definition pt3_is_zero (p : pt3) : bool := (x3 p =? nzero) && (y3 p =? nzero) && (z3 p =? nzero).

  Definition mt4_look_at_rh (eye center up : pt3) : mt4 :=
    let f := pt3_normalized (pt3_sub center eye) in
    let s := pt3_normalized (pt3_cross f up) in
    let u := pt3_cross s f in
    Mt4 (Pt4 (x3 s) (y3 s) (z3 s) (- (pt3_dot s eye)))
        (Pt4 (x3 u) (y3 u) (z3 u) (- (pt3_dot u eye)))
        (Pt4 (- x3 f) (- y3 f) (- z3 f) (pt3_dot f eye))
        (Pt4 nzero nzero nzero none_).

  Definition mt4_look_at_lh (eye center up : pt3) : mt4 :=
    let f := pt3_normalized (pt3_sub center eye) in
    let s := pt3_cross up f in
    if pt3_is_zero s then
      if pt3_dot up f <? nzero then mt4_rot_x_matrix (nofZ 180%Z) else mt4_identity
    else
      let s := pt3_normalized s in
      let u := pt3_cross f s in
      Mt4 (Pt4 (x3 s) (y3 s) (z3 s) (- (pt3_dot s eye)))
          (Pt4 (x3 u) (y3 u) (z3 u) (- (pt3_dot u eye)))
          (Pt4 (x3 f) (y3 f) (z3 f) (- (pt3_dot f eye)))
          (Pt4 nzero nzero nzero none_).

  Definition mt4_rotation_from_direction (direction up : pt3) : mt4 :=
    let xa := pt3_normalized (pt3_cross up direction) in
    let za := pt3_normalized (pt3_cross direction xa) in
    Mt4 (Pt4 (x3 xa) (x3 direction) (x3 za) nzero)
        (Pt4 (y3 xa) (y3 direction) (y3 za) nzero)
        (Pt4 (z3 xa) (z3 direction) (z3 za) nzero)
        (Pt4 nzero nzero nzero none_).

  (* Pt3s::apply_matrix *)
  Definition pt3s_apply_matrix (l : list pt3) (m : mt4) : list pt3 :=
    map (fun p => pt4_as_pt3 (mt4_mul_pt4 m (pt3_as_pt4 p none_))) l.
End Mat.
Arguments mt4 T : clear implicits.
