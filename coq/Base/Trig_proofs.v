(* Base/Trig_proofs.v -- the degree helpers on the real reading (C12), and the exact
   values the part builders need. *)
From Coq Require Import Reals Lra.
From SCAD Require Import Base.Num Base.NumR.
Local Open Scope R_scope.

Lemma PI_neq0' : PI <> 0. Proof. apply PI_neq0. Qed.

Lemma to_radians_R a : to_radians a = a * PI / 180.
Proof. unfold to_radians. rnum. field. Qed.
Lemma to_degrees_R a : to_degrees a = a * 180 / PI.
Proof. unfold to_degrees. rnum. field. apply PI_neq0. Qed.
Lemma to_degrees_to_radians a : to_degrees (to_radians a) = a.
Proof. rewrite to_degrees_R, to_radians_R. field. apply PI_neq0. Qed.
Lemma to_radians_to_degrees a : to_radians (to_degrees a) = a.
Proof. rewrite to_degrees_R, to_radians_R. field. apply PI_neq0. Qed.

Lemma dsin_def a : dsin a = sin (a * PI / 180).
Proof. unfold dsin. rewrite to_radians_R. reflexivity. Qed.
Lemma dcos_def a : dcos a = cos (a * PI / 180).
Proof. unfold dcos. rewrite to_radians_R. reflexivity. Qed.
Lemma dtan_def a : dtan a = tan (a * PI / 180).
Proof. unfold dtan. rewrite to_radians_R. reflexivity. Qed.
Lemma dasin_def x : dasin x = asin x * 180 / PI.
Proof. unfold dasin. rewrite to_degrees_R. reflexivity. Qed.
Lemma dacos_def x : dacos x = acos x * 180 / PI.
Proof. unfold dacos. rewrite to_degrees_R. reflexivity. Qed.
Lemma datan_def x : datan x = atan x * 180 / PI.
Proof. unfold datan. rewrite to_degrees_R. reflexivity. Qed.

Lemma deg_range a lo hi : lo <= a <= hi -> lo * PI / 180 <= a * PI / 180 <= hi * PI / 180.
Proof. intros [H1 H2]. pose proof PI_RGT_0. split; apply Rmult_le_compat_r; try lra; apply Rmult_le_compat_r; lra. Qed.

Lemma dasin_dsin a : -90 <= a <= 90 -> dasin (dsin a) = a.
Proof.
  intros Ha. rewrite dasin_def, dsin_def. rewrite asin_sin.
  - field. apply PI_neq0.
  - pose proof PI_RGT_0. destruct Ha. split; nra.
Qed.
Lemma dacos_dcos a : 0 <= a <= 180 -> dacos (dcos a) = a.
Proof.
  intros Ha. rewrite dacos_def, dcos_def. rewrite acos_cos.
  - field. apply PI_neq0.
  - pose proof PI_RGT_0. destruct Ha. split; nra.
Qed.
Lemma datan_dtan a : -90 < a < 90 -> datan (dtan a) = a.
Proof.
  intros Ha. rewrite datan_def, dtan_def. rewrite atan_tan.
  - field. apply PI_neq0.
  - pose proof PI_RGT_0. destruct Ha. split; nra.
Qed.
(* and the other way round: they really are inverses on the ratio side too *)
Lemma dsin_dasin x : -1 <= x <= 1 -> dsin (dasin x) = x.
Proof. intros Hx. unfold dsin, dasin. rewrite to_radians_to_degrees. rnum. apply sin_asin; assumption. Qed.
Lemma dcos_dacos x : -1 <= x <= 1 -> dcos (dacos x) = x.
Proof. intros Hx. unfold dcos, dacos. rewrite to_radians_to_degrees. rnum. apply cos_acos; assumption. Qed.
Lemma dtan_datan x : dtan (datan x) = x.
Proof. unfold dtan, datan. rewrite to_radians_to_degrees. rnum. apply tan_atan. Qed.

Lemma approx_eq_iff a b eps : approx_eq a b eps = true <-> Rabs (a - b) < eps.
Proof. unfold approx_eq. rnum. apply Rltb_true. Qed.

(* Pythagoras in degrees, and the exact values the parts use *)
Lemma dsin2_dcos2 a : dsin a * dsin a + dcos a * dcos a = 1.
Proof. rewrite dsin_def, dcos_def. pose proof (sin2_cos2 (a * PI / 180)) as H. unfold Rsqr in H. exact H. Qed.
Lemma dsin_0 : dsin 0 = 0. Proof. rewrite dsin_def. replace (0 * PI / 180) with 0 by field. apply sin_0. Qed.
Lemma dcos_0 : dcos 0 = 1. Proof. rewrite dcos_def. replace (0 * PI / 180) with 0 by field. apply cos_0. Qed.
Lemma dsin_90 : dsin 90 = 1. Proof. rewrite dsin_def. replace (90 * PI / 180) with (PI / 2) by field. apply sin_PI2. Qed.
Lemma dcos_90 : dcos 90 = 0. Proof. rewrite dcos_def. replace (90 * PI / 180) with (PI / 2) by field. apply cos_PI2. Qed.
Lemma dsin_180 : dsin 180 = 0. Proof. rewrite dsin_def. replace (180 * PI / 180) with PI by field. apply sin_PI. Qed.
Lemma dcos_180 : dcos 180 = -1. Proof. rewrite dcos_def. replace (180 * PI / 180) with PI by field. apply cos_PI. Qed.
Lemma dsin_360 : dsin 360 = 0. Proof. rewrite dsin_def. replace (360 * PI / 180) with (2 * PI) by field. apply sin_2PI. Qed.
Lemma dcos_360 : dcos 360 = 1. Proof. rewrite dcos_def. replace (360 * PI / 180) with (2 * PI) by field. apply cos_2PI. Qed.
Lemma dsin_neg a : dsin (- a) = - dsin a.
Proof. rewrite !dsin_def. replace (- a * PI / 180) with (- (a * PI / 180)) by field. apply sin_neg. Qed.
Lemma dcos_neg a : dcos (- a) = dcos a.
Proof. rewrite !dcos_def. replace (- a * PI / 180) with (- (a * PI / 180)) by field. apply cos_neg. Qed.
Lemma dsin_plus a b : dsin (a + b) = dsin a * dcos b + dcos a * dsin b.
Proof. rewrite !dsin_def, !dcos_def. replace ((a + b) * PI / 180) with (a * PI / 180 + b * PI / 180) by field. apply sin_plus. Qed.
Lemma dcos_plus a b : dcos (a + b) = dcos a * dcos b - dsin a * dsin b.
Proof. rewrite !dsin_def, !dcos_def. replace ((a + b) * PI / 180) with (a * PI / 180 + b * PI / 180) by field. apply cos_plus. Qed.
