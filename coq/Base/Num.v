(* Base/Num.v -- the numeric interface the mirrored code is written against.
   One term, three readings: R (theorems), PrimFloat.float (bit-exact
   correspondence with the Rust), Q (exact witnesses on the polynomial part). *)
From Coq Require Import ZArith List.
Import ListNotations.

Class Num (T : Type) := {
  nzero : T; none_ : T;
  nadd : T -> T -> T; nsub : T -> T -> T; nmul : T -> T -> T; ndiv : T -> T -> T;
  nneg : T -> T; nabs : T -> T; nsqrt : T -> T;
  nltb : T -> T -> bool; nleb : T -> T -> bool; neqb : T -> T -> bool;
  nofZ : Z -> T;
  ntrunc : T -> Z;                 (* Rust `as usize` / `as u64`: toward zero *)
  npi180 : T;                      (* std: consts::PI / 180.0 used by to_radians *)
  n180pi : T;                      (* std: 180.0 / consts::PI used by to_degrees *)
  nsin : T -> T; ncos : T -> T; ntan : T -> T;
  nasin : T -> T; nacos : T -> T; natan : T -> T
}.

Declare Scope num_scope.
Delimit Scope num_scope with num.
Infix "+" := nadd : num_scope.
Infix "-" := nsub : num_scope.
Infix "*" := nmul : num_scope.
Infix "/" := ndiv : num_scope.
Notation "- x" := (nneg x) : num_scope.
Infix "<?" := nltb : num_scope.
Infix "<=?" := nleb : num_scope.
Infix "=?" := neqb : num_scope.

Section Derived.
  Context {T : Type} `{Num T}.
  Local Open Scope num_scope.

  Definition ngtb (a b : T) : bool := b <? a.
  Definition ngeb (a b : T) : bool := b <=? a.
  (* a source literal n/d (e.g. 1.0e-5 = 1/100000): a correctly rounded
     division of two exactly representable integers is the nearest double. *)
  Definition nlit (n d : Z) : T := nofZ n / nofZ d.
  Definition ntwo : T := nofZ 2.
  Definition nthree : T := nofZ 3.

  (* scad_tree_math/src/lib.rs *)
  Definition to_radians (x : T) : T := x * npi180.
  Definition to_degrees (x : T) : T := x * n180pi.
  Definition dsin (d : T) : T := nsin (to_radians d).
  Definition dcos (d : T) : T := ncos (to_radians d).
  Definition dtan (d : T) : T := ntan (to_radians d).
  Definition dasin (x : T) : T := to_degrees (nasin x).
  Definition dacos (x : T) : T := to_degrees (nacos x).
  Definition datan (x : T) : T := to_degrees (natan x).
  Definition approx_eq (a b eps : T) : bool := nabs (a - b) <? eps.
End Derived.
