(* Base/Rot_proofs.v -- all rotation routes agree and are right-handed (C10). Over R. *)
From Coq Require Import Reals ZArith List Lra Lia Nsatz.
From SCAD Require Import Base.Num Base.NumR Base.Trig_proofs Base.Vec Base.Vec_proofs Gen.Mt4Cof Base.Mat Base.Mat_proofs.
Import ListNotations.
Local Open Scope R_scope.

(* ---- specification: textbook right-hand rotations, c = cos, s = sin of the angle ---- *)
Definition Rx_spec (c s : R) (p : P3) : P3 := Pt3 (x3 p) (y3 p * c - z3 p * s) (y3 p * s + z3 p * c).
Definition Ry_spec (c s : R) (p : P3) : P3 := Pt3 (x3 p * c + z3 p * s) (y3 p) (z3 p * c - x3 p * s).
Definition Rz_spec (c s : R) (p : P3) : P3 := Pt3 (x3 p * c - y3 p * s) (x3 p * s + y3 p * c) (z3 p).
Definition R2_spec (c s : R) (p : P2) : P2 := Pt2 (x2 p * c - y2 p * s) (x2 p * s + y2 p * c).
(* Rodrigues: rotation of v about the unit axis u *)
Definition rodrigues (u : P3) (c s : R) (v : P3) : P3 :=
  pt3_add (pt3_add (pt3_mul v c) (pt3_mul (pt3_cross u v) s)) (pt3_mul u (pt3_dot u v * (1 - c))).

Ltac rred := lazy beta iota zeta delta
  [Rx_spec Ry_spec Rz_spec R2_spec rodrigues
   pt3_rotated_x pt3_rotated_y pt3_rotated_z pt3_rotate_x pt3_rotate_y pt3_rotate_z pt2_rotated pt2_rotate
   mt4_rot_x_matrix mt4_rot_y_matrix mt4_rot_z_matrix mt4_rot_vec
   mt4_mul mt4_mul_pt4 mt4_mul_pt3 mt4_transposed mt4_identity dot4
   pt3_as_pt4 pt4_as_pt3 pt3_dot pt3_add pt3_sub pt3_mul pt3_cross pt3_neg pt3_len2
   mx my mz mw x4 y4 z4 w4 x3 y3 z3 x2 y2 nadd nmul nsub ndiv nneg none_ nzero neqb NumR]; fold NumR.

(* point methods are the spec *)
Lemma pt3_rotated_x_spec (p : P3) a : pt3_rotated_x p a = Rx_spec (dcos a) (dsin a) p. Proof. reflexivity. Qed.
Lemma pt3_rotated_y_spec (p : P3) a : pt3_rotated_y p a = Ry_spec (dcos a) (dsin a) p. Proof. reflexivity. Qed.
Lemma pt3_rotated_z_spec (p : P3) a : pt3_rotated_z p a = Rz_spec (dcos a) (dsin a) p. Proof. reflexivity. Qed.
Lemma pt2_rotated_spec (p : P2) a : pt2_rotated p a = R2_spec (dcos a) (dsin a) p. Proof. reflexivity. Qed.
(* in-place forms *)
Lemma pt3_rotate_is_rotated (p : P3) a :
  pt3_rotate_x p a = pt3_rotated_x p a /\ pt3_rotate_y p a = pt3_rotated_y p a /\ pt3_rotate_z p a = pt3_rotated_z p a.
Proof. repeat split. Qed.

(* matrix routes: as homogeneous points (w = 1), as directions (w = 0), and through Mul<Pt3> *)
Lemma rot_x_matrix_pt (p : P3) a w :
  mt4_mul_pt4 (mt4_rot_x_matrix a) (pt3_as_pt4 p w) = pt3_as_pt4 (pt3_rotated_x p a) w.
Proof. destruct p as [px py pz]. rred. generalize (dcos a) (dsin a); intros c s. f_equal; ring. Qed.
Lemma rot_y_matrix_pt (p : P3) a w :
  mt4_mul_pt4 (mt4_rot_y_matrix a) (pt3_as_pt4 p w) = pt3_as_pt4 (pt3_rotated_y p a) w.
Proof. destruct p as [px py pz]. rred. generalize (dcos a) (dsin a); intros c s. f_equal; ring. Qed.
Lemma rot_z_matrix_pt (p : P3) a w :
  mt4_mul_pt4 (mt4_rot_z_matrix a) (pt3_as_pt4 p w) = pt3_as_pt4 (pt3_rotated_z p a) w.
Proof. destruct p as [px py pz]. rred. generalize (dcos a) (dsin a); intros c s. f_equal; ring. Qed.
Lemma rot_x_matrix_pt3 (p : P3) a : mt4_mul_pt3 (mt4_rot_x_matrix a) p = pt3_rotated_x p a.
Proof. destruct p as [px py pz]. rred. generalize (dcos a) (dsin a); intros c s. f_equal; ring. Qed.
Lemma rot_y_matrix_pt3 (p : P3) a : mt4_mul_pt3 (mt4_rot_y_matrix a) p = pt3_rotated_y p a.
Proof. destruct p as [px py pz]. rred. generalize (dcos a) (dsin a); intros c s. f_equal; ring. Qed.
Lemma rot_z_matrix_pt3 (p : P3) a : mt4_mul_pt3 (mt4_rot_z_matrix a) p = pt3_rotated_z p a.
Proof. destruct p as [px py pz]. rred. generalize (dcos a) (dsin a); intros c s. f_equal; ring. Qed.

(* rot_vec about a coordinate axis is the matching axis matrix *)
Lemma rot_vec_x a : mt4_rot_vec 1 0 0 a = mt4_rot_x_matrix a.
Proof. rred. generalize (dcos a) (dsin a); intros c s. f_equal; f_equal; ring. Qed.
Lemma rot_vec_y a : mt4_rot_vec 0 1 0 a = mt4_rot_y_matrix a.
Proof. rred. generalize (dcos a) (dsin a); intros c s. f_equal; f_equal; ring. Qed.
Lemma rot_vec_z a : mt4_rot_vec 0 0 1 a = mt4_rot_z_matrix a.
Proof. rred. generalize (dcos a) (dsin a); intros c s. f_equal; f_equal; ring. Qed.
(* and in general it is Rodrigues' formula *)
Lemma rot_vec_rodrigues (u v : P3) a :
  mt4_mul_pt3 (mt4_rot_vec (x3 u) (y3 u) (z3 u) a) v = rodrigues u (dcos a) (dsin a) v.
Proof. destruct u as [ux uy uz], v as [vx vy vz]. rred. generalize (dcos a) (dsin a); intros c s. f_equal; ring. Qed.
Lemma rot_vec_pt4 (u v : P3) a w :
  mt4_mul_pt4 (mt4_rot_vec (x3 u) (y3 u) (z3 u) a) (pt3_as_pt4 v w) = pt3_as_pt4 (rodrigues u (dcos a) (dsin a) v) w.
Proof. destruct u as [ux uy uz], v as [vx vy vz]. rred. generalize (dcos a) (dsin a); intros c s. f_equal; ring. Qed.

(* the coordinate rotations are Rodrigues about the coordinate axes: one right-handed family *)
Lemma Rx_is_rodrigues c s p : Rx_spec c s p = rodrigues (Pt3 1 0 0) c s p.
Proof. destruct p as [px py pz]. rred. f_equal; ring. Qed.
Lemma Ry_is_rodrigues c s p : Ry_spec c s p = rodrigues (Pt3 0 1 0) c s p.
Proof. destruct p as [px py pz]. rred. f_equal; ring. Qed.
Lemma Rz_is_rodrigues c s p : Rz_spec c s p = rodrigues (Pt3 0 0 1) c s p.
Proof. destruct p as [px py pz]. rred. f_equal; ring. Qed.
(* right-handedness: a quarter turn about Z takes +X to +Y, about X takes +Y to +Z, about Y takes +Z to +X *)
Lemma right_handed :
  pt3_rotated_z (Pt3 1 0 0) 90 = Pt3 0 1 0 /\ pt3_rotated_x (Pt3 0 1 0) 90 = Pt3 0 0 1 /\
  pt3_rotated_y (Pt3 0 0 1) 90 = Pt3 1 0 0 /\ pt2_rotated (Pt2 1 0) 90 = Pt2 0 1.
Proof. rred. rewrite dcos_90, dsin_90. repeat split; f_equal; ring. Qed.

(* ---- isometry: every rotation about a unit axis preserves dot products ---- *)
Lemma rodrigues_preserves_dot (u v w : P3) c s :
  c * c + s * s = 1 -> pt3_dot u u = 1 ->
  pt3_dot (rodrigues u c s v) (rodrigues u c s w) = pt3_dot v w.
Proof.
  destruct u as [ux uy uz], v as [vx vy vz], w as [wx wy wz]. rred. intros Hcs Hu. nsatz.
Qed.
Lemma rotation_preserves_dot (u v w : P3) a :
  pt3_dot u u = 1 ->
  pt3_dot (mt4_mul_pt3 (mt4_rot_vec (x3 u) (y3 u) (z3 u) a) v) (mt4_mul_pt3 (mt4_rot_vec (x3 u) (y3 u) (z3 u) a) w)
  = pt3_dot v w.
Proof.
  intros Hu. rewrite !rot_vec_rodrigues. apply rodrigues_preserves_dot; [|assumption].
  pose proof (dsin2_dcos2 a). lra.
Qed.
Lemma axis_rotations_preserve_dot (v w : P3) a :
  pt3_dot (pt3_rotated_x v a) (pt3_rotated_x w a) = pt3_dot v w /\
  pt3_dot (pt3_rotated_y v a) (pt3_rotated_y w a) = pt3_dot v w /\
  pt3_dot (pt3_rotated_z v a) (pt3_rotated_z w a) = pt3_dot v w.
Proof.
  pose proof (dsin2_dcos2 a) as H. destruct v as [vx vy vz], w as [wx wy wz]. rred.
  revert H. generalize (dcos a) (dsin a); intros c s H. repeat split; nsatz.
Qed.
Lemma pt2_rotation_preserves_dot (v w : P2) a : pt2_dot (pt2_rotated v a) (pt2_rotated w a) = pt2_dot v w.
Proof.
  pose proof (dsin2_dcos2 a) as H. destruct v as [vx vy], w as [wx wy]. unfold pt2_dot. rred.
  revert H. generalize (dcos a) (dsin a); intros c s H. nsatz.
Qed.

(* ---- composition: a then b is a+b; -a undoes a ---- *)
Lemma rot_z_add (p : P3) a b : pt3_rotated_z (pt3_rotated_z p a) b = pt3_rotated_z p (a + b).
Proof. destruct p as [px py pz]. rred. rewrite dsin_plus, dcos_plus. f_equal; ring. Qed.
Lemma rot_x_add (p : P3) a b : pt3_rotated_x (pt3_rotated_x p a) b = pt3_rotated_x p (a + b).
Proof. destruct p as [px py pz]. rred. rewrite dsin_plus, dcos_plus. f_equal; ring. Qed.
Lemma rot_y_add (p : P3) a b : pt3_rotated_y (pt3_rotated_y p a) b = pt3_rotated_y p (a + b).
Proof. destruct p as [px py pz]. rred. rewrite dsin_plus, dcos_plus. f_equal; ring. Qed.
Lemma rot_2_add (p : P2) a b : pt2_rotated (pt2_rotated p a) b = pt2_rotated p (a + b).
Proof. destruct p as [px py]. rred. rewrite dsin_plus, dcos_plus. f_equal; ring. Qed.
Lemma rot_zero (p : P3) (q : P2) :
  pt3_rotated_x p 0 = p /\ pt3_rotated_y p 0 = p /\ pt3_rotated_z p 0 = p /\ pt2_rotated q 0 = q.
Proof. destruct p as [px py pz], q as [qx qy]. rred. rewrite dsin_0, dcos_0. repeat split; f_equal; ring. Qed.
Lemma rot_neg_inv (p : P3) (q : P2) a :
  pt3_rotated_x (pt3_rotated_x p a) (- a) = p /\ pt3_rotated_y (pt3_rotated_y p a) (- a) = p /\
  pt3_rotated_z (pt3_rotated_z p a) (- a) = p /\ pt2_rotated (pt2_rotated q a) (- a) = q.
Proof.
  rewrite rot_x_add, rot_y_add, rot_z_add, rot_2_add. replace (a + - a) with 0 by ring. apply rot_zero.
Qed.
Lemma rot_vec_add (u v : P3) a b : pt3_dot u u = 1 ->
  rodrigues u (dcos b) (dsin b) (rodrigues u (dcos a) (dsin a) v) = rodrigues u (dcos (a + b)) (dsin (a + b)) v.
Proof.
  intros Hu. rewrite dsin_plus, dcos_plus. destruct u as [ux uy uz], v as [vx vy vz]. revert Hu. rred.
  generalize (dcos a) (dsin a) (dcos b) (dsin b); intros ca sa cb sb Hu. f_equal; nsatz.
Qed.

(* ---- look_at_matrix_lh ---- *)
Definition acts (m : M4) (v : P3) : P3 := mt4_mul_pt3 m v.
Definition proper_rotation (m : M4) : Prop :=
  (forall v w, pt3_dot (acts m v) (acts m w) = pt3_dot v w) /\
  pt3_dot (pt3_cross (acts m (Pt3 1 0 0)) (acts m (Pt3 0 1 0))) (acts m (Pt3 0 0 1)) = 1.

Lemma frame_is_rotation (s f : P3) e1 e2 e3 :
  pt3_dot f f = 1 -> pt3_dot s s = 1 -> pt3_dot f s = 0 ->
  let u := pt3_cross f s in
  let m := Mt4 (Pt4 (x3 s) (y3 s) (z3 s) e1) (Pt4 (x3 u) (y3 u) (z3 u) e2) (Pt4 (x3 f) (y3 f) (z3 f) e3) (Pt4 0 0 0 1) in
  proper_rotation m /\ acts m (Pt3 0 0 1) = f /\ acts m (Pt3 1 0 0) = s.
Proof.
  destruct s as [sx sy sz], f as [fx fy fz]. unfold proper_rotation, acts. rred. intros Hf Hs Hfs.
  split; [split|split].
  - intros [vx vy vz] [wx wy wz]. rred. nsatz.
  - nsatz.
  - f_equal; ring.
  - f_equal; ring.
Qed.

Lemma pt3_is_zero_false (p : P3) : pt3_is_zero p = false -> pt3_nonzero p.
Proof.
  unfold pt3_is_zero, pt3_nonzero. cbn [neqb nzero NumR]. intros H.
  destruct (Reqb (x3 p) 0) eqn:Ex; [|left; apply Reqb_false; assumption].
  destruct (Reqb (y3 p) 0) eqn:Ey; [|right; left; apply Reqb_false; assumption].
  destruct (Reqb (z3 p) 0) eqn:Ez; [discriminate|right; right; apply Reqb_false; assumption].
Qed.
Lemma pt3_is_zero_true (p : P3) : pt3_is_zero p = true -> p = Pt3 0 0 0.
Proof.
  unfold pt3_is_zero. cbn [neqb nzero NumR]. intros H. destruct p as [px py pz]. cbn [x3 y3 z3] in H.
  apply andb_prop in H as [H Hz]. apply andb_prop in H as [Hx Hy].
  apply Reqb_true in Hx, Hy, Hz. subst. reflexivity.
Qed.

Lemma pt3_normalized_dot1 (a : P3) : pt3_nonzero a -> pt3_dot (pt3_normalized a) (pt3_normalized a) = 1.
Proof.
  intros Hn. pose proof (pt3_normalized_len1 a Hn) as H1. pose proof (pt3_len_sq (pt3_normalized a)) as H2.
  rewrite H1 in H2. unfold pt3_len2 in H2. lra.
Qed.

Definition direction (eye center : P3) : P3 := pt3_normalized (pt3_sub center eye).

Lemma pt3_sub_nonzero (a b : P3) : a <> b -> pt3_nonzero (pt3_sub b a).
Proof.
  destruct a as [ax ay az], b as [bx by_ bz]. intros Hne. unfold pt3_nonzero. rred.
  destruct (Req_dec bx ax) as [Hx|Hx]; [|left; lra].
  destruct (Req_dec by_ ay) as [Hy|Hy]; [|right; left; lra].
  destruct (Req_dec bz az) as [Hz|Hz]; [|right; right; lra].
  exfalso. apply Hne. subst. reflexivity.
Qed.

(* general case: up not parallel to the direction *)
Lemma look_at_rotation (eye center up : P3) :
  eye <> center ->
  let f := direction eye center in
  pt3_cross up f <> Pt3 0 0 0 ->
  let m := mt4_look_at_lh eye center up in
  proper_rotation m /\ acts m (Pt3 0 0 1) = f /\ pt3_dot f f = 1 /\ pt3_dot (acts m (Pt3 1 0 0)) up = 0.
Proof.
  intros Hne f Hnp m.
  assert (Hf : pt3_dot f f = 1) by (apply pt3_normalized_dot1, pt3_sub_nonzero; assumption).
  unfold m, mt4_look_at_lh. fold (direction eye center). fold f.
  destruct (pt3_is_zero (pt3_cross up f)) eqn:Ez.
  { apply pt3_is_zero_true in Ez. contradiction. }
  apply pt3_is_zero_false in Ez.
  set (s := pt3_normalized (pt3_cross up f)).
  assert (Hs : pt3_dot s s = 1) by (apply pt3_normalized_dot1; assumption).
  destruct (pt3_normalized_dir _ Ez) as [Hdir Hpos]. fold s in Hdir.
  assert (Hfs : pt3_dot f s = 0).
  { rewrite Hdir. generalize (/ pt3_len (pt3_cross up f)); intros k.
    destruct up as [ux uy uz], f as [fx fy fz]. rred. ring. }
  assert (Hsu : pt3_dot s up = 0).
  { rewrite Hdir. generalize (/ pt3_len (pt3_cross up f)); intros k.
    destruct up as [ux uy uz], f as [fx fy fz]. rred. ring. }
  pose proof (frame_is_rotation s f (- pt3_dot s eye) (- pt3_dot (pt3_cross f s) eye) (- pt3_dot f eye) Hf Hs Hfs) as [Hrot [Hz Hx]].
  cbv zeta in Hrot, Hz, Hx. rnum.
  split; [exact Hrot|]. split; [exact Hz|]. split; [exact Hf|]. rewrite Hx. exact Hsu.
Qed.

(* the library's own up = +Z with a vertical direction *)
Lemma look_at_vertical (eye center : P3) :
  eye <> center ->
  let f := direction eye center in
  (f = Pt3 0 0 1 \/ f = Pt3 0 0 (-1)) ->
  let m := mt4_look_at_lh eye center (Pt3 0 0 1) in
  proper_rotation m /\ acts m (Pt3 0 0 1) = f /\ pt3_dot (acts m (Pt3 1 0 0)) (Pt3 0 0 1) = 0.
Proof.
  intros Hne f Hv m. unfold m, mt4_look_at_lh. fold (direction eye center). fold f.
  destruct Hv as [Hv | Hv]; rewrite Hv.
  - replace (pt3_is_zero (pt3_cross (Pt3 0 0 1) (Pt3 0 0 1))) with true.
    2:{ unfold pt3_is_zero. rred. replace (0 * 1 - 1 * 0) with 0 by ring. replace (1 * 0 - 0 * 1) with 0 by ring.
        replace (0 * 0 - 0 * 0) with 0 by ring. unfold Reqb. destruct (Req_EM_T 0 0); [reflexivity|contradiction]. }
    replace (pt3_dot (Pt3 0 0 1) (Pt3 0 0 1) <? nzero)%num with false.
    2:{ symmetry. rred. cbn [nltb NumR]. apply Rltb_false. lra. }
    unfold proper_rotation, acts. rred. split; [split|split].
    + intros [vx vy vz] [wx wy wz]. rred. ring.
    + ring.
    + f_equal; ring.
    + ring.
  - replace (pt3_is_zero (pt3_cross (Pt3 0 0 1) (Pt3 0 0 (-1)))) with true.
    2:{ unfold pt3_is_zero. rred. replace (0 * -1 - 1 * 0) with 0 by ring. replace (1 * 0 - 0 * -1) with 0 by ring.
        replace (0 * 0 - 0 * 0) with 0 by ring. unfold Reqb. destruct (Req_EM_T 0 0); [reflexivity|contradiction]. }
    replace (pt3_dot (Pt3 0 0 1) (Pt3 0 0 (-1)) <? nzero)%num with true.
    2:{ symmetry. rred. cbn [nltb NumR]. apply Rltb_true. lra. }
    unfold proper_rotation, acts. cbn [nofZ NumR]. rred. unfold dcos, dsin, to_radians. cbn [nmul npi180 NumR nsin ncos].
    replace (180 * (PI / 180)) with PI by (field). rewrite cos_PI, sin_PI. split; [split|split].
    + intros [vx vy vz] [wx wy wz]. rred. ring.
    + ring.
    + f_equal; ring.
    + ring.
Qed.
